/-
  C16  Several hosts act as the sum of single hosts, weighted by competency.
  Model: Model/Multi.lean (MultiHostPool, CompetencyTable, PestHostTable, Config tables);
  predicates: Model/MultiPred.lean; lemmas: Lemmas/Multi.lean, Lemmas/MultiComp.lean.
  One open finding (F19): see `C16_single_host_stream_partial` / `C16_single_host_stream_full_fails`.
-/
import PopsModel.Lemmas.Multi
import PopsModel.Lemmas.MultiComp
namespace Pops

/-! ### sums -/

/-- The pool reports as infected and as total hosts the sums over its hosts (one host: that
    host's own numbers; concatenated host lists add up). -/
theorem C16_sums (a b : List Cell) (c : Cell) :
    multiInfectedAt a = sumL (a.map (·.i)) ∧
    multiTotalHostsAt a = sumL (a.map fun x => x.s + x.i) ∧
    sumsSpec a (multiInfectedAt a) (multiTotalHostsAt a) = true ∧
    multiInfectedAt [c] = c.i ∧ multiTotalHostsAt [c] = c.s + c.i ∧
    multiInfectedAt (a ++ b) = multiInfectedAt a + multiInfectedAt b ∧
    multiTotalHostsAt (a ++ b) = multiTotalHostsAt a + multiTotalHostsAt b := by
  have hs := mh_sumsSpec a
  have h2 : multiTotalHostsAt a = sumL (a.map fun x => x.s + x.i) := by
    unfold sumsSpec at hs
    simp only [Bool.and_eq_true, decide_eq_true_eq] at hs
    exact hs.2
  refine ⟨rfl, h2, hs, ?_, ?_, mh_infected_append a b, mh_total_append a b⟩
  · simp [multiInfectedAt]
  · simp [multiTotalHostsAt, Cell.totalHostsAt]

/-! ### landing -/

/-- A landing is handed to at most one host: the result is 0 or 1; with 0 nothing changes; with 1
    exactly the chosen host changes, by one S -> E/I transition, and it had a susceptible host. -/
theorem C16_at_most_one_host (cfg : MultiCfg) (ps : List HostParams) (env : MEnv) (cells : List Cell)
    (pick : Nat) (u : Rat) (cells' : List Cell) (k : Int) (n : Nat)
    (h : multiDisperserTo cfg ps env cells pick u = .ok (cells', k, n)) :
    atMostOneSpec ps cells cells' k = true ∧
    ((k = 0 ∧ cells' = cells) ∨
     (k = 1 ∧ ∃ h, h < cells.length ∧ h = landingHost cells.length pick ∧ 0 < (cells[h]!).s ∧
        cells' = cells.set h (landed (ps[h]!).mt (cells[h]!)) ∧
        landingSpec (ps[h]!).mt (cells[h]!) (cells'[h]!) 1 = true)) := by
  obtain ⟨suits, _, hc⟩ := mh_multi_ok_cases cfg ps env cells pick u _ h
  rcases hc with ⟨_, hr⟩ | ⟨_, _, hh, d0, hp, hr⟩
  · simp only [Prod.mk.injEq] at hr
    obtain ⟨rfl, rfl, rfl⟩ := hr
    refine ⟨by simp [atMostOneSpec], .inl ⟨rfl, rfl⟩⟩
  · obtain ⟨hlt, _, _, hland⟩ := mh_pick_lt cells.length pick hh d0 hp
    have hpos := mh_landingE_pos cfg ps cells suits hh u
    have hspec := mh_outcome_atMostOne ps cells hh (landingE cfg ps cells suits hh u) d0 (landingUsed cfg ps hh) hlt hpos
    rw [← hr] at hspec
    refine ⟨hspec, ?_⟩
    unfold outcome at hr
    simp only [Prod.mk.injEq] at hr
    obtain ⟨h1, h2, _⟩ := hr
    cases hE : landingE cfg ps cells suits hh u with
    | false =>
      simp only [hE, Bool.false_eq_true, if_false] at h1 h2
      exact .inl ⟨h2, h1⟩
    | true =>
      simp only [hE, if_true] at h1 h2
      refine .inr ⟨h2, hh, hlt, hland, hpos hE, h1, ?_⟩
      rw [h1, mh_getElem!_set_self cells hh _ hlt]
      exact mh_landingSpec_landed _ _

/-- The establishment event with several hosts: with the hosts' weights
    `susceptible / total population x own susceptibility x weather`, the landing establishes iff
    the combined weight is positive, the chosen host has a susceptible individual and the tester
    is below the combined weight ("land") or below the chosen host's own weight ("infect"). -/
theorem C16_establish_event (cfg : MultiCfg) (ps : List HostParams) (env : MEnv) (cells : List Cell)
    (pick : Nat) (u : Rat) (cells' : List Cell) (k : Int) (n : Nat)
    (h : multiDisperserTo cfg ps env cells pick u = .ok (cells', k, n)) :
    multiEstablishSpec cfg ps (hostWeights env cells) cells pick u k = true := by
  obtain ⟨suits, hs, hc⟩ := mh_multi_ok_cases cfg ps env cells pick u _ h
  have hw := mh_suits_eq_weights env cells suits hs
  rw [← hw]
  rcases hc with ⟨h0, hr⟩ | ⟨h0, _, hh, d0, hp, hr⟩
  · simp only [Prod.mk.injEq] at hr
    obtain ⟨_, rfl, _⟩ := hr
    simp [multiEstablishSpec, h0]
  · obtain ⟨_, _, _, hland⟩ := mh_pick_lt cells.length pick hh d0 hp
    have := mh_outcome_establish cfg ps cells suits pick hh d0 (landingUsed cfg ps hh) u h0 hland
    rw [← hr] at this
    exact this

theorem hostWeightsFrom_getElem (env : MEnv) (k : Nat) (cells : List Cell) (j : Nat) (hj : j < cells.length) :
    (hostWeightsFrom env k cells)[j]! = hostWeight env (k + j) (cells[j]!) := by
  induction cells generalizing k j with
  | nil => simp at hj
  | cons c rest ih =>
    cases j with
    | zero => simp [hostWeightsFrom]
    | succ j' =>
      have hj' : j' < rest.length := by simpa using hj
      have := ih (k + 1) j' hj'
      have e1 : k + (j' + 1) = k + 1 + j' := by omega
      rw [e1]
      simpa [hostWeightsFrom] using this

/-- Establishment in a host is scaled by that host's own susceptibility: the weight the pool
    computes for host `h` is `s_h / N x susceptibility_h x weather`, the susceptibility being the
    host's own entry of the pest-host table (1 without a table). -/
theorem C16_susceptibility (env : MEnv) (cells : List Cell) (l : List Rat)
    (h : suitabilities env cells = .ok l) :
    l = hostWeights env cells ∧
    (∀ j, j < cells.length →
      l[j]! = ((cells[j]!).s : Rat) / (env.n : Rat) * susOf env j * env.w.getD 1 ∧ 0 ≤ l[j]! ∧ l[j]! ≤ 1) ∧
    (∀ t j x, env.pht = some t → t.sus[j]? = some x → susOf env j = x) ∧
    (env.pht = none → ∀ j, susOf env j = 1) := by
  have hw := mh_suits_eq_weights env cells l h
  refine ⟨hw, ?_, ?_, ?_⟩
  · intro j hj
    obtain ⟨_, _, h3⟩ := mh_suitsFrom env 0 cells l h
    have hj' := h3 j hj
    rw [Nat.zero_add] at hj'
    obtain ⟨_, _, _, hv, h0, h1⟩ := mh_hostSuitability_ok env j (cells[j]!) (l[j]!) hj'
    exact ⟨by rw [hv]; rfl, h0, h1⟩
  · intro t j x ht hx
    simp [susOf, ht, List.getD_eq_getElem?_getD, hx]
  · intro hn j
    simp [susOf, hn]

/-- Input for which the combined suitability of a cell exceeds one is rejected. -/
theorem C16_suitability_over_one_rejected (cfg : MultiCfg) (ps : List HostParams) (env : MEnv) (cells : List Cell)
    (pick : Nat) (u : Rat) (l : List Rat) (h : suitabilities env cells = .ok l)
    (hover : sumR (hostWeights env cells) > 1) :
    multiDisperserTo cfg ps env cells pick u = .error .invalid_argument := by
  rw [← mh_suits_eq_weights env cells l h] at hover
  exact mh_multi_over cfg ps env cells pick u l h hover

/-- No establishment, no change and no generator call when the combined suitability is not
    positive (the early return before the host is picked). -/
theorem C16_no_suitability_no_draw (cfg : MultiCfg) (ps : List HostParams) (env : MEnv) (cells : List Cell)
    (pick : Nat) (u : Rat) (l : List Rat) (h : suitabilities env cells = .ok l) (h0 : sumR l ≤ 0) :
    multiDisperserTo cfg ps env cells pick u = .ok (cells, 0, 0) :=
  mh_multi_zero cfg ps env cells pick u l h h0

/-- A non-trivial instance: two hosts, the first with a susceptible individual, the second only
    infected; "land" with a stochastic test; the drawn host 0 receives the disperser (two generator
    calls: the pick and the uniform). -/
example :
    let cA : Cell := { s := 1, e := [], i := 0, r := 0, te := 0, mort := [0], died := 0, th := 1 }
    let cB : Cell := { s := 0, e := [], i := 1, r := 0, te := 0, mort := [1], died := 0, th := 1 }
    let env : MEnv := { n := 1, w := none, pht := none, comp := none }
    let p : HostParams := { mt := .si, sto := true, pEst := 0, rr := 1 }
    multiDisperserTo { arrival := .land, sto := true, pEst := 0 } [p, p] env [cA, cB] 0 0 =
      .ok ([{ cA with s := 0, i := 1, mort := [1] }, cB], 1, 2) := by
  intro cA cB env p
  have d1 : (1 : Rat) / 1 = 1 := by grind
  have d0 : (0 : Rat) / 1 = 0 := by grind
  have n1 : ¬ ((1 : Rat) < 0) := by decide
  have hs : suitabilities env [cA, cB] = .ok [1, 0] := by
    simp [suitabilities, suitabilitiesFrom, hostSuitability, MEnv.cellEnv, env, Cell.suitability, cA, cB, bind,
      Except.bind, pure, Except.pure, d1, d0, n1]
  have ht : sumR [(1 : Rat), 0] = 1 := by simp [sumR]; grind
  rw [mh_multi_eq _ _ _ _ _ _ [1, 0] 0 1 hs (by rw [ht]; decide) (by rw [ht]; decide) (by simp [pickHostByWeight])]
  simp [outcome, landingE, landingUsed, estB, canEstablish, ht, cA, p, landed, addLast]
  decide

/-! ### pests leaving / arriving -/

/-- `pests_from`: whatever per-host amounts the draw produces (within each host's infected,
    summing to min(count, available)), the total returned is their sum, never exceeds a
    non-negative request or any host's availability, and the hosts change by exactly those
    amounts. -/
theorem C16_split_bounded (cells : List Cell) (count : Int) (d : List Int) (hc : count < 4294967296)
    (hv : ValidSplit (cells.map (·.i)) count d) :
    (multiPestsFrom cells d).2 = sumL d ∧
    (multiPestsFrom cells d).2 = min (toUnsigned count) (sumL (cells.map (·.i))) ∧
    (0 ≤ count → (multiPestsFrom cells d).2 ≤ count ∧ (multiPestsFrom cells d).2 = min count (sumL (cells.map (·.i)))) ∧
    ListRel (fun c k => 0 ≤ k ∧ k ≤ c.i) cells d ∧
    pestsFromStateSpec cells (multiPestsFrom cells d).1 d = true ∧
    splitSpec (cells.map (·.i)) count d (multiPestsFrom cells d).2 = true := by
  obtain ⟨hrel, hsum⟩ := mh_validSplit_forall2 (·.i) cells count d hv
  rw [mh_pestsFrom_zip cells d hrel]
  refine ⟨rfl, hsum, ?_, hrel, by simp [pestsFromStateSpec], mh_forall2_splitSpec (·.i) cells count d hc hrel hsum⟩
  intro h0
  have : toUnsigned count = count := by unfold toUnsigned; omega
  rw [this] at hsum
  simp only
  omega

/-- `pests_to`: the same for arriving pests and susceptible hosts. -/
theorem C16_split_bounded_to (cells : List Cell) (count : Int) (d : List Int) (hc : count < 4294967296)
    (hv : ValidSplit (cells.map (·.s)) count d) :
    (multiPestsTo cells d).2 = sumL d ∧
    (multiPestsTo cells d).2 = min (toUnsigned count) (sumL (cells.map (·.s))) ∧
    (0 ≤ count → (multiPestsTo cells d).2 ≤ count ∧ (multiPestsTo cells d).2 = min count (sumL (cells.map (·.s)))) ∧
    ListRel (fun c k => 0 ≤ k ∧ k ≤ c.s) cells d ∧
    pestsToStateSpec cells (multiPestsTo cells d).1 d = true ∧
    splitSpec (cells.map (·.s)) count d (multiPestsTo cells d).2 = true := by
  obtain ⟨hrel, hsum⟩ := mh_validSplit_forall2 (·.s) cells count d hv
  rw [mh_pestsTo_zip cells d hrel]
  refine ⟨rfl, hsum, ?_, hrel, by simp [pestsToStateSpec], mh_forall2_splitSpec (·.s) cells count d hc hrel hsum⟩
  intro h0
  have : toUnsigned count = count := by unfold toUnsigned; omega
  rw [this] at hsum
  simp only
  omega

/-- A negative request is converted to `unsigned` by `draw_n_from_v`, so everything available is
    taken (the requested-count bound is stated for non-negative requests only). -/
theorem C16_split_negative_request (count : Int) (h0 : count < 0) (h1 : -2147483648 ≤ count) (total : Int)
    (ht : total ≤ 2147483647) : min (toUnsigned count) total = total := by
  unfold toUnsigned; omega

/-- A non-trivial instance: hosts with 2 and 3 infected, 4 requested, split 1 + 3. -/
example : ValidSplit [2, 3] 4 [1, 3] := by
  refine ⟨rfl, ?_, by decide⟩
  intro k hk
  have : k = 0 ∨ k = 1 := by simp at hk; omega
  rcases this with rfl | rfl <;> decide

/-! ### one host inside the wrapper -/

/-- A multi-host pool over ONE host returns the same result and leaves the same cell state as
    that host's own `disperser_to`, for both arrival behaviours: whenever the bare host returns,
    the wrapper returns the same 0/1 and the same cell; whenever the bare host throws, the wrapper
    throws the same exception. Domain: the host has a table entry (`cellEnv 0` succeeds), its
    susceptible count is not negative, the tester is not negative (u in [0,1), probability <= 1)
    and, for "land", the config carries the host's establishment settings. -/
theorem C16_single_host_result (cfg : MultiCfg) (p : HostParams) (env : MEnv) (c : Cell) (pick : Nat) (u : Rat)
    (e : EnvCell) (he : env.cellEnv 0 = .ok e) (hs : 0 ≤ c.s)
    (hcfg : cfg.arrival = .land → cfg.sto = p.sto ∧ cfg.pEst = p.pEst)
    (ht : 0 ≤ (if p.sto then u else 1 - p.pEst)) :
    (∀ c' k n, c.disperserTo p.mt e p.sto p.pEst u = .ok (c', k, n) →
      ∃ n', multiDisperserTo cfg [p] env [c] pick u = .ok ([c'], k, n')) ∧
    (∀ x, c.disperserTo p.mt e p.sto p.pEst u = .error x →
      multiDisperserTo cfg [p] env [c] pick u = .error x) := by
  have hm := mh_single cfg p env c pick u e he hs hcfg ht
  constructor
  · intro c' k n hb
    rw [hb] at hm
    exact ⟨_, hm⟩
  · intro x hb
    rw [hb] at hm
    exact hm

/-- Outside that domain the two differ: with a negative susceptible count the bare host returns 0
    while the wrapper asks for the suitability first and rejects it. -/
theorem C16_single_host_negative_susceptible :
    let c : Cell := { s := -1, e := [], i := 0, r := 0, te := 0, mort := [0], died := 0, th := 0 }
    let env : MEnv := { n := 1, w := none, pht := none, comp := none }
    let p : HostParams := { mt := .si, sto := false, pEst := 1, rr := 1 }
    let cfg : MultiCfg := { arrival := .infect, sto := false, pEst := 1 }
    c.disperserTo p.mt { n := 1, w := none, sus := none } p.sto p.pEst 0 = .ok (c, 0, 0) ∧
    multiDisperserTo cfg [p] env [c] 0 0 = .error .invalid_argument := by
  intro c env p cfg
  refine ⟨mh_dispTo_nonpos _ _ _ _ _ _ (by decide), ?_⟩
  apply mh_multi_err
  rw [mh_single_suits env c { n := 1, w := none, sus := none } rfl]
  have hv : c.suitability { n := 1, w := none, sus := none } = .error .invalid_argument := by
    unfold Cell.suitability
    have e1 : (((-1 : Int) : Rat) / ((1 : Int) : Rat) * (none : Option Rat).getD 1 * (none : Option Rat).getD 1) = -1 := by
      simp only [Option.getD_none]; grind
    have h : ((-1 : Rat) < 0 ∨ (-1 : Rat) > 1) := by decide
    simp only [c, e1, h, if_true]
  rw [hv]

/-- ... and the same number of generator calls (so the stream is left in the same state), unless
    the cell has susceptible hosts and suitability 0 (open finding F19). -/
theorem C16_single_host_stream_partial (cfg : MultiCfg) (p : HostParams) (env : MEnv) (c : Cell) (pick : Nat) (u : Rat)
    (e : EnvCell) (he : env.cellEnv 0 = .ok e) (hs : 0 ≤ c.s)
    (hcfg : cfg.arrival = .land → cfg.sto = p.sto ∧ cfg.pEst = p.pEst)
    (ht : 0 ≤ (if p.sto then u else 1 - p.pEst))
    (hsuit : ¬ (c.s > 0 ∧ c.suitability e = .ok 0))
    (c' : Cell) (k : Int) (n : Nat) (hb : c.disperserTo p.mt e p.sto p.pEst u = .ok (c', k, n)) :
    multiDisperserTo cfg [p] env [c] pick u = .ok ([c'], k, n) := by
  have hm := mh_single cfg p env c pick u e he hs hcfg ht
  rw [hb] at hm
  have hreg : f19Region c e = false := by
    cases hr : f19Region c e with
    | false => rfl
    | true =>
      exfalso; apply hsuit
      unfold f19Region at hr
      simp only [Bool.and_eq_true, decide_eq_true_eq] at hr
      refine ⟨hr.1, ?_⟩
      unfold Cell.suitability
      have h : ¬ ((0 : Rat) < 0 ∨ (0 : Rat) > 1) := by decide
      simp only [hr.2, h, if_false]
  rw [hreg] at hm
  exact hm

/-- The full statement, without the hypothesis on the suitability. -/
def C16_single_host_stream_full : Prop :=
  ∀ (cfg : MultiCfg) (p : HostParams) (env : MEnv) (c : Cell) (pick : Nat) (u : Rat) (e : EnvCell),
    env.cellEnv 0 = .ok e → 0 ≤ c.s →
    (cfg.arrival = .land → cfg.sto = p.sto ∧ cfg.pEst = p.pEst) →
    0 ≤ (if p.sto then u else 1 - p.pEst) →
    ∀ (c' : Cell) (k : Int) (n : Nat), c.disperserTo p.mt e p.sto p.pEst u = .ok (c', k, n) →
      multiDisperserTo cfg [p] env [c] pick u = .ok ([c'], k, n)

/-- In the region of F19 with stochastic establishment the bare host makes one generator call
    and the wrapper none (result and cell agree). -/
theorem C16_single_host_stream_gap (cfg : MultiCfg) (p : HostParams) (env : MEnv) (c : Cell) (pick : Nat) (u : Rat)
    (e : EnvCell) (he : env.cellEnv 0 = .ok e)
    (hcfg : cfg.arrival = .land → cfg.sto = p.sto ∧ cfg.pEst = p.pEst)
    (ht : 0 ≤ (if p.sto then u else 1 - p.pEst))
    (hpos : c.s > 0) (hz : c.suitability e = .ok 0) :
    c.disperserTo p.mt e p.sto p.pEst u = .ok (c, 0, if p.sto then 1 else 0) ∧
    multiDisperserTo cfg [p] env [c] pick u = .ok ([c], 0, 0) := by
  have hce : canEstablish 0 p.sto p.pEst u = false := by
    unfold canEstablish
    simp only [decide_eq_false_iff_not]
    grind
  have hb : c.disperserTo p.mt e p.sto p.pEst u = .ok (c, 0, if p.sto then 1 else 0) := by
    rw [mh_dispTo_pos _ _ _ _ _ _ 0 hpos hz]
    simp only [hce, Bool.false_eq_true, if_false]
  refine ⟨hb, ?_⟩
  have hm := mh_single cfg p env c pick u e he (by omega) hcfg ht
  rw [hb] at hm
  have hreg : f19Region c e = true := by
    obtain ⟨hv, _, _⟩ := mh_suitability_ok c e 0 hz
    unfold f19Region
    simp only [Bool.and_eq_true, decide_eq_true_eq]
    exact ⟨hpos, hv.symm⟩
  rw [hreg] at hm
  exact hm

/-- F19: the full statement fails. Witness: one susceptible host, weather coefficient 0,
    stochastic establishment: the bare host consumes one draw, the wrapper none. -/
theorem C16_single_host_stream_full_fails : ¬ C16_single_host_stream_full := by
  intro hfull
  let c : Cell := { s := 1, e := [], i := 0, r := 0, te := 0, mort := [0], died := 0, th := 1 }
  let env : MEnv := { n := 1, w := some 0, pht := none, comp := none }
  let e : EnvCell := { n := 1, w := some 0, sus := none }
  let p : HostParams := { mt := .si, sto := true, pEst := 0, rr := 1 }
  let cfg : MultiCfg := { arrival := .infect, sto := true, pEst := 0 }
  have he : env.cellEnv 0 = .ok e := rfl
  have hz : c.suitability e = .ok 0 := by
    unfold Cell.suitability
    have e1 : (((1 : Int) : Rat) / ((1 : Int) : Rat) * (none : Option Rat).getD 1 * (some (0 : Rat)).getD 1) = 0 := by
      simp
    have h : ¬ ((0 : Rat) < 0 ∨ (0 : Rat) > 1) := by decide
    simp only [c, e, e1, h, if_false]
  have hcfg : cfg.arrival = .land → cfg.sto = p.sto ∧ cfg.pEst = p.pEst := fun _ => ⟨rfl, rfl⟩
  have ht : (0 : Rat) ≤ (if p.sto then (0 : Rat) else 1 - p.pEst) := by simp [p]
  obtain ⟨hb, hm⟩ := C16_single_host_stream_gap cfg p env c 0 0 e he hcfg ht (by decide) hz
  have := hfull cfg p env c 0 0 e he (by decide) hcfg ht c 0 _ hb
  rw [hm] at this
  simp only [Except.ok.injEq, Prod.mk.injEq, true_and] at this
  revert this
  decide

example : ∃ (cfg : MultiCfg) (p : HostParams) (env : MEnv) (c : Cell) (e : EnvCell),
    env.cellEnv 0 = .ok e ∧ 0 < c.s ∧ (cfg.arrival = .land → cfg.sto = p.sto ∧ cfg.pEst = p.pEst) ∧
    c.suitability e = .ok 0 :=
  ⟨{ arrival := .land, sto := true, pEst := 0 }, { mt := .si, sto := true, pEst := 0, rr := 1 },
   { n := 1, w := some 0, pht := none, comp := none },
   { s := 1, e := [], i := 0, r := 0, te := 0, mort := [0], died := 0, th := 1 },
   { n := 1, w := some 0, sus := none }, rfl, by decide, fun _ => ⟨rfl, rfl⟩, by
    unfold Cell.suitability
    have e1 : (((1 : Int) : Rat) / ((1 : Int) : Rat) * (none : Option Rat).getD 1 * (some (0 : Rat)).getD 1) = 0 := by
      simp
    have h : ¬ ((0 : Rat) < 0 ∨ (0 : Rat) > 1) := by decide
    simp only [e1, h, if_false]⟩

/-! ### competency -/

/-- Complete table: the lookup returns the score of the row matching the host combination
    present in the cell (the last one, should a combination be listed twice), for every asking
    host; a combination that is not listed is an out_of_range error (`std::map::at`). -/
theorem C16_competency_complete (pre post : List CompRow) (r : CompRow) (rows : List CompRow) (presence : List Bool)
    (host : Nat) :
    ((∀ r' ∈ post, r'.presence ≠ r.presence) →
      (CompetencyTable.complete (pre ++ r :: post)).competencyAt r.presence host = .ok r.competency) ∧
    ((∀ r' ∈ rows, r'.presence ≠ presence) →
      (CompetencyTable.complete rows).competencyAt presence host = .error .out_of_range) ∧
    (competencySpec (.complete rows) presence host =
      match (CompetencyTable.complete rows).competencyAt presence host with
      | .ok k => some k
      | .error _ => none) := by
  refine ⟨fun h => mc_completeLookup_row pre post r h, fun h => mc_completeLookup_missing rows presence h,
    mc_competencyAt_spec _ _ _⟩

/-- Partial table: when every row that lists the asking host has one column per host, the lookup
    returns the maximum of the scores of the eligible rows - those that list the asking host and
    whose listed hosts are all present - and 0 when there is none. -/
theorem C16_competency_partial (rows : List CompRow) (presence : List Bool) (host : Nat)
    (hfit : ∀ r ∈ rows, r.presence.getD host false = true → r.presence.length = presence.length) :
    ∃ v, (CompetencyTable.part rows).competencyAt presence host = .ok v ∧ v = maxEligible rows presence host ∧
      0 ≤ v ∧
      (∀ r ∈ rows, rowEligible presence host r = true → r.competency ≤ v) ∧
      (v = 0 ∨ ∃ r ∈ rows, rowEligible presence host r = true ∧ r.competency = v) ∧
      ((∀ r ∈ rows, rowEligible presence host r = false) → v = 0) := by
  refine ⟨maxEligible rows presence host, ?_, rfl, ?_⟩
  · simp only [CompetencyTable.competencyAt, findCompetency]
    rw [mc_from_fit presence host 0 rows hfit]; rfl
  · have hm := mc_isMaxEligible rows presence host
    unfold isMaxEligible at hm
    simp only [Bool.and_eq_true, decide_eq_true_eq, List.all_eq_true, Bool.or_eq_true, Bool.not_eq_true',
      List.any_eq_true] at hm
    obtain ⟨⟨h0, hub⟩, hatt⟩ := hm
    refine ⟨h0, ?_, ?_, ?_⟩
    · intro r hr he
      rcases hub r hr with h | h
      · rw [he] at h; cases h
      · exact h
    · rcases hatt with h | ⟨r, hr, he, hv⟩
      · exact .inl h
      · exact .inr ⟨r, hr, he, hv⟩
    · intro hnone
      rcases hatt with h | ⟨r, hr, he, _⟩
      · exact h
      · rw [hnone r hr] at he; cases he

/-- A row that lists the asking host but has a different number of columns than there are hosts
    makes the lookup fail with invalid_argument. -/
theorem C16_competency_size_mismatch (rows : List CompRow) (presence : List Bool) (host : Nat)
    (hbad : ∃ r ∈ rows, r.presence.getD host false = true ∧ r.presence.length ≠ presence.length) :
    (CompetencyTable.part rows).competencyAt presence host = .error .invalid_argument := by
  simp only [CompetencyTable.competencyAt, findCompetency]
  exact mc_from_unfit presence host 0 rows hbad

/-- Dispersers produced by the pool = sum over the hosts of round(reproductive rate x weather x
    competency of the host combination present x infected of that host): the specification
    evaluated by the driver (`dispersersSpec`, built on `competencySpec`) is what the model of
    `dispersers_from` computes, including the rejected lookups. -/
theorem C16_competency_scaling (env : MEnv) (ps : List HostParams) (cells : List Cell) :
    dispersersSpec env ps cells =
      match multiDispersersFrom env ps cells with
      | .ok v => some v
      | .error _ => none :=
  mc_dispersersLoop_spec env (hostPresence cells) 0 ps cells

/-- One host's share: nothing without infection, otherwise the rounded product. -/
theorem C16_host_dispersers (env : MEnv) (presence : List Bool) (host : Nat) (p : HostParams) (c : Cell) (t : CompetencyTable)
    (k : Rat) (ht : env.comp = some t) (hk : t.competencyAt presence host = .ok k) :
    hostDispersersFrom env presence host p c =
      .ok (if c.i ≤ 0 then 0 else lround (p.rr * env.w.getD 1 * k * (c.i : Rat))) := by
  unfold hostDispersersFrom
  by_cases hi : c.i ≤ 0
  · simp only [hi, if_true]
  · simp only [hi, if_false, ht, hk, bind, Except.bind, pure, Except.pure, Cell.dispersersFromDet]

/-- A non-trivial instance: two hosts, rows {host 0 alone: 1, both: 2}. -/
example :
    findCompetency [⟨[true, false], 1⟩, ⟨[true, true], 2⟩] [true, true] 0 = .ok 2 ∧
    findCompetency [⟨[true, false], 1⟩, ⟨[true, true], 2⟩] [true, false] 0 = .ok 1 ∧
    findCompetency [⟨[true, false], 1⟩, ⟨[true, true], 2⟩] [true, false] 1 = .ok 0 ∧
    rowEligible [true, false] 0 ⟨[true, false], 1⟩ = true ∧ rowEligible [true, false] 0 ⟨[true, true], 2⟩ = false := by
  have h1 : ¬ ((1 : Rat) ≤ 0) := by decide
  have h2 : ¬ ((2 : Rat) ≤ 1) := by decide
  refine ⟨?_, ?_, ?_, by decide, by decide⟩ <;>
    simp [findCompetency, findCompetencyFrom, findCompetencyStep, requiredPresent, h1, h2]

/-! ### mortality -/

/-- Rates and time lags of the pest-host table apply to their own host only: when the pool's
    `apply_mortality_at(row, col)` succeeds, host `h` ends in exactly the state its own
    `apply_mortality_at(row, col, rate_h, lag_h)` produces from its own cell. Without a table the
    call is rejected. -/
theorem C16_per_host_mortality (env : MEnv) (cells cells' : List Cell) :
    (∀ t, env.pht = some t → multiApplyMortality env cells = .ok cells' →
      cells'.length = cells.length ∧
      ∀ h, h < cells.length → ∃ rate lag, t.rate[h]? = some rate ∧ t.lag[h]? = some lag ∧
        (cells[h]!).applyMortality rate lag = .ok (cells'[h]!)) ∧
    (env.pht = none → cells ≠ [] → multiApplyMortality env cells = .error .invalid_argument) := by
  constructor
  · intro t ht hm
    obtain ⟨h1, h2⟩ := mh_mortFrom env 0 cells cells' hm
    refine ⟨h1, ?_⟩
    intro h hh
    have := h2 h hh
    rw [Nat.zero_add] at this
    exact mh_hostMort_ok env t h _ _ ht this
  · intro hn hne
    cases cells with
    | nil => exact absurd rfl hne
    | cons c rest =>
      simp only [multiApplyMortality, applyMortalityFrom, mh_hostMort_none env 0 c hn, bind, Except.bind]

/-- A non-trivial instance: two hosts with rates 1 and 0: the first loses its infected host, the
    second is untouched. -/
example :
    let c : Cell := { s := 0, e := [], i := 1, r := 0, te := 0, mort := [1], died := 0, th := 1 }
    let env : MEnv := { n := 1, w := none, pht := some { sus := [1, 1], rate := [1, 0], lag := [0, 0] }, comp := none }
    multiApplyMortality env [c, c] = .ok [{ c with i := 0, mort := [0], died := 1, th := 0 }, c] := by
  intro c env; rfl

/-! ### configuration tables -/

/-- `read_pest_host_table` accepts exactly the tables whose rows have at least three values and a
    susceptibility in [0, 1]; `read_competency_table` exactly those whose rows all have the size
    of the first row and at least two values; every rejection is an invalid_argument; a
    competency table is complete iff it has 2^(number of host columns) rows; only the arrival
    behaviours "infect" and "land" are accepted. -/
theorem C16_table_validation (pv cv : List (List Rat)) (rows : List CompRow) (r : CompRow) (name : String) :
    (((readPestHostTable pv).2 = none ↔ pv.all phtRowOK = true) ∧
     (∀ e, (readPestHostTable pv).2 = some e → e = .invalid_argument)) ∧
    (((readCompetencyTable cv).2 = none ↔ ∀ row ∈ cv, 2 ≤ row.length ∧ row.length = (cv.headD []).length) ∧
     (∀ e, (readCompetencyTable cv).2 = some e → e = .invalid_argument)) ∧
    (competencyTableIsComplete (r :: rows) = true ↔ (r :: rows).length = 2 ^ r.presence.length) ∧
    competencyTableIsComplete [] = false ∧
    ((∃ a, arrivalFromString name = .ok a) ↔ (name = "infect" ∨ name = "land")) := by
  obtain ⟨p1, p2, _⟩ := mc_readPht pv
  refine ⟨⟨p1, p2⟩, mc_readComp cv, by simp [competencyTableIsComplete], rfl, ?_⟩
  unfold arrivalFromString
  by_cases h1 : name = "infect"
  · simp [h1]
  · by_cases h2 : name = "land"
    · simp [h2]
    · simp [h1, h2]

/-- `move_hosts_from_to` moves hosts of the first host pool only. -/
theorem C16_move_first_host_only (s0 d0 : Cell) (srest drest : List Cell) (count : Int) (d : ClassDraw)
    (drawE drawM : List Int) :
    multiMoveHosts (s0 :: srest) (d0 :: drest) count d drawE drawM =
      ((moveHosts s0 d0 count d drawE drawM).1 :: srest, (moveHosts s0 d0 count d drawE drawM).2.1 :: drest,
       (moveHosts s0 d0 count d drawE drawM).2.2) := rfl

end Pops
