/-
  C11, last sentence: rates and lags given per host in the pest-host table apply to that host only
  - stated from the configuration rows (`Config::read_pest_host_table`) through the table
  constructor `PestHostTable(config, environment)` to the pool-level mortality call.
-/
import PopsModel.Props.C16
namespace Pops

/-- With the pest-host table built from the configuration rows, the pool-level
    `apply_mortality_at(row, col)` leaves host `h` in exactly the state that host's own
    `apply_mortality_at(row, col, rate_h, lag_h)` produces with the rate and the (truncated) time lag
    of ROW `h` - no other row, and no global parameter, enters. -/
theorem C11_per_host (env : MEnv) (rows : List PestHostRow) (cells cells' : List Cell)
    (ht : env.pht = some (PestHostTable.ofConfig rows))
    (hm : multiApplyMortality env cells = .ok cells') (h : Nat) (hh : h < cells.length) :
    ∃ row, rows[h]? = some row ∧
      (cells[h]!).applyMortality row.rate (truncToInt row.lag) = .ok (cells'[h]!) := by
  obtain ⟨_, hall⟩ := (C16_per_host_mortality env cells cells').1 _ ht hm
  obtain ⟨rate, lag, hr, hl, happ⟩ := hall h hh
  simp only [PestHostTable.ofConfig, List.getElem?_map] at hr hl
  cases hrow : rows[h]? with
  | none => rw [hrow] at hr; cases hr
  | some row =>
    rw [hrow] at hr hl
    simp only [Option.map_some, Option.some.injEq] at hr hl
    exact ⟨row, rfl, by rw [hr, hl]; exact happ⟩

/-- Two hosts, rows (rate 1, lag 0) and (rate 1/2, lag 1): the first host's infected die, the second
    host's single cohort lies within its own lag and is untouched (with the first row's lag it would
    have died). -/
example :
    let c : Cell := { s := 0, e := [], i := 1, r := 0, te := 0, mort := [1], died := 0, th := 1 }
    let rows : List PestHostRow := [{ sus := 1, rate := 1, lag := 0 }, { sus := 1, rate := 1, lag := 1 }]
    let env : MEnv := { n := 1, w := none, pht := some (PestHostTable.ofConfig rows), comp := none }
    multiApplyMortality env [c, c] = .ok [{ c with i := 0, mort := [0], died := 1, th := 0 }, c] := by
  intro c rows env; rfl

end Pops
