/-
  C16 at the level of `Model::run_step` with several hosts: the single-host results lifted to a
  list of hosts. Model and predicates: Model/MModelPred.lean (on top of Model/Multi.lean and
  Model/RunStep.lean); lemmas: Lemmas/MModel.lean. The driver (Driver/MModelEng.lean) evaluates
  `modelLedgerOK`, `poolSumsOK`, `atMostOneSpec` per landing, `landSpreadOK` per spread block,
  `generatedSpec`, and per host the single-host predicates, on the implementation's observed states.
-/
import PopsModel.Lemmas.MModel
import PopsModel.Props.C05OffSeason
namespace Pops
open Pops.MM

/-! ### C01 over all hosts -/

/-- Conservation over several hosts: if every host's history is a valid single-host history
    (the hypotheses of `C01_history`: consistent start, actions in their domain along the run),
    then summed over ALL hosts and cells, hosts after = hosts before - hosts reported dead -
    hosts taken out by removal treatments; both sinks are non-negative, nothing is ever created;
    and the ledger predicate the driver evaluates per action block holds for the class of the
    block (mortality block: no removals; reclassifying block: neither). -/
theorem C16_model_conservation (runs : List HostRun) (hv : ∀ r ∈ runs, r.valid) :
    let before : MLand := runs.map (·.start)
    let after : MLand := runs.map (·.stop)
    let removed : Int := sumL (runs.map HostRun.removed)
    after.hosts = before.hosts - (after.died - before.died) - removed ∧
    0 ≤ removed ∧ before.died ≤ after.died ∧ after.hosts ≤ before.hosts ∧
    (removed = 0 → modelLedgerOK .death before after = true) ∧
    (after.died = before.died → modelLedgerOK .removal before after = true) ∧
    (removed = 0 → after.died = before.died → modelLedgerOK .reclassify before after = true) := by
  intro before after removed
  have key : after.hosts = before.hosts - (after.died - before.died) - removed ∧
      0 ≤ removed ∧ before.died ≤ after.died ∧ after.hosts ≤ before.hosts := by
    show MLand.hosts (runs.map (·.stop)) = MLand.hosts (runs.map (·.start)) -
        (MLand.died (runs.map (·.stop)) - MLand.died (runs.map (·.start))) - sumL (runs.map HostRun.removed) ∧
      0 ≤ sumL (runs.map HostRun.removed) ∧ MLand.died (runs.map (·.start)) ≤ MLand.died (runs.map (·.stop)) ∧
      MLand.hosts (runs.map (·.stop)) ≤ MLand.hosts (runs.map (·.start))
    induction runs with
    | nil => simp [MLand.hosts, MLand.died]
    | cons r rest ih =>
      obtain ⟨hinv, hu, hd, hr⟩ := hv r List.mem_cons_self
      obtain ⟨a1, a2, a3, a4⟩ := C01_history r.ops r.start r.stop hinv hu hd hr
      obtain ⟨b1, b2, b3, b4⟩ := ih (fun x hx => hv x (List.mem_cons_of_mem _ hx))
      simp only [MLand.hosts, MLand.died, List.map_cons, sumL_cons, HostRun.removed] at *
      omega
  obtain ⟨k1, k2, k3, k4⟩ := key
  refine ⟨k1, k2, k3, k4, ?_, ?_, ?_⟩
  · intro h0
    simp only [modelLedgerOK, Bool.and_eq_true, decide_eq_true_eq]
    omega
  · intro hd
    simp only [modelLedgerOK, Bool.and_eq_true, decide_eq_true_eq]
    omega
  · intro h0 hd
    simp only [modelLedgerOK, Bool.and_eq_true, decide_eq_true_eq]
    omega

/-- The same for whole model steps: every host runs its own list of action generators (its share
    of `Model::run_step`, with its own mortality rate and lag, the landings handed to it, ...);
    `C01_generators` per host gives conservation over all hosts, and every host stays consistent. -/
theorem C16_model_step_conservation (runs : List HostGens) (hv : ∀ r ∈ runs, r.valid) :
    let before : MLand := runs.map (·.start)
    let after : MLand := runs.map (·.stop)
    let removed : Int := sumL (runs.map HostGens.removed)
    after.hosts = before.hosts - (after.died - before.died) - removed ∧
    0 ≤ removed ∧ before.died ≤ after.died ∧ after.hosts ≤ before.hosts ∧
    (∀ r ∈ runs, r.stop.inv ∧ r.stop.uniform) := by
  intro before after removed
  show MLand.hosts (runs.map (·.stop)) = MLand.hosts (runs.map (·.start)) -
      (MLand.died (runs.map (·.stop)) - MLand.died (runs.map (·.start))) - sumL (runs.map HostGens.removed) ∧
    0 ≤ sumL (runs.map HostGens.removed) ∧ MLand.died (runs.map (·.start)) ≤ MLand.died (runs.map (·.stop)) ∧
    MLand.hosts (runs.map (·.stop)) ≤ MLand.hosts (runs.map (·.start)) ∧ (∀ r ∈ runs, r.stop.inv ∧ r.stop.uniform)
  induction runs with
  | nil => simp [MLand.hosts, MLand.died]
  | cons r rest ih =>
    obtain ⟨hinv, hu, hd, hr⟩ := hv r List.mem_cons_self
    obtain ⟨a1, a2, a3, a4, a5, a6⟩ := C01_generators r.gens r.start r.stop hinv hu hd hr
    obtain ⟨b1, b2, b3, b4, b5⟩ := ih (fun x hx => hv x (List.mem_cons_of_mem _ hx))
    refine ⟨?_, ?_, ?_, ?_, ?_⟩
    · simp only [MLand.hosts, MLand.died, List.map_cons, sumL_cons, HostGens.removed] at *; omega
    · simp only [MLand.hosts, MLand.died, List.map_cons, sumL_cons, HostGens.removed] at *; omega
    · simp only [MLand.hosts, MLand.died, List.map_cons, sumL_cons] at *; omega
    · simp only [MLand.hosts, MLand.died, List.map_cons, sumL_cons] at *; omega
    · intro x hx
      rcases List.mem_cons.mp hx with rfl | hx
      · exact ⟨a5, a6⟩
      · exact b5 x hx

/-! #### a non-trivial instance: two hosts, mortality on one, a removal treatment on the other -/

/-- Host A: one cell, 3 susceptible and 2 infected hosts in the oldest of two mortality cohorts;
    mortality with rate 1, lag 0 kills both. -/
def MM.c16mRunA : HostRun :=
  { ops := [.at 0 (.mortality 1 0)], start := [⟨3, [], 2, 0, 0, [2, 0], 0, 5⟩], stop := [⟨3, [], 0, 0, 0, [0, 0], 2, 3⟩] }

/-- Host B: one cell, 4 susceptible and 2 infected; a removal treatment with coefficient 1/2 takes
    out 2 susceptible and 1 infected host. -/
def MM.c16mRunB : HostRun :=
  { ops := [.at 0 (.simpleTreat (1/2) .ratio)], start := [⟨4, [], 2, 0, 0, [2, 0], 0, 6⟩], stop := [⟨2, [], 1, 0, 0, [1, 0], 0, 3⟩] }

theorem MM.c16mRunA_valid : c16mRunA.valid := by
  refine ⟨?_, ?_, ?_, eq_ok_of_runYields (by decide +kernel)⟩
  · intro c hc
    simp only [c16mRunA, List.mem_singleton] at hc
    subst hc
    exact ⟨by decide, by decide⟩
  · intro a ha b hb
    simp only [c16mRunA, List.mem_singleton] at ha hb
    subst ha; subst hb
    exact ⟨rfl, rfl⟩
  · refine domainAlong_of_static _ ?_ _
    intro op hop x
    simp only [c16mRunA, List.mem_singleton] at hop
    subst hop
    intro c _
    exact ⟨by decide, by decide, by decide⟩

theorem MM.c16mRunB_valid : c16mRunB.valid := by
  refine ⟨?_, ?_, ?_, eq_ok_of_runYields (by decide +kernel)⟩
  · intro c hc
    simp only [c16mRunB, List.mem_singleton] at hc
    subst hc
    exact ⟨by decide, by decide⟩
  · intro a ha b hb
    simp only [c16mRunB, List.mem_singleton] at ha hb
    subst ha; subst hb
    exact ⟨rfl, rfl⟩
  · refine domainAlong_of_static _ ?_ _
    intro op hop x
    simp only [c16mRunB, List.mem_singleton] at hop
    subst hop
    intro c _
    exact half_in_unit

/-- Both hosts together: 11 hosts before, 6 after, 2 reported dead, 3 removed by the treatment. -/
example :
    (∀ r ∈ [c16mRunA, c16mRunB], r.valid) ∧
    MLand.hosts [c16mRunA.start, c16mRunB.start] = 11 ∧ MLand.hosts [c16mRunA.stop, c16mRunB.stop] = 6 ∧
    MLand.died [c16mRunA.stop, c16mRunB.stop] - MLand.died [c16mRunA.start, c16mRunB.start] = 2 ∧
    sumL ([c16mRunA, c16mRunB].map HostRun.removed) = 3 := by
  have hv : ∀ r ∈ [c16mRunA, c16mRunB], r.valid := by
    intro r hr
    simp only [List.mem_cons, List.not_mem_nil, or_false] at hr
    rcases hr with rfl | rfl
    · exact c16mRunA_valid
    · exact c16mRunB_valid
  have h := (C16_model_conservation [c16mRunA, c16mRunB] hv).1
  have e1 : MLand.hosts [c16mRunA.start, c16mRunB.start] = 11 := by decide +kernel
  have e2 : MLand.hosts [c16mRunA.stop, c16mRunB.stop] = 6 := by decide +kernel
  have e3 : MLand.died [c16mRunA.stop, c16mRunB.stop] - MLand.died [c16mRunA.start, c16mRunB.start] = 2 := by decide +kernel
  refine ⟨hv, e1, e2, e3, ?_⟩
  simp only [List.map_cons, List.map_nil] at h ⊢
  omega

/-- Whole model steps: the SEI instance of Props/C05OffSeason.lean (survival rate, removal treatment
    and mortality in one step) as one host, next to a second host that only has mortality. -/
example :
    let a : HostGens := { gens := stepGens c05OffCfg c05OffInp 0, start := c05OffLand, stop := [⟨7, [0, 1], 1, 0, 1, [1, 0], 0, 9⟩] }
    let b : HostGens := { gens := [fun _ => c16mRunA.ops], start := c16mRunA.start, stop := c16mRunA.stop }
    (∀ r ∈ [a, b], r.valid) := by
  intro a b r hr
  simp only [List.mem_cons, List.not_mem_nil, or_false] at hr
  rcases hr with rfl | rfl
  · refine ⟨?_, ?_, c05Off_domain, c05Off_run⟩
    · intro c hc
      simp only [a, c05OffLand, List.mem_singleton] at hc
      subst hc
      exact ⟨by decide, by decide⟩
    · intro x hx y hy
      simp only [a, c05OffLand, List.mem_singleton] at hx hy
      subst hx; subst hy
      exact ⟨rfl, rfl⟩
  · obtain ⟨h1, h2, h3, h4⟩ := c16mRunA_valid
    refine ⟨h1, h2, ⟨h3, fun _ _ => trivial⟩, ?_⟩
    show runGens [fun _ => c16mRunA.ops] c16mRunA.start = .ok c16mRunA.stop
    simp only [runGens, h4, bind, Except.bind]

/-! ### C16 sums at pool level -/

/-- What the multi-host pool reports per cell are the sums over its hosts, whatever state the
    hosts are in: `infected_at` / `total_hosts_at` of cell `k` are the sums of the hosts' values at
    `k` (the predicate the driver evaluates holds), and summed over the raster they are the sums
    over the hosts of each host's own raster sums. -/
theorem C16_model_sums (m : MLand) (n : Nat) (hlen : ∀ l ∈ m, l.length = n) :
    poolSumsOK m (poolInfected m n) (poolTotalHosts m n) = true ∧
    (∀ k, k < n → (poolInfected m n)[k]! = sumL (m.map fun l => (l[k]!).i) ∧
                  (poolTotalHosts m n)[k]! = sumL (m.map fun l => (l[k]!).s + (l[k]!).i)) ∧
    sumL (poolInfected m n) = sumL (m.map fun l => sumL (l.map (·.i))) ∧
    sumL (poolTotalHosts m n) = sumL (m.map fun l => sumL (l.map fun c => c.s + c.i)) := by
  refine ⟨poolSumsOK_self m n, fun k hk => ⟨poolInfected_getElem m n k hk, poolTotalHosts_getElem m n k hk⟩, ?_, ?_⟩
  · have := sum_cells_hosts m n (·.i) hlen
    simpa [poolInfected, multiInfectedAt] using this
  · have := sum_cells_hosts m n Cell.totalHostsAt hlen
    have e : (fun c : Cell => c.s + c.i) = Cell.totalHostsAt := rfl
    rw [e]
    simpa [poolTotalHosts, multiTotalHostsAt] using this

/-- ... in particular after any per-host histories (any actions, any interleaving per host):
    histories keep the raster shape, so the sums are those of the states the hosts ended in. -/
theorem C16_model_sums_after_histories (runs : List HostRun) (n : Nat)
    (hok : ∀ r ∈ runs, runOps r.ops r.start = .ok r.stop) (hlen : ∀ r ∈ runs, r.start.length = n) :
    let after : MLand := runs.map (·.stop)
    poolSumsOK after (poolInfected after n) (poolTotalHosts after n) = true ∧
    sumL (poolInfected after n) = sumL (after.map fun l => sumL (l.map (·.i))) ∧
    sumL (poolTotalHosts after n) = sumL (after.map fun l => sumL (l.map fun c => c.s + c.i)) := by
  intro after
  have hl : ∀ l ∈ after, l.length = n := by
    intro l hl
    obtain ⟨r, hr, rfl⟩ := List.mem_map.mp hl
    rw [runOps_length r.ops r.start r.stop (hok r hr), hlen r hr]
  obtain ⟨h1, _, h3, h4⟩ := C16_model_sums after n hl
  exact ⟨h1, h3, h4⟩

/-- Two hosts on a 1 x 2 raster: the pool reports [3, 1] infected and [8, 5] total hosts. -/
example :
    let m : MLand := [[⟨4, [], 2, 0, 0, [2], 0, 6⟩, ⟨1, [], 0, 0, 0, [0], 0, 1⟩],
                      [⟨1, [], 1, 0, 0, [1], 0, 2⟩, ⟨3, [], 1, 0, 0, [1], 0, 4⟩]]
    (∀ l ∈ m, l.length = 2) ∧ poolInfected m 2 = [3, 1] ∧ poolTotalHosts m 2 = [8, 5] ∧
    poolSumsOK m [3, 1] [8, 5] = true ∧ poolSumsOK m [3, 2] [8, 5] = false := by
  intro m
  refine ⟨?_, by decide +kernel, by decide +kernel, by decide +kernel, by decide +kernel⟩
  intro l hl
  simp only [m, List.mem_cons, List.not_mem_nil, or_false] at hl
  rcases hl with rfl | rfl <;> rfl

/-! ### C16 landings -/

/-- One landing on the landscape (`MultiHostPool::disperser_to` at cell `ld.k`): the result is 0 or
    1; with 0 nothing changes; with 1 exactly one host of exactly that cell changes, by one
    S -> E/I transition, and it had a susceptible individual. The per-landing predicate
    (`landingStepOK`) and the aggregate predicate (`landSpreadOK`) the driver evaluates hold, and
    the susceptible hosts consumed equal the result. -/
theorem C16_model_landing_one_host (cfg : MultiCfg) (ps : List HostParams) (land : CLand) (ld : Landing)
    (land' : CLand) (r : Int) (h : landAt cfg ps land ld = .ok (land', r)) :
    landingStepOK ps land land' = true ∧ landSpreadOK land land' = true ∧ sLostTotal land land' = r ∧
    ((r = 0 ∧ land' = land) ∨
     (r = 1 ∧ ∃ cells hh, land[ld.k]? = some cells ∧ hh < cells.length ∧ 0 < (cells[hh]!).s ∧
        land' = land.set ld.k (cells.set hh (landed (ps[hh]!).mt (cells[hh]!))))) := by
  unfold landAt at h
  cases hk : land[ld.k]? with
  | none =>
    rw [hk] at h
    simp only [Except.ok.injEq, Prod.mk.injEq] at h
    obtain ⟨rfl, rfl⟩ := h
    exact ⟨by simp [landingStepOK], (landSpreadOK_iff _ _).2 (LandSpread.refl _), sLostTotal_refl _, .inl ⟨rfl, rfl⟩⟩
  | some cells =>
    rw [hk] at h
    simp only at h
    cases hm : multiDisperserTo cfg ps ld.env cells ld.pick ld.u with
    | error e => rw [hm] at h; cases h
    | ok res =>
      obtain ⟨cells', r', n⟩ := res
      rw [hm] at h
      simp only [Except.ok.injEq, Prod.mk.injEq] at h
      obtain ⟨rfl, rfl⟩ := h
      obtain ⟨hspec, hcases⟩ := C16_at_most_one_host cfg ps ld.env cells ld.pick ld.u cells' r' n hm
      have hlt := cland_lt_of_some hk
      have hcs : CellSpread cells cells' := cellSpread_of_atMostOne ps cells cells' r' hspec
      have hland : landSpreadOK land (land.set ld.k cells') = true :=
        (landSpreadOK_iff _ _).2 (LandSpread.set hk hcs)
      rcases hcases with ⟨h0, he⟩ | ⟨h1, hh, hhlt, _, hpos, hset, _⟩
      · subst h0; subst he
        rw [cland_set_getElem_self land ld.k cells' hk]
        exact ⟨by simp [landingStepOK], (landSpreadOK_iff _ _).2 (LandSpread.refl _), sLostTotal_refl _, .inl ⟨rfl, rfl⟩⟩
      · subst h1
        refine ⟨?_, hland, ?_, .inr ⟨rfl, cells, hh, rfl, hhlt, hpos, by rw [hset]⟩⟩
        · unfold landingStepOK
          simp only [Bool.or_eq_true, List.any_eq_true, List.mem_range, Bool.and_eq_true, beq_iff_eq]
          refine .inr ⟨ld.k, hlt, ?_, ?_⟩
          · rw [cland_getElem!_set_self land ld.k cells' hlt]
          · rw [cland_getElem!_set_self land ld.k cells' hlt, cland_getElem!_of_some hk]; exact hspec
        · rw [sLostTotal_set hk, hset]
          exact cellLost_set_landed _ cells hh hhlt

/-- The landings of a whole spread step, in kernel-call order: the aggregate predicate holds between
    the landscape before the first and after the last landing (per cell the susceptible hosts lost
    over the hosts equal the E/I gained, each host gains what it loses and never more than it had),
    the number of established dispersers is the number of susceptible hosts consumed, and it lies
    between 0 and the number of landings. By induction over the list of landings. -/
theorem C16_model_spread_aggregate (cfg : MultiCfg) (ps : List HostParams) (lds : List Landing) (land land' : CLand)
    (n : Int) (h : runLandings cfg ps lds land = .ok (land', n)) :
    landSpreadOK land land' = true ∧ sLostTotal land land' = n ∧ 0 ≤ n ∧ n ≤ lds.length := by
  induction lds generalizing land n with
  | nil =>
    simp only [runLandings, Except.ok.injEq, Prod.mk.injEq] at h
    obtain ⟨rfl, rfl⟩ := h
    exact ⟨(landSpreadOK_iff _ _).2 (LandSpread.refl _), sLostTotal_refl _, by omega, by simp⟩
  | cons ld rest ih =>
    simp only [runLandings] at h
    cases h1 : landAt cfg ps land ld with
    | error e => rw [h1] at h; cases h
    | ok x =>
      obtain ⟨mid, r⟩ := x
      rw [h1] at h
      simp only at h
      cases h2 : runLandings cfg ps rest mid with
      | error e => rw [h2] at h; cases h
      | ok y =>
        obtain ⟨fin, m⟩ := y
        rw [h2] at h
        simp only [Except.ok.injEq, Prod.mk.injEq] at h
        obtain ⟨rfl, rfl⟩ := h
        obtain ⟨_, a2, a3, a4⟩ := C16_model_landing_one_host cfg ps land ld mid r h1
        obtain ⟨b1, b2, b3, b4⟩ := ih mid m h2
        have l1 := (landSpreadOK_iff _ _).1 a2
        have l2 := (landSpreadOK_iff _ _).1 b1
        refine ⟨(landSpreadOK_iff _ _).2 (l1.trans l2), ?_, ?_, ?_⟩
        · rw [sLostTotal_trans l1 l2, a3, b2]
        · rcases a4 with ⟨r0, _⟩ | ⟨r1, _⟩ <;> omega
        · simp only [List.length_cons]
          rcases a4 with ⟨r0, _⟩ | ⟨r1, _⟩ <;> omega

/-- The same step on OBSERVED states, independent of the model: if every consecutive pair of a
    chain of landscapes is one landing in the sense the driver checks per `mm.land` line (nothing
    changes, or exactly one cell changes and `atMostOneSpec` holds there with result 1), then the
    aggregate predicate holds between the first and the last landscape. This is what makes the
    aggregate spread check a consequence of the per-landing checks. -/
theorem C16_model_aggregate_of_landings (ps : List HostParams) (a : CLand) (chain : List CLand)
    (h : landingChainOK ps a chain = true) : landSpreadOK a (chain.getLastD a) = true := by
  have step : ∀ x y : CLand, landingStepOK ps x y = true → LandSpread x y := by
    intro x y hxy
    unfold landingStepOK at hxy
    simp only [Bool.or_eq_true, beq_iff_eq, List.any_eq_true, List.mem_range, Bool.and_eq_true] at hxy
    rcases hxy with rfl | ⟨k, hk, hset, hspec⟩
    · exact LandSpread.refl _
    · rw [hset]
      have hs : x[k]? = some (x[k]!) := act_getElem?_eq_some_getElem! hk
      exact LandSpread.set hs (cellSpread_of_atMostOne ps _ _ 1 hspec)
  have main : ∀ (chain : List CLand) (a : CLand), landingChainOK ps a chain = true → LandSpread a (chain.getLastD a) := by
    intro chain
    induction chain with
    | nil => intro a _; exact LandSpread.refl a
    | cons b rest ih =>
      intro a h
      simp only [landingChainOK, Bool.and_eq_true] at h
      have h1 := step a b h.1
      have h2 := ih b h.2
      have : (b :: rest).getLastD a = rest.getLastD b := by
        cases rest <;> simp [List.getLastD]
      rw [this]
      exact h1.trans h2
  exact (landSpreadOK_iff _ _).2 (main chain a h)

/-! #### a non-trivial instance: two hosts, two cells, three landings -/

def MM.c16mPs : List HostParams := [{ mt := .si, sto := true, pEst := 0, rr := 1 }, { mt := .sei, sto := true, pEst := 0, rr := 1 }]
def MM.c16mCfg : MultiCfg := { arrival := .land, sto := true, pEst := 0 }
def MM.c16mEnv : MEnv := { n := 4, w := none, pht := some { sus := [1, 1/2], rate := [0, 0], lag := [0, 0] }, comp := none }

/-- Cell 0: host 0 (SI) has 2 susceptible, host 1 (SEI) has 2; cell 1: only host 1 has hosts. -/
def MM.c16mLand : CLand :=
  [[⟨2, [], 0, 0, 0, [0], 0, 2⟩, ⟨2, [0], 0, 0, 0, [0], 0, 2⟩],
   [⟨0, [], 0, 0, 0, [0], 0, 0⟩, ⟨1, [0], 0, 0, 0, [0], 0, 1⟩]]

/-- Landing 1 at cell 0 picks host 1 and establishes (tester 1/4 < 3/4), landing 2 at cell 0 picks
    host 0 but fails (tester 7/8 >= 5/8), landing 3 at cell 1 picks host 1 (tester 0 < 1/8). -/
def MM.c16mLandings : List Landing :=
  [{ k := 0, env := c16mEnv, pick := 1, u := 1/4 }, { k := 0, env := c16mEnv, pick := 0, u := 7/8 },
   { k := 1, env := c16mEnv, pick := 1, u := 0 }]

def MM.c16mAfter : CLand :=
  [[⟨2, [], 0, 0, 0, [0], 0, 2⟩, ⟨1, [1], 0, 0, 1, [0], 0, 2⟩],
   [⟨0, [], 0, 0, 0, [0], 0, 0⟩, ⟨0, [1], 0, 0, 1, [0], 0, 1⟩]]

theorem MM.c16m_run : runLandings c16mCfg c16mPs c16mLandings c16mLand = .ok (c16mAfter, 2) :=
  eq_ok_of_yields (by decide +kernel)

/-- The three landings establish twice, consume two susceptible hosts, and satisfy the aggregate
    predicate; a state in which host 0 had gained the infection host 1 paid for does not. -/
example :
    runLandings c16mCfg c16mPs c16mLandings c16mLand = .ok (c16mAfter, 2) ∧
    landSpreadOK c16mLand c16mAfter = true ∧ sLostTotal c16mLand c16mAfter = 2 ∧
    landSpreadOK c16mLand
      [[⟨2, [], 1, 0, 0, [1], 0, 2⟩, ⟨1, [0], 0, 0, 0, [0], 0, 2⟩],
       [⟨0, [], 0, 0, 0, [0], 0, 0⟩, ⟨0, [1], 0, 0, 1, [0], 0, 1⟩]] = false := by
  obtain ⟨h1, h2, _, _⟩ := C16_model_spread_aggregate c16mCfg c16mPs c16mLandings c16mLand c16mAfter 2 c16m_run
  exact ⟨c16m_run, h1, h2, by decide +kernel⟩

/-- The first landing alone, through `C16_model_landing_one_host`. -/
example :
    ∃ land', landAt c16mCfg c16mPs c16mLand { k := 0, env := c16mEnv, pick := 1, u := 1/4 } = .ok (land', 1) ∧
      landingStepOK c16mPs c16mLand land' = true ∧ sLostTotal c16mLand land' = 1 := by
  have h : landAt c16mCfg c16mPs c16mLand { k := 0, env := c16mEnv, pick := 1, u := 1/4 } =
      .ok ([[⟨2, [], 0, 0, 0, [0], 0, 2⟩, ⟨1, [1], 0, 0, 1, [0], 0, 2⟩],
            [⟨0, [], 0, 0, 0, [0], 0, 0⟩, ⟨1, [0], 0, 0, 0, [0], 0, 1⟩]], 1) := eq_ok_of_yields (by decide +kernel)
  obtain ⟨a1, _, a3, _⟩ := C16_model_landing_one_host _ _ _ _ _ _ h
  exact ⟨_, h, a1, a3⟩

/-- A chain of observed landscapes (before, after landing 1, after landing 3) passes the per-landing
    check, hence the aggregate one. -/
example :
    let mid : CLand := [[⟨2, [], 0, 0, 0, [0], 0, 2⟩, ⟨1, [1], 0, 0, 1, [0], 0, 2⟩],
                        [⟨0, [], 0, 0, 0, [0], 0, 0⟩, ⟨1, [0], 0, 0, 0, [0], 0, 1⟩]]
    landingChainOK c16mPs c16mLand [mid, mid, c16mAfter] = true ∧ landSpreadOK c16mLand c16mAfter = true := by
  intro mid
  have h : landingChainOK c16mPs c16mLand [mid, mid, c16mAfter] = true := by decide +kernel
  exact ⟨h, C16_model_aggregate_of_landings c16mPs c16mLand [mid, mid, c16mAfter] h⟩

/-! ### C16 generation at model level -/

/-- The disperser raster: at every cell of the pool's cell list the generated number is the pool's
    `dispersers_from` there - the sum over the hosts of
    `lround (reproductive rate x weather x competency of the combination present x infected)`
    (`dispersersSpec`, proved equal to the model of `dispersers_from` in `C16_competency_scaling`). -/
theorem C16_model_generation (env : Nat → MEnv) (ps : List HostParams) (land : CLand) (suitIdx : List Nat) (l : List Int)
    (h : modelGenerated env ps land suitIdx = .ok l) :
    generatedSpec env ps land suitIdx = l.map some ∧ l.length = suitIdx.length := by
  induction suitIdx generalizing l with
  | nil =>
    simp only [modelGenerated, Except.ok.injEq] at h
    subst h
    exact ⟨rfl, rfl⟩
  | cons k rest ih =>
    simp only [modelGenerated] at h
    cases h1 : multiDispersersFrom (env k) ps (land[k]!) with
    | error e => rw [h1] at h; cases h
    | ok v =>
      rw [h1] at h
      simp only at h
      cases h2 : modelGenerated env ps land rest with
      | error e => rw [h2] at h; cases h
      | ok vs =>
        rw [h2] at h
        simp only [Except.ok.injEq] at h
        subst h
        obtain ⟨i1, i2⟩ := ih vs h2
        have hs := C16_competency_scaling (env k) ps (land[k]!)
        rw [h1] at hs
        refine ⟨?_, by simp [i2]⟩
        simp only [generatedSpec, List.map_cons] at i1 ⊢
        rw [hs, i1]

/-- Two hosts with 2 and 3 infected at the only cell, rates 1 and 2, weather 1/2, a complete
    competency table giving 1/2 when both are present: 1 x 1/2 x 1/2 x 2 = 1/2 -> 1 and
    2 x 1/2 x 1/2 x 3 = 3/2 -> 2, together 3. -/
example :
    let env : Nat → MEnv := fun _ =>
      { n := 10, w := some (1/2), pht := none,
        comp := some (.complete [⟨[false, false], 0⟩, ⟨[true, false], 1⟩, ⟨[false, true], 1⟩, ⟨[true, true], 1/2⟩]) }
    let ps : List HostParams := [{ mt := .si, sto := true, pEst := 0, rr := 1 }, { mt := .si, sto := true, pEst := 0, rr := 2 }]
    let land : CLand := [[⟨1, [], 2, 0, 0, [2], 0, 3⟩, ⟨0, [], 3, 0, 0, [3], 0, 3⟩]]
    modelGenerated env ps land [0] = .ok [3] ∧ generatedSpec env ps land [0] = [some 3] := by
  intro env ps land
  have h : modelGenerated env ps land [0] = .ok [3] := eq_ok_of_yields (by decide +kernel)
  exact ⟨h, (C16_model_generation env ps land [0] [3] h).1⟩

/-! ### C11 / C16 mortality at model level -/

/-- The mortality action over several hosts: host `h` ends in exactly the state its OWN single-host
    mortality history produces from its own landscape with the rate and lag of ITS row of the
    pest-host table (the operations `actionGen .. .mortality` generates for a single host with those
    parameters); no other host's row and no other host's state enters. -/
theorem C16_model_mortality_per_host (t : PestHostTable) (suitIdx : List Nat) (h0 : Nat) (m m' : MLand)
    (h : modelMortality t suitIdx h0 m = .ok m') :
    m'.length = m.length ∧
    ∀ j, j < m.length → ∃ rate lag, t.rate[h0 + j]? = some rate ∧ t.lag[h0 + j]? = some lag ∧
      runOps (hostMortalityOps suitIdx rate lag (m[j]!)) (m[j]!) = .ok (m'[j]!) := by
  induction m generalizing h0 m' with
  | nil =>
    simp only [modelMortality, Except.ok.injEq] at h
    subst h
    exact ⟨rfl, fun j hj => by simp at hj⟩
  | cons l rest ih =>
    simp only [modelMortality, PestHostTable.mortalityRate, PestHostTable.mortalityTimeLag, atOrRange] at h
    cases hr : t.rate[h0]? with
    | none => rw [hr] at h; simp at h
    | some rate =>
      cases hl : t.lag[h0]? with
      | none => rw [hr, hl] at h; simp at h
      | some lag =>
        rw [hr, hl] at h
        simp only at h
        cases h1 : runOps (hostMortalityOps suitIdx rate lag l) l with
        | error e => rw [h1] at h; cases h
        | ok l' =>
          rw [h1] at h
          simp only at h
          cases h2 : modelMortality t suitIdx (h0 + 1) rest with
          | error e => rw [h2] at h; cases h
          | ok rest' =>
            rw [h2] at h
            simp only [Except.ok.injEq] at h
            subst h
            obtain ⟨i1, i2⟩ := ih (h0 + 1) rest' h2
            refine ⟨by simp [i1], ?_⟩
            intro j hj
            cases j with
            | zero => exact ⟨rate, lag, by simpa using hr, by simpa using hl, by simpa using h1⟩
            | succ j' =>
              have hj' : j' < rest.length := by simpa using hj
              obtain ⟨ra, la, e1, e2, e3⟩ := i2 j' hj'
              have e : h0 + (j' + 1) = h0 + 1 + j' := by omega
              exact ⟨ra, la, by rw [e]; exact e1, by rw [e]; exact e2, by simpa using e3⟩

/-- The operations of one host's share are those the single-host step model generates for the
    mortality action with that host's parameters. -/
theorem C16_model_mortality_ops (inp : StepInputs) (step : Nat) (rate : Rat) (lag : Int) (l : Land) :
    hostMortalityOps (inp.suit.map fun rc => inp.g.idx rc.1 rc.2) rate lag l =
      actionGen { inp with mortalityRate := rate, mortalityLag := lag } step .mortality l := rfl

/-- Two hosts, one cell each in the pool's list, table rows (rate 1, lag 0) and (rate 1, lag 1): the
    first host's infected die, the second host's single cohort lies inside its own lag. -/
example :
    let t : PestHostTable := { sus := [1, 1], rate := [1, 1], lag := [0, 1] }
    let c : Cell := ⟨0, [], 1, 0, 0, [1], 0, 1⟩
    modelMortality t [0] 0 [[c], [c]] = .ok [[⟨0, [], 0, 0, 0, [0], 1, 0⟩], [c]] := by
  intro t c
  exact eq_ok_of_yields (by decide +kernel)

end Pops
