/-
  C02  Counts never go negative and never exceed what the cell holds.
-/
import PopsModel.Model.HostOps
import PopsModel.Lemmas.HostInv
import PopsModel.Lemmas.HostInv3
namespace Pops

/-- Every count stays non-negative under every action in its domain, for all draws. -/
theorem C02_nonneg_step (op : CellOp) (c c' : Cell) (hd : op.inDomain c)
    (hn : c.nonNeg = true) (ht : c.totalsOK = true) (h : op.apply c = .ok c') :
    c'.nonNeg = true :=
  (cellOp_facts op c c' hd (good_of_bool hn ht) h).good.nonNeg

/-- A host move keeps every count of both cells non-negative. Holds whatever the lengths of the
    target's cohort lists (in the C++ all cells share the lengths of the exposed and of the
    mortality-tracker vectors). -/
theorem C02_nonneg_move (src dst : Cell) (count : Int) (d : ClassDraw) (dE dM : List Int)
    (hs : src.nonNeg = true) (hts : src.totalsOK = true) (hdn : dst.nonNeg = true) (hc : 0 ≤ count)
    (hd : validClassDrawB src count d = true)
    (hE : d.e > 0 → ValidDraw src.e d.e dE) (hM : d.i > 0 → ValidDraw src.mort d.i dM) :
    let r := moveHosts src dst count d dE dM
    r.1.nonNeg = true ∧ r.2.1.nonNeg = true :=
  have hg := good_of_bool hs hts
  ⟨(move_src_facts hg hd hE hM).1.nonNeg,
    (nonNeg_iff _).mpr ((move_dst_facts hg hd hE hM).1 ((nonNeg_iff dst).mp hdn) hc)⟩

/-- Infected never exceeds the cell's total hosts. -/
theorem C02_infected_le_total (c : Cell) (hn : c.nonNeg = true) (ht : c.totalsOK = true) :
    c.infectedLeTotal = true :=
  infected_le_total (good_of_bool hn ht)

/-- Hosts dying in a mortality action never exceed the infected that were present. -/
theorem C02_died_le_infected (c c' : Cell) (rate : Rat) (lag : Int)
    (hn : c.nonNeg = true) (h : (CellOp.mortality rate lag).apply c = .ok c') :
    c'.died - c.died ≤ c.i ∧ 0 ≤ c'.died - c.died :=
  died_le_infected c c' rate lag ((nonNeg_iff c).mp hn).i h

/-- Pests or hosts taken out of a cell never exceed the request nor what the cell contained. -/
theorem C02_taken_le_present (c : Cell) (k : Int) (hn : c.nonNeg = true) (hk : 0 ≤ k) :
    (c.pestsTo k).2 ≤ k ∧ (c.pestsTo k).2 ≤ c.s ∧ 0 ≤ (c.pestsTo k).2 ∧
    (∀ p : Rat, 0 ≤ p → p ≤ 1 → 0 ≤ lround ((c.i : Rat) * p) ∧ lround ((c.i : Rat) * p) ≤ c.i) ∧
    (∀ count : Int, 0 ≤ count → hostsMoved c count ≤ count ∧ hostsMoved c count ≤ c.th ∧ 0 ≤ hostsMoved c count) :=
  taken_le_present c k ((nonNeg_iff c).mp hn) hk

/-- Consistency (non-negativity and totals) is kept along every history. -/
theorem C02_history (ops : List LandOp) (l l' : Land) (hinv : l.inv) (hu : l.uniform)
    (hd : DomainAlong ops l) (h : runOps ops l = .ok l') : l'.inv ∧ l'.uniform :=
  history_inv ops l l' hinv hu hd h

end Pops
