/-
  C17  Pest overpopulation moves and host moves follow their stated rules.
-/
import PopsModel.Model.Actions
import PopsModel.Lemmas.Actions
namespace Pops

/-- The departure rule: at least two infected hosts and infected / (susceptible + infected)
    at or above the threshold. -/
theorem C17_departure_rule (thr : Rat) (c : Cell) :
    departs thr c = true ↔ (2 ≤ c.i ∧ thr ≤ (c.i : Rat) / ((c.s + c.i : Int) : Rat)) := act_departs_iff thr c

/-- round(infected x leaving share) pests leave; for a share in [0,1] never more than present;
    the source's infected turn susceptible. -/
theorem C17_leaving (leaving : Rat) (c : Cell) (h0 : 0 ≤ leaving) (h1 : leaving ≤ 1) (hi : 0 ≤ c.i) :
    0 ≤ leavingCount leaving c ∧ leavingCount leaving c ≤ c.i ∧
    (c.pestsFrom (leavingCount leaving c)).1.i = c.i - leavingCount leaving c ∧
    (c.pestsFrom (leavingCount leaving c)).1.s = c.s + leavingCount leaving c ∧
    (c.pestsFrom (leavingCount leaving c)).2 = leavingCount leaving c := act_leaving_facts leaving c h0 h1 hi

/-- At the destination as many establish as there are susceptible hosts, the rest die. The
    three equations hold for all `c`, `k` (the meaningful domain is `0 ≤ c.s`, `0 ≤ k`; `pests_to`
    does the same integer arithmetic outside it). -/
theorem C17_arrival (c : Cell) (k : Int) :
    (c.pestsTo k).2 = min k c.s ∧ (c.pestsTo k).1.i = c.i + min k c.s ∧
    (c.pestsTo k).1.s = c.s - min k c.s := by
  exact act_pestsTo_min c k

/-- The first phase never lets a cell receive pests: after the departures every cell has at most
    its original infected count, non-departing cells are unchanged, and pending moves only
    target cells inside the study area. -/
theorem C17_two_phase (g : Grid) (thr leaving : Rat) (suit : List (Int × Int)) (cells : List Cell)
    (p : PestState) (ts : List (Int × Int)) (moves0 : List (Int × Int × Int))
    (h0 : 0 ≤ leaving) (h1 : leaving ≤ 1) (hn : ∀ c ∈ cells, 0 ≤ c.i) :
    let r := departGo g thr leaving suit cells p ts moves0
    r.1.length = cells.length ∧
    (∀ k : Nat, k < cells.length → (r.1[k]!).i ≤ (cells[k]!).i ∧
        (r.1[k]!).s + (r.1[k]!).i = (cells[k]!).s + (cells[k]!).i) ∧
    (∀ m ∈ r.2.2.2, m ∈ moves0 ∨ g.isOutside m.1 m.2.1 = false) ∧
    (∀ k : Nat, k < cells.length → departs thr (cells[k]!) = false → r.1[k]! = cells[k]!) := by
  obtain ⟨a1, a2, a3, a4⟩ := act_departGo_facts g thr leaving h0 h1 suit cells p ts moves0 hn
  exact ⟨a1, fun k _ => a2 k, a3, fun k _ => a4 k⟩

/-- Pests sent outside the study area are recorded with their real coordinates, one entry per
    pest, and nothing else is recorded. -/
theorem C17_outside_recorded (g : Grid) (thr leaving : Rat) (r c : Int) (cells : List Cell)
    (p : PestState) (t : Int × Int) (hd : departs thr (cells[g.idx r c]!) = true) :
    let res := departGo g thr leaving [(r, c)] cells p [t] []
    (g.isOutside t.1 t.2 = true →
      res.2.1.outside = p.outside ++ List.replicate (leavingCount leaving (cells[g.idx r c]!)).toNat t ∧ res.2.2.2 = []) ∧
    (g.isOutside t.1 t.2 = false →
      res.2.1.outside = p.outside ∧ res.2.2.2 = [(t.1, t.2, leavingCount leaving (cells[g.idx r c]!))]) := act_departGo_single g thr leaving r c cells p t hd

/-- Host movement cursor: the rows applied at a step are exactly the maximal run of consecutive
    rows from the cursor whose scheduled step equals the step; the cursor never moves back. -/
theorem C17_movement_rows (schedule : List Nat) (last step : Nat) (hl : last ≤ schedule.length) :
    let r := movementRows schedule last step
    last ≤ r.2 ∧ r.2 ≤ schedule.length ∧
    r.1 = (List.range (r.2 - last)).map (· + last) ∧
    (∀ i, last ≤ i → i < r.2 → schedule[i]! = step) ∧
    (r.2 < schedule.length → schedule[r.2]! ≠ step) := by
  have h := act_movementRows_facts schedule last step hl
  rw [act_range'_eq_map_add] at h
  exact h

/-- Each row of the movement table is applied exactly once, at its scheduled step and in table
    order: for a non-decreasing schedule whose entries are spread steps (or lie beyond the run),
    over the increasing list `steps` of spread steps the applied rows are, in table order, exactly
    the rows scheduled at one of these steps, each at its own step. -/
theorem C17_movement_once (schedule : List Nat) (steps : List Nat)
    (hmono : ∀ i j, i ≤ j → j < schedule.length → schedule[i]! ≤ schedule[j]!)
    (hsteps : steps.Pairwise (· < ·))
    (hsched : ∀ i, i < schedule.length → schedule[i]! ∈ steps ∨ ∀ s ∈ steps, s < schedule[i]!) :
    let run := movementRunOn schedule steps 0
    (run.flatMap (·.2)) = (List.range schedule.length).filter (fun i => decide (schedule[i]! ∈ steps)) ∧
    (∀ e ∈ run, ∀ i ∈ e.2, schedule[i]! = e.1) ∧ run.map (·.1) = steps := by
  have h := act_movementRunOn_facts schedule hmono steps 0 (Nat.zero_le _) hsteps (fun i _ hi => hsched i hi)
  rw [Nat.sub_zero, ← List.range_eq_range'] at h
  exact h

/-- min(requested, hosts present) hosts move, together with their class and cohort membership.
    (`0 ≤ count` is not a hypothesis: a valid class draw `hd` exists only for a non-negative count.) -/
theorem C17_movement_amount (src dst : Cell) (count : Int) (d : ClassDraw) (dE dM : List Int)
    (hn : src.nonNeg = true) (ht : src.totalsOK = true)
    (hd : validClassDrawB src count d = true)
    (hE : d.e > 0 → ValidDraw src.e d.e dE) (hM : d.i > 0 → ValidDraw src.mort d.i dM)
    (hlenE : dst.e.length = src.e.length) (hlenM : dst.mort.length = src.mort.length) :
    let r := moveHosts src dst count d dE dM
    r.2.2 = min count src.hosts ∧ src.hosts - r.1.hosts = min count src.hosts ∧
    r.2.1.hosts - dst.hosts = min count src.hosts ∧
    addL r.1.e r.2.1.e = addL src.e dst.e ∧ addL r.1.mort r.2.1.mort = addL src.mort dst.mort := by
  exact act_moveHosts_amount src dst count d dE dM hn ht hd hE hM hlenE hlenM

example : departs (1/2) ⟨1, [], 3, 0, 0, [3], 0, 4⟩ = true := by
  rw [act_departs_iff]
  refine ⟨by decide, ?_⟩
  show (1/2 : Rat) ≤ ((3 : Int) : Rat) / (((1 : Int) + 3 : Int) : Rat)
  grind

end Pops
