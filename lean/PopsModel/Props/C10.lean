/-
  C10  Treatments act once, where and when scheduled, by the stated share.
-/
import PopsModel.Model.HostOps
import PopsModel.Lemmas.HostMech
namespace Pops

/-- Host removal: from a consistent cell and a coefficient in [0,1] the treatment succeeds and
    takes from susceptible, every exposed cohort, infected and every mortality cohort the
    coefficient's share rounded up (everything of the infection-carrying classes in the
    all-infected mode when the coefficient is non-zero); totals follow. -/
theorem C10_removal (coef : Rat) (app : TreatApp) (c : Cell) (h0 : 0 ≤ coef) (h1 : coef ≤ 1)
    (hn : c.nonNeg = true) (ht : c.totalsOK = true) (hm : c.mortOK = true) :
    ∃ c', c.simpleTreat coef app = .ok c' ∧
      simpleTreatSpec coef (app == .allInfected) c c' = true ∧ c'.totalsOK = true := by
  exact mech_C10_removal coef app c h0 h1 hn ht hm

/-- Pesticide: the share rounded down of each class moves into the resistant class. (Whether or
    not infected = sum of the mortality cohorts: `mortOK` is not needed.) -/
theorem C10_pesticide (coef : Rat) (app : TreatApp) (c : Cell) (h0 : 0 ≤ coef) (h1 : coef ≤ 1)
    (hn : c.nonNeg = true) (ht : c.totalsOK = true) :
    ∃ c', c.pesticideTreat coef app = .ok c' ∧
      pesticideTreatSpec coef (app == .allInfected) c c' = true ∧ c'.totalsOK = true := by
  exact mech_C10_pesticide coef app c h0 h1 hn ht

/-- At the end of a pesticide every resistant host of a treated cell returns to susceptible. -/
theorem C10_pesticide_end (coef : Rat) (c : Cell) :
    pesticideEndSpec coef c (c.pesticideEnd coef) = true := by
  exact mech_C10_pesticide_end coef c

/-- Coefficient 0 changes nothing; coefficient 1 empties the treated classes (removal) or moves
    them entirely into the resistant class (pesticide). -/
theorem C10_coef_zero_one (app : TreatApp) (c : Cell)
    (hn : c.nonNeg = true) (ht : c.totalsOK = true) (hm : c.mortOK = true) :
    c.simpleTreat 0 app = .ok c ∧ c.pesticideTreat 0 app = .ok c ∧
    (∃ c', c.simpleTreat 1 app = .ok c' ∧ c'.s = 0 ∧ c'.i = 0 ∧ (∀ x ∈ c'.e, x = 0) ∧
        (∀ x ∈ c'.mort, x = 0) ∧ c'.r = c.r ∧ c'.th = c.r) ∧
    (∃ c', c.pesticideTreat 1 app = .ok c' ∧ c'.s = 0 ∧ c'.i = 0 ∧ (∀ x ∈ c'.e, x = 0) ∧
        (∀ x ∈ c'.mort, x = 0) ∧ c'.r = c.hosts) := by
  exact mech_C10_coef_zero_one app c hn ht hm

/-- Resistant hosts cannot be infected: a landing disperser consumes a susceptible host only. -/
theorem C10_resistant_not_infected (mt : ModelType) (c : Cell) (env : EnvCell) (sto : Bool) (pEst u : Rat)
    (c' : Cell) (k : Int) (n : Nat) (h : c.disperserTo mt env sto pEst u = .ok (c', k, n)) :
    c'.r = c.r ∧ (k = 0 ∨ k = 1) ∧ c'.s = c.s - k ∧ (c.s ≤ 0 → k = 0) := by
  exact mech_C10_resistant mt c env sto pEst u c' k n h

/-- A treatment takes effect exactly once, at the step equal to its start; a pesticide ends
    exactly once, at its end step (later than the start); nothing happens at any other step. -/
theorem C10_when (t : TreatSpec) (hlt : t.pesticide = true → t.start < t.end_) (k : Nat) :
    (t.eventAt k = .apply ↔ k = t.start) ∧
    (t.eventAt k = .finish ↔ (t.pesticide = true ∧ k = t.end_)) ∧
    (t.eventAt k = .nothing ↔ (k ≠ t.start ∧ ¬ (t.pesticide = true ∧ k = t.end_))) := by
  exact mech_C10_when t hlt k

/-- Treatments dated after a cleared step never run: they are no longer in the list, and every
    other treatment stays. -/
theorem C10_cleared_never_run (ts : List TreatSpec) (step : Nat) (t : TreatSpec) :
    t ∈ clearAfterStep ts step ↔ (t ∈ ts ∧ t.start ≤ step) := by
  exact mech_C10_cleared ts step t

example : ∃ c : Cell, c.nonNeg = true ∧ c.totalsOK = true ∧ c.mortOK = true ∧ c.i > 0 ∧ c.e ≠ [] :=
  ⟨⟨5, [1, 2], 3, 1, 3, [1, 2], 0, 12⟩, by decide⟩

end Pops
