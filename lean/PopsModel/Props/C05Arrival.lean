/-
  C05, the arrival half: in the SEI model a disperser that establishes during a spread step makes
  its host *exposed* (youngest exposed cohort), never infected, whichever arrival path is taken
  (`MultiHostPool::disperser_to` with "infect" or, for one host, "land"; both are the model's
  `Cell.landViaWrapper`).  The predicate `arrivalsStayExposed` is the one the driver evaluates on
  the observed before/after state of every `hp.spread` line of an SEI case.
-/
import PopsModel.Model.Actions
import PopsModel.Model.HostPred
import PopsModel.Lemmas.HostInv
namespace Pops

theorem dropLast_addLast (l : List Int) (k : Int) : (addLast l k).dropLast = l.dropLast := by
  induction l with
  | nil => rfl
  | cons x xs ih =>
    cases xs with
    | nil => simp [addLast]
    | cons y ys =>
      have hne : addLast (y :: ys) k ≠ [] := by
        intro h; have := length_addLast (y :: ys) k; rw [h] at this; simp at this
      simp only [addLast]; rw [List.dropLast_cons_of_ne_nil hne, ih]; simp

/-- One landing in the SEI model: infected and mortality cohorts are untouched, older exposed
    cohorts are untouched, and the youngest exposed cohort grows by the susceptible consumed. -/
theorem C05_arrival_stays_exposed (c c' : Cell) (env : EnvCell) (sto : Bool) (pEst u : Rat) (res : Int) (used : Nat)
    (he : c.e ≠ []) (h : c.landViaWrapper .sei env sto pEst u = .ok (c', res, used)) :
    arrivalsStayExposed c c' = true := by
  have hself : arrivalsStayExposed c c = true := by simp [arrivalsStayExposed]
  have hadd : ∀ c1 k, c.addDisperserAt .sei = (c1, k) → arrivalsStayExposed c c1 = true := by
    intro c1 k hk
    unfold Cell.addDisperserAt at hk
    split at hk
    · cases hk; exact hself
    · cases hk
      simp only [arrivalsStayExposed, dropLast_addLast, sumL_addLast 1 he, decide_eq_true_eq, Bool.and_eq_true]
      refine ⟨⟨⟨⟨trivial, trivial⟩, trivial⟩, ?_⟩, ?_⟩ <;> omega
  unfold Cell.landViaWrapper at h
  cases hs : c.suitability env with
  | error e => simp [hs, bind, Except.bind] at h
  | ok p =>
    simp only [hs, bind, Except.bind] at h
    split at h
    · simp only [pure, Except.pure, Except.ok.injEq, Prod.mk.injEq] at h; rw [← h.1]; exact hself
    · unfold Cell.disperserTo at h
      split at h
      · simp only [Except.ok.injEq, Prod.mk.injEq] at h; rw [← h.1]; exact hself
      · simp only [hs, bind, Except.bind] at h
        split at h
        · simp only [pure, Except.pure, Except.ok.injEq, Prod.mk.injEq] at h
          exact h.1 ▸ hadd _ _ rfl
        · simp only [pure, Except.pure, Except.ok.injEq, Prod.mk.injEq] at h; rw [← h.1]; exact hself

/-- The predicate composes, so it holds for any number of landings on a cell during one spread
    step (and for the whole step, cell by cell). -/
theorem C05_arrivals_compose (a b c : Cell) (h1 : arrivalsStayExposed a b = true) (h2 : arrivalsStayExposed b c = true) :
    arrivalsStayExposed a c = true := by
  simp only [arrivalsStayExposed, decide_eq_true_eq, Bool.and_eq_true] at *
  obtain ⟨⟨⟨⟨a1, a2⟩, a3⟩, a4⟩, a5⟩ := h1
  obtain ⟨⟨⟨⟨b1, b2⟩, b3⟩, b4⟩, b5⟩ := h2
  refine ⟨⟨⟨⟨by omega, by rw [b2, a2]⟩, by rw [b3, a3]⟩, by omega⟩, by omega⟩

/-- Non-vacuity: a real establishment (the step `landViaWrapper` takes when the test passes), and
    the predicate rejects the state a direct infection would leave. -/
example : (⟨5, [1, 0, 2], 3, 0, 3, [3], 0, 11⟩ : Cell).addDisperserAt .sei = (⟨4, [1, 0, 3], 3, 0, 4, [3], 0, 11⟩, 1) := by decide
example : arrivalsStayExposed ⟨5, [1, 0, 2], 3, 0, 3, [3], 0, 11⟩ ⟨4, [1, 0, 3], 3, 0, 4, [3], 0, 11⟩ = true := by decide
example : arrivalsStayExposed ⟨5, [1, 0, 2], 3, 0, 3, [3], 0, 11⟩ ⟨4, [1, 0, 2], 4, 0, 3, [3], 0, 11⟩ = false := by decide

end Pops
