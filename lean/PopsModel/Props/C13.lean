/-
  C13  Stochastic kernels draw the configured distance law in the configured direction.
  Property theorems only. Helper lemmas: Lemmas/Kern.lean, Lemmas/KernRadial.lean (core) and
  Analysis/KernReal.lean (Mathlib: real cosine / sine, densities over the reals).

  NOT proved (trusted, see tools/props/C13.py): that libstdc++'s cauchy / exponential / weibull /
  normal / lognormal / gamma / uniform distributions sample the law the C++ standard names, and that
  the rejection loop of `VonMisesDistribution` yields the von Mises law. What is proved is every
  piece of logic between those samplers and the cell a disperser lands in.
-/
import PopsModel.Lemmas.Kern
import PopsModel.Lemmas.KernRadial
import PopsModel.Lemmas.KernElig
import PopsModel.Analysis.KernReal
namespace Pops
open Real

/-! ### Geometry: north decreases the row, east increases the column -/

/-- Angle 0 (north) decreases the row by `round(d / ns)` and leaves the column; `pi/2` (east)
    increases the column by `round(d / ew)` and leaves the row; `pi` and `3pi/2` are their mirror
    images. For every source cell, distance and resolutions. -/
theorem C13_axes (row col : ℤ) (d ns ew : ℝ) :
    radialTarget TF.real row col d 0 ns ew = (row - lroundR (d / ns), col) ∧
    radialTarget TF.real row col d (π / 2) ns ew = (row, col + lroundR (d / ew)) ∧
    radialTarget TF.real row col d π ns ew = (row + lroundR (d / ns), col) ∧
    radialTarget TF.real row col d (3 * π / 2) ns ew = (row, col - lroundR (d / ew)) :=
  ⟨radial_theta_zero row col d ns ew, radial_theta_half_pi row col d ns ew,
   radial_theta_pi row col d ns ew, radial_theta_three_half_pi row col d ns ew⟩

/-- The same for exact rational arithmetic, with the exact cosine / sine of the four axis
    directions (the form the driver evaluates on the implementation's output). -/
theorem C13_axes_rat (row col : Int) (d ns ew : Rat) :
    radialTargetQ row col d 1 0 ns ew = (row - lround (d / ns), col) ∧
    radialTargetQ row col d 0 1 ns ew = (row, col + lround (d / ew)) ∧
    radialTargetQ row col d (-1) 0 ns ew = (row + lround (d / ns), col) ∧
    radialTargetQ row col d 0 (-1) ns ew = (row, col - lround (d / ew)) :=
  ⟨radialTargetQ_north row col d ns ew, radialTargetQ_east row col d ns ew,
   radialTargetQ_south row col d ns ew, radialTargetQ_west row col d ns ew⟩

/-- The table of exact axis cosines / sines is the real cosine / sine of the coded angle. -/
theorem C13_axes_table (d : Direction) (c s : Rat) (hc : axisCos d = some c) (hs : axisSin d = some s) :
    cos (directionMu TF.real d) = c ∧ sin (directionMu TF.real d) = s := by
  rw [directionMu_real]
  cases d <;> simp [axisCos, axisSin] at hc hs
  · subst hc; subst hs
    have : Direction.N.degrees.toNat = 0 := rfl
    rw [this]; simp
  · subst hc; subst hs
    have : Direction.E.degrees.toNat = 90 := rfl
    have e : ((90 : ℕ) : ℝ) * π / 180 = π / 2 := by push_cast; ring
    rw [this, e]; simp
  · subst hc; subst hs
    have : Direction.S.degrees.toNat = 180 := rfl
    have e : ((180 : ℕ) : ℝ) * π / 180 = π := by push_cast; ring
    rw [this, e]; simp
  · subst hc; subst hs
    have : Direction.W.degrees.toNat = 270 := rfl
    have e : ((270 : ℕ) : ℝ) * π / 180 = π / 2 + π := by push_cast; ring
    rw [this, e, cos_add_pi, sin_add_pi]; simp

/-- The eight compass directions, coded as degrees clockwise from north, have the stated signs of
    cosine and sine; consequently a disperser sent in direction `d` never moves south when `d` has a
    northward component, never west when it has an eastward one, and so on, and stays on its row /
    column for the pure axis directions. Every distance `>= 0`, every positive resolution. -/
theorem C13_compass (d : Direction) (hd : d ≠ .none) :
    ((d.northSign = 1 → 0 < cos (directionMu TF.real d)) ∧
     (d.northSign = -1 → cos (directionMu TF.real d) < 0) ∧
     (d.northSign = 0 → cos (directionMu TF.real d) = 0) ∧
     (d.eastSign = 1 → 0 < sin (directionMu TF.real d)) ∧
     (d.eastSign = -1 → sin (directionMu TF.real d) < 0) ∧
     (d.eastSign = 0 → sin (directionMu TF.real d) = 0)) ∧
    ∀ (row col : ℤ) (dist ns ew : ℝ), 0 ≤ dist → 0 < ns → 0 < ew →
      let t := radialTarget TF.real row col dist (directionMu TF.real d) ns ew
      (d.northSign = 1 → t.1 ≤ row) ∧ (d.northSign = -1 → row ≤ t.1) ∧ (d.northSign = 0 → t.1 = row) ∧
      (d.eastSign = 1 → col ≤ t.2) ∧ (d.eastSign = -1 → t.2 ≤ col) ∧ (d.eastSign = 0 → t.2 = col) :=
  ⟨compass_signs d hd, fun row col dist ns ew h1 h2 h3 => compass_move d hd row col dist ns ew h1 h2 h3⟩

example : Direction.SE ≠ .none ∧ Direction.SE.northSign = -1 ∧ Direction.SE.eastSign = 1 := by decide

/-- Map distance is converted to cells with the north-south resolution for rows and the east-west
    resolution for columns: `m` cells' worth of map units along an axis moves exactly `m` cells
    whatever the other resolution is, and in general each offset is within half a cell of the
    component divided by its own resolution. Also over the reals for any angle. -/
theorem C13_resolution :
    (∀ (row col m : Int) (ns ew : Rat), ns ≠ 0 →
        radialTargetQ row col ((m : Rat) * ns) 1 0 ns ew = (row - m, col)) ∧
    (∀ (row col m : Int) (ns ew : Rat), ew ≠ 0 →
        radialTargetQ row col ((m : Rat) * ew) 0 1 ns ew = (row, col + m)) ∧
    (∀ (row col : Int) (d c s ns ew : Rat),
        let t := radialTargetQ row col d c s ns ew
        (((row - t.1 : Int) : Rat) - d * c / ns ≤ 1 / 2 ∧ d * c / ns - ((row - t.1 : Int) : Rat) ≤ 1 / 2) ∧
        (((t.2 - col : Int) : Rat) - d * s / ew ≤ 1 / 2 ∧ d * s / ew - ((t.2 - col : Int) : Rat) ≤ 1 / 2)) ∧
    (∀ (row col : ℤ) (d theta ns ew : ℝ),
        let t := radialTarget TF.real row col d theta ns ew
        |((row - t.1 : ℤ) : ℝ) - d * cos theta / ns| ≤ 1 / 2 ∧
        |((t.2 - col : ℤ) : ℝ) - d * sin theta / ew| ≤ 1 / 2) := by
  refine ⟨fun row col m ns ew h => radialTargetQ_cells_north row col m ns ew h,
          fun row col m ns ew h => radialTargetQ_cells_east row col m ns ew h,
          fun row col d c s ns ew => radialTargetQ_within_half_cell row col d c s ns ew, ?_⟩
  intro row col d theta ns ew
  simp only [radialTarget_real]
  have e1 : row - (row - lroundR (d * cos theta / ns)) = lroundR (d * cos theta / ns) := by omega
  have e2 : col + lroundR (d * sin theta / ew) - col = lroundR (d * sin theta / ew) := by omega
  rw [e1, e2]
  exact ⟨lroundR_close _, lroundR_close _⟩

example : radialTargetQ 10 10 (3 * 30) 1 0 30 100 = (7, 10) := by
  have := C13_resolution.1 10 10 3 30 100 (by decide)
  simpa using this

/-- The call operator of the radial kernel, assembled: supported type, distance `|random()|`, angle
    from the von Mises member, rows through `ns`, columns through `ew`; unsupported types throw. -/
theorem C13_radial_call {α : Type} (T : TF α) (k : RadialKernel α) (row col : Int) (draw : α) (us : List α) :
    (∀ law r theta rest, k.type.law? = some law → lawRandom T law k.scale k.shape draw = .ok r →
        vonMises T k.mu k.kappa us = some (theta, rest) →
        k.call T row col draw us =
          some (.ok (row - T.lround (T.div (T.mul (T.abs r) (T.cos theta)) k.ns),
                     col + T.lround (T.div (T.mul (T.abs r) (T.sin theta)) k.ew)))) ∧
    (k.type.law? = none → k.call T row col draw us = some (.error .invalid_argument)) :=
  ⟨fun law r theta rest hl hr hv => radial_call T k law row col draw r theta us rest hl hr hv,
   fun hl => radial_call_unsupported T k row col draw us hl⟩

/-! ### Angle: von Mises around the configured direction, uniform without one -/

/-- As coded: with no direction the concentration is 0 whatever was configured, and for
    `kappa <= 1e-6` the angle is `2 pi U`; otherwise the angle is `mu + arccos f` or `mu - arccos f`
    (up to whole turns) for the `f` ACCEPTED BY THE REJECTION LOOP on these very draws, the sign decided by
    comparing the next uniform value `u3` with 1/2 - symmetric about the configured direction `mu = degrees * pi / 180`.
    (That `f` has the von Mises law is the trusted part.) -/
theorem C13_vonmises (mu kappa : ℝ) :
    (∀ u rest, vonMises TF.real mu (directionKappa TF.real .none kappa) (u :: rest) = some (2 * π * u, rest)) ∧
    (∀ u rest, kappa ≤ 1 / 1000000 → vonMises TF.real mu kappa (u :: rest) = some (2 * π * u, rest)) ∧
    (∀ us f u3 rest, 1 / 1000000 < kappa →
        vonMisesLoop TF.real kappa (vonMisesR TF.real kappa) us = some (f, u3 :: rest) →
        ∃ (theta : ℝ) (k : ℤ), vonMises TF.real mu kappa us = some (theta, rest) ∧
          theta = (if 1 / 2 < u3 then mu + arccos f else mu - arccos f) - 2 * π * k) ∧
    (∀ d : Direction, d ≠ .none → directionKappa TF.real d kappa = kappa ∧
        directionMu TF.real d = (d.degrees.toNat : ℝ) * π / 180) :=
  ⟨fun u rest => vonMises_none_real mu kappa u rest,
   fun u rest h => vonMises_small_real mu kappa u rest h,
   fun us f u3 rest h hloop => by
     have hk : TF.real.leb kappa (vonMisesEps TF.real) = false := by
       rw [vonMisesEps_real]; simp only [TF.real, decide_eq_false_iff_not, not_le]; exact h
     have hm := vonMises_mirror TF.real mu kappa f u3 us rest hk hloop
     have e2 : TF.real.mul (TF.real.ofNat 2) TF.real.pi = 2 * π := by simp [TF.real]
     have eh : TF.real.div (TF.real.ofNat 1) (TF.real.ofNat 2) = 1 / 2 := by simp [TF.real]
     rw [e2, eh] at hm
     by_cases hu : 1 / 2 < u3
     · have hl : TF.real.ltb (1 / 2) u3 = true := by
         simp only [TF.real, decide_eq_true_eq]; exact hu
       rw [hl] at hm
       obtain ⟨k, hk'⟩ := fmod_real_turns (TF.real.add mu (TF.real.acos f))
       exact ⟨_, k, hm, by rw [if_pos hu]; simp only [if_true]; rw [hk']; simp [TF.real]⟩
     · have hl : TF.real.ltb (1 / 2) u3 = false := by
         simp only [TF.real, decide_eq_false_iff_not]; exact hu
       rw [hl] at hm
       obtain ⟨k, hk'⟩ := fmod_real_turns (TF.real.sub mu (TF.real.acos f))
       exact ⟨_, k, hm, by rw [if_neg hu]; simp only [Bool.false_eq_true, if_false]; rw [hk']; simp [TF.real]⟩,
   fun d hd => ⟨directionKappa_some TF.real d hd kappa, directionMu_real d⟩⟩

/-- The mirror pair, generically in the number type (also what the driver's `Float` twin runs). -/
theorem C13_vonmises_mirror {α : Type} (T : TF α) (mu kappa f u3 : α) (us rest : List α)
    (h : T.leb kappa (vonMisesEps T) = false)
    (hloop : vonMisesLoop T kappa (vonMisesR T kappa) us = some (f, u3 :: rest)) :
    vonMises T mu kappa us =
      some (if T.ltb (T.div (T.ofNat 1) (T.ofNat 2)) u3 then T.fmod (T.add mu (T.acos f)) (T.mul (T.ofNat 2) T.pi)
            else T.fmod (T.sub mu (T.acos f)) (T.mul (T.ofNat 2) T.pi), rest) :=
  vonMises_mirror T mu kappa f u3 us rest h hloop

/-! ### Distance law: sampler parameters and inverse transform -/

/-- For the six classes that own a standard-library distribution, the density the C++ standard
    assigns to that distribution with the constructed parameters is the class's own `pdf`
    (gamma: `(alpha, theta)` with `theta` the scale, after F15; exponential: rate `1 / beta`;
    Weibull: `(a, b) = (shape, scale)`), and `random()` is the absolute value of its draw. -/
theorem C13_parameter_wiring (scale shape x : ℝ) :
    (lawSampler TF.real .cauchy scale shape).density TF.real x = some (lawPdf TF.real .cauchy scale shape x) ∧
    (lawSampler TF.real .exponential scale shape).density TF.real x = some (lawPdf TF.real .exponential scale shape x) ∧
    (lawSampler TF.real .weibull scale shape).density TF.real x = some (lawPdf TF.real .weibull scale shape x) ∧
    (scale ≠ 0 → (lawSampler TF.real .normal scale shape).density TF.real x = some (lawPdf TF.real .normal scale shape x)) ∧
    (0 < x → (lawSampler TF.real .logNormal scale shape).density TF.real x = some (lawPdf TF.real .logNormal scale shape x)) ∧
    (lawSampler TF.real .gamma scale shape).density TF.real x = some (lawPdf TF.real .gamma scale shape x) ∧
    (∀ law, law = .cauchy ∨ law = .exponential ∨ law = .weibull ∨ law = .normal ∨ law = .logNormal ∨ law = .gamma →
        ∀ draw : ℝ, lawRandom TF.real law scale shape draw = .ok |draw|) :=
  ⟨wiring_cauchy scale shape x, wiring_exponential scale shape x, wiring_weibull scale shape x,
   fun h => wiring_normal scale shape x h, fun h => wiring_lognormal scale shape x h,
   wiring_gamma scale shape x,
   fun law h draw => (lawRandom_std TF.real law h scale shape draw).1⟩

/-- The standard parameters, spelled out (what the probe subclasses read back). -/
theorem C13_sampler_parameters {α : Type} (T : TF α) (scale shape : α) :
    lawSampler T .cauchy scale shape = .stdCauchy (T.ofNat 0) scale ∧
    lawSampler T .exponential scale shape = .stdExponential (T.div (T.ofNat 1) scale) ∧
    lawSampler T .weibull scale shape = .stdWeibull shape scale ∧
    lawSampler T .normal scale shape = .stdNormal (T.ofNat 0) scale ∧
    lawSampler T .logNormal scale shape = .stdLognormal (T.ofNat 0) scale ∧
    lawSampler T .gamma scale shape = .stdGamma scale shape :=
  ⟨rfl, rfl, rfl, rfl, rfl, rfl⟩

example : (lawSampler TF.real .gamma 2 10).density TF.real 3 = some (gammaPdf TF.real 2 10 3) :=
  (C13_parameter_wiring 2 10 3).2.2.2.2.2.1

/-- Logistic, hyperbolic secant, power law and exponential power sample `icdf(U)` with `U` a
    `uniform_real_distribution(0, 1)` value (any number type). Where `icdf` is the inverse of the
    cdf of the class's density (C14_quantile_*) the sample has that density; for the power law and the
    exponential power law it does not (open finding F21 of C14). -/
theorem C13_inverse_transform {α : Type} (T : TF α) (law : Law)
    (h : law = .logistic ∨ law = .hyperbolicSecant ∨ law = .powerLaw ∨ law = .exponentialPower)
    (scale shape u : α) :
    lawSampler T law scale shape = .icdfOfUniform (T.ofNat 0) (T.ofNat 1) ∧
    lawRandom T law scale shape u = lawIcdfE T law scale shape u :=
  lawRandom_inverse_transform T law h scale shape u

example : lawRandom TF.real .logistic 2 1 (1 / 4) = logisticIcdfE TF.real 2 (1 / 4) :=
  (C13_inverse_transform TF.real .logistic (Or.inl rfl) 2 1 (1 / 4)).2

/-! ### Neighbour and uniform kernels -/

/-- The neighbour kernel moves to the cell at Chebyshev distance exactly 1 in the named direction
    (north = row - 1, east = column + 1), for each of the eight directions and every source cell;
    with no direction it throws. -/
theorem C13_neighbor (row col : Int) :
    (∀ d : Direction, d ≠ .none →
        ∃ t, neighborKernel d row col = .ok t ∧ chebyshev t (row, col) = 1 ∧
             t.1 = row - d.northSign ∧ t.2 = col + d.eastSign) ∧
    neighborKernel .none row col = .error .invalid_argument :=
  ⟨fun d hd => neighbor_in_direction d hd row col, neighbor_none row col⟩

example : neighborKernel .SW 4 4 = .ok (5, 3) := rfl

/-- The uniform kernel: whatever the two draws (within the ranges the distributions were built
    with), the target is a cell of the `rows x cols` landscape; every cell is the target of exactly
    one pair of draws. With each draw uniform on its range (trusted), every cell is equally likely. -/
theorem C13_uniform_in_landscape (rows cols row col : Int) :
    (∀ dr dc, (UniformKernel.make rows cols).InRange dr dc →
        InLandscape rows cols ((UniformKernel.make rows cols).call row col dr dc)) ∧
    (∀ c, InLandscape rows cols c →
        ∃ dr dc, (UniformKernel.make rows cols).InRange dr dc ∧ (UniformKernel.make rows cols).call row col dr dc = c) ∧
    (∀ dr dc dr' dc', (UniformKernel.make rows cols).call row col dr dc = (UniformKernel.make rows cols).call row col dr' dc' →
        dr = dr' ∧ dc = dc') :=
  ⟨fun dr dc h => uniform_inside rows cols row col dr dc h,
   fun c h => uniform_reach rows cols row col c h,
   fun dr dc dr' dc' h => uniform_injective _ row col dr dc dr' dc' h⟩

example : (UniformKernel.make 3 4).InRange 2 3 ∧ InLandscape 3 4 ((UniformKernel.make 3 4).call 0 0 2 3) := by decide

/-! ### Natural / anthropogenic mix -/

/-- The anthropogenic kernel is used iff it is enabled, the source cell is eligible for it, and the
    uniform value of the Bernoulli draw is at least the natural share; of `n` equally spaced uniform
    values exactly `n - m` do so for a natural share `m/n` (probability one minus the natural
    share). Eligibility is asked only when enabled; the value is drawn only when enabled and eligible. -/
theorem C13_mix (enabled eligible : Bool) (u p : Rat) :
    (mixUsesAnthropogenic enabled eligible u p = true ↔ enabled = true ∧ eligible = true ∧ p ≤ u) ∧
    (mixNatural enabled eligible u p = !mixUsesAnthropogenic enabled eligible u p) ∧
    (mixBernoulliDraws enabled eligible = if enabled = true ∧ eligible = true then 1 else 0) ∧
    (∀ n m : ℕ, 0 < n → mixAnthroCount true true n ((m : ℚ) / (n : ℚ)) = n - m) := by
  refine ⟨mix_iff enabled eligible u p, by simp [mixUsesAnthropogenic], ?_, fun n m hn => mix_count n m hn⟩
  cases enabled <;> cases eligible <;> simp [mixBernoulliDraws]

example : mixUsesAnthropogenic true true (3 / 4) (3 / 4) = true ∧ mixUsesAnthropogenic true true (1 / 2) (3 / 4) = false :=
  ⟨(mix_iff _ _ _ _).mpr ⟨rfl, rfl, Rat.le_refl⟩, by
    cases h : mixUsesAnthropogenic true true (1 / 2) (3 / 4) with
    | false => rfl
    | true => exact absurd ((mix_iff _ _ _ _).mp h).2.2 (by grind)⟩

/-! ### Eligibility and supported kernel types -/

/-- **Eligibility.** Only the network kernel restricts source cells (to cells holding a node); every
    other class is eligible everywhere. The switch kernel forwards the question to the kernel it
    selects, whatever the stochasticity flag (so for the network selector it is the network kernel's
    answer for the same cell, and `true` for every other selector). A built kernel is eligible
    exactly where its class is. And the natural / anthropogenic mix uses the anthropogenic kernel
    only at eligible source cells: at a cell that is not eligible the natural kernel is used whatever
    the draw, the enable flag and the natural share. -/
theorem C13_eligibility :
    (∀ (c : KernelClass) (hasNode : Bool), classEligible c hasNode = (c ≠ .network || hasNode)) ∧
    (∀ (t : DispersalKernelType) (stochastic hasNode : Bool),
        switchEligible t hasNode = classEligible (switchSelect t stochastic).cls hasNode) ∧
    (∀ (t : DispersalKernelType) (hasNode : Bool),
        switchEligible t hasNode = (t ≠ .network || hasNode)) ∧
    (∀ (d : KernelDesc) (hasNode : Bool), d.eligible hasNode = classEligible d.cls hasNode) ∧
    (∀ (enabled eligible : Bool) (u p : Rat),
        mixUsesAnthropogenic enabled eligible u p = true → eligible = true) ∧
    (∀ (enabled : Bool) (u p : Rat),
        mixUsesAnthropogenic enabled false u p = false ∧ mixNatural enabled false u p = true) := by
  refine ⟨?_, ?_, ?_, fun _ _ => rfl, ?_, ?_⟩
  · intro c hasNode; cases c <;> cases hasNode <;> rfl
  · intro t stochastic hasNode
    cases t <;> cases stochastic <;> cases hasNode <;> rfl
  · intro t hasNode; cases t <;> cases hasNode <;> rfl
  · intro enabled eligible u p h
    exact ((mix_iff enabled eligible u p).mp h).2.1
  · intro enabled u p
    cases enabled <;> simp [mixUsesAnthropogenic, mixNatural]

/-- A network selector with stochasticity on or off, at a cell without a node: not eligible; any
    other selector: eligible; the mix at a cell without a node stays natural even for `u = 1 - ε`. -/
example : switchEligible .network false = false ∧ switchEligible .network true = true ∧
    switchEligible .cauchy false = true ∧
    mixUsesAnthropogenic true false (1023 / 1024) (1 / 4) = false ∧
    mixUsesAnthropogenic true true (1023 / 1024) (1 / 4) = true :=
  ⟨rfl, rfl, rfl, (C13_eligibility.2.2.2.2.2 true _ _).1,
   (mix_iff _ _ _ _).mpr ⟨rfl, rfl, by norm_num⟩⟩

/-- **Supported types.** `supports_kernel` of each concrete class is true exactly for the kernel
    types its call operator serves (`ServesType`: uniform, neighbour and network implement the type
    of their name, radial and deterministic the ten laws); the switch kernel supports uniform,
    neighbour and the ten laws, the mix what either of its classes supports. Consequently the kernel a
    factory builds for a name supports the type that name maps to, for every name except `none` and
    `network` as a natural kernel (`builtMustSupport`). -/
theorem C13_supports_kernel :
    (∀ (c : KernelClass) (t : DispersalKernelType), classSupports c t = true ↔ ServesType c t) ∧
    (∀ (c : KernelConfig) (t : DispersalKernelType) (d : KernelDesc),
        kernelTypeFromString c.naturalKernelType = .ok t → createNaturalKernel c = .ok d →
        builtMustSupport false t = true → classSupports d.cls t = true) ∧
    (∀ (c : KernelConfig) (t : DispersalKernelType) (d : KernelDesc),
        kernelTypeFromString c.anthroKernelType = .ok t → createAnthroKernel c = .ok d →
        builtMustSupport true t = true → classSupports d.cls t = true) := by
  refine ⟨?_, ?_, ?_⟩
  · intro c t
    cases c <;> cases t <;> simp [classSupports, ServesType, radialSupports, switchSupports, DispersalKernelType.law?]
  · intro c t d ht hd hm
    rw [createNatural_cls c t d ht hd]
    cases t <;> simp [builtMustSupport] at hm <;> cases c.dispersalStochasticity <;> rfl
  · intro c t d ht hd hm
    rw [createAnthro_cls c t d ht hd]
    cases t <;> simp [builtMustSupport] at hm <;> cases c.dispersalStochasticity <;> rfl

example : classSupports .network .network = true ∧ classSupports .network .cauchy = false ∧
    classSupports .radial .weibull = true ∧ classSupports .radial .uniform = false ∧
    classSupports .switch .network = false := ⟨rfl, rfl, rfl, rfl, rfl⟩

/-! ### Names -/

/-- `kernel_type_from_string` and `direction_from_string` accept exactly the listed spellings, each
    mapped to the kernel / direction it names (lower-cased, hyphen read as blank; the empty string
    names `none`); everything else is `invalid_argument`. -/
theorem C13_names :
    (∀ p ∈ kernelSpellings, kernelTypeFromString p.1 = .ok p.2 ∧ NamesKernel p.1 p.2) ∧
    (∀ s k, kernelTypeFromString s = .ok k → (s, k) ∈ kernelSpellings) ∧
    (∀ s, (∀ p ∈ kernelSpellings, s ≠ p.1) → kernelTypeFromString s = .error .invalid_argument) ∧
    (∀ k : DispersalKernelType, kernelTypeFromString k.name = .ok k) ∧
    (∀ p ∈ directionTable, directionFromString p.1 = .ok p.2 ∧ NamesDirection p.1 p.2) ∧
    (∀ s d, directionFromString s = .ok d → (s, d) ∈ directionTable) ∧
    (∀ s, (∀ p ∈ directionTable, s ≠ p.1) → directionFromString s = .error .invalid_argument) ∧
    (∀ d : Direction, directionFromString d.name = .ok d) := by
  refine ⟨kernelSpellings_ok, kernelTypeFromString_ok_mem, kernelTypeFromString_other, ?_,
          directionTable_ok, directionFromString_ok_mem, directionFromString_other, ?_⟩
  · intro k; cases k <;> rfl
  · intro d; cases d <;> rfl

example : kernelTypeFromString "Exponential-Power" = .ok .exponentialPower ∧
    kernelTypeFromString "exponential_power" = .error .invalid_argument := ⟨rfl, rfl⟩

/-! ### Factories -/

/-- `create_natural_kernel` / `create_anthro_kernel` / `create_dynamic_kernel`: a name of one of the
    ten laws with dispersal stochasticity on builds the radial kernel of THAT type with the
    configuration's east-west and north-south resolutions in their own slots, the natural
    (anthropogenic) scale, direction and kappa and the shared shape; `uniform` builds the uniform
    kernel of the configured rows x cols; the dynamic kernel carries the enable flag and the natural
    share unchanged; an unknown name is `invalid_argument`. -/
theorem C13_factory (c : KernelConfig) :
    (∀ t d, kernelTypeFromString c.naturalKernelType = .ok t → t.law?.isSome = true →
        c.dispersalStochasticity = true → directionFromString c.naturalDirection = .ok d →
        radialCtorOk c.naturalScale c.shape = true →
        createNaturalKernel c = .ok (.radial c.ewRes c.nsRes t c.naturalScale d c.naturalKappa c.shape)) ∧
    (∀ t d, kernelTypeFromString c.anthroKernelType = .ok t → t.law?.isSome = true →
        c.dispersalStochasticity = true → directionFromString c.anthroDirection = .ok d →
        radialCtorOk c.anthroScale c.shape = true →
        createAnthroKernel c = .ok (.radial c.ewRes c.nsRes t c.anthroScale d c.anthroKappa c.shape)) ∧
    (kernelTypeFromString c.naturalKernelType = .ok .uniform → createNaturalKernel c = .ok (.uniform c.rows c.cols)) ∧
    (kernelTypeFromString c.anthroKernelType = .ok .uniform → createAnthroKernel c = .ok (.uniform c.rows c.cols)) ∧
    (∀ d, kernelTypeFromString c.naturalKernelType = .ok .deterministicNeighbor →
        directionFromString c.naturalDirection = .ok d → createNaturalKernel c = .ok (.neighbor d)) ∧
    (kernelTypeFromString c.naturalKernelType = .error .invalid_argument →
        createNaturalKernel c = .error .invalid_argument) ∧
    (∀ k, createDynamicKernel c = .ok k →
        createNaturalKernel c = .ok k.natural ∧ createAnthroKernel c = .ok k.anthro ∧
        k.useAnthropogenic = c.useAnthropogenicKernel ∧ k.percentNatural = c.percentNaturalDispersal) :=
  ⟨fun t d h1 h2 h3 h4 h5 => createNatural_radial c t d h1 h2 h3 h4 h5,
   fun t d h1 h2 h3 h4 h5 => createAnthro_radial c t d h1 h2 h3 h4 h5,
   createNatural_uniform c, createAnthro_uniform c,
   fun d h1 h2 => createNatural_neighbor c d h1 h2,
   createNatural_unknown_name c,
   fun k h => createDynamic_fields c k h⟩

/-- The radial kernel's constructor keeps each resolution in its own member and is accepted iff
    scale and shape are positive (the ten class guards together). -/
theorem C13_radial_ctor (ew ns : ℝ) (t : DispersalKernelType) (scale : ℝ) (dir : Direction) (kappa shape : ℝ) :
    ((RadialKernel.make TF.real ew ns t scale dir kappa shape).toBool = true ↔ 0 < scale ∧ 0 < shape) ∧
    (∀ k, RadialKernel.make TF.real ew ns t scale dir kappa shape = .ok k →
        k.ew = ew ∧ k.ns = ns ∧ k.type = t ∧ k.scale = scale ∧ k.shape = shape ∧
        k.mu = directionMu TF.real dir ∧ k.kappa = directionKappa TF.real dir kappa) :=
  ⟨radial_make_real ew ns t scale dir kappa shape,
   fun k h => radial_make_fields TF.real ew ns t scale dir kappa shape k h⟩

end Pops
