/-
  C09  A model step runs exactly the enabled, scheduled actions in the documented order.
-/
import PopsModel.Model.Actions
import PopsModel.Lemmas.Actions
namespace Pops

/-- The executed actions are a sub-sequence of the documented order, without repetition. -/
theorem C09_order (cfg : StepCfg) (step : Nat) :
    ((plan cfg step).map (·.1)).Sublist documentedOrder ∧ ((plan cfg step).map (·.1)).Nodup := act_plan_order cfg step

/-- An action is executed if and only if it is enabled and its schedule marks the step. -/
theorem C09_iff (cfg : StepCfg) (step : Nat) (a : ActionKind) :
    a ∈ (plan cfg step).map (·.1) ↔ cfg.runs step a = true := act_plan_iff cfg step a

/-- The input index used by an executed action is the index of that firing: the number of
    earlier firings of its schedule, i.e. what `simulation_step_to_action_step` returns. -/
theorem C09_index (cfg : StepCfg) (step : Nat) (a : ActionKind) (k : Nat)
    (h : (a, some k) ∈ plan cfg step) :
    (a = .lethal → simulationStepToActionStep cfg.lethalSched step = .ok k) ∧
    (a = .survival → simulationStepToActionStep cfg.survivalSched step = .ok k) ∧
    (a = .spreadRate → simulationStepToActionStep cfg.rateSched step = .ok k) ∧
    (a = .quarantine → simulationStepToActionStep cfg.quarantineSched step = .ok k) ∧
    (a = .lethal ∨ a = .survival ∨ a = .spreadRate ∨ a = .quarantine) := act_plan_index cfg step a k h

/-- Schedules of disabled features have no influence on what is executed. -/
theorem C09_frame_disabled (cfg : StepCfg) (step : Nat) (x : List Bool) :
    (cfg.useLethal = false → plan { cfg with lethalSched := x } step = plan cfg step) ∧
    (cfg.useSurvival = false → plan { cfg with survivalSched := x } step = plan cfg step) ∧
    (cfg.useMortality = false → plan { cfg with mortalitySched := x } step = plan cfg step) ∧
    (cfg.useSpreadRates = false → plan { cfg with rateSched := x } step = plan cfg step) ∧
    (cfg.useQuarantine = false → plan { cfg with quarantineSched := x } step = plan cfg step) := act_plan_frame_disabled cfg step x

/-- Latency progression, overpopulation and host movement only happen inside a spread step,
    after the spread itself. -/
theorem C09_spread_block (cfg : StepCfg) (step : Nat) :
    (cfg.runs step .stepForward = cfg.runs step .spread) ∧
    (cfg.runs step .overpopulation = true → cfg.runs step .spread = true) ∧
    (cfg.runs step .movement = true → cfg.runs step .spread = true) := act_plan_spread_block cfg step

example : ∃ cfg : StepCfg, (plan cfg 1).length = 4 :=
  ⟨{ soils := true, useLethal := true, lethalSched := [true, true], useSurvival := false, survivalSched := [],
     spreadSched := [false, true], useOverpop := false, useMovements := false, useTreatments := false,
     useMortality := false, mortalitySched := [], useSpreadRates := false, rateSched := [],
     useQuarantine := false, quarantineSched := [] }, by decide⟩

end Pops
