/-
  C14 for a window that is normalised only approximately.

  The C++ normalises doubles (`probability /= sum`), so the stored weights are non-negative and sum
  to `1 + ε` with `ε` of the order of the rounding error, not to 1 exactly. The theorems of
  Props/C14.lean assume `p.sum = 1`. Here `p ≥ 0` and `p.sum = 1 + ε`.

  What is true (explored with `#eval` over all windows of 2-4 cells on small grids, `N ≤ 7`, then
  proved):
   * `-1 < N ε ≤ 1`  : the bounds of the exact case hold UNCHANGED: `|k_c - N p_c| ≤ 1` after the `N`
     calls and `k_c - N p_c < 1` at every moment. (The expected `1 + N |ε|` is true but not tight:
     the error of the normalisation does not add to the quota error at all.)
   * `1 < N ε`       : a cell may be up to `N ε` dispersers behind its share (tight), never a whole
     disperser ahead: `-(N ε) ≤ k_c - N p_c < 1`.
   * `N ε = -1`      : `k_c - N p_c ≤ 1` can be attained (`C14_approx_tight_deficit`), so the strict
     bound needs `-1 < N ε`;   `N ε < -1`: `|k_c - N p_c| ≤ 1` fails (same theorem).
  Tie-breaking: the list-level theorems are about the scan-order arg-max of the model (as
  `C14_quota`); the function-level invariant (`Det.inv_pickAt_approx`, `Det.quota_of_inv_approx` in
  Analysis/DetQuotaApprox.lean) holds for ANY choice among the maximal cells.
-/
import PopsModel.Props.C14
import PopsModel.Analysis.DetQuotaApprox
namespace Pops
open Pops.Det

/-- **Quota, approximately normalised window.** For every non-negative `p` with `p.sum = 1 + ε`,
    `-1 < N ε ≤ 1` (in particular `N |ε| < 1`): exactly the conclusion of `C14_quota`. -/
theorem C14_quota_approx (p : List ℚ) (hp0 : ∀ x ∈ p, 0 ≤ x) (ε : ℚ) (hp : p.sum = 1 + ε)
    (N : ℕ) (hN : 1 ≤ N) (hlo : -1 < N * ε) (hhi : N * ε ≤ 1) (init : ℚ) (hinit : init ≤ -1) :
    QuotaBound N p (runPicks ltQ subQ init (1 / N) N (Allot.fresh p)).counts 0 = true ∧
    ∀ t, t ≤ N → QuotaUpper N p (runPicks ltQ subQ init (1 / N) t (Allot.fresh p)).counts 0 = true := by
  have h := quota_list_approx p hp0 ε hp N hN hlo init hinit
  rwa [max_eq_left (by linarith : (N : ℚ) * ε - 1 ≤ 0)] at h

/-- The same with the hypothesis written as `N |ε| < 1`. -/
theorem C14_quota_abs (p : List ℚ) (hp0 : ∀ x ∈ p, 0 ≤ x) (ε : ℚ) (hp : p.sum = 1 + ε)
    (N : ℕ) (hN : 1 ≤ N) (hε : N * |ε| < 1) (init : ℚ) (hinit : init ≤ -1) :
    QuotaBound N p (runPicks ltQ subQ init (1 / N) N (Allot.fresh p)).counts 0 = true ∧
    ∀ t, t ≤ N → QuotaUpper N p (runPicks ltQ subQ init (1 / N) t (Allot.fresh p)).counts 0 = true := by
  have hNpos : (0 : ℚ) < N := by exact_mod_cast hN
  have h1 : (N : ℚ) * ε ≤ N * |ε| := mul_le_mul_of_nonneg_left (le_abs_self ε) hNpos.le
  have h2 : -((N : ℚ) * |ε|) ≤ N * ε := by
    have := mul_le_mul_of_nonneg_left (neg_abs_le ε) hNpos.le
    linarith
  exact C14_quota_approx p hp0 ε hp N hN (by linarith) (by linarith) init hinit

/-- **Surplus of any size.** With `-1 < N ε` only: `-(max 1 (N ε)) ≤ k_c - N p_c < 1`, stated as
    `QuotaBound` with tolerance `max 0 (N ε - 1)`; no cell is ever a whole disperser ahead. -/
theorem C14_quota_surplus (p : List ℚ) (hp0 : ∀ x ∈ p, 0 ≤ x) (ε : ℚ) (hp : p.sum = 1 + ε)
    (N : ℕ) (hN : 1 ≤ N) (hlo : -1 < N * ε) (init : ℚ) (hinit : init ≤ -1) :
    QuotaBound N p (runPicks ltQ subQ init (1 / N) N (Allot.fresh p)).counts (max 0 (N * ε - 1)) = true ∧
    ∀ t, t ≤ N → QuotaUpper N p (runPicks ltQ subQ init (1 / N) t (Allot.fresh p)).counts 0 = true :=
  quota_list_approx p hp0 ε hp N hN hlo init hinit

/-- Every one of the `N` calls lands in a window cell. -/
theorem C14_picks_in_window_approx (p : List ℚ) (hp0 : ∀ x ∈ p, 0 ≤ x) (ε : ℚ) (hp : p.sum = 1 + ε)
    (N : ℕ) (hN : 1 ≤ N) (hlo : -1 < N * ε) (init : ℚ) (hinit : init ≤ -1) (t : ℕ) (ht : t < N) :
    (pickStep ltQ subQ init (1 / N) (runPicks ltQ subQ init (1 / N) t (Allot.fresh p))).2.isSome = true :=
  picks_counted_approx p hp0 ε hp N hN hlo init hinit t ht

/-- **Equal shares** do not depend on the normalisation. -/
theorem C14_equal_share_approx (p : List ℚ) (hp0 : ∀ x ∈ p, 0 ≤ x) (ε : ℚ) (hp : p.sum = 1 + ε)
    (N : ℕ) (hN : 1 ≤ N) (hlo : -1 < N * ε) (init : ℚ) (hinit : init ≤ -1) (t : ℕ) (ht : t ≤ N) :
    EqualShareBound p (runPicks ltQ subQ init (1 / N) t (Allot.fresh p)).counts = true :=
  equal_share_list_approx p hp0 ε hp N hN hlo init hinit t ht

/-- **Mirror** symmetry of the allotment does not depend on the normalisation either. -/
theorem C14_mirror_approx (rows cols : ℕ) (p : List ℚ) (hlen : p.length = rows * cols)
    (hsym : ∀ c, c < rows * cols → ∀ d ∈ mirrorCells rows cols c, p.getD c 0 = p.getD d 0)
    (hp0 : ∀ x ∈ p, 0 ≤ x) (ε : ℚ) (hp : p.sum = 1 + ε) (N : ℕ) (hN : 1 ≤ N) (hlo : -1 < N * ε)
    (init : ℚ) (hinit : init ≤ -1) (t : ℕ) (ht : t ≤ N) :
    MirrorBound rows cols (runPicks ltQ subQ init (1 / N) t (Allot.fresh p)).counts = true :=
  mirror_of_equal_share rows cols p _ hlen hsym
    (equal_share_list_approx p hp0 ε hp N hN hlo init hinit t ht)

/-! ### `C14_quota` is the case `ε = 0` -/

example (p : List ℚ) (hp0 : ∀ x ∈ p, 0 ≤ x) (hp : p.sum = 1) (N : ℕ) (hN : 1 ≤ N)
    (init : ℚ) (hinit : init ≤ -1) :
    QuotaBound N p (runPicks ltQ subQ init (1 / N) N (Allot.fresh p)).counts 0 = true ∧
    ∀ t, t ≤ N → QuotaUpper N p (runPicks ltQ subQ init (1 / N) t (Allot.fresh p)).counts 0 = true :=
  C14_quota_approx p hp0 0 (by rw [hp]; ring) N hN (by simp) (by simp) init hinit

/-! ### Instances -/

/-- Surplus: weights summing to 21/20, four dispersers (`N ε = 1/5`). -/
example : QuotaBound 4 [1 / 2, 1 / 4, 3 / 10]
    (runPicks ltQ subQ (-2147483647) (1 / (4 : ℕ)) 4 (Allot.fresh [1 / 2, 1 / 4, 3 / 10])).counts 0 = true :=
  (C14_quota_approx [1 / 2, 1 / 4, 3 / 10]
    (by intro x hx; simp at hx; rcases hx with rfl | rfl | rfl <;> norm_num)
    (1 / 20) (by norm_num) 4 (by norm_num) (by norm_num) (by norm_num) (-2147483647) (by norm_num)).1

/-- Deficit: weights summing to 19/20, seven dispersers (`N ε = -7/20`, `N |ε| < 1`). -/
example : QuotaBound 7 [1 / 2, 1 / 4, 1 / 5]
    (runPicks ltQ subQ (-2147483647) (1 / (7 : ℕ)) 7 (Allot.fresh [1 / 2, 1 / 4, 1 / 5])).counts 0 = true :=
  (C14_quota_abs [1 / 2, 1 / 4, 1 / 5]
    (by intro x hx; simp at hx; rcases hx with rfl | rfl | rfl <;> norm_num)
    (-1 / 20) (by norm_num) 7 (by norm_num) (by rw [abs_of_neg (by norm_num)]; norm_num)
    (-2147483647) (by norm_num)).1

/-- Large surplus: weights summing to 2 (`ε = 1`), two dispersers (`N ε = 2`): tolerance 1. -/
example : QuotaBound 2 [3 / 2, 1 / 2]
    (runPicks ltQ subQ (-2147483647) (1 / (2 : ℕ)) 2 (Allot.fresh [3 / 2, 1 / 2])).counts
      (max 0 ((2 : ℕ) * 1 - 1)) = true :=
  (C14_quota_surplus [3 / 2, 1 / 2]
    (by intro x hx; simp at hx; rcases hx with rfl | rfl <;> norm_num)
    1 (by norm_num) 2 (by norm_num) (by norm_num) (-2147483647) (by norm_num)).1

/-- A 1 × 3 window with symmetric weights summing to 11/10, five dispersers (`N ε = 1/2`). -/
example : MirrorBound 1 3
    (runPicks ltQ subQ (-2147483647) (1 / (5 : ℕ)) 3 (Allot.fresh [3 / 10, 1 / 2, 3 / 10])).counts = true :=
  C14_mirror_approx 1 3 [3 / 10, 1 / 2, 3 / 10] rfl
    (by
      intro c hc d hd
      have hc3 : c < 3 := by omega
      interval_cases c <;> simp [mirrorCells] at hd <;> rcases hd with rfl | rfl <;> norm_num)
    (by intro x hx; simp at hx; rcases hx with rfl | rfl | rfl <;> norm_num)
    (1 / 10) (by norm_num) 5 (by norm_num) (by norm_num) (-2147483647) (by norm_num) 3 (by norm_num)

/-! ### The hypotheses on `ε` cannot be dropped (tightness) -/

/-- `N ε = -1` (window `[1/2, 0]`, two dispersers): the first cell ends exactly one disperser ahead,
    so "never a whole disperser ahead" (`QuotaUpper`, strict) fails while `|k_c - N p_c| ≤ 1` still
    holds. `N ε = -3` (window `[1/8, 1/8]`, four dispersers, counts `[2, 2]`, shares `1/2`):
    `|k_c - N p_c| ≤ 1` fails. -/
theorem C14_approx_tight_deficit :
    QuotaUpper 2 [1 / 2, 0]
      (runPicks ltQ subQ (-2147483647) (1 / (2 : ℕ)) 2 (Allot.fresh [1 / 2, 0])).counts 0 = false ∧
    QuotaBound 2 [1 / 2, 0]
      (runPicks ltQ subQ (-2147483647) (1 / (2 : ℕ)) 2 (Allot.fresh [1 / 2, 0])).counts 0 = true ∧
    QuotaBound 4 [1 / 8, 1 / 8]
      (runPicks ltQ subQ (-2147483647) (1 / (4 : ℕ)) 4 (Allot.fresh [1 / 8, 1 / 8])).counts 0 = false := by
  refine ⟨by decide +kernel, by decide +kernel, by decide +kernel⟩

/-- `N ε = 2` (window `[2, 0]`, two dispersers): the first cell ends two dispersers behind its
    share `N p = 4`: `|k_c - N p_c| ≤ 1` fails and the tolerance `N ε - 1 = 1` of
    `C14_quota_surplus` is attained (tolerance 1/2 is not enough). -/
theorem C14_approx_tight_surplus :
    QuotaBound 2 [2, 0]
      (runPicks ltQ subQ (-2147483647) (1 / (2 : ℕ)) 2 (Allot.fresh [2, 0])).counts 0 = false ∧
    QuotaBound 2 [2, 0]
      (runPicks ltQ subQ (-2147483647) (1 / (2 : ℕ)) 2 (Allot.fresh [2, 0])).counts (1 / 2) = false ∧
    QuotaBound 2 [2, 0]
      (runPicks ltQ subQ (-2147483647) (1 / (2 : ℕ)) 2 (Allot.fresh [2, 0])).counts 1 = true := by
  refine ⟨by decide +kernel, by decide +kernel, by decide +kernel⟩

end Pops
