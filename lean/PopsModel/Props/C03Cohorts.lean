/-
  C03, cohort part, over HISTORIES and WHOLE RUNS: "unless pest overpopulation movement is used,
  infected also equals the sum of the mortality cohorts, so that mortality can account for every
  infected host and never fails on a state the model itself produced".

  Props/C03.lean proves this for ONE action (`C03_cohorts_step_partial`, `C03_cohorts_move`) and
  proves `C03_mortality_never_fails` from `mortOK` of the current cell. Here `Land.cohortsOK` is
  carried along every history of actions, every run of generators, every model step and every whole
  run of a configuration with `useOverpop = false`, and `mortOK` of every cell a mortality
  operation meets is DERIVED from the initial landscape.

  Hypotheses, all taken along the run (Lemmas/C03Cohorts.lean, first section):
    * `DomainAlong` / `GensDomainAlong` / `RunDomainAlong`   the documented domain (as in C01-C02);
    * `op.keepsCohorts` for every operation (`LandOp.keepsCohorts`: everything except the two
      overpopulation primitives) - for model steps and runs this is derived from
      `cfg.useOverpop = false`;
    * `RoundingAlong` / `GensRoundingAlong` / `RunRoundingAlong`   finding F20: each RATIO
      treatment rounds consistently (`CellOp.roundingOK`, i.e. `roundingAgrees`) at the cell it is
      applied to. The condition is needed: `C03_cohorts_full_fails` (one action) and
      `C03_rounding_needed_for_mortality` below (a run in its domain, without overpopulation, whose
      mortality step ends in `runtime_error`). It is void when there is no ratio treatment
      (`C03_cohorts_history_no_ratio_treatments`).

  * `C03_cohorts_history`, `C03_cohorts_generators`, `C03_cohorts_model_step`, `C03_cohorts_run`
  * `C03_mortality_never_fails_along_history`, `C03_mortality_never_fails_along_run`,
    `C03_run_never_runtime_error`, `C03_runtime_error_only_from_mortality`
-/
import PopsModel.Lemmas.C03Cohorts
import PopsModel.Props.RunModel
namespace Pops

/-- Over any history of cohort-maintaining actions (any interleaving of establishment, latency
    steps, survival rate, lethal temperature, treatments, mortality, host moves; any draws) from a
    consistent landscape with `i = sum mort` in every cell, in the documented domain along the
    history and with consistently rounding ratio treatments along the history: `i = sum mort` holds
    in every cell afterwards. -/
theorem C03_cohorts_history (ops : List LandOp) (l l' : Land) (hinv : l.inv) (hu : l.uniform)
    (hc : l.cohortsOK) (hd : DomainAlong ops l) (hk : ∀ op ∈ ops, op.keepsCohorts = true)
    (hr : RoundingAlong ops l) (h : runOps ops l = .ok l') : l'.cohortsOK :=
  (history_cohorts ops l l' hinv hu hc hd hk hr h).2.2

/-- Without ratio treatments in the history the rounding condition is void. -/
theorem C03_cohorts_history_no_ratio_treatments (ops : List LandOp) (l l' : Land) (hinv : l.inv)
    (hu : l.uniform) (hc : l.cohortsOK) (hd : DomainAlong ops l)
    (hk : ∀ op ∈ ops, op.keepsCohorts = true) (hnr : ∀ op ∈ ops, op.noRatioTreat = true)
    (h : runOps ops l = .ok l') : l'.cohortsOK :=
  C03_cohorts_history ops l l' hinv hu hc hd hk (roundingAlong_of_noRatio ops l hnr) h

/-- The same over any sequence of state-dependent actions (generators). -/
theorem C03_cohorts_generators (gens : List OpGen) (l l' : Land) (hinv : l.inv) (hu : l.uniform)
    (hc : l.cohortsOK) (hd : GensDomainAlong gens l) (hk : ∀ gen ∈ gens, KeepsCohortsGen gen)
    (hr : GensRoundingAlong gens l) (h : runGens gens l = .ok l') : l'.cohortsOK :=
  (gens_cohorts gens l l' hinv hu hc hd hk hr h).2.2

/-- Per model step: for every configuration WITHOUT overpopulation movement, every combination of
    the other enabled and scheduled actions, every input and draw in the domain along the step:
    `i = sum mort` in every cell after `run_step`. -/
theorem C03_cohorts_model_step (cfg : StepCfg) (inp : StepInputs) (step : Nat) (l l' : Land)
    (hov : cfg.useOverpop = false) (hinv : l.inv) (hu : l.uniform) (hc : l.cohortsOK)
    (hd : GensDomainAlong (stepGens cfg inp step) l)
    (hr : GensRoundingAlong (stepGens cfg inp step) l)
    (h : runStepHosts cfg inp step l = .ok l') : l'.cohortsOK :=
  C03_cohorts_generators (stepGens cfg inp step) l l' hinv hu hc hd
    (stepGens_keepsCohorts cfg inp step hov) hr h

/-- Over whole runs: any number of steps, any first step, every step with its own inputs and
    draws: after the run, and after every prefix of it, `i = sum mort` in every cell. -/
theorem C03_cohorts_run (cfg : StepCfg) (inps : List StepInputs) (first : Nat) (l l' : Land)
    (hov : cfg.useOverpop = false) (hinv : l.inv) (hu : l.uniform) (hc : l.cohortsOK)
    (hd : RunDomainAlong cfg inps first l) (hr : RunRoundingAlong cfg inps first l)
    (h : runModel cfg inps first l = .ok l') :
    l'.cohortsOK ∧ ∀ k m, runModel cfg (inps.take k) first l = .ok m → m.cohortsOK := by
  refine ⟨(run_cohorts cfg inps first l l' hov hinv hu hc hd hr h).2.2, fun k m hm => ?_⟩
  have hsplit : inps.take k ++ inps.drop k = inps := List.take_append_drop k inps
  rw [← hsplit] at hd hr
  exact (run_cohorts cfg (inps.take k) first l m hov hinv hu hc
    (runDomainAlong_append_left cfg _ _ first l hd)
    (runRoundingAlong_append_left cfg _ _ first l hr) hm).2.2

/-- Mortality never fails on a state the history itself produced: wherever a mortality operation
    stands in a history of cohort-maintaining actions, it returns `.ok` at the landscape its
    predecessors left (never one of the two `runtime_error` branches of `apply_mortality_at`).
    `mortOK` of the cell it meets is derived, not assumed. -/
theorem C03_mortality_never_fails_along_history (pre post : List LandOp) (k : Nat) (rate : Rat)
    (lag : Int) (l m : Land) (hinv : l.inv) (hu : l.uniform) (hc : l.cohortsOK)
    (hd : DomainAlong (pre ++ .at k (.mortality rate lag) :: post) l)
    (hk : ∀ op ∈ pre, op.keepsCohorts = true)
    (hr : RoundingAlong (pre ++ .at k (.mortality rate lag) :: post) l)
    (hm : runOps pre l = .ok m) :
    ∃ m', (LandOp.at k (.mortality rate lag)).apply m = .ok m' :=
  history_mortality_ok pre post k rate lag l m hinv hu hc hd hk hr hm

/-- Mortality never fails along a run: in a run of a configuration without overpopulation
    movement, whenever the run has reached a step `inp` (after the steps `a`, at landscape `m`) and
    within that step the actions before mortality have been executed (`gpre`, reaching `m2`), the
    whole mortality action - every one of its per-cell mortality operations - returns `.ok`. -/
theorem C03_mortality_never_fails_along_run (cfg : StepCfg) (a b : List StepInputs)
    (inp : StepInputs) (first : Nat) (l m m2 : Land) (gpre gpost : List OpGen)
    (hov : cfg.useOverpop = false) (hinv : l.inv) (hu : l.uniform) (hc : l.cohortsOK)
    (hd : RunDomainAlong cfg (a ++ inp :: b) first l)
    (hr : RunRoundingAlong cfg (a ++ inp :: b) first l)
    (hm : runModel cfg a first l = .ok m)
    (hsplit : stepGens cfg inp (first + a.length) =
      gpre ++ actionGen inp (first + a.length) .mortality :: gpost)
    (hm2 : runGens gpre m = .ok m2) :
    ∃ m3, runOps (actionGen inp (first + a.length) .mortality m2) m2 = .ok m3 := by
  obtain ⟨i1, i2, i3⟩ := run_cohorts cfg a first l m hov hinv hu hc
    (runDomainAlong_append_left cfg _ _ first l hd)
    (runRoundingAlong_append_left cfg _ _ first l hr) hm
  have hdB := (runDomainAlong_append_right cfg a (inp :: b) first l m hd hm).1
  have hrB := (runRoundingAlong_append_right cfg a (inp :: b) first l m hr hm).1
  have hkB := stepGens_keepsCohorts cfg inp (first + a.length) hov
  rw [hsplit] at hdB hrB hkB
  exact gens_mortality_ok gpre gpost _ m m2 i1 i2 i3 hdB
    (fun g hg => hkB g (List.mem_append_left _ hg)) hrB
    (actionGen_mortality_isMortality inp (first + a.length)) hm2

/-- In the model the `runtime_error` branches are mortality's only: no other cell operation
    returns that error. -/
theorem C03_runtime_error_only_from_mortality (op : CellOp) (c : Cell)
    (h : op.apply c = .error .runtime_error) : ∃ rate lag, op = .mortality rate lag :=
  cellOp_runtime_error op c h

/-- Hence such a run never ends in `runtime_error`: it either succeeds or stops with another
    error kind (`invalid_argument` from a suitability outside [0,1] or a treatment). -/
theorem C03_run_never_runtime_error (cfg : StepCfg) (inps : List StepInputs) (first : Nat)
    (l : Land) (hov : cfg.useOverpop = false) (hinv : l.inv) (hu : l.uniform) (hc : l.cohortsOK)
    (hd : RunDomainAlong cfg inps first l) (hr : RunRoundingAlong cfg inps first l) :
    runModel cfg inps first l ≠ .error .runtime_error :=
  run_no_runtime_error cfg inps first l hov hinv hu hc hd hr

/-- The same for histories. -/
theorem C03_history_never_runtime_error (ops : List LandOp) (l : Land) (hinv : l.inv)
    (hu : l.uniform) (hc : l.cohortsOK) (hd : DomainAlong ops l)
    (hk : ∀ op ∈ ops, op.keepsCohorts = true) (hr : RoundingAlong ops l) :
    runOps ops l ≠ .error .runtime_error :=
  history_no_runtime_error ops l hinv hu hc hd hk hr

/-! ### why the rounding condition is needed -/

/-- One action: `C03_cohorts_full_fails` (Props/C03.lean; mort = [1,1], i = 2, host removal with
    coefficient 1/2: the per-cohort shares round up to 1 + 1, the share of the total to 1).

    A run: a one-cell landscape, consistent, `i = sum mort`; a pesticide treatment with
    coefficient 1/2 (ratio application) followed by mortality with rate 1: both operations are in
    their documented domain all along, none is an overpopulation primitive - only the rounding
    condition fails (per-cohort shares round down to 0 + 0, the share of the total to 1). The
    treatment leaves i = 1 with cohorts [1, 1], and the mortality step throws `runtime_error`. -/
theorem C03_rounding_needed_for_mortality :
    let l : Land := [⟨2, [], 2, 0, 0, [1, 1], 0, 4⟩]
    let ops : List LandOp := [.at 0 (.pesticideTreat (1/2) .ratio), .at 0 (.mortality 1 0)]
    l.inv ∧ l.uniform ∧ l.cohortsOK ∧ DomainAlong ops l ∧ (∀ op ∈ ops, op.keepsCohorts = true) ∧
    ¬ RoundingAlong ops l ∧
    runOps [.at 0 (.pesticideTreat (1/2) .ratio)] l = .ok [⟨1, [], 1, 2, 0, [1, 1], 0, 4⟩] ∧
    runOps ops l = .error .runtime_error := by
  intro l ops
  have hrun : runOps ops l = .error .runtime_error := eq_error_of_failsWith (by decide +kernel)
  have hinv : l.inv := Land.inv_of_B _ (by decide)
  have hu : l.uniform := Land.uniform_of_B _ (by decide)
  have hc : l.cohortsOK := Land.cohortsOK_of_B _ (by decide)
  have hd : DomainAlong ops l := domainAlong_of_B _ _ (by decide +kernel)
  have hk : ∀ op ∈ ops, op.keepsCohorts = true := by
    intro op hop
    simp only [ops, List.mem_cons, List.not_mem_nil, or_false] at hop
    rcases hop with rfl | rfl <;> rfl
  refine ⟨hinv, hu, hc, hd, hk, fun hr => ?_, eq_ok_of_yields (by decide +kernel), hrun⟩
  exact C03_history_never_runtime_error ops l hinv hu hc hd hk hr hrun

/-! ### a non-trivial instance: the SEI run of Props/RunModel.lean with overpopulation switched off

  Latency 1, a 1x2 landscape, four steps: survival rate + host-removal treatment (ratio 1/2) +
  mortality; a spread step (landings, latency step, a host movement from cell 1 to cell 0);
  survival rate + a removal treatment and a pesticide treatment (both ratio 1/2) + mortality;
  survival rate + end of the pesticide treatment. Three ratio treatments are applied, each rounds
  consistently at the cell it meets. -/

def cohSeiCfg : StepCfg := { runSeiCfg with useOverpop := false }

/-- `runSeiInp2` with the survival draws that fit the landscape this run reaches. -/
def cohSeiInp2 : StepInputs :=
  { runSeiInp2 with survivalDrawsI := [[0, 1], [0, 0]], survivalDrawsE := [[0, 0], [0, 0]] }

def cohSeiInps : List StepInputs := [runSeiInp0, runSeiInp1, cohSeiInp2, runSeiInp3]

def cohSeiLand1 : Land := [⟨7, [1, 0], 1, 0, 1, [1, 0], 0, 9⟩, ⟨7, [1, 0], 0, 0, 1, [0, 0], 1, 8⟩]
def cohSeiLand2 : Land := [⟨8, [1, 0], 2, 0, 1, [1, 1], 0, 11⟩, ⟨5, [0, 0], 1, 0, 0, [0, 1], 1, 6⟩]
def cohSeiLand3 : Land := [⟨5, [1, 0], 0, 4, 1, [0, 0], 1, 10⟩, ⟨2, [0, 0], 0, 0, 0, [0, 0], 1, 2⟩]
def cohSeiLand4 : Land := [⟨10, [0, 0], 0, 0, 0, [0, 0], 1, 10⟩, ⟨2, [0, 0], 0, 0, 0, [0, 0], 1, 2⟩]

theorem cohSei_cohorts0 : runSeiLand0.cohortsOK := Land.cohortsOK_of_B _ (by decide)

theorem cohSei_run : runModel cohSeiCfg cohSeiInps 0 runSeiLand0 = .ok cohSeiLand4 :=
  eq_ok_of_yields (by decide +kernel)

theorem cohSei_domain : RunDomainAlong cohSeiCfg cohSeiInps 0 runSeiLand0 :=
  runDomainAlong_of_B _ _ _ _ (by decide +kernel)

theorem cohSei_rounding : RunRoundingAlong cohSeiCfg cohSeiInps 0 runSeiLand0 :=
  runRoundingAlong_of_B _ _ _ _ (by decide +kernel)

/-- What each step executes (no overpopulation in the spread step). -/
theorem cohSei_plans :
    (plan cohSeiCfg 0).map (·.1) = [.survival, .treatments, .mortality] ∧
    (plan cohSeiCfg 1).map (·.1) = [.spread, .stepForward, .movement, .treatments] ∧
    (plan cohSeiCfg 2).map (·.1) = [.survival, .treatments, .mortality] ∧
    (plan cohSeiCfg 3).map (·.1) = [.survival, .treatments] := by decide +kernel

/-- `C03_cohorts_run` at the instance: all hypotheses hold, the final landscape and the landscapes
    after 1, 2 and 3 steps have `i = sum mort` in both cells (cell 0 after the spread step:
    i = 2 = 1 + 1). -/
example :
    cohSeiCfg.useOverpop = false ∧ runSeiLand0.inv ∧ runSeiLand0.uniform ∧ runSeiLand0.cohortsOK ∧
    RunDomainAlong cohSeiCfg cohSeiInps 0 runSeiLand0 ∧
    RunRoundingAlong cohSeiCfg cohSeiInps 0 runSeiLand0 ∧
    runModel cohSeiCfg cohSeiInps 0 runSeiLand0 = .ok cohSeiLand4 ∧
    cohSeiLand4.cohortsOK ∧ cohSeiLand1.cohortsOK ∧ cohSeiLand2.cohortsOK ∧ cohSeiLand3.cohortsOK := by
  obtain ⟨h1, h2⟩ := C03_cohorts_run cohSeiCfg cohSeiInps 0 runSeiLand0 cohSeiLand4 rfl runSei_inv
    runSei_uniform cohSei_cohorts0 cohSei_domain cohSei_rounding cohSei_run
  exact ⟨rfl, runSei_inv, runSei_uniform, cohSei_cohorts0, cohSei_domain, cohSei_rounding,
    cohSei_run, h1,
    h2 1 cohSeiLand1 (eq_ok_of_yields (by decide +kernel)),
    h2 2 cohSeiLand2 (eq_ok_of_yields (by decide +kernel)),
    h2 3 cohSeiLand3 (eq_ok_of_yields (by decide +kernel))⟩

/-- `C03_mortality_never_fails_along_run` at the instance, for the mortality action of step 2
    (after the steps 0 and 1 and, within step 2, after survival rate and the two treatments): the
    mortality action succeeds - one host of the oldest cohort of cell 0 dies. -/
example :
    ∃ m2 m3, runGens [actionGen cohSeiInp2 2 .survival, actionGen cohSeiInp2 2 .treatments]
        cohSeiLand2 = .ok m2 ∧
      runOps (actionGen cohSeiInp2 2 .mortality m2) m2 = .ok m3 ∧ m3 = cohSeiLand3 := by
  have hm : runModel cohSeiCfg [runSeiInp0, runSeiInp1] 0 runSeiLand0 = .ok cohSeiLand2 :=
    eq_ok_of_yields (by decide +kernel)
  have hsplit : stepGens cohSeiCfg cohSeiInp2 (0 + [runSeiInp0, runSeiInp1].length) =
      [actionGen cohSeiInp2 2 .survival, actionGen cohSeiInp2 2 .treatments] ++
        actionGen cohSeiInp2 (0 + [runSeiInp0, runSeiInp1].length) .mortality :: [] := by
    have hp : (plan cohSeiCfg 2).map (·.1) = [.survival, .treatments, .mortality] := cohSei_plans.2.2.1
    have hs : stepGens cohSeiCfg cohSeiInp2 2 =
        ((plan cohSeiCfg 2).map (·.1)).map (actionGen cohSeiInp2 2) := by
      rw [List.map_map]; rfl
    show stepGens cohSeiCfg cohSeiInp2 2 = _
    rw [hs, hp]
    rfl
  have hm2 : runGens [actionGen cohSeiInp2 2 .survival, actionGen cohSeiInp2 2 .treatments]
      cohSeiLand2 = .ok [⟨5, [1, 0], 1, 4, 1, [1, 0], 0, 11⟩, ⟨2, [0, 0], 0, 0, 0, [0, 0], 1, 2⟩] :=
    eq_ok_of_yields (by decide +kernel)
  obtain ⟨m3, h3⟩ := C03_mortality_never_fails_along_run cohSeiCfg [runSeiInp0, runSeiInp1]
    [runSeiInp3] cohSeiInp2 0 runSeiLand0 cohSeiLand2 _ _ [] rfl runSei_inv runSei_uniform
    cohSei_cohorts0 cohSei_domain cohSei_rounding hm hsplit hm2
  refine ⟨_, m3, hm2, h3, ?_⟩
  have h3' : runOps (actionGen cohSeiInp2 2 .mortality
      [⟨5, [1, 0], 1, 4, 1, [1, 0], 0, 11⟩, ⟨2, [0, 0], 0, 0, 0, [0, 0], 1, 2⟩])
      [⟨5, [1, 0], 1, 4, 1, [1, 0], 0, 11⟩, ⟨2, [0, 0], 0, 0, 0, [0, 0], 1, 2⟩] = .ok cohSeiLand3 :=
    eq_ok_of_yields (by decide +kernel)
  have h3'' : runOps (actionGen cohSeiInp2 2 .mortality
      [⟨5, [1, 0], 1, 4, 1, [1, 0], 0, 11⟩, ⟨2, [0, 0], 0, 0, 0, [0, 0], 1, 2⟩])
      [⟨5, [1, 0], 1, 4, 1, [1, 0], 0, 11⟩, ⟨2, [0, 0], 0, 0, 0, [0, 0], 1, 2⟩] = .ok m3 := h3
  rw [h3'] at h3''
  injection h3'' with h
  exact h.symm

/-- `C03_run_never_runtime_error` at the instance. -/
example : runModel cohSeiCfg cohSeiInps 0 runSeiLand0 ≠ .error .runtime_error :=
  C03_run_never_runtime_error cohSeiCfg cohSeiInps 0 runSeiLand0 rfl runSei_inv runSei_uniform
    cohSei_cohorts0 cohSei_domain cohSei_rounding

/-- `C03_cohorts_history` and `C03_mortality_never_fails_along_history` on a history of cell
    operations: an establishment, the latency step, a ratio treatment that rounds consistently
    (it meets i = 5, mort = [2, 3]; coefficient 1/2: ceil 1 + ceil 3/2 = 3 = ceil 5/2), mortality (one
    host of the oldest cohort dies), a host move. -/
example :
    let l : Land := [⟨5, [1, 0], 4, 0, 1, [2, 2], 0, 10⟩, ⟨3, [0, 0], 0, 0, 0, [0, 0], 0, 3⟩]
    let pre : List LandOp := [.at 0 (.add .sei), .at 0 (.stepForward .sei 1 3),
      .at 0 (.simpleTreat (1/2) .ratio)]
    let post : List LandOp := [.move 0 1 2 ⟨1, 1, 0, 0⟩ [0, 0] [1, 0]]
    ∃ m l', runOps pre l = .ok m ∧ (∃ m', (LandOp.at 0 (.mortality (1/2) 0)).apply m = .ok m') ∧
      runOps (pre ++ .at 0 (.mortality (1/2) 0) :: post) l = .ok l' ∧ l'.cohortsOK ∧
      l' = [⟨1, [0, 0], 0, 0, 0, [0, 0], 1, 1⟩, ⟨4, [0, 0], 1, 0, 0, [1, 0], 0, 5⟩] := by
  intro l pre post
  have hinv : l.inv := Land.inv_of_B _ (by decide)
  have hu : l.uniform := Land.uniform_of_B _ (by decide)
  have hc : l.cohortsOK := Land.cohortsOK_of_B _ (by decide)
  have hd : DomainAlong (pre ++ .at 0 (.mortality (1/2) 0) :: post) l :=
    domainAlong_of_B _ _ (by decide +kernel)
  have hr : RoundingAlong (pre ++ .at 0 (.mortality (1/2) 0) :: post) l :=
    roundingAlong_of_B _ _ (by decide +kernel)
  have hk : ∀ op ∈ pre ++ .at 0 (.mortality (1/2) 0) :: post, op.keepsCohorts = true := by
    intro op hop
    simp only [pre, post, List.cons_append, List.nil_append, List.mem_cons, List.not_mem_nil,
      or_false] at hop
    rcases hop with rfl | rfl | rfl | rfl | rfl <;> rfl
  have hm : runOps pre l = .ok [⟨2, [0, 0], 2, 0, 0, [1, 1], 0, 4⟩, ⟨3, [0, 0], 0, 0, 0, [0, 0], 0, 3⟩] :=
    eq_ok_of_yields (by decide +kernel)
  have hrun : runOps (pre ++ .at 0 (.mortality (1/2) 0) :: post) l =
      .ok [⟨1, [0, 0], 0, 0, 0, [0, 0], 1, 1⟩, ⟨4, [0, 0], 1, 0, 0, [1, 0], 0, 5⟩] :=
    eq_ok_of_yields (by decide +kernel)
  exact ⟨_, _, hm,
    C03_mortality_never_fails_along_history pre post 0 (1/2) 0 l _ hinv hu hc hd
      (fun op hop => hk op (List.mem_append_left _ hop)) hr hm,
    hrun, C03_cohorts_history _ l _ hinv hu hc hd hk hr hrun, rfl⟩

end Pops
