/-
  C15  Network trips start at nodes, stay on the network, honour cost, snap and clip.
  Property theorems only; helper lemmas are in PopsModel/Lemmas/Net{Walk,Load,Geom}.lean.
  Model: PopsModel/Model/Net{,Parse,Walk,Pred}.lean (mirror of include/pops/network.hpp and
  network_kernel.hpp). Random choices are not modelled as draws: `walk` / `teleport` return every
  result reachable under some choice, and the theorems hold for each of them.
-/
import PopsModel.Lemmas.NetWalk
import PopsModel.Lemmas.NetLoad
import PopsModel.Lemmas.NetGeom
import PopsModel.Lemmas.KernElig
namespace Pops
open Pops.Net

/-! ## Trips -/

/-- A trip needs a node in the start cell: without one `walk`, `teleport` and the kernel (in every
    mode) throw `invalid_argument`, and the kernel reports the cell as not eligible. -/
theorem C15_start_needs_node (n : Net) (c : Cell) (h : n.hasNodeAt c = false) :
    (∀ d jump, n.walk c d jump = [.err .invalid_argument]) ∧
    (∀ k, n.teleport c k = [.err .invalid_argument]) ∧
    (∀ tele jump d, n.kernelCall tele jump c d = [.err .invalid_argument]) ∧
    n.isCellEligible c = false := by
  have hn : n.nodesAt c = [] := by
    simpa [Net.hasNodeAt, List.isEmpty_iff] using h
  refine ⟨?_, ?_, ?_, h⟩
  · intro d jump; simp [Net.walk, Net.walkG, hn]
  · intro k; simp [Net.teleport, hn]
  · intro tele jump d
    cases tele <;> simp [Net.kernelCall, Net.walk, Net.walkG, Net.teleport, hn]

/-- Conversely a cell with a node is eligible and no trip from it is rejected for a missing node
    (a non-negative distance never yields an exception; see also `C15_cost`). -/
theorem C15_start_with_node (n : Net) (c : Cell) (h : n.hasNodeAt c = true) :
    n.isCellEligible c = true ∧ n.nodesAt c ≠ [] := by
  refine ⟨h, ?_⟩
  intro h0; simp [Net.hasNodeAt, h0] at h

/-- Every result of `walk` has a derivation from a node of the start cell (with `next_node`'s
    preference, with the visited list starting empty), unless fuel ran out. -/
theorem C15_walk_derivation (n : Net) (pref : Bool) (c : Cell) (d : Rat) (jump : Bool) (o : Outcome)
    (h : o ∈ n.walkG pref c d jump) :
    o = .diverge ∨ (n.nodesAt c = [] ∧ o = .err .invalid_argument) ∨
      ∃ nd ∈ n.nodesAt c, Trip n pref jump c nd [] d o := by
  unfold Net.walkG at h
  split at h
  · next hn => right; left; exact ⟨hn, by simpa using h⟩
  · obtain ⟨nd, hnd, ho⟩ := List.mem_flatMap.mp h
    rcases walkFrom_sound n pref jump c _ nd [] d o ho with h1 | h1
    · left; exact h1
    · right; right; exact ⟨nd, hnd, h1⟩

/-- The trip never leaves the loaded network: every cell `walk` can return is the start cell or a
    cell of a stored segment - for every distance, with and without snapping, under every random
    choice. -/
theorem C15_stays_on_network (n : Net) (hne : ∀ e ∈ n.segs, e.2.cells ≠ []) (c : Cell) (d : Rat)
    (jump : Bool) (x : Cell) (h : .at x ∈ n.walk c d jump) : onNetwork n c x = true := by
  rcases C15_walk_derivation n true c d jump _ h with h1 | ⟨_, h1⟩ | ⟨nd, _, ht⟩
  · exact absurd h1 (by simp)
  · exact absurd h1 (by simp)
  · exact ht.on_network hne x rfl

/-- Termination: with positive segment costs the loop of `walk` ends within
    `floor(distance / minimum cost) + 1` iterations - the model's fuel is never exhausted. -/
theorem C15_terminates (n : Net) (hpos : ∀ e ∈ n.segs, 0 < e.2.cost) (c : Cell) (d : Rat)
    (jump : Bool) : Outcome.diverge ∉ n.walk c d jump ∧ Outcome.diverge ∉ n.walkRelaxed c d jump := by
  have key : ∀ pref, Outcome.diverge ∉ n.walkG pref c d jump := by
    intro pref h
    unfold Net.walkG at h
    split at h
    · simp at h
    · obtain ⟨nd, _, ho⟩ := List.mem_flatMap.mp h
      exact walkFrom_no_diverge n pref jump c n.minCost (fun e he => minCost_le he) _ nd [] d
        (lt_walkFuel_mul (minCost_pos hpos) d) ho
  exact ⟨key true, key false⟩

/-- Cost accounting (walking without snapping). For a network whose segments have at least two
    cells and positive cost, every result of `walk` from a cell with a node is a cell (never an
    exception for `d ≥ 0`, never a read past the end of a segment), obtained by a derivation that
    consumes whole segments while the remaining distance exceeds their cost and stops on the
    first segment whose cost is not exceeded. -/
theorem C15_cost (n : Net) (hwf : n.WF) (c : Cell) (d : Rat) (hd : 0 ≤ d)
    (hnode : n.hasNodeAt c = true) (o : Outcome) (h : o ∈ n.walk c d false) :
    (∃ x, o = .at x) ∧ ∃ nd ∈ n.nodesAt c, Trip n false false c nd [] d o := by
  rcases C15_walk_derivation n true c d false o h with h1 | ⟨h1, _⟩ | ⟨nd, hnd, ht⟩
  · rw [h1] at h; exact absurd h (C15_terminates n hwf.costPos c d false).1
  · exact absurd h1 (C15_start_with_node n c hnode).2
  · exact ⟨ht.ends_at_cell hwf hd, nd, hnd, ht.relax⟩

/-- The stopping index: on the last segment `v` with remaining distance `0 ≤ d ≤ cost(v)` the
    trip ends at cell number `round(d / cost_per_cell)` of the segment seen in travel direction,
    and that index is at most `|v| - 1` (so distance 0 is the node just left, the full cost is the
    far node). -/
theorem C15_cost_index (n : Net) (hwf : n.WF) (a b : NodeId) (v : SegView)
    (hs : n.getSegment a b = some v) (d : Rat) (hd0 : 0 ≤ d) (hd : d ≤ v.cost) :
    ∃ (i : Nat) (x : Cell), (i : Int) = lround (d / v.costPerCell) ∧ i ≤ v.cells.length - 1 ∧
      v.cells[i]? = some x ∧ Net.finish false v d = .at x := by
  obtain ⟨e, he, hseg, hcells⟩ := getSegment_some hs
  have hlen : v.cells.length = v.seg.cells.length := by
    rcases hcells with ⟨_, h'⟩ | ⟨_, h'⟩ <;> rw [h', hseg] <;> simp
  exact finish_walk hlen (hseg ▸ hwf.twoCells e he) (hseg ▸ hwf.costPos e he) hd0 hd

/-- Snapping. On the last segment the result is the node just left when less than half of the
    segment's cost remains to be travelled, and the far node from exactly half on; consequently
    every cell a snapped walk returns holds a node. -/
theorem C15_jump (n : Net) (hne : ∀ e ∈ n.segs, e.2.cells ≠ []) :
    (∀ (v : SegView) (d : Rat),
        Net.finish true v d = if d < v.cost / 2 then .at v.front else .at v.back) ∧
    (∀ (c : Cell) (d : Rat) (x : Cell), .at x ∈ n.walk c d true → isNodeCell n x = true) := by
  refine ⟨finish_jump, ?_⟩
  intro c d x h
  rcases C15_walk_derivation n true c d true _ h with h1 | ⟨_, h1⟩ | ⟨nd, hnd, ht⟩
  · exact absurd h1 (by simp)
  · exact absurd h1 (by simp)
  · exact ht.jump_ends_at_node hne (hasNodeAt_iff.mpr ⟨nd, hnd⟩) x rfl

/-- `next_node` prefers unvisited neighbours while one exists: it returns a neighbour (the node
    itself only if it has none), and never a visited one if some neighbour is unvisited. Every hop
    of `walk` is such a choice, made with the list of all nodes the trip has left so far
    (`C15_walk_derivation` with `pref = true`: the derivation's `visited` grows by the node just left). -/
theorem C15_prefers_unvisited (n : Net) (node m : NodeId) (visited : List NodeId)
    (h : m ∈ n.nextNodes true node visited) :
    (m ∈ n.neighbours node ∨ (n.neighbours node = [] ∧ m = node)) ∧
    ((∃ u ∈ n.neighbours node, u ∉ visited) → m ∉ visited) ∧
    (∀ (c : Cell) (d : Rat) (jump : Bool) (o : Outcome), o ∈ n.walk c d jump → o ≠ .diverge →
      n.nodesAt c ≠ [] → ∃ nd ∈ n.nodesAt c, Trip n true jump c nd [] d o) := by
  refine ⟨mem_nextNodes h, ?_, ?_⟩
  · rintro ⟨u, hu, hui⟩; exact nextNodes_unvisited h hu hui
  · intro c d jump o ho hdiv hnodes
    rcases C15_walk_derivation n true c d jump o ho with h1 | ⟨h1, _⟩ | h1
    · exact absurd h1 hdiv
    · exact absurd h1 hnodes
    · exact h1

/-- Teleporting ends on a node adjacent to a node of the start cell: the returned cell holds a
    node `m` that is a neighbour of some node `a` of the start cell (`m = a` only if `a` has no
    edge, which cannot happen after `load`). With several steps the result is still a node cell.
    Which neighbour is drawn is `discrete_distribution`'s law over the edge probabilities (trusted);
    the model only excludes zero-weight neighbours. -/
theorem C15_teleport_adjacent (n : Net) (c x : Cell) :
    (.at x ∈ n.teleport c 1 → teleportAdjacent n c x = true) ∧
    (∀ k, .at x ∈ n.teleport c k → isNodeCell n x = true) ∧
    (∀ tele jump d, tele = true → .at x ∈ n.kernelCall tele jump c d → teleportAdjacent n c x = true) := by
  have hcell : ∀ k, .at x ∈ n.teleport c k →
      ∃ a ∈ n.nodesAt c, ∃ m ∈ n.teleportNodes k a, m ∈ n.nodesAt x := by
    intro k h
    unfold Net.teleport at h
    split at h
    · simp at h
    · obtain ⟨a, ha, h⟩ := List.mem_flatMap.mp h
      obtain ⟨m, hm, h⟩ := List.mem_map.mp h
      split at h
      · next y hy =>
        have : y = x := by simpa using h
        subst this
        exact ⟨a, ha, m, hm, nodeCell_mem hy⟩
      · simp at h
  have hadj : .at x ∈ n.teleport c 1 → teleportAdjacent n c x = true := by
    intro h
    obtain ⟨a, ha, m, hm, hmx⟩ := hcell 1 h
    simp only [Net.teleportNodes, List.mem_flatMap, List.mem_singleton] at hm
    obtain ⟨m', hm', hmm⟩ := hm
    subst hmm
    simp only [teleportAdjacent, List.any_eq_true, Bool.or_eq_true, Bool.and_eq_true,
      List.contains_iff_mem, List.isEmpty_iff, beq_iff_eq]
    refine ⟨a, ha, m, hmx, ?_⟩
    rcases mem_teleportTargets hm' with h1 | ⟨h1, h2⟩
    · exact Or.inl h1
    · exact Or.inr ⟨h1, h2⟩
  refine ⟨hadj, ?_, ?_⟩
  · intro k h
    obtain ⟨_, _, m, _, hmx⟩ := hcell k h
    exact hasNodeAt_iff.mpr ⟨m, hmx⟩
  · intro tele jump d ht h
    subst ht
    exact hadj (by simpa [Net.kernelCall] using h)

/-- The kernel forwards its movement mode: walking kernels call `walk` with the drawn distance AND
    their snapping flag (defect F12, repaired: the flag used to be dropped), teleporting kernels
    call `teleport` with one step; eligibility is the presence of a node. Hence all trip theorems
    hold for `NetworkDispersalKernel::operator()` as well. -/
theorem C15_kernel_forwards (n : Net) (c : Cell) (d : Rat) (jump : Bool) :
    n.kernelCall false jump c d = n.walk c d jump ∧
    n.kernelCall true jump c d = n.teleport c 1 ∧
    n.isCellEligible c = n.hasNodeAt c := ⟨rfl, rfl, rfl⟩

/-! ## Loading -/

/-- The coded clipping test on a record, spelled out: both end cells have
    `0 ≤ row ≤ max_row` and `0 ≤ col ≤ max_col`, where `(max_row, max_col)` is the cell of the
    south-east corner COORDINATE, i.e. `floor((north-south)/ns_res)`, `floor((east-west)/ew_res)` -
    one more than the last row / column of the raster when the box is a whole number of cells. -/
theorem C15_load_clip_rule (g : Grid) (r : Rec) :
    (r.kept g = true ↔
      (0 ≤ r.seg.front.1 ∧ r.seg.front.1 ≤ g.maxRow ∧ 0 ≤ r.seg.front.2 ∧ r.seg.front.2 ≤ g.maxCol) ∧
      (0 ≤ r.seg.back.1 ∧ r.seg.back.1 ≤ g.maxRow ∧ 0 ≤ r.seg.back.2 ∧ r.seg.back.2 ≤ g.maxCol)) ∧
    g.maxRow = rfloor ((g.north - g.south) / g.nsRes) ∧
    g.maxCol = rfloor ((g.east - g.west) / g.ewRes) := by
  refine ⟨?_, rfl, rfl⟩
  simp only [Rec.kept, Grid.cellOut, Bool.not_eq_true', Bool.or_eq_false_iff,
    decide_eq_false_iff_not, Int.not_lt, gt_iff_lt]
  constructor
  · rintro ⟨⟨⟨⟨a1, a2⟩, a3⟩, a4⟩, ⟨⟨⟨b1, b2⟩, b3⟩, b4⟩⟩
    exact ⟨⟨a2, a1, a4, a3⟩, ⟨b2, b1, b4, b3⟩⟩
  · rintro ⟨⟨a2, a1, a4, a3⟩, ⟨b2, b1, b4, b3⟩⟩
    exact ⟨⟨⟨⟨a1, a2⟩, a3⟩, a4⟩, ⟨⟨⟨b1, b2⟩, b3⟩, b4⟩⟩

/-- Clipping as coded. After a successful `load` the stored segment of a node pair is the segment
    of the FIRST input record with that pair whose two end cells pass the coded test
    (`C15_load_clip_rule`); a pair is stored iff such a record exists; whole edges only. -/
theorem C15_load_clip (g : Grid) (text : List Char) (allow : Bool) (net : Net)
    (h : load g text allow = .ok net) :
    ∃ hd data rs, splitHeader (getlines '\n' text) = .ok (hd, data) ∧
      parseRecords g hd.hasCost hd.hasProb data = .ok rs ∧
      (∀ k, net.findSeg k = firstKept g k rs) ∧
      (∀ k, (∃ s, net.findSeg k = some s) ↔ ∃ r ∈ rs, r.key = k ∧ r.kept g = true) ∧
      (∀ e ∈ net.segs, ∃ r ∈ rs, r.kept g = true ∧ e = (r.key, r.seg)) := by
  obtain ⟨hd, data, rs, h1, h2, _, _, hsegs⟩ := loadSegments_ok (load_ok h).1
  have hfind : ∀ k, net.findSeg k = firstKept g k rs := by
    intro k; rw [findSeg_eq_lookup, hsegs]; exact lookup_storeRecords g k rs
  refine ⟨hd, data, rs, h1, h2, hfind, ?_, ?_⟩
  · intro k
    rw [hfind k]
    constructor
    · rintro ⟨s, hs⟩
      obtain ⟨r, hr, hk, hkey, _⟩ := firstKept_some hs
      exact ⟨r, hr, hkey, hk⟩
    · rintro ⟨r, hr, hkey, hk⟩
      exact firstKept_isSome hr hk hkey
  · intro e he; rw [hsegs] at he; exact mem_storeRecords he

/-- One direction of the ideal rule holds: an edge whose two end points lie inside the study area
    (closed box, the library's own `xy_out_of_bbox`) is never clipped. -/
theorem C15_load_clip_inside_kept (g : Grid) (hew : 0 < g.ewRes) (hns : 0 < g.nsRes)
    (hc hp : Bool) (line : List Char) (r : Rec) (h : parseRecord g hc hp line = .ok r)
    (hin : r.inside g = true) : r.kept g = true := by
  obtain ⟨_, _, _, _, _, _, _, _, _, hb⟩ := parseRecord_ok h
  obtain ⟨_, _, hf, hl, _⟩ := buildRec_cells hb
  simp only [Rec.inside, Bool.and_eq_true, Bool.not_eq_true'] at hin
  simp only [Rec.kept, Bool.not_eq_true', Bool.or_eq_false_iff, hf, hl, Grid.cellOf]
  exact ⟨inside_not_cellOut g hew hns _ _ hin.1, inside_not_cellOut g hew hns _ _ hin.2⟩

/-- The other direction fails by less than one cell: the end points of a kept edge lie in the study
    area extended by one cell size beyond the east and south edges. This is the exact region of
    finding F17 (`Rec.f17`). -/
theorem C15_load_clip_region (g : Grid) (hew : 0 < g.ewRes) (hns : 0 < g.nsRes)
    (hc hp : Bool) (line : List Char) (r : Rec) (h : parseRecord g hc hp line = .ok r)
    (hk : r.kept g = true) :
    (g.west ≤ r.first.1 ∧ r.first.1 < g.east + g.ewRes ∧ g.south - g.nsRes < r.first.2 ∧ r.first.2 ≤ g.north) ∧
    (g.west ≤ r.last.1 ∧ r.last.1 < g.east + g.ewRes ∧ g.south - g.nsRes < r.last.2 ∧ r.last.2 ≤ g.north) := by
  obtain ⟨_, _, _, _, _, _, _, _, _, hb⟩ := parseRecord_ok h
  obtain ⟨_, _, hf, hl, _⟩ := buildRec_cells hb
  simp only [Rec.kept, Bool.not_eq_true', Bool.or_eq_false_iff, hf, hl, Grid.cellOf] at hk
  exact ⟨not_cellOut_region g hew hns _ _ hk.1, not_cellOut_region g hew hns _ _ hk.2⟩

/-- The ideal clipping rule of the property text: "keeps exactly the edges whose two end nodes lie
    inside the study area". -/
def C15_load_clip_ideal : Prop :=
  ∀ (g : Grid) (hc hp : Bool) (line : List Char) (r : Rec), 0 < g.ewRes → 0 < g.nsRes →
    g.west < g.east → g.south < g.north → parseRecord g hc hp line = .ok r →
    (r.kept g = true ↔ r.inside g = true)

/-- Witness of finding F17. -/
def f17Grid : Grid := ⟨10, 0, 10, 0, 1, 1⟩
def f17Line : List Char := "1,2,9.5;5.5;10.5;5.5".toList
def f17Rec : Rec := ⟨(1, 2), ⟨[(4, 9), (4, 10)], 1, 0, 0⟩, (19/2, 11/2), (21/2, 11/2)⟩

theorem C15_F17_witness :
    parseRecord f17Grid false false f17Line = .ok f17Rec ∧
    f17Rec.kept f17Grid = true ∧ f17Rec.inside f17Grid = false ∧ f17Rec.f17 f17Grid = true ∧
    f17Grid.xyOut (21/2) (11/2) = true := by
  have h1 : (parseRecord f17Grid false false f17Line).toOption = some f17Rec := by decide +kernel
  refine ⟨?_, by decide +kernel, by decide +kernel, by decide +kernel, by decide +kernel⟩
  cases hp : parseRecord f17Grid false false f17Line with
  | error e => rw [hp] at h1; simp [Except.toOption] at h1
  | ok r => rw [hp] at h1; simp only [Except.toOption, Option.some.injEq] at h1; rw [h1]

/-- Finding F17 (open): the ideal rule does NOT hold - in the box `[0,10] x [0,10]` with unit cells
    the edge `1,2,9.5;5.5;10.5;5.5` is kept although node 2 lies at `x = 10.5 > east`. -/
theorem C15_load_clip_ideal_fails : ¬ C15_load_clip_ideal := by
  intro h
  obtain ⟨hp, hk, hin, _, _⟩ := C15_F17_witness
  have := (h f17Grid false false f17Line f17Rec (by decide +kernel) (by decide +kernel)
    (by decide +kernel) (by decide +kernel) hp).mp hk
  rw [hin] at this
  exact absurd this (by simp)

/-- Every stored edge can be travelled in both directions: adjacency is symmetric, `b` is a
    neighbour of `a` exactly when `get_segment(a, b)` finds a segment, and (unless both orders of
    the pair were given as separate input records) the two directions see the same segment - same
    cost, cells in reverse order. -/
theorem C15_load_symmetric (n : Net) (a b : NodeId) :
    (b ∈ n.neighbours a ↔ a ∈ n.neighbours b) ∧
    (b ∈ n.neighbours a ↔ ∃ v, n.getSegment a b = some v) ∧
    (∀ e ∈ n.segs, e.1 = (a, b) → b ∈ n.neighbours a ∧ a ∈ n.neighbours b) ∧
    (∀ v, n.getSegment a b = some v → (n.findSeg (a, b) = none ∨ n.findSeg (b, a) = none) →
      ∃ v', n.getSegment b a = some v' ∧ v'.seg = v.seg ∧ v'.cost = v.cost ∧
        v'.cells = v.cells.reverse) := by
  refine ⟨?_, ?_, ?_, ?_⟩
  · rw [mem_neighbours, mem_neighbours]
    constructor <;> rintro ⟨e, he, h⟩ <;> exact ⟨e, he, h.symm.imp And.symm And.symm⟩
  · constructor
    · exact getSegment_of_neighbour
    · rintro ⟨v, hv⟩
      obtain ⟨e, he, _, hk⟩ := getSegment_some hv
      apply mem_neighbours.mpr
      refine ⟨e, he, ?_⟩
      rcases hk with ⟨hk, _⟩ | ⟨hk, _⟩
      · left; rw [hk]; exact ⟨rfl, rfl⟩
      · right; rw [hk]; exact ⟨rfl, rfl⟩
  · intro e he hk
    constructor
    · exact mem_neighbours.mpr ⟨e, he, Or.inl (by rw [hk]; exact ⟨rfl, rfl⟩)⟩
    · exact mem_neighbours.mpr ⟨e, he, Or.inr (by rw [hk]; exact ⟨rfl, rfl⟩)⟩
  · intro v hv hnone
    unfold Net.getSegment at hv ⊢
    rcases hnone with h1 | h1
    · rw [h1] at hv
      simp only at hv
      cases h2 : n.findSeg (b, a) with
      | none => rw [h2] at hv; exact absurd hv (by simp)
      | some s =>
        rw [h2] at hv
        have : v = ⟨s.cells.reverse, s⟩ := by simpa using hv.symm
        subst this
        exact ⟨⟨s.cells, s⟩, rfl, rfl, rfl, by simp⟩
    · cases h2 : n.findSeg (a, b) with
      | none => rw [h2, h1] at hv; exact absurd hv (by simp)
      | some s =>
        rw [h2] at hv
        have : v = ⟨s.cells, s⟩ := by simpa using hv.symm
        subst this
        simp only [h1]
        exact ⟨⟨s.cells.reverse, s⟩, rfl, rfl, rfl, rfl⟩

/-- Merging and cost. A successfully parsed record has at least two cells; consecutive points
    falling into one cell are stored once (no two consecutive equal cells, except the completed
    one-cell segment `[c, c]`); the cells are exactly the cells of the points, first cell = cell of
    the first point (node 1), last cell = cell of the last point (node 2). Its cost is the stated
    one (non-zero cost column) or `(cells - 1) * (ew_res + ns_res) / 2` without a cost column. -/
theorem C15_load_merge (g : Grid) (hc hp : Bool) (line : List Char) (r : Rec)
    (h : parseRecord g hc hp line = .ok r) :
    2 ≤ r.seg.cells.length ∧ mergedOK r.seg.cells = true ∧
    r.seg.front = g.xyToRowCol r.first.1 r.first.2 ∧ r.seg.back = g.xyToRowCol r.last.1 r.last.2 ∧
    (∃ pts : List (Rat × Rat), 2 ≤ pts.length ∧
      r.seg.cells = (let m := mergeCells (pts.map fun p => g.xyToRowCol p.1 p.2);
                     if m.length = 1 then m ++ m else m)) ∧
    (hc = false → r.seg.cost = (r.seg.steps : Rat) * g.distancePerCell) ∧
    (hc = true → r.seg.total ≠ 0 → r.seg.cost = r.seg.total) ∧
    1 ≤ r.key.1 ∧ 1 ≤ r.key.2 ∧ 0 ≤ r.seg.prob := by
  obtain ⟨id1, id2, prob, total, pts, h1, h2, h3, h4, hb⟩ := parseRecord_ok h
  obtain ⟨c1, c2, c3, c4, _⟩ := buildRec_cells hb
  obtain ⟨b1, b2, b3, b4, b5, _, _, b8⟩ := buildRec_ok hb
  refine ⟨c1, c2, c3, c4, ⟨pts, b1, b8⟩, ?_, ?_, by rw [b2]; exact h1, by rw [b2]; exact h2,
    by rw [b5]; exact h3⟩
  · intro hcf
    subst hcf
    simp only [Segment.cost, b4, h4 rfl, ne_eq, not_true_eq_false, if_false, b3]
    simp
  · intro _ ht
    simp [Segment.cost, ht]

/-- The loaded network is well formed: every stored segment has at least two cells, and without a
    cost column (positive resolutions) every cost is positive - so the trip theorems apply. -/
theorem C15_load_wf (g : Grid) (text : List Char) (allow : Bool) (net : Net)
    (h : load g text allow = .ok net) :
    (∀ e ∈ net.segs, 2 ≤ e.2.cells.length ∧ mergedOK e.2.cells = true) ∧
    (∀ hd data, splitHeader (getlines '\n' text) = .ok (hd, data) → hd.hasCost = false →
      0 < g.distancePerCell → net.WF) := by
  obtain ⟨hd, data, rs, h1, h2, _, _, hmem⟩ := C15_load_clip g text allow net h
  have hrec : ∀ e ∈ net.segs, ∃ l, ∃ r, parseRecord g hd.hasCost hd.hasProb l = .ok r ∧ e = (r.key, r.seg) := by
    intro e he
    obtain ⟨r, hr, _, hre⟩ := hmem e he
    obtain ⟨l, _, hl⟩ := (parseRecords_ok h2).2 r hr
    exact ⟨l, r, hl, hre⟩
  refine ⟨?_, ?_⟩
  · intro e he
    obtain ⟨l, r, hl, hre⟩ := hrec e he
    obtain ⟨m1, m2, _⟩ := C15_load_merge g _ _ l r hl
    rw [hre]; exact ⟨m1, m2⟩
  · intro hd' data' h1' hcf hdpc
    rw [h1] at h1'
    have hhd : hd = hd' := by
      have := Except.ok.inj h1'
      exact (Prod.mk.inj this).1
    subst hhd
    constructor
    · intro e he
      obtain ⟨l, r, hl, hre⟩ := hrec e he
      rw [hre]; exact (C15_load_merge g _ _ l r hl).1
    · intro e he
      obtain ⟨l, r, hl, hre⟩ := hrec e he
      obtain ⟨m1, _, _, _, _, m6, _⟩ := C15_load_merge g _ _ l r hl
      rw [hre]
      simp only
      rw [m6 hcf]
      apply Rat.mul_pos _ hdpc
      apply Rat.natCast_pos.mpr
      unfold Segment.steps; omega

/-- Malformed records are rejected with the documented exception class. `f i` is the `i`-th
    comma-separated text of the line (empty if missing); the geometry column is number
    `2 + [probability column] + [cost column]`.
    * node id text without digits -> `invalid_argument`, beyond `int` -> `out_of_range`
      (class of `std::stoi`), either id below 1 -> `runtime_error`;
    * probability / cost / coordinate text: class of `std::stod` (`invalid_argument` /
      `out_of_range`); a negative probability -> `invalid_argument`;
    * no coordinate pair or only one -> `runtime_error`;
    * the first malformed line aborts the whole `load` with its class; an input without any kept
      edge -> `runtime_error` unless `allow_empty`. -/
theorem C15_load_rejects (g : Grid) (hc hp : Bool) (line : List Char) :
    let f : Nat → List Char := fun i => (getlines ',' line).getD i []
    let gi : Nat := (if hp then 3 else 2) + (if hc then 1 else 0)
    (∀ e, nodeIdFromText (f 0) = .error e → parseRecord g hc hp line = .error e) ∧
    (∀ i1 e, nodeIdFromText (f 0) = .ok i1 → nodeIdFromText (f 1) = .error e →
        parseRecord g hc hp line = .error e) ∧
    (∀ i1 i2, nodeIdFromText (f 0) = .ok i1 → nodeIdFromText (f 1) = .ok i2 → (i1 < 1 ∨ i2 < 1) →
        parseRecord g hc hp line = .error .runtime_error) ∧
    (∀ i1 i2 e, nodeIdFromText (f 0) = .ok i1 → nodeIdFromText (f 1) = .ok i2 → ¬ (i1 < 1 ∨ i2 < 1) →
        hp = true → probabilityFromText (f 2) = .error e → parseRecord g hc hp line = .error e) ∧
    (∀ i1 i2 p e, nodeIdFromText (f 0) = .ok i1 → nodeIdFromText (f 1) = .ok i2 → ¬ (i1 < 1 ∨ i2 < 1) →
        optProbability hp (f 2) = .ok p → hc = true → costFromText (f (if hp then 3 else 2)) = .error e →
        parseRecord g hc hp line = .error e) ∧
    (∀ i1 i2 p t e, nodeIdFromText (f 0) = .ok i1 → nodeIdFromText (f 1) = .ok i2 → ¬ (i1 < 1 ∨ i2 < 1) →
        optProbability hp (f 2) = .ok p → optCost hc (f (if hp then 3 else 2)) = .ok t →
        parsePoints (getlines ';' (f gi)) = .error e → parseRecord g hc hp line = .error e) ∧
    (∀ i1 i2 p t pts, nodeIdFromText (f 0) = .ok i1 → nodeIdFromText (f 1) = .ok i2 → ¬ (i1 < 1 ∨ i2 < 1) →
        optProbability hp (f 2) = .ok p → optCost hc (f (if hp then 3 else 2)) = .ok t →
        parsePoints (getlines ';' (f gi)) = .ok pts → pts.length < 2 →
        parseRecord g hc hp line = .error .runtime_error) := by
  intro f gi
  have hgi : (if hc = true then (if hp = true then 3 else 2) + 1 else (if hp = true then 3 else 2)) = gi := by
    cases hc <;> cases hp <;> rfl
  refine ⟨?_, ?_, ?_, ?_, ?_, ?_, ?_⟩
  · intro e h1
    simp only [f, List.getD_eq_getElem?_getD] at h1
    simp [parseRecord, h1, bind, Except.bind]
  · intro i1 e h1 h2
    simp only [f, List.getD_eq_getElem?_getD] at h1 h2
    simp [parseRecord, h1, h2, bind, Except.bind]
  · intro i1 i2 h1 h2 h3
    simp only [f, List.getD_eq_getElem?_getD] at h1 h2
    simp [parseRecord, h1, h2, h3, bind, Except.bind]
  · intro i1 i2 e h1 h2 h3 hpt h4
    subst hpt
    simp only [f, List.getD_eq_getElem?_getD] at h1 h2 h4
    simp [parseRecord, h1, h2, h3, optProbability, h4, bind, Except.bind]
  · intro i1 i2 p e h1 h2 h3 h4 hct h5
    subst hct
    simp only [f, List.getD_eq_getElem?_getD] at h1 h2 h4 h5
    simp [parseRecord, h1, h2, h3, h4, optCost, h5, bind, Except.bind]
  · intro i1 i2 p t e h1 h2 h3 h4 h5 h6
    simp only [f, List.getD_eq_getElem?_getD] at h1 h2 h4 h5 h6
    rw [← hgi] at h6
    simp [parseRecord, h1, h2, h3, h4, h5, h6, bind, Except.bind]
  · intro i1 i2 p t pts h1 h2 h3 h4 h5 h6 hlen
    simp only [f, List.getD_eq_getElem?_getD] at h1 h2 h4 h5 h6
    rw [← hgi] at h6
    simp only [parseRecord, bind, Except.bind, List.getD_eq_getElem?_getD, h1, h2, h3, h4, h5, h6, if_false]
    unfold buildRec
    simp only
    split
    · rfl
    · simp

/-- Classification of the number texts (the classes `std::stoi` / `std::stod` document) on the
    spellings the harness feeds, a negative probability, the header rules, and the effect of one
    malformed line on the whole load. -/
theorem C15_load_rejects_texts :
    nodeIdFromText "".toList = .error .invalid_argument ∧
    nodeIdFromText "abc".toList = .error .invalid_argument ∧
    nodeIdFromText "\"1\"".toList = .error .invalid_argument ∧
    nodeIdFromText "99999999999".toList = .error .out_of_range ∧
    nodeIdFromText "0".toList = .ok 0 ∧ nodeIdFromText "-3".toList = .ok (-3) ∧
    nodeIdFromText " 2x".toList = .ok 2 ∧
    stod "".toList = .error .invalid_argument ∧ stod "abc".toList = .error .invalid_argument ∧
    stod "'5'".toList = .error .invalid_argument ∧
    stod "1e400".toList = .error .out_of_range ∧ stod "1e-400".toList = .error .out_of_range ∧
    stod "2.5e1".toList = .ok 25 ∧ stod "7.125;3".toList = .ok (57/8) ∧
    probabilityFromText "-0.5".toList = .error .invalid_argument ∧
    probabilityFromText "0.25".toList = .ok (1/4) ∧
    (∀ g hc hp pre l post e, (∀ l' ∈ pre, ∃ r, parseRecord g hc hp l' = .ok r) →
        parseRecord g hc hp l = .error e → parseRecords g hc hp (pre ++ l :: post) = .error e) ∧
    (∀ g text net, loadSegments g text = .ok net → net.segs = [] →
        load g text false = .error .runtime_error ∧ load g text true = .ok net) := by
  refine ⟨by decide +kernel, by decide +kernel, by decide +kernel, by decide +kernel,
    by decide +kernel, by decide +kernel, by decide +kernel, by decide +kernel, by decide +kernel,
    by decide +kernel, by decide +kernel, by decide +kernel, by decide +kernel, by decide +kernel,
    by decide +kernel, by decide +kernel, ?_, ?_⟩
  · intro g hc hp pre l post e; exact parseRecords_error pre l post e
  · intro g text net h hs; simp [load, h, hs, bind, Except.bind]

/-- Header detection (`stream_has_columns`): which first lines are headers, which columns they
    announce, and which orders are rejected with `runtime_error`. -/
theorem C15_load_header :
    headerColumns "node_1,node_2,geometry".toList = .ok ⟨true, false, false⟩ ∧
    headerColumns "node_1,node_2,cost,geometry".toList = .ok ⟨true, true, false⟩ ∧
    headerColumns "node_1,node_2,probability,geometry".toList = .ok ⟨true, false, true⟩ ∧
    headerColumns "node_1,node_2,probability,cost,geometry".toList = .ok ⟨true, true, true⟩ ∧
    headerColumns "1,2,21.5;7.5;22.25;7.25".toList = .ok ⟨false, false, false⟩ ∧
    headerColumns "".toList = .ok ⟨true, false, false⟩ ∧
    headerColumns "node_1,node_2,cost,probability,geometry".toList = .error .runtime_error ∧
    headerColumns "node_1,node_2,geometry,probability".toList = .error .runtime_error ∧
    headerColumns "node_1,cost,node_2,geometry".toList = .error .runtime_error ∧
    headerColumns "node_1,node_2,geometry,x,cost".toList = .error .runtime_error := by
  decide +kernel

/-! ## The hypotheses are satisfiable: a concrete network

  Box `[20,30] x [0,10]`, unit cells; a triangle 1-2-3 with a dead end 3-4; node 5 lies outside
  the box, so the edge 4-5 is clipped. Repeated points in one cell are merged. -/

def exGrid : Grid := ⟨10, 0, 30, 20, 1, 1⟩
def exText : List Char :=
  "1,2,21.5;7.5;21.75;7.5;23.5;7.5\n2,3,23.5;7.5;23.5;5.5\n3,1,23.5;5.5;22.5;6.5;21.5;7.5\n3,4,23.5;5.5;26.5;5.5\n4,5,26.5;5.5;33.5;5.5\n".toList
def exNet : Net :=
  { grid := exGrid, hasProb := false,
    segs := [((1, 2), ⟨[(2, 1), (2, 3)], 1, 0, 0⟩), ((2, 3), ⟨[(2, 3), (4, 3)], 1, 0, 0⟩),
             ((3, 1), ⟨[(4, 3), (3, 2), (2, 1)], 1, 0, 0⟩), ((3, 4), ⟨[(4, 3), (4, 6)], 1, 0, 0⟩)] }

example : (load exGrid exText).toOption.map (·.segs) = some exNet.segs := by decide +kernel

/-- `exNet` satisfies the hypotheses of the trip theorems. -/
example : exNet.WF := by
  constructor
  · intro e he
    simp only [exNet, List.mem_cons, List.not_mem_nil, or_false] at he
    rcases he with h | h | h | h <;> subst h <;> decide
  · intro e he
    simp only [exNet, List.mem_cons, List.not_mem_nil, or_false] at he
    rcases he with h | h | h | h <;> subst h <;> decide +kernel

/-- Trips on `exNet`: from node 1's cell with distance 5/4 a walk ends on either branch (past node 2
    on segment 2-3, or on the middle cell of segment 1-3), with 3/2 both branches meet at node 3, snapped it ends on a node; a cell without node is rejected; the
    start cell has a node; teleporting from node 4's cell ends on node 3's cell. -/
example :
    exNet.hasNodeAt (2, 1) = true ∧ exNet.hasNodeAt (0, 0) = false ∧
    .at (2, 3) ∈ exNet.walk (2, 1) (5/4) false ∧ .at (3, 2) ∈ exNet.walk (2, 1) (5/4) false ∧
    (∀ o ∈ exNet.walk (2, 1) (5/4) false, o = .at (2, 3) ∨ o = .at (3, 2)) ∧
    (∀ o ∈ exNet.walk (2, 1) (3/2) false, o = .at (4, 3)) ∧
    (∀ o ∈ exNet.walk (2, 1) (1/2) true, o = .at (2, 3) ∨ o = .at (2, 1)) ∧
    exNet.walk (0, 0) 1 false = [.err .invalid_argument] ∧
    (∀ o ∈ exNet.walk (2, 1) (-1) false, o = .err .invalid_argument) ∧
    exNet.teleport (4, 6) 1 = [.at (4, 3)] ∧
    exNet.nextNodes true 3 [1, 2] = [4] ∧ exNet.nextNodes true 4 [3] = [3] := by
  decide +kernel

/-- A malformed record (second line has one coordinate pair) and a bad node id. -/
def errorOf {α : Type} : Except ErrKind α → Option ErrKind
  | .error e => some e
  | .ok _ => none

example :
    errorOf (load exGrid "1,2,21.5;7.5;23.5;7.5\n2,3,23.5;7.5\n".toList) = some .runtime_error ∧
    errorOf (load exGrid "1,2,21.5;7.5;23.5;7.5\nx,3,23.5;7.5;23.5;5.5\n".toList) = some .invalid_argument ∧
    errorOf (load exGrid "1,2,51.5;7.5;53.5;7.5\n".toList) = some .runtime_error ∧
    errorOf (load exGrid "1,2,51.5;7.5;53.5;7.5\n".toList true) = none := by
  decide +kernel

/-! ## Wiring of the network kernel by the factory -/

/-- **Movement mode wiring** (anthropogenic_kernel.hpp:60-69). When the anthropogenic kernel name
    maps to the network kernel, `create_anthro_kernel` builds a network kernel whose flags and
    distance bounds are those the configuration asks for (`ConfigWiring`): teleporting iff
    `network_movement` is "teleport"; otherwise walking with a cost drawn between
    `network_min_distance` and `network_max_distance`, snapping to the nearer node iff it is "jump".
    Hence a call of the built kernel is `teleport` (one step, adjacent node: `C15_teleport_adjacent`)
    in the first case and `walk` with that snapping flag (`C15_cost`, `C15_jump`) in the second. -/
theorem C15_network_movement_wiring (c : KernelConfig)
    (ht : kernelTypeFromString c.anthroKernelType = .ok .network) :
    ∃ d w, createAnthroKernel c = .ok d ∧ d.cls = .network ∧ d.wiring? = some w ∧ ConfigWiring c w ∧
      ∀ (n : Net) (cell : Cell) (dist : Rat),
        n.kernelCall w.teleport w.jump cell dist =
          if c.networkMovement = "teleport" then n.teleport cell 1
          else n.walk cell dist (decide (c.networkMovement = "jump")) := by
  have hb := createAnthro_network c ht
  by_cases hm : c.networkMovement = "teleport"
  · refine ⟨.networkTeleport, _, by simpa [hm] using hb, rfl, rfl, ?_, ?_⟩
    · simp [ConfigWiring, hm]
    · intro n cell dist; simp [hm, Net.kernelCall]
  · refine ⟨.networkWalk c.networkMinDistance c.networkMaxDistance (decide (c.networkMovement = "jump")), _,
      by simpa [hm] using hb, rfl, rfl, ?_, ?_⟩
    · simp [ConfigWiring, hm]
    · intro n cell dist; simp [hm, Net.kernelCall]

/-- The three movement modes on a configuration that names the network kernel. -/
example (c : KernelConfig) (ht : kernelTypeFromString c.anthroKernelType = .ok .network)
    (hm : c.networkMovement = "jump") :
    createAnthroKernel c = .ok (.networkWalk c.networkMinDistance c.networkMaxDistance true) := by
  rw [createAnthro_network c ht]; simp [hm]

example : ConfigWiring { (default : KernelConfig) with networkMovement := "teleport" }
      { teleport := true, jump := false, min := 0, max := 1 } ∧
    ¬ ConfigWiring { (default : KernelConfig) with networkMovement := "walk", networkMinDistance := 2, networkMaxDistance := 5 }
      { teleport := true, jump := false, min := 0, max := 1 } ∧
    ConfigWiring { (default : KernelConfig) with networkMovement := "walk", networkMinDistance := 2, networkMaxDistance := 5 }
      { teleport := false, jump := false, min := 2, max := 5 } := by
  refine ⟨?_, ?_, ?_⟩ <;> simp [ConfigWiring]

end Pops
