/-
  C17, general form (complements Props/C17.lean):

  * `C17_departures_general` / `C17_overpopulation_general`: the first phase of
    `MoveOverpopulatedPests::action`, and the whole action, over ANY suitable-cell list and ANY list
    of kernel results, as a closed function of the PRE-state: who leaves (the suitable cells that
    satisfy the departure rule before the action, in suitable-cell order, each taking the next kernel
    result), how many (`leavingCount` of the cell before the action), where to (one target per
    source), what is recorded as outside dispersers (the old list, then `leavingCount` copies of the
    real target coordinates per source sent outside, in order) and what arrives (the sources with an
    inside target, in order, each with its count; arrivals are applied after ALL departures).
  * `C17_suitable_extended` (+ `_moves`, `_has_hosts`): "the destination joins the list of suitable
    cells" - the list `HostPool::move_hosts_from_to` maintains.

  The spec functions (`overPairs`, `overOutside`, `overPending`, `overDeparted`, `suitAfterMove`,
  `suitAlongMoves`, `SuitCovers`, `insertIfAbsent`) are in Model/OverpopSpec.lean.

  Hypothesis on the suitable list: its FLAT indices are duplicate-free. This follows from the list
  being duplicate-free with all cells inside the raster (`C17_idx_nodup_of_inside`), and it cannot be
  dropped (`C17_departures_dup_counterexample`).
-/
import PopsModel.Model.OverpopSpec
import PopsModel.Lemmas.C17General
import PopsModel.Lemmas.NonVacuousHost
import PopsModel.Model.SuitList
namespace Pops

/-- A duplicate-free list of cells inside the raster has duplicate-free flat indices (the form of
    the hypothesis used below). -/
theorem C17_idx_nodup_of_inside (g : Grid) (suit : List (Int × Int)) (hnd : suit.Nodup)
    (hin : ∀ rc ∈ suit, g.isOutside rc.1 rc.2 = false) :
    (suit.map fun rc => g.idx rc.1 rc.2).Nodup := over_idx_nodup_of_inside g suit hnd hin

/-- First phase, general: for any suitable-cell list with duplicate-free flat indices, any landscape,
    any list of kernel results `ts` and any moves already pending, with
    `pairs = zip (the suitable cells departing in the PRE-state `cells`) ts`:
    the landscape becomes `overDeparted` (each source of `pairs` loses its count, see
    `C17_departed_cells`), the outside-disperser list becomes the old list ++ `overOutside`
    (for each pair, in order, whose target is outside: `leavingCount` copies of the target), the
    unused kernel results are `ts.drop pairs.length`, and the pending arrivals are the old ones ++
    `overPending` (for each pair, in order, whose target is inside: (target, `leavingCount`)).
    Every count and every departure decision on the right-hand side is computed in `cells`. -/
theorem C17_departures_general (g : Grid) (thr leaving : Rat) (suit : List (Int × Int)) (cells : List Cell)
    (p : PestState) (ts : List (Int × Int)) (moves0 : List (Int × Int × Int))
    (hnd : (suit.map fun rc => g.idx rc.1 rc.2).Nodup) :
    departGo g thr leaving suit cells p ts moves0 =
      (overDeparted g leaving cells (overPairs g thr suit cells ts),
       { p with outside := p.outside ++ overOutside g leaving cells (overPairs g thr suit cells ts) },
       ts.drop (overPairs g thr suit cells ts).length,
       moves0 ++ overPending g leaving cells (overPairs g thr suit cells ts)) :=
  over_departGo_ref g thr leaving cells suit cells p ts moves0 hnd (fun _ _ => rfl)

/-- The whole action: all arrivals (`arriveAll`, in the order the moves were collected) are applied
    to the landscape in which ALL departures have already taken place; the outside-disperser list
    and the unused kernel results are those of the first phase. -/
theorem C17_overpopulation_general (g : Grid) (thr leaving : Rat) (suit : List (Int × Int)) (cells : List Cell)
    (p : PestState) (ts : List (Int × Int))
    (hnd : (suit.map fun rc => g.idx rc.1 rc.2).Nodup) :
    overpopulationStep g suit cells p thr leaving ts =
      (arriveAll g (overPending g leaving cells (overPairs g thr suit cells ts))
         (overDeparted g leaving cells (overPairs g thr suit cells ts)),
       { p with outside := p.outside ++ overOutside g leaving cells (overPairs g thr suit cells ts) },
       ts.drop (overPairs g thr suit cells ts).length) := by
  unfold overpopulationStep
  rw [C17_departures_general g thr leaving suit cells p ts [] hnd]
  simp only [List.nil_append]

/-- Who the pairs are: the sources are the first `ts.length` departing cells of the PRE-state (in
    suitable-cell order), the targets the first kernel results, one each; every source is a suitable
    cell that satisfies the departure rule in the pre-state and lies inside the landscape; and a
    source has exactly one pair - all its leavers go together to one target. -/
theorem C17_pairs (g : Grid) (thr : Rat) (suit : List (Int × Int)) (cells : List Cell)
    (ts : List (Int × Int)) (hnd : (suit.map fun rc => g.idx rc.1 rc.2).Nodup) :
    (overPairs g thr suit cells ts).map (·.1) = (overDeparting g thr suit cells).take ts.length ∧
    (overPairs g thr suit cells ts).map (·.2) = ts.take (overDeparting g thr suit cells).length ∧
    (∀ pr ∈ overPairs g thr suit cells ts, pr.1 ∈ suit ∧
        departs thr (cells[g.idx pr.1.1 pr.1.2]!) = true ∧ g.idx pr.1.1 pr.1.2 < cells.length) ∧
    (∀ pr ∈ overPairs g thr suit cells ts, ∀ pr' ∈ overPairs g thr suit cells ts,
        g.idx pr.1.1 pr.1.2 = g.idx pr'.1.1 pr'.1.2 → pr = pr') := by
  refine ⟨over_zip_fst _ _, over_zip_snd _ _, ?_, ?_⟩
  · intro pr hpr
    have h := over_mem_pairs g thr suit cells ts pr hpr
    exact ⟨h.1, h.2.1, act_departs_lt h.2.1⟩
  · have hn := over_pairs_idx_nodup g thr suit cells ts hnd
    generalize overPairs g thr suit cells ts = pairs at hn
    induction pairs with
    | nil => intro pr hpr; cases hpr
    | cons q rest ih =>
      rw [List.map_cons, List.nodup_cons] at hn
      intro pr hpr pr' hpr' he
      rcases List.mem_cons.mp hpr with h1 | h1
      · rcases List.mem_cons.mp hpr' with h2 | h2
        · rw [h1, h2]
        · rw [h1] at he
          exact absurd (List.mem_map.mpr ⟨pr', h2, he.symm⟩) hn.1
      · rcases List.mem_cons.mp hpr' with h2 | h2
        · rw [h2] at he
          exact absurd (List.mem_map.mpr ⟨pr, h1, he⟩) hn.1
        · exact ih hn.2 pr h1 pr' h2 he

/-- What one pair contributes, and how contributions compose: a source whose target is outside
    contributes `leavingCount` copies of that one target to the outside dispersers and nothing to
    the arrivals; a source whose target is inside contributes exactly one pending arrival - that
    target with the whole count - and nothing to the outside dispersers. -/
theorem C17_go_together (g : Grid) (leaving : Rat) (cells : List Cell)
    (pr : (Int × Int) × (Int × Int)) (a b : List ((Int × Int) × (Int × Int))) :
    (g.isOutside pr.2.1 pr.2.2 = true →
      overOutside g leaving cells [pr] =
        List.replicate (leavingCount leaving (cells[g.idx pr.1.1 pr.1.2]!)).toNat pr.2 ∧
      overPending g leaving cells [pr] = []) ∧
    (g.isOutside pr.2.1 pr.2.2 = false →
      overOutside g leaving cells [pr] = [] ∧
      overPending g leaving cells [pr] =
        [(pr.2.1, pr.2.2, leavingCount leaving (cells[g.idx pr.1.1 pr.1.2]!))]) ∧
    overOutside g leaving cells (a ++ b) = overOutside g leaving cells a ++ overOutside g leaving cells b ∧
    overPending g leaving cells (a ++ b) = overPending g leaving cells a ++ overPending g leaving cells b := by
  refine ⟨fun ho => ?_, fun ho => ?_, ?_, ?_⟩
  · simp [overOutside, overPending, overLeaving, ho]
  · simp [overOutside, overPending, overLeaving, ho]
  · simp [overOutside]
  · simp [overPending]

/-- The landscape after the first phase, cell by cell: a source holds what `pests_from` leaves of
    its PRE-state cell (its leaving count moved from infected to susceptible), every other cell -
    suitable or not, departing without a kernel result or not - is unchanged; no cell is added. -/
theorem C17_departed_cells (g : Grid) (thr leaving : Rat) (suit : List (Int × Int)) (cells : List Cell)
    (ts : List (Int × Int)) (hnd : (suit.map fun rc => g.idx rc.1 rc.2).Nodup) :
    (overDeparted g leaving cells (overPairs g thr suit cells ts)).length = cells.length ∧
    (∀ pr ∈ overPairs g thr suit cells ts,
      (overDeparted g leaving cells (overPairs g thr suit cells ts))[g.idx pr.1.1 pr.1.2]! =
        ((cells[g.idx pr.1.1 pr.1.2]!).pestsFrom (leavingCount leaving (cells[g.idx pr.1.1 pr.1.2]!))).1) ∧
    (∀ k : Nat, (∀ pr ∈ overPairs g thr suit cells ts, g.idx pr.1.1 pr.1.2 ≠ k) →
      (overDeparted g leaving cells (overPairs g thr suit cells ts))[k]! = cells[k]!) :=
  over_departedFrom_get g leaving cells (overPairs g thr suit cells ts) cells
    (over_pairs_idx_nodup g thr suit cells ts hnd)
    (fun pr hpr => act_departs_lt (over_mem_pairs g thr suit cells ts pr hpr).2.1)

/-! #### a non-trivial instance: 1x4 raster, three suitable cells, two of them depart, one target
    outside and one inside, an outside disperser already recorded, one kernel result left over -/

def c17gGrid : Grid := ⟨1, 4⟩
def c17gSuit : List (Int × Int) := [(0, 0), (0, 1), (0, 3)]
def c17gCells : List Cell :=
  [⟨1, [], 3, 0, 0, [3], 0, 4⟩, ⟨5, [], 2, 0, 0, [2], 0, 7⟩, ⟨9, [], 9, 0, 0, [9], 0, 18⟩, ⟨0, [], 4, 0, 0, [4], 0, 4⟩]
def c17gPest : PestState := ⟨[0, 0, 0, 0], [0, 0, 0, 0], [(7, 7)]⟩
def c17gTargets : List (Int × Int) := [(0, 5), (0, 1), (0, 2)]

/-- Cells 0 (3/4 ≥ 1/2) and 3 (4/4) depart, cell 1 (2/7) does not, cell 2 is not suitable. Cell 0
    sends round(3/2) = 2 pests to (0,5), outside: two entries after the old one; cell 3 sends
    round(4/2) = 2 pests to cell 1, which has 5 susceptible hosts: both establish. -/
example :
    (c17gSuit.map fun rc => c17gGrid.idx rc.1 rc.2).Nodup ∧
    overPairs c17gGrid (1/2) c17gSuit c17gCells c17gTargets = [((0, 0), (0, 5)), ((0, 3), (0, 1))] ∧
    overpopulationStep c17gGrid c17gSuit c17gCells c17gPest (1/2) (1/2) c17gTargets =
      ([⟨3, [], 1, 0, 0, [3], 0, 4⟩, ⟨3, [], 4, 0, 0, [2], 0, 7⟩, ⟨9, [], 9, 0, 0, [9], 0, 18⟩, ⟨2, [], 2, 0, 0, [4], 0, 4⟩],
       ⟨[0, 0, 0, 0], [0, 0, 0, 0], [(7, 7), (0, 5), (0, 5)]⟩, [(0, 2)]) := by
  have hnd : (c17gSuit.map fun rc => c17gGrid.idx rc.1 rc.2).Nodup := by decide
  refine ⟨hnd, by decide +kernel, ?_⟩
  rw [C17_overpopulation_general c17gGrid (1/2) (1/2) c17gSuit c17gCells c17gPest c17gTargets hnd]
  decide +kernel

/-- The duplicate-free hypothesis cannot be dropped: with the cell (0,0) listed twice the second
    visit sees the cell after the first departure (i = 2, s = 2: still departing, round(2/2) = 1
    leaves), while the closed form would compute both visits from the pre-state (2 and 2). -/
theorem C17_departures_dup_counterexample :
    let g : Grid := ⟨1, 1⟩
    let cells : List Cell := [⟨0, [], 4, 0, 0, [4], 0, 4⟩]
    let p : PestState := ⟨[0], [0], []⟩
    (departGo g 0 (1/2) [(0, 0), (0, 0)] cells p [(0, 5), (0, 6)] []).2.1.outside = [(0, 5), (0, 5), (0, 6)] ∧
    p.outside ++ overOutside g (1/2) cells (overPairs g 0 [(0, 0), (0, 0)] cells [(0, 5), (0, 6)]) =
      [(0, 5), (0, 5), (0, 6), (0, 6)] := by
  decide +kernel

/-! ### the destination joins the list of suitable cells -/

/-- One host move (`HostPool::move_hosts_from_to`, host_pool.hpp:490-498) and the list of suitable
    cells, `suit' = suitAfterMove suit l b` being the list after the move from `a` to `b` on the
    landscape `l`: if before the move the list names every cell with a non-zero host total, then
    after it (1) it still does - on the landscape AFTER the move; (2) the destination in particular
    is listed (when it is a cell of the raster); (3) no duplicate is introduced; (4) nothing is
    removed: the old list is a prefix of the new one; (5) the list grows by at most one element,
    which is the destination, and it grows exactly when the destination was not listed before;
    (6) a destination outside the raster changes nothing.
    `0 ≤ count` is needed for (1) only: a negative request on a source without hosts would give the
    source hosts without listing it. -/
theorem C17_suitable_extended (a b : Nat) (count : Int) (d : ClassDraw) (dE dM : List Int) (l l' : Land)
    (suit : List Nat) (hcov : SuitCovers l suit) (hc : 0 ≤ count)
    (h : (LandOp.move a b count d dE dM).apply l = .ok l') :
    SuitCovers l' (suitAfterMove suit l b) ∧
    (b < l.length → b ∈ suitAfterMove suit l b) ∧
    (suit.Nodup → (suitAfterMove suit l b).Nodup) ∧
    suit <+: suitAfterMove suit l b ∧
    (b < l.length → suitAfterMove suit l b = if b ∈ suit then suit else suit ++ [b]) ∧
    (l.length ≤ b → suitAfterMove suit l b = suit) := by
  refine ⟨suitm_move_covers a b count d dE dM l l' suit hcov (fun _ _ => hc) h, ?_,
    suitm_after_nodup suit l b, suitm_after_prefix suit l b,
    fun hb => suitm_after_eq_insert suit l b hcov hb, suitm_after_out suit l b⟩
  intro hb
  exact suitm_after_dest suit l b l[b] (List.getElem?_eq_getElem hb) (hcov b l[b] (List.getElem?_eq_getElem hb))

/-- A sequence of host moves (the rows of the movement table due at a step, or over a whole run),
    each seeing the landscape and the list its predecessors left: the list keeps naming every cell
    with a non-zero host total, stays duplicate-free, only grows at its end, names every
    destination inside the raster, and - when all destinations are inside the raster - is the old
    list with each destination, in table order, inserted at the end if absent. -/
theorem C17_suitable_extended_moves (rows : List MoveRow) (l l' : Land) (suit : List Nat)
    (hcov : SuitCovers l suit) (hc : ∀ row ∈ rows, 0 ≤ row.2.2.1)
    (h : runOps (rows.map moveOp) l = .ok l') :
    SuitCovers l' (suitAlongMoves rows l suit) ∧
    (suit.Nodup → (suitAlongMoves rows l suit).Nodup) ∧
    suit <+: suitAlongMoves rows l suit ∧
    (∀ row ∈ rows, row.2.1 < l.length → row.2.1 ∈ suitAlongMoves rows l suit) ∧
    ((∀ row ∈ rows, row.2.1 < l.length) →
      suitAlongMoves rows l suit = (rows.map (·.2.1)).foldl insertIfAbsent suit) :=
  (suitm_moves_facts rows l l' suit hcov (suitm_nonneg_of_forall rows hc l) h).2

/-- In terms of hosts: from a consistent landscape whose list names every cell that has hosts,
    after any sequence of host moves in their documented domain the list names every cell that has
    hosts (of any class), and it is duplicate-free if it was. -/
theorem C17_suitable_has_hosts (rows : List MoveRow) (l l' : Land) (suit : List Nat)
    (hinv : l.inv) (hu : l.uniform) (hd : DomainAlong (rows.map moveOp) l)
    (hcov : ∀ k c, l[k]? = some c → 0 < c.hosts → k ∈ suit)
    (h : runOps (rows.map moveOp) l = .ok l') :
    (∀ k c, l'[k]? = some c → 0 < c.hosts → k ∈ suitAlongMoves rows l suit) ∧
    (suit.Nodup → (suitAlongMoves rows l suit).Nodup) := by
  have th_hosts : ∀ (m : Land), m.inv → ∀ (k : Nat) (c : Cell), m[k]? = some c → c.th = c.hosts ∧ 0 ≤ c.th := by
    intro m hm k c hk
    have hmem : c ∈ m := List.mem_of_getElem? hk
    have h1 := (totalsOK_iff c).mp (hm c hmem).2
    have h2 := ((nonNeg_iff c).mp (hm c hmem).1)
    exact ⟨by rw [h1.1]; rfl, h2.th⟩
  have hcov' : SuitCovers l suit := by
    intro k c hk hth
    have := th_hosts l hinv k c hk
    exact hcov k c hk (by omega)
  have hf := suitm_moves_facts rows l l' suit hcov' (suitm_nonneg_of_domain rows l hd) h
  have hinv' := (history_inv _ l l' hinv hu hd h).1
  refine ⟨fun k c hk hpos => ?_, hf.2.2.1⟩
  have := th_hosts l' hinv' k c hk
  exact hf.2.1 k c hk (by omega)

/-- Link to C18 (`C18_sum_over_suitable_list`): after any sequence of host moves in their domain
    from a consistent landscape, a list that was duplicate-free, inside the raster and named every
    cell with hosts is again a list over which `sum_of_infected` / `area_of_infected` see every
    infected cell exactly once (`suitableListOK`). -/
theorem C17_suitable_list_ok (rows : List MoveRow) (l l' : Land) (suit : List Nat)
    (hinv : l.inv) (hu : l.uniform) (hd : DomainAlong (rows.map moveOp) l)
    (hnd : suit.Nodup) (hr : ∀ k ∈ suit, k < l.length)
    (hcov : ∀ k c, l[k]? = some c → 0 < c.hosts → k ∈ suit)
    (h : runOps (rows.map moveOp) l = .ok l') :
    suitableListOK (fun k => (l'[k]!).i) l'.length (suitAlongMoves rows l suit) = true := by
  obtain ⟨h1, h2⟩ := C17_suitable_has_hosts rows l l' suit hinv hu hd hcov h
  have hinv' := (history_inv _ l l' hinv hu hd h).1
  have hlen : l'.length = l.length :=
    (suitm_moves_facts rows l l' suit (fun k c hk hth => by
      have hmem : c ∈ l := List.mem_of_getElem? hk
      have t := (totalsOK_iff c).mp (hinv c hmem).2
      have n := (nonNeg_iff c).mp (hinv c hmem).1
      have e : c.th = c.hosts := by rw [t.1]; rfl
      have := n.th
      exact hcov k c hk (by omega)) (suitm_nonneg_of_domain rows l hd) h).1
  simp only [suitableListOK, Bool.and_eq_true, decide_eq_true_eq, List.all_eq_true, Bool.or_eq_true,
    beq_iff_eq, List.contains_iff_mem, List.mem_range]
  refine ⟨⟨h2 hnd, fun k hk => by rw [hlen]; exact suitm_moves_range rows l suit hr k hk⟩, ?_⟩
  intro k hk
  by_cases hi : (l'[k]!).i = 0
  · exact Or.inl hi
  · right
    rw [getElem!_pos l' k hk] at hi
    have hmem : l'[k] ∈ l' := List.getElem_mem hk
    have n := (nonNeg_iff l'[k]).mp (hinv' _ hmem).1
    have := n.i; have := n.s; have := n.r
    have := sumL_nonneg n.e
    apply h1 k l'[k] (List.getElem?_eq_getElem hk)
    unfold Cell.hosts
    omega

/-! #### a non-trivial instance: three cells, only cell 0 has hosts and is listed; two rows move
    hosts to cell 1 (appended once), a third asks for 5 hosts to cell 2 when 1 is left -/

def c17gLand : Land := [⟨3, [], 1, 0, 0, [1], 0, 4⟩, ⟨0, [], 0, 0, 0, [0], 0, 0⟩, ⟨0, [], 0, 0, 0, [0], 0, 0⟩]
def c17gRows : List MoveRow :=
  [(0, 1, 2, ⟨0, 2, 0, 0⟩, [], [0]), (0, 1, 1, ⟨1, 0, 0, 0⟩, [], [1]), (0, 2, 5, ⟨0, 1, 0, 0⟩, [], [0])]
def c17gLand' : Land := [⟨0, [], 0, 0, 0, [0], 0, 0⟩, ⟨2, [], 1, 0, 0, [1], 0, 3⟩, ⟨1, [], 0, 0, 0, [0], 0, 1⟩]

example :
    runOps (c17gRows.map moveOp) c17gLand = .ok c17gLand' ∧
    suitAlongMoves c17gRows c17gLand [0] = [0, 1, 2] ∧
    (∀ k c, c17gLand'[k]? = some c → 0 < c.hosts → k ∈ suitAlongMoves c17gRows c17gLand [0]) ∧
    (suitAlongMoves c17gRows c17gLand [0]).Nodup ∧
    suitAlongMoves c17gRows c17gLand [0] = (c17gRows.map (·.2.1)).foldl insertIfAbsent [0] ∧
    suitableListOK (fun k => (c17gLand'[k]!).i) c17gLand'.length (suitAlongMoves c17gRows c17gLand [0]) = true := by
  have hrun : runOps (c17gRows.map moveOp) c17gLand = .ok c17gLand' := eq_ok_of_yields (by decide +kernel)
  have hinv : c17gLand.inv := Land.inv_of_B _ (by decide)
  have hu : c17gLand.uniform := Land.uniform_of_B _ (by decide)
  have hd : DomainAlong (c17gRows.map moveOp) c17gLand := domainAlong_of_B _ _ (by decide +kernel)
  have hcov : ∀ (k : Nat) (c : Cell), c17gLand[k]? = some c → 0 < c.hosts → k ∈ [0] := by
    intro k c hk hpos
    have hk3 : k < 3 := (List.getElem?_eq_some_iff.mp hk).1
    have : k = 0 ∨ k = 1 ∨ k = 2 := by omega
    rcases this with rfl | rfl | rfl
    · exact List.mem_singleton.mpr rfl
    · simp only [c17gLand, List.getElem?_cons_succ, List.getElem?_cons_zero, Option.some.injEq] at hk
      subst hk; revert hpos; decide
    · simp only [c17gLand, List.getElem?_cons_succ, List.getElem?_cons_zero, Option.some.injEq] at hk
      subst hk; revert hpos; decide
  have h1 := C17_suitable_has_hosts c17gRows c17gLand c17gLand' [0] hinv hu hd hcov hrun
  have hcov' : SuitCovers c17gLand [0] := by
    intro k c hk hth
    apply hcov k c hk
    have hmem : c ∈ c17gLand := List.mem_of_getElem? hk
    have t := (totalsOK_iff c).mp (hinv c hmem).2
    have n := (nonNeg_iff c).mp (hinv c hmem).1
    have : c.th = c.hosts := by rw [t.1]; rfl
    have := n.th
    omega
  have h2 := C17_suitable_extended_moves c17gRows c17gLand c17gLand' [0] hcov' (by decide) hrun
  exact ⟨hrun, by decide +kernel, h1.1, h1.2 (by decide), h2.2.2.2.2 (by decide),
    C17_suitable_list_ok c17gRows c17gLand c17gLand' [0] hinv hu hd (by decide) (by decide) hcov hrun⟩

/-- `0 ≤ count` cannot be dropped from `C17_suitable_extended`: a request of -1 host from an empty,
    unlisted source "moves" -1 host, i.e. leaves the source with one host and not listed. -/
theorem C17_suitable_negative_counterexample :
    let l : Land := [⟨0, [], 0, 0, 0, [0], 0, 0⟩, ⟨1, [], 0, 0, 0, [0], 0, 1⟩]
    SuitCovers l [1] ∧
    ∃ l', (LandOp.move 0 1 (-1) ⟨0, 0, 0, 0⟩ [] [0]).apply l = .ok l' ∧
      ¬ SuitCovers l' (suitAfterMove [1] l 1) := by
  intro l
  refine ⟨?_, [⟨0, [], 0, 0, 0, [0], 0, 1⟩, ⟨1, [], 0, 0, 0, [0], 0, 0⟩], eq_ok_of_yields (by decide +kernel), ?_⟩
  · intro k c hk hth
    have hk2 : k < 2 := (List.getElem?_eq_some_iff.mp hk).1
    have : k = 0 ∨ k = 1 := by omega
    rcases this with rfl | rfl
    · simp only [l, List.getElem?_cons_zero, Option.some.injEq] at hk
      subst hk; exact absurd rfl hth
    · exact List.mem_singleton.mpr rfl
  · intro hcov
    have := hcov 0 ⟨0, [], 0, 0, 0, [0], 0, 1⟩ rfl (by decide)
    revert this
    decide +kernel

end Pops

#print axioms Pops.C17_idx_nodup_of_inside
#print axioms Pops.C17_departures_general
#print axioms Pops.C17_overpopulation_general
#print axioms Pops.C17_pairs
#print axioms Pops.C17_go_together
#print axioms Pops.C17_departed_cells
#print axioms Pops.C17_departures_dup_counterexample
#print axioms Pops.C17_suitable_extended
#print axioms Pops.C17_suitable_extended_moves
#print axioms Pops.C17_suitable_has_hosts
#print axioms Pops.C17_suitable_list_ok
#print axioms Pops.C17_suitable_negative_counterexample
