/-
  C11, cohort-wise: "every infected host is dead at the latest tracker-length mortality steps
  after it was infected", position by position.

  `C11_eventual_death` and `C11_eventual_death_with_removals` conclude on sums. Here the same
  hypotheses give the statement for every position `k` of the tracker, via the shift-register view
  (Lemmas/C11Cohortwise.lean): a mortality step empties index 0 (`apply_mortality_at` takes the
  whole cohort at index 0, the rate share at indices `1 .. n - lag - 1`), moves every cohort one
  position down and puts the emptied one at the back (`step_forward_mortality` = rotate-left).
  Hence, `n = |mort|`:

   * the cohort at position `k` at the end sat at position `k + m` when `m` mortality steps were
     still to come (`C11_cohort_tracking`);
   * it was emptied at index 0 by the mortality step that has exactly `n - 1 - k` mortality steps
     after it, re-entering at position `n - 1` (`C11_generation_emptied`);
   * what it holds at the end is at most what was added to THIS generation afterwards,
     `addedAt n k ops`: an `add x` followed by `m` mortality steps counts iff `k + m = n - 1`
     (it goes to the youngest cohort), an `arrive d` followed by `m` steps counts `d[k + m]` iff
     `k + m < n` (`C11_eventual_death_cohortwise_with_removals`);
   * the cohort at position `j` at the START is at index 0 when the `(j + 1)`-th mortality step
     fires and is emptied by it (`C11_initial_cohort_emptied`): no individual that was in any cohort
     at the start is still in a cohort after `n` mortality steps.

  For the run of `C11_eventual_death` (mortality step, `adds[0]` infections, mortality step,
  `adds[1]`, ...) this reads `mort'[k] ≤ adds[k]` (`C11_eventual_death_cohortwise`).
  The counting theorems follow by summing over the positions (the two `example`s after them).

  Hypotheses: those of the counting theorems, minus the ones not needed position-wise
  (`mortOK`; `nonNeg` only for the mortality cohorts).
-/
import PopsModel.Props.C11Removals
import PopsModel.Lemmas.C11Cohortwise
namespace Pops

/-- **Tracking a cohort through any history** (no lower bound on the number of mortality steps).
    The cohort at position `k` at the end is the one that sat at position `k + mortSteps ops` at the
    start, if that position exists: it holds at most that content plus what was added to it.
    Otherwise it was emptied at index 0 on the way and holds at most what was added since. -/
theorem C11_cohort_tracking (c c' : Cell) (rate : Rat) (lag : Int) (ops : List MortOp)
    (hr0 : 0 < rate) (hr1 : rate ≤ 1) (hl0 : 0 ≤ lag) (hl : lag < c.mort.length)
    (hn : ∀ x ∈ c.mort, 0 ≤ x)
    (h : MortTrace (MortOp.rel rate lag) ops c c') (k : Nat) (hk : k < c.mort.length) :
    c'.mort[k]! ≤ (if k + mortSteps ops < c.mort.length then c.mort[k + mortSteps ops]! else 0)
      + addedAt c.mort.length k ops :=
  coh_tracking rate lag hr0 hr1 hl0 c' ops c hn hl h k hk

/-- **Eventual death, cohort by cohort.** Rate in (0, 1], lag ≥ 0, tracker length `n > lag`,
    non-negative cohorts. After ANY history with at least `n` mortality steps that does not throw,
    every position `k` holds at most what was added to its generation after that generation was
    emptied at index 0 - nothing that was in the tracker before is left in it. -/
theorem C11_eventual_death_cohortwise_with_removals (c c' : Cell) (rate : Rat) (lag : Int)
    (ops : List MortOp)
    (hr0 : 0 < rate) (hr1 : rate ≤ 1) (hl0 : 0 ≤ lag) (hl : lag < c.mort.length)
    (hn : ∀ x ∈ c.mort, 0 ≤ x)
    (hsteps : c.mort.length ≤ mortSteps ops)
    (h : MortTrace (MortOp.rel rate lag) ops c c') :
    c'.mort.length = c.mort.length ∧
    ∀ k : Nat, k < c.mort.length →
      0 ≤ c'.mort[k]! ∧ c'.mort[k]! ≤ addedAt c.mort.length k ops := by
  obtain ⟨g1, g2, _⟩ := mortc_trace_facts rate lag hr0 hr1 hl0 c' ops c hn hl h
  refine ⟨g2, fun k hk => ⟨coh_get_nonneg c'.mort g1 k, ?_⟩⟩
  have := C11_cohort_tracking c c' rate lag ops hr0 hr1 hl0 hl hn h k hk
  have hno : ¬ (k + mortSteps ops < c.mort.length) := by omega
  simpa only [hno, if_false, Int.zero_add] using this

/-- **When the generation at final position `k` was emptied.** Under the same hypotheses the
    history splits at the mortality step that has exactly `n - 1 - k` mortality steps after it:
    that step leaves the emptied cohort at the back (position `n - 1`, content 0), the `n - 1 - k`
    later steps bring it to position `k`, nothing before that step counts for it, and it ends with
    at most what the rest of the history added to it. -/
theorem C11_generation_emptied (c c' : Cell) (rate : Rat) (lag : Int) (ops : List MortOp)
    (hr0 : 0 < rate) (hr1 : rate ≤ 1) (hl0 : 0 ≤ lag) (hl : lag < c.mort.length)
    (hn : ∀ x ∈ c.mort, 0 ≤ x)
    (hsteps : c.mort.length ≤ mortSteps ops)
    (h : MortTrace (MortOp.rel rate lag) ops c c') (k : Nat) (hk : k < c.mort.length) :
    ∃ pre post c0 c1, ops = pre ++ MortOp.mortality :: post ∧
      mortSteps post = c.mort.length - 1 - k ∧
      MortTrace (MortOp.rel rate lag) pre c c0 ∧ (CellOp.mortality rate lag).apply c0 = .ok c1 ∧
      MortTrace (MortOp.rel rate lag) post c1 c' ∧
      c1.mort.length = c.mort.length ∧ c1.mort[c.mort.length - 1]! = 0 ∧
      addedAt c.mort.length k ops = addedAt c.mort.length k post ∧
      c'.mort[k]! ≤ addedAt c.mort.length k post := by
  obtain ⟨pre, post, c0, c1, e, hm, t1, r, t2⟩ :=
    coh_split (MortOp.rel rate lag) c' (c.mort.length - 1 - k) ops c (by omega) h
  obtain ⟨a1, a2, _⟩ := mortc_trace_facts rate lag hr0 hr1 hl0 c0 pre c hn hl t1
  have hl' : lag < (c0.mort.length : Int) := by rw [a2]; exact hl
  obtain ⟨b1, b2, _⟩ := mortc_rel_facts rate lag hr0 hr1 hl0 .mortality c0 c1 a1 hl' r
  have hz := (coh_mortality_shift rate lag hr0 hr1 hl0 c0 c1 a1 hl' r (c.mort.length - 1)).2.2
    (by rw [a2]; omega)
  have hlen1 : c1.mort.length = c.mort.length := by rw [b2, a2]
  have hadd : addedAt c.mort.length k ops = addedAt c.mort.length k post := by
    rw [e, coh_addedAt_append c.mort.length k pre (MortOp.mortality :: post)
      (by simp only [mortSteps]; omega)]
    simp only [addedAt, MortOp.addedAt, Int.zero_add]
  have htr := coh_tracking rate lag hr0 hr1 hl0 c' post c1 b1 (by rw [hlen1]; exact hl) t2 k
    (by rw [hlen1]; exact hk)
  rw [hlen1, hm] at htr
  have hpos : k + (c.mort.length - 1 - k) < c.mort.length := by omega
  have hidx : k + (c.mort.length - 1 - k) = c.mort.length - 1 := by omega
  rw [if_pos hpos, hidx, hz] at htr
  exact ⟨pre, post, c0, c1, e, hm, t1, r, t2, hlen1, hz, hadd, by omega⟩

/-- **Every cohort present at the start is emptied.** With at least `n` mortality steps, the
    cohort at start position `j` reaches index 0 just before the `(j + 1)`-th mortality step (with
    at most its content plus what was added to it on the way) and that step empties it: it
    re-enters at the back with content 0. -/
theorem C11_initial_cohort_emptied (c c' : Cell) (rate : Rat) (lag : Int) (ops : List MortOp)
    (hr0 : 0 < rate) (hr1 : rate ≤ 1) (hl0 : 0 ≤ lag) (hl : lag < c.mort.length)
    (hn : ∀ x ∈ c.mort, 0 ≤ x)
    (hsteps : c.mort.length ≤ mortSteps ops)
    (h : MortTrace (MortOp.rel rate lag) ops c c') (j : Nat) (hj : j < c.mort.length) :
    ∃ pre post c0 c1, ops = pre ++ MortOp.mortality :: post ∧ mortSteps pre = j ∧
      MortTrace (MortOp.rel rate lag) pre c c0 ∧ (CellOp.mortality rate lag).apply c0 = .ok c1 ∧
      MortTrace (MortOp.rel rate lag) post c1 c' ∧
      c0.mort[0]! ≤ c.mort[j]! + addedAt c.mort.length 0 pre ∧
      c1.mort[c.mort.length - 1]! = 0 := by
  obtain ⟨pre, post, c0, c1, e, hm, t1, r, t2⟩ :=
    coh_split (MortOp.rel rate lag) c' (mortSteps ops - 1 - j) ops c (by omega) h
  have hpre : mortSteps pre = j := by
    have := coh_mortSteps_append pre (MortOp.mortality :: post)
    rw [← e] at this
    simp only [mortSteps] at this
    omega
  obtain ⟨a1, a2, _⟩ := mortc_trace_facts rate lag hr0 hr1 hl0 c0 pre c hn hl t1
  have hl' : lag < (c0.mort.length : Int) := by rw [a2]; exact hl
  have hz := (coh_mortality_shift rate lag hr0 hr1 hl0 c0 c1 a1 hl' r (c.mort.length - 1)).2.2
    (by rw [a2]; omega)
  have htr := coh_tracking rate lag hr0 hr1 hl0 c0 pre c hn hl t1 0 (by omega)
  rw [hpre, Nat.zero_add, if_pos hj] at htr
  exact ⟨pre, post, c0, c1, e, hpre, t1, r, t2, htr, hz⟩

/-! ### the counting theorem is the sum over the positions -/

/-- The statement of `C11_eventual_death_with_removals`, derived from the cohort-wise theorem
    (summing the position-wise bounds) and the balance of the history. -/
example (c c' : Cell) (rate : Rat) (lag : Int) (ops : List MortOp)
    (hr0 : 0 < rate) (hr1 : rate ≤ 1) (hl0 : 0 ≤ lag) (hl : lag < c.mort.length)
    (hn : ∀ x ∈ c.mort, 0 ≤ x) (hm : c.mortOK = true)
    (hsteps : c.mort.length ≤ mortSteps ops)
    (h : MortTrace (MortOp.rel rate lag) ops c c') :
    sumL c'.mort ≤ addedBy (lastMortWindow c.mort.length ops) ∧
    c.i - removedBy ops ≤ c'.died - c.died ∧
    c'.died + sumL c'.mort = c.died + c.i + addedBy ops - removedBy ops := by
  obtain ⟨hlen, hpos⟩ :=
    C11_eventual_death_cohortwise_with_removals c c' rate lag ops hr0 hr1 hl0 hl hn hsteps h
  have h1 : sumL c'.mort ≤ sumRange c.mort.length (fun k => addedAt c.mort.length k ops) := by
    rw [sr_list c'.mort, hlen]
    exact sr_le _ _ _ (fun k hk => (hpos k hk).2)
  have h2 := coh_sum_le_window c.mort.length ops (coh_trace_nonnegAdd rate lag c' ops c h) hsteps
  have hm' := (mech_mortOK_iff c).mp hm
  obtain ⟨_, _, hbal⟩ := mortc_trace_facts rate lag hr0 hr1 hl0 c' ops c hn hl h
  have h3 := mortc_added_window_le rate lag c.mort.length c' ops c h
  exact ⟨by omega, by omega, by omega⟩

/-! ### the run of `C11_eventual_death` -/

/-- In the history "mortality step, `adds[0]`, mortality step, `adds[1]`, ..." the generation that
    ends at position `k` receives exactly the infections after mortality step `k + 1 + (n - |adds|)`. -/
theorem C11_interleaved_addedAt (n k : Nat) (hk : k < n) : ∀ (adds : List Int), adds.length ≤ n →
    addedAt n k (interleavedAdds adds) =
      if n ≤ k + adds.length then adds[k + adds.length - n]! else 0
  | [], _ => by
    have : ¬ (n ≤ k + ([] : List Int).length) := by simp only [List.length_nil]; omega
    rw [if_neg this]; rfl
  | a :: rest, hlen => by
    simp only [List.length_cons] at hlen
    have ih := C11_interleaved_addedAt n k hk rest (by omega)
    have hms := (interleavedAdds_facts rest).1
    simp only [interleavedAdds, addedAt, MortOp.addedAt, hms, ih, List.length_cons, Int.zero_add]
    by_cases h1 : k + rest.length + 1 = n
    · have h2 : ¬ (n ≤ k + rest.length) := by omega
      have h3 : n ≤ k + (rest.length + 1) := by omega
      have h4 : k + (rest.length + 1) - n = 0 := by omega
      rw [if_pos h1, if_neg h2, if_pos h3, h4, List.getElem!_cons_zero]; omega
    · by_cases h2 : n ≤ k + rest.length
      · have h3 : n ≤ k + (rest.length + 1) := by omega
        have h4 : k + (rest.length + 1) - n = (k + rest.length - n) + 1 := by omega
        rw [if_neg h1, if_pos h2, if_pos h3, h4, List.getElem!_cons_succ]; omega
      · have h3 : ¬ (n ≤ k + (rest.length + 1)) := by omega
        rw [if_neg h1, if_neg h2, if_neg h3]; omega

/-- **`C11_eventual_death`, cohort by cohort.** After tracker-length mortality steps, each followed
    by `adds[j]` new infections, the cohort at position `k` holds at most the hosts infected after
    mortality step `k + 1`: `mort'[k] ≤ adds[k]`. The initial cohorts do not occur in the bound:
    nothing of them is left. -/
theorem C11_eventual_death_cohortwise (c c' : Cell) (rate : Rat) (lag : Int) (adds : List Int)
    (hr0 : 0 < rate) (hr1 : rate ≤ 1) (hl0 : 0 ≤ lag) (hl : lag < c.mort.length)
    (hn : ∀ x ∈ c.mort, 0 ≤ x)
    (hadds : ∀ a ∈ adds, 0 ≤ a) (hlen : adds.length = c.mort.length)
    (h : mortalityRun rate lag adds c = .ok c') :
    c'.mort.length = c.mort.length ∧
    ∀ k : Nat, k < c.mort.length → 0 ≤ c'.mort[k]! ∧ c'.mort[k]! ≤ adds[k]! := by
  rw [mortalityRun_eq_history] at h
  have htr := MortTrace.mono (R' := MortOp.rel rate lag) (fun _ _ _ hR => hR.1) _ c c'
    (mortHistory_trace rate lag c' (interleavedAdds adds) c (interleavedAdds_valid rate lag adds c hadds) h)
  obtain ⟨f1, _, _⟩ := interleavedAdds_facts adds
  obtain ⟨g1, g2⟩ := C11_eventual_death_cohortwise_with_removals c c' rate lag (interleavedAdds adds)
    hr0 hr1 hl0 hl hn (by rw [f1, hlen]; exact Nat.le_refl _) htr
  refine ⟨g1, fun k hk => ?_⟩
  have e := C11_interleaved_addedAt c.mort.length k hk adds (by omega)
  have h1 : c.mort.length ≤ k + adds.length := by omega
  have h2 : k + adds.length - c.mort.length = k := by omega
  rw [if_pos h1, h2] at e
  rw [← e]; exact g2 k hk

/-- The statement of `C11_eventual_death`, derived from the cohort-wise theorem. -/
example (c c' : Cell) (rate : Rat) (lag : Int) (adds : List Int)
    (hr0 : 0 < rate) (hr1 : rate ≤ 1) (hl0 : 0 ≤ lag) (hl : lag < c.mort.length)
    (hn : c.nonNeg = true) (hm : c.mortOK = true)
    (hadds : ∀ a ∈ adds, 0 ≤ a) (hlen : adds.length = c.mort.length)
    (h : mortalityRun rate lag adds c = .ok c') :
    sumL c'.mort ≤ sumL adds ∧ c.i ≤ c'.died - c.died := by
  obtain ⟨_, _, _, _, _, hmn, _, _⟩ := (mech_nonNeg_iff c).mp hn
  obtain ⟨g1, g2⟩ := C11_eventual_death_cohortwise c c' rate lag adds hr0 hr1 hl0 hl hmn hadds hlen h
  have h1 : sumL c'.mort ≤ sumL adds := by
    rw [sr_list c'.mort, sr_list adds, g1, hlen]
    exact sr_le _ _ _ (fun k hk => (g2 k hk).2)
  rw [mortalityRun_eq_history] at h
  have htr := MortTrace.mono (R' := MortOp.rel rate lag) (fun _ _ _ hR => hR.1) _ c c'
    (mortHistory_trace rate lag c' (interleavedAdds adds) c (interleavedAdds_valid rate lag adds c hadds) h)
  obtain ⟨_, f2, f3⟩ := interleavedAdds_facts adds
  obtain ⟨_, _, hbal⟩ := mortc_trace_facts rate lag hr0 hr1 hl0 c' _ c hmn hl htr
  rw [f2, f3] at hbal
  have hm' := (mech_mortOK_iff c).mp hm
  exact ⟨h1, by omega⟩

/-! ### instances -/

/-- Two cohorts `[3, 2]`, rate 1/2, lag 0; two mortality steps followed by 2 and by 1 new
    infections. The run ends with cohorts `[1, 1]`: position 0 holds 1 of the 2 hosts infected after
    the first step (the other died at the rate), position 1 the host infected after the second. -/
example :
    let c : Cell := ⟨20, [], 5, 0, 0, [3, 2], 0, 25⟩
    ∃ c', mortalityRun (1 / 2) 0 [2, 1] c = .ok c' ∧ c'.mort = [1, 1] ∧
      (∀ k : Nat, k < 2 → 0 ≤ c'.mort[k]! ∧ c'.mort[k]! ≤ [(2 : Int), 1][k]!) := by
  intro c
  have hrun : mortalityRun (1 / 2) 0 [2, 1] c = .ok ⟨17, [], 2, 0, 0, [1, 1], 6, 19⟩ :=
    mortc_ok_of_check (by decide +kernel)
  exact ⟨_, hrun, rfl, (C11_eventual_death_cohortwise c _ (1 / 2) 0 [2, 1] (by decide +kernel)
    (by decide +kernel) (by decide) (by decide) (by decide) (by decide) rfl hrun).2⟩

/-- The same cell and a history with an early addition, a removal, an arrival in both cohorts and
    a late addition around three mortality steps. It ends with cohorts `[1, 3]`. The generation at
    position 0 was emptied by the second mortality step and received `[1, 1][1] = 1` host from the
    arrival (one step before the end, i.e. at position 1); the generation at position 1 was
    emptied by the last step and received the 3 late hosts: `addedAt = [1, 3]`, and the bound is
    attained. The host that arrived at position 0 and the early addition are gone. Summed:
    `4 ≤ 5 =` what was added from the second mortality step on. -/
example :
    let c : Cell := ⟨20, [], 5, 0, 0, [3, 2], 0, 25⟩
    let ops : List MortOp :=
      [.add 1, .mortality, .remove [1, 0], .mortality, .arrive [1, 1], .mortality, .add 3]
    ∃ c', MortTrace (MortOp.rel (1 / 2) 0) ops c c' ∧ c'.mort = [1, 3] ∧
      addedAt 2 0 ops = 1 ∧ addedAt 2 1 ops = 3 ∧ addedBy (lastMortWindow 2 ops) = 5 ∧
      (∀ k : Nat, k < 2 → 0 ≤ c'.mort[k]! ∧ c'.mort[k]! ≤ addedAt 2 k ops) := by
  intro c ops
  have e1 : (CellOp.mortality (1 / 2) 0).apply (c.infectN 1) = .ok ⟨19, [], 2, 0, 0, [2, 0], 4, 21⟩ :=
    mortc_ok_of_check (by decide +kernel)
  have e2 : (CellOp.mortality (1 / 2) 0).apply
      (Cell.removeFromMort ⟨19, [], 2, 0, 0, [2, 0], 4, 21⟩ [1, 0]) = .ok ⟨19, [], 0, 0, 0, [0, 0], 5, 19⟩ :=
    mortc_ok_of_check (by decide +kernel)
  have e3 : (CellOp.mortality (1 / 2) 0).apply
      (Cell.arriveInMort ⟨19, [], 0, 0, 0, [0, 0], 5, 19⟩ [1, 1]) = .ok ⟨19, [], 1, 0, 0, [1, 0], 6, 20⟩ :=
    mortc_ok_of_check (by decide +kernel)
  have htr : MortTrace (MortOp.rel (1 / 2) 0) ops c
      (Cell.infectN ⟨19, [], 1, 0, 0, [1, 0], 6, 20⟩ 3) :=
    ⟨c.infectN 1, ⟨by decide, rfl, rfl⟩,
     ⟨19, [], 2, 0, 0, [2, 0], 4, 21⟩, e1,
     Cell.removeFromMort ⟨19, [], 2, 0, 0, [2, 0], 4, 21⟩ [1, 0],
       ⟨rfl, mortc_index_of_Dom [1, 0] [2, 0] (by simp [mech_Dom]), rfl, rfl⟩,
     ⟨19, [], 0, 0, 0, [0, 0], 5, 19⟩, e2,
     Cell.arriveInMort ⟨19, [], 0, 0, 0, [0, 0], 5, 19⟩ [1, 1], ⟨rfl, by decide, rfl, rfl⟩,
     ⟨19, [], 1, 0, 0, [1, 0], 6, 20⟩, e3,
     Cell.infectN ⟨19, [], 1, 0, 0, [1, 0], 6, 20⟩ 3, ⟨by decide, rfl, rfl⟩, rfl⟩
  refine ⟨_, htr, by decide, by decide, by decide, by decide, ?_⟩
  exact (C11_eventual_death_cohortwise_with_removals c _ (1 / 2) 0 ops (by decide +kernel)
    (by decide +kernel) (by decide) (by decide) (by decide) (by decide) htr).2

end Pops
