/-
  Lemmas for C16 (several hosts), part 2: competency tables (complete lookup, partial maximum),
  competency-scaled dispersers, table parsing.
-/
import PopsModel.Model.MultiPred
namespace Pops

/-! ### complete table: the std::map after the insertions -/

theorem mc_fold_lookup (rows : List CompRow) (p : List Bool) (acc : Option Rat) :
    rows.foldl (fun acc r => if r.presence = p then some r.competency else acc) acc =
      ((rows.reverse.find? fun r => r.presence == p).map (·.competency)).or acc := by
  induction rows generalizing acc with
  | nil => simp
  | cons r rs ih =>
    simp only [List.foldl_cons, List.reverse_cons, List.find?_append]
    rw [ih]
    cases hf : rs.reverse.find? (fun r => r.presence == p) with
    | some x => simp
    | none =>
      by_cases hr : r.presence = p
      · simp [hr]
      · simp [hr]

/-- What the lookup of a complete table returns, in terms of the last matching row. -/
theorem mc_completeLookup_spec (rows : List CompRow) (p : List Bool) :
    completeLookup rows p =
      match (rows.reverse.find? fun r => r.presence == p) with
      | some r => .ok r.competency
      | none => .error .out_of_range := by
  unfold completeLookup
  rw [mc_fold_lookup]
  cases rows.reverse.find? (fun r => r.presence == p) <;> simp

theorem mc_completeLookup_row (pre post : List CompRow) (r : CompRow)
    (hlast : ∀ r' ∈ post, r'.presence ≠ r.presence) :
    completeLookup (pre ++ r :: post) r.presence = .ok r.competency := by
  rw [mc_completeLookup_spec]
  have : (pre ++ r :: post).reverse = post.reverse ++ (r :: pre.reverse) := by simp
  rw [this, List.find?_append]
  have hnone : post.reverse.find? (fun r' => r'.presence == r.presence) = none := by
    rw [List.find?_eq_none]
    intro x hx
    have := hlast x (by simpa using hx)
    simpa using this
  rw [hnone]
  simp

theorem mc_completeLookup_missing (rows : List CompRow) (p : List Bool) (h : ∀ r ∈ rows, r.presence ≠ p) :
    completeLookup rows p = .error .out_of_range := by
  rw [mc_completeLookup_spec]
  have hnone : rows.reverse.find? (fun r' => r'.presence == p) = none := by
    rw [List.find?_eq_none]
    intro x hx
    have := h x (by simpa using hx)
    simpa using this
  rw [hnone]

/-! ### partial table: maximum over the eligible rows -/

theorem mc_step_fit (presence : List Bool) (h : Nat) (acc : Rat) (r : CompRow)
    (hf : r.presence.getD h false = true → r.presence.length = presence.length) :
    findCompetencyStep presence h acc r =
      .ok (if rowEligible presence h r then max acc r.competency else acc) := by
  unfold findCompetencyStep rowEligible
  by_cases hc : r.presence.getD h false = true
  · have hlen := hf hc
    have hne : ¬ presence.length ≠ r.presence.length := by omega
    simp only [hc, Bool.true_eq_false, if_false, hne, Bool.true_and]
    by_cases hle : r.competency ≤ acc
    · simp only [hle, if_true]
      have : max acc r.competency = acc := by grind
      cases requiredPresent r.presence presence <;> simp [this]
    · simp only [hle, if_false]
      have : max acc r.competency = r.competency := by grind
      cases requiredPresent r.presence presence <;> simp [this]
  · have hc' : r.presence.getD h false = false := by
      cases hx : r.presence.getD h false
      · rfl
      · exact absurd hx hc
    simp only [hc', if_true, Bool.false_and, Bool.false_eq_true, if_false]

theorem mc_step_unfit (presence : List Bool) (h : Nat) (acc : Rat) (r : CompRow)
    (hc : r.presence.getD h false = true) (hlen : r.presence.length ≠ presence.length) :
    findCompetencyStep presence h acc r = .error .invalid_argument := by
  unfold findCompetencyStep
  have hne : presence.length ≠ r.presence.length := by omega
  simp only [hc, Bool.true_eq_false, if_false]
  rw [if_pos hne]

theorem mc_from_fit (presence : List Bool) (h : Nat) (acc : Rat) (rows : List CompRow)
    (hf : ∀ r ∈ rows, r.presence.getD h false = true → r.presence.length = presence.length) :
    findCompetencyFrom presence h acc rows =
      .ok (((rows.filter (rowEligible presence h)).map (·.competency)).foldl max acc) := by
  induction rows generalizing acc with
  | nil => simp [findCompetencyFrom]
  | cons r rs ih =>
    simp only [findCompetencyFrom]
    rw [mc_step_fit presence h acc r (hf r (by simp))]
    simp only
    rw [ih _ (fun r' hr' => hf r' (by simp [hr']))]
    by_cases he : rowEligible presence h r = true
    · simp [he]
    · simp [he]

theorem mc_from_unfit (presence : List Bool) (h : Nat) (acc : Rat) (rows : List CompRow)
    (hu : ∃ r ∈ rows, r.presence.getD h false = true ∧ r.presence.length ≠ presence.length) :
    findCompetencyFrom presence h acc rows = .error .invalid_argument := by
  induction rows generalizing acc with
  | nil => obtain ⟨r, hr, _⟩ := hu; simp at hr
  | cons r rs ih =>
    simp only [findCompetencyFrom]
    by_cases hfit : r.presence.getD h false = true → r.presence.length = presence.length
    · rw [mc_step_fit presence h acc r hfit]
      simp only
      apply ih
      obtain ⟨r', hr', h1, h2⟩ := hu
      simp only [List.mem_cons] at hr'
      rcases hr' with rfl | hr'
      · exact absurd (hfit h1) h2
      · exact ⟨r', hr', h1, h2⟩
    · have hc : r.presence.getD h false = true := by
        by_cases hc : r.presence.getD h false = true
        · exact hc
        · exact absurd (fun x => absurd x hc) hfit
      have hl : r.presence.length ≠ presence.length := fun x => hfit (fun _ => x)
      rw [mc_step_unfit presence h acc r hc hl]

theorem mc_foldmax (l : List Rat) (a : Rat) :
    a ≤ l.foldl max a ∧ (∀ x ∈ l, x ≤ l.foldl max a) ∧ (l.foldl max a = a ∨ l.foldl max a ∈ l) := by
  induction l generalizing a with
  | nil => simp
  | cons y ys ih =>
    obtain ⟨h1, h2, h3⟩ := ih (max a y)
    simp only [List.foldl_cons, List.mem_cons]
    refine ⟨by grind, ?_, ?_⟩
    · intro x hx
      rcases hx with rfl | hx
      · grind
      · exact h2 x hx
    · rcases h3 with h3 | h3
      · by_cases hle : a ≤ y
        · right; left; rw [h3]; grind
        · left; rw [h3]; grind
      · right; right; exact h3

theorem mc_rowsFit_iff (rows : List CompRow) (presence : List Bool) (h : Nat) :
    rowsFit rows presence h = true ↔
      ∀ r ∈ rows, r.presence.getD h false = true → r.presence.length = presence.length := by
  unfold rowsFit
  simp only [List.all_eq_true, Bool.or_eq_true, Bool.not_eq_true', beq_iff_eq]
  constructor
  · intro hh r hr hc
    rcases hh r hr with h1 | h1
    · rw [h1] at hc; cases hc
    · exact h1
  · intro hh r hr
    by_cases hc : r.presence.getD h false = true
    · exact .inr (hh r hr hc)
    · left; simpa using hc

theorem mc_isMaxEligible (rows : List CompRow) (presence : List Bool) (h : Nat) :
    isMaxEligible rows presence h (maxEligible rows presence h) = true := by
  unfold isMaxEligible maxEligible
  obtain ⟨h1, h2, h3⟩ := mc_foldmax ((rows.filter (rowEligible presence h)).map (·.competency)) 0
  simp only [Bool.and_eq_true, decide_eq_true_eq, List.all_eq_true, Bool.or_eq_true, Bool.not_eq_true',
    List.any_eq_true]
  refine ⟨⟨h1, ?_⟩, ?_⟩
  · intro r hr
    by_cases he : rowEligible presence h r = true
    · right
      apply h2
      simp only [List.mem_map, List.mem_filter]
      exact ⟨r, ⟨hr, he⟩, rfl⟩
    · left; simpa using he
  · rcases h3 with h3 | h3
    · exact .inl h3
    · right
      simp only [List.mem_map, List.mem_filter] at h3
      obtain ⟨r, ⟨hr, he⟩, hv⟩ := h3
      exact ⟨r, hr, he, hv⟩

/-! ### the table as a whole -/

theorem mc_competencyAt_spec (t : CompetencyTable) (presence : List Bool) (h : Nat) :
    competencySpec t presence h =
      match t.competencyAt presence h with
      | .ok k => some k
      | .error _ => none := by
  cases t with
  | complete rows =>
    simp only [competencySpec, CompetencyTable.competencyAt]
    rw [mc_completeLookup_spec]
    cases rows.reverse.find? (fun r => r.presence == presence) <;> rfl
  | part rows =>
    simp only [competencySpec, CompetencyTable.competencyAt, findCompetency]
    by_cases hf : rowsFit rows presence h = true
    · rw [mc_from_fit presence h 0 rows ((mc_rowsFit_iff rows presence h).1 hf)]
      simp only [hf, if_true]; rfl
    · have hu : ∃ r ∈ rows, r.presence.getD h false = true ∧ r.presence.length ≠ presence.length := by
        apply Classical.byContradiction
        intro hn
        apply hf
        rw [mc_rowsFit_iff]
        intro r hr hc
        apply Classical.byContradiction
        intro hl
        exact hn ⟨r, hr, hc, hl⟩
      rw [mc_from_unfit presence h 0 rows hu]
      simp [hf]

/-! ### dispersers scaled by competency -/

theorem mc_hostDispersers_spec (env : MEnv) (presence : List Bool) (h : Nat) (p : HostParams) (c : Cell) :
    hostDispersersSpec env presence h p c =
      match hostDispersersFrom env presence h p c with
      | .ok v => some v
      | .error _ => none := by
  unfold hostDispersersSpec hostDispersersFrom
  by_cases hi : c.i ≤ 0
  · simp only [hi, if_true]
  · simp only [hi, if_false]
    cases hc : env.comp with
    | none => simp only [bind, Except.bind, pure, Except.pure, Cell.dispersersFromDet, hi, if_false]
    | some t =>
      simp only [bind, Except.bind, pure, Except.pure]
      rw [mc_competencyAt_spec]
      cases t.competencyAt presence h with
      | error x => rfl
      | ok k => simp only [Option.map, Cell.dispersersFromDet, hi, if_false]

theorem mc_dispersersLoop_spec (env : MEnv) (presence : List Bool) (k : Nat) (ps : List HostParams) (cells : List Cell) :
    dispersersSpecFrom env presence k ps cells =
      match dispersersFromLoop env presence k ps cells with
      | .ok v => some v
      | .error _ => none := by
  induction ps generalizing k cells with
  | nil => simp [dispersersSpecFrom, dispersersFromLoop]
  | cons p ps ih =>
    cases cells with
    | nil => simp [dispersersSpecFrom, dispersersFromLoop]
    | cons c rest =>
      simp only [dispersersSpecFrom, dispersersFromLoop, bind, Except.bind, Option.bind]
      rw [mc_hostDispersers_spec, ih]
      cases hostDispersersFrom env presence k p c with
      | error x => rfl
      | ok a =>
        cases dispersersFromLoop env presence (k + 1) ps rest with
        | error x => rfl
        | ok b => rfl

/-! ### table parsing -/

/-- A pest-host row the parser accepts. -/
def phtRowOK (row : List Rat) : Bool :=
  decide (3 ≤ row.length) && decide (0 ≤ row.getD 0 0) && decide (row.getD 0 0 ≤ 1)

theorem mc_readPht (values : List (List Rat)) :
    ((readPestHostTable values).2 = none ↔ values.all phtRowOK = true) ∧
    (∀ e, (readPestHostTable values).2 = some e → e = .invalid_argument) ∧
    ((readPestHostTable values).2 = none → (readPestHostTable values).1.length = values.length) := by
  induction values with
  | nil => simp [readPestHostTable]
  | cons row rest ih =>
    obtain ⟨i1, i2, i3⟩ := ih
    match row with
    | [] => simp [readPestHostTable, phtRowOK]
    | [a] => simp [readPestHostTable, phtRowOK]
    | [a, b] => simp [readPestHostTable, phtRowOK]
    | a :: b :: c :: tl =>
      simp only [readPestHostTable]
      by_cases hbad : a < 0 ∨ a > 1
      · simp only [hbad, if_true]
        refine ⟨?_, by simp, by simp⟩
        simp only [List.all_cons, phtRowOK, List.getD_cons_zero, Bool.and_eq_true, decide_eq_true_eq]
        constructor
        · intro h; cases h
        · intro h; rcases hbad with hb | hb <;> grind
      · simp only [hbad, if_false]
        have h0 : 0 ≤ a := by grind
        have h1 : a ≤ 1 := by grind
        refine ⟨?_, i2, ?_⟩
        · rw [i1]
          simp [phtRowOK, h0, h1]
        · intro h; simp [i3 h]

theorem mc_readCompRows_tail (n : Nat) (values : List (List Rat)) :
    ((readCompetencyRows (some n) values).2 = none ↔ (∀ row ∈ values, 2 ≤ row.length ∧ row.length = n)) ∧
    (∀ e, (readCompetencyRows (some n) values).2 = some e → e = .invalid_argument) := by
  induction values generalizing n with
  | nil => simp [readCompetencyRows]
  | cons row rest ih =>
    simp only [readCompetencyRows]
    by_cases hm : row.length = n
    · subst hm
      obtain ⟨i1, i2⟩ := ih row.length
      by_cases h2 : row.length < 2
      · simp only [ne_eq, not_true_eq_false, decide_false, Bool.false_eq_true, if_false, h2, if_true]
        refine ⟨?_, by simp⟩
        constructor
        · intro h; cases h
        · intro h; have := (h row (by simp)).1; omega
      · simp only [ne_eq, not_true_eq_false, decide_false, Bool.false_eq_true, if_false, h2]
        refine ⟨?_, i2⟩
        rw [i1]
        simp only [List.mem_cons, forall_eq_or_imp]
        constructor
        · intro h; exact ⟨⟨by omega, trivial⟩, h⟩
        · intro h; exact h.2
    · have : decide (row.length ≠ n) = true := by simpa using hm
      simp only [this, if_true]
      refine ⟨?_, by simp⟩
      constructor
      · intro h; cases h
      · intro h; exact absurd (h row (by simp)).2 hm

/-- `read_competency_table` accepts exactly the tables whose rows all have the size of the first
    row and at least two values; every rejection is an invalid_argument. -/
theorem mc_readComp (values : List (List Rat)) :
    ((readCompetencyTable values).2 = none ↔
      (∀ row ∈ values, 2 ≤ row.length ∧ row.length = (values.headD []).length)) ∧
    (∀ e, (readCompetencyTable values).2 = some e → e = .invalid_argument) := by
  unfold readCompetencyTable
  cases values with
  | nil => simp [readCompetencyRows]
  | cons row rest =>
    obtain ⟨i1, i2⟩ := mc_readCompRows_tail row.length rest
    simp only [readCompetencyRows]
    by_cases h2 : row.length < 2
    · simp only [Bool.false_eq_true, if_false, h2, if_true]
      refine ⟨?_, by simp⟩
      constructor
      · intro h; cases h
      · intro h; have := (h row (by simp)).1; omega
    · simp only [Bool.false_eq_true, if_false, h2]
      refine ⟨?_, i2⟩
      rw [i1]
      simp only [List.mem_cons, List.headD_cons, forall_eq_or_imp]
      constructor
      · intro h; exact ⟨⟨by omega, trivial⟩, h⟩
      · intro h; exact h.2

end Pops
