/-
  Helper lemmas for `C13_supports_kernel` / `C15_network_movement_wiring`: the class of the kernel a
  factory builds, as a function of the kernel type its configuration name maps to. Core Lean only.
-/
import PopsModel.Model.KernElig
namespace Pops

/-- `create_natural_kernel`: uniform, neighbour, else radial (stochastic) or deterministic. -/
theorem createNatural_cls (c : KernelConfig) (t : DispersalKernelType) (d : KernelDesc)
    (ht : kernelTypeFromString c.naturalKernelType = .ok t) (hd : createNaturalKernel c = .ok d) :
    d.cls = (if t = .uniform then .uniform else if t = .deterministicNeighbor then .neighbor
             else if c.dispersalStochasticity then .radial else .deterministic) := by
  simp only [createNaturalKernel, ht, bind, Except.bind, pure, Except.pure] at hd
  by_cases h1 : t = .uniform
  · simp only [h1, if_true] at hd ⊢; cases hd; rfl
  · by_cases h2 : t = .deterministicNeighbor
    · subst h2
      simp only [if_true] at hd
      cases hdir : directionFromString c.naturalDirection <;> simp [hdir] at hd
      subst hd; simp [KernelDesc.cls]
    · simp only [h1, h2, if_false] at hd ⊢
      cases hs : c.dispersalStochasticity <;> simp [hs] at hd ⊢
      · subst hd; rfl
      · cases hdir : directionFromString c.naturalDirection <;> simp [hdir] at hd
        split at hd <;> simp at hd
        subst hd; rfl

/-- `create_anthro_kernel`: uniform, neighbour, network, else radial (stochastic) or deterministic. -/
theorem createAnthro_cls (c : KernelConfig) (t : DispersalKernelType) (d : KernelDesc)
    (ht : kernelTypeFromString c.anthroKernelType = .ok t) (hd : createAnthroKernel c = .ok d) :
    d.cls = (if t = .uniform then .uniform else if t = .deterministicNeighbor then .neighbor
             else if t = .network then .network
             else if c.dispersalStochasticity then .radial else .deterministic) := by
  simp only [createAnthroKernel, ht, bind, Except.bind, pure, Except.pure] at hd
  by_cases h1 : t = .uniform
  · simp only [h1, if_true] at hd ⊢; cases hd; rfl
  · by_cases h2 : t = .deterministicNeighbor
    · subst h2
      simp only [if_true] at hd
      cases hdir : directionFromString c.anthroDirection <;> simp [hdir] at hd
      subst hd; simp [KernelDesc.cls]
    · by_cases h3 : t = .network
      · subst h3
        simp only [if_true] at hd
        by_cases hm : c.networkMovement = "teleport" <;> simp [hm] at hd <;> subst hd <;> rfl
      · simp only [h1, h2, h3, if_false] at hd ⊢
        cases hs : c.dispersalStochasticity <;> simp [hs] at hd ⊢
        · subst hd; rfl
        · cases hdir : directionFromString c.anthroDirection <;> simp [hdir] at hd
          split at hd <;> simp at hd
          subst hd; rfl
/-- `create_anthro_kernel` with a name of the network kernel: the teleporting constructor iff
    `network_movement == "teleport"`, else the walking constructor with the configured bounds and
    `jump = (network_movement == "jump")`. -/
theorem createAnthro_network (c : KernelConfig)
    (ht : kernelTypeFromString c.anthroKernelType = .ok .network) :
    createAnthroKernel c = .ok (if c.networkMovement = "teleport" then .networkTeleport
      else .networkWalk c.networkMinDistance c.networkMaxDistance (decide (c.networkMovement = "jump"))) := by
  simp only [createAnthroKernel, ht, bind, Except.bind, pure, Except.pure]
  by_cases hm : c.networkMovement = "teleport" <;> simp [hm]

end Pops
