/-
  Helper lemmas for C04, C09, C17 (landscape-level actions and the step plan).
  All names carry the prefix `act_`.
-/
import PopsModel.Model.Actions
import PopsModel.Lemmas.Rounding
import PopsModel.Lemmas.HostInv3
import PopsModel.Lemmas.Schedule
namespace Pops

/-! ### list helpers -/

theorem act_getElem!_set_ne {α : Type} [Inhabited α] (l : List α) {k k0 : Nat} (a : α) (h : k ≠ k0) :
    (l.set k0 a)[k]! = l[k]! := by
  rw [List.getElem!_eq_getElem?_getD, List.getElem!_eq_getElem?_getD, List.getElem?_set_ne (Ne.symm h)]

theorem act_getElem!_set_self {α : Type} [Inhabited α] (l : List α) {k : Nat} (a : α) (h : k < l.length) :
    (l.set k a)[k]! = a := by
  rw [List.getElem!_eq_getElem?_getD, List.getElem?_set_self h]; rfl

theorem act_getElem!_ge {α : Type} [Inhabited α] {l : List α} {k : Nat} (h : l.length ≤ k) : l[k]! = default := by
  rw [List.getElem!_eq_getElem?_getD, List.getElem?_eq_none h]; rfl

theorem act_getElem!_mem {α : Type} [Inhabited α] {l : List α} {k : Nat} (h : k < l.length) : l[k]! ∈ l := by
  rw [getElem!_pos l k h]; exact List.getElem_mem h

theorem act_getElem?_eq_some_getElem! {α : Type} [Inhabited α] {l : List α} {k : Nat} (h : k < l.length) :
    l[k]? = some l[k]! := by
  rw [getElem!_pos l k h]; exact List.getElem?_eq_getElem h

theorem act_set_getElem!_self {α : Type} [Inhabited α] (l : List α) (k : Nat) : l.set k l[k]! = l := by
  by_cases h : k < l.length
  · rw [getElem!_pos l k h]; exact List.set_getElem_self h
  · exact List.set_eq_of_length_le (by omega)

/-! ### C09: the step plan -/

theorem act_plan_map_fst (cfg : StepCfg) (step : Nat) :
    (plan cfg step).map (·.1) = documentedOrder.filter (cfg.runs step) := by
  unfold plan
  rw [List.map_map]
  exact List.map_id' _

theorem act_documentedOrder_nodup : documentedOrder.Nodup := by decide

theorem act_mem_documentedOrder (a : ActionKind) : a ∈ documentedOrder := by
  cases a <;> decide

theorem act_schedAt_lt {s : List Bool} {step : Nat} (h : schedAt s step = true) : step < s.length := by
  unfold schedAt at h
  by_cases hl : step < s.length
  · exact hl
  · rw [List.getD_eq_getElem?_getD, List.getElem?_eq_none (by omega)] at h; cases h

theorem act_simStep_of_schedAt {s : List Bool} {step : Nat} (h : schedAt s step = true) :
    simulationStepToActionStep s step = .ok (countTrue (s.take step)) := by
  unfold simulationStepToActionStep
  rw [if_pos (act_schedAt_lt h)]

theorem act_mem_plan {cfg : StepCfg} {step : Nat} {a : ActionKind} {o : Option Nat}
    (h : (a, o) ∈ plan cfg step) : cfg.runs step a = true ∧ o = cfg.inputIndex step a := by
  unfold plan at h
  obtain ⟨a', ha', he⟩ := List.mem_map.mp h
  injection he with h1 h2
  subst h1
  exact ⟨(List.mem_filter.mp ha').2, h2.symm⟩

theorem act_plan_order (cfg : StepCfg) (step : Nat) :
    ((plan cfg step).map (·.1)).Sublist documentedOrder ∧ ((plan cfg step).map (·.1)).Nodup := by
  rw [act_plan_map_fst]
  exact ⟨List.filter_sublist, List.Nodup.sublist List.filter_sublist act_documentedOrder_nodup⟩

theorem act_plan_iff (cfg : StepCfg) (step : Nat) (a : ActionKind) :
    a ∈ (plan cfg step).map (·.1) ↔ cfg.runs step a = true := by
  rw [act_plan_map_fst, List.mem_filter]
  exact ⟨fun h => h.2, fun h => ⟨act_mem_documentedOrder a, h⟩⟩

theorem act_plan_index (cfg : StepCfg) (step : Nat) (a : ActionKind) (k : Nat)
    (h : (a, some k) ∈ plan cfg step) :
    (a = .lethal → simulationStepToActionStep cfg.lethalSched step = .ok k) ∧
    (a = .survival → simulationStepToActionStep cfg.survivalSched step = .ok k) ∧
    (a = .spreadRate → simulationStepToActionStep cfg.rateSched step = .ok k) ∧
    (a = .quarantine → simulationStepToActionStep cfg.quarantineSched step = .ok k) ∧
    (a = .lethal ∨ a = .survival ∨ a = .spreadRate ∨ a = .quarantine) := by
  obtain ⟨hr, hi⟩ := act_mem_plan h
  cases a <;> simp only [StepCfg.inputIndex, Option.some.injEq, reduceCtorEq] at hi <;>
    simp only [StepCfg.runs, Bool.and_eq_true] at hr <;>
    refine ⟨?_, ?_, ?_, ?_, ?_⟩ <;> (try (intro hc; cases hc)) <;> (try simp only [reduceCtorEq, or_false, or_true])
  all_goals (rw [act_simStep_of_schedAt hr.2, hi])

theorem act_plan_congr (cfg cfg' : StepCfg) (step : Nat)
    (hr : ∀ a, cfg'.runs step a = cfg.runs step a)
    (hi : ∀ a, cfg.runs step a = true → cfg'.inputIndex step a = cfg.inputIndex step a) :
    plan cfg' step = plan cfg step := by
  unfold plan
  have : cfg'.runs step = cfg.runs step := funext hr
  rw [this]
  apply List.map_congr_left
  intro a ha
  rw [hi a (List.mem_filter.mp ha).2]

theorem act_plan_frame_disabled (cfg : StepCfg) (step : Nat) (x : List Bool) :
    (cfg.useLethal = false → plan { cfg with lethalSched := x } step = plan cfg step) ∧
    (cfg.useSurvival = false → plan { cfg with survivalSched := x } step = plan cfg step) ∧
    (cfg.useMortality = false → plan { cfg with mortalitySched := x } step = plan cfg step) ∧
    (cfg.useSpreadRates = false → plan { cfg with rateSched := x } step = plan cfg step) ∧
    (cfg.useQuarantine = false → plan { cfg with quarantineSched := x } step = plan cfg step) := by
  refine ⟨?_, ?_, ?_, ?_, ?_⟩ <;> intro hu <;> apply act_plan_congr <;> intro a <;> cases a <;>
    simp only [StepCfg.runs, StepCfg.inputIndex, hu, Bool.false_and, implies_true, reduceCtorEq, false_implies]

theorem act_plan_spread_block (cfg : StepCfg) (step : Nat) :
    (cfg.runs step .stepForward = cfg.runs step .spread) ∧
    (cfg.runs step .overpopulation = true → cfg.runs step .spread = true) ∧
    (cfg.runs step .movement = true → cfg.runs step .spread = true) := by
  simp only [StepCfg.runs, Bool.and_eq_true]
  exact ⟨trivial, fun h => h.1, fun h => h.1⟩

/-! ### C17: overpopulation -/

theorem act_departs_iff (thr : Rat) (c : Cell) :
    departs thr c = true ↔ (2 ≤ c.i ∧ thr ≤ (c.i : Rat) / ((c.s + c.i : Int) : Rat)) := by
  simp only [departs, Bool.and_eq_true, decide_eq_true_eq, ge_iff_le]
  constructor <;> intro ⟨a, b⟩ <;> exact ⟨by omega, b⟩

theorem act_leaving_facts (leaving : Rat) (c : Cell) (h0 : 0 ≤ leaving) (h1 : leaving ≤ 1) (hi : 0 ≤ c.i) :
    0 ≤ leavingCount leaving c ∧ leavingCount leaving c ≤ c.i ∧
    (c.pestsFrom (leavingCount leaving c)).1.i = c.i - leavingCount leaving c ∧
    (c.pestsFrom (leavingCount leaving c)).1.s = c.s + leavingCount leaving c ∧
    (c.pestsFrom (leavingCount leaving c)).2 = leavingCount leaving c := by
  have h := lround_share hi h0 h1
  exact ⟨h.1, h.2, rfl, rfl, rfl⟩

theorem act_pestsTo_min (c : Cell) (k : Int) :
    (c.pestsTo k).2 = min k c.s ∧ (c.pestsTo k).1.i = c.i + min k c.s ∧
    (c.pestsTo k).1.s = c.s - min k c.s := by
  unfold Cell.pestsTo
  by_cases h : c.s ≥ k
  · simp only [h, if_true]; refine ⟨?_, ?_, ?_⟩ <;> omega
  · simp only [h, if_false]; refine ⟨?_, ?_, ?_⟩ <;> omega

theorem act_departs_lt {thr : Rat} {cells : List Cell} {k : Nat} (h : departs thr (cells[k]!) = true) :
    k < cells.length := by
  by_cases hk : k < cells.length
  · exact hk
  · rw [act_getElem!_ge (by omega)] at h
    have := ((act_departs_iff thr default).mp h).1
    have h0 : (default : Cell).i = 0 := rfl
    omega

/-- One departure step on the cell list. -/
theorem act_depart_step (thr leaving : Rat) (h0 : 0 ≤ leaving) (h1 : leaving ≤ 1) (cells : List Cell) (k0 : Nat)
    (hn : ∀ c ∈ cells, 0 ≤ c.i) (hd : departs thr (cells[k0]!) = true) :
    (∀ c ∈ cells.set k0 ((cells[k0]!).pestsFrom (leavingCount leaving (cells[k0]!))).1, 0 ≤ c.i) ∧
    (∀ k : Nat, ((cells.set k0 ((cells[k0]!).pestsFrom (leavingCount leaving (cells[k0]!))).1)[k]!).i ≤ (cells[k]!).i ∧
      ((cells.set k0 ((cells[k0]!).pestsFrom (leavingCount leaving (cells[k0]!))).1)[k]!).s +
      ((cells.set k0 ((cells[k0]!).pestsFrom (leavingCount leaving (cells[k0]!))).1)[k]!).i = (cells[k]!).s + (cells[k]!).i) := by
  have hk0 := act_departs_lt hd
  have hi := hn _ (act_getElem!_mem hk0)
  have hl := lround_share hi h0 h1
  constructor
  · intro c hc
    rcases List.mem_or_eq_of_mem_set hc with hc | rfl
    · exact hn c hc
    · simp only [Cell.pestsFrom, leavingCount]; omega
  · intro k
    by_cases hk : k = k0
    · subst hk
      rw [act_getElem!_set_self _ _ hk0]
      simp only [Cell.pestsFrom, leavingCount]; omega
    · rw [act_getElem!_set_ne _ _ hk]; omega


theorem act_departGo_nil (g : Grid) (thr leaving : Rat) (cells : List Cell) (p : PestState)
    (ts : List (Int × Int)) (moves : List (Int × Int × Int)) :
    departGo g thr leaving [] cells p ts moves = (cells, p, ts, moves) := rfl

theorem act_departGo_stay (g : Grid) (thr leaving : Rat) (r c : Int) (rest : List (Int × Int)) (cells : List Cell)
    (p : PestState) (ts : List (Int × Int)) (moves : List (Int × Int × Int))
    (hd : ¬ departs thr (cells[g.idx r c]!) = true) :
    departGo g thr leaving ((r, c) :: rest) cells p ts moves = departGo g thr leaving rest cells p ts moves := by
  simp only [departGo, hd, if_false, Bool.false_eq_true]

theorem act_departGo_exhausted (g : Grid) (thr leaving : Rat) (r c : Int) (rest : List (Int × Int)) (cells : List Cell)
    (p : PestState) (moves : List (Int × Int × Int))
    (hd : departs thr (cells[g.idx r c]!) = true) :
    departGo g thr leaving ((r, c) :: rest) cells p [] moves = (cells, p, [], moves) := by
  simp only [departGo, hd, if_true]

theorem act_departGo_out (g : Grid) (thr leaving : Rat) (r c tr tc : Int) (rest : List (Int × Int)) (cells : List Cell)
    (p : PestState) (ts : List (Int × Int)) (moves : List (Int × Int × Int))
    (hd : departs thr (cells[g.idx r c]!) = true) (ho : g.isOutside tr tc = true) :
    departGo g thr leaving ((r, c) :: rest) cells p ((tr, tc) :: ts) moves =
      departGo g thr leaving rest
        (cells.set (g.idx r c) ((cells[g.idx r c]!).pestsFrom (leavingCount leaving (cells[g.idx r c]!))).1)
        { p with outside := p.outside ++ List.replicate (leavingCount leaving (cells[g.idx r c]!)).toNat (tr, tc) }
        ts moves := by
  simp only [departGo, hd, if_true, ho, Cell.pestsFrom]

theorem act_departGo_in (g : Grid) (thr leaving : Rat) (r c tr tc : Int) (rest : List (Int × Int)) (cells : List Cell)
    (p : PestState) (ts : List (Int × Int)) (moves : List (Int × Int × Int))
    (hd : departs thr (cells[g.idx r c]!) = true) (ho : g.isOutside tr tc = false) :
    departGo g thr leaving ((r, c) :: rest) cells p ((tr, tc) :: ts) moves =
      departGo g thr leaving rest
        (cells.set (g.idx r c) ((cells[g.idx r c]!).pestsFrom (leavingCount leaving (cells[g.idx r c]!))).1)
        p ts (moves ++ [(tr, tc, leavingCount leaving (cells[g.idx r c]!))]) := by
  simp only [departGo, hd, if_true, ho, Cell.pestsFrom, Bool.false_eq_true, if_false]

theorem act_departGo_facts (g : Grid) (thr leaving : Rat) (h0 : 0 ≤ leaving) (h1 : leaving ≤ 1)
    (suit : List (Int × Int)) (cells : List Cell)
    (p : PestState) (ts : List (Int × Int)) (moves0 : List (Int × Int × Int))
    (hn : ∀ c ∈ cells, 0 ≤ c.i) :
    (departGo g thr leaving suit cells p ts moves0).1.length = cells.length ∧
    (∀ k : Nat, ((departGo g thr leaving suit cells p ts moves0).1[k]!).i ≤ (cells[k]!).i ∧
        ((departGo g thr leaving suit cells p ts moves0).1[k]!).s + ((departGo g thr leaving suit cells p ts moves0).1[k]!).i
          = (cells[k]!).s + (cells[k]!).i) ∧
    (∀ m ∈ (departGo g thr leaving suit cells p ts moves0).2.2.2, m ∈ moves0 ∨ g.isOutside m.1 m.2.1 = false) ∧
    (∀ k : Nat, departs thr (cells[k]!) = false →
        (departGo g thr leaving suit cells p ts moves0).1[k]! = cells[k]!) := by
  induction suit generalizing cells p ts moves0 with
  | nil =>
    rw [act_departGo_nil]
    exact ⟨rfl, fun k => ⟨Int.le_refl _, rfl⟩, fun m hm => Or.inl hm, fun k _ => rfl⟩
  | cons rc rest ih =>
    obtain ⟨r, c⟩ := rc
    by_cases hd : departs thr (cells[g.idx r c]!) = true
    · cases ts with
      | nil =>
        rw [act_departGo_exhausted _ _ _ _ _ _ _ _ _ hd]
        exact ⟨rfl, fun k => ⟨Int.le_refl _, rfl⟩, fun m hm => Or.inl hm, fun k _ => rfl⟩
      | cons t ts' =>
        obtain ⟨tr, tc⟩ := t
        obtain ⟨hn', hstep⟩ := act_depart_step thr leaving h0 h1 cells (g.idx r c) hn hd
        have hne : ∀ k : Nat, departs thr (cells[k]!) = false → k ≠ g.idx r c := by
          intro k hk he; subst he; rw [hd] at hk; cases hk
        cases ho : g.isOutside tr tc with
        | true =>
          rw [act_departGo_out _ _ _ _ _ _ _ _ _ _ _ _ hd ho]
          obtain ⟨a1, a2, a3, a4⟩ := ih _ { p with outside := p.outside ++ List.replicate (leavingCount leaving (cells[g.idx r c]!)).toNat (tr, tc) } ts' moves0 hn'
          refine ⟨by rw [a1, List.length_set], ?_, a3, ?_⟩
          · intro k; have := a2 k; have := hstep k; omega
          · intro k hk
            have e := act_getElem!_set_ne cells ((cells[g.idx r c]!).pestsFrom (leavingCount leaving (cells[g.idx r c]!))).1 (hne k hk)
            rw [a4 k (by rw [e]; exact hk), e]
        | false =>
          rw [act_departGo_in _ _ _ _ _ _ _ _ _ _ _ _ hd ho]
          obtain ⟨a1, a2, a3, a4⟩ := ih _ p ts' (moves0 ++ [(tr, tc, leavingCount leaving (cells[g.idx r c]!))]) hn'
          refine ⟨by rw [a1, List.length_set], ?_, ?_, ?_⟩
          · intro k; have := a2 k; have := hstep k; omega
          · intro m hm
            rcases a3 m hm with h | h
            · rcases List.mem_append.mp h with h | h
              · exact Or.inl h
              · rw [List.mem_singleton] at h; subst h
                exact Or.inr ho
            · exact Or.inr h
          · intro k hk
            have e := act_getElem!_set_ne cells ((cells[g.idx r c]!).pestsFrom (leavingCount leaving (cells[g.idx r c]!))).1 (hne k hk)
            rw [a4 k (by rw [e]; exact hk), e]
    · rw [act_departGo_stay _ _ _ _ _ _ _ _ _ _ hd]
      exact ih cells p ts moves0 hn

theorem act_departGo_single (g : Grid) (thr leaving : Rat) (r c : Int) (cells : List Cell)
    (p : PestState) (t : Int × Int) (hd : departs thr (cells[g.idx r c]!) = true) :
    (g.isOutside t.1 t.2 = true →
      (departGo g thr leaving [(r, c)] cells p [t] []).2.1.outside =
        p.outside ++ List.replicate (leavingCount leaving (cells[g.idx r c]!)).toNat t ∧
      (departGo g thr leaving [(r, c)] cells p [t] []).2.2.2 = []) ∧
    (g.isOutside t.1 t.2 = false →
      (departGo g thr leaving [(r, c)] cells p [t] []).2.1.outside = p.outside ∧
      (departGo g thr leaving [(r, c)] cells p [t] []).2.2.2 = [(t.1, t.2, leavingCount leaving (cells[g.idx r c]!))]) := by
  obtain ⟨tr, tc⟩ := t
  constructor
  · intro ho
    rw [act_departGo_out _ _ _ _ _ _ _ _ _ _ _ _ hd ho, act_departGo_nil]
    exact ⟨rfl, rfl⟩
  · intro ho
    rw [act_departGo_in _ _ _ _ _ _ _ _ _ _ _ _ hd ho, act_departGo_nil]
    exact ⟨rfl, rfl⟩

/-! ### C17: host movement cursor -/

theorem act_movementGo_facts (schedule : List Nat) (step : Nat) (fuel i : Nat) (acc : List Nat)
    (hi : i ≤ schedule.length) (hf : schedule.length < fuel + i) :
    i ≤ (movementGo schedule step fuel i acc).2 ∧ (movementGo schedule step fuel i acc).2 ≤ schedule.length ∧
    (movementGo schedule step fuel i acc).1 = acc ++ List.range' i ((movementGo schedule step fuel i acc).2 - i) ∧
    (∀ j, i ≤ j → j < (movementGo schedule step fuel i acc).2 → schedule[j]! = step) ∧
    ((movementGo schedule step fuel i acc).2 < schedule.length →
      schedule[(movementGo schedule step fuel i acc).2]! ≠ step) := by
  induction fuel generalizing i acc with
  | zero => omega
  | succ fuel ih =>
    unfold movementGo
    by_cases h1 : i < schedule.length
    · rw [if_pos h1]
      by_cases h2 : schedule[i]! ≠ step
      · rw [if_pos h2]
        refine ⟨Nat.le_refl _, hi, ?_, ?_, fun _ => h2⟩
        · simp
        · intro j a b; omega
      · rw [if_neg h2]
        obtain ⟨a1, a2, a3, a4, a5⟩ := ih (i + 1) (acc ++ [i]) (by omega) (by omega)
        refine ⟨by omega, a2, ?_, ?_, a5⟩
        · rw [a3]
          have : (movementGo schedule step fuel (i + 1) (acc ++ [i])).2 - i =
              ((movementGo schedule step fuel (i + 1) (acc ++ [i])).2 - (i + 1)) + 1 := by omega
          rw [this, List.range'_succ, List.append_assoc]; rfl
        · intro j b c
          by_cases hj : j = i
          · subst hj; exact Decidable.not_not.mp h2
          · exact a4 j (by omega) c
    · rw [if_neg h1]
      have : i = schedule.length := by omega
      subst this
      refine ⟨Nat.le_refl _, Nat.le_refl _, by simp, ?_, ?_⟩
      · intro j a b; omega
      · intro a; omega

theorem act_movementRows_facts (schedule : List Nat) (last step : Nat) (hl : last ≤ schedule.length) :
    last ≤ (movementRows schedule last step).2 ∧ (movementRows schedule last step).2 ≤ schedule.length ∧
    (movementRows schedule last step).1 = List.range' last ((movementRows schedule last step).2 - last) ∧
    (∀ i, last ≤ i → i < (movementRows schedule last step).2 → schedule[i]! = step) ∧
    ((movementRows schedule last step).2 < schedule.length → schedule[(movementRows schedule last step).2]! ≠ step) := by
  have h := act_movementGo_facts schedule step (schedule.length + 1) last [] hl (by omega)
  rw [List.nil_append] at h
  exact h

theorem act_range'_eq_map_add (s n : Nat) : List.range' s n = (List.range n).map (· + s) := by
  rw [List.range'_eq_map_range]
  apply List.map_congr_left
  intro a _; exact Nat.add_comm _ _

theorem act_movementRunOn_facts (schedule : List Nat)
    (hmono : ∀ i j, i ≤ j → j < schedule.length → schedule[i]! ≤ schedule[j]!)
    (steps : List Nat) (last : Nat) (hl : last ≤ schedule.length)
    (hsteps : steps.Pairwise (· < ·))
    (hsched : ∀ i, last ≤ i → i < schedule.length → schedule[i]! ∈ steps ∨ ∀ s ∈ steps, s < schedule[i]!) :
    ((movementRunOn schedule steps last).flatMap (·.2)) =
      (List.range' last (schedule.length - last)).filter (fun i => decide (schedule[i]! ∈ steps)) ∧
    (∀ e ∈ movementRunOn schedule steps last, ∀ i ∈ e.2, schedule[i]! = e.1) ∧
    (movementRunOn schedule steps last).map (·.1) = steps := by
  induction steps generalizing last with
  | nil =>
    simp only [movementRunOn]
    refine ⟨?_, ?_, rfl⟩
    · simp
    · intro e he; cases he
  | cons s rest ih =>
    obtain ⟨b1, b2, b3, b4, b5⟩ := act_movementRows_facts schedule last s hl
    have hp := List.pairwise_cons.mp hsteps
    have hgt : ∀ i, (movementRows schedule last s).2 ≤ i → i < schedule.length → s < schedule[i]! := by
      intro i hi1 hi2
      have hc : (movementRows schedule last s).2 < schedule.length := by omega
      have hne := b5 hc
      have hm := hmono _ i hi1 hi2
      have : s < schedule[(movementRows schedule last s).2]! := by
        rcases hsched _ b1 hc with h | h
        · rcases List.mem_cons.mp h with h | h
          · exact absurd h hne
          · exact hp.1 _ h
        · exact h s (List.mem_cons_self ..)
      omega
    have hsched' : ∀ i, (movementRows schedule last s).2 ≤ i → i < schedule.length →
        schedule[i]! ∈ rest ∨ ∀ s' ∈ rest, s' < schedule[i]! := by
      intro i hi1 hi2
      have := hgt i hi1 hi2
      rcases hsched i (by omega) hi2 with h | h
      · rcases List.mem_cons.mp h with h | h
        · omega
        · exact Or.inl h
      · exact Or.inr (fun s' hs' => h s' (List.mem_cons_of_mem _ hs'))
    obtain ⟨c1, c2, c3⟩ := ih (movementRows schedule last s).2 b2 hp.2 hsched'
    simp only [movementRunOn]
    refine ⟨?_, ?_, ?_⟩
    · rw [List.flatMap_cons, c1, b3]
      have e : schedule.length - last =
          ((movementRows schedule last s).2 - last) + (schedule.length - (movementRows schedule last s).2) := by omega
      have e2 : (movementRows schedule last s).2 = last + ((movementRows schedule last s).2 - last) := by omega
      rw [e, ← List.range'_append_1, List.filter_append, ← e2]
      congr 1
      · symm
        rw [List.filter_eq_self]
        intro i hi
        rw [List.mem_range'_1] at hi
        rw [decide_eq_true_eq, b4 i hi.1 (by omega)]
        exact List.mem_cons_self ..
      · apply List.filter_congr
        intro i hi
        rw [List.mem_range'_1] at hi
        have := hgt i hi.1 (by omega)
        simp only [List.mem_cons]
        have hne : ¬ schedule[i]! = s := by omega
        simp only [hne, false_or]
    · intro e he
      rcases List.mem_cons.mp he with he | he
      · subst he
        intro i hi
        simp only at hi ⊢
        rw [b3, List.mem_range'_1] at hi
        exact b4 i hi.1 (by omega)
      · exact c2 e he
    · rw [List.map_cons, c3]

/-! ### C17: host movement amount -/

theorem act_addL_subL_addL (a b d : List Int) (h1 : d.length = a.length) (h2 : b.length = a.length) :
    addL (subL a d) (addL b d) = addL a b := by
  induction a generalizing b d with
  | nil => cases d <;> cases b <;> simp_all [addL, subL]
  | cons x xs ih =>
    cases d with
    | nil => simp at h1
    | cons y ys =>
      cases b with
      | nil => simp at h2
      | cons z zs =>
        have := ih zs ys (by simpa using h1) (by simpa using h2)
        simp only [addL, subL, List.zipWith_cons_cons] at *
        rw [this]
        congr 1; omega

theorem act_moveHosts_amount (src dst : Cell) (count : Int) (d : ClassDraw) (dE dM : List Int)
    (hn : src.nonNeg = true) (ht : src.totalsOK = true)
    (hd : validClassDrawB src count d = true)
    (hE : d.e > 0 → ValidDraw src.e d.e dE) (hM : d.i > 0 → ValidDraw src.mort d.i dM)
    (hlenE : dst.e.length = src.e.length) (hlenM : dst.mort.length = src.mort.length) :
    (moveHosts src dst count d dE dM).2.2 = min count src.hosts ∧
    src.hosts - (moveHosts src dst count d dE dM).1.hosts = min count src.hosts ∧
    (moveHosts src dst count d dE dM).2.1.hosts - dst.hosts = min count src.hosts ∧
    addL (moveHosts src dst count d dE dM).1.e (moveHosts src dst count d dE dM).2.1.e = addL src.e dst.e ∧
    addL (moveHosts src dst count d dE dM).1.mort (moveHosts src dst count d dE dM).2.1.mort
      = addL src.mort dst.mort := by
  have hg := good_of_bool hn ht
  obtain ⟨hi, hs, he, hr, hsum⟩ := classDraw_of_bool hd
  obtain ⟨hdomE, hsumE⟩ := eDelta_facts hg he hE
  obtain ⟨hdomM, _⟩ := mDelta_facts hg hi hM
  have hth := hg.th
  have hte := hg.te
  have e1 := sumL_subL hdomE.length_eq
  have e2 := sumL_addL (a := dst.e) (hdomE.length_eq.trans hlenE.symm)
  rw [moveHosts_eq]
  unfold hostsMoved at hsum ⊢
  simp only [Cell.hosts]
  refine ⟨?_, ?_, ?_, act_addL_subL_addL _ _ _ hdomE.length_eq hlenE, act_addL_subL_addL _ _ _ hdomM.length_eq hlenM⟩
  · split <;> omega
  · split at hsum <;> omega
  · split at hsum <;> omega

/-! ### C04: generation, soil -/

theorem act_dispersersFromDet_facts (c : Cell) (lam : Rat) :
    (c.i ≤ 0 → c.dispersersFromDet lam = 0) ∧
    (0 < c.i → c.dispersersFromDet lam = lround (lam * c.i)) ∧
    (0 ≤ lam → 0 ≤ c.dispersersFromDet lam) := by
  unfold Cell.dispersersFromDet
  refine ⟨fun h => if_pos h, fun h => if_neg (by omega), fun h => ?_⟩
  split
  · exact Int.le_refl 0
  · exact lround_nonneg (Rat.mul_nonneg h (intCast_nonneg (by omega)))

theorem act_soilShare_facts (pct : Rat) (x : Int) (h0 : 0 ≤ pct) (h1 : pct ≤ 1) (hx : 0 ≤ x) :
    0 ≤ soilShare (some pct) x ∧ soilShare (some pct) x ≤ x ∧
    soilShare (some pct) x + (x - soilShare (some pct) x) = x ∧ soilShare none x = 0 := by
  have h := lround_share hx h0 h1
  simp only [soilShare]
  rw [Rat.mul_comm]
  exact ⟨h.1, h.2, by omega, trivial⟩

theorem act_soilNext_cons (x : Int) (xs : List Int) : soilNext (x :: xs) = xs ++ [0] := by
  simp only [soilNext, rotateLeft]
  split
  · rename_i h; simp at h
  · rw [List.dropLast_concat]

def act_SoilInv (n j : Nat) (l : List Int) : Prop :=
  l.length = n ∧ AllNN l ∧ ∀ k : Nat, k < n → n ≤ k + j → l[k]! = 0

theorem act_allNN_of_index {l : List Int} (h : ∀ k : Nat, k < l.length → 0 ≤ l[k]!) : AllNN l := by
  intro x hx
  obtain ⟨k, hk, rfl⟩ := List.mem_iff_getElem.mp hx
  have := h k hk
  rwa [getElem!_pos l k hk] at this

theorem act_soilInv_release {n j : Nat} {l : List Int} (release : List Int → List Int)
    (hrel : ∀ l : List Int, (release l).length = l.length ∧
        ∀ k : Nat, k < l.length → 0 ≤ l[k]! → (0 ≤ (release l)[k]! ∧ (release l)[k]! ≤ l[k]!))
    (h : act_SoilInv n j l) : act_SoilInv n j (release l) := by
  obtain ⟨h1, h2, h3⟩ := h
  obtain ⟨r1, r2⟩ := hrel l
  refine ⟨r1.trans h1, act_allNN_of_index ?_, ?_⟩
  · intro k hk
    exact (r2 k (by omega) (getElem!_nonneg h2 k)).1
  · intro k hk hj
    have := r2 k (by omega) (getElem!_nonneg h2 k)
    have := h3 k hk hj
    omega

theorem act_soilInv_next {n j : Nat} {l : List Int} (h : act_SoilInv n j l) : act_SoilInv n (j + 1) (soilNext l) := by
  obtain ⟨h1, h2, h3⟩ := h
  cases l with
  | nil =>
    refine ⟨h1, h2, ?_⟩
    intro k hk; simp at h1; omega
  | cons x xs =>
    rw [act_soilNext_cons]
    obtain ⟨hx, hxs⟩ := allNN_cons.mp h2
    simp only [List.length_cons] at h1
    refine ⟨by simp only [List.length_append, List.length_cons, List.length_nil]; omega,
      allNN_append.mpr ⟨hxs, allNN_cons.mpr ⟨Int.le_refl 0, allNN_nil⟩⟩, ?_⟩
    intro k hk hj
    rw [List.getElem!_eq_getElem?_getD]
    by_cases hkx : k < xs.length
    · rw [List.getElem?_append_left hkx]
      have := h3 (k + 1) (by omega) (by omega)
      rw [List.getElem!_cons_succ, List.getElem!_eq_getElem?_getD] at this
      exact this
    · rw [List.getElem?_append_right (by omega)]
      have : k - xs.length = 0 := by omega
      rw [this]; rfl

theorem act_soil_ages_out (cohorts : List Int) (release : List Int → List Int)
    (hrel : ∀ l : List Int, (release l).length = l.length ∧
        ∀ k : Nat, k < l.length → 0 ≤ l[k]! → (0 ≤ (release l)[k]! ∧ (release l)[k]! ≤ l[k]!))
    (hn : ∀ x ∈ cohorts, 0 ≤ x) :
    ∀ x ∈ iter (fun l => soilNext (release l)) cohorts.length cohorts, x = 0 := by
  have key : ∀ j : Nat, act_SoilInv cohorts.length j (iter (fun l => soilNext (release l)) j cohorts) := by
    intro j
    induction j with
    | zero => exact ⟨rfl, hn, fun k hk hj => by omega⟩
    | succ j ih =>
      rw [iter_succ_outer]
      exact act_soilInv_next (act_soilInv_release release hrel ih)
  obtain ⟨k1, _, k3⟩ := key cohorts.length
  intro x hx
  obtain ⟨k, hk, rfl⟩ := List.mem_iff_getElem.mp hx
  have := k3 k (by omega) (by omega)
  rwa [getElem!_pos _ k hk] at this

/-! ### C04: landing -/

theorem act_addDisperserAt_pos (mt : ModelType) (c : Cell) (h : 0 < c.s) :
    (c.addDisperserAt mt).2 = 1 ∧ (c.addDisperserAt mt).1.s = c.s - 1 ∧
    ((mt = .sei → c.e ≠ []) → (c.addDisperserAt mt).1.hosts = c.hosts) := by
  unfold Cell.addDisperserAt
  rw [if_neg (by omega)]
  cases mt with
  | si => exact ⟨rfl, rfl, fun _ => by simp only [Cell.hosts]; omega⟩
  | sei =>
    refine ⟨rfl, rfl, fun he => ?_⟩
    have := sumL_addLast 1 (he rfl)
    simp only [Cell.hosts]; omega

/-- Outcome of a landing: nothing happens, or one susceptible host is taken. -/
def act_LandOutcome (mt : ModelType) (c : Cell) (r : Cell × Int × Nat) : Prop :=
  (r.1 = c ∧ r.2.1 = 0) ∨ (0 < c.s ∧ r.1 = (c.addDisperserAt mt).1 ∧ r.2.1 = 1)

theorem act_disperserTo_outcome {mt : ModelType} {c : Cell} {env : EnvCell} {sto : Bool} {pEst u : Rat}
    {r : Cell × Int × Nat} (h : c.disperserTo mt env sto pEst u = .ok r) : act_LandOutcome mt c r := by
  unfold Cell.disperserTo at h
  split at h
  · injection h with h; subst h; exact Or.inl ⟨rfl, rfl⟩
  · rename_i hs0
    cases hs : c.suitability env with
    | error e => simp only [hs, bind, Except.bind] at h; cases h
    | ok p =>
      simp only [hs, bind, Except.bind, pure, Except.pure] at h
      split at h
      · injection h with h; subst h
        exact Or.inr ⟨by omega, rfl, (act_addDisperserAt_pos mt c (by omega)).1⟩
      · injection h with h; subst h; exact Or.inl ⟨rfl, rfl⟩

theorem act_landViaWrapper_outcome {mt : ModelType} {c : Cell} {env : EnvCell} {sto : Bool} {pEst u : Rat}
    {r : Cell × Int × Nat} (h : c.landViaWrapper mt env sto pEst u = .ok r) : act_LandOutcome mt c r := by
  unfold Cell.landViaWrapper at h
  cases hs : c.suitability env with
  | error e => simp only [hs, bind, Except.bind] at h; cases h
  | ok p =>
    simp only [hs, bind, Except.bind, pure, Except.pure] at h
    split at h
    · injection h with h; subst h; exact Or.inl ⟨rfl, rfl⟩
    · exact act_disperserTo_outcome h

theorem act_landOne_out (g : Grid) (env : DisperseEnv) (cells : List Cell) (p : PestState) (tr tc : Int)
    (us : List Rat) (ho : g.isOutside tr tc = true) :
    landOne g env cells p (tr, tc) us = .ok (cells, { p with outside := p.outside ++ [(tr, tc)] }, false, us) := by
  simp only [landOne, ho, if_true]

theorem act_landOne_in_ok (g : Grid) (env : DisperseEnv) (cells : List Cell) (p : PestState) (tr tc : Int)
    (us : List Rat) (ho : g.isOutside tr tc = false) (c' : Cell) (res : Int) (used : Nat)
    (hw : (cells[g.idx tr tc]!).landViaWrapper env.mt
      { n := env.npop[g.idx tr tc]!, w := env.w.map (·[g.idx tr tc]!), sus := none } env.stochastic env.pEst (us.headD 0)
        = .ok (c', res, used)) :
    landOne g env cells p (tr, tc) us =
      .ok (cells.set (g.idx tr tc) c', p, res == 1, if used = 0 then us else us.drop 1) := by
  simp only [landOne, ho, Bool.false_eq_true, if_false, hw]

theorem act_landOne_in_err (g : Grid) (env : DisperseEnv) (cells : List Cell) (p : PestState) (tr tc : Int)
    (us : List Rat) (ho : g.isOutside tr tc = false) (e : ErrKind)
    (hw : (cells[g.idx tr tc]!).landViaWrapper env.mt
      { n := env.npop[g.idx tr tc]!, w := env.w.map (·[g.idx tr tc]!), sus := none } env.stochastic env.pEst (us.headD 0)
        = .error e) :
    landOne g env cells p (tr, tc) us = .error e := by
  simp only [landOne, ho, Bool.false_eq_true, if_false, hw]

/-- What one landing does. -/
theorem act_landOne_facts (g : Grid) (env : DisperseEnv) (cells cells' : List Cell)
    (p p' : PestState) (tr tc : Int) (us us' : List Rat) (ok : Bool)
    (h : landOne g env cells p (tr, tc) us = .ok (cells', p', ok, us')) :
    (g.isOutside tr tc = true →
      cells' = cells ∧ p' = { p with outside := p.outside ++ [(tr, tc)] } ∧ ok = false) ∧
    (g.isOutside tr tc = false → p' = p ∧
      ((ok = false ∧ cells' = cells) ∨
       (ok = true ∧ g.idx tr tc < cells.length ∧ 0 < (cells[g.idx tr tc]!).s ∧
        cells' = cells.set (g.idx tr tc) ((cells[g.idx tr tc]!).addDisperserAt env.mt).1))) := by
  constructor
  · intro ho
    rw [act_landOne_out g env cells p tr tc us ho] at h
    injection h with h; injection h with h1 h; injection h with h2 h; injection h with h3 h
    exact ⟨h1.symm, h2.symm, h3.symm⟩
  · intro ho
    cases hw : (cells[g.idx tr tc]!).landViaWrapper env.mt
      { n := env.npop[g.idx tr tc]!, w := env.w.map (·[g.idx tr tc]!), sus := none } env.stochastic env.pEst (us.headD 0) with
    | error e => rw [act_landOne_in_err g env cells p tr tc us ho e hw] at h; cases h
    | ok r =>
      obtain ⟨c', res, used⟩ := r
      rw [act_landOne_in_ok g env cells p tr tc us ho c' res used hw] at h
      injection h with h; injection h with h1 h; injection h with h2 h; injection h with h3 h
      subst h1 h2 h3
      refine ⟨rfl, ?_⟩
      rcases act_landViaWrapper_outcome hw with ⟨e1, e2⟩ | ⟨e0, e1, e2⟩
      · left
        simp only at e1 e2
        subst e1 e2
        exact ⟨rfl, act_set_getElem!_self cells _⟩
      · right
        simp only at e1 e2
        subst e1 e2
        have hk : g.idx tr tc < cells.length := by
          by_cases hk : g.idx tr tc < cells.length
          · exact hk
          · rw [act_getElem!_ge (by omega)] at e0
            have : (default : Cell).s = 0 := rfl
            omega
        exact ⟨rfl, hk, e0, rfl⟩

theorem act_each_disperser_once (g : Grid) (env : DisperseEnv) (cells cells' : List Cell)
    (p p' : PestState) (t : Int × Int) (us us' : List Rat) (ok : Bool)
    (hdom : env.mt = .sei → ∀ c ∈ cells, c.e ≠ [])
    (h : landOne g env cells p t us = .ok (cells', p', ok, us')) :
    (g.isOutside t.1 t.2 = true → cells' = cells ∧ p'.outside = p.outside ++ [t] ∧ ok = false) ∧
    (g.isOutside t.1 t.2 = false → p' = p ∧ cells'.length = cells.length ∧
      (∀ k : Nat, k ≠ g.idx t.1 t.2 → cells'[k]? = cells[k]?) ∧
      (ok = true → (cells'[g.idx t.1 t.2]!).s = (cells[g.idx t.1 t.2]!).s - 1 ∧
          (cells'[g.idx t.1 t.2]!).hosts = (cells[g.idx t.1 t.2]!).hosts) ∧
      (ok = false → cells' = cells)) ∧
    p'.disp = p.disp ∧ p'.est = p.est := by
  obtain ⟨tr, tc⟩ := t
  obtain ⟨f1, f2⟩ := act_landOne_facts g env cells cells' p p' tr tc us us' ok h
  refine ⟨?_, ?_, ?_⟩
  · intro ho
    obtain ⟨a, b, c⟩ := f1 ho
    subst b
    exact ⟨a, rfl, c⟩
  · intro ho
    obtain ⟨a, b⟩ := f2 ho
    refine ⟨a, ?_⟩
    rcases b with ⟨b1, b2⟩ | ⟨b1, b2, b3, b4⟩
    · subst b1 b2
      exact ⟨rfl, fun _ _ => rfl, fun hc => (by cases hc), fun _ => rfl⟩
    · subst b1 b4
      have hp := act_addDisperserAt_pos env.mt (cells[g.idx tr tc]!) b3
      refine ⟨List.length_set, fun k hk => List.getElem?_set_ne (Ne.symm hk), fun _ => ?_, fun hc => (by cases hc)⟩
      simp only
      rw [act_getElem!_set_self _ _ b2]
      exact ⟨hp.2.1, hp.2.2 (fun hm => hdom hm _ (act_getElem!_mem b2))⟩
  · cases ho : g.isOutside tr tc with
    | true => obtain ⟨_, b, _⟩ := f1 ho; subst b; exact ⟨rfl, rfl⟩
    | false => obtain ⟨a, _⟩ := f2 ho; subst a; exact ⟨rfl, rfl⟩
/-! ### C04: ledger -/

theorem act_disperseCell_zero (g : Grid) (env : DisperseEnv) (origin : Nat) (cells : List Cell) (p : PestState)
    (ts : List (Int × Int)) (us : List Rat) :
    disperseCell g env origin 0 cells p ts us = .ok (cells, p, ts, us) := by
  simp only [disperseCell]

theorem act_disperseCell_nil (g : Grid) (env : DisperseEnv) (origin n : Nat) (cells : List Cell) (p : PestState)
    (us : List Rat) :
    disperseCell g env origin n cells p [] us = .ok (cells, p, [], us) := by
  cases n <;> simp only [disperseCell]

theorem act_disperseCell_step_err (g : Grid) (env : DisperseEnv) (origin n : Nat) (cells : List Cell) (p : PestState)
    (t : Int × Int) (ts : List (Int × Int)) (us : List Rat) (e : ErrKind)
    (hl : landOne g env cells p t us = .error e) :
    disperseCell g env origin (n + 1) cells p (t :: ts) us = .error e := by
  simp only [disperseCell, hl]

theorem act_disperseCell_step_ok (g : Grid) (env : DisperseEnv) (origin n : Nat) (cells : List Cell) (p : PestState)
    (t : Int × Int) (ts : List (Int × Int)) (us : List Rat)
    (cells1 : List Cell) (p1 : PestState) (ok : Bool) (us1 : List Rat)
    (hl : landOne g env cells p t us = .ok (cells1, p1, ok, us1)) :
    disperseCell g env origin (n + 1) cells p (t :: ts) us =
      disperseCell g env origin n cells1
        (if ok then { p1 with est := p1.est.set origin (p1.est[origin]! + 1) } else p1) ts us1 := by
  simp only [disperseCell, hl]

/-- A successful landing consumes exactly one susceptible host of the landscape. -/
theorem act_landOne_total (g : Grid) (env : DisperseEnv) (cells cells' : List Cell)
    (p p' : PestState) (t : Int × Int) (us us' : List Rat) (ok : Bool)
    (h : landOne g env cells p t us = .ok (cells', p', ok, us')) :
    p'.disp = p.disp ∧ p'.est = p.est ∧ cells'.length = cells.length ∧
    sumL (cells.map (·.s)) - sumL (cells'.map (·.s)) = if ok then 1 else 0 := by
  obtain ⟨tr, tc⟩ := t
  obtain ⟨f1, f2⟩ := act_landOne_facts g env cells cells' p p' tr tc us us' ok h
  cases ho : g.isOutside tr tc with
  | true =>
    obtain ⟨a, b, c⟩ := f1 ho
    subst a b c
    exact ⟨rfl, rfl, rfl, by simp⟩
  | false =>
    obtain ⟨a, b⟩ := f2 ho
    subst a
    rcases b with ⟨b1, b2⟩ | ⟨b1, b2, b3, b4⟩
    · subst b1 b2
      exact ⟨rfl, rfl, rfl, by simp⟩
    · subst b1 b4
      refine ⟨rfl, rfl, List.length_set, ?_⟩
      rw [sumL_map_set (·.s) cells _ _ _ (act_getElem?_eq_some_getElem! b2)]
      have := (act_addDisperserAt_pos env.mt (cells[g.idx tr tc]!) b3).2.1
      simp only [if_true]
      omega

theorem act_disperseCell_facts (g : Grid) (env : DisperseEnv) (origin n : Nat) (cells cells' : List Cell)
    (p p' : PestState) (ts ts' : List (Int × Int)) (us us' : List Rat)
    (ho : origin < p.est.length)
    (h : disperseCell g env origin n cells p ts us = .ok (cells', p', ts', us')) :
    ∃ m : Nat, m ≤ n ∧ p'.est = p.est.set origin (p.est[origin]! + (m : Int)) ∧
      sumL (cells.map (·.s)) - sumL (cells'.map (·.s)) = (m : Int) ∧
      p'.disp = p.disp ∧ cells'.length = cells.length ∧
      ∃ pre : List (Int × Int), ts = pre ++ ts' ∧ pre.length ≤ n := by
  induction n generalizing cells p ts us with
  | zero =>
    rw [act_disperseCell_zero] at h
    injection h with h; injection h with h1 h; injection h with h2 h; injection h with h3 h
    subst h1 h2 h3
    exact ⟨0, Nat.le_refl _, by rw [Int.natCast_zero, Int.add_zero, act_set_getElem!_self], by simp, rfl, rfl, [], rfl, Nat.le_refl _⟩
  | succ n ih =>
    cases ts with
    | nil =>
      rw [act_disperseCell_nil] at h
      injection h with h; injection h with h1 h; injection h with h2 h; injection h with h3 h
      subst h1 h2 h3
      exact ⟨0, Nat.zero_le _, by rw [Int.natCast_zero, Int.add_zero, act_set_getElem!_self], by simp, rfl, rfl, [], rfl, Nat.zero_le _⟩
    | cons t ts1 =>
      cases hl : landOne g env cells p t us with
      | error e => rw [act_disperseCell_step_err g env origin n cells p t ts1 us e hl] at h; cases h
      | ok r =>
        obtain ⟨cells1, p1, ok, us1⟩ := r
        rw [act_disperseCell_step_ok g env origin n cells p t ts1 us cells1 p1 ok us1 hl] at h
        obtain ⟨l1, l2, l3, l4⟩ := act_landOne_total g env cells cells1 p p1 t us us1 ok hl
        cases ok with
        | false =>
          simp only [Bool.false_eq_true, if_false] at h l4
          obtain ⟨m, m1, m2, m3, m4, m5, pre, m6, m7⟩ := ih cells1 p1 ts1 us1 (by rw [l2]; exact ho) h
          refine ⟨m, by omega, by rw [m2, l2], by omega, by rw [m4, l1], by rw [m5, l3], t :: pre, by rw [m6]; rfl, ?_⟩
          simp only [List.length_cons]; omega
        | true =>
          simp only [if_true] at h l4
          obtain ⟨m, m1, m2, m3, m4, m5, pre, m6, m7⟩ := ih cells1 _ ts1 us1
            (by simp only [List.length_set]; rw [l2]; exact ho) h
          simp only at m2 m4
          refine ⟨m + 1, by omega, ?_, by omega, by rw [m4, l1], by rw [m5, l3], t :: pre, by rw [m6]; rfl, ?_⟩
          · rw [m2, act_getElem!_set_self _ _ (by rw [l2]; exact ho), List.set_set, l2]
            congr 1
            omega
          · simp only [List.length_cons]; omega

theorem act_disperseGo_nil (g : Grid) (env : DisperseEnv) (cells : List Cell) (p : PestState)
    (ts : List (Int × Int)) (us : List Rat) :
    disperseGo g env [] cells p ts us = .ok (cells, p, ts, us) := by
  simp only [disperseGo]

theorem act_disperseGo_step_err (g : Grid) (env : DisperseEnv) (r c : Int) (rest : List (Int × Int))
    (cells : List Cell) (p : PestState) (ts : List (Int × Int)) (us : List Rat) (e : ErrKind)
    (hc : disperseCell g env (g.idx r c) (p.disp[g.idx r c]!).toNat cells p ts us = .error e) :
    disperseGo g env ((r, c) :: rest) cells p ts us = .error e := by
  simp only [disperseGo, hc]

theorem act_disperseGo_step_ok (g : Grid) (env : DisperseEnv) (r c : Int) (rest : List (Int × Int))
    (cells : List Cell) (p : PestState) (ts : List (Int × Int)) (us : List Rat)
    (cells1 : List Cell) (p1 : PestState) (ts1 : List (Int × Int)) (us1 : List Rat)
    (hc : disperseCell g env (g.idx r c) (p.disp[g.idx r c]!).toNat cells p ts us = .ok (cells1, p1, ts1, us1)) :
    disperseGo g env ((r, c) :: rest) cells p ts us = disperseGo g env rest cells1 p1 ts1 us1 := by
  simp only [disperseGo, hc]

theorem act_disperseGo_facts (g : Grid) (env : DisperseEnv) (suit : List (Int × Int)) (cells cells' : List Cell)
    (p p' : PestState) (ts ts' : List (Int × Int)) (us us' : List Rat)
    (hs : ∀ rc ∈ suit, g.idx rc.1 rc.2 < p.est.length)
    (h : disperseGo g env suit cells p ts us = .ok (cells', p', ts', us')) :
    sumL (cells.map (·.s)) - sumL (cells'.map (·.s)) = sumL p'.est - sumL p.est ∧ p'.disp = p.disp ∧
    p'.est.length = p.est.length := by
  induction suit generalizing cells p ts us with
  | nil =>
    rw [act_disperseGo_nil] at h
    injection h with h; injection h with h1 h; injection h with h2 h
    subst h1 h2
    exact ⟨by omega, rfl, rfl⟩
  | cons rc rest ih =>
    obtain ⟨r, c⟩ := rc
    have ho : g.idx r c < p.est.length := hs (r, c) (List.mem_cons_self ..)
    cases hc : disperseCell g env (g.idx r c) (p.disp[g.idx r c]!).toNat cells p ts us with
    | error e => rw [act_disperseGo_step_err g env r c rest cells p ts us e hc] at h; cases h
    | ok q =>
      obtain ⟨cells1, p1, ts1, us1⟩ := q
      rw [act_disperseGo_step_ok g env r c rest cells p ts us cells1 p1 ts1 us1 hc] at h
      obtain ⟨m, _, m2, m3, m4, _, _⟩ := act_disperseCell_facts g env _ _ cells cells1 p p1 ts ts1 us us1 ho hc
      have hlen : p1.est.length = p.est.length := by rw [m2, List.length_set]
      obtain ⟨a1, a2, a3⟩ := ih cells1 p1 ts1 us1
        (fun rc hrc => by rw [hlen]; exact hs rc (List.mem_cons_of_mem _ hrc)) h
      have hsum : sumL p1.est = sumL p.est + (m : Int) := by
        rw [m2, sumL_set _ _ _ ho]; omega
      exact ⟨by omega, by rw [a2, m4], by rw [a3, hlen]⟩

end Pops
