/-
  Helper lemmas for C11 (mortality).
-/
import PopsModel.Lemmas.HostMech2
namespace Pops

/-! ### one index of the mortality loop -/

/-- Hosts of a cohort of size `m` at position `idx` that die in one mortality action. -/
def mech_kill (rate : Rat) (m : Int) (idx : Nat) : Int :=
  if m ≤ 0 then 0 else if idx = 0 then m else rfloor (rate * m)

theorem mech_kill_nonneg (rate : Rat) (hr0 : 0 ≤ rate) (m : Int) (idx : Nat) :
    0 ≤ mech_kill rate m idx := by
  unfold mech_kill
  split
  · omega
  · split
    · omega
    · exact rfloor_nonneg (Rat.mul_nonneg hr0 (intCast_nonneg (by omega)))

theorem mech_kill_le (rate : Rat) (hr0 : 0 ≤ rate) (hr1 : rate ≤ 1) (m : Int) (idx : Nat)
    (hm : 0 ≤ m) : mech_kill rate m idx ≤ m := by
  unfold mech_kill
  split
  · omega
  · split
    · omega
    · rw [Rat.mul_comm]; exact (rfloor_share hm hr0 hr1).2

theorem mech_kill_nonpos (rate : Rat) (m : Int) (idx : Nat) (hm : m ≤ 0) : mech_kill rate m idx = 0 := by
  unfold mech_kill; simp only [hm, if_true]

/-- The cell after `k` hosts of cohort `idx` died. -/
def mech_killAt (c : Cell) (idx : Nat) (k : Int) : Cell :=
  { c with mort := c.mort.set idx (c.mort[idx]! - k), died := c.died + k, i := c.i - k, th := c.th - k }

theorem mech_getElem!_eq (l : List Int) (j : Nat) : l[j]! = l[j]?.getD 0 :=
  List.getElem!_eq_getElem?_getD

theorem mech_set_self (l : List Int) (idx : Nat) : l.set idx (l[idx]! - 0) = l := by
  apply List.ext_getElem?
  intro j
  rw [List.getElem?_set]
  by_cases h : idx = j
  · subst h
    by_cases hl : idx < l.length
    · simp only [if_true, hl, mech_getElem!_eq, List.getElem?_eq_getElem hl, Option.getD_some,
        Int.sub_zero]
    · simp only [if_true, hl, if_false]; rw [List.getElem?_eq_none (by omega)]
  · simp only [h, if_false]

theorem mech_killAt_zero (c : Cell) (idx : Nat) : mech_killAt c idx 0 = c := by
  unfold mech_killAt
  rw [mech_set_self]
  simp only [Int.add_zero, Int.sub_zero]

theorem mech_ite_sub (x k : Int) (h0 : 0 ≤ k) (h1 : ¬ k > x) : (if x > 0 then x - k else x) = x - k := by
  split <;> omega

theorem mech_mortIdx_of_ok (rate : Rat) (idx : Nat) (c c' : Cell) (hr0 : 0 ≤ rate)
    (h : mortalityAtIndex rate idx c = .ok c') :
    c' = mech_killAt c idx (mech_kill rate c.mort[idx]! idx) := by
  unfold mortalityAtIndex at h
  by_cases hm : c.mort[idx]! > 0
  · have hk : mech_kill rate c.mort[idx]! idx =
        if idx = 0 then c.mort[idx]! else rfloor (rate * c.mort[idx]!) := by
      unfold mech_kill; rw [if_neg (by omega)]
    have hk0 := mech_kill_nonneg rate hr0 c.mort[idx]! idx
    rw [hk] at hk0
    simp only [hm, if_true] at h
    rw [hk]
    generalize (if idx = 0 then c.mort[idx]! else rfloor (rate * c.mort[idx]!)) = k at h hk0
    by_cases h1 : k > c.i
    · simp only [h1, if_true] at h; cases h
    · by_cases h2 : k > c.th
      · simp only [h1, h2, if_true, if_false] at h; cases h
      · simp only [h1, h2, if_false, Except.ok.injEq] at h
        subst h
        unfold mech_killAt
        by_cases h3 : c.i > 0 <;> by_cases h4 : c.th > 0 <;>
          simp only [h3, h4, if_true, if_false, Cell.mk.injEq, true_and, and_true] <;> omega
  · simp only [hm, if_false, Except.ok.injEq] at h
    subst h
    rw [mech_kill_nonpos rate _ idx (by omega), mech_killAt_zero]

/-- What the mortality loop needs from a cell in order not to fail. -/
def mech_Good (c : Cell) : Prop := (∀ x ∈ c.mort, 0 ≤ x) ∧ c.i = sumL c.mort ∧ c.i ≤ c.th

theorem mech_getElem!_mem_or (l : List Int) (j : Nat) : l[j]! ∈ l ∨ l[j]! = 0 := by
  rw [mech_getElem!_eq]
  by_cases h : j < l.length
  · rw [List.getElem?_eq_getElem h]; exact Or.inl (List.getElem_mem h)
  · rw [List.getElem?_eq_none (by omega)]; exact Or.inr rfl

theorem mech_sumL_set (l : List Int) (idx : Nat) (k : Int) (h : idx < l.length ∨ k = 0) :
    sumL (l.set idx (l[idx]! - k)) = sumL l - k := by
  by_cases hl : idx < l.length
  · clear h
    induction l generalizing idx with
    | nil => simp at hl
    | cons x t ih => cases idx with
      | zero => simp only [List.set_cons_zero, sumL_cons, List.getElem!_cons_zero]; omega
      | succ n =>
        simp only [List.length_cons, Nat.add_lt_add_iff_right] at hl
        simp only [List.set_cons_succ, sumL_cons, List.getElem!_cons_succ, ih n hl]; omega
  · have : k = 0 := by omega
    subst this
    rw [mech_set_self]; omega

theorem mech_mortIdx_ok (rate : Rat) (idx : Nat) (c : Cell) (hr0 : 0 ≤ rate) (hr1 : rate ≤ 1)
    (hg : mech_Good c) :
    mortalityAtIndex rate idx c = .ok (mech_killAt c idx (mech_kill rate c.mort[idx]! idx)) ∧
    mech_Good (mech_killAt c idx (mech_kill rate c.mort[idx]! idx)) := by
  obtain ⟨hn, hi, hth⟩ := hg
  have hm0 : 0 ≤ c.mort[idx]! := by
    rcases mech_getElem!_mem_or c.mort idx with h | h
    · exact hn _ h
    · omega
  have hmle : c.mort[idx]! ≤ sumL c.mort := by
    rcases mech_getElem!_mem_or c.mort idx with h | h
    · exact mech_mem_le_sumL c.mort hn _ h
    · have := mech_sumL_nonneg c.mort hn; omega
  have hk0 := mech_kill_nonneg rate hr0 c.mort[idx]! idx
  have hk1 := mech_kill_le rate hr0 hr1 c.mort[idx]! idx hm0
  have hok : ∃ c', mortalityAtIndex rate idx c = .ok c' := by
    unfold mortalityAtIndex
    by_cases hm : c.mort[idx]! > 0
    · have hk : mech_kill rate c.mort[idx]! idx =
          if idx = 0 then c.mort[idx]! else rfloor (rate * c.mort[idx]!) := by
        unfold mech_kill; rw [if_neg (by omega)]
      rw [hk] at hk0 hk1
      simp only [hm, if_true]
      generalize (if idx = 0 then c.mort[idx]! else rfloor (rate * c.mort[idx]!)) = k at hk0 hk1
      have h1 : ¬ k > c.i := by omega
      have h2 : ¬ k > c.th := by omega
      simp only [h1, h2, if_false]
      exact ⟨_, rfl⟩
    · simp only [hm, if_false]; exact ⟨_, rfl⟩
  obtain ⟨c', hc'⟩ := hok
  have := mech_mortIdx_of_ok rate idx c c' hr0 hc'
  subst this
  refine ⟨hc', ?_, ?_, ?_⟩
  · intro x hx
    simp only [mech_killAt] at hx
    rcases List.mem_or_eq_of_mem_set hx with h | h
    · exact hn x h
    · omega
  · have hidx : idx < c.mort.length ∨ mech_kill rate c.mort[idx]! idx = 0 := by
      by_cases hl : idx < c.mort.length
      · exact Or.inl hl
      · right
        apply mech_kill_nonpos
        rw [mech_getElem!_eq, List.getElem?_eq_none (by omega)]; simp
    simp only [mech_killAt]
    rw [mech_sumL_set _ _ _ hidx]; omega
  · simp only [mech_killAt]; omega

/-! ### the mortality loop -/

/-- Total killed at the cohorts `< n`. -/
def mech_KS (rate : Rat) (mort : List Int) : Nat → Int
  | 0 => 0
  | n + 1 => mech_KS rate mort n + mech_kill rate mort[n]! n

/-- The loop of `apply_mortality_at` over a list of indices. -/
def mech_loop (rate : Rat) (l : List Nat) (c : Cell) : Except ErrKind Cell :=
  l.foldlM (fun c idx => mortalityAtIndex rate idx c) c

theorem mech_loop_nil (rate : Rat) (c : Cell) : mech_loop rate [] c = .ok c := rfl

theorem mech_loop_cons (rate : Rat) (a : Nat) (l : List Nat) (c : Cell) :
    mech_loop rate (a :: l) c = (mortalityAtIndex rate a c).bind (mech_loop rate l) := by
  unfold mech_loop; rw [List.foldlM_cons]; rfl

theorem mech_loop_snoc (rate : Rat) (a : Nat) (l : List Nat) (c : Cell) :
    mech_loop rate (l ++ [a]) c = (mech_loop rate l c).bind (mortalityAtIndex rate a) := by
  induction l generalizing c with
  | nil =>
    rw [List.nil_append, mech_loop_cons, mech_loop_nil]
    show _ = mortalityAtIndex rate a c
    cases mortalityAtIndex rate a c <;> rfl
  | cons b t ih =>
    simp only [List.cons_append, mech_loop_cons]
    cases mortalityAtIndex rate b c with
    | error e => rfl
    | ok c1 => exact ih c1

theorem mech_loop_good (rate : Rat) (hr0 : 0 ≤ rate) (hr1 : rate ≤ 1) (l : List Nat) :
    ∀ c, mech_Good c → ∃ c', mech_loop rate l c = .ok c' ∧ mech_Good c' := by
  induction l with
  | nil => intro c hg; exact ⟨c, rfl, hg⟩
  | cons a t ih =>
    intro c hg
    obtain ⟨h1, h2⟩ := mech_mortIdx_ok rate a c hr0 hr1 hg
    obtain ⟨c', h3, h4⟩ := ih _ h2
    refine ⟨c', ?_, h4⟩
    rw [mech_loop_cons, h1]; exact h3

theorem mech_set_getElem? (l : List Int) (n j : Nat) (f : Int → Int) :
    (l.set n (f l[n]!))[j]? = if j = n then l[n]?.map f else l[j]? := by
  rw [List.getElem?_set]
  by_cases h : n = j
  · subst h
    by_cases hl : n < l.length
    · simp only [if_true, hl, mech_getElem!_eq, List.getElem?_eq_getElem hl, Option.getD_some,
        Option.map_some]
    · simp only [if_true, hl, if_false]; rw [List.getElem?_eq_none (by omega)]; rfl
  · have h' : ¬ j = n := fun e => h e.symm
    simp only [h, h', if_false]

/-- State of the loop after the indices `< n`, relative to the state `c0` it started from. -/
def mech_LoopInv (rate : Rat) (c0 : Cell) (n : Nat) (c' : Cell) : Prop :=
  (∀ j, c'.mort[j]? = (c0.mort[j]?).map (fun m => m - (if j < n then mech_kill rate m j else 0))) ∧
  c'.died = c0.died + mech_KS rate c0.mort n ∧ c'.i = c0.i - mech_KS rate c0.mort n ∧
  c'.th = c0.th - mech_KS rate c0.mort n ∧ c'.s = c0.s ∧ c'.e = c0.e ∧ c'.r = c0.r ∧ c'.te = c0.te ∧
  c'.died + sumL c'.mort = c0.died + sumL c0.mort

theorem mech_loop_inv (rate : Rat) (hr0 : 0 ≤ rate) (c0 : Cell) (n : Nat) :
    ∀ c', mech_loop rate (List.range n) c0 = .ok c' → mech_LoopInv rate c0 n c' := by
  induction n with
  | zero =>
    intro c' h
    simp only [List.range_zero, mech_loop_nil, Except.ok.injEq] at h
    subst h
    refine ⟨?_, ?_, ?_, ?_, rfl, rfl, rfl, rfl, rfl⟩
    · intro j
      simp only [Nat.not_lt_zero, if_false, Int.sub_zero]
      cases c0.mort[j]? <;> rfl
    all_goals simp only [mech_KS]; omega
  | succ n ih =>
    intro c' h
    rw [List.range_succ, mech_loop_snoc] at h
    cases hcn : mech_loop rate (List.range n) c0 with
    | error e => rw [hcn] at h; cases h
    | ok cn =>
      rw [hcn] at h
      have hstep : mortalityAtIndex rate n cn = .ok c' := h
      obtain ⟨i1, i2, i3, i4, i5, i6, i7, i8, i9⟩ := ih cn hcn
      have hc' := mech_mortIdx_of_ok rate n cn c' hr0 hstep
      have hmn : cn.mort[n]! = c0.mort[n]! := by
        rw [mech_getElem!_eq, mech_getElem!_eq, i1 n]
        simp only [Nat.lt_irrefl, if_false, Int.sub_zero]
        cases c0.mort[n]? <;> rfl
      have hidx : n < cn.mort.length ∨ mech_kill rate cn.mort[n]! n = 0 := by
        by_cases hl : n < cn.mort.length
        · exact Or.inl hl
        · right
          apply mech_kill_nonpos
          rw [mech_getElem!_eq, List.getElem?_eq_none (by omega)]; simp
      subst hc'
      refine ⟨?_, ?_, ?_, ?_, i5, i6, i7, i8, ?_⟩
      · intro j
        have : (mech_killAt cn n (mech_kill rate cn.mort[n]! n)).mort =
            cn.mort.set n ((fun m => m - mech_kill rate m n) cn.mort[n]!) := rfl
        rw [this, mech_set_getElem? cn.mort n j (fun m => m - mech_kill rate m n)]
        by_cases hj : j = n
        · subst hj
          simp only [if_true, i1 j, Nat.lt_irrefl, if_false, Int.sub_zero, Nat.lt_succ_self,
            Option.map_map]
          cases c0.mort[j]? <;> simp
        · have e1 : (j < n + 1) ↔ (j < n) := by omega
          simp only [hj, if_false, i1 j, e1]
      · simp only [mech_killAt, mech_KS, i2, hmn]; omega
      · simp only [mech_killAt, mech_KS, i3, hmn]; omega
      · simp only [mech_killAt, mech_KS, i4, hmn]; omega
      · simp only [mech_killAt]
        rw [mech_sumL_set _ _ _ hidx]; omega

/-! ### C11: who dies -/

theorem mech_subL_range_get (l : List Int) (g : Nat → Int) (j : Nat) :
    (subL l ((List.range l.length).map g))[j]? = l[j]?.map (fun m => m - g j) := by
  unfold subL
  rw [List.getElem?_zipWith, List.getElem?_map]
  by_cases h : j < l.length
  · rw [List.getElem?_range h, List.getElem?_eq_getElem h]; rfl
  · rw [List.getElem?_eq_none (l := l) (by omega)]; rfl

theorem mech_sum_cut (rate : Rat) (mort : List Int) (n len : Nat) :
    sumL ((List.range len).map (fun k => if k < n then mech_kill rate mort[k]! k else 0)) =
      mech_KS rate mort (min n len) := by
  induction len with
  | zero => simp [mech_KS]
  | succ len ih =>
    rw [List.range_succ, List.map_append, sumL_append, ih]
    simp only [List.map_cons, List.map_nil, sumL_cons, sumL_nil]
    by_cases h : len < n
    · have e1 : min n len = len := by omega
      have e2 : min n (len + 1) = len + 1 := by omega
      rw [e1, e2, if_pos h]; simp only [mech_KS]; omega
    · have e1 : min n len = n := by omega
      have e2 : min n (len + 1) = n := by omega
      rw [e1, e2, if_neg h]; omega

theorem mech_Good_of_consistent (c : Cell) (hn : c.nonNeg = true) (ht : c.totalsOK = true)
    (hm : c.mortOK = true) : mech_Good c := by
  obtain ⟨hs, he, _, hr, _, hmn, _, _⟩ := (mech_nonNeg_iff c).mp hn
  obtain ⟨t1, _⟩ := (mech_totalsOK_iff c).mp ht
  have := mech_sumL_nonneg c.e he
  exact ⟨hmn, (mech_mortOK_iff c).mp hm, by omega⟩

theorem mech_applyMortality_pos (c : Cell) (rate : Rat) (lag : Int) (h : ¬ rate ≤ 0) :
    c.applyMortality rate lag =
      mech_loop rate (List.range ((c.mort.length : Int) - lag - 1 + 1).toNat) c := by
  unfold Cell.applyMortality mech_loop
  simp only [h, if_false]

theorem mech_C11_who_dies_zero (c : Cell) (rate : Rat) (lag : Int) (hr : rate ≤ 0) :
    ∃ c', (CellOp.mortality rate lag).apply c = .ok c' ∧ mortalitySpec rate lag c c' = true := by
  refine ⟨c.stepForwardMortality, ?_, ?_⟩
  · simp only [CellOp.apply, Cell.applyMortality, hr, if_true]; rfl
  · have hk : subL c.mort ((List.range c.mort.length).map (fun _ => (0 : Int))) = c.mort := by
      apply List.ext_getElem?
      intro j
      rw [mech_subL_range_get]
      cases c.mort[j]? <;> simp
    have hz : sumL ((List.range c.mort.length).map (fun _ => (0 : Int))) = 0 :=
      mech_sumL_zero _ (by intro x hx; simp at hx; exact hx.2.symm)
    simp only [mortalitySpec, hr, if_true, hk, hz, Cell.stepForwardMortality, Int.add_zero,
      Int.sub_zero, decide_true, Bool.and_self]

theorem mech_C11_who_dies_pos (c : Cell) (rate : Rat) (lag : Int) (hr0 : ¬ rate ≤ 0) (hr1 : rate ≤ 1)
    (hl : 0 ≤ lag) (hg : mech_Good c) :
    ∃ c', (CellOp.mortality rate lag).apply c = .ok c' ∧ mortalitySpec rate lag c c' = true := by
  have hr0' : 0 ≤ rate := Rat.le_of_lt (Rat.not_le.mp hr0)
  obtain ⟨cN, hloop, _⟩ := mech_loop_good rate hr0' hr1
    (List.range ((c.mort.length : Int) - lag - 1 + 1).toNat) c hg
  obtain ⟨i1, i2, i3, i4, i5, i6, i7, i8, _⟩ := mech_loop_inv rate hr0' c _ cN hloop
  refine ⟨cN.stepForwardMortality, ?_, ?_⟩
  · simp only [CellOp.apply, mech_applyMortality_pos c rate lag hr0, hloop]; rfl
  · have hN : ((c.mort.length : Int) - lag - 1 + 1).toNat ≤ c.mort.length := by omega
    generalize hNdef : ((c.mort.length : Int) - lag - 1 + 1).toNat = N at *
    have hg' : (fun (k : Nat) =>
        let m : Int := c.mort[k]!
        if rate ≤ 0 then 0
        else if ((k : Nat) : Int) > (c.mort.length : Int) - lag - 1 then 0
        else if m ≤ 0 then 0
        else if k = 0 then m else rfloor (rate * m)) =
        (fun k => if k < N then mech_kill rate c.mort[k]! k else 0) := by
      funext k
      simp only [hr0, if_false, mech_kill]
      by_cases hk : k < N
      · have : ¬ ((k : Int) > (c.mort.length : Int) - lag - 1) := by omega
        simp only [this, if_false, hk, if_true]
      · have : ((k : Int) > (c.mort.length : Int) - lag - 1) := by omega
        simp only [this, if_true, hk, if_false]
    have hmort : cN.mort = subL c.mort ((List.range c.mort.length).map
        (fun k => if k < N then mech_kill rate c.mort[k]! k else 0)) := by
      apply List.ext_getElem?
      intro j
      rw [mech_subL_range_get, i1 j, mech_getElem!_eq]
      cases c.mort[j]? <;> rfl
    have hsum := mech_sum_cut rate c.mort N c.mort.length
    have e1 : min N c.mort.length = N := by omega
    rw [e1] at hsum
    simp only [mortalitySpec, hg', hsum, ← hmort, Cell.stepForwardMortality, i2, i3, i4, i5, i6, i7,
      i8, decide_true, Bool.and_self]

theorem mech_C11_who_dies (c : Cell) (rate : Rat) (lag : Int) (hr1 : rate ≤ 1) (hl : 0 ≤ lag)
    (hn : c.nonNeg = true) (ht : c.totalsOK = true) (hm : c.mortOK = true) :
    ∃ c', (CellOp.mortality rate lag).apply c = .ok c' ∧ mortalitySpec rate lag c c' = true := by
  by_cases hr : rate ≤ 0
  · exact mech_C11_who_dies_zero c rate lag hr
  · exact mech_C11_who_dies_pos c rate lag hr hr1 hl (mech_Good_of_consistent c hn ht hm)

theorem mech_C11_rate_zero (c : Cell) (lag : Int) :
    (CellOp.mortality 0 lag).apply c = .ok c.stepForwardMortality := by
  have : (0 : Rat) ≤ 0 := by decide
  simp only [CellOp.apply, Cell.applyMortality, this, if_true]; rfl

/-! ### C11: eventual death -/

theorem mech_Dom_of_pointwise (l : List Int) : ∀ (l' : List Int) (g : Nat → Int → Int),
    (∀ j, l'[j]? = l[j]?.map (g j)) → (∀ j m, 0 ≤ m → 0 ≤ g j m ∧ g j m ≤ m) →
    (∀ x ∈ l, 0 ≤ x) → mech_Dom l' l := by
  induction l with
  | nil =>
    intro l' g h _ _
    cases l' with
    | nil => trivial
    | cons y t' => have := h 0; simp at this
  | cons x t ih =>
    intro l' g h hg hn
    cases l' with
    | nil => have := h 0; simp at this
    | cons y t' =>
      have h0 := h 0
      simp only [List.getElem?_cons_zero, Option.map_some, Option.some.injEq] at h0
      have hx := hn x (by simp)
      have := hg 0 x hx
      refine ⟨by omega, by omega, ih t' (fun j => g (j + 1)) ?_ (fun j m hm => hg (j + 1) m hm)
        (fun z hz => hn z (by simp [hz]))⟩
      intro j
      have := h (j + 1)
      simpa only [List.getElem?_cons_succ] using this

theorem mech_Dom_nonneg (d m : List Int) (h : mech_Dom d m) : ∀ x ∈ d, 0 ≤ x := by
  induction d generalizing m with
  | nil => intro x hx; simp at hx
  | cons y t ih => cases m with
    | nil => exact h.elim
    | cons z t' =>
      intro x hx
      rcases List.mem_cons.mp hx with rfl | hx
      · exact h.1
      · exact ih t' h.2.2 x hx

theorem mech_Dom_drop_le (d m : List Int) (h : mech_Dom d m) (r : Nat) :
    sumL (d.drop r) ≤ sumL (m.drop r) := by
  induction d generalizing m r with
  | nil => cases m with
    | nil => simp
    | cons z t' => exact h.elim
  | cons y t ih => cases m with
    | nil => exact h.elim
    | cons z t' => cases r with
      | zero =>
        have := ih t' h.2.2 0
        simp only [List.drop_zero, sumL_cons] at *
        have := h.2.1; omega
      | succ r' => simp only [List.drop_succ_cons]; exact ih t' h.2.2 r'

theorem mech_addLast_snoc (l : List Int) (y k : Int) : addLast (l ++ [y]) k = l ++ [y + k] := by
  induction l with
  | nil => rfl
  | cons x t ih => cases t with
    | nil => rfl
    | cons z t' =>
      simp only [List.cons_append, addLast] at *
      rw [ih]

/-- One whole mortality action (loop, then ageing) that succeeded, seen on the cohorts. -/
theorem mech_mort_step (c c1 : Cell) (rate : Rat) (lag : Int) (hr0 : 0 < rate) (hr1 : rate ≤ 1)
    (x0 : Int) (t : List Int) (hc : c.mort = x0 :: t)
    (hl : lag < (c.mort.length : Int)) (hnn : ∀ x ∈ c.mort, 0 ≤ x)
    (h : (CellOp.mortality rate lag).apply c = .ok c1) :
    ∃ t', c1.mort = t' ++ [0] ∧ mech_Dom t' t ∧ c1.died = c.died + (sumL c.mort - sumL t') := by
  have hr0' : 0 ≤ rate := Rat.le_of_lt hr0
  have hrn : ¬ rate ≤ 0 := Rat.not_le.mpr hr0
  simp only [CellOp.apply, mech_applyMortality_pos c rate lag hrn] at h
  have hNpos : 0 < ((c.mort.length : Int) - lag - 1 + 1).toNat := by omega
  generalize ((c.mort.length : Int) - lag - 1 + 1).toNat = N at *
  cases hloop : mech_loop rate (List.range N) c with
  | error e => rw [hloop] at h; cases h
  | ok cN =>
    rw [hloop] at h
    have hc1 : c1 = cN.stepForwardMortality := by
      have : Except.ok (cN.stepForwardMortality) = Except.ok (ε := ErrKind) c1 := h
      simp only [Except.ok.injEq] at this
      exact this.symm
    obtain ⟨i1, _, _, _, _, _, _, _, i9⟩ := mech_loop_inv rate hr0' c N cN hloop
    have hdom : mech_Dom cN.mort c.mort := by
      apply mech_Dom_of_pointwise c.mort cN.mort
        (fun j m => m - (if j < N then mech_kill rate m j else 0)) i1 ?_ hnn
      intro j m hm
      have a := mech_kill_nonneg rate hr0' m j
      have b := mech_kill_le rate hr0' hr1 m j hm
      split <;> omega
    have h0 := i1 0
    rw [hc] at hdom h0
    cases hcN : cN.mort with
    | nil => rw [hcN] at hdom; exact hdom.elim
    | cons y t' =>
      rw [hcN] at hdom h0
      simp only [List.getElem?_cons_zero, Option.map_some, Option.some.injEq, hNpos, if_true] at h0
      have hx0 : 0 ≤ x0 := hnn x0 (by rw [hc]; simp)
      have hy : y = 0 := by
        rw [h0]; unfold mech_kill
        by_cases hx : x0 ≤ 0
        · rw [if_pos hx]; omega
        · rw [if_neg hx]; simp
      subst hy
      refine ⟨t', ?_, hdom.2.2, ?_⟩
      · rw [hc1]; simp only [Cell.stepForwardMortality, hcN, rotateLeft]
      · rw [hc1]; simp only [Cell.stepForwardMortality]
        rw [hcN] at i9; simp only [sumL_cons] at i9; omega

theorem mech_run_inv (rate : Rat) (lag : Int) (run : List Int → Cell → Except ErrKind Cell)
    (h0 : ∀ c, run [] c = .ok c)
    (h1 : ∀ a rest c, run (a :: rest) c = ((CellOp.mortality rate lag).apply c).bind
      (fun c1 => run rest { c1 with s := c1.s - a, i := c1.i + a, mort := addLast c1.mort a }))
    (hr0 : 0 < rate) (hr1 : rate ≤ 1) (hl0 : 0 ≤ lag) (c' : Cell) (adds : List Int) :
    ∀ (cj : Cell) (B : Int), (∀ a ∈ adds, 0 ≤ a) → adds.length ≤ cj.mort.length →
      lag < (cj.mort.length : Int) → (∀ x ∈ cj.mort, 0 ≤ x) → sumL (cj.mort.drop adds.length) ≤ B →
      run adds cj = .ok c' →
      sumL c'.mort ≤ B + sumL adds ∧ c'.died + sumL c'.mort = cj.died + sumL cj.mort + sumL adds := by
  induction adds with
  | nil =>
    intro cj B _ _ _ _ hB h
    rw [h0] at h
    simp only [Except.ok.injEq] at h
    subst h
    simp only [List.length_nil, List.drop_zero, sumL_nil] at *
    omega
  | cons a rest ih =>
    intro cj B hadds hlen hlag hnn hB h
    rw [h1] at h
    cases happ : (CellOp.mortality rate lag).apply cj with
    | error e => rw [happ] at h; cases h
    | ok c1 =>
      rw [happ] at h
      have hrun : run rest { c1 with s := c1.s - a, i := c1.i + a, mort := addLast c1.mort a } = .ok c' := h
      cases hcj : cj.mort with
      | nil => rw [hcj] at hlag; simp at hlag; omega
      | cons x0 t =>
        obtain ⟨t', e1, hdom, e3⟩ := mech_mort_step cj c1 rate lag hr0 hr1 x0 t hcj hlag hnn happ
        have ha : 0 ≤ a := hadds a (by simp)
        have htl := mech_Dom_length t' t hdom
        have hm2 : addLast c1.mort a = t' ++ [a] := by
          rw [e1, mech_addLast_snoc]; simp
        rw [hm2] at hrun
        rw [hcj] at hlen hlag hB
        simp only [List.length_cons, List.drop_succ_cons] at hlen hlag hB
        have hdrop : (t' ++ [a]).drop rest.length = t'.drop rest.length ++ [a] :=
          List.drop_append_of_le_length (by omega)
        have hle := mech_Dom_drop_le t' t hdom rest.length
        have hnn' : ∀ x ∈ t' ++ [a], 0 ≤ x := by
          intro x hx
          rcases List.mem_append.mp hx with hx | hx
          · exact mech_Dom_nonneg t' t hdom x hx
          · simp at hx; omega
        obtain ⟨r1, r2⟩ := ih { c1 with s := c1.s - a, i := c1.i + a, mort := t' ++ [a] } (B + a)
          (fun z hz => hadds z (by simp [hz]))
          (by simp only [List.length_append, List.length_cons, List.length_nil]; omega)
          (by simp only [List.length_append, List.length_cons, List.length_nil]; omega)
          hnn'
          (by simp only [hdrop, sumL_append, sumL_cons, sumL_nil]; omega)
          hrun
        have hs : sumL cj.mort = x0 + sumL t := by rw [hcj, sumL_cons]
        simp only [sumL_append, sumL_cons, sumL_nil] at r1 r2 ⊢
        omega

theorem mech_C11_eventual_death (rate : Rat) (lag : Int) (run : List Int → Cell → Except ErrKind Cell)
    (h0 : ∀ c, run [] c = .ok c)
    (h1 : ∀ a rest c, run (a :: rest) c = ((CellOp.mortality rate lag).apply c).bind
      (fun c1 => run rest { c1 with s := c1.s - a, i := c1.i + a, mort := addLast c1.mort a }))
    (c c' : Cell) (adds : List Int)
    (hr0 : 0 < rate) (hr1 : rate ≤ 1) (hl0 : 0 ≤ lag) (hl : lag < c.mort.length)
    (hn : c.nonNeg = true) (hm : c.mortOK = true)
    (hadds : ∀ a ∈ adds, 0 ≤ a) (hlen : adds.length = c.mort.length)
    (h : run adds c = .ok c') :
    sumL c'.mort ≤ sumL adds ∧ c.i ≤ c'.died - c.died := by
  obtain ⟨_, _, _, _, _, hmn, _, _⟩ := (mech_nonNeg_iff c).mp hn
  have hm' := (mech_mortOK_iff c).mp hm
  obtain ⟨r1, r2⟩ := mech_run_inv rate lag run h0 h1 hr0 hr1 hl0 c' adds c 0 hadds (by omega) hl hmn
    (by rw [hlen, List.drop_length]; simp) h
  omega

end Pops
