/-
  C11 with other actions acting on the mortality cohorts between mortality steps.

  Definitions (history datatype `MortOp`, what each entry does to the mortality cohorts, traces) and
  the lemmas behind Props/C11Removals.lean. In a real run the mortality cohorts of a cell are touched
  by: the mortality action; additions to the youngest cohort (SI landings, the SEI latency step);
  additions cohort by cohort (host movement INTO the cell: `move_hosts_from_to` adds the drawn
  hosts to the cohort of the same index, it does not put them in the youngest cohort); and removals
  cohort by cohort (lethal temperature, survival rate, treatments, host movement out of the cell).
-/
import PopsModel.Lemmas.HostMech3
import PopsModel.Lemmas.HostMech4
import PopsModel.Lemmas.HostInv
namespace Pops

/-! ### histories -/

/-- What can happen to the mortality cohorts of a cell. -/
inductive MortOp where
  | mortality                 -- the mortality action (apply, then age)
  | add (x : Int)             -- `x ≥ 0` hosts join the youngest cohort
  | arrive (d : List Int)     -- `d_k ≥ 0` hosts join cohort `k` (host movement into the cell)
  | remove (d : List Int)     -- `0 ≤ d_k ≤ cohort_k` hosts leave cohort `k`
deriving Repr

def MortOp.added : MortOp → Int
  | .mortality => 0
  | .add x => x
  | .arrive d => sumL d
  | .remove _ => 0

def MortOp.removed : MortOp → Int
  | .mortality => 0
  | .add _ => 0
  | .arrive _ => 0
  | .remove d => sumL d

/-- Hosts added to the cohorts along a history. -/
def addedBy : List MortOp → Int
  | [] => 0
  | op :: rest => op.added + addedBy rest

/-- Hosts taken out of the cohorts (other than by death) along a history. -/
def removedBy : List MortOp → Int
  | [] => 0
  | op :: rest => op.removed + removedBy rest

/-- Number of mortality steps of a history. -/
def mortSteps : List MortOp → Nat
  | [] => 0
  | .mortality :: rest => mortSteps rest + 1
  | .add _ :: rest => mortSteps rest
  | .arrive _ :: rest => mortSteps rest
  | .remove _ :: rest => mortSteps rest

/-- The part of a history from the first of its last `n` mortality steps on (the whole history from
    its first mortality step on when it has at most `n` of them). -/
def lastMortWindow (n : Nat) : List MortOp → List MortOp
  | [] => []
  | .mortality :: rest => if mortSteps rest < n then .mortality :: rest else lastMortWindow n rest
  | .add _ :: rest => lastMortWindow n rest
  | .arrive _ :: rest => lastMortWindow n rest
  | .remove _ :: rest => lastMortWindow n rest

/-- One entry of a history relates the cell before and after, as far as the mortality cohorts and
    the `died` count are concerned (every other field is left open: the concrete actions differ
    there). A removal takes from each cohort at most what it holds and nothing negative. -/
def MortOp.rel (rate : Rat) (lag : Int) : MortOp → Cell → Cell → Prop
  | .mortality, c, c' => (CellOp.mortality rate lag).apply c = .ok c'
  | .add x, c, c' => 0 ≤ x ∧ c'.mort = addLast c.mort x ∧ c'.died = c.died
  | .arrive d, c, c' =>
      d.length = c.mort.length ∧ (∀ x ∈ d, 0 ≤ x) ∧ c'.mort = addL c.mort d ∧ c'.died = c.died
  | .remove d, c, c' =>
      d.length = c.mort.length ∧ (∀ k : Nat, k < d.length → 0 ≤ d[k]! ∧ d[k]! ≤ c.mort[k]!) ∧
      c'.mort = subL c.mort d ∧ c'.died = c.died

/-- The infected count follows the cohorts (what keeps `i = sum mort`). -/
def MortOp.keepsI : MortOp → Cell → Cell → Prop
  | .mortality, _, _ => True
  | .add x, c, c' => c'.i = c.i + x
  | .arrive d, c, c' => c'.i = c.i + sumL d
  | .remove d, c, c' => c'.i = c.i - sumL d

/-- A history leads from `c` to `c'` through cells related step by step by `R`. -/
def MortTrace (R : MortOp → Cell → Cell → Prop) : List MortOp → Cell → Cell → Prop
  | [], c, c' => c' = c
  | op :: rest, c, c' => ∃ c1, R op c c1 ∧ MortTrace R rest c1 c'

theorem MortTrace.mono {R R' : MortOp → Cell → Cell → Prop} (hR : ∀ op a b, R op a b → R' op a b) :
    ∀ (ops : List MortOp) (c c' : Cell), MortTrace R ops c c' → MortTrace R' ops c c'
  | [], _, _, h => h
  | _ :: rest, _, _, ⟨c1, h1, h2⟩ => ⟨c1, hR _ _ _ h1, MortTrace.mono hR rest _ _ h2⟩

/-- Equality of a run's result with an expected cell, reduced to a decidable check (`Except` has no
    `DecidableEq`; used for concrete instances). -/
theorem mortc_ok_of_check {b : Cell} {x : Except ErrKind Cell}
    (h : (match x with | .ok c => decide (c = b) | .error _ => false) = true) : x = .ok b := by
  cases x with
  | ok c => simp only [decide_eq_true_eq] at h; rw [h]
  | error e => cases h

/-! ### list facts -/

theorem mortc_index_of_Dom (d m : List Int) (h : mech_Dom d m) :
    ∀ k : Nat, k < d.length → 0 ≤ d[k]! ∧ d[k]! ≤ m[k]! := by
  induction d generalizing m with
  | nil => intro k hk; simp at hk
  | cons x xs ih => cases m with
    | nil => exact h.elim
    | cons y ys =>
      intro k hk
      cases k with
      | zero => simp only [List.getElem!_cons_zero]; exact ⟨h.1, h.2.1⟩
      | succ k' =>
        simp only [List.getElem!_cons_succ]
        exact ih ys h.2.2 k' (by simp only [List.length_cons] at hk; omega)

theorem mortc_Dom_map (l : List Int) (f : Int → Int) (hl : ∀ x ∈ l, 0 ≤ x)
    (hf : ∀ x, 0 ≤ x → 0 ≤ f x ∧ f x ≤ x) : mech_Dom (l.map f) l := by
  induction l with
  | nil => trivial
  | cons x xs ih =>
    have hx := hl x (by simp)
    exact ⟨(hf x hx).1, (hf x hx).2, ih (fun z hz => hl z (by simp [hz]))⟩

theorem mortc_subL_zero (m d : List Int) (hz : ∀ x ∈ d, x = 0) (hl : d.length = m.length) :
    subL m d = m := by
  induction m generalizing d with
  | nil => cases d with
    | nil => rfl
    | cons y ys => simp at hl
  | cons x xs ih => cases d with
    | nil => simp at hl
    | cons y ys =>
      have hy : y = 0 := hz y (by simp)
      have := ih ys (fun z hz' => hz z (by simp [hz'])) (by simpa using hl)
      unfold subL at *
      simp only [List.zipWith_cons_cons, this, hy, Int.sub_zero]

theorem mortc_drop_subL_le (d m : List Int) (h : mech_Dom d m) (j : Nat) :
    sumL ((subL m d).drop j) ≤ sumL (m.drop j) := by
  induction d generalizing m j with
  | nil => cases m with
    | nil => simp [subL]
    | cons y ys => exact h.elim
  | cons x xs ih => cases m with
    | nil => exact h.elim
    | cons y ys => cases j with
      | zero =>
        have := ih ys h.2.2 0
        unfold subL at *
        simp only [List.zipWith_cons_cons, List.drop_zero, sumL_cons] at *
        have := h.1; omega
      | succ j' =>
        have := ih ys h.2.2 j'
        unfold subL at *
        simp only [List.zipWith_cons_cons, List.drop_succ_cons]
        exact this

theorem mortc_drop_addL_le (m d : List Int) (hl : d.length = m.length) (hd : ∀ x ∈ d, 0 ≤ x)
    (j : Nat) : sumL ((addL m d).drop j) ≤ sumL (m.drop j) + sumL d := by
  induction m generalizing d j with
  | nil => cases d with
    | nil => simp [addL]
    | cons y ys => simp at hl
  | cons x xs ih => cases d with
    | nil => simp at hl
    | cons y ys =>
      have hy : 0 ≤ y := hd y (by simp)
      have hys : ∀ z ∈ ys, 0 ≤ z := fun z hz => hd z (by simp [hz])
      cases j with
      | zero =>
        have := ih ys (by simpa using hl) hys 0
        unfold addL at *
        simp only [List.zipWith_cons_cons, List.drop_zero, sumL_cons] at *
        omega
      | succ j' =>
        have := ih ys (by simpa using hl) hys j'
        unfold addL at *
        simp only [List.zipWith_cons_cons, List.drop_succ_cons, sumL_cons]
        omega

/-! ### one entry of a history -/

/-- The mortality action keeps `i + died`. -/
theorem mortc_mortality_i (c c1 : Cell) (rate : Rat) (lag : Int) (hr0 : 0 < rate)
    (h : (CellOp.mortality rate lag).apply c = .ok c1) : c1.i + c1.died = c.i + c.died := by
  have hr0' : 0 ≤ rate := Rat.le_of_lt hr0
  have hrn : ¬ rate ≤ 0 := Rat.not_le.mpr hr0
  simp only [CellOp.apply, mech_applyMortality_pos c rate lag hrn] at h
  generalize ((c.mort.length : Int) - lag - 1 + 1).toNat = N at *
  cases hloop : mech_loop rate (List.range N) c with
  | error e => rw [hloop] at h; cases h
  | ok cN =>
    rw [hloop] at h
    have hc1 : c1 = cN.stepForwardMortality := by
      have : Except.ok (cN.stepForwardMortality) = Except.ok (ε := ErrKind) c1 := h
      simp only [Except.ok.injEq] at this
      exact this.symm
    obtain ⟨_, i2, i3, _⟩ := mech_loop_inv rate hr0' c N cN hloop
    rw [hc1]; simp only [Cell.stepForwardMortality]; omega

/-- What one entry does to non-negativity, length and the balance `died + sum mort`. -/
theorem mortc_rel_facts (rate : Rat) (lag : Int) (hr0 : 0 < rate) (hr1 : rate ≤ 1) (hl0 : 0 ≤ lag)
    (op : MortOp) (c c1 : Cell) (hnn : ∀ x ∈ c.mort, 0 ≤ x) (hlag : lag < (c.mort.length : Int))
    (h : op.rel rate lag c c1) :
    (∀ x ∈ c1.mort, 0 ≤ x) ∧ c1.mort.length = c.mort.length ∧
    c1.died + sumL c1.mort = c.died + sumL c.mort + op.added - op.removed := by
  cases op with
  | mortality =>
    cases hc : c.mort with
    | nil => rw [hc] at hlag; simp at hlag; omega
    | cons x0 t =>
      obtain ⟨t', e1, hdom, e3⟩ := mech_mort_step c c1 rate lag hr0 hr1 x0 t hc hlag hnn h
      have hlen := mech_Dom_length t' t hdom
      refine ⟨?_, ?_, ?_⟩
      · intro x hx
        rw [e1] at hx
        rcases List.mem_append.mp hx with hx | hx
        · exact mech_Dom_nonneg t' t hdom x hx
        · simp at hx; omega
      · rw [e1]; simp only [List.length_append, List.length_cons, List.length_nil, hlen]
      · rw [e1, e3, ← hc]
        simp only [sumL_append, sumL_cons, sumL_nil, MortOp.added, MortOp.removed]; omega
  | add x =>
    obtain ⟨hx, hm, hd⟩ := h
    have hpos : 0 < c.mort.length := by omega
    refine ⟨?_, ?_, ?_⟩
    · rw [hm]; exact mech_addLast_nonneg c.mort x hx hnn
    · rw [hm]; exact mech_addLast_length c.mort x
    · rw [hm, hd, mech_sumL_addLast, if_pos hpos]
      simp only [MortOp.added, MortOp.removed]; omega
  | arrive d =>
    obtain ⟨hl, hd0, hm, hd⟩ := h
    refine ⟨?_, ?_, ?_⟩
    · rw [hm]; exact allNN_addL hnn hd0
    · rw [hm]; exact length_addL hl
    · rw [hm, hd, sumL_addL hl]
      simp only [MortOp.added, MortOp.removed]; omega
  | remove d =>
    obtain ⟨hl, hp, hm, hd⟩ := h
    have hdom := mech_Dom_of_index d c.mort hl hp
    refine ⟨?_, ?_, ?_⟩
    · rw [hm]; exact mech_Dom_subL_nonneg d c.mort hdom
    · rw [hm]; exact mech_subL_length c.mort d hl
    · rw [hm, hd, mech_sumL_subL _ _ hl.symm]
      simp only [MortOp.added, MortOp.removed]; omega

theorem mortc_added_nonneg (rate : Rat) (lag : Int) (op : MortOp) (c c1 : Cell)
    (h : op.rel rate lag c c1) : 0 ≤ op.added := by
  cases op with
  | mortality => simp only [MortOp.added]; omega
  | add x => exact h.1
  | arrive d => exact mech_sumL_nonneg d h.2.1
  | remove d => simp only [MortOp.added]; omega

/-! ### whole histories -/

/-- Non-negativity, length and the balance `died + sum mort` along a history. -/
theorem mortc_trace_facts (rate : Rat) (lag : Int) (hr0 : 0 < rate) (hr1 : rate ≤ 1) (hl0 : 0 ≤ lag)
    (c' : Cell) : ∀ (ops : List MortOp) (cj : Cell), (∀ x ∈ cj.mort, 0 ≤ x) →
      lag < (cj.mort.length : Int) → MortTrace (MortOp.rel rate lag) ops cj c' →
      (∀ x ∈ c'.mort, 0 ≤ x) ∧ c'.mort.length = cj.mort.length ∧
      c'.died + sumL c'.mort = cj.died + sumL cj.mort + addedBy ops - removedBy ops := by
  intro ops
  induction ops with
  | nil =>
    intro cj hnn _ h
    have : c' = cj := h
    subst this
    exact ⟨hnn, rfl, by simp only [addedBy, removedBy]; omega⟩
  | cons op rest ih =>
    intro cj hnn hlag h
    obtain ⟨c1, h1, h2⟩ := h
    obtain ⟨f1, f2, f3⟩ := mortc_rel_facts rate lag hr0 hr1 hl0 op cj c1 hnn hlag h1
    obtain ⟨g1, g2, g3⟩ := ih c1 f1 (by rw [f2]; exact hlag) h2
    exact ⟨g1, by rw [g2, f2], by simp only [addedBy, removedBy]; omega⟩

/-- With `keepsI` along the history, `i - sum mort` does not change. -/
theorem mortc_trace_i (rate : Rat) (lag : Int) (hr0 : 0 < rate) (hr1 : rate ≤ 1) (hl0 : 0 ≤ lag)
    (c' : Cell) : ∀ (ops : List MortOp) (cj : Cell), (∀ x ∈ cj.mort, 0 ≤ x) →
      lag < (cj.mort.length : Int) →
      MortTrace (fun op a b => op.rel rate lag a b ∧ op.keepsI a b) ops cj c' →
      c'.i - sumL c'.mort = cj.i - sumL cj.mort := by
  intro ops
  induction ops with
  | nil =>
    intro cj _ _ h
    have : c' = cj := h
    subst this; rfl
  | cons op rest ih =>
    intro cj hnn hlag h
    obtain ⟨c1, ⟨h1, hk⟩, h2⟩ := h
    obtain ⟨f1, f2, f3⟩ := mortc_rel_facts rate lag hr0 hr1 hl0 op cj c1 hnn hlag h1
    have g := ih c1 f1 (by rw [f2]; exact hlag) h2
    have hstep : c1.i - sumL c1.mort = cj.i - sumL cj.mort := by
      cases op with
      | mortality =>
        have := mortc_mortality_i cj c1 rate lag hr0 h1
        simp only [MortOp.added, MortOp.removed] at f3; omega
      | add x =>
        have hd := h1.2.2
        have hk' : c1.i = cj.i + x := hk
        simp only [MortOp.added, MortOp.removed] at f3; omega
      | arrive d =>
        have hd := h1.2.2.2
        have hk' : c1.i = cj.i + sumL d := hk
        simp only [MortOp.added, MortOp.removed] at f3; omega
      | remove d =>
        have hd := h1.2.2.2
        have hk' : c1.i = cj.i - sumL d := hk
        simp only [MortOp.added, MortOp.removed] at f3; omega
    omega

/-- The window argument (generalises `mech_run_inv`): with at most `|mort|` mortality steps still to
    come, what sits in the cohorts at the end is at most what sits beyond the first `mortSteps ops`
    cohorts now plus what the history adds. -/
theorem mortc_window (rate : Rat) (lag : Int) (hr0 : 0 < rate) (hr1 : rate ≤ 1) (hl0 : 0 ≤ lag)
    (c' : Cell) : ∀ (ops : List MortOp) (cj : Cell) (B : Int), mortSteps ops ≤ cj.mort.length →
      lag < (cj.mort.length : Int) → (∀ x ∈ cj.mort, 0 ≤ x) →
      sumL (cj.mort.drop (mortSteps ops)) ≤ B → MortTrace (MortOp.rel rate lag) ops cj c' →
      sumL c'.mort ≤ B + addedBy ops := by
  intro ops
  induction ops with
  | nil =>
    intro cj B _ _ _ hB h
    have : c' = cj := h
    subst this
    simp only [mortSteps, List.drop_zero, addedBy] at *; omega
  | cons op rest ih =>
    intro cj B hlen hlag hnn hB h
    obtain ⟨c1, h1, h2⟩ := h
    obtain ⟨f1, f2, _⟩ := mortc_rel_facts rate lag hr0 hr1 hl0 op cj c1 hnn hlag h1
    cases op with
    | mortality =>
      simp only [mortSteps] at hlen hB
      cases hc : cj.mort with
      | nil => rw [hc] at hlag; simp at hlag; omega
      | cons x0 t =>
        obtain ⟨t', e1, hdom, _⟩ := mech_mort_step cj c1 rate lag hr0 hr1 x0 t hc hlag hnn h1
        rw [hc] at hlen hB
        simp only [List.length_cons, List.drop_succ_cons] at hlen hB
        have hle := mech_Dom_drop_le t' t hdom (mortSteps rest)
        have hB1 : sumL (c1.mort.drop (mortSteps rest)) ≤ B := by
          rw [e1, mech_sumL_drop_snoc_zero]; omega
        have := ih c1 B (by rw [f2, hc]; simp only [List.length_cons]; omega)
          (by rw [f2]; exact hlag) f1 hB1 h2
        simp only [addedBy, MortOp.added]; omega
    | add x =>
      simp only [mortSteps] at hlen hB
      obtain ⟨hx, hm, _⟩ := h1
      have hB1 : sumL (c1.mort.drop (mortSteps rest)) ≤ B + x := by
        rw [hm, mech_sumL_drop_addLast]; split <;> omega
      have := ih c1 (B + x) (by rw [f2]; exact hlen) (by rw [f2]; exact hlag) f1 hB1 h2
      simp only [addedBy, MortOp.added]; omega
    | arrive d =>
      simp only [mortSteps] at hlen hB
      obtain ⟨hl, hd0, hm, _⟩ := h1
      have hB1 : sumL (c1.mort.drop (mortSteps rest)) ≤ B + sumL d := by
        rw [hm]; have := mortc_drop_addL_le cj.mort d hl hd0 (mortSteps rest); omega
      have := ih c1 (B + sumL d) (by rw [f2]; exact hlen) (by rw [f2]; exact hlag) f1 hB1 h2
      simp only [addedBy, MortOp.added]; omega
    | remove d =>
      simp only [mortSteps] at hlen hB
      obtain ⟨hl, hp, hm, _⟩ := h1
      have hdom := mech_Dom_of_index d cj.mort hl hp
      have hB1 : sumL (c1.mort.drop (mortSteps rest)) ≤ B := by
        rw [hm]; have := mortc_drop_subL_le d cj.mort hdom (mortSteps rest); omega
      have := ih c1 B (by rw [f2]; exact hlen) (by rw [f2]; exact hlag) f1 hB1 h2
      simp only [addedBy, MortOp.added]; omega

/-- After a history with at least `n = |mort|` mortality steps, the cohorts hold at most what was
    added from the first of the last `n` mortality steps on. -/
theorem mortc_remaining (rate : Rat) (lag : Int) (hr0 : 0 < rate) (hr1 : rate ≤ 1) (hl0 : 0 ≤ lag)
    (c' : Cell) (n : Nat) : ∀ (ops : List MortOp) (cj : Cell), cj.mort.length = n →
      lag < (n : Int) → (∀ x ∈ cj.mort, 0 ≤ x) → n ≤ mortSteps ops →
      MortTrace (MortOp.rel rate lag) ops cj c' →
      sumL c'.mort ≤ addedBy (lastMortWindow n ops) := by
  intro ops
  induction ops with
  | nil =>
    intro cj _ hlag _ hsteps _
    simp only [mortSteps] at hsteps; omega
  | cons op rest ih =>
    intro cj hlen hlag hnn hsteps h
    have hlag' : lag < (cj.mort.length : Int) := by rw [hlen]; exact hlag
    cases op with
    | mortality =>
      simp only [mortSteps] at hsteps
      by_cases hlt : mortSteps rest < n
      · have hwin : lastMortWindow n (MortOp.mortality :: rest) = MortOp.mortality :: rest := by
          simp only [lastMortWindow, hlt, if_true]
        rw [hwin]
        have hms : mortSteps (MortOp.mortality :: rest) = cj.mort.length := by
          simp only [mortSteps]; omega
        have := mortc_window rate lag hr0 hr1 hl0 c' (MortOp.mortality :: rest) cj 0
          (by rw [hms]; exact Nat.le_refl _) hlag' hnn
          (by rw [hms, List.drop_length]; simp) h
        omega
      · have hwin : lastMortWindow n (MortOp.mortality :: rest) = lastMortWindow n rest := by
          simp only [lastMortWindow, hlt, if_false]
        rw [hwin]
        obtain ⟨c1, h1, h2⟩ := h
        obtain ⟨f1, f2, _⟩ := mortc_rel_facts rate lag hr0 hr1 hl0 _ cj c1 hnn hlag' h1
        exact ih c1 (by rw [f2]; exact hlen) hlag f1 (by omega) h2
    | add x =>
      obtain ⟨c1, h1, h2⟩ := h
      obtain ⟨f1, f2, _⟩ := mortc_rel_facts rate lag hr0 hr1 hl0 _ cj c1 hnn hlag' h1
      simp only [mortSteps] at hsteps
      simp only [lastMortWindow]
      exact ih c1 (by rw [f2]; exact hlen) hlag f1 hsteps h2
    | arrive d =>
      obtain ⟨c1, h1, h2⟩ := h
      obtain ⟨f1, f2, _⟩ := mortc_rel_facts rate lag hr0 hr1 hl0 _ cj c1 hnn hlag' h1
      simp only [mortSteps] at hsteps
      simp only [lastMortWindow]
      exact ih c1 (by rw [f2]; exact hlen) hlag f1 hsteps h2
    | remove d =>
      obtain ⟨c1, h1, h2⟩ := h
      obtain ⟨f1, f2, _⟩ := mortc_rel_facts rate lag hr0 hr1 hl0 _ cj c1 hnn hlag' h1
      simp only [mortSteps] at hsteps
      simp only [lastMortWindow]
      exact ih c1 (by rw [f2]; exact hlen) hlag f1 hsteps h2

/-- The additions of the last window are part of all additions. -/
theorem mortc_added_window_le (rate : Rat) (lag : Int) (n : Nat) (c' : Cell) :
    ∀ (ops : List MortOp) (cj : Cell), MortTrace (MortOp.rel rate lag) ops cj c' →
      addedBy (lastMortWindow n ops) ≤ addedBy ops := by
  intro ops
  induction ops with
  | nil => intro _ _; simp only [lastMortWindow, addedBy]; omega
  | cons op rest ih =>
    intro cj h
    obtain ⟨c1, h1, h2⟩ := h
    have h0 := mortc_added_nonneg rate lag op cj c1 h1
    have := ih c1 h2
    cases op with
    | mortality =>
      simp only [lastMortWindow]
      split
      · omega
      · simp only [addedBy, MortOp.added]; omega
    | add x => simp only [lastMortWindow, addedBy] at *; omega
    | arrive d => simp only [lastMortWindow, addedBy] at *; omega
    | remove d => simp only [lastMortWindow, addedBy] at *; omega

/-- C11 with removals, on traces. -/
theorem mortc_eventual_death (rate : Rat) (lag : Int) (c c' : Cell) (ops : List MortOp)
    (hr0 : 0 < rate) (hr1 : rate ≤ 1) (hl0 : 0 ≤ lag) (hl : lag < (c.mort.length : Int))
    (hnn : ∀ x ∈ c.mort, 0 ≤ x) (hsteps : c.mort.length ≤ mortSteps ops)
    (h : MortTrace (MortOp.rel rate lag) ops c c') :
    sumL c'.mort ≤ addedBy (lastMortWindow c.mort.length ops) ∧
    c'.died + sumL c'.mort = c.died + sumL c.mort + addedBy ops - removedBy ops ∧
    sumL c.mort - removedBy ops ≤ c'.died - c.died := by
  have a := mortc_remaining rate lag hr0 hr1 hl0 c' c.mort.length ops c rfl hl hnn hsteps h
  obtain ⟨_, _, b⟩ := mortc_trace_facts rate lag hr0 hr1 hl0 c' ops c hnn hl h
  have d := mortc_added_window_le rate lag c.mort.length c' ops c h
  exact ⟨a, b, by omega⟩

/-! ### the concrete actions of the model are such entries -/

/-- `remove_infected_at` with a valid draw of `0 ≤ count ≤ i` hosts. -/
theorem mortc_removeInfected (rate : Rat) (lag : Int) (c : Cell) (count : Int) (draw : List Int)
    (hm : c.i = sumL c.mort) (h0 : 0 ≤ count) (hle : count ≤ c.i)
    (hd : ValidDraw c.mort count draw) :
    (MortOp.remove draw).rel rate lag c (c.removeInfected count draw) ∧
    (MortOp.remove draw).keepsI c (c.removeInfected count draw) := by
  have hsum : sumL draw = count := by rw [hd.2.2]; omega
  have hdom := mech_Dom_of_valid c.mort draw count hd
  refine ⟨⟨hd.1, hd.2.1, ?_, rfl⟩, ?_⟩
  · by_cases hc : count > 0
    · simp only [Cell.removeInfected, hc, if_true]
    · have hz := mech_all_zero_of_sum draw (mech_Dom_nonneg draw c.mort hdom) (by omega)
      simp only [Cell.removeInfected, hc, if_false]
      exact (mortc_subL_zero c.mort draw hz hd.1).symm
  · show (c.removeInfected count draw).i = c.i - sumL draw
    simp only [Cell.removeInfected]; omega

/-- Lethal temperature. -/
theorem mortc_lethal (rate : Rat) (lag : Int) (c : Cell) (draw : List Int)
    (hnn : ∀ x ∈ c.mort, 0 ≤ x) (hm : c.i = sumL c.mort) (hd : ValidDraw c.mort c.i draw) :
    (MortOp.remove draw).rel rate lag c (c.removeAllInfected draw) ∧
    (MortOp.remove draw).keepsI c (c.removeAllInfected draw) := by
  have := mech_sumL_nonneg c.mort hnn
  exact mortc_removeInfected rate lag c c.i draw hm (by omega) (Int.le_refl _) hd

/-- Survival rate. -/
theorem mortc_removeByRatio (rate : Rat) (lag : Int) (c : Cell) (ratio : Rat) (dI dE : List Int)
    (hnn : ∀ x ∈ c.mort, 0 ≤ x) (hm : c.i = sumL c.mort) (hr0 : 0 ≤ ratio) (hr1 : ratio ≤ 1)
    (hd : ValidDraw c.mort (c.ratioRemovedInfected ratio) dI) :
    (MortOp.remove dI).rel rate lag c (c.removeByRatio ratio dI dE) ∧
    (MortOp.remove dI).keepsI c (c.removeByRatio ratio dI dE) := by
  have hi : 0 ≤ c.i := by have := mech_sumL_nonneg c.mort hnn; omega
  obtain ⟨a, b⟩ := lround_share hi hr0 hr1
  have hcnt : c.ratioRemovedInfected ratio = c.i - lround ((c.i : Rat) * ratio) := rfl
  exact mortc_removeInfected rate lag c (c.ratioRemovedInfected ratio) dI hm
    (by omega) (by omega) hd

theorem mortc_sumL_map_all (l : List Int) (b : Bool) :
    sumL (l.map fun x => if b then x else 0) = if b then sumL l else 0 := by
  cases b with
  | true => simp
  | false => simpa using mech_sumL_map_zero l

/-- The share of the infected total agrees with the sum of the per-cohort shares: always for
    "all infected in cell", and for a ratio exactly when `roundingAgrees` (finding F20). -/
theorem mortc_share_agrees (rnd : Rat → Int) (hall : ∀ coef x, mech_sh rnd coef .allInfected x = if coef ≠ 0 then x else 0)
    (coef : Rat) (app : TreatApp) (c : Cell) (hm : c.i = sumL c.mort) :
    (mech_sh rnd coef app c.i = sumL (c.mort.map (mech_sh rnd coef app))) ↔
      (app = .allInfected ∨ roundingAgrees rnd coef c = true) := by
  cases app with
  | allInfected =>
    have : (c.mort.map (mech_sh rnd coef .allInfected)) = c.mort.map (fun x => if decide (coef ≠ 0) then x else 0) := by
      apply List.map_congr_left; intro x _; rw [hall]; simp
    rw [this, mortc_sumL_map_all, hall, hm]
    simp
  | ratio =>
    have hne : ¬ (TreatApp.ratio = TreatApp.allInfected) := by decide
    simp only [hne, false_or, roundingAgrees, decide_eq_true_eq]
    constructor
    · intro h; exact h.symm
    · intro h; exact h.symm

/-- Removal treatment. The cohorts lose their per-cohort shares (rounded up); `i` follows exactly when
    the rounding of the total agrees with the per-cohort rounding. -/
theorem mortc_simpleTreat (rate : Rat) (lag : Int) (coef : Rat) (app : TreatApp) (c : Cell)
    (h0 : 0 ≤ coef) (h1 : coef ≤ 1) (hn : c.nonNeg = true) (hm : c.mortOK = true) :
    ∃ c', c.simpleTreat coef app = .ok c' ∧
      (MortOp.remove (c.mort.map fun x => rceil (getTreated coef app x))).rel rate lag c c' ∧
      ((MortOp.remove (c.mort.map fun x => rceil (getTreated coef app x))).keepsI c c' ↔
        (app = .allInfected ∨ roundingAgrees rceil coef c = true)) := by
  obtain ⟨_, _, _, _, _, hmn, _, _⟩ := (mech_nonNeg_iff c).mp hn
  have hm' := (mech_mortOK_iff c).mp hm
  refine ⟨_, mech_simpleTreat_eq coef app c h0 h1 hn hm, ?_, ?_⟩
  · have hdom := mortc_Dom_map c.mort (mech_sh rceil coef app) hmn (mech_sh_ceil_bounds coef app h0 h1)
    refine ⟨by simp, mortc_index_of_Dom _ _ hdom, ?_, rfl⟩
    show (mech_simpleRes coef app c).mort = subL c.mort (c.mort.map (mech_sh rceil coef app))
    rw [mech_subL_map]; rfl
  · have key := mortc_share_agrees rceil mech_sh_all_ceil coef app c hm'
    rw [← key]
    show (mech_simpleRes coef app c).i = c.i - sumL (c.mort.map (mech_sh rceil coef app)) ↔ _
    simp only [mech_simpleRes]
    constructor <;> intro h <;> omega

/-- Pesticide treatment (shares rounded down move to the resistant class). -/
theorem mortc_pesticideTreat (rate : Rat) (lag : Int) (coef : Rat) (app : TreatApp) (c : Cell)
    (h0 : 0 ≤ coef) (h1 : coef ≤ 1) (hn : c.nonNeg = true) (hm : c.mortOK = true) :
    ∃ c', c.pesticideTreat coef app = .ok c' ∧
      (MortOp.remove (c.mort.map fun x => rfloor (getTreated coef app x))).rel rate lag c c' ∧
      ((MortOp.remove (c.mort.map fun x => rfloor (getTreated coef app x))).keepsI c c' ↔
        (app = .allInfected ∨ roundingAgrees rfloor coef c = true)) := by
  obtain ⟨hs, _, _, _, _, hmn, _, _⟩ := (mech_nonNeg_iff c).mp hn
  have hm' := (mech_mortOK_iff c).mp hm
  refine ⟨_, mech_pesticideTreat_eq coef app c h0 h1 hs, ?_, ?_⟩
  · have hdom := mortc_Dom_map c.mort (mech_sh rfloor coef app) hmn (mech_sh_floor_bounds coef app h0 h1)
    refine ⟨by simp, mortc_index_of_Dom _ _ hdom, ?_, rfl⟩
    show (mech_pestRes coef app c).mort = subL c.mort (c.mort.map (mech_sh rfloor coef app))
    rw [mech_subL_map]; rfl
  · have key := mortc_share_agrees rfloor mech_sh_all_floor coef app c hm'
    rw [← key]
    show (mech_pestRes coef app c).i = c.i - sumL (c.mort.map (mech_sh rfloor coef app)) ↔ _
    simp only [mech_pestRes]
    constructor <;> intro h <;> omega

/-- The per-cohort counts `move_hosts_from_to` takes from the source and gives to the target. -/
def moveMortDelta (src : Cell) (d : ClassDraw) (drawM : List Int) : List Int :=
  if d.i > 0 then drawM else src.mort.map (fun _ => 0)

/-- Host movement, source cell: a removal. -/
theorem mortc_move_source (rate : Rat) (lag : Int) (src dst : Cell) (count : Int) (d : ClassDraw)
    (dE dM : List Int) (hnn : ∀ x ∈ src.mort, 0 ≤ x) (hm : src.i = sumL src.mort)
    (hd0 : 0 ≤ d.i) (hd1 : d.i ≤ src.i) (hd : d.i > 0 → ValidDraw src.mort d.i dM) :
    (MortOp.remove (moveMortDelta src d dM)).rel rate lag src (moveHosts src dst count d dE dM).1 ∧
    (MortOp.remove (moveMortDelta src d dM)).keepsI src (moveHosts src dst count d dE dM).1 := by
  by_cases hp : d.i > 0
  · have hv := hd hp
    have hsum : sumL dM = d.i := by rw [hv.2.2]; omega
    refine ⟨⟨?_, ?_, ?_, rfl⟩, ?_⟩
    · simp only [moveMortDelta, hp, if_true]; exact hv.1
    · simp only [moveMortDelta, hp, if_true]; exact hv.2.1
    · simp only [moveHosts, moveMortDelta, hp, if_true]
    · show (moveHosts src dst count d dE dM).1.i = src.i - sumL (moveMortDelta src d dM)
      simp only [moveHosts, moveMortDelta, hp, if_true]; omega
  · have hz : d.i = 0 := by omega
    have hdom := mortc_Dom_map src.mort (fun _ => 0) hnn (fun x hx => ⟨Int.le_refl 0, hx⟩)
    refine ⟨⟨?_, ?_, ?_, rfl⟩, ?_⟩
    · simp only [moveMortDelta, hp, if_false, List.length_map]
    · simp only [moveMortDelta, hp, if_false]; exact mortc_index_of_Dom _ _ hdom
    · simp only [moveHosts, moveMortDelta, hp, if_false]
    · show (moveHosts src dst count d dE dM).1.i = src.i - sumL (moveMortDelta src d dM)
      simp only [moveHosts, moveMortDelta, hp, if_false, mech_sumL_map_zero]; omega

/-- Host movement, target cell: the same counts ARRIVE cohort by cohort (not in the youngest
    cohort). Needs trackers of the same length in both cells. -/
theorem mortc_move_target (rate : Rat) (lag : Int) (src dst : Cell) (count : Int) (d : ClassDraw)
    (dE dM : List Int) (hlen : src.mort.length = dst.mort.length) (hm : src.i = sumL src.mort)
    (hd0 : 0 ≤ d.i) (hd1 : d.i ≤ src.i) (hd : d.i > 0 → ValidDraw src.mort d.i dM) :
    (MortOp.arrive (moveMortDelta src d dM)).rel rate lag dst (moveHosts src dst count d dE dM).2.1 ∧
    (MortOp.arrive (moveMortDelta src d dM)).keepsI dst (moveHosts src dst count d dE dM).2.1 := by
  by_cases hp : d.i > 0
  · have hv := hd hp
    have hsum : sumL dM = d.i := by rw [hv.2.2]; omega
    have hdom := mech_Dom_of_valid src.mort dM d.i hv
    refine ⟨⟨?_, ?_, ?_, rfl⟩, ?_⟩
    · simp only [moveMortDelta, hp, if_true]; rw [hv.1, hlen]
    · simp only [moveMortDelta, hp, if_true]; exact mech_Dom_nonneg dM src.mort hdom
    · simp only [moveHosts, moveMortDelta, hp, if_true]
    · show (moveHosts src dst count d dE dM).2.1.i = dst.i + sumL (moveMortDelta src d dM)
      simp only [moveHosts, moveMortDelta, hp, if_true]; omega
  · have hz : d.i = 0 := by omega
    refine ⟨⟨?_, ?_, ?_, rfl⟩, ?_⟩
    · simp only [moveMortDelta, hp, if_false, List.length_map]; exact hlen
    · simp only [moveMortDelta, hp, if_false]
      intro x hx; simp only [List.mem_map] at hx; obtain ⟨_, _, rfl⟩ := hx; exact Int.le_refl 0
    · simp only [moveHosts, moveMortDelta, hp, if_false]
    · show (moveHosts src dst count d dE dM).2.1.i = dst.i + sumL (moveMortDelta src d dM)
      simp only [moveHosts, moveMortDelta, hp, if_false, mech_sumL_map_zero]; omega

/-- The SEI latency step: the matured hosts join the youngest cohort. -/
theorem mortc_stepForward (rate : Rat) (lag : Int) (latency step : Nat) (c : Cell)
    (he : ∀ x ∈ c.e, 0 ≤ x) :
    (MortOp.add (if step ≥ latency then c.e.headD 0 else 0)).rel rate lag c
        (c.stepForward .sei latency step) ∧
    (MortOp.add (if step ≥ latency then c.e.headD 0 else 0)).keepsI c
        (c.stepForward .sei latency step) := by
  unfold Cell.stepForward
  by_cases hs : step ≥ latency
  · simp only [hs, if_true]
    cases hce : c.e with
    | nil =>
      simp only [List.headD_nil]
      exact ⟨⟨Int.le_refl 0, (mech_addLast_zero c.mort).symm, rfl⟩,
        by show c.i = c.i + 0; omega⟩
    | cons o rest =>
      simp only [List.headD_cons]
      exact ⟨⟨he o (by rw [hce]; simp), rfl, rfl⟩, rfl⟩
  · simp only [hs, if_false]
    exact ⟨⟨Int.le_refl 0, (mech_addLast_zero c.mort).symm, rfl⟩, by show c.i = c.i + 0; omega⟩

/-- A landing (`add_disperser_at`): one host joins the youngest cohort in SI when a susceptible
    host is present; nothing happens to the cohorts otherwise. -/
theorem mortc_addDisperserAt (rate : Rat) (lag : Int) (mt : ModelType) (c : Cell) :
    (MortOp.add (if c.s ≤ 0 ∨ mt = .sei then 0 else 1)).rel rate lag c (c.addDisperserAt mt).1 ∧
    (MortOp.add (if c.s ≤ 0 ∨ mt = .sei then 0 else 1)).keepsI c (c.addDisperserAt mt).1 := by
  unfold Cell.addDisperserAt
  by_cases hs : c.s ≤ 0
  · simp only [hs, if_true, true_or]
    exact ⟨⟨Int.le_refl 0, (mech_addLast_zero c.mort).symm, rfl⟩, by show c.i = c.i + 0; omega⟩
  · cases mt with
    | si =>
      have hne : ¬ (ModelType.si = ModelType.sei) := by decide
      simp only [hs, if_false, false_or, hne]
      exact ⟨⟨by omega, rfl, rfl⟩, rfl⟩
    | sei =>
      simp only [hs, if_false, or_true, if_true]
      exact ⟨⟨Int.le_refl 0, (mech_addLast_zero c.mort).symm, rfl⟩, by show c.i = c.i + 0; omega⟩

end Pops
