/-
  Helper lemmas for C01-C03 (per-operation invariants of the L1 host model).
  Part 1: list facts (`sumL`, `subL`, `addL`, `addLast`, `rotateLeft`, `set`) and the
  Prop-level reading of the Boolean cell predicates.
-/
import PopsModel.Model.HostOps
import PopsModel.Lemmas.Rounding
namespace Pops

/-! ### non-negative lists -/

/-- Every element of the list is non-negative. -/
def AllNN (l : List Int) : Prop := ∀ x ∈ l, 0 ≤ x

theorem allNN_nil : AllNN [] := by intro x hx; cases hx

theorem allNN_cons {x : Int} {xs : List Int} : AllNN (x :: xs) ↔ 0 ≤ x ∧ AllNN xs := by
  unfold AllNN
  constructor
  · intro h
    exact ⟨h x (List.mem_cons_self ..), fun y hy => h y (List.mem_cons_of_mem _ hy)⟩
  · intro ⟨h1, h2⟩ y hy
    rcases List.mem_cons.mp hy with rfl | hy
    · exact h1
    · exact h2 y hy

theorem allNN_iff_all (l : List Int) : (l.all fun x => decide (0 ≤ x)) = true ↔ AllNN l := by
  simp only [List.all_eq_true, decide_eq_true_eq, AllNN]

theorem allNN_append {a b : List Int} : AllNN (a ++ b) ↔ AllNN a ∧ AllNN b := by
  induction a with
  | nil => simp [allNN_nil]
  | cons x xs ih => simp only [List.cons_append, allNN_cons, ih, and_assoc]

theorem sumL_nonneg {l : List Int} (h : AllNN l) : 0 ≤ sumL l := by
  induction l with
  | nil => simp
  | cons x xs ih =>
    obtain ⟨h1, h2⟩ := allNN_cons.mp h
    have := ih h2
    simp only [sumL_cons]; omega

theorem getElem!_le_sumL {l : List Int} (h : AllNN l) (k : Nat) : l[k]! ≤ sumL l := by
  induction l generalizing k with
  | nil => simp
  | cons x xs ih =>
    obtain ⟨h1, h2⟩ := allNN_cons.mp h
    have hs := sumL_nonneg h2
    cases k with
    | zero => simp only [List.getElem!_cons_zero, sumL_cons]; omega
    | succ k =>
      have := ih h2 k
      simp only [List.getElem!_cons_succ, sumL_cons]; omega

theorem getElem!_nonneg {l : List Int} (h : AllNN l) (k : Nat) : 0 ≤ l[k]! := by
  induction l generalizing k with
  | nil => simp
  | cons x xs ih =>
    obtain ⟨h1, h2⟩ := allNN_cons.mp h
    cases k with
    | zero => simpa using h1
    | succ k => simpa using ih h2 k

/-! ### `rotateLeft`, `addLast`, `set` -/

theorem sumL_rotateLeft (l : List Int) : sumL (rotateLeft l) = sumL l := by
  cases l with
  | nil => rfl
  | cons x xs => simp only [rotateLeft, sumL_append, sumL_cons, sumL_nil]; omega

theorem length_rotateLeft {α : Type} (l : List α) : (rotateLeft l).length = l.length := by
  cases l with
  | nil => rfl
  | cons x xs => simp [rotateLeft]

theorem allNN_rotateLeft {l : List Int} (h : AllNN l) : AllNN (rotateLeft l) := by
  cases l with
  | nil => exact h
  | cons x xs =>
    obtain ⟨h1, h2⟩ := allNN_cons.mp h
    simp only [rotateLeft]
    exact allNN_append.mpr ⟨h2, allNN_cons.mpr ⟨h1, allNN_nil⟩⟩

theorem length_addLast (l : List Int) (k : Int) : (addLast l k).length = l.length := by
  induction l with
  | nil => rfl
  | cons x xs ih =>
    cases xs with
    | nil => rfl
    | cons y ys => simp only [addLast, List.length_cons] at *; omega

theorem sumL_addLast {l : List Int} (k : Int) (h : l ≠ []) : sumL (addLast l k) = sumL l + k := by
  induction l with
  | nil => exact absurd rfl h
  | cons x xs ih =>
    cases xs with
    | nil => simp [addLast]
    | cons y ys =>
      have := ih (by simp)
      simp only [addLast, sumL_cons] at *; omega

theorem allNN_addLast {l : List Int} {k : Int} (h : AllNN l) (hk : 0 ≤ k) : AllNN (addLast l k) := by
  induction l with
  | nil => exact h
  | cons x xs ih =>
    obtain ⟨h1, h2⟩ := allNN_cons.mp h
    cases xs with
    | nil => simp only [addLast]; exact allNN_cons.mpr ⟨by omega, allNN_nil⟩
    | cons y ys => simp only [addLast]; exact allNN_cons.mpr ⟨h1, ih h2⟩

theorem sumL_set (l : List Int) (k : Nat) (v : Int) (hk : k < l.length) :
    sumL (l.set k v) = sumL l - l[k]! + v := by
  induction l generalizing k with
  | nil => simp at hk
  | cons x xs ih =>
    cases k with
    | zero => simp only [List.set_cons_zero, sumL_cons, List.getElem!_cons_zero]; omega
    | succ k =>
      have := ih k (by simpa using hk)
      simp only [List.set_cons_succ, sumL_cons, List.getElem!_cons_succ]; omega

theorem allNN_set {l : List Int} (h : AllNN l) (k : Nat) {v : Int} (hv : 0 ≤ v) : AllNN (l.set k v) := by
  intro x hx
  rcases List.mem_or_eq_of_mem_set hx with hx | rfl
  · exact h x hx
  · exact hv

theorem getElem!_pos_lt_length {l : List Int} {k : Nat} (h : l[k]! > 0) : k < l.length := by
  by_cases hk : k < l.length
  · exact hk
  · have : l[k]! = 0 := by
      rw [getElem!_def, List.getElem?_eq_none (by omega)]; rfl
    omega

/-! ### `subL`, `addL` under a pointwise domination -/

/-- `d` takes from `a` pointwise: same length, `0 ≤ d[k] ≤ a[k]`. -/
inductive Dom : List Int → List Int → Prop where
  | nil : Dom [] []
  | cons {x y : Int} {xs ys : List Int} : (0 ≤ y ∧ y ≤ x) → Dom xs ys → Dom (x :: xs) (y :: ys)

theorem Dom.length_eq {a d : List Int} (h : Dom a d) : d.length = a.length := by
  induction h with
  | nil => rfl
  | cons _ _ ih => simp [ih]

theorem Dom.allNN_sub {a d : List Int} (h : Dom a d) : AllNN (subL a d) := by
  induction h with
  | nil => exact allNN_nil
  | cons hxy _ ih =>
    simp only [subL, List.zipWith_cons_cons] at *
    exact allNN_cons.mpr ⟨by omega, ih⟩

theorem Dom.allNN_draw {a d : List Int} (h : Dom a d) : AllNN d := by
  induction h with
  | nil => exact allNN_nil
  | cons hxy _ ih => exact allNN_cons.mpr ⟨hxy.1, ih⟩

theorem Dom.sum_le {a d : List Int} (h : Dom a d) : sumL d ≤ sumL a := by
  induction h with
  | nil => simp
  | cons hxy _ ih => simp only [sumL_cons]; omega

theorem sumL_subL {a d : List Int} (h : d.length = a.length) : sumL (subL a d) = sumL a - sumL d := by
  induction a generalizing d with
  | nil => cases d with
    | nil => simp [subL]
    | cons y ys => simp at h
  | cons x xs ih => cases d with
    | nil => simp at h
    | cons y ys =>
      have := ih (d := ys) (by simpa using h)
      simp only [subL, List.zipWith_cons_cons, sumL_cons] at *; omega

theorem sumL_addL {a d : List Int} (h : d.length = a.length) : sumL (addL a d) = sumL a + sumL d := by
  induction a generalizing d with
  | nil => cases d with
    | nil => simp [addL]
    | cons y ys => simp at h
  | cons x xs ih => cases d with
    | nil => simp at h
    | cons y ys =>
      have := ih (d := ys) (by simpa using h)
      simp only [addL, List.zipWith_cons_cons, sumL_cons] at *; omega

theorem length_subL {a d : List Int} (h : d.length = a.length) : (subL a d).length = a.length := by
  simp only [subL, List.length_zipWith]; omega

theorem length_addL {a d : List Int} (h : d.length = a.length) : (addL a d).length = a.length := by
  simp only [addL, List.length_zipWith]; omega

theorem allNN_addL {a d : List Int} (ha : AllNN a) (hd : AllNN d) : AllNN (addL a d) := by
  induction a generalizing d with
  | nil => simp only [addL, List.zipWith_nil_left]; exact allNN_nil
  | cons x xs ih => cases d with
    | nil => simp only [addL, List.zipWith_nil_right]; exact allNN_nil
    | cons y ys =>
      obtain ⟨h1, h2⟩ := allNN_cons.mp ha
      obtain ⟨h3, h4⟩ := allNN_cons.mp hd
      simp only [addL, List.zipWith_cons_cons] at *
      exact allNN_cons.mpr ⟨by omega, ih h2 h4⟩

/-- The pointwise part of `ValidDraw` gives `Dom`. -/
theorem dom_of_pointwise {a d : List Int} (hl : d.length = a.length)
    (hp : ∀ k : Nat, k < d.length → 0 ≤ d[k]! ∧ d[k]! ≤ a[k]!) : Dom a d := by
  induction a generalizing d with
  | nil => cases d with
    | nil => exact Dom.nil
    | cons y ys => simp at hl
  | cons x xs ih => cases d with
    | nil => simp at hl
    | cons y ys =>
      refine Dom.cons ?_ (ih (by simpa using hl) ?_)
      · simpa using hp 0 (by simp)
      · intro k hk
        simpa using hp (k+1) (by simpa using hk)

theorem ValidDraw.dom {a d : List Int} {n : Int} (h : ValidDraw a n d) : Dom a d :=
  dom_of_pointwise h.1 h.2.1

theorem ValidDraw.sum {a d : List Int} {n : Int} (h : ValidDraw a n d) : sumL d = min n (sumL a) := h.2.2

/-- Removing the share `f x` of every element. -/
theorem dom_map {l : List Int} {f : Int → Int} (hl : AllNN l)
    (hf : ∀ x, 0 ≤ x → 0 ≤ f x ∧ f x ≤ x) : Dom l (l.map f) := by
  induction l with
  | nil => exact Dom.nil
  | cons x xs ih =>
    obtain ⟨h1, h2⟩ := allNN_cons.mp hl
    exact Dom.cons (hf x h1) (ih h2)

theorem dom_zeros {l : List Int} (hl : AllNN l) : Dom l (l.map fun _ => 0) :=
  dom_map hl (fun _ hx => ⟨Int.le_refl 0, hx⟩)

theorem sumL_zeros (l : List Int) : sumL (l.map fun _ => (0 : Int)) = 0 := by
  induction l with
  | nil => rfl
  | cons x xs ih => simp only [List.map_cons, sumL_cons, ih]; omega

theorem subL_self_map_id (l : List Int) : sumL (subL l l) = 0 := by
  rw [sumL_subL rfl]; omega

/-! ### Prop-level reading of the cell predicates -/

structure Cell.NN (c : Cell) : Prop where
  s : 0 ≤ c.s
  e : AllNN c.e
  i : 0 ≤ c.i
  r : 0 ≤ c.r
  te : 0 ≤ c.te
  mort : AllNN c.mort
  died : 0 ≤ c.died
  th : 0 ≤ c.th

theorem nonNeg_iff (c : Cell) : c.nonNeg = true ↔ c.NN := by
  simp only [Cell.nonNeg, Bool.and_eq_true, decide_eq_true_eq, allNN_iff_all]
  constructor
  · intro ⟨⟨⟨⟨⟨⟨⟨h1, h2⟩, h3⟩, h4⟩, h5⟩, h6⟩, h7⟩, h8⟩
    exact ⟨h1, h2, h3, h4, h5, h6, h7, h8⟩
  · intro ⟨h1, h2, h3, h4, h5, h6, h7, h8⟩
    exact ⟨⟨⟨⟨⟨⟨⟨h1, h2⟩, h3⟩, h4⟩, h5⟩, h6⟩, h7⟩, h8⟩

theorem totalsOK_iff (c : Cell) :
    c.totalsOK = true ↔ c.th = c.s + sumL c.e + c.i + c.r ∧ c.te = sumL c.e := by
  simp only [Cell.totalsOK, Bool.and_eq_true, decide_eq_true_eq]

theorem mortOK_iff (c : Cell) : c.mortOK = true ↔ c.i = sumL c.mort := by
  simp only [Cell.mortOK, decide_eq_true_eq]

end Pops
