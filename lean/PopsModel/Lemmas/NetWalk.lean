/-
  C15 lemmas about trips: adjacency / segment lookup, `next_node`, soundness of the fuelled walk
  with respect to the `Trip` derivations, fuel sufficiency, the index reached on the last segment.
-/
import PopsModel.Model.NetPred
namespace Pops.Net
open Net

/-! ### adjacency and segment lookup -/

theorem mem_neighbours {n : Net} {a b : NodeId} :
    b ∈ n.neighbours a ↔ ∃ e ∈ n.segs, (e.1.1 = a ∧ e.1.2 = b) ∨ (e.1.2 = a ∧ e.1.1 = b) := by
  simp only [Net.neighbours, List.mem_flatMap, List.mem_append]
  constructor
  · rintro ⟨e, he, h⟩
    refine ⟨e, he, ?_⟩
    rcases h with h | h
    · split at h <;> simp_all
    · split at h <;> simp_all
  · rintro ⟨e, he, h⟩
    refine ⟨e, he, ?_⟩
    rcases h with ⟨h1, h2⟩ | ⟨h1, h2⟩
    · left; simp [h1, h2]
    · right; simp [h1, h2]

theorem findSeg_eq_some {n : Net} {k : Key} {s : Segment} (h : n.findSeg k = some s) :
    (k, s) ∈ n.segs := by
  simp only [Net.findSeg, Option.map_eq_some_iff] at h
  obtain ⟨e, he, hs⟩ := h
  have hm := List.mem_of_find?_eq_some he
  have hk := List.find?_some he
  simp only [decide_eq_true_eq] at hk
  cases e with
  | mk k' s' => simp only at hk hs; subst hk; subst hs; exact hm

theorem findSeg_isSome_of_mem {n : Net} {e : Key × Segment} (h : e ∈ n.segs) :
    ∃ s, n.findSeg e.1 = some s := by
  simp only [Net.findSeg, Option.map_eq_some_iff]
  have : (n.segs.find? (fun x => decide (x.1 = e.1))).isSome := by
    rw [List.find?_isSome]; exact ⟨e, h, by simp⟩
  obtain ⟨x, hx⟩ := Option.isSome_iff_exists.mp this
  exact ⟨x.2, x, hx, rfl⟩

/-- A view returned by `get_segment` shows a stored segment, forwards or backwards. -/
theorem getSegment_some {n : Net} {a b : NodeId} {v : SegView} (h : n.getSegment a b = some v) :
    ∃ e ∈ n.segs, v.seg = e.2 ∧
      ((e.1 = (a, b) ∧ v.cells = e.2.cells) ∨ (e.1 = (b, a) ∧ v.cells = e.2.cells.reverse)) := by
  unfold Net.getSegment at h
  split at h
  · next s hs =>
    simp only [Option.some.injEq] at h; subst h
    exact ⟨((a, b), s), findSeg_eq_some hs, rfl, Or.inl ⟨rfl, rfl⟩⟩
  · split at h
    · next s hs =>
      simp only [Option.some.injEq] at h; subst h
      exact ⟨((b, a), s), findSeg_eq_some hs, rfl, Or.inr ⟨rfl, rfl⟩⟩
    · exact absurd h (by simp)

theorem getSegment_of_neighbour {n : Net} {a b : NodeId} (h : b ∈ n.neighbours a) :
    ∃ v, n.getSegment a b = some v := by
  obtain ⟨e, he, hk⟩ := mem_neighbours.mp h
  obtain ⟨s, hs⟩ := findSeg_isSome_of_mem he
  unfold Net.getSegment
  rcases hk with ⟨h1, h2⟩ | ⟨h1, h2⟩
  · have : e.1 = (a, b) := by cases e with | mk k s' => cases k; simp_all
    rw [this] at hs; rw [hs]; exact ⟨_, rfl⟩
  · have : e.1 = (b, a) := by cases e with | mk k s' => cases k; simp_all
    rw [this] at hs
    cases h' : n.findSeg (a, b) with
    | some s' => exact ⟨_, rfl⟩
    | none => simp only [hs]; exact ⟨_, rfl⟩

/-! ### next_node -/

/-- `next_node` returns a neighbour, or the node itself when it has none. -/
theorem mem_nextNodes {n : Net} {pref : Bool} {node m : NodeId} {ign : List NodeId}
    (h : m ∈ n.nextNodes pref node ign) :
    m ∈ n.neighbours node ∨ (n.neighbours node = [] ∧ m = node) := by
  unfold Net.nextNodes at h
  split at h
  · next hnb => right; exact ⟨hnb, by simpa using h⟩
  · next x hnb => left; rw [hnb]; exact h
  · next all _ _ =>
    cases pref with
    | false => left; simpa using h
    | true =>
      simp only [if_true] at h
      split at h
      · left; exact h
      · left; exact (List.mem_filter.mp h).1

/-- `next_node` with the preference never returns a visited node while an unvisited neighbour exists. -/
theorem nextNodes_unvisited {n : Net} {node m u : NodeId} {ign : List NodeId}
    (h : m ∈ n.nextNodes true node ign) (hu : u ∈ n.neighbours node) (hui : u ∉ ign) : m ∉ ign := by
  unfold Net.nextNodes at h
  split at h
  · next hnb => rw [hnb] at hu; exact absurd hu (by simp)
  · next x hnb =>
    rw [hnb] at hu
    have h1 : u = x := by simpa using hu
    have h2 : m = x := by simpa using h
    rw [h2, ← h1]; exact hui
  · next all _ _ =>
    simp only [if_true] at h
    split at h
    · next hf =>
      have : u ∈ List.filter (fun m => !ign.contains m) (n.neighbours node) := by
        rw [List.mem_filter]; exact ⟨hu, by simpa using hui⟩
      rw [List.isEmpty_iff] at hf
      rw [hf] at this; exact absurd this (by simp)
    · have := (List.mem_filter.mp h).2
      simpa using this

/-- The choices with the preference are among the choices without it. -/
theorem nextNodes_pref_subset {n : Net} {node m : NodeId} {ign : List NodeId}
    (h : m ∈ n.nextNodes true node ign) : m ∈ n.nextNodes false node ign := by
  have h0 := mem_nextNodes h
  unfold Net.nextNodes at h ⊢
  split
  · next hnb => rw [hnb] at h; simpa using h
  · next x hnb => rw [hnb] at h; simpa using h
  · next all h1 h2 =>
    simp only [Bool.false_eq_true, if_false]
    rcases h0 with h0 | ⟨h0, _⟩
    · exact h0
    · exact absurd h0 h1

/-! ### the fuelled loop is sound for the derivations -/

theorem walkFrom_sound (n : Net) (pref jump : Bool) (start : Cell) :
    ∀ (fuel : Nat) (node : NodeId) (vis : List NodeId) (d : Rat) (o : Outcome),
      o ∈ n.walkFrom pref jump start fuel node vis d →
      o = .diverge ∨ Trip n pref jump start node vis d o := by
  intro fuel
  induction fuel with
  | zero =>
    intro node vis d o h
    unfold Net.walkFrom at h
    split at h
    · next hd => right; have : o = .err .invalid_argument := by simpa using h
                 rw [this]; exact Trip.negative hd
    · left; simpa using h
  | succ f ih =>
    intro node vis d o h
    unfold Net.walkFrom at h
    split at h
    · next hd => right; have : o = .err .invalid_argument := by simpa using h
                 rw [this]; exact Trip.negative hd
    · next hd =>
      have hd0 : 0 ≤ d := Rat.not_lt.mp hd
      obtain ⟨nxt, hn, ho⟩ := List.mem_flatMap.mp h
      by_cases hne : nxt = node
      · right
        simp only [hne, if_true] at ho
        have : o = .at start := by simpa using ho
        rw [this]; exact Trip.home hd0 (hne ▸ hn)
      · simp only [hne, if_false] at ho
        have hnb : nxt ∈ n.neighbours node := by
          rcases mem_nextNodes hn with h1 | ⟨_, h2⟩
          · exact h1
          · exact absurd h2 hne
        obtain ⟨v, hv⟩ := getSegment_of_neighbour hnb
        rw [hv] at ho
        simp only at ho
        split at ho
        · next hc =>
          rcases ih nxt (node :: vis) (d - v.cost) o ho with h1 | h1
          · left; exact h1
          · right; exact Trip.pass hd0 hn hne hv hc h1
        · next hc =>
          right
          have : o = Net.finish jump v d := by simpa using ho
          rw [this]; exact Trip.stop hd0 hn hne hv (Rat.not_lt.mp hc)

/-- A derivation with the preference is a derivation without it (cost accounting is the same). -/
theorem Trip.relax {n : Net} {jump : Bool} {start : Cell} {node : NodeId} {vis : List NodeId}
    {d : Rat} {o : Outcome} (h : Trip n true jump start node vis d o) :
    Trip n false jump start node vis d o := by
  induction h with
  | negative hd => exact Trip.negative hd
  | home hd hn => exact Trip.home hd (nextNodes_pref_subset hn)
  | pass hd hn hne hs hc _ ih => exact Trip.pass hd (nextNodes_pref_subset hn) hne hs hc ih
  | stop hd hn hne hs hc => exact Trip.stop hd (nextNodes_pref_subset hn) hne hs hc

/-! ### fuel -/

theorem minCost_le {n : Net} {e : Key × Segment} (he : e ∈ n.segs) : n.minCost ≤ e.2.cost := by
  unfold Net.minCost
  have key : ∀ (l : List (Key × Segment)) (m0 : Rat),
      (l.foldl (fun m e' => if e'.2.cost < m then e'.2.cost else m) m0 ≤ m0) ∧
      ∀ x ∈ l, l.foldl (fun m e' => if e'.2.cost < m then e'.2.cost else m) m0 ≤ x.2.cost := by
    intro l
    induction l with
    | nil => intro m0; exact ⟨Rat.le_refl, by simp⟩
    | cons y ys ih =>
      intro m0
      simp only [List.foldl_cons]
      obtain ⟨h1, h2⟩ := ih (if y.2.cost < m0 then y.2.cost else m0)
      constructor
      · split at h1 <;> grind
      · intro x hx
        rcases List.mem_cons.mp hx with hx | hx
        · subst hx; split at h1 <;> grind
        · exact h2 x hx
  cases hs : n.segs with
  | nil => rw [hs] at he; exact absurd he (by simp)
  | cons y ys =>
    simp only
    rw [hs] at he
    rcases List.mem_cons.mp he with hx | hx
    · subst hx; exact (key ys e.2.cost).1
    · exact (key ys y.2.cost).2 e hx

theorem minCost_pos {n : Net} (h : ∀ e ∈ n.segs, 0 < e.2.cost) : 0 < n.minCost := by
  unfold Net.minCost
  have key : ∀ (l : List (Key × Segment)) (m0 : Rat), 0 < m0 → (∀ e ∈ l, 0 < e.2.cost) →
      0 < l.foldl (fun m e' => if e'.2.cost < m then e'.2.cost else m) m0 := by
    intro l
    induction l with
    | nil => intro m0 h0 _; exact h0
    | cons y ys ih =>
      intro m0 h0 hl
      simp only [List.foldl_cons]
      apply ih
      · split
        · exact hl y (by simp)
        · exact h0
      · intro e he; exact hl e (by simp [he])
  cases hs : n.segs with
  | nil => simp only; grind
  | cons y ys =>
    simp only
    rw [hs] at h
    exact key ys _ (h y (by simp)) (fun e he => h e (by simp [he]))

/-- With `d < fuel * m` and every segment costing at least `m > 0`, the loop never runs dry. -/
theorem walkFrom_no_diverge (n : Net) (pref jump : Bool) (start : Cell) (m : Rat)
    (hcost : ∀ e ∈ n.segs, m ≤ e.2.cost) :
    ∀ (fuel : Nat) (node : NodeId) (vis : List NodeId) (d : Rat), d < (fuel : Rat) * m →
      Outcome.diverge ∉ n.walkFrom pref jump start fuel node vis d := by
  intro fuel
  induction fuel with
  | zero =>
    intro node vis d hd h
    have hd' : d < 0 := by simpa using hd
    unfold Net.walkFrom at h
    simp [hd'] at h
  | succ f ih =>
    intro node vis d hd h
    unfold Net.walkFrom at h
    split at h
    · simp at h
    · obtain ⟨nxt, hn, ho⟩ := List.mem_flatMap.mp h
      split at ho
      · simp at ho
      · split at ho
        · simp at ho
        · next v hv =>
          split at ho
          · next hc =>
            obtain ⟨e, he, hseg, _⟩ := getSegment_some hv
            have hmc : m ≤ v.cost := by
              have := hcost e he
              simp only [SegView.cost, hseg]; exact this
            have hcast : ((f + 1 : Nat) : Rat) = (f : Rat) + 1 := by simp
            rw [hcast] at hd
            have : d - v.cost < (f : Rat) * m := by grind
            exact ih nxt (node :: vis) (d - v.cost) this ho
          · have : Outcome.diverge = Net.finish jump v d := by simpa using ho
            unfold Net.finish at this
            split at this
            · split at this <;> simp at this
            · split at this <;> simp at this

theorem lt_walkFuel_mul {n : Net} (hpos : 0 < n.minCost) (d : Rat) :
    d < ((n.walkFuel d : Nat) : Rat) * n.minCost := by
  unfold Net.walkFuel
  have h1 := Rat.lt_floor_add_one (d / n.minCost)
  have h2 : ((d / n.minCost).floor + 1 : Int) ≤ (((d / n.minCost).floor.toNat + 1 : Nat) : Int) := by
    omega
  have h3 := Rat.intCast_le_intCast.mpr h2
  rw [Rat.intCast_natCast] at h3
  have h4 : d / n.minCost < (((d / n.minCost).floor.toNat + 1 : Nat) : Rat) := by grind
  exact (Rat.div_lt_iff hpos).mp h4

/-! ### the cell reached on the last segment -/

theorem lround_bounds {q : Rat} {k : Nat} (h0 : 0 ≤ q) (hk : q ≤ (k : Rat)) :
    0 ≤ lround q ∧ lround q ≤ (k : Int) := by
  unfold lround
  simp only [h0, if_true]
  constructor
  · apply Rat.le_floor_iff.mpr
    have : ((0 : Int) : Rat) = 0 := by simp
    rw [this]; grind
  · have : (q + 1 / 2).floor < (k : Int) + 1 := by
      apply Rat.floor_lt_iff.mpr
      have : (((k : Int) + 1 : Int) : Rat) = (k : Rat) + 1 := by
        rw [Rat.intCast_add, Rat.intCast_natCast]; rfl
      rw [this]; grind
    omega


theorem costPerCell_spec {s : Segment} (h2 : 2 ≤ s.cells.length) (hc : 0 < s.cost) :
    0 < s.costPerCell ∧ (s.steps : Rat) * s.costPerCell = s.cost := by
  have hk : 0 < s.steps := by unfold Segment.steps; omega
  have hkr : (0 : Rat) < (s.steps : Rat) := Rat.natCast_pos.mpr hk
  have hk0 : (s.steps : Rat) ≠ 0 := by grind
  unfold Segment.cost at hc ⊢
  unfold Segment.costPerCell
  by_cases ht : s.total ≠ 0
  · simp only [if_pos ht] at hc ⊢
    refine ⟨?_, ?_⟩
    · rw [Rat.div_def]; exact Rat.mul_pos hc (Rat.inv_pos.mpr hkr)
    · rw [Rat.mul_comm]; exact Rat.div_mul_cancel hk0
  · simp only [if_neg ht] at hc ⊢
    exact ⟨(Rat.mul_pos_iff_of_pos_left hkr).mp hc, trivial⟩

/-- The index computed on the last segment is inside the segment. -/
theorem index_in_range {s : Segment} (h2 : 2 ≤ s.cells.length) (hc : 0 < s.cost) {d : Rat}
    (hd0 : 0 ≤ d) (hd : d ≤ s.cost) :
    0 ≤ s.indexFromCost d ∧ s.indexFromCost d ≤ (s.steps : Int) := by
  obtain ⟨hpos, hmul⟩ := costPerCell_spec h2 hc
  unfold Segment.indexFromCost
  apply lround_bounds
  · apply Rat.not_lt.mp
    intro h
    have := (Rat.div_lt_iff hpos).mp h
    grind
  · apply Rat.not_lt.mp
    intro h
    have := (Rat.lt_div_iff hpos).mp h
    grind

/-- Without snapping the trip ends at cell number `lround(d / cost_per_cell)` of the view, which
    exists. -/
theorem finish_walk {v : SegView} (hlen : v.cells.length = v.seg.cells.length)
    (h2 : 2 ≤ v.seg.cells.length) (hc : 0 < v.seg.cost) {d : Rat} (hd0 : 0 ≤ d) (hd : d ≤ v.cost) :
    ∃ (i : Nat) (x : Cell), (i : Int) = lround (d / v.costPerCell) ∧ i ≤ v.cells.length - 1 ∧
      v.cells[i]? = some x ∧ Net.finish false v d = .at x := by
  obtain ⟨h0, h1⟩ := index_in_range h2 hc hd0 hd
  have hi : (v.seg.indexFromCost d).toNat < v.cells.length := by
    unfold Segment.steps at h1; omega
  refine ⟨(v.seg.indexFromCost d).toNat, v.cells[(v.seg.indexFromCost d).toNat], ?_, ?_, ?_, ?_⟩
  · have : ((v.seg.indexFromCost d).toNat : Int) = v.seg.indexFromCost d := by omega
    rw [this]; rfl
  · omega
  · exact List.getElem?_eq_getElem hi
  · unfold Net.finish SegView.cellByCost
    have hneg : ¬ v.seg.indexFromCost d < 0 := by omega
    simp [hneg, List.getElem?_eq_getElem hi]

/-- With snapping the trip ends on an end node of the segment: the one just left if less than half
    of the segment was travelled, the far one from exactly half on. -/
theorem finish_jump (v : SegView) (d : Rat) :
    Net.finish true v d = if d < v.cost / 2 then .at v.front else .at v.back := by
  unfold Net.finish; simp

/-- The cells a trip can end on belong to the view (the view must not be empty for snapping). -/
theorem finish_mem {jump : Bool} {v : SegView} {d : Rat} {x : Cell} (hne : v.cells ≠ [])
    (h : Net.finish jump v d = .at x) : x ∈ v.cells := by
  unfold Net.finish at h
  split at h
  · split at h
    · have : v.front = x := by simpa using h
      rw [← this]; unfold SegView.front
      cases hv : v.cells with
      | nil => exact absurd hv hne
      | cons a t => simp
    · have : v.back = x := by simpa using h
      rw [← this]; unfold SegView.back
      cases hv : v.cells with
      | nil => exact absurd hv hne
      | cons a t => rw [List.getLastD_eq_getLast?]; simp [List.getLast?_eq_some_getLast, List.getLast_mem]
  · split at h
    · next c hc =>
      have : c = x := by simpa using h
      subst this
      unfold SegView.cellByCost at hc
      simp only at hc
      split at hc
      · exact absurd hc (by simp)
      · exact List.mem_of_getElem? hc
    · exact absurd h (by simp)

/-- C15 (stays on the network), derivation level. -/
theorem Trip.on_network {n : Net} (hne : ∀ e ∈ n.segs, e.2.cells ≠ []) {pref jump : Bool}
    {start : Cell} {node : NodeId} {vis : List NodeId} {d : Rat} {o : Outcome}
    (h : Trip n pref jump start node vis d o) (x : Cell) (ho : o = .at x) :
    onNetwork n start x = true := by
  induction h with
  | negative hd => exact absurd ho (by simp)
  | home hd hn =>
    have : start = x := by simpa using ho
    simp [onNetwork, this]
  | pass hd hn hne' hs hc _ ih => exact ih ho
  | stop hd hn hne' hs hc =>
    rename_i v
    obtain ⟨e, he, hseg, hcells⟩ := getSegment_some hs
    have hvne : v.cells ≠ [] := by
      rcases hcells with ⟨_, h⟩ | ⟨_, h⟩
      · rw [h]; exact hne e he
      · rw [h]; simpa using hne e he
    have hx := finish_mem hvne ho
    have hx' : x ∈ e.2.cells := by
      rcases hcells with ⟨_, h⟩ | ⟨_, h⟩
      · rw [h] at hx; exact hx
      · rw [h] at hx; simpa using hx
    simp only [onNetwork, Bool.or_eq_true, List.any_eq_true]
    right
    exact ⟨e, he, by simpa using hx'⟩

/-! ### nodes and their cells -/

theorem mem_nodePlaces {n : Net} {a : NodeId} {c : Cell} :
    (a, c) ∈ n.nodePlaces ↔
      ∃ e ∈ n.segs, (a = e.1.1 ∧ c = e.2.front) ∨ (a = e.1.2 ∧ c = e.2.back) := by
  simp only [Net.nodePlaces, List.mem_flatMap, List.mem_cons, Prod.mk.injEq, List.not_mem_nil,
    or_false]

theorem mem_nodesAt {n : Net} {a : NodeId} {c : Cell} : a ∈ n.nodesAt c ↔ (a, c) ∈ n.nodePlaces := by
  simp only [Net.nodesAt, List.mem_map, List.mem_filter, decide_eq_true_eq]
  constructor
  · rintro ⟨p, ⟨hp, hc⟩, ha⟩
    cases p with | mk p1 p2 => simp only at hc ha; subst hc; subst ha; exact hp
  · intro h; exact ⟨(a, c), ⟨h, rfl⟩, rfl⟩

theorem hasNodeAt_iff {n : Net} {c : Cell} : n.hasNodeAt c = true ↔ ∃ a, a ∈ n.nodesAt c := by
  unfold Net.hasNodeAt
  cases h : n.nodesAt c with
  | nil => simp
  | cons a t => simp

/-- Both ends of a stored segment are node cells. -/
theorem segment_ends_are_nodes {n : Net} {e : Key × Segment} (he : e ∈ n.segs) :
    isNodeCell n e.2.front = true ∧ isNodeCell n e.2.back = true := by
  unfold isNodeCell
  constructor
  · exact hasNodeAt_iff.mpr ⟨e.1.1, mem_nodesAt.mpr (mem_nodePlaces.mpr ⟨e, he, Or.inl ⟨rfl, rfl⟩⟩)⟩
  · exact hasNodeAt_iff.mpr ⟨e.1.2, mem_nodesAt.mpr (mem_nodePlaces.mpr ⟨e, he, Or.inr ⟨rfl, rfl⟩⟩)⟩

/-- Ends of a view = ends of the stored segment, possibly exchanged. -/
theorem view_ends {n : Net} {a b : NodeId} {v : SegView} (hs : n.getSegment a b = some v)
    (hne : ∀ e ∈ n.segs, e.2.cells ≠ []) :
    ∃ e ∈ n.segs, (v.front = e.2.front ∧ v.back = e.2.back) ∨ (v.front = e.2.back ∧ v.back = e.2.front) := by
  obtain ⟨e, he, _, hcells⟩ := getSegment_some hs
  refine ⟨e, he, ?_⟩
  rcases hcells with ⟨_, h'⟩ | ⟨_, h'⟩
  · left; simp [SegView.front, SegView.back, Segment.front, Segment.back, h']
  · right
    cases hc' : e.2.cells with
    | nil => exact absurd hc' (hne e he)
    | cons x t =>
      simp only [SegView.front, SegView.back, Segment.front, Segment.back, h', hc']
      constructor
      · rw [List.getLastD_eq_getLast?, List.headD_eq_head?_getD, List.head?_reverse]
      · rw [List.getLastD_eq_getLast?, List.getLast?_reverse]; simp

/-- Derivation level: without snapping, for well-formed networks, a trip with `d ≥ 0` ends on a cell. -/
theorem Trip.ends_at_cell {n : Net} (hwf : n.WF) {pref : Bool} {start : Cell} {node : NodeId}
    {vis : List NodeId} {d : Rat} {o : Outcome} (h : Trip n pref false start node vis d o)
    (hd : 0 ≤ d) : ∃ x, o = .at x := by
  induction h with
  | negative hd' => exact absurd hd' (by grind)
  | home _ _ => exact ⟨start, rfl⟩
  | pass hd' hn hne hs hc _ ih => exact ih (by grind)
  | stop hd' hn hne hs hc =>
    rename_i v
    obtain ⟨e, he, hseg, hcells⟩ := getSegment_some hs
    have hlen : v.cells.length = v.seg.cells.length := by
      rcases hcells with ⟨_, h'⟩ | ⟨_, h'⟩ <;> rw [h', hseg] <;> simp
    obtain ⟨i, x, _, _, _, hfin⟩ :=
      finish_walk hlen (hseg ▸ hwf.twoCells e he) (hseg ▸ hwf.costPos e he) hd' hc
    exact ⟨x, hfin⟩

/-- Derivation level: a snapped trip ends on a node cell. -/
theorem Trip.jump_ends_at_node {n : Net} (hne : ∀ e ∈ n.segs, e.2.cells ≠ []) {pref : Bool}
    {start : Cell} (hstart : isNodeCell n start = true) {node : NodeId} {vis : List NodeId}
    {d : Rat} {o : Outcome} (h : Trip n pref true start node vis d o) (x : Cell) (ho : o = .at x) :
    isNodeCell n x = true := by
  induction h with
  | negative _ => exact absurd ho (by simp)
  | home _ _ =>
    have : start = x := by simpa using ho
    rw [← this]; exact hstart
  | pass _ _ _ _ _ _ ih => exact ih ho
  | stop hd' hn hne' hs hc =>
    rename_i v
    obtain ⟨e, he, hfb⟩ := view_ends hs hne
    obtain ⟨hf, hb⟩ := segment_ends_are_nodes he
    rw [finish_jump] at ho
    split at ho
    · have : v.front = x := by simpa using ho
      rcases hfb with ⟨h1, _⟩ | ⟨h1, _⟩ <;> rw [← this, h1] <;> assumption
    · have : v.back = x := by simpa using ho
      rcases hfb with ⟨_, h1⟩ | ⟨_, h1⟩ <;> rw [← this, h1] <;> assumption

/-! ### teleport -/

theorem minCell_mem {l : List Cell} {x : Cell} (h : Net.minCell l = some x) : x ∈ l := by
  induction l generalizing x with
  | nil => simp [Net.minCell] at h
  | cons c t ih =>
    unfold Net.minCell at h
    split at h
    · have : c = x := by simpa using h
      simp [this]
    · next m hm =>
      split at h
      · have : m = x := by simpa using h
        rw [← this]; exact List.mem_cons_of_mem _ (ih hm)
      · have : c = x := by simpa using h
        simp [this]

/-- `get_node_row_col` returns a cell that holds the node. -/
theorem nodeCell_mem {n : Net} {m : NodeId} {x : Cell} (h : n.nodeCell m = some x) :
    m ∈ n.nodesAt x := by
  have := minCell_mem h
  simp only [List.mem_map, List.mem_filter, decide_eq_true_eq] at this
  obtain ⟨p, ⟨hp, hm⟩, hx⟩ := this
  apply mem_nodesAt.mpr
  cases p with | mk p1 p2 => simp only at hm hx; subst hm; subst hx; exact hp

/-- `next_probable_node` returns a neighbour, or the node itself when it has none. -/
theorem mem_teleportTargets {n : Net} {a m : NodeId} (h : m ∈ n.teleportTargets a) :
    m ∈ n.neighbours a ∨ (n.neighbours a = [] ∧ m = a) := by
  unfold Net.teleportTargets at h
  split at h
  · next hnb => right; exact ⟨hnb, by simpa using h⟩
  · next y hnb => left; rw [hnb]; exact h
  · next nb _ _ =>
    left
    simp only at h
    split at h
    · exact h
    · split at h
      · exact h
      · simp only [List.mem_map, List.mem_filter] at h
        obtain ⟨p, ⟨hp, _⟩, hm⟩ := h
        rw [← hm]; exact (List.of_mem_zip hp).1

/-! ### the driver's early-exit membership test is list membership -/

theorem contains_flatMap' {α β : Type} [BEq β] (l : List α) (f : α → List β) (t : β) :
    (l.flatMap f).contains t = l.any (fun a => (f a).contains t) := by
  simp only [List.contains_eq_any_beq, List.any_flatMap]

theorem walkHas_eq (n : Net) (pref jump : Bool) (start : Cell) (t : Outcome) :
    ∀ (fuel : Nat) (node : NodeId) (vis : List NodeId) (d : Rat),
      n.walkHas pref jump start t fuel node vis d = (n.walkFrom pref jump start fuel node vis d).contains t := by
  intro fuel
  induction fuel with
  | zero => intro node vis d; unfold Net.walkHas Net.walkFrom; split <;> rfl
  | succ f ih =>
    intro node vis d
    unfold Net.walkHas Net.walkFrom
    split
    · rfl
    · rw [contains_flatMap']
      congr 1
      funext nxt
      split
      · rfl
      · split
        · rfl
        · split
          · exact ih _ _ _
          · rfl

theorem walkGHas_eq (n : Net) (pref : Bool) (c : Cell) (d : Rat) (jump : Bool) (t : Outcome) :
    n.walkGHas pref c d jump t = (n.walkG pref c d jump).contains t := by
  unfold Net.walkGHas Net.walkG
  split
  · rfl
  · rw [contains_flatMap']
    congr 1
    funext nd
    exact walkHas_eq n pref jump c t _ nd [] d

end Pops.Net
