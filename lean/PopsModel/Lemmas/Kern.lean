/-
  Lemmas for C13 (core Lean only): rounding on `Rat`, name tables, neighbour / uniform / mix facts.
-/
import PopsModel.Model.Kern
namespace Pops

/-! ### `lround` on rationals -/

theorem lround_intCast (m : Int) : lround (m : Rat) = m := by
  unfold lround
  by_cases h : 0 ≤ (m : Rat)
  · rw [if_pos h]
    have h1 : m ≤ ((m : Rat) + 1 / 2).floor := Rat.le_floor_iff.mpr (by grind)
    have h2 : ((m : Rat) + 1 / 2).floor < m + 1 := Rat.floor_lt_iff.mpr (by
      rw [Rat.intCast_add]; simp only [Rat.intCast_one]; grind)
    omega
  · rw [if_neg h]
    have h1 : -m ≤ (-(m : Rat) + 1 / 2).floor := Rat.le_floor_iff.mpr (by
      rw [Rat.intCast_neg]; grind)
    have h2 : (-(m : Rat) + 1 / 2).floor < -m + 1 := Rat.floor_lt_iff.mpr (by
      rw [Rat.intCast_add, Rat.intCast_neg]; simp only [Rat.intCast_one]; grind)
    omega

theorem lround_zero : lround 0 = 0 := lround_intCast 0

/-- `lround` is odd: rounding is symmetric about zero (halves away from zero on both sides). -/
theorem lround_neg (q : Rat) : lround (-q) = -lround q := by
  by_cases hq : q = 0
  · subst hq; rw [Rat.neg_zero, lround_zero]; rfl
  unfold lround
  by_cases h1 : 0 ≤ q <;> by_cases h2 : 0 ≤ -q
  · exfalso; apply hq; grind
  · rw [if_pos h1, if_neg h2, Rat.neg_neg]
  · rw [if_neg h1, if_pos h2]; omega
  · exfalso; grind

/-- The rounded value is within half a unit of the exact quotient. -/
theorem lround_close (q : Rat) : (lround q : Rat) - q ≤ 1 / 2 ∧ q - (lround q : Rat) ≤ 1 / 2 := by
  unfold lround
  by_cases h : 0 ≤ q
  · rw [if_pos h]
    have h1 := Rat.floor_le (q + 1 / 2)
    have h2 := Rat.lt_floor_add_one (q + 1 / 2)
    rw [Rat.intCast_add] at h2; simp only [Rat.intCast_one] at h2
    constructor <;> grind
  · rw [if_neg h]
    have h1 := Rat.floor_le (-q + 1 / 2)
    have h2 := Rat.lt_floor_add_one (-q + 1 / 2)
    rw [Rat.intCast_add] at h2; simp only [Rat.intCast_one] at h2
    rw [Rat.intCast_neg]
    constructor <;> grind

theorem kern_lround_nonneg {q : Rat} (h : 0 ≤ q) : 0 ≤ lround q := by
  unfold lround; rw [if_pos h]
  exact Rat.le_floor_iff.mpr (by simp only [Rat.intCast_zero]; grind)

theorem lround_nonpos {q : Rat} (h : q ≤ 0) : lround q ≤ 0 := by
  have := kern_lround_nonneg (q := -q) (by grind)
  rw [lround_neg] at this; omega

/-! ### Name tables -/

theorem kernelSpellings_ok :
    ∀ p ∈ kernelSpellings, kernelTypeFromString p.1 = .ok p.2 ∧ NamesKernel p.1 p.2 := by decide

theorem directionTable_ok :
    ∀ p ∈ directionTable, directionFromString p.1 = .ok p.2 ∧ NamesDirection p.1 p.2 := by decide

theorem kernelTypeFromString_other (s : String) (h : ∀ p ∈ kernelSpellings, s ≠ p.1) :
    kernelTypeFromString s = .error .invalid_argument := by
  simp only [kernelSpellings, List.mem_cons, List.not_mem_nil, or_false, forall_eq_or_imp, forall_eq,
    ne_eq] at h
  simp [kernelTypeFromString, h]

theorem kernelTypeFromString_ok_mem (s : String) (k : DispersalKernelType)
    (h : kernelTypeFromString s = .ok k) : (s, k) ∈ kernelSpellings := by
  by_cases hs : ∀ p ∈ kernelSpellings, s ≠ p.1
  · rw [kernelTypeFromString_other s hs] at h; cases h
  · have ⟨p, hp⟩ := Classical.not_forall.mp hs
    have ⟨hmem, heq⟩ := Classical.not_imp.mp hp
    have heq : s = p.1 := Classical.not_not.mp heq
    have := (kernelSpellings_ok p hmem).1
    rw [← heq, h] at this
    injection this with this
    have hp' : p = (s, k) := by rw [heq, this]
    rw [← hp']; exact hmem

theorem directionFromString_other (s : String) (h : ∀ p ∈ directionTable, s ≠ p.1) :
    directionFromString s = .error .invalid_argument := by
  simp only [directionTable, List.mem_cons, List.not_mem_nil, or_false, forall_eq_or_imp, forall_eq,
    ne_eq] at h
  simp only [← ne_eq, ← beq_eq_false_iff_ne] at h
  simp [directionFromString, directionTable, List.lookup, h]

theorem directionFromString_ok_mem (s : String) (d : Direction)
    (h : directionFromString s = .ok d) : (s, d) ∈ directionTable := by
  by_cases hs : ∀ p ∈ directionTable, s ≠ p.1
  · rw [directionFromString_other s hs] at h; cases h
  · have ⟨p, hp⟩ := Classical.not_forall.mp hs
    have ⟨hmem, heq⟩ := Classical.not_imp.mp hp
    have heq : s = p.1 := Classical.not_not.mp heq
    have := (directionTable_ok p hmem).1
    rw [← heq, h] at this
    injection this with this
    have hp' : p = (s, d) := by rw [heq, this]
    rw [← hp']; exact hmem

/-- The only exception either lookup raises is `invalid_argument`. -/
theorem kernelTypeFromString_err (s : String) (e : ErrKind) (h : kernelTypeFromString s = .error e) :
    e = .invalid_argument := by
  by_cases hs : ∀ p ∈ kernelSpellings, s ≠ p.1
  · rw [kernelTypeFromString_other s hs] at h; injection h with h; exact h.symm
  · have ⟨p, hp⟩ := Classical.not_forall.mp hs
    have ⟨hmem, heq⟩ := Classical.not_imp.mp hp
    have heq : s = p.1 := Classical.not_not.mp heq
    have := (kernelSpellings_ok p hmem).1
    rw [← heq, h] at this; cases this

theorem directionFromString_err (s : String) (e : ErrKind) (h : directionFromString s = .error e) :
    e = .invalid_argument := by
  unfold directionFromString at h
  split at h
  · cases h
  · injection h with h; exact h.symm

/-! ### Neighbour kernel -/

theorem neighbor_in_direction (d : Direction) (hd : d ≠ .none) (row col : Int) :
    ∃ t, neighborKernel d row col = .ok t ∧ NeighborInDirection d row col t := by
  cases d <;> first
    | exact absurd rfl hd
    | (refine ⟨_, rfl, ?_⟩
       simp only [NeighborInDirection, chebyshev, Direction.northSign, Direction.eastSign]
       refine ⟨?_, ?_, ?_⟩ <;> first | trivial | omega)

theorem neighbor_none (row col : Int) : neighborKernel .none row col = .error .invalid_argument := rfl

/-! ### Uniform kernel -/

theorem uniform_inside (rows cols row col dr dc : Int)
    (h : (UniformKernel.make rows cols).InRange dr dc) :
    InLandscape rows cols ((UniformKernel.make rows cols).call row col dr dc) := by
  simp only [UniformKernel.InRange, UniformKernel.make] at h
  simp only [InLandscape, UniformKernel.call]
  omega

theorem uniform_reach (rows cols row col : Int) (c : Int × Int) (h : InLandscape rows cols c) :
    ∃ dr dc, (UniformKernel.make rows cols).InRange dr dc ∧
      (UniformKernel.make rows cols).call row col dr dc = c := by
  refine ⟨c.1, c.2, ?_, rfl⟩
  simp only [InLandscape] at h
  simp only [UniformKernel.InRange, UniformKernel.make]
  omega

theorem uniform_injective (k : UniformKernel) (row col dr dc dr' dc' : Int)
    (h : k.call row col dr dc = k.call row col dr' dc') : dr = dr' ∧ dc = dc' := by
  simp only [UniformKernel.call, Prod.mk.injEq] at h; exact h

/-! ### Mix -/

theorem mix_iff (enabled eligible : Bool) (u p : Rat) :
    mixUsesAnthropogenic enabled eligible u p = true ↔ enabled = true ∧ eligible = true ∧ p ≤ u := by
  cases enabled <;> cases eligible <;> simp [mixUsesAnthropogenic, mixNatural, Rat.not_lt]

theorem count_ge (n m : Nat) : ((List.range n).filter fun k => decide (m ≤ k)).length = n - m := by
  induction n with
  | zero => simp
  | succ n ih =>
    rw [List.range_succ, List.filter_append, List.length_append, ih]
    by_cases h : m ≤ n
    · simp [h]; omega
    · simp [h]; omega

end Pops
