/-
  Helper lemmas for the mechanism properties C05 (L = 0) and C11 (mortality).
-/
import PopsModel.Lemmas.HostMech
namespace Pops

/-! ### C05: latency zero equals SI -/

theorem mech_addLast_addLast (m : List Int) (a b : Int) :
    addLast (addLast m a) b = addLast m (a + b) := by
  induction m with
  | nil => rfl
  | cons x t ih => cases t with
    | nil => simp only [addLast]; congr 1; omega
    | cons y t' =>
      cases h : addLast (y :: t') a with
      | nil => have := mech_addLast_length (y :: t') a; rw [h] at this; simp at this
      | cons z t'' =>
        simp only [addLast, h]
        rw [← h, ih]

theorem mech_addLast_zero (m : List Int) : addLast m 0 = m := by
  induction m with
  | nil => rfl
  | cons x t ih => cases t with
    | nil => simp only [addLast, Int.add_zero]
    | cons y t' => simp only [addLast, ih]

theorem mech_step0_singleton (step : Nat) (c : Cell) (k : Int) (h : c.e = [k]) :
    c.stepForward .sei 0 step =
      { c with i := c.i + k, mort := addLast c.mort k, te := c.te - k, e := [0] } := by
  unfold Cell.stepForward
  simp only [ge_iff_le, Nat.zero_le, if_true, h, rotateLeft, List.nil_append]

theorem mech_step0_comm (step : Nat) (c : Cell) (k : Int) (h : c.e = [k]) :
    ((c.addDisperserAt .sei).1).stepForward .sei 0 step =
      ((c.stepForward .sei 0 step).addDisperserAt .si).1 ∧
    ∃ k', (c.addDisperserAt .sei).1.e = [k'] := by
  by_cases hs : c.s ≤ 0
  · have h1 : c.addDisperserAt .sei = (c, 0) := by
      unfold Cell.addDisperserAt; simp only [hs, if_true]
    have hs2 : (c.stepForward .sei 0 step).s ≤ 0 := by
      rw [mech_step0_singleton step c k h]; exact hs
    have h2 : (c.stepForward .sei 0 step).addDisperserAt .si = (c.stepForward .sei 0 step, 0) := by
      unfold Cell.addDisperserAt; simp only [hs2, if_true]
    rw [h1, h2]; exact ⟨rfl, k, h⟩
  · have hs' : 0 < c.s := by omega
    have hs2 : 0 < (c.stepForward .sei 0 step).s := by
      rw [mech_step0_singleton step c k h]; exact hs'
    rw [mech_addDisperserAt_pos .sei c hs', mech_addDisperserAt_pos .si _ hs2]
    have he : (mech_landed .sei c).e = [k + 1] := by
      simp only [mech_landed, h, addLast]
    refine ⟨?_, k + 1, he⟩
    rw [mech_step0_singleton step _ (k + 1) he, mech_step0_singleton step c k h]
    simp only [mech_landed, mech_addLast_addLast, Cell.mk.injEq, true_and, and_true]
    omega

theorem mech_addN_si_e (add : Nat → Cell → Cell) (h0 : ∀ c, add 0 c = c)
    (h1 : ∀ n c, add (n + 1) c = add n (c.addDisperserAt .si).1) (n : Nat) :
    ∀ c, (add n c).e = c.e ∧ (add n c).te = c.te := by
  induction n with
  | zero => intro c; rw [h0]; exact ⟨rfl, rfl⟩
  | succ n ih =>
    intro c
    rw [h1]
    obtain ⟨a, b⟩ := ih (c.addDisperserAt .si).1
    rw [a, b]
    unfold Cell.addDisperserAt
    split <;> exact ⟨rfl, rfl⟩

theorem mech_C05_L0 (add : ModelType → Nat → Cell → Cell) (h0 : ∀ mt c, add mt 0 c = c)
    (h1 : ∀ mt n c, add mt (n + 1) c = add mt n (c.addDisperserAt mt).1) (step n : Nat) :
    ∀ (c : Cell) (k : Int), c.e = [k] →
      (add .sei n c).stepForward .sei 0 step = add .si n (c.stepForward .sei 0 step) := by
  induction n with
  | zero => intro c k _; rw [h0, h0]
  | succ n ih =>
    intro c k h
    obtain ⟨hc, k', hk'⟩ := mech_step0_comm step c k h
    rw [h1, h1, ih _ k' hk', hc]

theorem mech_C05_L0_equals_SI (add : ModelType → Nat → Cell → Cell) (h0 : ∀ mt c, add mt 0 c = c)
    (h1 : ∀ mt n c, add mt (n + 1) c = add mt n (c.addDisperserAt mt).1) (n step : Nat) (c : Cell)
    (he : c.e = [0]) (hte : c.te = 0) :
    (add .sei n c).stepForward .sei 0 step = { add .si n c with e := [0], te := 0 } := by
  have hc : c.stepForward .sei 0 step = c := by
    rw [mech_step0_singleton step c 0 he]
    cases c
    simp only [Cell.mk.injEq, true_and, and_true] at *
    simp only [mech_addLast_zero, he, hte]
    refine ⟨trivial, ?_, ?_, trivial⟩ <;> omega
  rw [mech_C05_L0 add h0 h1 step n c 0 he, hc]
  obtain ⟨a, b⟩ := mech_addN_si_e (add .si) (h0 .si) (h1 .si) n c
  rw [he] at a; rw [hte] at b
  rw [← a, ← b]

end Pops
