/-
  Helper lemmas for Props/C05Early.lean: exact latency for runs that START BEFORE step L (the
  regime in which the guard `step >= latency` of `step_forward` matters) and whose spread steps
  carry arbitrary step numbers (seasonal gaps).

  The closed form is stated for a cell whose exposed vector is `Q ++ [0]` (the youngest cohort is
  empty, as after every latency step) and an arbitrary list of step numbers, under the only
  condition that matters: at the j-th spread step either the guard holds (`L ≤ steps[j]`) or the
  cohort that is at the front at that moment - the j-th element of `Q ++ xs` - is empty.
-/
import PopsModel.Lemmas.C05Guard
namespace Pops

/-! ### one spread step -/

/-- One spread step (exposure of `x`, then the latency step) as a full-state equation: if the
    guard holds OR the front cohort is empty, the front cohort `a` joins `i` and the youngest
    mortality cohort, every cohort moves up one position and the youngest cohort is empty. -/
theorem early_latStep (L s : Nat) (c : Cell) (x a : Int) (T : List Int)
    (hA : addLast c.e x = a :: T) (hg : L ≤ s ∨ a = 0) :
    mech_latStep L s c x =
      { c with s := c.s - x, e := T ++ [0], i := c.i + a, mort := addLast c.mort a,
               te := c.te + x - a } := by
  unfold mech_latStep Cell.stepForward
  by_cases hs : s ≥ L
  · simp only [hs, if_true, hA, rotateLeft]
  · have ha : a = 0 := by
      rcases hg with h | h
      · omega
      · exact h
    subst ha
    simp only [hs, if_false, hA, rotateLeft, mech_addLast_zero, Int.add_zero, Int.sub_zero]

theorem early_addLast_snoc (Q : List Int) (y x : Int) : addLast (Q ++ [y]) x = Q ++ [y + x] := by
  induction Q with
  | nil => rfl
  | cons q Q' ih =>
    cases Q' with
    | nil => rfl
    | cons q' Q'' =>
      simp only [List.cons_append, addLast] at ih ⊢
      rw [ih]

theorem early_addLast_addLast (m : List Int) (a b : Int) :
    addLast (addLast m a) b = addLast m (a + b) := by
  induction m with
  | nil => rfl
  | cons q t ih =>
    cases t with
    | nil => simp only [addLast, Int.add_assoc]
    | cons q' t' =>
      simp only [addLast] at ih ⊢
      cases t' with
      | nil => simp only [addLast, Int.add_assoc]
      | cons q'' t'' =>
        simp only [addLast] at ih ⊢
        rw [ih]

theorem early_snoc_split (Q : List Int) (x : Int) : ∃ a T, Q ++ [x] = a :: T := by
  cases Q with
  | nil => exact ⟨x, [], rfl⟩
  | cons q Q' => exact ⟨q, Q' ++ [x], rfl⟩

/-! ### the run -/

/-- A run of spread steps with explicit step numbers: at spread step number `s`, `x` hosts are
    exposed, then the latency step is made. (Props/C05Early.lean: `latencyRunAt`.) -/
def early_run (L : Nat) : List Nat → List Int → Cell → Cell
  | s :: steps, x :: xs, c => early_run L steps xs (mech_latStep L s c x)
  | _, _, c => c

theorem early_cell_eta (c : Cell) (Q : List Int) (he : c.e = Q ++ [0]) :
    c = { c with s := c.s - 0, e := Q ++ [0], i := c.i + 0, mort := addLast c.mort 0,
                 te := c.te + 0 - 0 } := by
  cases c
  simp only at he
  subst he
  simp only [mech_addLast_zero, Int.sub_zero, Int.add_zero]

/-- Closed form of a run. `Q ++ xs` is the sequence of cohorts in the order in which they reach the
    front; after `n = |xs|` spread steps the first `n` of them have matured and the rest, followed
    by the empty youngest cohort, is the exposed vector. -/
theorem early_run_closed (L : Nat) (xs : List Int) : ∀ (steps : List Nat) (Q : List Int) (c : Cell),
    steps.length = xs.length → c.e = Q ++ [0] →
    (∀ j, j < xs.length → L ≤ steps[j]! ∨ (Q ++ xs)[j]! = 0) →
    early_run L steps xs c =
      { c with s := c.s - sumL xs, e := (Q ++ xs).drop xs.length ++ [0],
               i := c.i + sumL ((Q ++ xs).take xs.length),
               mort := addLast c.mort (sumL ((Q ++ xs).take xs.length)),
               te := c.te + sumL xs - sumL ((Q ++ xs).take xs.length) } := by
  induction xs with
  | nil =>
    intro steps Q c hlen he _
    have hs : steps = [] := List.eq_nil_of_length_eq_zero hlen
    subst hs
    simp only [early_run, List.append_nil, List.length_nil, List.drop_zero, List.take_zero, sumL_nil]
    exact early_cell_eta c Q he
  | cons x rest ih =>
    intro steps Q c hlen he hcond
    cases steps with
    | nil => simp at hlen
    | cons s srest =>
      have hlen' : srest.length = rest.length := by
        simp only [List.length_cons] at hlen; omega
      obtain ⟨a, T, hsplit⟩ := early_snoc_split Q x
      have hW : Q ++ x :: rest = a :: (T ++ rest) := by
        have : Q ++ x :: rest = (Q ++ [x]) ++ rest := by
          rw [List.append_assoc]; rfl
        rw [this, hsplit]; rfl
      have hA : addLast c.e x = a :: T := by
        rw [he, early_addLast_snoc, Int.zero_add, hsplit]
      have h0 := hcond 0 (by simp only [List.length_cons]; omega)
      rw [hW, List.getElem!_cons_zero, List.getElem!_cons_zero] at h0
      have hstep := early_latStep L s c x a T hA h0
      have hcond' : ∀ j, j < rest.length → L ≤ srest[j]! ∨ (T ++ rest)[j]! = 0 := by
        intro j hj
        have := hcond (j + 1) (by simp only [List.length_cons]; omega)
        rw [hW, List.getElem!_cons_succ, List.getElem!_cons_succ] at this
        exact this
      have hrun : early_run L (s :: srest) (x :: rest) c =
          early_run L srest rest (mech_latStep L s c x) := rfl
      rw [hrun, ih srest T (mech_latStep L s c x) hlen' (by rw [hstep]) hcond', hstep, hW]
      simp only [List.length_cons, List.take_succ_cons, List.drop_succ_cons, sumL_cons,
        early_addLast_addLast]
      generalize sumL ((T ++ rest).take rest.length) = M
      generalize sumL rest = R
      cases c
      simp only [Cell.mk.injEq, true_and, and_true]
      omega

/-! ### strictly increasing step numbers -/

theorem early_ge_base (steps : List Nat) : ∀ (b : Nat), (∀ s ∈ steps, b ≤ s) →
    steps.Pairwise (· < ·) → ∀ j, j < steps.length → b + j ≤ steps[j]! := by
  induction steps with
  | nil => intro b _ _ j hj; simp at hj
  | cons s rest ih =>
    intro b hb hp j hj
    cases j with
    | zero =>
      rw [List.getElem!_cons_zero]
      have := hb s (List.mem_cons_self ..)
      omega
    | succ j' =>
      rw [List.getElem!_cons_succ]
      rw [List.pairwise_cons] at hp
      have hj' : j' < rest.length := by simp only [List.length_cons] at hj; omega
      have := ih (s + 1) (fun t ht => hp.1 t ht) hp.2 j' hj'
      have := hb s (List.mem_cons_self ..)
      omega

/-- The j-th (0-based) of strictly increasing step numbers is at least j. -/
theorem early_ge_index (steps : List Nat) (hp : steps.Pairwise (· < ·)) (j : Nat)
    (hj : j < steps.length) : j ≤ steps[j]! := by
  have := early_ge_base steps 0 (fun _ _ => Nat.zero_le _) hp j hj
  omega

/-! ### `replicate L 0 ++ xs` -/

theorem early_sumL_replicate_zero (k : Nat) : sumL (List.replicate k (0 : Int)) = 0 := by
  induction k with
  | zero => rfl
  | succ k ih => rw [List.replicate_succ, sumL_cons, ih]; rfl

theorem early_sum_take_fresh (L n : Nat) (xs : List Int) :
    sumL ((List.replicate L (0 : Int) ++ xs).take n) = sumL (xs.take (n - L)) := by
  rw [List.take_append, sumL_append, List.take_replicate, early_sumL_replicate_zero,
    List.length_replicate]
  omega

theorem early_drop_fresh (L n : Nat) (xs : List Int) :
    (List.replicate L (0 : Int) ++ xs).drop n = List.replicate (L - n) 0 ++ xs.drop (n - L) := by
  rw [List.drop_append, List.drop_replicate, List.length_replicate]

theorem early_getElem_fresh (L j : Nat) (xs : List Int) (hj : j < L) :
    (List.replicate L (0 : Int) ++ xs)[j]! = 0 := by
  have h1 : j < (List.replicate L (0 : Int) ++ xs).length := by
    simp only [List.length_append, List.length_replicate]; omega
  rw [getElem!_pos _ j h1, List.getElem_append_left (by simp only [List.length_replicate]; exact hj),
    List.getElem_replicate]

/-- The fresh-run instance of the closed form: all cohorts empty at the start, strictly
    increasing step numbers starting anywhere (also at 0, also with gaps). -/
theorem early_run_fresh (L : Nat) (steps : List Nat) (xs : List Int) (c : Cell)
    (hinc : steps.Pairwise (· < ·)) (hlen : steps.length = xs.length)
    (he : c.e = List.replicate (L + 1) 0) :
    early_run L steps xs c =
      { c with s := c.s - sumL xs,
               e := List.replicate (L - xs.length) 0 ++ xs.drop (xs.length - L) ++ [0],
               i := c.i + sumL (xs.take (xs.length - L)),
               mort := addLast c.mort (sumL (xs.take (xs.length - L))),
               te := c.te + sumL (xs.drop (xs.length - L)) } := by
  have he' : c.e = List.replicate L 0 ++ [0] := by rw [he, List.replicate_succ']
  have hcond : ∀ j, j < xs.length → L ≤ steps[j]! ∨ (List.replicate L (0 : Int) ++ xs)[j]! = 0 := by
    intro j hj
    by_cases hjl : j < L
    · exact Or.inr (early_getElem_fresh L j xs hjl)
    · have := early_ge_index steps hinc j (by omega)
      exact Or.inl (by omega)
  rw [early_run_closed L xs steps (List.replicate L 0) c hlen he' hcond, early_sum_take_fresh,
    early_drop_fresh]
  have := mech_sumL_take_drop xs (xs.length - L)
  have hte : c.te + sumL xs - sumL (xs.take (xs.length - L)) = c.te + sumL (xs.drop (xs.length - L)) := by
    omega
  rw [hte]

/-- `sumL (take (k+1))` adds the k-th element (0 beyond the end). -/
theorem early_sumL_take_succ (l : List Int) (k : Nat) :
    sumL (l.take (k + 1)) = sumL (l.take k) + l[k]! := by
  induction l generalizing k with
  | nil => simp
  | cons x t ih =>
    cases k with
    | zero => simp
    | succ k' =>
      rw [List.take_succ_cons, sumL_cons, ih k', List.take_succ_cons, sumL_cons,
        List.getElem!_cons_succ]
      omega

end Pops
