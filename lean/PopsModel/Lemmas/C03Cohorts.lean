/-
  Helper definitions and lemmas for Props/C03Cohorts.lean: the cohort part of C03
  (`infected = sum of the mortality cohorts`, `Land.cohortsOK`) carried along histories, runs of
  generators, model steps and whole runs; and its consequence that no mortality operation of such
  a run takes one of the `runtime_error` branches.

  DEFINITIONS used by the statements (first section): `LandOp.keepsCohorts`, `LandOp.roundingOK`,
  `RoundingAlong`, `GensRoundingAlong`, `RunRoundingAlong`, `KeepsCohortsGen`, `LandOp.isMortality`.
-/
import PopsModel.Props.C03
import PopsModel.Lemmas.RunModel
namespace Pops

/-! ### definitions -/

/-- An action on a landscape maintains the mortality cohorts unless it is one of the two
    overpopulation primitives (host moves do maintain them). -/
def LandOp.keepsCohorts : LandOp → Bool
  | .at _ op => op.keepsCohorts
  | .move _ _ _ _ _ _ => true

/-- The rounding condition of finding F20 for an action on a landscape: a ratio treatment at cell
    `k` rounds the per-cohort shares and the share of the infected total consistently at the cell
    it is applied to (`CellOp.roundingOK`); no condition for any other action. -/
def LandOp.roundingOK : LandOp → Land → Prop
  | .at k op, l => ∀ c, l[k]? = some c → op.roundingOK c
  | .move _ _ _ _ _ _, _ => True

/-- The rounding condition ALONG a history (like `DomainAlong`): each action satisfies it at the
    landscape it is applied to. -/
def RoundingAlong : List LandOp → Land → Prop
  | [], _ => True
  | op :: rest, l => op.roundingOK l ∧ ∀ l', op.apply l = .ok l' → RoundingAlong rest l'

/-- ... along a run of generators (like `GensDomainAlong`) ... -/
def GensRoundingAlong : List OpGen → Land → Prop
  | [], _ => True
  | gen :: rest, l =>
    RoundingAlong (gen l) l ∧ ∀ l', runOps (gen l) l = .ok l' → GensRoundingAlong rest l'

/-- ... and along a whole run of model steps (like `RunDomainAlong`). -/
def RunRoundingAlong (cfg : StepCfg) : List StepInputs → Nat → Land → Prop
  | [], _, _ => True
  | inp :: rest, step, l =>
    GensRoundingAlong (stepGens cfg inp step) l ∧
    ∀ l', runStepHosts cfg inp step l = .ok l' → RunRoundingAlong cfg rest (step + 1) l'

/-- A generator all of whose operations, at every landscape, maintain the cohorts. -/
def KeepsCohortsGen (gen : OpGen) : Prop := ∀ x : Land, ∀ op ∈ gen x, op.keepsCohorts = true

/-- A mortality operation at some cell. -/
def LandOp.isMortality : LandOp → Bool
  | .at _ (.mortality _ _) => true
  | _ => false

/-- A generator that only produces mortality operations. -/
def MortalityGen (gen : OpGen) : Prop := ∀ x : Land, ∀ op ∈ gen x, op.isMortality = true

/-! ### one action on a landscape -/

theorem Land.cohortsOK_set {l : Land} (h : l.cohortsOK) (k : Nat) {c' : Cell}
    (hc : c'.mortOK = true) : Land.cohortsOK (l.set k c') := by
  intro c hc'
  rcases List.mem_or_eq_of_mem_set hc' with h1 | h1
  · exact h c h1
  · subst h1; exact hc

theorem landOp_cohorts (op : LandOp) (l l' : Land) (hinv : l.inv) (hu : l.uniform)
    (hc : l.cohortsOK) (hd : op.inDomain l) (hk : op.keepsCohorts = true) (hr : op.roundingOK l)
    (h : op.apply l = .ok l') : l'.cohortsOK := by
  cases op with
  | «at» k op =>
    simp only [LandOp.apply] at h
    cases hk' : l[k]? with
    | none =>
      rw [hk'] at h; simp only at h; injection h with h; subst h; exact hc
    | some c =>
      rw [hk'] at h; simp only at h
      cases hc' : op.apply c with
      | error e => rw [hc'] at h; cases h
      | ok c' =>
        rw [hc'] at h; simp only [Except.map] at h; injection h with h; subst h
        have hcl : c ∈ l := List.mem_of_getElem? hk'
        have hg : c.Good := (land_inv_iff l).mp hinv c hcl
        exact Land.cohortsOK_set hc k
          (C03_cohorts_step_partial op c c' (hd c hk') hg.nonNeg hg.totalsOK (hc c hcl) hk
            (hr c hk') hc')
  | move a b count d dE dM =>
    simp only [LandOp.apply] at h
    by_cases hab : a = b
    · rw [if_pos hab] at h; injection h with h; subst h; exact hc
    · rw [if_neg hab] at h
      cases ha : l[a]? with
      | none => rw [ha] at h; simp only at h; injection h with h; subst h; exact hc
      | some src =>
        cases hb : l[b]? with
        | none => rw [ha, hb] at h; simp only at h; injection h with h; subst h; exact hc
        | some dst =>
          rw [ha, hb] at h; simp only at h
          have hl' : l' = (l.set a (moveHosts src dst count d dE dM).1).set b
              (moveHosts src dst count d dE dM).2.1 := by
            injection h with h; exact h.symm
          subst hl'
          have hsl : src ∈ l := List.mem_of_getElem? ha
          have hdl : dst ∈ l := List.mem_of_getElem? hb
          have hgs : src.Good := (land_inv_iff l).mp hinv src hsl
          obtain ⟨_, hlM⟩ := hu dst hdl src hsl
          obtain ⟨_, hv, _, hM⟩ := hd src ha
          have hf := C03_cohorts_move src dst count d dE dM hgs.nonNeg hgs.totalsOK (hc src hsl)
            (hc dst hdl) hv hM hlM
          exact Land.cohortsOK_set (Land.cohortsOK_set hc a hf.1) b hf.2

/-! ### histories, generators, runs -/

theorem history_cohorts (ops : List LandOp) (l l' : Land) (hinv : l.inv) (hu : l.uniform)
    (hc : l.cohortsOK) (hd : DomainAlong ops l) (hk : ∀ op ∈ ops, op.keepsCohorts = true)
    (hr : RoundingAlong ops l) (h : runOps ops l = .ok l') :
    l'.inv ∧ l'.uniform ∧ l'.cohortsOK := by
  induction ops generalizing l with
  | nil =>
    simp only [runOps] at h; injection h with h; subst h; exact ⟨hinv, hu, hc⟩
  | cons op rest ih =>
    simp only [runOps] at h
    cases h1 : op.apply l with
    | error e => rw [h1] at h; cases h
    | ok l1 =>
      rw [h1] at h
      have st := landOp_step op l l1 hinv hu hd.1 h1
      have hc1 := landOp_cohorts op l l1 hinv hu hc hd.1 (hk op (List.mem_cons_self ..)) hr.1 h1
      exact ih l1 st.inv st.uniform hc1 (hd.2 l1 h1)
        (fun o ho => hk o (List.mem_cons_of_mem _ ho)) (hr.2 l1 h1) h

theorem gens_cohorts (gens : List OpGen) (l l' : Land) (hinv : l.inv) (hu : l.uniform)
    (hc : l.cohortsOK) (hd : GensDomainAlong gens l) (hk : ∀ gen ∈ gens, KeepsCohortsGen gen)
    (hr : GensRoundingAlong gens l) (h : runGens gens l = .ok l') :
    l'.inv ∧ l'.uniform ∧ l'.cohortsOK := by
  induction gens generalizing l with
  | nil =>
    simp only [runGens, Except.ok.injEq] at h; subst h; exact ⟨hinv, hu, hc⟩
  | cons gen rest ih =>
    simp only [runGens, bind, Except.bind] at h
    cases h1 : runOps (gen l) l with
    | error e => rw [h1] at h; cases h
    | ok m =>
      rw [h1] at h
      obtain ⟨a1, a2, a3⟩ := history_cohorts (gen l) l m hinv hu hc hd.1
        (hk gen (List.mem_cons_self ..) l) hr.1 h1
      exact ih m a1 a2 a3 (hd.2 m h1) (fun g hg => hk g (List.mem_cons_of_mem _ hg)) (hr.2 m h1) h

/-- Every action except overpopulation only generates cohort-maintaining operations. -/
theorem actionGen_keepsCohorts (inp : StepInputs) (step : Nat) (a : ActionKind)
    (ha : a ≠ .overpopulation) : KeepsCohortsGen (actionGen inp step a) := by
  intro x op hop
  cases a with
  | overpopulation => exact absurd rfl ha
  | soilNext => simp only [actionGen] at hop; cases hop
  | spreadRate => simp only [actionGen] at hop; cases hop
  | quarantine => simp only [actionGen] at hop; cases hop
  | lethal =>
    simp only [actionGen] at hop
    obtain ⟨pos, k, o, ho, rfl⟩ := mem_cellOpsOver hop
    split at ho
    · injection ho with ho; subst ho; rfl
    · cases ho
  | survival =>
    simp only [actionGen] at hop
    obtain ⟨pos, k, o, ho, rfl⟩ := mem_cellOpsOver hop
    injection ho with ho; subst ho; rfl
  | spread =>
    simp only [actionGen, List.mem_map] at hop
    obtain ⟨⟨k, env, u⟩, _, rfl⟩ := hop
    rfl
  | stepForward =>
    simp only [actionGen, List.mem_map] at hop
    obtain ⟨k, _, rfl⟩ := hop
    rfl
  | movement =>
    simp only [actionGen, List.mem_map] at hop
    obtain ⟨⟨a, b, n, d, dE, dM⟩, _, rfl⟩ := hop
    rfl
  | treatments =>
    simp only [actionGen, List.mem_flatMap] at hop
    obtain ⟨⟨finish, pest, app, coefs⟩, _, hop⟩ := hop
    obtain ⟨pos, k, o, ho, rfl⟩ := mem_cellOpsOver hop
    injection ho with ho; subst ho
    simp only [LandOp.keepsCohorts]
    split
    · rfl
    · split <;> rfl
  | mortality =>
    simp only [actionGen, List.mem_map] at hop
    obtain ⟨k, _, rfl⟩ := hop
    rfl

/-- With overpopulation switched off no step runs the overpopulation action. -/
theorem stepGens_keepsCohorts (cfg : StepCfg) (inp : StepInputs) (step : Nat)
    (hov : cfg.useOverpop = false) : ∀ gen ∈ stepGens cfg inp step, KeepsCohortsGen gen := by
  intro gen hg
  simp only [stepGens, List.mem_map] at hg
  obtain ⟨a, ha, rfl⟩ := hg
  have hr : cfg.runs step a.1 = true :=
    (act_plan_iff cfg step a.1).mp (List.mem_map.mpr ⟨a, ha, rfl⟩)
  apply actionGen_keepsCohorts
  intro he
  rw [he] at hr
  simp only [StepCfg.runs, hov, Bool.and_false] at hr
  cases hr

theorem run_cohorts (cfg : StepCfg) (inps : List StepInputs) (first : Nat) (l l' : Land)
    (hov : cfg.useOverpop = false) (hinv : l.inv) (hu : l.uniform) (hc : l.cohortsOK)
    (hd : RunDomainAlong cfg inps first l) (hr : RunRoundingAlong cfg inps first l)
    (h : runModel cfg inps first l = .ok l') : l'.inv ∧ l'.uniform ∧ l'.cohortsOK := by
  induction inps generalizing first l with
  | nil =>
    simp only [runModel, Except.ok.injEq] at h; subst h; exact ⟨hinv, hu, hc⟩
  | cons inp rest ih =>
    obtain ⟨m, hm, hrest⟩ := runModel_cons_inv cfg inp rest first l l' h
    obtain ⟨a1, a2, a3⟩ := gens_cohorts (stepGens cfg inp first) l m hinv hu hc hd.1
      (stepGens_keepsCohorts cfg inp first hov) hr.1 hm
    exact ih (first + 1) m a1 a2 a3 (hd.2 m hm) (hr.2 m hm) hrest

/-! ### composition of the rounding condition along runs -/

theorem runRoundingAlong_append_left (cfg : StepCfg) (a b : List StepInputs) (first : Nat) (l : Land)
    (hr : RunRoundingAlong cfg (a ++ b) first l) : RunRoundingAlong cfg a first l := by
  induction a generalizing first l with
  | nil => trivial
  | cons inp rest ih => exact ⟨hr.1, fun m hm => ih (first + 1) m (hr.2 m hm)⟩

theorem runRoundingAlong_append_right (cfg : StepCfg) (a b : List StepInputs) (first : Nat)
    (l m : Land) (hr : RunRoundingAlong cfg (a ++ b) first l) (h : runModel cfg a first l = .ok m) :
    RunRoundingAlong cfg b (first + a.length) m := by
  induction a generalizing first l with
  | nil => simp only [runModel, Except.ok.injEq] at h; subst h; exact hr
  | cons inp rest ih =>
    obtain ⟨x, hx, hrest⟩ := runModel_cons_inv cfg inp rest first l m h
    have := ih (first + 1) x (hr.2 x hx) hrest
    rw [List.length_cons]
    have he : first + 1 + rest.length = first + (rest.length + 1) := by omega
    rw [← he]; exact this

/-! ### mortality never fails -/

/-- In the model the `runtime_error` branches belong to mortality only. -/
theorem cellOp_runtime_error (op : CellOp) (c : Cell) (h : op.apply c = .error .runtime_error) :
    ∃ rate lag, op = .mortality rate lag := by
  cases op with
  | mortality rate lag => exact ⟨rate, lag, rfl⟩
  | add mt => simp only [CellOp.apply] at h; cases h
  | pestsFrom k => simp only [CellOp.apply] at h; cases h
  | pestsTo k => simp only [CellOp.apply] at h; cases h
  | pesticideEnd coef => simp only [CellOp.apply] at h; cases h
  | survival ratio dI dE => simp only [CellOp.apply] at h; cases h
  | lethal d => simp only [CellOp.apply] at h; cases h
  | stepForward mt l s => simp only [CellOp.apply] at h; cases h
  | dispTo mt env sto pEst u =>
    exfalso
    simp only [CellOp.apply, Cell.disperserTo] at h
    split at h
    · cases h
    · simp only [Cell.suitability] at h
      split at h
      · cases h
      · simp only [bind, Except.bind, pure, Except.pure] at h
        split at h <;> cases h
  | simpleTreat coef app =>
    exfalso
    simp only [CellOp.apply, Cell.simpleTreat, Cell.completelyRemove] at h
    repeat' split at h
    all_goals cases h
  | pesticideTreat coef app =>
    exfalso
    simp only [CellOp.apply, Cell.pesticideTreat, Cell.makeResistant] at h
    repeat' split at h
    all_goals cases h

/-- A mortality operation in its domain never fails on a consistent landscape whose cohorts are
    consistent. -/
theorem landOp_mortality_ok (k : Nat) (rate : Rat) (lag : Int) (l : Land) (hinv : l.inv)
    (hc : l.cohortsOK) (hd : (LandOp.at k (.mortality rate lag)).inDomain l) :
    ∃ l', (LandOp.at k (.mortality rate lag)).apply l = .ok l' := by
  simp only [LandOp.apply]
  cases hk : l[k]? with
  | none => exact ⟨l, rfl⟩
  | some c =>
    have hcl : c ∈ l := List.mem_of_getElem? hk
    have hg : c.Good := (land_inv_iff l).mp hinv c hcl
    have hdc := hd c hk
    obtain ⟨c', hc'⟩ := C03_mortality_never_fails c rate lag ⟨hdc.1, hdc.2.1⟩ hdc.2.2 hg.nonNeg
      hg.totalsOK (hc c hcl)
    exact ⟨l.set k c', by simp only [hc', Except.map]⟩

theorem LandOp.isMortality_iff (op : LandOp) :
    op.isMortality = true ↔ ∃ k rate lag, op = .at k (.mortality rate lag) := by
  constructor
  · intro h
    cases op with
    | move a b n d dE dM => cases h
    | «at» k o => cases o <;> first | exact ⟨_, _, _, rfl⟩ | cases h
  · rintro ⟨k, rate, lag, rfl⟩; rfl

theorem landOp_no_runtime_error (op : LandOp) (l : Land) (hinv : l.inv) (hc : l.cohortsOK)
    (hd : op.inDomain l) : op.apply l ≠ .error .runtime_error := by
  intro h
  cases op with
  | move a b count d dE dM =>
    simp only [LandOp.apply] at h
    split at h
    · cases h
    · split at h <;> cases h
  | «at» k o =>
    have h0 := h
    simp only [LandOp.apply] at h
    cases hk : l[k]? with
    | none => rw [hk] at h; cases h
    | some c =>
      rw [hk] at h; simp only at h
      cases hc' : o.apply c with
      | ok c' => rw [hc'] at h; cases h
      | error e =>
        rw [hc'] at h; simp only [Except.map] at h; injection h with h; subst h
        obtain ⟨rate, lag, rfl⟩ := cellOp_runtime_error o c hc'
        obtain ⟨l', hl'⟩ := landOp_mortality_ok k rate lag l hinv hc hd
        rw [hl'] at h0; cases h0

theorem history_no_runtime_error (ops : List LandOp) (l : Land) (hinv : l.inv) (hu : l.uniform)
    (hc : l.cohortsOK) (hd : DomainAlong ops l) (hk : ∀ op ∈ ops, op.keepsCohorts = true)
    (hr : RoundingAlong ops l) : runOps ops l ≠ .error .runtime_error := by
  induction ops generalizing l with
  | nil => intro h; cases h
  | cons op rest ih =>
    intro h
    simp only [runOps] at h
    cases h1 : op.apply l with
    | error e =>
      rw [h1] at h; simp only [bind, Except.bind] at h; injection h with h; subst h
      exact landOp_no_runtime_error op l hinv hc hd.1 h1
    | ok l1 =>
      rw [h1] at h
      have st := landOp_step op l l1 hinv hu hd.1 h1
      have hc1 := landOp_cohorts op l l1 hinv hu hc hd.1 (hk op (List.mem_cons_self ..)) hr.1 h1
      exact ih l1 st.inv st.uniform hc1 (hd.2 l1 h1)
        (fun o ho => hk o (List.mem_cons_of_mem _ ho)) (hr.2 l1 h1) h

theorem gens_no_runtime_error (gens : List OpGen) (l : Land) (hinv : l.inv) (hu : l.uniform)
    (hc : l.cohortsOK) (hd : GensDomainAlong gens l) (hk : ∀ gen ∈ gens, KeepsCohortsGen gen)
    (hr : GensRoundingAlong gens l) : runGens gens l ≠ .error .runtime_error := by
  induction gens generalizing l with
  | nil => intro h; cases h
  | cons gen rest ih =>
    intro h
    simp only [runGens, bind, Except.bind] at h
    cases h1 : runOps (gen l) l with
    | error e =>
      rw [h1] at h; injection h with h; subst h
      exact history_no_runtime_error (gen l) l hinv hu hc hd.1
        (hk gen (List.mem_cons_self ..) l) hr.1 h1
    | ok m =>
      rw [h1] at h
      obtain ⟨a1, a2, a3⟩ := history_cohorts (gen l) l m hinv hu hc hd.1
        (hk gen (List.mem_cons_self ..) l) hr.1 h1
      exact ih m a1 a2 a3 (hd.2 m h1) (fun g hg => hk g (List.mem_cons_of_mem _ hg)) (hr.2 m h1) h

theorem run_no_runtime_error (cfg : StepCfg) (inps : List StepInputs) (first : Nat) (l : Land)
    (hov : cfg.useOverpop = false) (hinv : l.inv) (hu : l.uniform) (hc : l.cohortsOK)
    (hd : RunDomainAlong cfg inps first l) (hr : RunRoundingAlong cfg inps first l) :
    runModel cfg inps first l ≠ .error .runtime_error := by
  induction inps generalizing first l with
  | nil => intro h; cases h
  | cons inp rest ih =>
    intro h
    cases h1 : runStepHosts cfg inp first l with
    | error e =>
      rw [runModel_cons_error cfg inp rest first l e h1] at h
      injection h with h; subst h
      exact gens_no_runtime_error (stepGens cfg inp first) l hinv hu hc hd.1
        (stepGens_keepsCohorts cfg inp first hov) hr.1 h1
    | ok m =>
      rw [runModel_cons_ok cfg inp rest first l m h1] at h
      obtain ⟨a1, a2, a3⟩ := gens_cohorts (stepGens cfg inp first) l m hinv hu hc hd.1
        (stepGens_keepsCohorts cfg inp first hov) hr.1 h1
      exact ih (first + 1) m a1 a2 a3 (hd.2 m h1) (hr.2 m h1) h

/-- A history of mortality operations only, in its domain, succeeds from a landscape with
    consistent cohorts (and keeps them consistent). -/
theorem history_mortality_only_ok (ops : List LandOp) (l : Land) (hinv : l.inv) (hu : l.uniform)
    (hc : l.cohortsOK) (hd : DomainAlong ops l) (hmo : ∀ op ∈ ops, op.isMortality = true) :
    ∃ l', runOps ops l = .ok l' ∧ l'.inv ∧ l'.uniform ∧ l'.cohortsOK := by
  induction ops generalizing l with
  | nil => exact ⟨l, rfl, hinv, hu, hc⟩
  | cons op rest ih =>
    obtain ⟨k, rate, lag, rfl⟩ := (LandOp.isMortality_iff op).mp (hmo op (List.mem_cons_self ..))
    obtain ⟨l1, h1⟩ := landOp_mortality_ok k rate lag l hinv hc hd.1
    have st := landOp_step _ l l1 hinv hu hd.1 h1
    have hc1 := landOp_cohorts _ l l1 hinv hu hc hd.1 rfl (fun _ _ => trivial) h1
    obtain ⟨l', h2, h3⟩ := ih l1 st.inv st.uniform hc1 (hd.2 l1 h1)
      (fun o ho => hmo o (List.mem_cons_of_mem _ ho))
    exact ⟨l', by simp only [runOps, h1, bind, Except.bind]; exact h2, h3⟩

/-- Within a history: a mortality operation, applied to the landscape its predecessors left,
    succeeds. -/
theorem history_mortality_ok (pre post : List LandOp) (k : Nat) (rate : Rat) (lag : Int)
    (l m : Land) (hinv : l.inv) (hu : l.uniform) (hc : l.cohortsOK)
    (hd : DomainAlong (pre ++ .at k (.mortality rate lag) :: post) l)
    (hk : ∀ op ∈ pre, op.keepsCohorts = true)
    (hr : RoundingAlong (pre ++ .at k (.mortality rate lag) :: post) l)
    (hm : runOps pre l = .ok m) :
    ∃ m', (LandOp.at k (.mortality rate lag)).apply m = .ok m' := by
  induction pre generalizing l with
  | nil =>
    simp only [runOps] at hm; injection hm with hm; subst hm
    exact landOp_mortality_ok k rate lag l hinv hc hd.1
  | cons op rest ih =>
    simp only [runOps] at hm
    cases h1 : op.apply l with
    | error e => rw [h1] at hm; cases hm
    | ok l1 =>
      rw [h1] at hm
      have st := landOp_step op l l1 hinv hu hd.1 h1
      have hc1 := landOp_cohorts op l l1 hinv hu hc hd.1 (hk op (List.mem_cons_self ..)) hr.1 h1
      exact ih l1 st.inv st.uniform hc1 (hd.2 l1 h1)
        (fun o ho => hk o (List.mem_cons_of_mem _ ho)) (hr.2 l1 h1) hm

/-- The mortality generator of a step only produces mortality operations. -/
theorem actionGen_mortality_isMortality (inp : StepInputs) (step : Nat) :
    MortalityGen (actionGen inp step .mortality) := by
  intro x op hop
  simp only [actionGen, List.mem_map] at hop
  obtain ⟨k, _, rfl⟩ := hop
  rfl

/-- Within a run of generators: a generator of mortality operations, applied to the landscape
    its predecessors left, succeeds. -/
theorem gens_mortality_ok (gpre gpost : List OpGen) (g : OpGen) (l m : Land) (hinv : l.inv)
    (hu : l.uniform) (hc : l.cohortsOK) (hd : GensDomainAlong (gpre ++ g :: gpost) l)
    (hk : ∀ gen ∈ gpre, KeepsCohortsGen gen) (hr : GensRoundingAlong (gpre ++ g :: gpost) l)
    (hg : MortalityGen g) (hm : runGens gpre l = .ok m) :
    ∃ m', runOps (g m) m = .ok m' := by
  induction gpre generalizing l with
  | nil =>
    simp only [runGens, Except.ok.injEq] at hm; subst hm
    obtain ⟨m', h1, _⟩ := history_mortality_only_ok (g l) l hinv hu hc hd.1 (hg l)
    exact ⟨m', h1⟩
  | cons gen rest ih =>
    simp only [runGens, bind, Except.bind] at hm
    cases h1 : runOps (gen l) l with
    | error e => rw [h1] at hm; cases hm
    | ok x =>
      rw [h1] at hm
      obtain ⟨a1, a2, a3⟩ := history_cohorts (gen l) l x hinv hu hc hd.1
        (hk gen (List.mem_cons_self ..) l) hr.1 h1
      exact ih x a1 a2 a3 (hd.2 x h1) (fun g' hg' => hk g' (List.mem_cons_of_mem _ hg'))
        (hr.2 x h1) hm

/-! ### executable forms (for concrete instances) -/

instance instDecidableCellOpRoundingOK : (op : CellOp) → (c : Cell) → Decidable (op.roundingOK c)
  | .simpleTreat coef .ratio, c => inferInstanceAs (Decidable (roundingAgrees rceil coef c = true))
  | .pesticideTreat coef .ratio, c => inferInstanceAs (Decidable (roundingAgrees rfloor coef c = true))
  | .simpleTreat _ .allInfected, _ => inferInstanceAs (Decidable True)
  | .pesticideTreat _ .allInfected, _ => inferInstanceAs (Decidable True)
  | .add _, _ => inferInstanceAs (Decidable True)
  | .dispTo _ _ _ _ _, _ => inferInstanceAs (Decidable True)
  | .pestsFrom _, _ => inferInstanceAs (Decidable True)
  | .pestsTo _, _ => inferInstanceAs (Decidable True)
  | .pesticideEnd _, _ => inferInstanceAs (Decidable True)
  | .survival _ _ _, _ => inferInstanceAs (Decidable True)
  | .lethal _, _ => inferInstanceAs (Decidable True)
  | .mortality _ _, _ => inferInstanceAs (Decidable True)
  | .stepForward _ _ _, _ => inferInstanceAs (Decidable True)

def LandOp.roundingOKB : LandOp → Land → Bool
  | .at k op, l => match l[k]? with
    | none => true
    | some c => decide (op.roundingOK c)
  | .move _ _ _ _ _ _, _ => true

theorem LandOp.roundingOK_of_B (op : LandOp) (l : Land) (h : op.roundingOKB l = true) :
    op.roundingOK l := by
  cases op with
  | «at» k op =>
    intro c hc
    simp only [LandOp.roundingOKB, hc, decide_eq_true_eq] at h
    exact h
  | move a b count d dE dM => trivial

def roundingAlongB : List LandOp → Land → Bool
  | [], _ => true
  | op :: rest, l => op.roundingOKB l &&
      match op.apply l with
      | .ok l' => roundingAlongB rest l'
      | .error _ => true

theorem roundingAlong_of_B (ops : List LandOp) (l : Land) (h : roundingAlongB ops l = true) :
    RoundingAlong ops l := by
  induction ops generalizing l with
  | nil => trivial
  | cons op rest ih =>
    simp only [roundingAlongB, Bool.and_eq_true] at h
    refine ⟨LandOp.roundingOK_of_B op l h.1, fun l' hl' => ih l' ?_⟩
    have h2 := h.2
    rw [hl'] at h2
    exact h2

def gensRoundingAlongB : List OpGen → Land → Bool
  | [], _ => true
  | gen :: rest, l => roundingAlongB (gen l) l &&
      match runOps (gen l) l with
      | .ok l' => gensRoundingAlongB rest l'
      | .error _ => true

theorem gensRoundingAlong_of_B (gens : List OpGen) (l : Land) (h : gensRoundingAlongB gens l = true) :
    GensRoundingAlong gens l := by
  induction gens generalizing l with
  | nil => trivial
  | cons gen rest ih =>
    simp only [gensRoundingAlongB, Bool.and_eq_true] at h
    refine ⟨roundingAlong_of_B (gen l) l h.1, fun l' hl' => ih l' ?_⟩
    have h2 := h.2
    rw [hl'] at h2
    exact h2

def runRoundingAlongB (cfg : StepCfg) : List StepInputs → Nat → Land → Bool
  | [], _, _ => true
  | inp :: rest, step, l => gensRoundingAlongB (stepGens cfg inp step) l &&
      match runStepHosts cfg inp step l with
      | .ok l' => runRoundingAlongB cfg rest (step + 1) l'
      | .error _ => true

theorem runRoundingAlong_of_B (cfg : StepCfg) (inps : List StepInputs) (first : Nat) (l : Land)
    (h : runRoundingAlongB cfg inps first l = true) : RunRoundingAlong cfg inps first l := by
  induction inps generalizing first l with
  | nil => trivial
  | cons inp rest ih =>
    simp only [runRoundingAlongB, Bool.and_eq_true] at h
    refine ⟨gensRoundingAlong_of_B _ l h.1, fun l' hl' => ih (first + 1) l' ?_⟩
    have h2 := h.2
    rw [hl'] at h2
    exact h2

def Land.cohortsOKB (l : Land) : Bool := l.all fun c => c.mortOK

theorem Land.cohortsOK_of_B (l : Land) (h : l.cohortsOKB = true) : l.cohortsOK := by
  intro c hc
  simp only [Land.cohortsOKB, List.all_eq_true] at h
  exact h c hc

/-- Executable comparison of a result with an expected error. -/
def failsWith {α : Type} (r : Except ErrKind α) (e : ErrKind) : Bool :=
  match r with
  | .error e' => decide (e' = e)
  | .ok _ => false

theorem eq_error_of_failsWith {α : Type} {r : Except ErrKind α} {e : ErrKind}
    (h : failsWith r e = true) : r = .error e := by
  cases r with
  | ok a => cases h
  | error e' => simp only [failsWith, decide_eq_true_eq] at h; rw [h]

/-! ### the rounding condition is void without ratio treatments -/

/-- No operation of the history is a ratio treatment. -/
def LandOp.noRatioTreat : LandOp → Bool
  | .at _ (.simpleTreat _ .ratio) => false
  | .at _ (.pesticideTreat _ .ratio) => false
  | _ => true

theorem LandOp.roundingOK_of_noRatio (op : LandOp) (l : Land) (h : op.noRatioTreat = true) :
    op.roundingOK l := by
  cases op with
  | move a b count d dE dM => trivial
  | «at» k o =>
    intro c _
    cases o with
    | simpleTreat coef app => cases app with
      | ratio => cases h
      | allInfected => trivial
    | pesticideTreat coef app => cases app with
      | ratio => cases h
      | allInfected => trivial
    | _ => trivial

theorem roundingAlong_of_noRatio (ops : List LandOp) (l : Land)
    (h : ∀ op ∈ ops, op.noRatioTreat = true) : RoundingAlong ops l := by
  induction ops generalizing l with
  | nil => trivial
  | cons op rest ih =>
    exact ⟨LandOp.roundingOK_of_noRatio op l (h op (List.mem_cons_self ..)),
      fun l' _ => ih l' (fun o ho => h o (List.mem_cons_of_mem _ ho))⟩

end Pops
