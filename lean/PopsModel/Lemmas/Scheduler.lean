import PopsModel.Lemmas.Date
namespace Pops
open Date

/-- Step lengths in the domain of C07: at least one unit; day steps at most 28 days. -/
def StepOK (u : StepUnit) (n : Nat) : Prop := 1 ≤ n ∧ (u = .day → n ≤ 28)

/-- A successor function that keeps dates valid and strictly increases them. -/
def GoodSucc (nx : Date → Date) : Prop := ∀ t : Date, t.Valid → (nx t).Valid ∧ t.ord < (nx t).ord

theorem iter_good {f : Date → Date} (hf : GoodSucc f) (n : Nat) (t : Date) (hv : t.Valid) :
    (iter f n t).Valid ∧ t.ord + n ≤ (iter f n t).ord := by
  induction n generalizing t with
  | zero => simp [iter, hv]
  | succ k ih =>
    obtain ⟨v1, o1⟩ := hf t hv
    obtain ⟨v2, o2⟩ := ih (f t) v1
    simp only [iter]; refine ⟨v2, ?_⟩; omega

theorem increaseDate_good (u : StepUnit) (n : Nat) (h : StepOK u n) : GoodSucc (increaseDate u n) := by
  intro t hv
  obtain ⟨h1, h2⟩ := h
  cases u with
  | day =>
    have := h2 rfl
    exact incDays_spec t n hv (by omega) (by omega)
  | week =>
    have := iter_good (f := Date.increasedByWeek) (fun t hv => incWeek_spec t hv) n t hv
    simp only [increaseDate]; refine ⟨this.1, ?_⟩; omega
  | month =>
    have := iter_good (f := Date.increasedByMonth) (fun t hv => ⟨(incMonth_spec t hv).1, (incMonth_spec t hv).2.1⟩) n t hv
    simp only [increaseDate]; refine ⟨this.1, ?_⟩; omega

/-- Specification of the constructor's loop: steps are produced while the running date is `<= end`. -/
inductive Tiles (nx : Date → Date) (end_ : Date) : Date → List Step → Prop
  | nil {date : Date} : date.le end_ = false → Tiles nx end_ date []
  | cons {date : Date} {rest : List Step} : date.le end_ = true → Tiles nx end_ (nx date) rest →
      Tiles nx end_ date (⟨date, (nx date).subtractDay⟩ :: rest)

theorem stepsLoop_tiles (u : StepUnit) (n : Nat) (h : StepOK u n) (end_ : Date) (he : end_.Valid)
    (fuel : Nat) (date : Date) (hv : date.Valid) (hf : (end_.ord - date.ord + 2).toNat ≤ fuel) :
    Tiles (increaseDate u n) end_ date (stepsLoop u n end_ fuel date) := by
  induction fuel generalizing date with
  | zero =>
    simp only [stepsLoop]
    apply Tiles.nil
    have := le_iff_ord hv.bounded he.bounded
    cases hle : date.le end_
    · rfl
    · have := this.mp hle; omega
  | succ k ih =>
    simp only [stepsLoop]
    cases hle : date.le end_
    · simp; exact Tiles.nil hle
    · simp
      obtain ⟨v1, o1⟩ := increaseDate_good u n h date hv
      exact Tiles.cons hle (ih _ v1 (by omega))

/-- The k-th start. -/
abbrev S (nx : Date → Date) (date : Date) (k : Nat) : Date := iter nx k date

theorem Tiles.struct {nx : Date → Date} {end_ date : Date} {L : List Step}
    (h : Tiles nx end_ date L) :
    (∀ k, k < L.length → L[k]? = some ⟨S nx date k, (S nx date (k+1)).subtractDay⟩ ∧
        (S nx date k).le end_ = true) ∧ (S nx date L.length).le end_ = false := by
  induction h with
  | nil hle => simp [S, iter, hle]
  | @cons date rest hle _ ih =>
    obtain ⟨ih1, ih2⟩ := ih
    refine ⟨?_, ?_⟩
    · intro k hk
      cases k with
      | zero => simp [S, iter, hle]
      | succ j =>
        have := ih1 j (by simpa using hk)
        simpa [S, iter] using this
    · simpa [S, iter] using ih2

theorem S_valid {nx : Date → Date} (hg : GoodSucc nx) (date : Date) (hv : date.Valid) (k : Nat) :
    (S nx date k).Valid := (iter_good hg k date hv).1

theorem S_step {nx : Date → Date} (date : Date) (k : Nat) : S nx date (k+1) = nx (S nx date k) :=
  iter_succ_outer nx k date

theorem S_lt_succ {nx : Date → Date} (hg : GoodSucc nx) (date : Date) (hv : date.Valid) (k : Nat) :
    (S nx date k).ord < (S nx date (k+1)).ord := by
  rw [S_step]; exact (hg _ (S_valid hg date hv k)).2

theorem S_mono {nx : Date → Date} (hg : GoodSucc nx) (date : Date) (hv : date.Valid) {j k : Nat}
    (h : j ≤ k) : (S nx date j).ord ≤ (S nx date k).ord := by
  induction k with
  | zero => have : j = 0 := by omega
            subst this; exact Int.le_refl _
  | succ i ih =>
    by_cases hj : j = i + 1
    · subst hj; exact Int.le_refl _
    · have := ih (by omega)
      have := S_lt_succ hg date hv i
      omega

theorem S_strict {nx : Date → Date} (hg : GoodSucc nx) (date : Date) (hv : date.Valid) {j k : Nat}
    (h : j < k) : (S nx date j).ord < (S nx date k).ord := by
  have h1 := S_lt_succ hg date hv j
  have h2 := S_mono hg date hv (j := j+1) (k := k) (by omega)
  omega

/-- In a strictly increasing sequence, every point of `[S 0, S N)` lies in exactly one `[S k, S (k+1))`. -/
theorem S_locate {nx : Date → Date} (date : Date) (N : Nat)
    (x : Int) (h0 : (S nx date 0).ord ≤ x) (hN : x < (S nx date N).ord) :
    ∃ k, k < N ∧ (S nx date k).ord ≤ x ∧ x < (S nx date (k+1)).ord := by
  induction N with
  | zero => omega
  | succ i ih =>
    by_cases hx : x < (S nx date i).ord
    · obtain ⟨k, hk, a, b⟩ := ih hx
      exact ⟨k, by omega, a, b⟩
    · exact ⟨i, by omega, by omega, hN⟩

/-- Membership in a step, on valid dates, is membership in the half-open rank interval. -/
theorem contains_iff {nx : Date → Date} (hg : GoodSucc nx) (date : Date) (hv : date.Valid) (k : Nat)
    (x : Date) (hx : x.Valid) :
    (Step.contains ⟨S nx date k, (S nx date (k+1)).subtractDay⟩ x = true) ↔
      ((S nx date k).ord ≤ x.ord ∧ x.ord < (S nx date (k+1)).ord) := by
  have v1 := S_valid hg date hv k
  have v2 := S_valid hg date hv (k+1)
  have v3 := subDay_valid _ v2
  simp only [Step.contains, Bool.and_eq_true]
  rw [ge_iff_ord hx.bounded v1.bounded, le_iff_ord hx.bounded v3.bounded,
    lt_iff_le_subDay x _ hx v2]

end Pops
