/-
  Helper lemmas for C01-C03, part 3: all cell operations at once, host moves, landscapes and
  histories.
-/
import PopsModel.Lemmas.HostInv2
namespace Pops

/-! ### every cell operation -/

theorem cellOp_facts (op : CellOp) (c c' : Cell) (hd : op.inDomain c) (hg : c.Good)
    (h : op.apply c = .ok c') : StepFacts op.ledger c c' := by
  cases op with
  | add mt =>
    simp only [CellOp.apply] at h; injection h with h; subst h
    exact add_facts mt c hg hd
  | dispTo mt env sto pEst u =>
    simp only [CellOp.apply] at h
    cases hr : c.disperserTo mt env sto pEst u with
    | error e => rw [hr] at h; cases h
    | ok r =>
      rw [hr] at h; simp only [Except.map] at h; injection h with h; subst h
      rcases disperserTo_cases hr with h1 | h1
      · rw [h1]; exact StepFacts.refl hg
      · rw [h1]; exact add_facts mt c hg hd
  | pestsFrom k =>
    simp only [CellOp.apply] at h; injection h with h; subst h
    exact pestsFrom_facts c k hg hd
  | pestsTo k =>
    simp only [CellOp.apply] at h; injection h with h; subst h
    exact pestsTo_facts c k hg hd
  | simpleTreat coef app => exact simpleTreat_facts hg hd.1 hd.2 app h
  | pesticideTreat coef app => exact pesticideTreat_facts hg hd.1 hd.2 app h
  | pesticideEnd coef =>
    simp only [CellOp.apply] at h; injection h with h; subst h
    unfold Cell.pesticideEnd
    split
    · exact removeResistance_facts c hg
    · exact StepFacts.refl hg
  | survival ratio dI dE =>
    simp only [CellOp.apply] at h; injection h with h; subst h
    obtain ⟨h0, h1, hv⟩ := hd
    split
    · rename_i hlt
      exact removeByRatio_facts c ratio dI dE hg h0 h1 (hv hlt).1 (hv hlt).2
    · exact StepFacts.refl hg
  | lethal d =>
    simp only [CellOp.apply] at h; injection h with h; subst h
    exact removeInfected_facts c c.i d hg ⟨hg.nn.i, Int.le_refl _⟩ hd
  | mortality rate lag => exact (mortality_facts hd.1 hd.2.1 lag hg h).1
  | stepForward mt l s =>
    simp only [CellOp.apply] at h; injection h with h; subst h
    exact stepForward_facts mt l s c hg hd

theorem cellOp_mort (op : CellOp) (c c' : Cell) (hd : op.inDomain c) (hg : c.Good)
    (hm : c.i = sumL c.mort) (hk : op.keepsCohorts = true)
    (hrc : ∀ coef, op = .simpleTreat coef .ratio → roundingAgrees rceil coef c = true)
    (hrf : ∀ coef, op = .pesticideTreat coef .ratio → roundingAgrees rfloor coef c = true)
    (h : op.apply c = .ok c') : c'.i = sumL c'.mort := by
  cases op with
  | add mt =>
    simp only [CellOp.apply] at h; injection h with h; subst h
    exact add_mort mt c hd hm
  | dispTo mt env sto pEst u =>
    simp only [CellOp.apply] at h
    cases hr : c.disperserTo mt env sto pEst u with
    | error e => rw [hr] at h; cases h
    | ok r =>
      rw [hr] at h; simp only [Except.map] at h; injection h with h; subst h
      rcases disperserTo_cases hr with h1 | h1
      · rw [h1]; exact hm
      · rw [h1]; exact add_mort mt c hd hm
  | pestsFrom k => cases hk
  | pestsTo k => cases hk
  | simpleTreat coef app =>
    exact simpleTreat_mort hg hd.1 hd.2 app hm (fun ha => hrc coef (by rw [ha])) h
  | pesticideTreat coef app =>
    exact pesticideTreat_mort hg hd.1 hd.2 app hm (fun ha => hrf coef (by rw [ha])) h
  | pesticideEnd coef =>
    simp only [CellOp.apply] at h; injection h with h; subst h
    unfold Cell.pesticideEnd
    split
    · exact hm
    · exact hm
  | survival ratio dI dE =>
    simp only [CellOp.apply] at h; injection h with h; subst h
    obtain ⟨h0, h1, hv⟩ := hd
    split
    · rename_i hlt
      exact removeByRatio_mort c ratio dI dE hg.nn.i h0 h1 (hv hlt).1 hm
    · exact hm
  | lethal d =>
    simp only [CellOp.apply] at h; injection h with h; subst h
    exact removeInfected_mort c c.i d ⟨hg.nn.i, Int.le_refl _⟩ hd hm
  | mortality rate lag =>
    have hr := (mortality_facts hd.1 hd.2.1 lag hg h).2
    have := hr.di; have := hr.sm; omega
  | stepForward mt l s =>
    simp only [CellOp.apply] at h; injection h with h; subst h
    exact stepForward_mort mt l s c hd hm

/-! ### host moves -/

def eDeltaOf (src : Cell) (d : ClassDraw) (dE : List Int) : List Int :=
  if d.e > 0 then dE else src.e.map (fun _ => 0)
def mDeltaOf (src : Cell) (d : ClassDraw) (dM : List Int) : List Int :=
  if d.i > 0 then dM else src.mort.map (fun _ => 0)

theorem moveHosts_eq (src dst : Cell) (count : Int) (d : ClassDraw) (dE dM : List Int) :
    moveHosts src dst count d dE dM =
      ({ src with e := subL src.e (eDeltaOf src d dE), mort := subL src.mort (mDeltaOf src d dM),
                  i := src.i - d.i, s := src.s - d.s, th := src.th - hostsMoved src count,
                  te := src.te - d.e, r := src.r - d.r },
       { dst with e := addL dst.e (eDeltaOf src d dE), mort := addL dst.mort (mDeltaOf src d dM),
                  i := dst.i + d.i, s := dst.s + d.s, th := dst.th + hostsMoved src count,
                  te := dst.te + d.e, r := dst.r + d.r },
       hostsMoved src count) := rfl

structure ClassDrawOK (src : Cell) (count : Int) (d : ClassDraw) : Prop where
  i : 0 ≤ d.i ∧ d.i ≤ src.i
  s : 0 ≤ d.s ∧ d.s ≤ src.s
  e : 0 ≤ d.e ∧ d.e ≤ src.te
  r : 0 ≤ d.r ∧ d.r ≤ src.r
  sum : d.i + d.s + d.e + d.r = min (hostsMoved src count) (src.i + src.s + src.te + src.r)

theorem classDraw_of_bool {src : Cell} {count : Int} {d : ClassDraw}
    (h : validClassDrawB src count d = true) : ClassDrawOK src count d := by
  simp only [validClassDrawB, Bool.and_eq_true, decide_eq_true_eq] at h
  obtain ⟨⟨⟨⟨⟨⟨⟨⟨h1, h2⟩, h3⟩, h4⟩, h5⟩, h6⟩, h7⟩, h8⟩, h9⟩ := h
  exact ⟨⟨h1, h2⟩, ⟨h3, h4⟩, ⟨h5, h6⟩, ⟨h7, h8⟩, h9⟩

theorem hostsMoved_bounds (src : Cell) (count : Int) :
    hostsMoved src count ≤ count ∧ hostsMoved src count ≤ src.th ∧
      (0 ≤ count → 0 ≤ src.th → 0 ≤ hostsMoved src count) := by
  unfold hostsMoved; split <;> omega

theorem eDelta_facts {src : Cell} {d : ClassDraw} {dE : List Int} (hg : src.Good)
    (hde : 0 ≤ d.e ∧ d.e ≤ src.te) (hE : d.e > 0 → ValidDraw src.e d.e dE) :
    Dom src.e (eDeltaOf src d dE) ∧ sumL (eDeltaOf src d dE) = d.e := by
  have hte := hg.te
  unfold eDeltaOf
  split
  · rename_i hp
    have hv := hE hp
    exact ⟨hv.dom, by rw [hv.sum]; omega⟩
  · exact ⟨dom_zeros hg.nn.e, by rw [sumL_zeros]; omega⟩

theorem mDelta_facts {src : Cell} {d : ClassDraw} {dM : List Int} (hg : src.Good)
    (hdi : 0 ≤ d.i ∧ d.i ≤ src.i) (hM : d.i > 0 → ValidDraw src.mort d.i dM) :
    Dom src.mort (mDeltaOf src d dM) ∧ (src.i = sumL src.mort → sumL (mDeltaOf src d dM) = d.i) := by
  unfold mDeltaOf
  split
  · rename_i hp
    have hv := hM hp
    exact ⟨hv.dom, fun hm => by rw [hv.sum]; omega⟩
  · exact ⟨dom_zeros hg.nn.mort, fun _ => by rw [sumL_zeros]; omega⟩

/-- Source side of a move. -/
theorem move_src_facts {src dst : Cell} {count : Int} {d : ClassDraw} {dE dM : List Int}
    (hg : src.Good) (hd : validClassDrawB src count d = true)
    (hE : d.e > 0 → ValidDraw src.e d.e dE) (hM : d.i > 0 → ValidDraw src.mort d.i dM) :
    (moveHosts src dst count d dE dM).1.Good ∧
    (moveHosts src dst count d dE dM).1.e.length = src.e.length ∧
    (moveHosts src dst count d dE dM).1.mort.length = src.mort.length ∧
    (src.i = sumL src.mort →
      (moveHosts src dst count d dE dM).1.i = sumL (moveHosts src dst count d dE dM).1.mort) := by
  have hc := classDraw_of_bool hd
  obtain ⟨hi, hs, he, hr, hsum⟩ := hc
  obtain ⟨hdomE, hsumE⟩ := eDelta_facts hg he hE
  obtain ⟨hdomM, hsumM⟩ := mDelta_facts hg hi hM
  have hmv := hostsMoved_bounds src count
  have e1 := sumL_subL hdomE.length_eq
  have e2 := sumL_subL hdomM.length_eq
  obtain ⟨⟨hs0, he0, hi0, hr0, hte0, hm0, hdd0, hth0⟩, hth, hte⟩ := hg
  rw [moveHosts_eq]
  refine ⟨⟨⟨by carith, hdomE.allNN_sub, by carith, by carith, by carith, hdomM.allNN_sub, hdd0,
    by carith⟩, by carith, by carith⟩, length_subL hdomE.length_eq, length_subL hdomM.length_eq, ?_⟩
  intro hm
  have := hsumM hm
  carith

/-- Target side of a move. -/
theorem move_dst_facts {src dst : Cell} {count : Int} {d : ClassDraw} {dE dM : List Int}
    (hg : src.Good) (hd : validClassDrawB src count d = true)
    (hE : d.e > 0 → ValidDraw src.e d.e dE) (hM : d.i > 0 → ValidDraw src.mort d.i dM) :
    (dst.NN → 0 ≤ count → (moveHosts src dst count d dE dM).2.1.NN) ∧
    (dst.e.length = src.e.length → dst.th = dst.s + sumL dst.e + dst.i + dst.r → dst.te = sumL dst.e →
      (moveHosts src dst count d dE dM).2.1.th =
        (moveHosts src dst count d dE dM).2.1.s + sumL (moveHosts src dst count d dE dM).2.1.e +
        (moveHosts src dst count d dE dM).2.1.i + (moveHosts src dst count d dE dM).2.1.r ∧
      (moveHosts src dst count d dE dM).2.1.te = sumL (moveHosts src dst count d dE dM).2.1.e) ∧
    (dst.e.length = src.e.length →
      (moveHosts src dst count d dE dM).2.1.e.length = dst.e.length) ∧
    (dst.mort.length = src.mort.length →
      (moveHosts src dst count d dE dM).2.1.mort.length = dst.mort.length) ∧
    (dst.mort.length = src.mort.length → src.i = sumL src.mort → dst.i = sumL dst.mort →
      (moveHosts src dst count d dE dM).2.1.i = sumL (moveHosts src dst count d dE dM).2.1.mort) := by
  have hc := classDraw_of_bool hd
  obtain ⟨hi, hs, he, hr, hsum⟩ := hc
  obtain ⟨hdomE, hsumE⟩ := eDelta_facts hg he hE
  obtain ⟨hdomM, hsumM⟩ := mDelta_facts hg hi hM
  have hmv := hostsMoved_bounds src count
  obtain ⟨⟨hs0, he0, hi0, hr0, hte0, hm0, hdd0, hth0⟩, hth, hte⟩ := hg
  rw [moveHosts_eq]
  refine ⟨?_, ?_, ?_, ?_, ?_⟩
  · intro ⟨ds, de, di, dr, dte, dm, ddd, dth⟩ hcount
    exact ⟨by carith, allNN_addL de hdomE.allNN_draw, by carith, by carith, by carith,
      allNN_addL dm hdomM.allNN_draw, ddd, by carith⟩
  · intro hl dth dte
    have e1 := sumL_addL (a := dst.e) (hdomE.length_eq.trans hl.symm)
    exact ⟨by carith, by carith⟩
  · intro hl; exact length_addL (hdomE.length_eq.trans hl.symm)
  · intro hl; exact length_addL (hdomM.length_eq.trans hl.symm)
  · intro hl hm hmd
    have e1 := sumL_addL (a := dst.mort) (hdomM.length_eq.trans hl.symm)
    have := hsumM hm
    carith

theorem move_ledger {src dst : Cell} {count : Int} {d : ClassDraw} {dE dM : List Int}
    (hg : src.Good) (hd : validClassDrawB src count d = true)
    (hE : d.e > 0 → ValidDraw src.e d.e dE) (hlenE : dst.e.length = src.e.length) :
    moveLedgerOK src dst (moveHosts src dst count d dE dM).1 (moveHosts src dst count d dE dM).2.1
      = true := by
  have hc := classDraw_of_bool hd
  obtain ⟨hi, hs, he, hr, hsum⟩ := hc
  obtain ⟨hdomE, hsumE⟩ := eDelta_facts hg he hE
  have e1 := sumL_subL hdomE.length_eq
  have e2 := sumL_addL (a := dst.e) (hdomE.length_eq.trans hlenE.symm)
  rw [moveHosts_eq]
  simp only [moveLedgerOK, Bool.and_eq_true, decide_eq_true_eq]
  simp only [Cell.hosts]
  refine ⟨⟨?_, trivial⟩, trivial⟩
  omega

theorem moveLedger_iff {src dst s' d' : Cell} : moveLedgerOK src dst s' d' = true ↔
    s'.hosts + d'.hosts = src.hosts + dst.hosts ∧ s'.died = src.died ∧ d'.died = dst.died := by
  simp only [moveLedgerOK, Bool.and_eq_true, decide_eq_true_eq, and_assoc]

/-! ### landscapes -/

theorem sumL_map_set {α : Type} (f : α → Int) (l : List α) (k : Nat) (a a' : α)
    (h : l[k]? = some a) : sumL ((l.set k a').map f) = sumL (l.map f) - f a + f a' := by
  induction l generalizing k with
  | nil => simp at h
  | cons x xs ih =>
    cases k with
    | zero =>
      simp only [List.getElem?_cons_zero, Option.some.injEq] at h; subst h
      simp only [List.set_cons_zero, List.map_cons, sumL_cons]; omega
    | succ k =>
      simp only [List.getElem?_cons_succ] at h
      have := ih k h
      simp only [List.set_cons_succ, List.map_cons, sumL_cons]; omega

theorem Land.hosts_set {l : Land} {k : Nat} {c : Cell} (c' : Cell) (h : l[k]? = some c) :
    Land.hosts (l.set k c') = l.hosts - c.hosts + c'.hosts := sumL_map_set Cell.hosts l k c c' h

theorem Land.died_set {l : Land} {k : Nat} {c : Cell} (c' : Cell) (h : l[k]? = some c) :
    Land.died (l.set k c') = l.died - c.died + c'.died := sumL_map_set Cell.died l k c c' h

theorem land_inv_iff (l : Land) : l.inv ↔ ∀ c ∈ l, c.Good := by
  unfold Land.inv
  constructor
  · intro h c hc; exact good_of_bool (h c hc).1 (h c hc).2
  · intro h c hc; exact ⟨(h c hc).nonNeg, (h c hc).totalsOK⟩

theorem Land.inv_set {l : Land} (h : l.inv) (k : Nat) {c' : Cell} (hc : c'.Good) :
    Land.inv (l.set k c') := by
  intro x hx
  rcases List.mem_or_eq_of_mem_set hx with hx | rfl
  · exact h x hx
  · exact ⟨hc.nonNeg, hc.totalsOK⟩

theorem Land.uniform_set {l : Land} (h : l.uniform) {k : Nat} {c c' : Cell} (hk : l[k]? = some c)
    (hE : c'.e.length = c.e.length) (hM : c'.mort.length = c.mort.length) :
    Land.uniform (l.set k c') := by
  have hcl : c ∈ l := List.mem_of_getElem? hk
  have key : ∀ x ∈ l.set k c', ∃ y ∈ l, x.e.length = y.e.length ∧ x.mort.length = y.mort.length := by
    intro x hx
    rcases List.mem_or_eq_of_mem_set hx with hx | rfl
    · exact ⟨x, hx, rfl, rfl⟩
    · exact ⟨c, hcl, hE, hM⟩
  intro a ha b hb
  obtain ⟨a', ha', ae, am⟩ := key a ha
  obtain ⟨b', hb', be, bm⟩ := key b hb
  obtain ⟨h1, h2⟩ := h a' ha' b' hb'
  exact ⟨by omega, by omega⟩

/-- The amount a cell action contributes to `removedAlong`. -/
def ledgerRemoved (k : Ledger) (c c' : Cell) : Int :=
  match k with
  | .removal => c.hosts - c'.hosts
  | _ => 0

theorem ledger_summary {k : Ledger} {c c' : Cell} (h : ledgerOK k c c' = true) :
    c'.hosts = c.hosts - (c'.died - c.died) - ledgerRemoved k c c' ∧ 0 ≤ ledgerRemoved k c c' ∧
      c.died ≤ c'.died := by
  cases k <;> simp only [ledgerOK, Bool.and_eq_true, decide_eq_true_eq] at h <;>
    simp only [ledgerRemoved] <;> omega

theorem removed_at (k : Nat) (op : CellOp) (l : Land) (c c' : Cell) (hk : l[k]? = some c) :
    (LandOp.at k op).removed l (l.set k c') = ledgerRemoved op.ledger c c' := by
  have := Land.hosts_set c' hk
  cases op <;> simp only [LandOp.removed, CellOp.ledger, ledgerRemoved] <;> omega

theorem removed_at_self (k : Nat) (op : CellOp) (l : Land) : (LandOp.at k op).removed l l = 0 := by
  cases op <;> simp only [LandOp.removed] <;> omega

/-- One landscape action: invariants and the ledger. -/
structure LandStep (op : LandOp) (l l' : Land) : Prop where
  inv : l'.inv
  uniform : l'.uniform
  hosts : l'.hosts = l.hosts - (l'.died - l.died) - op.removed l l'
  removed : 0 ≤ op.removed l l'
  died : l.died ≤ l'.died

theorem LandStep.same (op : LandOp) {l : Land} (hinv : l.inv) (hu : l.uniform)
    (hr : op.removed l l = 0) : LandStep op l l :=
  ⟨hinv, hu, by omega, by omega, by omega⟩

theorem landOp_step (op : LandOp) (l l' : Land) (hinv : l.inv) (hu : l.uniform)
    (hd : op.inDomain l) (h : op.apply l = .ok l') : LandStep op l l' := by
  cases op with
  | «at» k op =>
    simp only [LandOp.apply] at h
    cases hk : l[k]? with
    | none =>
      rw [hk] at h; simp only at h; injection h with h; subst h
      exact LandStep.same _ hinv hu (removed_at_self k op l)
    | some c =>
      rw [hk] at h; simp only at h
      cases hc : op.apply c with
      | error e => rw [hc] at h; cases h
      | ok c' =>
        rw [hc] at h; simp only [Except.map] at h; injection h with h; subst h
        have hcl : c ∈ l := List.mem_of_getElem? hk
        have hg : c.Good := (land_inv_iff l).mp hinv c hcl
        have f := cellOp_facts op c c' (hd c hk) hg hc
        obtain ⟨s1, s2, s3⟩ := ledger_summary f.ledger
        have hh := Land.hosts_set c' hk
        have hdd := Land.died_set c' hk
        have hrm := removed_at k op l c c' hk
        exact ⟨Land.inv_set hinv k f.good, Land.uniform_set hu hk f.lenE f.lenM,
          by omega, by omega, by omega⟩
  | move a b count d dE dM =>
    simp only [LandOp.apply] at h
    by_cases hab : a = b
    · rw [if_pos hab] at h; injection h with h; subst h
      exact LandStep.same _ hinv hu rfl
    · rw [if_neg hab] at h
      cases ha : l[a]? with
      | none =>
        rw [ha] at h; simp only at h; injection h with h; subst h
        exact LandStep.same _ hinv hu rfl
      | some src =>
        cases hb : l[b]? with
        | none =>
          rw [ha, hb] at h; simp only at h; injection h with h; subst h
          exact LandStep.same _ hinv hu rfl
        | some dst =>
          rw [ha, hb] at h; simp only at h
          have hl' : l' = (l.set a (moveHosts src dst count d dE dM).1).set b
              (moveHosts src dst count d dE dM).2.1 := by
            injection h with h; exact h.symm
          subst hl'
          have hsl : src ∈ l := List.mem_of_getElem? ha
          have hdl : dst ∈ l := List.mem_of_getElem? hb
          have hgs : src.Good := (land_inv_iff l).mp hinv src hsl
          have hgd : dst.Good := (land_inv_iff l).mp hinv dst hdl
          obtain ⟨hlE, hlM⟩ := hu dst hdl src hsl
          obtain ⟨hcount, hv, hE, hM⟩ := hd src ha
          obtain ⟨sg, sle, slm, _⟩ := move_src_facts (dst := dst) (count := count) hgs hv hE hM
          obtain ⟨dnn, dtot, dle, dlm, _⟩ := move_dst_facts (dst := dst) (count := count) hgs hv hE hM
          have dg : (moveHosts src dst count d dE dM).2.1.Good :=
            ⟨dnn hgd.nn hcount, (dtot hlE hgd.th hgd.te).1, (dtot hlE hgd.th hgd.te).2⟩
          obtain ⟨m1, m2, m3⟩ := moveLedger_iff.mp (move_ledger (count := count) (dM := dM) hgs hv hE hlE)
          have hb' : (l.set a (moveHosts src dst count d dE dM).1)[b]? = some dst := by
            rw [List.getElem?_set_ne hab]; exact hb
          have hh1 := Land.hosts_set (moveHosts src dst count d dE dM).1 ha
          have hh2 := Land.hosts_set (moveHosts src dst count d dE dM).2.1 hb'
          have hd1 := Land.died_set (moveHosts src dst count d dE dM).1 ha
          have hd2 := Land.died_set (moveHosts src dst count d dE dM).2.1 hb'
          have hrm : (LandOp.move a b count d dE dM).removed l
              ((l.set a (moveHosts src dst count d dE dM).1).set b
                (moveHosts src dst count d dE dM).2.1) = 0 := rfl
          exact ⟨Land.inv_set (Land.inv_set hinv a sg) b dg,
            Land.uniform_set (Land.uniform_set hu ha sle slm) hb' (dle hlE) (dlm hlM),
            by omega, by omega, by omega⟩

/-! ### histories -/

theorem history_inv (ops : List LandOp) (l l' : Land) (hinv : l.inv) (hu : l.uniform)
    (hd : DomainAlong ops l) (h : runOps ops l = .ok l') : l'.inv ∧ l'.uniform := by
  induction ops generalizing l with
  | nil =>
    simp only [runOps] at h; injection h with h; subst h; exact ⟨hinv, hu⟩
  | cons op rest ih =>
    simp only [runOps] at h
    cases h1 : op.apply l with
    | error e => rw [h1] at h; cases h
    | ok l1 =>
      rw [h1] at h
      have st := landOp_step op l l1 hinv hu hd.1 h1
      exact ih l1 st.inv st.uniform (hd.2 l1 h1) h

theorem history_ledger (ops : List LandOp) (l l' : Land) (hinv : l.inv) (hu : l.uniform)
    (hd : DomainAlong ops l) (h : runOps ops l = .ok l') :
    l'.hosts = l.hosts - (l'.died - l.died) - removedAlong ops l ∧
    0 ≤ removedAlong ops l ∧ l.died ≤ l'.died ∧ l'.hosts ≤ l.hosts := by
  induction ops generalizing l with
  | nil =>
    simp only [runOps] at h; injection h with h; subst h
    simp only [removedAlong]; omega
  | cons op rest ih =>
    simp only [runOps] at h
    cases h1 : op.apply l with
    | error e => rw [h1] at h; cases h
    | ok l1 =>
      rw [h1] at h
      have st := landOp_step op l l1 hinv hu hd.1 h1
      obtain ⟨i1, i2, i3, i4⟩ := ih l1 st.inv st.uniform (hd.2 l1 h1) h
      have hr : removedAlong (op :: rest) l = op.removed l l1 + removedAlong rest l1 := by
        simp only [removedAlong, h1]
      have := st.hosts; have := st.removed; have := st.died
      rw [hr]; omega

/-! ### remaining C02 / C03 facts -/

theorem infected_le_total {c : Cell} (hg : c.Good) : c.infectedLeTotal = true := by
  have := sumL_nonneg hg.nn.e
  have := hg.th; have := hg.nn.s; have := hg.nn.r
  simp only [Cell.infectedLeTotal, decide_eq_true_eq]; omega

theorem taken_le_present (c : Cell) (k : Int) (hn : c.NN) (hk : 0 ≤ k) :
    (c.pestsTo k).2 ≤ k ∧ (c.pestsTo k).2 ≤ c.s ∧ 0 ≤ (c.pestsTo k).2 ∧
    (∀ p : Rat, 0 ≤ p → p ≤ 1 → 0 ≤ lround ((c.i : Rat) * p) ∧ lround ((c.i : Rat) * p) ≤ c.i) ∧
    (∀ count : Int, 0 ≤ count →
      hostsMoved c count ≤ count ∧ hostsMoved c count ≤ c.th ∧ 0 ≤ hostsMoved c count) := by
  have hs := hn.s
  have hp : (c.pestsTo k).2 ≤ k ∧ (c.pestsTo k).2 ≤ c.s ∧ 0 ≤ (c.pestsTo k).2 := by
    unfold Cell.pestsTo
    split <;> (dsimp only; omega)
  refine ⟨hp.1, hp.2.1, hp.2.2, fun p h0 h1 => lround_share hn.i h0 h1, fun count hc => ?_⟩
  have := hostsMoved_bounds c count
  exact ⟨this.1, this.2.1, this.2.2 hc hn.th⟩

/-- What the mortality loop guarantees for any positive rate (no upper bound on the rate). -/
structure MortWeak (c0 c : Cell) : Prop where
  i : 0 ≤ c.i
  dd : c0.died ≤ c.died
  di : c.i = c0.i - (c.died - c0.died)

theorem mortalityAtIndex_weak {rate : Rat} (h0 : 0 < rate) (idx : Nat) (c c' : Cell)
    (hi : 0 ≤ c.i) (h : mortalityAtIndex rate idx c = .ok c') : MortWeak c c' := by
  unfold mortalityAtIndex at h
  dsimp only at h
  by_cases hm0 : c.mort[idx]! > 0
  · rw [if_pos hm0] at h
    have hkb : 0 ≤ (if idx = 0 then c.mort[idx]! else rfloor (rate * c.mort[idx]!)) := by
      split
      · omega
      · exact rfloor_nonneg (Rat.mul_nonneg (Rat.le_of_lt h0) (intCast_nonneg (by omega)))
    generalize (if idx = 0 then c.mort[idx]! else rfloor (rate * c.mort[idx]!)) = k at h hkb
    by_cases hki : k > c.i
    · rw [if_pos hki] at h; cases h
    rw [if_neg hki] at h
    by_cases hkt : k > c.th
    · rw [if_pos hkt] at h; cases h
    rw [if_neg hkt] at h
    by_cases hip : c.i > 0
    all_goals
      first | rw [if_pos hip] at h | rw [if_neg hip] at h
      dsimp only at h
      injection h with h; subst h
      split <;> exact ⟨by carith, by carith, by carith⟩
  · rw [if_neg hm0] at h
    injection h with h; subst h
    exact ⟨hi, Int.le_refl _, by omega⟩

theorem died_le_infected (c c' : Cell) (rate : Rat) (lag : Int) (hi : 0 ≤ c.i)
    (h : (CellOp.mortality rate lag).apply c = .ok c') :
    c'.died - c.died ≤ c.i ∧ 0 ≤ c'.died - c.died := by
  simp only [CellOp.apply] at h
  cases ha : c.applyMortality rate lag with
  | error e => rw [ha] at h; cases h
  | ok c1 =>
    rw [ha] at h; simp only [Except.map] at h; injection h with h; subst h
    have hw : MortWeak c c1 := by
      unfold Cell.applyMortality at ha
      split at ha
      · injection ha with ha; subst ha; exact ⟨hi, Int.le_refl _, by omega⟩
      · rename_i hr
        have hr0 : 0 < rate := Rat.not_le.mp hr
        refine foldlM_inv (fun c idx => mortalityAtIndex rate idx c) (MortWeak c) ?_
          _ c c1 ⟨hi, Int.le_refl _, by omega⟩ ha
        intro b a b' hb hf
        have hs := mortalityAtIndex_weak hr0 a b b' hb.i hf
        obtain ⟨a1, a2, a3⟩ := hb
        obtain ⟨b1, b2, b3⟩ := hs
        exact ⟨b1, by omega, by omega⟩
    obtain ⟨a1, a2, a3⟩ := hw
    unfold Cell.stepForwardMortality
    dsimp only; omega

theorem mortality_never_fails (c : Cell) (rate : Rat) (lag : Int) (hr : 0 ≤ rate ∧ rate ≤ 1)
    (hg : c.Good) (hm : c.i = sumL c.mort) :
    ∃ c', (CellOp.mortality rate lag).apply c = .ok c' := by
  have := sumL_nonneg hg.nn.e
  have := hg.th; have := hg.nn.s; have := hg.nn.r
  obtain ⟨c1, h1⟩ := applyMortality_ok hr.1 hr.2 lag c hg.nn.mort hm (by omega)
  exact ⟨c1.stepForwardMortality, by simp only [CellOp.apply, h1, Except.map]⟩

/-- Cohort part of a move (does not need the exposed draw). -/
theorem move_mort_facts {src dst : Cell} {count : Int} {d : ClassDraw} {dE dM : List Int}
    (hg : src.Good) (hd : validClassDrawB src count d = true)
    (hM : d.i > 0 → ValidDraw src.mort d.i dM) (hlenM : dst.mort.length = src.mort.length)
    (hms : src.i = sumL src.mort) (hmd : dst.i = sumL dst.mort) :
    (moveHosts src dst count d dE dM).1.i = sumL (moveHosts src dst count d dE dM).1.mort ∧
    (moveHosts src dst count d dE dM).2.1.i = sumL (moveHosts src dst count d dE dM).2.1.mort := by
  obtain ⟨hi, hs, he, hr, hsum⟩ := classDraw_of_bool hd
  obtain ⟨hdomM, hsumM⟩ := mDelta_facts hg hi hM
  have e1 := sumL_subL hdomM.length_eq
  have e2 := sumL_addL (a := dst.mort) (hdomM.length_eq.trans hlenM.symm)
  have := hsumM hms
  rw [moveHosts_eq]
  exact ⟨by carith, by carith⟩

/-! ### the F20 witness -/

theorem rceil_eq_one {q : Rat} (h0 : 0 < q) (h1 : q ≤ 1) : rceil q = 1 := by
  unfold rceil
  have a : q.ceil ≤ 1 := Rat.ceil_le_iff.mpr (by simpa using h1)
  have b : ¬ q.ceil ≤ 0 := fun h => by
    have := Rat.ceil_le_iff.mp h
    simp at this
    grind
  omega

theorem rceil_zero_half : rceil (((0 : Int) : Rat) * (1/2 : Rat)) = 0 := by
  have : (((0 : Int) : Rat) * (1/2 : Rat)) = 0 := by simp
  rw [this, rceil_zero]
theorem rceil_one_half : rceil (((1 : Int) : Rat) * (1/2 : Rat)) = 1 :=
  rceil_eq_one (by grind) (by grind)
theorem rceil_two_half : rceil (((2 : Int) : Rat) * (1/2 : Rat)) = 1 :=
  rceil_eq_one (by grind) (by grind)

theorem half_in_unit : (0 : Rat) ≤ 1/2 ∧ (1/2 : Rat) ≤ 1 := by constructor <;> grind

/-- Ratio removal with coefficient 1/2 on cohorts [1,1]: each cohort loses ceil(1/2) = 1 but the
    infected total loses only ceil(2/2) = 1. -/
theorem f20_witness :
    (CellOp.simpleTreat (1/2) .ratio).apply ⟨0, [], 2, 0, 0, [1, 1], 0, 2⟩ =
      .ok ⟨0, [], 1, 0, 0, [0, 0], 0, 1⟩ := by
  simp only [CellOp.apply, Cell.simpleTreat, getTreated, List.map, rceil_zero_half, rceil_one_half,
    rceil_two_half]
  rfl

end Pops
