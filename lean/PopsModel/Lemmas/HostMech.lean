/-
  Helper lemmas for the mechanism properties C05, C10, C11, C12.
-/
import PopsModel.Model.HostOps
import PopsModel.Lemmas.Rounding
namespace Pops

/-! ### list facts -/

theorem mech_subL_map (l : List Int) (f : Int → Int) :
    subL l (l.map f) = l.map (fun x => x - f x) := by
  unfold subL
  induction l with
  | nil => rfl
  | cons x xs ih => simp only [List.map_cons, List.zipWith_cons_cons, ih]

theorem mech_sumL_subL (a b : List Int) (h : a.length = b.length) :
    sumL (subL a b) = sumL a - sumL b := by
  unfold subL
  induction a generalizing b with
  | nil => cases b with
    | nil => simp
    | cons y ys => simp at h
  | cons x xs ih => cases b with
    | nil => simp at h
    | cons y ys =>
      simp only [List.length_cons, Nat.add_right_cancel_iff] at h
      simp only [List.zipWith_cons_cons, sumL_cons, ih ys h]; omega

theorem mech_sumL_map_sub (l : List Int) (f : Int → Int) :
    sumL (l.map (fun x => x - f x)) = sumL l - sumL (l.map f) := by
  rw [← mech_subL_map, mech_sumL_subL _ _ (by simp)]

theorem mech_sumL_nonneg (l : List Int) (h : ∀ x ∈ l, 0 ≤ x) : 0 ≤ sumL l := by
  induction l with
  | nil => simp
  | cons x xs ih =>
    simp only [sumL_cons]
    have := h x (by simp)
    have := ih (fun y hy => h y (by simp [hy]))
    omega

theorem mech_mem_le_sumL (l : List Int) (h : ∀ x ∈ l, 0 ≤ x) : ∀ x ∈ l, x ≤ sumL l := by
  induction l with
  | nil => intro x hx; simp at hx
  | cons y ys ih =>
    intro x hx
    simp only [sumL_cons]
    have hy := h y (by simp)
    have hys : ∀ z ∈ ys, 0 ≤ z := fun z hz => h z (by simp [hz])
    have h0 := mech_sumL_nonneg ys hys
    rcases List.mem_cons.mp hx with rfl | hx
    · omega
    · have := ih hys x hx; omega

theorem mech_sumL_zero (l : List Int) (h : ∀ x ∈ l, x = 0) : sumL l = 0 := by
  induction l with
  | nil => simp
  | cons x xs ih =>
    simp only [sumL_cons]
    have := h x (by simp)
    have := ih (fun y hy => h y (by simp [hy]))
    omega

theorem mech_zip_map_not_lt (l : List Int) (f : Int → Int) (h : ∀ x ∈ l, f x ≤ x) :
    (List.zip l (l.map f)).any (fun p => decide (p.1 < p.2)) = false := by
  induction l with
  | nil => rfl
  | cons x xs ih =>
    simp only [List.map_cons, List.zip_cons_cons, List.any_cons, Bool.or_eq_false_iff,
      decide_eq_false_iff_not]
    refine ⟨?_, ih (fun y hy => h y (by simp [hy]))⟩
    have := h x (by simp)
    omega

/-! ### nonNeg / totalsOK / mortOK unfolded -/

theorem mech_nonNeg_iff (c : Cell) : c.nonNeg = true ↔
    0 ≤ c.s ∧ (∀ x ∈ c.e, 0 ≤ x) ∧ 0 ≤ c.i ∧ 0 ≤ c.r ∧ 0 ≤ c.te ∧ (∀ x ∈ c.mort, 0 ≤ x) ∧
    0 ≤ c.died ∧ 0 ≤ c.th := by
  simp only [Cell.nonNeg, Bool.and_eq_true, decide_eq_true_eq, List.all_eq_true]
  constructor
  · rintro ⟨⟨⟨⟨⟨⟨⟨a, b⟩, c⟩, d⟩, e⟩, f⟩, g⟩, h⟩; exact ⟨a, b, c, d, e, f, g, h⟩
  · rintro ⟨a, b, c, d, e, f, g, h⟩; exact ⟨⟨⟨⟨⟨⟨⟨a, b⟩, c⟩, d⟩, e⟩, f⟩, g⟩, h⟩

theorem mech_totalsOK_iff (c : Cell) : c.totalsOK = true ↔
    c.th = c.s + sumL c.e + c.i + c.r ∧ c.te = sumL c.e := by
  simp only [Cell.totalsOK, Bool.and_eq_true, decide_eq_true_eq]

theorem mech_mortOK_iff (c : Cell) : c.mortOK = true ↔ c.i = sumL c.mort := by
  simp only [Cell.mortOK, decide_eq_true_eq]

/-! ### treatment shares -/

theorem mech_rceil_zero : rceil 0 = 0 := by
  have := rceil_int 0; simpa using this
theorem mech_rfloor_zero : rfloor 0 = 0 := by
  have := rfloor_int 0; simpa using this

theorem mech_rceil_mono {a b : Rat} (h : a ≤ b) : rceil a ≤ rceil b := by
  unfold rceil
  exact Rat.ceil_le_iff.mpr (Rat.le_trans h Rat.le_ceil)

theorem mech_rfloor_mono {a b : Rat} (h : a ≤ b) : rfloor a ≤ rfloor b := by
  unfold rfloor; exact Rat.floor_monotone h

/-- The share a treatment takes of a count: `round (get_treated count)`. -/
def mech_sh (rnd : Rat → Int) (coef : Rat) (app : TreatApp) (x : Int) : Int :=
  rnd (getTreated coef app x)

theorem mech_sh_ratio (rnd : Rat → Int) (coef : Rat) (x : Int) :
    mech_sh rnd coef .ratio x = rnd ((x : Rat) * coef) := rfl

theorem mech_sh_all_ceil (coef : Rat) (x : Int) :
    mech_sh rceil coef .allInfected x = if coef ≠ 0 then x else 0 := by
  unfold mech_sh getTreated
  by_cases h : coef = 0
  · simp [h, mech_rceil_zero]
  · simp [h, rceil_int]

theorem mech_sh_all_floor (coef : Rat) (x : Int) :
    mech_sh rfloor coef .allInfected x = if coef ≠ 0 then x else 0 := by
  unfold mech_sh getTreated
  by_cases h : coef = 0
  · simp [h, mech_rfloor_zero]
  · simp [h, rfloor_int]

theorem mech_sh_ceil_bounds (coef : Rat) (app : TreatApp) (h0 : 0 ≤ coef) (h1 : coef ≤ 1)
    (x : Int) (hx : 0 ≤ x) : 0 ≤ mech_sh rceil coef app x ∧ mech_sh rceil coef app x ≤ x := by
  cases app with
  | ratio => rw [mech_sh_ratio]; exact rceil_share hx h0 h1
  | allInfected => rw [mech_sh_all_ceil]; split <;> omega

theorem mech_sh_floor_bounds (coef : Rat) (app : TreatApp) (h0 : 0 ≤ coef) (h1 : coef ≤ 1)
    (x : Int) (hx : 0 ≤ x) : 0 ≤ mech_sh rfloor coef app x ∧ mech_sh rfloor coef app x ≤ x := by
  cases app with
  | ratio => rw [mech_sh_ratio]; exact rfloor_share hx h0 h1
  | allInfected => rw [mech_sh_all_floor]; split <;> omega

theorem mech_sh_ceil_mono (coef : Rat) (app : TreatApp) (h0 : 0 ≤ coef)
    (x y : Int) (hxy : x ≤ y) : mech_sh rceil coef app x ≤ mech_sh rceil coef app y := by
  cases app with
  | ratio =>
    rw [mech_sh_ratio, mech_sh_ratio]
    apply mech_rceil_mono
    exact Rat.mul_le_mul_of_nonneg_right (Rat.intCast_le_intCast.mpr hxy) h0
  | allInfected => rw [mech_sh_all_ceil, mech_sh_all_ceil]; split <;> omega

/-! ### `completelyRemove` with per-element shares -/

theorem mech_completelyRemove (c : Cell) (sh : Int → Int) (sR : Int) (hsR : 0 ≤ sR)
    (hb : ∀ x, 0 ≤ x → 0 ≤ sh x ∧ sh x ≤ x)
    (hmono : ∀ x y, x ≤ y → sh x ≤ sh y)
    (hn : c.nonNeg = true) (hm : c.mortOK = true) :
    c.completelyRemove sR (c.e.map sh) (sh c.i) (c.mort.map sh) = .ok
      { s := c.s - sR, e := c.e.map (fun x => x - sh x), i := c.i - sh c.i, r := c.r,
        te := c.te - sumL (c.e.map sh), mort := c.mort.map (fun x => x - sh x), died := c.died,
        th := (c.s - sR) + sumL (c.e.map (fun x => x - sh x)) + (c.i - sh c.i) + c.r } := by
  obtain ⟨_, _, hi, _, _, hmn, _, _⟩ := (mech_nonNeg_iff c).mp hn
  have hm' := (mech_mortOK_iff c).mp hm
  have hc1 : (if sR > 0 then { c with s := c.s - sR } else c) = { c with s := c.s - sR } := by
    split
    · rfl
    · have : sR = 0 := by omega
      subst this; simp
  unfold Cell.completelyRemove
  simp only [hc1, List.length_map, ne_eq, not_true_eq_false, if_false, Cell.resetTotal,
    mech_subL_map]
  by_cases hiR : sh c.i ≤ 0
  · have hz : ∀ x ∈ c.mort, sh x = 0 := by
      intro x hx
      have h1 := hmn x hx
      have h2 := mech_mem_le_sumL c.mort hmn x hx
      have h3 := hmono x c.i (by omega)
      have := (hb x h1).1
      omega
    have hmap : c.mort.map (fun x => x - sh x) = c.mort := by
      have : ∀ x ∈ c.mort, (fun x => x - sh x) x = id x := by
        intro x hx; simp [hz x hx]
      rw [List.map_congr_left this, List.map_id]
    have : sh c.i = 0 := by have := (hb c.i hi).1; omega
    simp only [hmap, this, Int.sub_zero, Int.le_refl, if_true]
  · have hnl : (List.zip c.mort (c.mort.map sh)).any (fun p => decide (p.1 < p.2)) = false :=
      mech_zip_map_not_lt c.mort sh (fun x hx => (hb x (hmn x hx)).2)
    simp only [hiR, if_false, hnl, Bool.false_eq_true]

/-! ### C10 -/

/-- Result of the removal treatment, explicitly. -/
def mech_simpleRes (coef : Rat) (app : TreatApp) (c : Cell) : Cell :=
  { s := c.s - rceil ((c.s : Rat) * coef),
    e := c.e.map (fun x => x - mech_sh rceil coef app x),
    i := c.i - mech_sh rceil coef app c.i, r := c.r,
    te := c.te - sumL (c.e.map (mech_sh rceil coef app)),
    mort := c.mort.map (fun x => x - mech_sh rceil coef app x), died := c.died,
    th := (c.s - rceil ((c.s : Rat) * coef)) + sumL (c.e.map (fun x => x - mech_sh rceil coef app x))
      + (c.i - mech_sh rceil coef app c.i) + c.r }

theorem mech_simpleTreat_eq (coef : Rat) (app : TreatApp) (c : Cell) (h0 : 0 ≤ coef) (h1 : coef ≤ 1)
    (hn : c.nonNeg = true) (hm : c.mortOK = true) :
    c.simpleTreat coef app = .ok (mech_simpleRes coef app c) := by
  have hs := ((mech_nonNeg_iff c).mp hn).1
  exact mech_completelyRemove c (mech_sh rceil coef app) (rceil ((c.s : Rat) * coef))
    (rceil_share hs h0 h1).1 (mech_sh_ceil_bounds coef app h0 h1)
    (mech_sh_ceil_mono coef app h0) hn hm

theorem mech_simpleRes_totalsOK (coef : Rat) (app : TreatApp) (c : Cell) (ht : c.totalsOK = true) :
    (mech_simpleRes coef app c).totalsOK = true := by
  have ht' := (mech_totalsOK_iff c).mp ht
  rw [mech_totalsOK_iff]
  simp only [mech_simpleRes, mech_sumL_map_sub, true_and]
  omega

theorem mech_C10_removal (coef : Rat) (app : TreatApp) (c : Cell) (h0 : 0 ≤ coef) (h1 : coef ≤ 1)
    (hn : c.nonNeg = true) (ht : c.totalsOK = true) (hm : c.mortOK = true) :
    ∃ c', c.simpleTreat coef app = .ok c' ∧
      simpleTreatSpec coef (app == .allInfected) c c' = true ∧ c'.totalsOK = true := by
  refine ⟨_, mech_simpleTreat_eq coef app c h0 h1 hn hm, ?_, mech_simpleRes_totalsOK coef app c ht⟩
  cases app with
  | ratio =>
    simp only [simpleTreatSpec, mech_simpleRes, mech_sh_ratio, Bool.and_eq_true, decide_eq_true_eq,
      show (TreatApp.ratio == TreatApp.allInfected) = false from rfl, Bool.false_eq_true, if_false,
      and_self]
  | allInfected =>
    simp only [simpleTreatSpec, mech_simpleRes, mech_sh_all_ceil, Bool.and_eq_true, decide_eq_true_eq,
      show (TreatApp.allInfected == TreatApp.allInfected) = true from rfl, if_true,
      and_self]

/-- Result of the pesticide treatment, explicitly. -/
def mech_pestRes (coef : Rat) (app : TreatApp) (c : Cell) : Cell :=
  { c with s := c.s - rfloor ((c.s : Rat) * coef),
           e := c.e.map (fun x => x - mech_sh rfloor coef app x),
           te := c.te - sumL (c.e.map (mech_sh rfloor coef app)),
           i := c.i - mech_sh rfloor coef app c.i,
           mort := c.mort.map (fun x => x - mech_sh rfloor coef app x),
           r := c.r + (rfloor ((c.s : Rat) * coef) + sumL (c.e.map (mech_sh rfloor coef app))
              + mech_sh rfloor coef app c.i) }

theorem mech_pesticideTreat_eq (coef : Rat) (app : TreatApp) (c : Cell) (h0 : 0 ≤ coef) (h1 : coef ≤ 1)
    (hs : 0 ≤ c.s) :
    c.pesticideTreat coef app = .ok (mech_pestRes coef app c) := by
  have hb := (rfloor_share hs h0 h1).2
  have hlt : ¬ c.s < rfloor ((c.s : Rat) * coef) := by omega
  unfold Cell.pesticideTreat Cell.makeResistant
  simp only [getTreated, hlt, if_false, List.length_map, ne_eq, not_true_eq_false, mech_pestRes]
  simp only [← mech_subL_map]
  rfl

theorem mech_pestRes_totalsOK (coef : Rat) (app : TreatApp) (c : Cell) (ht : c.totalsOK = true) :
    (mech_pestRes coef app c).totalsOK = true := by
  have ht' := (mech_totalsOK_iff c).mp ht
  rw [mech_totalsOK_iff]
  simp only [mech_pestRes, mech_sumL_map_sub]
  omega

theorem mech_C10_pesticide (coef : Rat) (app : TreatApp) (c : Cell) (h0 : 0 ≤ coef) (h1 : coef ≤ 1)
    (hn : c.nonNeg = true) (ht : c.totalsOK = true) :
    ∃ c', c.pesticideTreat coef app = .ok c' ∧
      pesticideTreatSpec coef (app == .allInfected) c c' = true ∧ c'.totalsOK = true := by
  have hs := ((mech_nonNeg_iff c).mp hn).1
  refine ⟨_, mech_pesticideTreat_eq coef app c h0 h1 hs, ?_, mech_pestRes_totalsOK coef app c ht⟩
  cases app with
  | ratio =>
    have : mech_sh rfloor coef .ratio = fun (x : Int) => rfloor ((x : Rat) * coef) := rfl
    simp only [pesticideTreatSpec, mech_pestRes, Bool.and_eq_true, decide_eq_true_eq,
      show (TreatApp.ratio == TreatApp.allInfected) = false from rfl, Bool.false_eq_true, if_false,
      and_self, true_and, and_true, this]
    omega
  | allInfected =>
    have : mech_sh rfloor coef .allInfected = fun (x : Int) => if coef ≠ 0 then x else 0 := by
      funext x; exact mech_sh_all_floor coef x
    simp only [pesticideTreatSpec, mech_pestRes, Bool.and_eq_true, decide_eq_true_eq,
      show (TreatApp.allInfected == TreatApp.allInfected) = true from rfl, if_true,
      and_self, true_and, and_true, this]
    omega

theorem mech_sh_zero_ceil (app : TreatApp) (x : Int) : mech_sh rceil 0 app x = 0 := by
  cases app with
  | ratio => rw [mech_sh_ratio, share_zero, mech_rceil_zero]
  | allInfected => rw [mech_sh_all_ceil]; simp

theorem mech_sh_zero_floor (app : TreatApp) (x : Int) : mech_sh rfloor 0 app x = 0 := by
  cases app with
  | ratio => rw [mech_sh_ratio, share_zero, mech_rfloor_zero]
  | allInfected => rw [mech_sh_all_floor]; simp

theorem mech_sh_one_ceil (app : TreatApp) (x : Int) : mech_sh rceil 1 app x = x := by
  cases app with
  | ratio => rw [mech_sh_ratio, share_one, rceil_int]
  | allInfected => rw [mech_sh_all_ceil]; simp

theorem mech_sh_one_floor (app : TreatApp) (x : Int) : mech_sh rfloor 1 app x = x := by
  cases app with
  | ratio => rw [mech_sh_ratio, share_one, rfloor_int]
  | allInfected => rw [mech_sh_all_floor]; simp

theorem mech_sumL_map_zero (l : List Int) : sumL (l.map (fun _ => (0 : Int))) = 0 :=
  mech_sumL_zero _ (by intro x hx; simp at hx; exact hx.2.symm)

theorem mech_simpleRes_zero (app : TreatApp) (c : Cell) (ht : c.totalsOK = true) :
    mech_simpleRes 0 app c = c := by
  have ht' := (mech_totalsOK_iff c).mp ht
  have hsh : mech_sh rceil 0 app = fun _ => 0 := funext (mech_sh_zero_ceil app)
  unfold mech_simpleRes
  simp only [hsh, Int.sub_zero, List.map_id', share_zero, mech_rceil_zero, mech_sumL_map_zero]
  cases c
  simp only [Cell.mk.injEq, true_and] at *
  omega

theorem mech_pestRes_zero (app : TreatApp) (c : Cell) :
    mech_pestRes 0 app c = c := by
  have hsh : mech_sh rfloor 0 app = fun _ => 0 := funext (mech_sh_zero_floor app)
  unfold mech_pestRes
  simp only [hsh, Int.sub_zero, List.map_id', share_zero, mech_rfloor_zero, mech_sumL_map_zero,
    Int.add_zero]

theorem mech_simpleRes_one (app : TreatApp) (c : Cell) :
    (mech_simpleRes 1 app c).s = 0 ∧ (mech_simpleRes 1 app c).i = 0 ∧
    (∀ x ∈ (mech_simpleRes 1 app c).e, x = 0) ∧ (∀ x ∈ (mech_simpleRes 1 app c).mort, x = 0) ∧
    (mech_simpleRes 1 app c).r = c.r ∧ (mech_simpleRes 1 app c).th = c.r := by
  have hsh : mech_sh rceil 1 app = fun x => x := funext (mech_sh_one_ceil app)
  unfold mech_simpleRes
  simp only [hsh, Int.sub_self, share_one, rceil_int, List.mem_map, true_and]
  refine ⟨?_, ?_, ?_⟩
  · rintro x ⟨_, _, rfl⟩; rfl
  · rintro x ⟨_, _, rfl⟩; rfl
  · rw [mech_sumL_zero _ (by rintro x hx; simp at hx; exact hx.2.symm)]; omega

theorem mech_pestRes_one (app : TreatApp) (c : Cell) :
    (mech_pestRes 1 app c).s = 0 ∧ (mech_pestRes 1 app c).i = 0 ∧
    (∀ x ∈ (mech_pestRes 1 app c).e, x = 0) ∧ (∀ x ∈ (mech_pestRes 1 app c).mort, x = 0) ∧
    (mech_pestRes 1 app c).r = c.hosts := by
  have hsh : mech_sh rfloor 1 app = fun x => x := funext (mech_sh_one_floor app)
  unfold mech_pestRes Cell.hosts
  simp only [hsh, Int.sub_self, share_one, rfloor_int, List.mem_map, true_and, List.map_id']
  refine ⟨?_, ?_, ?_⟩
  · rintro x ⟨_, _, rfl⟩; rfl
  · rintro x ⟨_, _, rfl⟩; rfl
  · omega

theorem mech_C10_coef_zero_one (app : TreatApp) (c : Cell)
    (hn : c.nonNeg = true) (ht : c.totalsOK = true) (hm : c.mortOK = true) :
    c.simpleTreat 0 app = .ok c ∧ c.pesticideTreat 0 app = .ok c ∧
    (∃ c', c.simpleTreat 1 app = .ok c' ∧ c'.s = 0 ∧ c'.i = 0 ∧ (∀ x ∈ c'.e, x = 0) ∧
        (∀ x ∈ c'.mort, x = 0) ∧ c'.r = c.r ∧ c'.th = c.r) ∧
    (∃ c', c.pesticideTreat 1 app = .ok c' ∧ c'.s = 0 ∧ c'.i = 0 ∧ (∀ x ∈ c'.e, x = 0) ∧
        (∀ x ∈ c'.mort, x = 0) ∧ c'.r = c.hosts) := by
  have hs := ((mech_nonNeg_iff c).mp hn).1
  have z0 : (0 : Rat) ≤ 0 := by decide
  have z1 : (0 : Rat) ≤ 1 := by decide
  have o1 : (1 : Rat) ≤ 1 := by decide
  refine ⟨?_, ?_, ⟨_, mech_simpleTreat_eq 1 app c z1 o1 hn hm, mech_simpleRes_one app c⟩,
    ⟨_, mech_pesticideTreat_eq 1 app c z1 o1 hs, mech_pestRes_one app c⟩⟩
  · rw [mech_simpleTreat_eq 0 app c z0 z1 hn hm, mech_simpleRes_zero app c ht]
  · rw [mech_pesticideTreat_eq 0 app c z0 z1 hs, mech_pestRes_zero app c]

theorem mech_C10_pesticide_end (coef : Rat) (c : Cell) :
    pesticideEndSpec coef c (c.pesticideEnd coef) = true := by
  unfold pesticideEndSpec Cell.pesticideEnd Cell.removeResistance
  split <;> simp

theorem mech_C10_when (t : TreatSpec) (hlt : t.pesticide = true → t.start < t.end_) (k : Nat) :
    (t.eventAt k = .apply ↔ k = t.start) ∧
    (t.eventAt k = .finish ↔ (t.pesticide = true ∧ k = t.end_)) ∧
    (t.eventAt k = .nothing ↔ (k ≠ t.start ∧ ¬ (t.pesticide = true ∧ k = t.end_))) := by
  unfold TreatSpec.eventAt
  have e1 : (k = t.start) ↔ (t.start = k) := eq_comm
  have e2 : (k = t.end_) ↔ (t.end_ = k) := eq_comm
  simp only [ne_eq, e1, e2]
  by_cases h1 : t.start = k <;> by_cases hp : t.pesticide = true <;> by_cases h2 : t.end_ = k <;>
    simp [h1, hp, h2]
  have := hlt hp; omega

theorem mech_C10_cleared (ts : List TreatSpec) (step : Nat) (t : TreatSpec) :
    t ∈ clearAfterStep ts step ↔ (t ∈ ts ∧ t.start ≤ step) := by
  unfold clearAfterStep
  simp only [List.mem_filter, Bool.not_eq_true', decide_eq_false_iff_not, Nat.not_lt]

/-! ### establishment (C10, C12) -/

/-- The cell after one successful landing. -/
def mech_landed (mt : ModelType) (c : Cell) : Cell :=
  match mt with
  | .si => { c with s := c.s - 1, i := c.i + 1, mort := addLast c.mort 1 }
  | .sei => { c with s := c.s - 1, e := addLast c.e 1, te := c.te + 1 }

theorem mech_addDisperserAt_pos (mt : ModelType) (c : Cell) (h : 0 < c.s) :
    c.addDisperserAt mt = (mech_landed mt c, 1) := by
  have : ¬ c.s ≤ 0 := by omega
  unfold Cell.addDisperserAt mech_landed
  simp only [this, if_false]
  cases mt <;> rfl

theorem mech_disperserTo_nonpos (mt : ModelType) (c : Cell) (env : EnvCell) (sto : Bool) (pEst u : Rat)
    (hs : c.s ≤ 0) : c.disperserTo mt env sto pEst u = .ok (c, 0, 0) := by
  unfold Cell.disperserTo; simp only [hs, if_true]

theorem mech_disperserTo_pos (mt : ModelType) (c : Cell) (env : EnvCell) (sto : Bool) (pEst u p : Rat)
    (hs : 0 < c.s) (hp : c.suitability env = .ok p) :
    c.disperserTo mt env sto pEst u =
      .ok (if canEstablish p sto pEst u then (mech_landed mt c, 1, if sto then 1 else 0)
           else (c, 0, if sto then 1 else 0)) := by
  have : ¬ c.s ≤ 0 := by omega
  unfold Cell.disperserTo
  simp only [this, if_false, hp, mech_addDisperserAt_pos mt c hs]
  simp only [bind, Except.bind]
  cases canEstablish p sto pEst u <;> rfl

theorem mech_disperserTo_err (mt : ModelType) (c : Cell) (env : EnvCell) (sto : Bool) (pEst u : Rat)
    (e : ErrKind) (hs : 0 < c.s) (hp : c.suitability env = .error e) :
    c.disperserTo mt env sto pEst u = .error e := by
  have : ¬ c.s ≤ 0 := by omega
  unfold Cell.disperserTo
  simp only [this, if_false, hp]
  rfl

theorem mech_landed_s (mt : ModelType) (c : Cell) :
    (mech_landed mt c).r = c.r ∧ (mech_landed mt c).s = c.s - 1 := by
  cases mt <;> exact ⟨rfl, rfl⟩

theorem mech_C10_resistant (mt : ModelType) (c : Cell) (env : EnvCell) (sto : Bool) (pEst u : Rat)
    (c' : Cell) (k : Int) (n : Nat) (h : c.disperserTo mt env sto pEst u = .ok (c', k, n)) :
    c'.r = c.r ∧ (k = 0 ∨ k = 1) ∧ c'.s = c.s - k ∧ (c.s ≤ 0 → k = 0) := by
  by_cases hs : c.s ≤ 0
  · rw [mech_disperserTo_nonpos mt c env sto pEst u hs] at h
    simp only [Except.ok.injEq, Prod.mk.injEq] at h
    obtain ⟨rfl, rfl, rfl⟩ := h
    simp
  · have hs' : 0 < c.s := by omega
    cases hp : c.suitability env with
    | error e => rw [mech_disperserTo_err mt c env sto pEst u e hs' hp] at h; cases h
    | ok p =>
      rw [mech_disperserTo_pos mt c env sto pEst u p hs' hp] at h
      have := mech_landed_s mt c
      split at h
      · simp only [Except.ok.injEq, Prod.mk.injEq] at h
        obtain ⟨rfl, rfl, rfl⟩ := h
        refine ⟨this.1, Or.inr rfl, this.2, fun h => absurd h hs⟩
      · simp only [Except.ok.injEq, Prod.mk.injEq] at h
        obtain ⟨rfl, rfl, rfl⟩ := h
        refine ⟨rfl, Or.inl rfl, by omega, fun _ => rfl⟩

theorem mech_suitability_ok (c : Cell) (env : EnvCell) (p : Rat) (hp : c.suitability env = .ok p) :
    p = (c.s : Rat) / (env.n : Rat) * env.sus.getD 1 * env.w.getD 1 := by
  unfold Cell.suitability at hp
  simp only at hp
  split at hp
  · cases hp
  · simp only [Except.ok.injEq] at hp; exact hp.symm

theorem mech_C12_establish (mt : ModelType) (c : Cell) (env : EnvCell) (sto : Bool) (pEst u p : Rat)
    (hp : c.suitability env = .ok p) :
    ∃ c' k n, c.disperserTo mt env sto pEst u = .ok (c', k, n) ∧
      establishSpec c env sto pEst u k = true ∧ landingSpec mt c c' k = true ∧
      (k = 1 ↔ (c.s > 0 ∧ (if sto then u else 1 - pEst) < p)) := by
  have hpe := mech_suitability_ok c env p hp
  by_cases hs : c.s ≤ 0
  · refine ⟨c, 0, 0, mech_disperserTo_nonpos mt c env sto pEst u hs, ?_, ?_, ?_⟩
    · have : ¬ c.s > 0 := by omega
      simp [establishSpec, this]
    · simp [landingSpec]
    · have : ¬ c.s > 0 := by omega
      simp [this]
  · have hs' : 0 < c.s := by omega
    by_cases hc : (if sto then u else 1 - pEst) < p
    · have hce : canEstablish p sto pEst u = true := by
        simp only [canEstablish, decide_eq_true_eq]; exact hc
      refine ⟨mech_landed mt c, 1, if sto then 1 else 0, ?_, ?_, ?_, ?_⟩
      · rw [mech_disperserTo_pos mt c env sto pEst u p hs' hp]; simp only [hce, if_true]
      · rw [hpe] at hc
        simp only [establishSpec, decide_eq_true_eq, gt_iff_lt, hs', hc, and_self, if_true]
      · cases mt <;> simp [landingSpec, mech_landed]
      · simp only [gt_iff_lt, hs', hc, and_self]
    · have hce : canEstablish p sto pEst u = false := by
        simp only [canEstablish, decide_eq_false_iff_not]; exact hc
      refine ⟨c, 0, if sto then 1 else 0, ?_, ?_, ?_, ?_⟩
      · rw [mech_disperserTo_pos mt c env sto pEst u p hs' hp]
        simp only [hce, Bool.false_eq_true, if_false]
      · rw [hpe] at hc
        simp only [establishSpec, decide_eq_true_eq, gt_iff_lt, hs', hc, and_false, if_false]
      · simp [landingSpec]
      · simp only [gt_iff_lt, hs', hc, and_false, iff_false]; omega

theorem mech_C12_suit_rejected (c : Cell) (env : EnvCell)
    (h : (c.s : Rat) / (env.n : Rat) * env.sus.getD 1 * env.w.getD 1 < 0 ∨
         (c.s : Rat) / (env.n : Rat) * env.sus.getD 1 * env.w.getD 1 > 1) :
    c.suitability env = .error .invalid_argument := by
  unfold Cell.suitability
  simp only [h, if_true]

theorem mech_C12_example :
    (⟨1, [], 0, 0, 0, [0], 0, 1⟩ : Cell).suitability ⟨1, none, none⟩ = .ok 1 := by
  have h : ((1 : Int) : Rat) / ((1 : Int) : Rat) = 1 := by grind
  unfold Cell.suitability
  simp only [Option.getD_none, Rat.mul_one, h]
  have : ¬ ((1 : Rat) < 0 ∨ (1 : Rat) > 1) := by decide
  simp only [this, if_false]

/-! ### draws (C12 lethal temperature) -/

/-- `d` is dominated pointwise by `m`, with the same length and non-negative entries. -/
def mech_Dom : List Int → List Int → Prop
  | [], [] => True
  | x :: xs, y :: ys => 0 ≤ x ∧ x ≤ y ∧ mech_Dom xs ys
  | _, _ => False

theorem mech_Dom_of_index (d m : List Int) (hl : d.length = m.length)
    (h : ∀ k : Nat, k < d.length → 0 ≤ d[k]! ∧ d[k]! ≤ m[k]!) : mech_Dom d m := by
  induction d generalizing m with
  | nil => cases m with
    | nil => trivial
    | cons y ys => simp at hl
  | cons x xs ih => cases m with
    | nil => simp at hl
    | cons y ys =>
      simp only [List.length_cons, Nat.add_right_cancel_iff] at hl
      have h0 := h 0 (by simp)
      simp only [List.getElem!_cons_zero] at h0
      refine ⟨h0.1, h0.2, ih ys hl ?_⟩
      intro k hk
      have := h (k + 1) (by simp; omega)
      simpa only [List.getElem!_cons_succ] using this

theorem mech_Dom_of_valid (m d : List Int) (n : Int) (h : ValidDraw m n d) : mech_Dom d m :=
  mech_Dom_of_index d m h.1 h.2.1

theorem mech_Dom_length (d m : List Int) (h : mech_Dom d m) : d.length = m.length := by
  induction d generalizing m with
  | nil => cases m with
    | nil => rfl
    | cons y ys => exact h.elim
  | cons x xs ih => cases m with
    | nil => exact h.elim
    | cons y ys => simp only [List.length_cons, ih ys h.2.2]

theorem mech_Dom_subL_subL (d m : List Int) (h : mech_Dom d m) : subL m (subL m d) = d := by
  induction d generalizing m with
  | nil => cases m with
    | nil => rfl
    | cons y ys => exact h.elim
  | cons x xs ih => cases m with
    | nil => exact h.elim
    | cons y ys =>
      have := ih ys h.2.2
      unfold subL at *
      simp only [List.zipWith_cons_cons, this, List.cons.injEq, and_true]; omega

theorem mech_Dom_subL_nonneg (d m : List Int) (h : mech_Dom d m) : ∀ x ∈ subL m d, 0 ≤ x := by
  induction d generalizing m with
  | nil => cases m with
    | nil => intro x hx; simp [subL] at hx
    | cons y ys => exact h.elim
  | cons x xs ih => cases m with
    | nil => exact h.elim
    | cons y ys =>
      have := ih ys h.2.2
      unfold subL at *
      intro z hz
      simp only [List.zipWith_cons_cons, List.mem_cons] at hz
      rcases hz with rfl | hz
      · have := h.1; have := h.2.1; omega
      · exact this z hz

theorem mech_Dom_zip_all (d m : List Int) (h : mech_Dom d m) :
    (List.zip d m).all (fun p => decide (0 ≤ p.1) && decide (p.1 ≤ p.2)) = true := by
  induction d generalizing m with
  | nil => cases m with
    | nil => rfl
    | cons y ys => exact h.elim
  | cons x xs ih => cases m with
    | nil => exact h.elim
    | cons y ys =>
      simp only [List.zip_cons_cons, List.all_cons, Bool.and_eq_true, decide_eq_true_eq]
      exact ⟨⟨h.1, h.2.1⟩, ih ys h.2.2⟩

theorem mech_all_zero_of_sum (l : List Int) (h : ∀ x ∈ l, 0 ≤ x) (hs : sumL l = 0) :
    ∀ x ∈ l, x = 0 := by
  intro x hx
  have := mech_mem_le_sumL l h x hx
  have := h x hx
  omega

theorem mech_C12_lethal (c : Cell) (d : List Int) (hn : c.nonNeg = true)
    (hm : c.mortOK = true) (hd : ValidDraw c.mort c.i d) :
    lethalSpec true c (c.removeAllInfected d) = true ∧ (c.removeAllInfected d).mortOK = true ∧
    (∀ x ∈ (c.removeAllInfected d).mort, x = 0) := by
  obtain ⟨_, _, hi, _, _, hmn, _, _⟩ := (mech_nonNeg_iff c).mp hn
  have hm' := (mech_mortOK_iff c).mp hm
  have hdom := mech_Dom_of_valid c.mort d c.i hd
  have hlen := mech_Dom_length d c.mort hdom
  have hsum : sumL d = c.i := by rw [hd.2.2, ← hm']; omega
  by_cases hpos : c.i > 0
  · have hmort : (c.removeAllInfected d).mort = subL c.mort d := by
      simp only [Cell.removeAllInfected, Cell.removeInfected, hpos, if_true]
    have hs0 : sumL (subL c.mort d) = 0 := by
      rw [mech_sumL_subL _ _ hlen.symm]; omega
    refine ⟨?_, ?_, ?_⟩
    · simp only [lethalSpec, if_true, hmort, mech_Dom_subL_subL d c.mort hdom, Bool.and_eq_true,
        decide_eq_true_eq, Bool.or_eq_true, validDrawB, beq_iff_eq, mech_Dom_zip_all d c.mort hdom]
      simp only [Cell.removeAllInfected, Cell.removeInfected]
      simp only [and_true, Int.sub_self, true_and]
      exact Or.inr ⟨hlen, hd.2.2⟩
    · rw [mech_mortOK_iff, hmort, hs0]
      simp only [Cell.removeAllInfected, Cell.removeInfected]; omega
    · rw [hmort]
      exact mech_all_zero_of_sum _ (mech_Dom_subL_nonneg d c.mort hdom) hs0
  · have hi0 : c.i = 0 := by omega
    have hmort : (c.removeAllInfected d).mort = c.mort := by
      simp only [Cell.removeAllInfected, Cell.removeInfected, hpos, if_false]
    refine ⟨?_, ?_, ?_⟩
    · simp only [lethalSpec, if_true, hmort, Bool.and_eq_true, decide_eq_true_eq, Bool.or_eq_true,
        beq_iff_eq]
      simp only [Cell.removeAllInfected, Cell.removeInfected]
      simp only [and_true, Int.sub_self, true_and]
      exact Or.inl (by omega)
    · rw [mech_mortOK_iff, hmort]
      simp only [Cell.removeAllInfected, Cell.removeInfected]; omega
    · rw [hmort]
      exact mech_all_zero_of_sum _ hmn (by omega)

theorem mech_C12_survival (c : Cell) (ratio : Rat) (dI dE : List Int) (c' : Cell)
    (h : (CellOp.survival ratio dI dE).apply c = .ok c') :
    survivalSpec ratio c c' = true := by
  simp only [CellOp.apply, Except.ok.injEq] at h
  subst h
  unfold survivalSpec
  by_cases hr : ratio < 1
  · simp only [hr, if_true, Cell.removeByRatio, Cell.removeInfected, Cell.removeExposed,
      Cell.ratioRemovedInfected, Cell.ratioRemovedExposed, Bool.and_eq_true, decide_eq_true_eq,
      and_true]
    omega
  · simp only [hr, if_false, beq_self_eq_true]

/-! ### latency (C05) -/

theorem mech_rotate_nil_cell (c : Cell) (h : c.e = []) : { c with e := rotateLeft c.e } = c := by
  cases c; simp only at h; subst h; rfl

theorem mech_C05_shift (latency step : Nat) (c : Cell) :
    stepForwardSpec latency step c (c.stepForward .sei latency step) = true := by
  unfold stepForwardSpec Cell.stepForward
  cases he : c.e with
  | nil =>
    have := mech_rotate_nil_cell c he
    rw [he] at this
    simp only [ite_self, he, this, beq_self_eq_true]
  | cons o rest =>
    by_cases hs : step ≥ latency
    · simp only [hs, if_true, rotateLeft, beq_self_eq_true]
    · simp only [hs, if_false, he, rotateLeft, beq_self_eq_true]

theorem mech_C05_no_early (latency step : Nat) (c : Cell) (h : step < latency) :
    (c.stepForward .sei latency step).i = c.i ∧ (c.stepForward .sei latency step).mort = c.mort ∧
    c.stepForward .si latency step = c := by
  have : ¬ step ≥ latency := by omega
  unfold Cell.stepForward
  simp only [this, if_false, and_self]

theorem mech_addLast_length (e : List Int) (x : Int) : (addLast e x).length = e.length := by
  induction e with
  | nil => rfl
  | cons a t ih => cases t with
    | nil => rfl
    | cons b t' => simp only [addLast, List.length_cons] at *; omega

theorem mech_sumL_take_addLast (e : List Int) (x : Int) (k : Nat) :
    sumL ((addLast e x).take k) = sumL (e.take k) + (if 0 < e.length ∧ e.length ≤ k then x else 0) := by
  induction e generalizing k with
  | nil => simp [addLast]
  | cons a t ih => cases t with
    | nil => cases k with
      | zero => simp [addLast]
      | succ k' => simp [addLast]
    | cons b t' => cases k with
      | zero => simp [addLast]
      | succ k' =>
        have := ih k'
        simp only [addLast, List.take_succ_cons, sumL_cons, List.length_cons] at *
        rw [this]
        have e1 : (0 < t'.length + 1 ∧ t'.length + 1 ≤ k') ↔
            (0 < t'.length + 1 + 1 ∧ t'.length + 1 + 1 ≤ k' + 1) := by omega
        simp only [e1]; omega

theorem mech_sumL_take_drop (l : List Int) (k : Nat) : sumL (l.take k) + sumL (l.drop k) = sumL l := by
  rw [← sumL_append, List.take_append_drop]

theorem mech_sumL_addLast (e : List Int) (x : Int) :
    sumL (addLast e x) = sumL e + (if 0 < e.length then x else 0) := by
  have := mech_sumL_take_addLast e x e.length
  rw [List.take_length] at this
  have h2 : (addLast e x).take e.length = addLast e x := by
    rw [← mech_addLast_length e x, List.take_length]
  rw [h2] at this; rw [this]
  simp only [Nat.le_refl, and_true]

theorem mech_sumL_drop_addLast (e : List Int) (x : Int) (k : Nat) :
    sumL ((addLast e x).drop k) = sumL (e.drop k) + (if k < e.length then x else 0) := by
  have h1 := mech_sumL_take_addLast e x k
  have h2 := mech_sumL_take_drop (addLast e x) k
  have h3 := mech_sumL_take_drop e k
  have h4 := mech_sumL_addLast e x
  by_cases hk : k < e.length
  · have c1 : ¬ (0 < e.length ∧ e.length ≤ k) := by omega
    have c0 : 0 < e.length := by omega
    rw [if_neg c1] at h1; rw [if_pos c0] at h4; rw [if_pos hk]; omega
  · by_cases h0 : 0 < e.length
    · have c1 : (0 < e.length ∧ e.length ≤ k) := by omega
      rw [if_pos c1] at h1; rw [if_pos h0] at h4; rw [if_neg hk]; omega
    · have c1 : ¬ (0 < e.length ∧ e.length ≤ k) := by omega
      rw [if_neg c1] at h1; rw [if_neg h0] at h4; rw [if_neg hk]; omega

theorem mech_sumL_take_snoc_zero (T : List Int) (m : Nat) :
    sumL ((T ++ [0]).take m) = sumL (T.take m) := by
  induction T generalizing m with
  | nil => cases m <;> simp
  | cons a t ih => cases m with
    | zero => simp
    | succ m' => simp only [List.cons_append, List.take_succ_cons, sumL_cons, ih m']

theorem mech_sumL_drop_snoc_zero (T : List Int) (m : Nat) :
    sumL ((T ++ [0]).drop m) = sumL (T.drop m) := by
  have h1 := mech_sumL_take_drop (T ++ [0]) m
  have h2 := mech_sumL_take_drop T m
  have h3 := mech_sumL_take_snoc_zero T m
  simp only [sumL_append, sumL_cons, sumL_nil] at h1
  omega

/-- Exposure of `x` hosts followed by the latency step. -/
def mech_latStep (latency step : Nat) (c : Cell) (x : Int) : Cell :=
  ({ c with s := c.s - x, e := addLast c.e x, te := c.te + x } : Cell).stepForward .sei latency step

theorem mech_latStep_spec (latency step : Nat) (c : Cell) (x a : Int) (T : List Int)
    (hs : latency ≤ step) (hA : addLast c.e x = a :: T) :
    (mech_latStep latency step c x).i = c.i + a ∧ (mech_latStep latency step c x).e = T ++ [0] := by
  have hs' : step ≥ latency := hs
  unfold mech_latStep Cell.stepForward
  simp only [hs', if_true, hA, rotateLeft, and_self]

theorem mech_take_sub_cons (x : Int) (rest : List Int) (m L : Nat) :
    sumL ((x :: rest).take (m + 1 - L)) = (if L ≤ m then x else 0) + sumL (rest.take (m - L)) := by
  by_cases h : L ≤ m
  · have : m + 1 - L = (m - L) + 1 := by omega
    simp only [this, List.take_succ_cons, sumL_cons, h, if_true]
  · have h1 : m + 1 - L = 0 := by omega
    have h2 : m - L = 0 := by omega
    simp only [h1, h2, List.take_zero, sumL_nil, h, if_false]; omega

theorem mech_drop_sub_cons (x : Int) (rest : List Int) (m L : Nat) :
    sumL ((x :: rest).drop (m + 1 - L)) = (if L ≤ m then 0 else x) + sumL (rest.drop (m - L)) := by
  by_cases h : L ≤ m
  · have : m + 1 - L = (m - L) + 1 := by omega
    simp only [this, List.drop_succ_cons, h, if_true]; omega
  · have h1 : m + 1 - L = 0 := by omega
    have h2 : m - L = 0 := by omega
    simp only [h1, h2, List.drop_zero, sumL_cons, h, if_false]

theorem mech_C05_exact_latency (latency : Nat) (run : Nat → List Int → Cell → Cell)
    (h0 : ∀ step c, run step [] c = c)
    (h1 : ∀ step x rest c, run step (x :: rest) c = run (step + 1) rest (mech_latStep latency step c x))
    (xs : List Int) : ∀ (step0 : Nat) (c : Cell), c.e.length = latency + 1 → latency ≤ step0 →
    (run step0 xs c).i = c.i + sumL (c.e.take xs.length) + sumL (xs.take (xs.length - latency)) ∧
    (run step0 xs c).e.length = latency + 1 ∧
    sumL (run step0 xs c).e = sumL (c.e.drop xs.length) + sumL (xs.drop (xs.length - latency)) := by
  induction xs with
  | nil =>
    intro step0 c hlen _
    simp only [h0, List.length_nil, List.take_zero, sumL_nil, List.drop_zero, List.drop_nil, hlen,
      true_and, List.take_nil]
    omega
  | cons x rest ih =>
    intro step0 c hlen hstep
    rw [h1]
    have hAl := mech_addLast_length c.e x
    obtain ⟨a, T, hA⟩ : ∃ a T, addLast c.e x = a :: T := by
      cases hh : addLast c.e x with
      | nil => rw [hh] at hAl; simp at hAl; omega
      | cons a T => exact ⟨a, T, rfl⟩
    obtain ⟨hi, he⟩ := mech_latStep_spec latency step0 c x a T hstep hA
    have hTl : T.length = latency := by
      rw [hA] at hAl; simp only [List.length_cons] at hAl; omega
    have hlen1 : (mech_latStep latency step0 c x).e.length = latency + 1 := by
      rw [he]; simp only [List.length_append, List.length_cons, List.length_nil]; omega
    obtain ⟨i1, i2, i3⟩ := ih (step0 + 1) (mech_latStep latency step0 c x) hlen1 (by omega)
    refine ⟨?_, i2, ?_⟩
    · rw [i1, hi, he, mech_sumL_take_snoc_zero, List.length_cons, mech_take_sub_cons]
      have f3 := mech_sumL_take_addLast c.e x (rest.length + 1)
      rw [hA, List.take_succ_cons, sumL_cons, hlen] at f3
      by_cases hc : latency ≤ rest.length
      · have c1 : 0 < latency + 1 ∧ latency + 1 ≤ rest.length + 1 := by omega
        rw [if_pos c1] at f3; rw [if_pos hc]; omega
      · have c1 : ¬ (0 < latency + 1 ∧ latency + 1 ≤ rest.length + 1) := by omega
        rw [if_neg c1] at f3; rw [if_neg hc]; omega
    · rw [i3, he, mech_sumL_drop_snoc_zero, List.length_cons, mech_drop_sub_cons]
      have g3 := mech_sumL_drop_addLast c.e x (rest.length + 1)
      rw [hA, List.drop_succ_cons, hlen] at g3
      by_cases hc : latency ≤ rest.length
      · have c1 : ¬ (rest.length + 1 < latency + 1) := by omega
        rw [if_neg c1] at g3; rw [if_pos hc]; omega
      · have c1 : rest.length + 1 < latency + 1 := by omega
        rw [if_pos c1] at g3; rw [if_neg hc]; omega

end Pops
