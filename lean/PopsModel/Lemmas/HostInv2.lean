/-
  Helper lemmas for C01-C03, part 2: what every cell operation does to a consistent cell.
-/
import PopsModel.Lemmas.HostInv
namespace Pops

/-- Arithmetic goal about cell fields: reduce structure projections, then `omega`. -/
macro "carith" : tactic => `(tactic| ((try dsimp only) <;> omega))

/-- Non-negative cell with correct totals (Prop form of `nonNeg && totalsOK`). -/
structure Cell.Good (c : Cell) : Prop where
  nn : c.NN
  th : c.th = c.s + sumL c.e + c.i + c.r
  te : c.te = sumL c.e

theorem good_of_bool {c : Cell} (hn : c.nonNeg = true) (ht : c.totalsOK = true) : c.Good :=
  ⟨(nonNeg_iff c).mp hn, ((totalsOK_iff c).mp ht).1, ((totalsOK_iff c).mp ht).2⟩

theorem Cell.Good.nonNeg {c : Cell} (h : c.Good) : c.nonNeg = true := (nonNeg_iff c).mpr h.nn
theorem Cell.Good.totalsOK {c : Cell} (h : c.Good) : c.totalsOK = true :=
  (totalsOK_iff c).mpr ⟨h.th, h.te⟩

/-- What an action of ledger class `k` guarantees about the resulting cell. -/
structure StepFacts (k : Ledger) (c c' : Cell) : Prop where
  nn : c'.NN
  th : c'.th = c'.s + sumL c'.e + c'.i + c'.r
  te : c'.te = sumL c'.e
  ledger : ledgerOK k c c' = true
  lenE : c'.e.length = c.e.length
  lenM : c'.mort.length = c.mort.length

theorem StepFacts.good {k : Ledger} {c c' : Cell} (h : StepFacts k c c') : c'.Good :=
  ⟨h.nn, h.th, h.te⟩

theorem ledger_reclassify {c c' : Cell}
    (h1 : c'.s + sumL c'.e + c'.i + c'.r = c.s + sumL c.e + c.i + c.r) (h2 : c'.died = c.died) :
    ledgerOK .reclassify c c' = true := by
  simp only [ledgerOK, Bool.and_eq_true, decide_eq_true_eq]; simp only [Cell.hosts]; exact ⟨h1, h2⟩

theorem ledger_removal {c c' : Cell}
    (h1 : c'.s + sumL c'.e + c'.i + c'.r ≤ c.s + sumL c.e + c.i + c.r) (h2 : c'.died = c.died) :
    ledgerOK .removal c c' = true := by
  simp only [ledgerOK, Bool.and_eq_true, decide_eq_true_eq]; simp only [Cell.hosts]; exact ⟨h1, h2⟩

theorem ledger_death {c c' : Cell}
    (h1 : c'.s + sumL c'.e + c'.i + c'.r = c.s + sumL c.e + c.i + c.r - (c'.died - c.died))
    (h2 : c.died ≤ c'.died) : ledgerOK .death c c' = true := by
  simp only [ledgerOK, Bool.and_eq_true, decide_eq_true_eq]; simp only [Cell.hosts]; exact ⟨h1, h2⟩

theorem ledger_reclassify_iff {c c' : Cell} : ledgerOK .reclassify c c' = true ↔
    c'.s + sumL c'.e + c'.i + c'.r = c.s + sumL c.e + c.i + c.r ∧ c'.died = c.died := by
  simp only [ledgerOK, Bool.and_eq_true, decide_eq_true_eq]; simp only [Cell.hosts]

theorem StepFacts.refl {c : Cell} (h : c.Good) : StepFacts .reclassify c c :=
  ⟨h.nn, h.th, h.te, ledger_reclassify rfl rfl, rfl, rfl⟩

theorem StepFacts.trans {a b c : Cell} (h1 : StepFacts .reclassify a b)
    (h2 : StepFacts .reclassify b c) : StepFacts .reclassify a c := by
  obtain ⟨x1, x2⟩ := ledger_reclassify_iff.mp h1.ledger
  obtain ⟨y1, y2⟩ := ledger_reclassify_iff.mp h2.ledger
  exact ⟨h2.nn, h2.th, h2.te, ledger_reclassify (by omega) (by omega),
    h2.lenE.trans h1.lenE, h2.lenM.trans h1.lenM⟩

/-! ### establishment -/

theorem add_facts (mt : ModelType) (c : Cell) (hg : c.Good)
    (hd : (mt = .si → c.mort ≠ []) ∧ (mt = .sei → c.e ≠ [])) :
    StepFacts .reclassify c (c.addDisperserAt mt).1 := by
  obtain ⟨⟨hs, he, hi, hr, hte0, hm, hdd, hth0⟩, hth, hte⟩ := hg
  unfold Cell.addDisperserAt
  by_cases h0 : c.s ≤ 0
  · simp only [h0, if_true]
    exact StepFacts.refl ⟨⟨hs, he, hi, hr, hte0, hm, hdd, hth0⟩, hth, hte⟩
  · simp only [h0, if_false]
    cases mt with
    | si =>
      exact ⟨⟨by carith, he, by carith, hr, hte0, allNN_addLast hm (by omega), hdd, hth0⟩,
        by carith, hte, ledger_reclassify (by carith) rfl, rfl, length_addLast _ _⟩
    | sei =>
      have hs1 := sumL_addLast 1 (hd.2 rfl)
      exact ⟨⟨by carith, allNN_addLast he (by omega), hi, hr, by carith, hm, hdd, hth0⟩,
        by carith, by carith, ledger_reclassify (by carith) rfl, length_addLast _ _, rfl⟩

theorem add_mort (mt : ModelType) (c : Cell)
    (hd : (mt = .si → c.mort ≠ []) ∧ (mt = .sei → c.e ≠ [])) (hm : c.i = sumL c.mort) :
    (c.addDisperserAt mt).1.i = sumL (c.addDisperserAt mt).1.mort := by
  unfold Cell.addDisperserAt
  by_cases h0 : c.s ≤ 0
  · simp only [h0, if_true]; exact hm
  · simp only [h0, if_false]
    cases mt with
    | si =>
      have hs1 := sumL_addLast 1 (hd.1 rfl)
      carith
    | sei => exact hm

theorem disperserTo_cases {mt : ModelType} {c : Cell} {env : EnvCell} {sto : Bool} {pEst u : Rat}
    {r : Cell × Int × Nat} (h : c.disperserTo mt env sto pEst u = .ok r) :
    r.1 = c ∨ r.1 = (c.addDisperserAt mt).1 := by
  unfold Cell.disperserTo at h
  split at h
  · injection h with h; subst h; exact Or.inl rfl
  · cases hs : c.suitability env with
    | error e => simp only [hs, bind, Except.bind] at h; cases h
    | ok p =>
      simp only [hs, bind, Except.bind, pure, Except.pure] at h
      split at h
      · injection h with h; subst h; exact Or.inr rfl
      · injection h with h; subst h; exact Or.inl rfl

/-! ### overpopulation primitives -/

theorem pestsFrom_facts (c : Cell) (k : Int) (hg : c.Good) (hk : 0 ≤ k ∧ k ≤ c.i) :
    StepFacts .reclassify c (c.pestsFrom k).1 := by
  obtain ⟨⟨hs, he, hi, hr, hte0, hm, hdd, hth0⟩, hth, hte⟩ := hg
  unfold Cell.pestsFrom
  exact ⟨⟨by carith, he, by carith, hr, hte0, hm, hdd, hth0⟩,
    by carith, hte, ledger_reclassify (by carith) rfl, rfl, rfl⟩

theorem pestsTo_facts (c : Cell) (k : Int) (hg : c.Good) (hk : 0 ≤ k) :
    StepFacts .reclassify c (c.pestsTo k).1 := by
  obtain ⟨⟨hs, he, hi, hr, hte0, hm, hdd, hth0⟩, hth, hte⟩ := hg
  unfold Cell.pestsTo
  by_cases h0 : c.s ≥ k
  · simp only [h0, if_true]
    exact ⟨⟨by carith, he, by carith, hr, hte0, hm, hdd, hth0⟩,
      by carith, hte, ledger_reclassify (by carith) rfl, rfl, rfl⟩
  · simp only [h0, if_false]
    exact ⟨⟨by carith, he, by carith, hr, hte0, hm, hdd, hth0⟩,
      by carith, hte, ledger_reclassify (by carith) rfl, rfl, rfl⟩

/-! ### resistance -/

theorem removeResistance_facts (c : Cell) (hg : c.Good) :
    StepFacts .reclassify c c.removeResistance := by
  obtain ⟨⟨hs, he, hi, hr, hte0, hm, hdd, hth0⟩, hth, hte⟩ := hg
  unfold Cell.removeResistance
  exact ⟨⟨by carith, he, hi, by carith, hte0, hm, hdd, hth0⟩,
    by carith, hte, ledger_reclassify (by carith) rfl, rfl, rfl⟩

theorem makeResistant_facts {c c' : Cell} (hg : c.Good) {sR iR : Int} {eR mR : List Int}
    (hS : 0 ≤ sR ∧ sR ≤ c.s) (hE : Dom c.e eR) (hI : 0 ≤ iR ∧ iR ≤ c.i) (hM : Dom c.mort mR)
    (h : c.makeResistant sR eR iR mR = .ok c') : StepFacts .reclassify c c' := by
  obtain ⟨⟨hs, he, hi, hr, hte0, hm, hdd, hth0⟩, hth, hte⟩ := hg
  unfold Cell.makeResistant at h
  split at h; · cases h
  split at h; · cases h
  split at h; · cases h
  injection h with h; subst h
  have e1 := sumL_subL hE.length_eq
  have e2 := hE.sum_le
  have e3 := sumL_nonneg hE.allNN_draw
  exact ⟨⟨by carith, hE.allNN_sub, by carith, by carith, by carith, hM.allNN_sub, hdd, hth0⟩,
    by carith, by carith, ledger_reclassify (by carith) rfl,
    length_subL hE.length_eq, length_subL hM.length_eq⟩

theorem makeResistant_mort {c c' : Cell} {sR iR : Int} {eR mR : List Int}
    (hM : Dom c.mort mR) (hI : iR = sumL mR) (hm : c.i = sumL c.mort)
    (h : c.makeResistant sR eR iR mR = .ok c') : c'.i = sumL c'.mort := by
  unfold Cell.makeResistant at h
  split at h; · cases h
  split at h; · cases h
  split at h; · cases h
  injection h with h; subst h
  have e1 := sumL_subL hM.length_eq
  carith

/-! ### removals -/

theorem completelyRemove_facts {c c' : Cell} (hg : c.Good) {sR iR : Int} {eR mR : List Int}
    (hS : 0 ≤ sR ∧ sR ≤ c.s) (hE : Dom c.e eR) (hI : 0 ≤ iR ∧ iR ≤ c.i) (hM : Dom c.mort mR)
    (h : c.completelyRemove sR eR iR mR = .ok c') : StepFacts .removal c c' := by
  obtain ⟨⟨hs, he, hi, hr, hte0, hm, hdd, hth0⟩, hth, hte⟩ := hg
  have hc1 : (if sR > 0 then { c with s := c.s - sR } else c) = { c with s := c.s - sR } := by
    split
    · rfl
    · have : sR = 0 := by omega
      subst this; cases c; simp
  have e1 := sumL_subL hE.length_eq
  have e2 := hE.sum_le
  have e3 := sumL_nonneg hE.allNN_draw
  have e4 := sumL_nonneg hE.allNN_sub
  have e5 := sumL_subL hM.length_eq
  unfold Cell.completelyRemove at h
  rw [hc1] at h
  simp only [Cell.resetTotal] at h
  rw [if_neg (by simp [hE.length_eq])] at h
  by_cases hi0 : iR ≤ 0
  · rw [if_pos hi0] at h
    injection h with h; subst h
    exact ⟨⟨by carith, hE.allNN_sub, hi, hr, by carith, hm, hdd, by carith⟩,
      by carith, by carith, ledger_removal (by carith) rfl, length_subL hE.length_eq, rfl⟩
  · rw [if_neg hi0, if_neg (by simp [hM.length_eq])] at h
    split at h; · cases h
    injection h with h; subst h
    exact ⟨⟨by carith, hE.allNN_sub, by carith, hr, by carith, hM.allNN_sub, hdd, by carith⟩,
      by carith, by carith, ledger_removal (by carith) rfl,
      length_subL hE.length_eq, length_subL hM.length_eq⟩

theorem completelyRemove_mort {c c' : Cell} {sR iR : Int} {eR mR : List Int}
    (hM : Dom c.mort mR) (hI : iR = sumL mR) (hm : c.i = sumL c.mort)
    (h : c.completelyRemove sR eR iR mR = .ok c') : c'.i = sumL c'.mort := by
  have e1 := sumL_subL hM.length_eq
  unfold Cell.completelyRemove at h
  have hc1 : (if sR > 0 then { c with s := c.s - sR } else c).i = c.i ∧
      (if sR > 0 then { c with s := c.s - sR } else c).mort = c.mort := by
    split <;> exact ⟨rfl, rfl⟩
  generalize (if sR > 0 then { c with s := c.s - sR } else c) = c1 at h hc1
  simp only [Cell.resetTotal] at h
  obtain ⟨hc1i, hc1m⟩ := hc1
  split at h; · cases h
  split at h
  · injection h with h; subst h
    dsimp only; rw [hc1i, hc1m]; exact hm
  · split at h; · cases h
    split at h; · cases h
    injection h with h; subst h
    dsimp only; rw [hc1i, hc1m]; omega

theorem removeInfected_facts (c : Cell) (count : Int) (draw : List Int) (hg : c.Good)
    (hc : 0 ≤ count ∧ count ≤ c.i) (hv : ValidDraw c.mort count draw) :
    StepFacts .reclassify c (c.removeInfected count draw) := by
  obtain ⟨⟨hs, he, hi, hr, hte0, hm, hdd, hth0⟩, hth, hte⟩ := hg
  unfold Cell.removeInfected
  refine ⟨⟨by carith, he, by carith, hr, hte0, ?_, hdd, hth0⟩,
    by carith, hte, ledger_reclassify (by carith) rfl, rfl, ?_⟩
  · dsimp only; split
    · exact hv.dom.allNN_sub
    · exact hm
  · dsimp only; split
    · exact length_subL hv.dom.length_eq
    · rfl

theorem removeInfected_mort (c : Cell) (count : Int) (draw : List Int)
    (hc : 0 ≤ count ∧ count ≤ c.i) (hv : ValidDraw c.mort count draw) (hm : c.i = sumL c.mort) :
    (c.removeInfected count draw).i = sumL (c.removeInfected count draw).mort := by
  unfold Cell.removeInfected
  have e1 := sumL_subL hv.dom.length_eq
  have e2 := hv.sum
  dsimp only
  split
  · omega
  · omega

theorem removeExposed_facts (c : Cell) (count : Int) (draw : List Int) (hg : c.Good)
    (hc : 0 ≤ count ∧ count ≤ c.te) (hv : ValidDraw c.e count draw) :
    StepFacts .reclassify c (c.removeExposed count draw) := by
  obtain ⟨⟨hs, he, hi, hr, hte0, hm, hdd, hth0⟩, hth, hte⟩ := hg
  unfold Cell.removeExposed
  have e1 := sumL_subL hv.dom.length_eq
  have e2 := hv.sum
  have hsum : sumL (if count > 0 then subL c.e draw else c.e) = sumL c.e - count := by
    split <;> omega
  refine ⟨⟨by carith, ?_, hi, hr, by carith, hm, hdd, hth0⟩,
    by carith, by carith, ledger_reclassify (by carith) rfl, ?_, rfl⟩
  · dsimp only; split
    · exact hv.dom.allNN_sub
    · exact he
  · dsimp only; split
    · exact length_subL hv.dom.length_eq
    · rfl

/-! ### treatments -/

theorem rceil_zero : rceil (0 : Rat) = 0 := by
  have := rceil_int 0; simpa using this
theorem rfloor_zero : rfloor (0 : Rat) = 0 := by
  have := rfloor_int 0; simpa using this

theorem rceil_treated {coef : Rat} (h0 : 0 ≤ coef) (h1 : coef ≤ 1) (app : TreatApp) (x : Int)
    (hx : 0 ≤ x) : 0 ≤ rceil (getTreated coef app x) ∧ rceil (getTreated coef app x) ≤ x := by
  cases app with
  | ratio => exact rceil_share hx h0 h1
  | allInfected =>
    simp only [getTreated]
    split
    · rw [rceil_int]; omega
    · rw [rceil_zero]; omega

theorem rfloor_treated {coef : Rat} (h0 : 0 ≤ coef) (h1 : coef ≤ 1) (app : TreatApp) (x : Int)
    (hx : 0 ≤ x) : 0 ≤ rfloor (getTreated coef app x) ∧ rfloor (getTreated coef app x) ≤ x := by
  cases app with
  | ratio => exact rfloor_share hx h0 h1
  | allInfected =>
    simp only [getTreated]
    split
    · rw [rfloor_int]; omega
    · rw [rfloor_zero]; omega

/-- With "all infected" application the per-cohort shares add up to the share of the total. -/
theorem treated_all_sum (round : Rat → Int) (hz : round 0 = 0) (hint : ∀ n : Int, round (n : Rat) = n)
    (coef : Rat) (l : List Int) :
    sumL (l.map fun x => round (getTreated coef .allInfected x)) =
      round (getTreated coef .allInfected (sumL l)) := by
  simp only [getTreated]
  by_cases hc : coef ≠ 0
  · simp only [if_pos hc, hint, List.map_id']
  · simp only [if_neg hc, hz]; exact sumL_zeros l

theorem simpleTreat_facts {c c' : Cell} (hg : c.Good) {coef : Rat} (h0 : 0 ≤ coef) (h1 : coef ≤ 1)
    (app : TreatApp) (h : c.simpleTreat coef app = .ok c') : StepFacts .removal c c' :=
  completelyRemove_facts hg (rceil_share hg.nn.s h0 h1)
    (dom_map hg.nn.e (rceil_treated h0 h1 app)) (rceil_treated h0 h1 app c.i hg.nn.i)
    (dom_map hg.nn.mort (rceil_treated h0 h1 app)) h

theorem pesticideTreat_facts {c c' : Cell} (hg : c.Good) {coef : Rat} (h0 : 0 ≤ coef) (h1 : coef ≤ 1)
    (app : TreatApp) (h : c.pesticideTreat coef app = .ok c') : StepFacts .reclassify c c' :=
  makeResistant_facts hg (rfloor_share hg.nn.s h0 h1)
    (dom_map hg.nn.e (rfloor_treated h0 h1 app)) (rfloor_treated h0 h1 app c.i hg.nn.i)
    (dom_map hg.nn.mort (rfloor_treated h0 h1 app)) h

/-- The share of the infected equals the sum of the cohort shares (given by `roundingAgrees` for
    ratio application, automatic for "all infected"). -/
theorem treated_sum_agrees (round : Rat → Int) (hz : round 0 = 0)
    (hint : ∀ n : Int, round (n : Rat) = n) (coef : Rat) (app : TreatApp) (c : Cell)
    (hm : c.i = sumL c.mort) (hr : app = .ratio → roundingAgrees round coef c = true) :
    round (getTreated coef app c.i) = sumL (c.mort.map fun x => round (getTreated coef app x)) := by
  cases app with
  | ratio =>
    have := hr rfl
    simp only [roundingAgrees, decide_eq_true_eq] at this
    simp only [getTreated]; exact this.symm
  | allInfected => rw [treated_all_sum round hz hint, hm]

theorem simpleTreat_mort {c c' : Cell} (hg : c.Good) {coef : Rat} (h0 : 0 ≤ coef) (h1 : coef ≤ 1)
    (app : TreatApp) (hm : c.i = sumL c.mort) (hr : app = .ratio → roundingAgrees rceil coef c = true)
    (h : c.simpleTreat coef app = .ok c') : c'.i = sumL c'.mort :=
  completelyRemove_mort (dom_map hg.nn.mort (rceil_treated h0 h1 app))
    (treated_sum_agrees rceil rceil_zero rceil_int coef app c hm hr) hm h

theorem pesticideTreat_mort {c c' : Cell} (hg : c.Good) {coef : Rat} (h0 : 0 ≤ coef) (h1 : coef ≤ 1)
    (app : TreatApp) (hm : c.i = sumL c.mort) (hr : app = .ratio → roundingAgrees rfloor coef c = true)
    (h : c.pesticideTreat coef app = .ok c') : c'.i = sumL c'.mort :=
  makeResistant_mort (dom_map hg.nn.mort (rfloor_treated h0 h1 app))
    (treated_sum_agrees rfloor rfloor_zero rfloor_int coef app c hm hr) hm h

/-! ### survival rate and lethal temperature -/

theorem ratioRemovedInfected_bounds (c : Cell) {ratio : Rat} (hi : 0 ≤ c.i) (h0 : 0 ≤ ratio)
    (h1 : ratio ≤ 1) : 0 ≤ c.ratioRemovedInfected ratio ∧ c.ratioRemovedInfected ratio ≤ c.i := by
  have := lround_share hi h0 h1
  unfold Cell.ratioRemovedInfected; omega

theorem ratioRemovedExposed_bounds (c : Cell) {ratio : Rat} (hi : 0 ≤ c.te) (h0 : 0 ≤ ratio)
    (h1 : ratio ≤ 1) : 0 ≤ c.ratioRemovedExposed ratio ∧ c.ratioRemovedExposed ratio ≤ c.te := by
  have := lround_share hi h0 h1
  unfold Cell.ratioRemovedExposed; omega

theorem removeByRatio_facts (c : Cell) (ratio : Rat) (dI dE : List Int) (hg : c.Good)
    (h0 : 0 ≤ ratio) (h1 : ratio ≤ 1)
    (hvI : ValidDraw c.mort (c.ratioRemovedInfected ratio) dI)
    (hvE : ValidDraw c.e
      ((c.removeInfected (c.ratioRemovedInfected ratio) dI).ratioRemovedExposed ratio) dE) :
    StepFacts .reclassify c (c.removeByRatio ratio dI dE) := by
  unfold Cell.removeByRatio
  have f1 := removeInfected_facts c _ dI hg (ratioRemovedInfected_bounds c hg.nn.i h0 h1) hvI
  have f2 := removeExposed_facts _ _ dE f1.good
    (ratioRemovedExposed_bounds _ f1.nn.te h0 h1) hvE
  exact f1.trans f2

theorem removeByRatio_mort (c : Cell) (ratio : Rat) (dI dE : List Int) (hi : 0 ≤ c.i)
    (h0 : 0 ≤ ratio) (h1 : ratio ≤ 1)
    (hvI : ValidDraw c.mort (c.ratioRemovedInfected ratio) dI) (hm : c.i = sumL c.mort) :
    (c.removeByRatio ratio dI dE).i = sumL (c.removeByRatio ratio dI dE).mort :=
  removeInfected_mort c _ dI (ratioRemovedInfected_bounds c hi h0 h1) hvI hm

/-! ### mortality -/

/-- How the mortality loop relates the running cell to the cell it started from. -/
structure MortRel (c0 c : Cell) : Prop where
  s : c.s = c0.s
  e : c.e = c0.e
  r : c.r = c0.r
  te : c.te = c0.te
  mort : AllNN c.mort
  i : 0 ≤ c.i
  th : 0 ≤ c.th
  len : c.mort.length = c0.mort.length
  dd : c0.died ≤ c.died
  di : c.i = c0.i - (c.died - c0.died)
  dth : c.th = c0.th - (c.died - c0.died)
  sm : sumL c.mort = sumL c0.mort - (c.died - c0.died)

theorem MortRel.refl {c : Cell} (hm : AllNN c.mort) (hi : 0 ≤ c.i) (hth : 0 ≤ c.th) : MortRel c c :=
  ⟨rfl, rfl, rfl, rfl, hm, hi, hth, rfl, Int.le_refl _, by omega, by omega, by omega⟩

theorem MortRel.trans {a b c : Cell} (h1 : MortRel a b) (h2 : MortRel b c) : MortRel a c := by
  obtain ⟨a1, a2, a3, a4, a5, a6, a7, a8, a9, a10, a11, a12⟩ := h1
  obtain ⟨b1, b2, b3, b4, b5, b6, b7, b8, b9, b10, b11, b12⟩ := h2
  exact ⟨b1.trans a1, b2.trans a2, b3.trans a3, b4.trans a4, b5, b6, b7, b8.trans a8,
    by omega, by omega, by omega, by omega⟩

theorem mortality_k_bounds {rate : Rat} (h0 : 0 ≤ rate) (h1 : rate ≤ 1) (idx : Nat) (m : Int)
    (hm : 0 < m) : 0 ≤ (if idx = 0 then m else rfloor (rate * m)) ∧
      (if idx = 0 then m else rfloor (rate * m)) ≤ m := by
  split
  · omega
  · have := rfloor_share (c := m) (by omega) h0 h1
    rw [Rat.mul_comm] at this; exact this

theorem mortalityAtIndex_rel {rate : Rat} (h0 : 0 ≤ rate) (h1 : rate ≤ 1) (idx : Nat) (c c' : Cell)
    (hm : AllNN c.mort) (hi : 0 ≤ c.i) (hth : 0 ≤ c.th)
    (h : mortalityAtIndex rate idx c = .ok c') : MortRel c c' := by
  unfold mortalityAtIndex at h
  dsimp only at h
  by_cases hm0 : c.mort[idx]! > 0
  · rw [if_pos hm0] at h
    have hkb := mortality_k_bounds h0 h1 idx _ hm0
    generalize (if idx = 0 then c.mort[idx]! else rfloor (rate * c.mort[idx]!)) = k at h hkb
    by_cases hki : k > c.i
    · rw [if_pos hki] at h; cases h
    rw [if_neg hki] at h
    by_cases hkt : k > c.th
    · rw [if_pos hkt] at h; cases h
    rw [if_neg hkt] at h
    have hlt := getElem!_pos_lt_length hm0
    have hsum := sumL_set c.mort idx (c.mort[idx]! - k) hlt
    by_cases hip : c.i > 0 <;> by_cases htp : c.th > 0
    all_goals
      first | rw [if_pos hip] at h | rw [if_neg hip] at h
      dsimp only at h
      first | rw [if_pos htp] at h | rw [if_neg htp] at h
      injection h with h; subst h
      exact ⟨rfl, rfl, rfl, rfl, allNN_set hm idx (by omega), by carith, by carith,
        by simp, by carith, by carith, by carith, by carith⟩
  · rw [if_neg hm0] at h
    injection h with h; subst h
    exact MortRel.refl hm hi hth

theorem mortalityAtIndex_ok {rate : Rat} (h0 : 0 ≤ rate) (h1 : rate ≤ 1) (idx : Nat) (c : Cell)
    (hm : AllNN c.mort) (hi : c.i = sumL c.mort) (hle : c.i ≤ c.th) :
    ∃ c', mortalityAtIndex rate idx c = .ok c' := by
  unfold mortalityAtIndex
  dsimp only
  by_cases hm0 : c.mort[idx]! > 0
  · rw [if_pos hm0]
    have hkb := mortality_k_bounds h0 h1 idx _ hm0
    generalize (if idx = 0 then c.mort[idx]! else rfloor (rate * c.mort[idx]!)) = k at hkb
    have := getElem!_le_sumL hm idx
    rw [if_neg (by omega), if_neg (by omega)]
    exact ⟨_, rfl⟩
  · rw [if_neg hm0]; exact ⟨_, rfl⟩

theorem foldlM_inv {α β : Type} (f : β → α → Except ErrKind β) (P : β → Prop)
    (hstep : ∀ b a b', P b → f b a = .ok b' → P b') :
    ∀ (l : List α) (b b' : β), P b → l.foldlM f b = .ok b' → P b' := by
  intro l
  induction l with
  | nil =>
    intro b b' hb h
    simp only [List.foldlM_nil, pure, Except.pure] at h
    injection h with h; subst h; exact hb
  | cons a l ih =>
    intro b b' hb h
    rw [List.foldlM_cons] at h
    cases hf : f b a with
    | error e => rw [hf] at h; cases h
    | ok b1 => rw [hf] at h; exact ih b1 b' (hstep b a b1 hb hf) h

theorem foldlM_ok {α β : Type} (f : β → α → Except ErrKind β) (P : β → Prop)
    (hstep : ∀ b a, P b → ∃ b', f b a = .ok b' ∧ P b') :
    ∀ (l : List α) (b : β), P b → ∃ b', l.foldlM f b = .ok b' := by
  intro l
  induction l with
  | nil => intro b _; exact ⟨b, rfl⟩
  | cons a l ih =>
    intro b hb
    obtain ⟨b1, hf, hb1⟩ := hstep b a hb
    obtain ⟨b2, h2⟩ := ih b1 hb1
    refine ⟨b2, ?_⟩
    rw [List.foldlM_cons, hf]; exact h2

theorem applyMortality_rel {rate : Rat} (h0 : 0 ≤ rate) (h1 : rate ≤ 1) (lag : Int) (c c' : Cell)
    (hm : AllNN c.mort) (hi : 0 ≤ c.i) (hth : 0 ≤ c.th)
    (h : c.applyMortality rate lag = .ok c') : MortRel c c' := by
  unfold Cell.applyMortality at h
  split at h
  · injection h with h; subst h; exact MortRel.refl hm hi hth
  · exact foldlM_inv (fun c idx => mortalityAtIndex rate idx c) (MortRel c)
      (fun b a b' hb hf => hb.trans (mortalityAtIndex_rel h0 h1 a b b' hb.mort hb.i hb.th hf))
      _ c c' (MortRel.refl hm hi hth) h

theorem applyMortality_ok {rate : Rat} (h0 : 0 ≤ rate) (h1 : rate ≤ 1) (lag : Int) (c : Cell)
    (hm : AllNN c.mort) (hi : c.i = sumL c.mort) (hle : c.i ≤ c.th) :
    ∃ c', c.applyMortality rate lag = .ok c' := by
  have hi0 : 0 ≤ c.i := by have := sumL_nonneg hm; omega
  unfold Cell.applyMortality
  split
  · exact ⟨_, rfl⟩
  · refine foldlM_ok (fun c idx => mortalityAtIndex rate idx c)
      (fun b => MortRel c b ∧ b.i = sumL b.mort ∧ b.i ≤ b.th) ?_ _ c
      ⟨MortRel.refl hm hi0 (by omega), hi, hle⟩
    intro b a ⟨hb, hbi, hble⟩
    obtain ⟨b', hb'⟩ := mortalityAtIndex_ok h0 h1 a b hb.mort hbi hble
    have hr := mortalityAtIndex_rel h0 h1 a b b' hb.mort hb.i hb.th hb'
    refine ⟨b', hb', hb.trans hr, ?_, ?_⟩
    · have := hr.di; have := hr.sm; omega
    · have := hr.di; have := hr.dth; omega

theorem mortality_facts {rate : Rat} (h0 : 0 ≤ rate) (h1 : rate ≤ 1) (lag : Int) {c c' : Cell}
    (hg : c.Good) (h : (c.applyMortality rate lag).map Cell.stepForwardMortality = .ok c') :
    StepFacts .death c c' ∧ MortRel c c' := by
  obtain ⟨⟨hs, he, hi, hr, hte0, hm, hdd, hth0⟩, hth, hte⟩ := hg
  cases ha : c.applyMortality rate lag with
  | error e => rw [ha] at h; cases h
  | ok c1 =>
    rw [ha] at h
    simp only [Except.map] at h
    injection h with h; subst h
    have hr := applyMortality_rel h0 h1 lag c c1 hm hi hth0 ha
    obtain ⟨a1, a2, a3, a4, a5, a6, a7, a8, a9, a10, a11, a12⟩ := hr
    have hrot := sumL_rotateLeft c1.mort
    unfold Cell.stepForwardMortality
    refine ⟨⟨⟨by carith, by rw [a2]; exact he, a6, by carith, by carith, allNN_rotateLeft a5,
      by carith, a7⟩, by (dsimp only; rw [a2]; omega), by (dsimp only; rw [a2]; omega),
      ledger_death (by (dsimp only; rw [a2]; omega)) (by carith),
      by (dsimp only; rw [a2]), by (dsimp only; rw [length_rotateLeft]; exact a8)⟩, ?_⟩
    exact ⟨a1, a2, a3, a4, allNN_rotateLeft a5, a6, a7, by (dsimp only; rw [length_rotateLeft]; exact a8),
      a9, a10, a11, by (dsimp only; omega)⟩

/-! ### latency -/

theorem stepForward_facts (mt : ModelType) (latency step : Nat) (c : Cell) (hg : c.Good)
    (hd : mt = .sei → (c.e ≠ [] ∧ c.mort ≠ [])) :
    StepFacts .reclassify c (c.stepForward mt latency step) := by
  cases mt with
  | si => exact StepFacts.refl hg
  | sei =>
    obtain ⟨hde, hdm⟩ := hd rfl
    obtain ⟨⟨hs, he, hi, hr, hte0, hm, hdd, hth0⟩, hth, hte⟩ := hg
    obtain ⟨s, e, i, r, te, mort, died, th⟩ := c
    dsimp only at *
    cases e with
    | nil => exact absurd rfl hde
    | cons o rest =>
      obtain ⟨ho, hrest⟩ := allNN_cons.mp he
      have hsr := sumL_nonneg hrest
      have hrot : sumL (rotateLeft (o :: rest)) = o + sumL rest := by
        rw [sumL_rotateLeft]; simp
      have hrot0 : sumL (rotateLeft (0 :: rest)) = sumL rest := by
        rw [sumL_rotateLeft]; simp
      have hcons : sumL (o :: rest) = o + sumL rest := sumL_cons o rest
      simp only [sumL_cons] at hth hte
      unfold Cell.stepForward
      dsimp only
      by_cases hsl : step ≥ latency
      · rw [if_pos hsl]
        exact ⟨⟨hs, allNN_rotateLeft (allNN_cons.mpr ⟨Int.le_refl 0, hrest⟩), by carith, hr,
          by carith, allNN_addLast hm ho, hdd, hth0⟩, by carith, by carith,
          ledger_reclassify (by carith) rfl, by simp [length_rotateLeft], length_addLast _ _⟩
      · rw [if_neg hsl]
        exact ⟨⟨hs, allNN_rotateLeft he, hi, hr, hte0, hm, hdd, hth0⟩, by carith, by carith,
          ledger_reclassify (by carith) rfl, by simp [length_rotateLeft], rfl⟩

theorem stepForward_mort (mt : ModelType) (latency step : Nat) (c : Cell)
    (hd : mt = .sei → (c.e ≠ [] ∧ c.mort ≠ [])) (hm : c.i = sumL c.mort) :
    (c.stepForward mt latency step).i = sumL (c.stepForward mt latency step).mort := by
  cases mt with
  | si => exact hm
  | sei =>
    obtain ⟨hde, hdm⟩ := hd rfl
    unfold Cell.stepForward
    dsimp only
    split
    · split
      · exact hm
      · have := sumL_addLast (l := c.mort) ‹Int› hdm
        carith
    · exact hm

end Pops
