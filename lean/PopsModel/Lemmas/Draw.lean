/-
  Lemmas about the model of `draw_n_from_v` / `draw_n_from_cohorts` (Model/Draw.lean): for EVERY
  permutation the shuffle may leave, the per-label counts of the truncated vector are within the
  contents and sum to min((unsigned) n, total).
-/
import PopsModel.Model.Draw
namespace Pops

/-! ### sums over `List.range` -/

theorem draw_sumL_map_add (l : List Nat) (f g : Nat → Int) :
    sumL (l.map fun k => f k + g k) = sumL (l.map f) + sumL (l.map g) := by
  induction l with
  | nil => simp
  | cons x xs ih => simp only [List.map_cons, sumL_cons, ih]; omega

/-- Exactly one index of `start, ..., start + n - 1` equals `x` when `x` is in that range. -/
theorem draw_sum_indicator (start x : Nat) : ∀ n : Nat,
    sumL ((List.range n).map fun k => if x = start + k then (1 : Int) else 0) =
      if start ≤ x ∧ x < start + n then 1 else 0 := by
  intro n
  induction n with
  | zero =>
    simp
  | succ n ih =>
    rw [List.range_succ, List.map_append, sumL_append, ih]
    simp only [List.map_cons, List.map_nil, sumL_cons, sumL_nil]
    by_cases h1 : x = start + n
    · have a : ¬ (start ≤ x ∧ x < start + n) := by omega
      have b : start ≤ x ∧ x < start + (n + 1) := by omega
      simp [h1]
    · by_cases h2 : start ≤ x ∧ x < start + n
      · have b : start ≤ x ∧ x < start + (n + 1) := by omega
        simp [h1, h2, b]
      · have b : ¬ (start ≤ x ∧ x < start + (n + 1)) := by omega
        simp [h1, h2, b]

/-- The counts of the labels `start, ..., start + n - 1` add up to the length of a vector that
    holds only such labels. -/
theorem draw_sum_counts (start n : Nat) : ∀ (draw : List Nat), (∀ x ∈ draw, start ≤ x ∧ x < start + n) →
    sumL ((List.range n).map fun k => ((draw.count (start + k) : Nat) : Int)) = draw.length := by
  intro draw
  induction draw with
  | nil => intro _; simp [mech_sumL_map_zero']
  | cons x xs ih =>
    intro h
    have hx := h x (by simp)
    have e : (fun k => (((x :: xs).count (start + k) : Nat) : Int)) =
        fun k => ((xs.count (start + k) : Nat) : Int) + (if x = start + k then (1 : Int) else 0) := by
      funext k
      rw [List.count_cons]
      by_cases hk : x = start + k
      · simp [hk]
      · have : (x == start + k) = false := by simpa using hk
        simp [hk, this]
    rw [e, draw_sumL_map_add, ih (fun z hz => h z (by simp [hz])), draw_sum_indicator]
    simp only [hx, and_self, if_true, List.length_cons]
    omega
where
  mech_sumL_map_zero' : ∀ l : List Nat, sumL (l.map fun _ => (0 : Int)) = 0 := by
    intro l; induction l with
    | nil => rfl
    | cons x xs ih => simp [ih]

/-! ### the label vector -/

theorem draw_labelsFrom_mem : ∀ (contents : List Int) (start x : Nat), x ∈ labelsFrom start contents →
    start ≤ x ∧ x < start + contents.length
  | [], _, _, h => by simp [labelsFrom] at h
  | c :: rest, start, x, h => by
    simp only [labelsFrom, List.mem_append, List.mem_replicate] at h
    rcases h with ⟨_, rfl⟩ | h
    · simp only [List.length_cons]; omega
    · have := draw_labelsFrom_mem rest (start + 1) x h
      simp only [List.length_cons]; omega

/-- One label per individual: label `start + k` occurs `contents[k]` times. -/
theorem draw_labelsFrom_count : ∀ (contents : List Int) (start k : Nat), k < contents.length →
    (labelsFrom start contents).count (start + k) = (contents[k]!).toNat
  | [], _, _, h => by simp at h
  | c :: rest, start, k, h => by
    simp only [labelsFrom, List.count_append, List.count_replicate]
    cases k with
    | zero =>
      have hz : (labelsFrom (start + 1) rest).count start = 0 := by
        apply List.count_eq_zero_of_not_mem
        intro hm
        have := draw_labelsFrom_mem rest (start + 1) start hm
        omega
      simp [hz]
    | succ k' =>
      have hne : (start == start + (k' + 1)) = false := by
        simp only [beq_eq_false_iff_ne, ne_eq]; omega
      have ih := draw_labelsFrom_count rest (start + 1) k' (by simp only [List.length_cons] at h; omega)
      have e : start + (k' + 1) = start + 1 + k' := by omega
      simp only [hne, List.getElem!_cons_succ]
      rw [e, ih]; simp

/-- The label vector has one entry per individual. -/
theorem draw_labelsFrom_length : ∀ (contents : List Int) (start : Nat), (∀ x ∈ contents, 0 ≤ x) →
    ((labelsFrom start contents).length : Int) = sumL contents
  | [], _, _ => by simp [labelsFrom]
  | c :: rest, start, h => by
    have hc := h c (by simp)
    have ih := draw_labelsFrom_length rest (start + 1) (fun z hz => h z (by simp [hz]))
    simp only [labelsFrom, List.length_append, List.length_replicate, sumL_cons]
    omega

/-! ### the draw -/

theorem draw_toUnsigned_nonneg (n : Int) : 0 ≤ toUnsigned n := by unfold toUnsigned; omega

theorem draw_toUnsigned_of_range (n : Int) (h0 : 0 ≤ n) (h1 : n < 4294967296) : toUnsigned n = n := by
  unfold toUnsigned; omega

/-- `draw_n_from_v` returns `min((unsigned) n, size)` elements. -/
theorem draw_drawNFromV_length (v : List Nat) (n : Int) (perm : List Nat) (hp : perm.Perm v) :
    ((drawNFromV v n perm).length : Int) = min (toUnsigned n) (v.length : Int) := by
  have := draw_toUnsigned_nonneg n
  have hl := hp.length_eq
  simp only [drawNFromV, List.length_take]
  omega

/-- Drawing is without replacement: a label occurs in the draw at most as often as in the vector. -/
theorem draw_drawNFromV_count_le (v : List Nat) (n : Int) (perm : List Nat) (hp : perm.Perm v) (x : Nat) :
    (drawNFromV v n perm).count x ≤ v.count x := by
  rw [← hp.count_eq x]
  exact (List.take_sublist _ _).count_le x

theorem draw_drawNFromV_mem (v : List Nat) (n : Int) (perm : List Nat) (hp : perm.Perm v) (x : Nat)
    (h : x ∈ drawNFromV v n perm) : x ∈ v :=
  hp.subset (List.mem_of_mem_take h)

theorem draw_countLabels_length (start : Nat) (contents : List Int) (draw : List Nat) :
    (countLabels start contents draw).length = contents.length := by
  simp [countLabels]

theorem draw_countLabels_get (start : Nat) (contents : List Int) (draw : List Nat) (k : Nat)
    (hk : k < contents.length) :
    (countLabels start contents draw)[k]! = ((draw.count (start + k) : Nat) : Int) := by
  have hk' : k < (countLabels start contents draw).length := by rw [draw_countLabels_length]; exact hk
  rw [getElem!_pos _ k hk']
  simp [countLabels]

/-- **The contract of the draw, proved.** Non-negative contents, ANY permutation `perm` of the
    label vector: the per-label counts of `draw_n_from_v(labels, n)` have the length of the
    contents, each lies between 0 and its content, and they sum to min((unsigned) n, total). -/
theorem draw_counts_facts (start : Nat) (contents : List Int) (n : Int) (perm : List Nat)
    (hnn : ∀ x ∈ contents, 0 ≤ x) (hp : perm.Perm (labelsFrom start contents)) :
    ValidDraw contents (toUnsigned n)
      (countLabels start contents (drawNFromV (labelsFrom start contents) n perm)) := by
  refine ⟨draw_countLabels_length _ _ _, ?_, ?_⟩
  · intro k hk
    rw [draw_countLabels_length] at hk
    rw [draw_countLabels_get _ _ _ k hk]
    have h1 := draw_drawNFromV_count_le (labelsFrom start contents) n perm hp (start + k)
    rw [draw_labelsFrom_count contents start k hk] at h1
    have h2 : 0 ≤ contents[k]! := by
      rw [getElem!_pos _ k hk]; exact hnn _ (List.getElem_mem hk)
    omega
  · have hmem : ∀ x ∈ drawNFromV (labelsFrom start contents) n perm,
        start ≤ x ∧ x < start + contents.length := fun x hx =>
      draw_labelsFrom_mem contents start x (draw_drawNFromV_mem _ n perm hp x hx)
    have h1 := draw_sum_counts start contents.length _ hmem
    have h2 := draw_drawNFromV_length (labelsFrom start contents) n perm hp
    have h3 := draw_labelsFrom_length contents start hnn
    unfold countLabels
    rw [h1, h2, h3]

/-- `draw_n_from_cohorts`: `ValidDraw cohorts ((unsigned) n) (drawNFromCohorts cohorts n perm)`. -/
theorem draw_validDraw_unsigned (cohorts : List Int) (n : Int) (perm : List Nat)
    (hnn : ∀ x ∈ cohorts, 0 ≤ x) (hp : perm.Perm (cohortLabels cohorts)) :
    ValidDraw cohorts (toUnsigned n) (drawNFromCohorts cohorts n perm) :=
  draw_counts_facts 0 cohorts n perm hnn hp

/-- For a request that is a non-negative `int` the conversion changes nothing. -/
theorem draw_validDraw (cohorts : List Int) (n : Int) (perm : List Nat)
    (hnn : ∀ x ∈ cohorts, 0 ≤ x) (hp : perm.Perm (cohortLabels cohorts))
    (h0 : 0 ≤ n) (h1 : n < 4294967296) :
    ValidDraw cohorts n (drawNFromCohorts cohorts n perm) := by
  have := draw_validDraw_unsigned cohorts n perm hnn hp
  rwa [draw_toUnsigned_of_range n h0 h1] at this

theorem draw_sum_le : ∀ (d a : List Int), d.length = a.length →
    (∀ k : Nat, k < d.length → 0 ≤ d[k]! ∧ d[k]! ≤ a[k]!) → sumL d ≤ sumL a
  | [], [], _, _ => by simp
  | [], _ :: _, h, _ => by simp at h
  | _ :: _, [], h, _ => by simp at h
  | x :: xs, y :: ys, hl, hp => by
    have h0 := hp 0 (by simp)
    simp only [List.getElem!_cons_zero] at h0
    have hp' : ∀ k : Nat, k < xs.length → 0 ≤ xs[k]! ∧ xs[k]! ≤ ys[k]! := by
      intro k hk
      have := hp (k + 1) (by simp only [List.length_cons]; omega)
      simpa only [List.getElem!_cons_succ] using this
    have := draw_sum_le xs ys (by simpa using hl) hp'
    simp only [sumL_cons]; omega

theorem draw_eq_of_le_of_sum : ∀ (d a : List Int), d.length = a.length →
    (∀ k : Nat, k < d.length → 0 ≤ d[k]! ∧ d[k]! ≤ a[k]!) → sumL d = sumL a → d = a
  | [], [], _, _, _ => rfl
  | [], _ :: _, h, _, _ => by simp at h
  | _ :: _, [], h, _, _ => by simp at h
  | x :: xs, y :: ys, hl, hp, hs => by
    have h0 := hp 0 (by simp)
    simp only [List.getElem!_cons_zero] at h0
    have hp' : ∀ k : Nat, k < xs.length → 0 ≤ xs[k]! ∧ xs[k]! ≤ ys[k]! := by
      intro k hk
      have := hp (k + 1) (by simp only [List.length_cons]; omega)
      simpa only [List.getElem!_cons_succ] using this
    have hle : sumL xs ≤ sumL ys := draw_sum_le xs ys (by simpa using hl) hp'
    simp only [sumL_cons] at hs
    have hx : x = y := by omega
    have := draw_eq_of_le_of_sum xs ys (by simpa using hl) hp' (by omega)
    rw [hx, this]

/-- A negative `int` request (at least -2^31) becomes an unsigned value of at least 2^31: with a
    total that fits an `int`, everything is drawn. -/
theorem draw_negative_takes_all (cohorts : List Int) (n : Int) (perm : List Nat)
    (hnn : ∀ x ∈ cohorts, 0 ≤ x) (hp : perm.Perm (cohortLabels cohorts))
    (h0 : n < 0) (h1 : -2147483648 ≤ n) (ht : sumL cohorts ≤ 2147483647) :
    drawNFromCohorts cohorts n perm = cohorts := by
  obtain ⟨hl, hpt, hs⟩ := draw_validDraw_unsigned cohorts n perm hnn hp
  have hs' : sumL (drawNFromCohorts cohorts n perm) = sumL cohorts := by
    rw [hs]; unfold toUnsigned; omega
  exact draw_eq_of_le_of_sum _ _ hl hpt hs'

/-! ### the multi-host split -/

/-- `pests_from` / `pests_to`: the per-host counts are a `ValidSplit`, for every permutation. -/
theorem draw_validSplit (avail : List Int) (count : Int) (perm : List Nat)
    (hnn : ∀ x ∈ avail, 0 ≤ x) (hp : perm.Perm (cohortLabels avail)) :
    ValidSplit avail count (splitOf avail count perm) :=
  draw_counts_facts 0 avail count perm hnn hp

/-! ### the class draw of host movement -/

theorem draw_classCategories_eq (src : Cell) :
    classCategories src = labelsFrom 1 [src.i, src.s, src.te, src.r] := by
  simp [classCategories, labelsFrom, List.append_assoc]

theorem draw_classDrawOf_eq (src : Cell) (count : Int) (perm : List Nat) :
    countLabels 1 [src.i, src.s, src.te, src.r]
      (drawNFromV (labelsFrom 1 [src.i, src.s, src.te, src.r]) (hostsMoved src count) perm) =
    [(classDrawOf src count perm).i, (classDrawOf src count perm).s,
     (classDrawOf src count perm).e, (classDrawOf src count perm).r] := by
  rw [← draw_classCategories_eq]
  rfl

/-- The class draw of `move_hosts_from_to`, for every permutation: each class count within its
    class, the counts summing to min((unsigned) total_hosts_moved, i + s + total_exposed + r). -/
theorem draw_classDraw_facts (src : Cell) (count : Int) (perm : List Nat)
    (hi : 0 ≤ src.i) (hs : 0 ≤ src.s) (he : 0 ≤ src.te) (hr : 0 ≤ src.r)
    (hp : perm.Perm (classCategories src)) :
    let d := classDrawOf src count perm
    (0 ≤ d.i ∧ d.i ≤ src.i) ∧ (0 ≤ d.s ∧ d.s ≤ src.s) ∧ (0 ≤ d.e ∧ d.e ≤ src.te) ∧
    (0 ≤ d.r ∧ d.r ≤ src.r) ∧
    d.i + d.s + d.e + d.r = min (toUnsigned (hostsMoved src count)) (src.i + src.s + src.te + src.r) := by
  intro d
  have hnn : ∀ x ∈ [src.i, src.s, src.te, src.r], 0 ≤ x := by
    intro x hx
    simp only [List.mem_cons, List.not_mem_nil, or_false] at hx
    rcases hx with rfl | rfl | rfl | rfl <;> assumption
  rw [draw_classCategories_eq] at hp
  obtain ⟨_, hpt, hsum⟩ := draw_counts_facts 1 [src.i, src.s, src.te, src.r] (hostsMoved src count) perm hnn hp
  rw [draw_classDrawOf_eq] at hpt hsum
  have p0 := hpt 0 (by simp)
  have p1 := hpt 1 (by simp)
  have p2 := hpt 2 (by simp)
  have p3 := hpt 3 (by simp)
  simp only [List.getElem!_cons_zero, List.getElem!_cons_succ] at p0 p1 p2 p3
  simp only [sumL_cons, sumL_nil] at hsum
  refine ⟨p0, p1, p2, p3, ?_⟩
  show (classDrawOf src count perm).i + (classDrawOf src count perm).s + (classDrawOf src count perm).e +
    (classDrawOf src count perm).r = _
  omega

/-- `validClassDrawB` holds of the class draw whenever the number of hosts to move is a
    non-negative `int`. -/
theorem draw_validClassDrawB (src : Cell) (count : Int) (perm : List Nat)
    (hi : 0 ≤ src.i) (hs : 0 ≤ src.s) (he : 0 ≤ src.te) (hr : 0 ≤ src.r)
    (hp : perm.Perm (classCategories src))
    (h0 : 0 ≤ hostsMoved src count) (h1 : hostsMoved src count < 4294967296) :
    validClassDrawB src count (classDrawOf src count perm) = true := by
  obtain ⟨a, b, c, d, e⟩ := draw_classDraw_facts src count perm hi hs he hr hp
  rw [draw_toUnsigned_of_range _ h0 h1] at e
  simp only [validClassDrawB, Bool.and_eq_true, decide_eq_true_eq]
  exact ⟨⟨⟨⟨⟨⟨⟨⟨a.1, a.2⟩, b.1⟩, b.2⟩, c.1⟩, c.2⟩, d.1⟩, d.2⟩, e⟩

end Pops
