/-
  Helper lemmas for whole runs of `Model::run_step` (Model/RunModel.lean): unfolding, composition
  of runs, the per-step facts of C01/C02/C03/C05 carried along a run by induction on the list of
  step inputs, and an executable form of `RunDomainAlong` for concrete instances.
-/
import PopsModel.Model.RunModel
import PopsModel.Props.C01Step
import PopsModel.Lemmas.OffSeason
import PopsModel.Lemmas.NonVacuousHost
namespace Pops

/-! ### unfolding -/

theorem runModel_nil (cfg : StepCfg) (first : Nat) (l : Land) : runModel cfg [] first l = .ok l := rfl

theorem runModel_cons_ok (cfg : StepCfg) (inp : StepInputs) (rest : List StepInputs) (first : Nat)
    (l m : Land) (h : runStepHosts cfg inp first l = .ok m) :
    runModel cfg (inp :: rest) first l = runModel cfg rest (first + 1) m := by
  simp only [runModel, bind, Except.bind, h]

theorem runModel_cons_error (cfg : StepCfg) (inp : StepInputs) (rest : List StepInputs) (first : Nat)
    (l : Land) (e : ErrKind) (h : runStepHosts cfg inp first l = .error e) :
    runModel cfg (inp :: rest) first l = .error e := by
  simp only [runModel, bind, Except.bind, h]

/-- A successful run of `inp :: rest` is a successful first step followed by a successful run
    of the rest. -/
theorem runModel_cons_inv (cfg : StepCfg) (inp : StepInputs) (rest : List StepInputs) (first : Nat)
    (l l' : Land) (h : runModel cfg (inp :: rest) first l = .ok l') :
    ∃ m, runStepHosts cfg inp first l = .ok m ∧ runModel cfg rest (first + 1) m = .ok l' := by
  cases h1 : runStepHosts cfg inp first l with
  | error e => rw [runModel_cons_error cfg inp rest first l e h1] at h; cases h
  | ok m => rw [runModel_cons_ok cfg inp rest first l m h1] at h; exact ⟨m, rfl, h⟩

theorem removedByRun_cons_ok (cfg : StepCfg) (inp : StepInputs) (rest : List StepInputs) (first : Nat)
    (l m : Land) (h : runStepHosts cfg inp first l = .ok m) :
    removedByRun cfg (inp :: rest) first l =
      removedByGens (stepGens cfg inp first) l + removedByRun cfg rest (first + 1) m := by
  simp only [removedByRun, h]

/-! ### composition of runs -/

/-- Running `a ++ b` is running `a` and then `b` from the step after the last step of `a`. -/
theorem runModel_append (cfg : StepCfg) (a b : List StepInputs) (first : Nat) (l : Land) :
    runModel cfg (a ++ b) first l =
      (runModel cfg a first l >>= fun m => runModel cfg b (first + a.length) m) := by
  induction a generalizing first l with
  | nil => rfl
  | cons inp rest ih =>
    cases h1 : runStepHosts cfg inp first l with
    | error e =>
      rw [List.cons_append, runModel_cons_error cfg inp _ first l e h1,
        runModel_cons_error cfg inp _ first l e h1]
      rfl
    | ok m =>
      rw [List.cons_append, runModel_cons_ok cfg inp _ first l m h1,
        runModel_cons_ok cfg inp _ first l m h1, ih (first + 1) m, List.length_cons]
      have : first + 1 + rest.length = first + (rest.length + 1) := by omega
      rw [this]

/-- A successful run of `a ++ b` splits into a successful run of `a` and one of `b`. -/
theorem runModel_append_inv (cfg : StepCfg) (a b : List StepInputs) (first : Nat) (l l' : Land)
    (h : runModel cfg (a ++ b) first l = .ok l') :
    ∃ m, runModel cfg a first l = .ok m ∧ runModel cfg b (first + a.length) m = .ok l' := by
  rw [runModel_append] at h
  cases h1 : runModel cfg a first l with
  | error e => rw [h1] at h; cases h
  | ok m => rw [h1] at h; exact ⟨m, rfl, h⟩

/-- The removed hosts of a run of `a ++ b` are those of `a` plus those of `b`. -/
theorem removedByRun_append (cfg : StepCfg) (a b : List StepInputs) (first : Nat) (l m : Land)
    (h : runModel cfg a first l = .ok m) :
    removedByRun cfg (a ++ b) first l =
      removedByRun cfg a first l + removedByRun cfg b (first + a.length) m := by
  induction a generalizing first l with
  | nil =>
    simp only [runModel, Except.ok.injEq] at h; subst h
    simp only [List.nil_append, removedByRun, List.length_nil, Nat.add_zero, Int.zero_add]
  | cons inp rest ih =>
    obtain ⟨x, hx, hr⟩ := runModel_cons_inv cfg inp rest first l m h
    rw [List.cons_append, removedByRun_cons_ok cfg inp _ first l x hx,
      removedByRun_cons_ok cfg inp _ first l x hx, ih (first + 1) x hr, List.length_cons]
    have : first + 1 + rest.length = first + (rest.length + 1) := by omega
    rw [this]
    omega

/-- The domain along a run of `a ++ b` gives the domain along `a` ... -/
theorem runDomainAlong_append_left (cfg : StepCfg) (a b : List StepInputs) (first : Nat) (l : Land)
    (hd : RunDomainAlong cfg (a ++ b) first l) : RunDomainAlong cfg a first l := by
  induction a generalizing first l with
  | nil => trivial
  | cons inp rest ih => exact ⟨hd.1, fun m hm => ih (first + 1) m (hd.2 m hm)⟩

/-- ... and the domain along `b` at the landscape `a` leaves. -/
theorem runDomainAlong_append_right (cfg : StepCfg) (a b : List StepInputs) (first : Nat) (l m : Land)
    (hd : RunDomainAlong cfg (a ++ b) first l) (h : runModel cfg a first l = .ok m) :
    RunDomainAlong cfg b (first + a.length) m := by
  induction a generalizing first l with
  | nil => simp only [runModel, Except.ok.injEq] at h; subst h; exact hd
  | cons inp rest ih =>
    obtain ⟨x, hx, hr⟩ := runModel_cons_inv cfg inp rest first l m h
    have := ih (first + 1) x (hd.2 x hx) hr
    rw [List.length_cons]
    have he : first + 1 + rest.length = first + (rest.length + 1) := by omega
    rw [← he]; exact this

/-- Conversely the two domains give the domain along `a ++ b`. -/
theorem runDomainAlong_append (cfg : StepCfg) (a b : List StepInputs) (first : Nat) (l : Land)
    (ha : RunDomainAlong cfg a first l)
    (hb : ∀ m, runModel cfg a first l = .ok m → RunDomainAlong cfg b (first + a.length) m) :
    RunDomainAlong cfg (a ++ b) first l := by
  induction a generalizing first l with
  | nil => exact hb l rfl
  | cons inp rest ih =>
    refine ⟨ha.1, fun x hx => ih (first + 1) x (ha.2 x hx) (fun m hm => ?_)⟩
    have := hb m (by rw [runModel_cons_ok cfg inp rest first l x hx]; exact hm)
    rw [List.length_cons] at this
    have he : first + 1 + rest.length = first + (rest.length + 1) := by omega
    rw [he]; exact this

/-! ### the per-step facts along a run -/

/-- C01 + C02/C03 along a run, by induction on the list of step inputs over `C01_generators`. -/
theorem run_facts (cfg : StepCfg) (inps : List StepInputs) (first : Nat) (l l' : Land)
    (hinv : l.inv) (hu : l.uniform) (hd : RunDomainAlong cfg inps first l)
    (h : runModel cfg inps first l = .ok l') :
    l'.hosts = l.hosts - (l'.died - l.died) - removedByRun cfg inps first l ∧
    0 ≤ removedByRun cfg inps first l ∧ l.died ≤ l'.died ∧ l'.hosts ≤ l.hosts ∧ l'.inv ∧ l'.uniform := by
  induction inps generalizing first l with
  | nil =>
    simp only [runModel, Except.ok.injEq] at h; subst h
    simp only [removedByRun]
    exact ⟨by omega, by omega, by omega, by omega, hinv, hu⟩
  | cons inp rest ih =>
    obtain ⟨m, hm, hr⟩ := runModel_cons_inv cfg inp rest first l l' h
    obtain ⟨a1, a2, a3, a4, a5, a6⟩ := C01_generators (stepGens cfg inp first) l m hinv hu hd.1 hm
    obtain ⟨b1, b2, b3, b4, b5, b6⟩ := ih (first + 1) m a5 a6 (hd.2 m hm) hr
    rw [removedByRun_cons_ok cfg inp rest first l m hm]
    exact ⟨by omega, by omega, by omega, by omega, b5, b6⟩

/-- C05 along a run none of whose steps is a spread step. -/
theorem run_frozen (cfg : StepCfg) (inps : List StepInputs) (first : Nat) (l l' : Land)
    (hns : ∀ k, k < inps.length → schedAt cfg.spreadSched (first + k) = false)
    (hinv : l.inv) (hd : RunDomainAlong cfg inps first l)
    (h : runModel cfg inps first l = .ok l') : FrozenL l l' ∧ l'.inv := by
  induction inps generalizing first l with
  | nil =>
    simp only [runModel, Except.ok.injEq] at h; subst h
    exact ⟨FrozenL.refl l, hinv⟩
  | cons inp rest ih =>
    obtain ⟨m, hm, hr⟩ := runModel_cons_inv cfg inp rest first l l' h
    have h0 : schedAt cfg.spreadSched first = false := by
      have := hns 0 (by simp only [List.length_cons]; omega)
      rwa [Nat.add_zero] at this
    obtain ⟨f1, i1⟩ := gens_frozen (stepGens cfg inp first) l m
      (stepGens_offSeason cfg inp first h0) hinv hd.1 hm
    obtain ⟨f2, i2⟩ := ih (first + 1) m (fun k hk => by
      have := hns (k + 1) (by simp only [List.length_cons]; omega)
      have he : first + 1 + k = first + (k + 1) := by omega
      rw [he]; exact this) i1 (hd.2 m hm) hr
    exact ⟨f1.trans f2, i2⟩

/-! ### frame: only the generators of the actions that run matter -/

/-- Two input records that agree on the generators of the actions that run have the same step
    generators. -/
theorem stepGens_congr (cfg : StepCfg) (inp inp' : StepInputs) (step : Nat)
    (h : ∀ a, cfg.runs step a = true → actionGen inp step a = actionGen inp' step a) :
    stepGens cfg inp step = stepGens cfg inp' step := by
  simp only [stepGens]
  apply List.map_congr_left
  intro a ha
  exact h a.1 ((act_plan_iff cfg step a.1).mp (List.mem_map.mpr ⟨a, ha, rfl⟩))

/-- The shape of the frame hypothesis for the tail of the two lists. -/
theorem runFrame_tail {cfg : StepCfg} {inp inp' : StepInputs} {rest rest' : List StepInputs} {first : Nat}
    (h : ∀ k x x', (inp :: rest)[k]? = some x → (inp' :: rest')[k]? = some x' →
      ∀ a, cfg.runs (first + k) a = true → actionGen x (first + k) a = actionGen x' (first + k) a) :
    ∀ k x x', rest[k]? = some x → rest'[k]? = some x' →
      ∀ a, cfg.runs (first + 1 + k) a = true →
        actionGen x (first + 1 + k) a = actionGen x' (first + 1 + k) a := by
  intro k x x' hx hx' a ha
  have he : first + 1 + k = first + (k + 1) := by omega
  rw [he] at ha ⊢
  exact h (k + 1) x x' (by rw [List.getElem?_cons_succ]; exact hx)
    (by rw [List.getElem?_cons_succ]; exact hx') a ha

theorem runFrame_head {cfg : StepCfg} {inp inp' : StepInputs} {rest rest' : List StepInputs} {first : Nat}
    (h : ∀ k x x', (inp :: rest)[k]? = some x → (inp' :: rest')[k]? = some x' →
      ∀ a, cfg.runs (first + k) a = true → actionGen x (first + k) a = actionGen x' (first + k) a) :
    stepGens cfg inp first = stepGens cfg inp' first :=
  stepGens_congr cfg inp inp' first (fun a ha => by
    have := h 0 inp inp' rfl rfl a (by rw [Nat.add_zero]; exact ha)
    rwa [Nat.add_zero] at this)

/-! ### executable form of `RunDomainAlong` (for concrete instances) -/

def runDomainAlongB (cfg : StepCfg) : List StepInputs → Nat → Land → Bool
  | [], _, _ => true
  | inp :: rest, step, l => gensDomainAlongB (stepGens cfg inp step) l &&
      match runStepHosts cfg inp step l with
      | .ok l' => runDomainAlongB cfg rest (step + 1) l'
      | .error _ => true

theorem runDomainAlong_of_B (cfg : StepCfg) (inps : List StepInputs) (first : Nat) (l : Land)
    (h : runDomainAlongB cfg inps first l = true) : RunDomainAlong cfg inps first l := by
  induction inps generalizing first l with
  | nil => trivial
  | cons inp rest ih =>
    simp only [runDomainAlongB, Bool.and_eq_true] at h
    refine ⟨gensDomainAlong_of_B _ l h.1, fun l' hl' => ih (first + 1) l' ?_⟩
    have h2 := h.2
    rw [hl'] at h2
    exact h2

/-- A run of one step. -/
theorem runModel_single (cfg : StepCfg) (inp : StepInputs) (first : Nat) (l : Land) :
    runModel cfg [inp] first l = runStepHosts cfg inp first l := by
  cases h1 : runStepHosts cfg inp first l with
  | error e => rw [runModel_cons_error cfg inp [] first l e h1]
  | ok m => rw [runModel_cons_ok cfg inp [] first l m h1]; rfl

end Pops
