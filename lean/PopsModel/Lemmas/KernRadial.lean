/-
  Lemmas for C13 (core Lean only): rational radial geometry, von Mises algebra, samplers,
  the radial kernel's call, and the factories.
-/
import PopsModel.Lemmas.Kern
import PopsModel.Model.KernRadial
namespace Pops

/-! ### Radial geometry on rationals -/

theorem radialTargetQ_north (row col : Int) (d ns ew : Rat) :
    radialTargetQ row col d 1 0 ns ew = (row - lround (d / ns), col) := by
  simp only [radialTargetQ, radialStep, Rat.mul_one, Rat.mul_zero, Rat.div_def, Rat.zero_mul, lround_zero]
  simp

theorem radialTargetQ_east (row col : Int) (d ns ew : Rat) :
    radialTargetQ row col d 0 1 ns ew = (row, col + lround (d / ew)) := by
  simp only [radialTargetQ, radialStep, Rat.mul_one, Rat.mul_zero, Rat.div_def, Rat.zero_mul, lround_zero]
  simp

theorem radialTargetQ_south (row col : Int) (d ns ew : Rat) :
    radialTargetQ row col d (-1) 0 ns ew = (row + lround (d / ns), col) := by
  have h : d * (-1) / ns = -(d / ns) := by
    rw [Rat.mul_neg, Rat.mul_one, Rat.div_def, Rat.div_def, Rat.neg_mul]
  simp only [radialTargetQ, radialStep, Rat.mul_zero, h, lround_neg, Rat.div_def 0, Rat.zero_mul, lround_zero]
  simp

theorem radialTargetQ_west (row col : Int) (d ns ew : Rat) :
    radialTargetQ row col d 0 (-1) ns ew = (row, col - lround (d / ew)) := by
  have h : d * (-1) / ew = -(d / ew) := by
    rw [Rat.mul_neg, Rat.mul_one, Rat.div_def, Rat.div_def, Rat.neg_mul]
  simp only [radialTargetQ, radialStep, Rat.mul_zero, h, lround_neg, Rat.div_def 0, Rat.zero_mul, lround_zero]
  refine Prod.ext (by simp) (by simp only []; omega)

/-- A whole number `m` of cells in map units of the axis' own resolution moves exactly `m` cells. -/
theorem radialTargetQ_cells_north (row col m : Int) (ns ew : Rat) (hns : ns ≠ 0) :
    radialTargetQ row col ((m : Rat) * ns) 1 0 ns ew = (row - m, col) := by
  rw [radialTargetQ_north, Rat.mul_div_cancel hns, lround_intCast]

theorem radialTargetQ_cells_east (row col m : Int) (ns ew : Rat) (hew : ew ≠ 0) :
    radialTargetQ row col ((m : Rat) * ew) 0 1 ns ew = (row, col + m) := by
  rw [radialTargetQ_east, Rat.mul_div_cancel hew, lround_intCast]

/-- The row offset is the north-south component divided by `ns`, the column offset the east-west
    component divided by `ew`, each to within half a cell. -/
theorem radialTargetQ_within_half_cell (row col : Int) (d c s ns ew : Rat) :
    let t := radialTargetQ row col d c s ns ew
    (((row - t.1 : Int) : Rat) - d * c / ns ≤ 1 / 2 ∧ d * c / ns - ((row - t.1 : Int) : Rat) ≤ 1 / 2) ∧
    (((t.2 - col : Int) : Rat) - d * s / ew ≤ 1 / 2 ∧ d * s / ew - ((t.2 - col : Int) : Rat) ≤ 1 / 2) := by
  simp only [radialTargetQ, radialStep]
  have e1 : row - (row - lround (d * c / ns)) = lround (d * c / ns) := by omega
  have e2 : col + lround (d * s / ew) - col = lround (d * s / ew) := by omega
  rw [e1, e2]
  exact ⟨lround_close _, lround_close _⟩

/-! ### Von Mises algebra and samplers (generic in the number type) -/

section Generic
variable {α : Type} (T : TF α)

/-- `kappa <= 1e-6`: the angle is `2 * PI * U`, one uniform value consumed. -/
theorem vonMises_small_kappa (mu kappa u : α) (rest : List α)
    (h : T.leb kappa (vonMisesEps T) = true) :
    vonMises T mu kappa (u :: rest) = some (T.mul (T.mul (T.ofNat 2) T.pi) u, rest) := by
  simp only [vonMises, h, if_true]

/-- Otherwise: with `f` the value accepted by the rejection loop and `u3` the next uniform value,
    the angle is `fmod(mu + acos f, 2 PI)` when `u3 > 0.5` and `fmod(mu - acos f, 2 PI)` when not. -/
theorem vonMises_mirror (mu kappa f u3 : α) (us rest : List α)
    (h : T.leb kappa (vonMisesEps T) = false)
    (hloop : vonMisesLoop T kappa (vonMisesR T kappa) us = some (f, u3 :: rest)) :
    vonMises T mu kappa us =
      some (if T.ltb (T.div (T.ofNat 1) (T.ofNat 2)) u3 then T.fmod (T.add mu (T.acos f)) (T.mul (T.ofNat 2) T.pi)
            else T.fmod (T.sub mu (T.acos f)) (T.mul (T.ofNat 2) T.pi), rest) := by
  unfold vonMises
  rw [h]
  simp only [Bool.false_eq_true, if_false, hloop]
  split <;> rfl

/-- Whatever the loop accepted, the result has one of the two mirror forms. -/
theorem vonMises_forms (mu kappa theta : α) (us rest : List α)
    (h : T.leb kappa (vonMisesEps T) = false) (hv : vonMises T mu kappa us = some (theta, rest)) :
    ∃ f u3, (T.ltb (T.div (T.ofNat 1) (T.ofNat 2)) u3 = true ∧
              theta = T.fmod (T.add mu (T.acos f)) (T.mul (T.ofNat 2) T.pi)) ∨
            (T.ltb (T.div (T.ofNat 1) (T.ofNat 2)) u3 = false ∧
              theta = T.fmod (T.sub mu (T.acos f)) (T.mul (T.ofNat 2) T.pi)) := by
  unfold vonMises at hv
  rw [h] at hv
  simp only [Bool.false_eq_true, if_false] at hv
  cases hl : vonMisesLoop T kappa (vonMisesR T kappa) us with
  | none => rw [hl] at hv; simp at hv
  | some p =>
    obtain ⟨f, l⟩ := p
    cases l with
    | nil => rw [hl] at hv; simp at hv
    | cons u3 rest' =>
      rw [hl] at hv
      refine ⟨f, u3, ?_⟩
      by_cases hb : T.ltb (T.div (T.ofNat 1) (T.ofNat 2)) u3 = true
      · simp only [hb, if_true, Option.some.injEq, Prod.mk.injEq] at hv
        exact Or.inl ⟨hb, hv.1.symm⟩
      · have hb' : T.ltb (T.div (T.ofNat 1) (T.ofNat 2)) u3 = false := by simpa using hb
        simp only [hb', Bool.false_eq_true, if_false, Option.some.injEq, Prod.mk.injEq] at hv
        exact Or.inr ⟨hb', hv.1.symm⟩

/-- No direction: concentration zero whatever `kappa` was configured. -/
theorem directionKappa_none (kappa : α) : directionKappa T .none kappa = T.ofNat 0 := rfl

theorem directionKappa_some (d : Direction) (hd : d ≠ .none) (kappa : α) : directionKappa T d kappa = kappa := by
  simp [directionKappa, hd]

/-- The four inverse-transform classes: a `uniform_real_distribution(0, 1)` value through `icdf`. -/
theorem lawRandom_inverse_transform (law : Law)
    (h : law = .logistic ∨ law = .hyperbolicSecant ∨ law = .powerLaw ∨ law = .exponentialPower)
    (scale shape u : α) :
    lawSampler T law scale shape = .icdfOfUniform (T.ofNat 0) (T.ofNat 1) ∧
    lawRandom T law scale shape u = lawIcdfE T law scale shape u := by
  rcases h with h | h | h | h <;> subst h <;> exact ⟨rfl, rfl⟩

/-- The six library samplers: the absolute value of the owned distribution's draw. -/
theorem lawRandom_std (law : Law)
    (h : law = .cauchy ∨ law = .exponential ∨ law = .weibull ∨ law = .normal ∨ law = .logNormal ∨ law = .gamma)
    (scale shape draw : α) :
    lawRandom T law scale shape draw = .ok (T.abs draw) ∧
    (Sampler.density T (lawSampler T law scale shape) draw).isSome = true := by
  rcases h with h | h | h | h | h | h <;> subst h <;> exact ⟨rfl, rfl⟩

/-- The call operator: distance `|random|`, angle from von Mises, then the two rounded quotients with
    the north-south resolution under the cosine and the east-west resolution under the sine. -/
theorem radial_call (k : RadialKernel α) (law : Law) (row col : Int) (draw r theta : α) (us rest : List α)
    (hl : k.type.law? = some law) (hr : lawRandom T law k.scale k.shape draw = .ok r)
    (hv : vonMises T k.mu k.kappa us = some (theta, rest)) :
    k.call T row col draw us =
      some (.ok (row - T.lround (T.div (T.mul (T.abs r) (T.cos theta)) k.ns),
                 col + T.lround (T.div (T.mul (T.abs r) (T.sin theta)) k.ew))) := by
  simp only [RadialKernel.call, RadialKernel.distance, hl, hr, Except.map, hv, Option.map, radialTarget]

theorem radial_call_unsupported (k : RadialKernel α) (row col : Int) (draw : α) (us : List α)
    (hl : k.type.law? = none) : k.call T row col draw us = some (.error .invalid_argument) := by
  simp only [RadialKernel.call, RadialKernel.distance, hl]

/-- The constructor stores the two resolutions in their own members and derives mu / kappa from the
    direction. -/
theorem radial_make_fields (ew ns : α) (t : DispersalKernelType) (scale : α) (dir : Direction) (kappa shape : α)
    (k : RadialKernel α) (h : RadialKernel.make T ew ns t scale dir kappa shape = .ok k) :
    k.ew = ew ∧ k.ns = ns ∧ k.type = t ∧ k.scale = scale ∧ k.shape = shape ∧
    k.mu = directionMu T dir ∧ k.kappa = directionKappa T dir kappa := by
  unfold RadialKernel.make at h
  split at h
  · injection h with h; subst h; exact ⟨rfl, rfl, rfl, rfl, rfl, rfl, rfl⟩
  · cases h

end Generic

/-! ### Factories -/

theorem law_not_special (t : DispersalKernelType) (h : t.law?.isSome = true) :
    t ≠ .uniform ∧ t ≠ .deterministicNeighbor ∧ t ≠ .network ∧ t ≠ .none := by
  cases t <;> simp_all [DispersalKernelType.law?]

theorem createNatural_radial (c : KernelConfig) (t : DispersalKernelType) (d : Direction)
    (ht : kernelTypeFromString c.naturalKernelType = .ok t) (hl : t.law?.isSome = true)
    (hs : c.dispersalStochasticity = true) (hd : directionFromString c.naturalDirection = .ok d)
    (hok : radialCtorOk c.naturalScale c.shape = true) :
    createNaturalKernel c = .ok (.radial c.ewRes c.nsRes t c.naturalScale d c.naturalKappa c.shape) := by
  obtain ⟨h1, h2, _, _⟩ := law_not_special t hl
  simp [createNaturalKernel, ht, h1, h2, hs, hd, hok, bind, Except.bind, pure, Except.pure]

theorem createAnthro_radial (c : KernelConfig) (t : DispersalKernelType) (d : Direction)
    (ht : kernelTypeFromString c.anthroKernelType = .ok t) (hl : t.law?.isSome = true)
    (hs : c.dispersalStochasticity = true) (hd : directionFromString c.anthroDirection = .ok d)
    (hok : radialCtorOk c.anthroScale c.shape = true) :
    createAnthroKernel c = .ok (.radial c.ewRes c.nsRes t c.anthroScale d c.anthroKappa c.shape) := by
  obtain ⟨h1, h2, h3, _⟩ := law_not_special t hl
  simp [createAnthroKernel, ht, h1, h2, h3, hs, hd, hok, bind, Except.bind, pure, Except.pure]

theorem createNatural_uniform (c : KernelConfig)
    (ht : kernelTypeFromString c.naturalKernelType = .ok .uniform) :
    createNaturalKernel c = .ok (.uniform c.rows c.cols) := by
  simp [createNaturalKernel, ht, bind, Except.bind, pure, Except.pure]

theorem createAnthro_uniform (c : KernelConfig)
    (ht : kernelTypeFromString c.anthroKernelType = .ok .uniform) :
    createAnthroKernel c = .ok (.uniform c.rows c.cols) := by
  simp [createAnthroKernel, ht, bind, Except.bind, pure, Except.pure]

theorem createNatural_neighbor (c : KernelConfig) (d : Direction)
    (ht : kernelTypeFromString c.naturalKernelType = .ok .deterministicNeighbor)
    (hd : directionFromString c.naturalDirection = .ok d) :
    createNaturalKernel c = .ok (.neighbor d) := by
  simp [createNaturalKernel, ht, hd, bind, Except.bind, pure, Except.pure]

theorem createNatural_unknown_name (c : KernelConfig)
    (ht : kernelTypeFromString c.naturalKernelType = .error .invalid_argument) :
    createNaturalKernel c = .error .invalid_argument := by
  simp [createNaturalKernel, ht, bind, Except.bind]

theorem createDynamic_fields (c : KernelConfig) (k : DynamicKernelDesc) (h : createDynamicKernel c = .ok k) :
    createNaturalKernel c = .ok k.natural ∧ createAnthroKernel c = .ok k.anthro ∧
    k.useAnthropogenic = c.useAnthropogenicKernel ∧ k.percentNatural = c.percentNaturalDispersal := by
  unfold createDynamicKernel at h
  cases hn : createNaturalKernel c with
  | error e => simp [hn, bind, Except.bind] at h
  | ok n =>
    cases ha : createAnthroKernel c with
    | error e => simp [hn, ha, bind, Except.bind] at h
    | ok a =>
      simp only [hn, ha, bind, Except.bind, pure, Except.pure] at h
      injection h with h; subst h; exact ⟨rfl, rfl, rfl, rfl⟩

end Pops
