/-
  Round trip of the seed text: rendering `key<kv>value` records joined by the record separator
  and reading them back with the model of `read_key_value_pairs`.
-/
import PopsModel.Lemmas.Stream
import PopsModel.Model.StreamText
namespace Pops

/-! ### list helpers -/

theorem takeWhile_all {α : Type} (p : α → Bool) (l : List α) (h : ∀ x ∈ l, p x = true) :
    l.takeWhile p = l := by
  induction l with
  | nil => rfl
  | cons a l ih =>
    simp only [List.takeWhile_cons, h a (List.mem_cons_self), if_true]
    rw [ih fun x hx => h x (List.mem_cons_of_mem _ hx)]

theorem dropWhile_head_false {α : Type} (p : α → Bool) (a : α) (l : List α) (h : p a = false) :
    (a :: l).dropWhile p = a :: l := by
  simp [h]

theorem takeWhile_append_stop {α : Type} (p : α → Bool) (l : List α) (a : α) (r : List α)
    (h : ∀ x ∈ l, p x = true) (ha : p a = false) : (l ++ a :: r).takeWhile p = l := by
  induction l with
  | nil => simp [ha]
  | cons b l ih =>
    simp only [List.cons_append, List.takeWhile_cons, h b (List.mem_cons_self), if_true]
    rw [ih fun x hx => h x (List.mem_cons_of_mem _ hx)]

/-! ### digits -/

theorem digitChar_isDigit (d : Nat) (h : d < 10) : isDigitC (digitChar d) = true := by
  have : d = 0 ∨ d = 1 ∨ d = 2 ∨ d = 3 ∨ d = 4 ∨ d = 5 ∨ d = 6 ∨ d = 7 ∨ d = 8 ∨ d = 9 := by omega
  rcases this with h | h | h | h | h | h | h | h | h | h <;> subst h <;> decide

theorem digitVal_digitChar (d : Nat) (h : d < 10) : digitVal (digitChar d) = d := by
  have : d = 0 ∨ d = 1 ∨ d = 2 ∨ d = 3 ∨ d = 4 ∨ d = 5 ∨ d = 6 ∨ d = 7 ∨ d = 8 ∨ d = 9 := by omega
  rcases this with h | h | h | h | h | h | h | h | h | h <;> subst h <;> decide

theorem digitsValue_append (a : List Char) (c : Char) :
    digitsValue (a ++ [c]) = digitsValue a * 10 + digitVal c := by
  simp [digitsValue, List.foldl_append]

theorem digits10_spec (n : Nat) :
    digits10 n ≠ [] ∧ (∀ c ∈ digits10 n, isDigitC c = true) ∧ digitsValue (digits10 n) = n := by
  induction n using Nat.strongRecOn with
  | _ n ih =>
    rw [digits10]
    split
    · rename_i h
      refine ⟨by simp, ?_, ?_⟩
      · intro c hc
        simp only [List.mem_singleton] at hc
        subst hc; exact digitChar_isDigit n h
      · simp [digitsValue, digitVal_digitChar n h]
    · rename_i h
      obtain ⟨_, h2, h3⟩ := ih (n / 10) (by omega)
      refine ⟨by simp, ?_, ?_⟩
      · intro c hc
        rcases List.mem_append.mp hc with hc | hc
        · exact h2 c hc
        · simp only [List.mem_singleton] at hc
          subst hc; exact digitChar_isDigit _ (by omega)
      · rw [digitsValue_append, h3, digitVal_digitChar _ (by omega)]; omega

/-! ### one record -/

/-- A key the expression can match as a whole: not empty, no blank, no key-value separator. -/
def WordKey (kv : Char) (k : List Char) : Prop := k ≠ [] ∧ ∀ c ∈ k, c ≠ ' ' ∧ c ≠ kv

theorem findKV_skip (kv : Char) (k pre rest : List Char) (h : ∀ c ∈ k, c ≠ kv) :
    findKV kv pre (k ++ rest) = findKV kv (k.reverse ++ pre) rest := by
  induction k generalizing pre with
  | nil => rfl
  | cons c k ih =>
    have hc : (c == kv) = false := by simpa using (h c (List.mem_cons_self))
    simp only [List.cons_append, findKV, hc]
    rw [ih (c :: pre) fun x hx => h x (List.mem_cons_of_mem _ hx)]
    simp

theorem wordBefore_key (kv : Char) (k : List Char) (hk : WordKey kv k) :
    wordBefore kv (k.reverse ++ []) = k := by
  obtain ⟨hne, hall⟩ := hk
  have hall' : ∀ c ∈ k.reverse, c ≠ ' ' ∧ c ≠ kv := fun c hc => hall c (List.mem_reverse.mp hc)
  unfold wordBefore
  rw [List.append_nil]
  have hd : k.reverse.dropWhile (· == ' ') = k.reverse := by
    cases hr : k.reverse with
    | nil => rfl
    | cons a l =>
      apply dropWhile_head_false
      have := (hall' a (by rw [hr]; exact List.mem_cons_self)).1
      simpa using this
  rw [hd, takeWhile_all _ _ (fun c hc => by
    have := hall' c hc
    simp [this.1, this.2]), List.reverse_reverse]

theorem isDigit_ne {c : Char} (h : isDigitC c = true) : c ≠ ' ' ∧ c ≠ '-' ∧ c ≠ '+' := by
  refine ⟨?_, ?_, ?_⟩ <;> (intro hc; subst hc; revert h; decide)

theorem valueAfter_digits (ds : List Char) (hd : ∀ c ∈ ds, isDigitC c = true) : valueAfter ds = ds := by
  unfold valueAfter
  have hns : ∀ c ∈ ds, (c == ' ') = false := fun c hc => by simpa using (isDigit_ne (hd c hc)).1
  have h1 : ds.dropWhile (· == ' ') = ds := by
    cases ds with
    | nil => rfl
    | cons a l => exact dropWhile_head_false _ _ _ (hns a List.mem_cons_self)
  rw [h1]
  exact takeWhile_all _ _ fun c hc => by simp [bne, hns c hc]

theorem stoul_digits (ds : List Char) (hne : ds ≠ []) (hd : ∀ c ∈ ds, isDigitC c = true)
    (hv : digitsValue ds ≤ 18446744073709551615) : stoul ds = .ok (digitsValue ds) := by
  cases ds with
  | nil => exact absurd rfl hne
  | cons a l =>
    obtain ⟨h1, h2, h3⟩ := isDigit_ne (hd a List.mem_cons_self)
    have hdrop : (a :: l).dropWhile (· == ' ') = a :: l :=
      dropWhile_head_false _ _ _ (by simpa using h1)
    have hneg : stoulNeg (a :: l) = false := by
      unfold stoulNeg
      split
      · rename_i heq; simp only [List.cons.injEq] at heq; exact absurd heq.1 h2
      · rfl
    have hbody : stoulBody (a :: l) = a :: l := by
      unfold stoulBody
      split
      · rename_i heq; simp only [List.cons.injEq] at heq; exact absurd heq.1 h2
      · rename_i heq; simp only [List.cons.injEq] at heq; exact absurd heq.1 h3
      · rfl
    unfold stoul
    simp only [hdrop, hneg, hbody, takeWhile_all _ _ hd]
    have : ¬ digitsValue (a :: l) > 18446744073709551615 := by omega
    simp [this]

/-- A rendered record reads back as its key and its value (as `unsigned`). -/
theorem parseRecord_render (kv : Char) (k : List Char) (v : Nat) (hk : WordKey kv k)
    (hv : v ≤ 18446744073709551615) :
    parseRecord kv (k ++ kv :: digits10 v) = .ok (String.ofList k, u32 v) := by
  obtain ⟨hne, hds, hval⟩ := digits10_spec v
  unfold parseRecord
  rw [findKV_skip kv k [] _ (fun c hc => (hk.2 c hc).2)]
  have hw := wordBefore_key kv k hk
  have hva := valueAfter_digits _ hds
  have hfind : findKV kv (k.reverse ++ []) (kv :: digits10 v) = some (k, digits10 v) := by
    simp only [findKV, beq_self_eq_true, if_true, hw, hva]
    have h1 : k.isEmpty = false := by cases k with | nil => exact absurd rfl hk.1 | cons _ _ => rfl
    have h2 : (digits10 v).isEmpty = false := by
      cases hd : digits10 v with | nil => exact absurd hd hne | cons _ _ => rfl
    simp [h1, h2]
  rw [hfind]
  simp only
  rw [stoul_digits _ hne hds (by rw [hval]; exact hv), hval]

/-! ### records -/

theorem splitAux_skip (sep : Char) (w rest acc : List Char) (h : ∀ c ∈ w, c ≠ sep) :
    splitRecordsAux sep (w ++ rest) acc = splitRecordsAux sep rest (w.reverse ++ acc) := by
  induction w generalizing acc with
  | nil => rfl
  | cons c w ih =>
    have hc : (c == sep) = false := by simpa using h c List.mem_cons_self
    simp only [List.cons_append, splitRecordsAux, hc]
    rw [ih (c :: acc) fun x hx => h x (List.mem_cons_of_mem _ hx)]
    simp

theorem split_last (sep : Char) (w : List Char) (hne : w ≠ []) (h : ∀ c ∈ w, c ≠ sep) :
    splitRecords sep w = [w] := by
  have := splitAux_skip sep w [] [] h
  rw [List.append_nil] at this
  unfold splitRecords
  rw [this]
  simp only [splitRecordsAux, List.append_nil]
  have : w.reverse.isEmpty = false := by
    cases w with | nil => exact absurd rfl hne | cons a l => simp
  simp [this]

theorem split_cons (sep : Char) (w rest : List Char) (h : ∀ c ∈ w, c ≠ sep) :
    splitRecords sep (w ++ sep :: rest) = w :: splitRecords sep rest := by
  unfold splitRecords
  rw [splitAux_skip sep w _ [] h]
  simp [splitRecordsAux]

/-- The text of one record. -/
def recordText (kv : Char) (p : List Char × Nat) : List Char := p.1 ++ kv :: digits10 p.2

/-- Keys are whole words that do not contain the record separator; the separators are not digits. -/
structure WellFormed (sep kv : Char) (ps : List (List Char × Nat)) : Prop where
  sepNotDigit : isDigitC sep = false
  sepNotKv : sep ≠ kv
  keys : ∀ p ∈ ps, WordKey kv p.1 ∧ (∀ c ∈ p.1, c ≠ sep)
  values : ∀ p ∈ ps, p.2 ≤ 18446744073709551615

theorem recordText_noSep (sep kv : Char) (p : List Char × Nat) (h1 : isDigitC sep = false)
    (h2 : sep ≠ kv) (h3 : ∀ c ∈ p.1, c ≠ sep) : ∀ c ∈ recordText kv p, c ≠ sep := by
  intro c hc
  unfold recordText at hc
  rcases List.mem_append.mp hc with hc | hc
  · exact h3 c hc
  · rcases List.mem_cons.mp hc with hc | hc
    · subst hc; exact fun h => h2 h.symm
    · intro h; subst h
      have := (digits10_spec p.2).2.1 c hc
      rw [h1] at this; cases this

theorem recordText_ne (kv : Char) (p : List Char × Nat) : recordText kv p ≠ [] := by
  unfold recordText; simp

theorem split_render (sep kv : Char) (ps : List (List Char × Nat)) (wf : WellFormed sep kv ps) :
    splitRecords sep (renderPairs sep kv ps) = ps.map (recordText kv) := by
  induction ps with
  | nil => rfl
  | cons p ps ih =>
    obtain ⟨k, v⟩ := p
    have hk := wf.keys (k, v) List.mem_cons_self
    have hns := recordText_noSep sep kv (k, v) wf.sepNotDigit wf.sepNotKv hk.2
    cases ps with
    | nil =>
      simp only [renderPairs, List.map_cons, List.map_nil]
      exact split_last sep _ (recordText_ne kv (k, v)) hns
    | cons q qs =>
      have wf' : WellFormed sep kv (q :: qs) :=
        ⟨wf.sepNotDigit, wf.sepNotKv, fun p hp => wf.keys p (List.mem_cons_of_mem _ hp),
         fun p hp => wf.values p (List.mem_cons_of_mem _ hp)⟩
      have e : renderPairs sep kv ((k, v) :: q :: qs) =
          recordText kv (k, v) ++ sep :: renderPairs sep kv (q :: qs) := by
        simp [renderPairs, recordText]
      rw [e, split_cons sep _ _ hns, ih wf']
      rfl

/-- The map after reading the rendered records: one entry per record, the newest first. -/
def entries (ps : List (List Char × Nat)) : SeedMap :=
  (ps.map fun p => (String.ofList p.1, u32 p.2)).reverse

theorem readRecords_render (kv : Char) (ps : List (List Char × Nat)) (m : SeedMap)
    (hk : ∀ p ∈ ps, WordKey kv p.1) (hv : ∀ p ∈ ps, p.2 ≤ 18446744073709551615) :
    readRecords kv (ps.map (recordText kv)) m = .ok (entries ps ++ m) := by
  induction ps generalizing m with
  | nil => rfl
  | cons p ps ih =>
    simp only [List.map_cons, readRecords]
    have : parseRecord kv (recordText kv p) = .ok (String.ofList p.1, u32 p.2) :=
      parseRecord_render kv p.1 p.2 (hk p List.mem_cons_self) (hv p List.mem_cons_self)
    rw [this]
    simp only
    rw [ih _ (fun q hq => hk q (List.mem_cons_of_mem _ hq)) (fun q hq => hv q (List.mem_cons_of_mem _ hq))]
    simp [entries, SeedMap.insert]

/-- **Round trip.** Reading a rendered, well-formed seed text gives exactly the rendered pairs. -/
theorem readKeyValuePairs_render (sep kv : Char) (ps : List (List Char × Nat)) (wf : WellFormed sep kv ps) :
    readKeyValuePairs sep kv (renderPairs sep kv ps) = .ok (entries ps) := by
  unfold readKeyValuePairs
  rw [split_render sep kv ps wf, readRecords_render kv ps [] (fun p hp => (wf.keys p hp).1) wf.values]
  simp

/-- Lookup in a map without repeated keys. -/
theorem SeedMap.find_of_mem (m : SeedMap) (hd : (m.map (·.1)).Nodup) (k : String) (v : Nat)
    (h : (k, v) ∈ m) : m.find? k = some v := by
  induction m with
  | nil => cases h
  | cons e m ih =>
    obtain ⟨k', v'⟩ := e
    simp only [List.map_cons, List.nodup_cons] at hd
    rcases List.mem_cons.mp h with h | h
    · cases h; simp [SeedMap.find?]
    · have hne : k' ≠ k := by
        intro e; subst e
        exact hd.1 (List.mem_map.mpr ⟨(k', v), h, rfl⟩)
      simp only [SeedMap.find?, beq_iff_eq, hne, if_false]
      exact ih hd.2 h

end Pops
