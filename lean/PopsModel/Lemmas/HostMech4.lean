/-
  Helper lemmas for C05 with removals from the exposed cohorts in between.
-/
import PopsModel.Lemmas.HostMech
namespace Pops

theorem mech_Dom_subL_take_le (d m : List Int) (h : mech_Dom d m) (n : Nat) :
    sumL ((subL m d).take n) ≤ sumL (m.take n) := by
  induction d generalizing m n with
  | nil => cases m with
    | nil => simp [subL]
    | cons y ys => exact h.elim
  | cons x xs ih => cases m with
    | nil => exact h.elim
    | cons y ys => cases n with
      | zero => simp
      | succ n' =>
        have := ih ys h.2.2 n'
        unfold subL at *
        simp only [List.zipWith_cons_cons, List.take_succ_cons, sumL_cons]
        have := h.1; omega

theorem mech_subL_length (m d : List Int) (h : d.length = m.length) : (subL m d).length = m.length := by
  unfold subL; simp only [List.length_zipWith, h, Nat.min_self]

theorem mech_addLast_nonneg (e : List Int) (x : Int) (hx : 0 ≤ x) (he : ∀ z ∈ e, 0 ≤ z) :
    ∀ z ∈ addLast e x, 0 ≤ z := by
  induction e with
  | nil => intro z hz; simp [addLast] at hz
  | cons a t ih => cases t with
    | nil =>
      intro z hz
      simp only [addLast, List.mem_singleton] at hz
      have := he a (by simp); omega
    | cons b t' =>
      intro z hz
      simp only [addLast, List.mem_cons] at hz
      rcases hz with rfl | hz
      · exact he z (by simp)
      · exact ih (fun w hw => he w (by simp [hw])) z (by simpa only [List.mem_cons] using hz)

/-- One spread step (exposure, then the latency step) against the closed formula. -/
theorem mech_latStep_formula (latency step : Nat) (c : Cell) (x : Int) (rest : List Int)
    (hlen : c.e.length = latency + 1) (hstep : latency ≤ step) :
    (mech_latStep latency step c x).i + sumL ((mech_latStep latency step c x).e.take rest.length) +
        sumL (rest.take (rest.length - latency)) =
      c.i + sumL (c.e.take (rest.length + 1)) +
        sumL ((x :: rest).take (rest.length + 1 - latency)) ∧
    (mech_latStep latency step c x).e.length = latency + 1 ∧
    (0 ≤ x → (∀ z ∈ c.e, 0 ≤ z) →
      c.i ≤ (mech_latStep latency step c x).i ∧ ∀ z ∈ (mech_latStep latency step c x).e, 0 ≤ z) := by
  have hAl := mech_addLast_length c.e x
  obtain ⟨a, T, hA⟩ : ∃ a T, addLast c.e x = a :: T := by
    cases hh : addLast c.e x with
    | nil => rw [hh] at hAl; simp at hAl; omega
    | cons a T => exact ⟨a, T, rfl⟩
  obtain ⟨hi, he⟩ := mech_latStep_spec latency step c x a T hstep hA
  have hTl : T.length = latency := by
    rw [hA] at hAl; simp only [List.length_cons] at hAl; omega
  refine ⟨?_, ?_, ?_⟩
  · rw [hi, he, mech_sumL_take_snoc_zero, mech_take_sub_cons]
    have f3 := mech_sumL_take_addLast c.e x (rest.length + 1)
    rw [hA, List.take_succ_cons, sumL_cons, hlen] at f3
    by_cases hc : latency ≤ rest.length
    · have c1 : 0 < latency + 1 ∧ latency + 1 ≤ rest.length + 1 := by omega
      rw [if_pos c1] at f3; rw [if_pos hc]; omega
    · have c1 : ¬ (0 < latency + 1 ∧ latency + 1 ≤ rest.length + 1) := by omega
      rw [if_neg c1] at f3; rw [if_neg hc]; omega
  · rw [he]; simp only [List.length_append, List.length_cons, List.length_nil]; omega
  · intro hx hn
    have hnn := mech_addLast_nonneg c.e x hx hn
    rw [hA] at hnn
    refine ⟨?_, ?_⟩
    · rw [hi]; have := hnn a (by simp); omega
    · rw [he]
      intro z hz
      rcases List.mem_append.mp hz with hz | hz
      · exact hnn z (by simp [hz])
      · simp at hz; omega

/-- Never more, never earlier, for any history type whose operations are classified by `cls`
    as a spread step (`inl x`) or a removal from the exposed cohorts (`inr d`). -/
theorem mech_C05_removals {α : Type} (latency : Nat) (cls : α → Int ⊕ List Int)
    (hist : Nat → List α → Cell → Cell) (expo : List α → List Int)
    (valid : Nat → List α → Cell → Prop)
    (hh0 : ∀ s c, hist s [] c = c)
    (hh1 : ∀ s op rest c, hist s (op :: rest) c =
      match cls op with
      | .inl x => hist (s + 1) rest (mech_latStep latency s c x)
      | .inr d => hist s rest { c with e := subL c.e d, te := c.te - sumL d })
    (he0 : expo [] = [])
    (he1 : ∀ op rest, expo (op :: rest) =
      match cls op with
      | .inl x => x :: expo rest
      | .inr _ => expo rest)
    (hv1 : ∀ s op rest c, valid s (op :: rest) c →
      match cls op with
      | .inl x => 0 ≤ x ∧ valid (s + 1) rest (mech_latStep latency s c x)
      | .inr d => d.length = c.e.length ∧ (∀ k : Nat, k < d.length → 0 ≤ d[k]! ∧ d[k]! ≤ c.e[k]!) ∧
          valid s rest { c with e := subL c.e d, te := c.te - sumL d })
    (ops : List α) : ∀ (s : Nat) (c : Cell), c.e.length = latency + 1 → latency ≤ s →
      (∀ x ∈ c.e, 0 ≤ x) → valid s ops c →
      (hist s ops c).i ≤ c.i + sumL (c.e.take (expo ops).length) +
          sumL ((expo ops).take ((expo ops).length - latency)) ∧
      c.i ≤ (hist s ops c).i := by
  induction ops with
  | nil =>
    intro s c _ _ _ _
    simp only [hh0, he0, List.length_nil, List.take_zero, sumL_nil, List.take_nil]
    omega
  | cons op rest ih =>
    intro s c hlen hs hn hv
    have hh := hh1 s op rest c
    have he := he1 op rest
    have hv' := hv1 s op rest c hv
    cases hcls : cls op with
    | inl x =>
      rw [hcls] at hh he hv'
      simp only at hh he hv'
      obtain ⟨hx, hvr⟩ := hv'
      obtain ⟨f1, f2, f3⟩ := mech_latStep_formula latency s c x (expo rest) hlen hs
      obtain ⟨g1, g2⟩ := f3 hx hn
      obtain ⟨r1, r2⟩ := ih (s + 1) (mech_latStep latency s c x) f2 (by omega) g2 hvr
      rw [hh, he, List.length_cons]
      omega
    | inr d =>
      rw [hcls] at hh he hv'
      simp only at hh he hv'
      obtain ⟨hdl, hdk, hvr⟩ := hv'
      have hdom := mech_Dom_of_index d c.e hdl hdk
      obtain ⟨r1, r2⟩ := ih s { c with e := subL c.e d, te := c.te - sumL d }
        (by simp only [mech_subL_length c.e d hdl, hlen]) hs
        (mech_Dom_subL_nonneg d c.e hdom) hvr
      have hle := mech_Dom_subL_take_le d c.e hdom (expo rest).length
      rw [hh, he]
      simp only at r1 r2
      omega

end Pops
