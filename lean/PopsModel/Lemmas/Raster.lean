/-
  Lemmas about the raster value model: truncation, cell-wise characterisation of `map` / `zip`,
  and the `rows x cols` loops of `operator==` against list equality.
-/
import PopsModel.Model.RasterPred
namespace Pops
variable {α β γ : Type}

/-! ### `static_cast<int>` of an exact value -/

theorem d2i_i2d (n : Int) : d2i (i2d n) = n := by
  unfold d2i i2d
  split
  · exact Rat.floor_intCast n
  · exact Rat.ceil_intCast n

/-- Truncation toward zero: for `q >= 0` the largest integer `<= q`. -/
theorem d2i_nonneg {q : Rat} (h : 0 ≤ q) : 0 ≤ d2i q ∧ (d2i q : Rat) ≤ q ∧ q < ((d2i q + 1 : Int) : Rat) := by
  unfold d2i
  rw [if_pos h]
  exact ⟨Rat.le_floor_iff.mpr (by simpa using h), Rat.floor_le q, Rat.lt_floor_add_one q⟩

/-- Truncation toward zero: for `q < 0` the smallest integer `>= q`. -/
theorem d2i_neg {q : Rat} (h : q < 0) : d2i q ≤ 0 ∧ q ≤ (d2i q : Rat) ∧ (d2i q : Rat) < q + 1 := by
  unfold d2i
  rw [if_neg (Rat.not_le.mpr h)]
  refine ⟨Rat.ceil_le_iff.mpr ?_, Rat.le_ceil, Rat.ceil_lt⟩
  exact Rat.le_of_lt (by simpa using h)

/-! ### Cells of `map` and `zip` by coordinates -/

namespace Raster

theorem map_at (f : α → β) (a : Raster α) (i j : Nat) : (a.map f).at? i j = (a.at? i j).map f := by
  simp [at?, map]

theorem zipWith_getElem? (f : α → β → γ) (as : List α) (bs : List β) (k : Nat) :
    (List.zipWith f as bs)[k]? = opt2 f as[k]? bs[k]? := by
  rw [List.getElem?_zipWith]
  cases as[k]? <;> cases bs[k]? <;> rfl

theorem zip_ok_iff (f : α → β → γ) (a : Raster α) (b : Raster β) :
    (∃ r, zip f a b = .ok r) ↔ (a.rows = b.rows ∧ a.cols = b.cols) := by
  unfold zip
  constructor
  · rintro ⟨r, hr⟩
    split at hr
    · cases hr
    · omega
  · intro h
    exact ⟨_, if_neg (by omega)⟩

theorem zip_at (f : α → β → γ) (a : Raster α) (b : Raster β) (r : Raster γ) (h : zip f a b = .ok r)
    (i j : Nat) : r.rows = a.rows ∧ r.cols = a.cols ∧ r.at? i j = opt2 f (a.at? i j) (b.at? i j) := by
  unfold zip at h
  split at h
  · cases h
  · rename_i hc
    cases h
    have : a.cols = b.cols := by omega
    simp only [at?, zipWith_getElem?, this, and_self]

theorem zipAssign_at (f : α → β → α) (a : Raster α) (b : Raster β) (r : Raster α)
    (h : zipAssign f a b = .ok r) (i j : Nat) :
    r.rows = a.rows ∧ r.cols = a.cols ∧ r.at? i j = opt2 f (a.at? i j) (b.at? i j) := by
  unfold zipAssign at h
  split at h
  · cases h
  · rename_i hc
    cases h
    have : a.cols = b.cols := by omega
    simp only [at?, zipWith_getElem?, this, and_self]

end Raster

theorem all_range_true {n : Nat} {p : Nat → Bool} : (List.range n).all p = true ↔ ∀ i, i < n → p i = true := by
  simp [List.all_eq_true]

theorem elemMapOK_map [DecidableEq β] (f : α → β) (a : Raster α) (hw : a.WF) :
    ElemMapOK f a (a.map f) = true := by
  simp only [ElemMapOK, Bool.and_eq_true, beq_iff_eq, all_range_true]
  refine ⟨⟨⟨rfl, rfl⟩, ?_⟩, fun i _ j _ => Raster.map_at f a i j⟩
  simpa [Raster.map, Raster.WF] using hw

theorem elemMapOK_congr [DecidableEq β] {f g : α → β} (hfg : ∀ x, f x = g x) (a : Raster α) (r : Raster β) :
    ElemMapOK f a r = ElemMapOK g a r := by
  have : f = g := funext hfg
  rw [this]

theorem specSR_II_eq (o : BinOp) (v x : Int) : specSR_II o v x = cSR_II o v x := by
  cases o <;> simp [specSR_II, cSR_II, cRS_II, BinOp.int, Int.add_comm, Int.mul_comm]
theorem specSR_ID_eq (o : BinOp) (v : Rat) (x : Int) : specSR_ID o v x = cSR_ID o v x := by
  cases o <;> simp [specSR_ID, cSR_ID, cRS_ID, BinOp.dbl, Rat.add_comm, Rat.mul_comm]
theorem specSR_DI_eq (o : BinOp) (v : Int) (x : Rat) : specSR_DI o v x = cSR_DI o v x := by
  cases o <;> simp [specSR_DI, cSR_DI, cRS_DI, BinOp.dbl, Rat.add_comm, Rat.mul_comm]
theorem specSR_DD_eq (o : BinOp) (v x : Rat) : specSR_DD o v x = cSR_DD o v x := by
  cases o <;> simp [specSR_DD, cSR_DD, cRS_DD, BinOp.dbl, Rat.add_comm, Rat.mul_comm]

theorem elemZipOK_zip [DecidableEq γ] (f : α → β → γ) (a : Raster α) (b : Raster β) (r : Raster γ)
    (hwa : a.WF) (hwb : b.WF) (h : Raster.zip f a b = .ok r) : ElemZipOK f a b r = true := by
  simp only [ElemZipOK, Bool.and_eq_true, beq_iff_eq, all_range_true]
  refine ⟨⟨⟨(Raster.zip_at f a b r h 0 0).1, (Raster.zip_at f a b r h 0 0).2.1⟩, ?_⟩,
    fun i _ j _ => (Raster.zip_at f a b r h i j).2.2⟩
  unfold Raster.zip at h
  split at h
  · cases h
  · cases h
    have e1 : a.cols = b.cols := by omega
    have e2 : a.rows = b.rows := by omega
    simp only [List.length_zipWith]
    unfold Raster.WF at hwa hwb
    rw [hwa, hwb, ← e1, ← e2]; simp

theorem elemZipOK_zipAssign [DecidableEq α] (f : α → β → α) (a : Raster α) (b : Raster β) (r : Raster α)
    (hwa : a.WF) (hwb : b.WF) (h : Raster.zipAssign f a b = .ok r) : ElemZipOK f a b r = true :=
  elemZipOK_zip f a b r hwa hwb h

/-! ### `operator==` / `operator!=` -/

/-- Every flat index below `rows * cols` is `i * cols + j` for a row `i < rows` and a column `j < cols`. -/
theorem index_decompose {rows cols k : Nat} (hk : k < rows * cols) :
    k / cols < rows ∧ k % cols < cols ∧ k / cols * cols + k % cols = k := by
  have hc : 0 < cols := by
    rcases Nat.eq_zero_or_pos cols with e | e
    · subst e; simp at hk
    · exact e
  refine ⟨?_, Nat.mod_lt _ hc, ?_⟩
  · exact Nat.div_lt_of_lt_mul (by rw [Nat.mul_comm]; exact hk)
  · rw [Nat.mul_comm]; exact Nat.div_add_mod k cols

theorem loops_iff [DecidableEq α] (a b : Raster α) (hwa : a.WF) (hwb : b.WF)
    (hr : a.rows = b.rows) (hc : a.cols = b.cols) :
    (∀ i, i < a.rows → ∀ j, j < a.cols → a.cells[i * a.cols + j]? = b.cells[i * a.cols + j]?) ↔
    a.cells = b.cells := by
  constructor
  · intro h
    apply List.ext_getElem?
    intro k
    by_cases hk : k < a.rows * a.cols
    · obtain ⟨h1, h2, h3⟩ := index_decompose hk
      have := h _ h1 _ h2
      rw [h3] at this; exact this
    · unfold Raster.WF at hwa hwb
      rw [List.getElem?_eq_none (by omega), List.getElem?_eq_none (by rw [hwb, ← hr, ← hc]; omega)]
  · intro h i _ j _; rw [h]

theorem eqOp_iff [DecidableEq α] (a b : Raster α) (hwa : a.WF) (hwb : b.WF) :
    a.eqOp b = true ↔ (a.rows = b.rows ∧ a.cols = b.cols ∧ a.cells = b.cells) := by
  unfold Raster.eqOp
  by_cases hs : a.rows ≠ b.rows ∨ a.cols ≠ b.cols
  · rw [if_pos hs]
    constructor
    · intro h; cases h
    · rintro ⟨h1, h2, _⟩; omega
  · rw [if_neg hs]
    have hr : a.rows = b.rows := by omega
    have hc : a.cols = b.cols := by omega
    rw [← loops_iff a b hwa hwb hr hc]
    simp only [all_range_true, Bool.not_eq_true', bne_eq_false_iff_eq, hr, hc, true_and]

theorem neOp_eq_not_eqOp [DecidableEq α] (a b : Raster α) : a.neOp b = !a.eqOp b := by
  unfold Raster.neOp Raster.eqOp
  by_cases hs : a.rows ≠ b.rows ∨ a.cols ≠ b.cols
  · rw [if_pos hs, if_pos hs]; rfl
  · rw [if_neg hs, if_neg hs]
    simp [List.not_all_eq_any_not]

theorem sameRaster_iff [DecidableEq α] (a b : Raster α) : SameRaster a b = true ↔ a = b := by
  cases a; cases b
  simp [SameRaster, and_assoc]

end Pops
