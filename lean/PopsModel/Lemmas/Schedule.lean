import PopsModel.Lemmas.Calendar
namespace Pops
open Date

/-- Year of a bounded date is monotone in the rank. -/
theorem year_le_of_ord_le {a b : Date} (ha : a.Bounded) (hb : b.Bounded) (h : a.ord ≤ b.ord) : a.y ≤ b.y := by
  obtain ⟨a1, a2, a3, a4⟩ := ha; obtain ⟨b1, b2, b3, b4⟩ := hb
  simp only [Date.ord] at h; omega

theorem bounded_of_md (y mo da : Int) (h1 : 1 ≤ mo) (h2 : mo ≤ 12) (h3 : 1 ≤ da) (h4 : da ≤ 31) :
    (⟨y, mo, da⟩ : Date).Bounded := ⟨h1, h2, h3, h4⟩

theorem contains_iff_ord' (st : Step) (x : Date) (hx : x.Bounded) (hs : st.s.Bounded) (he : st.e.Bounded) :
    st.contains x = true ↔ st.s.ord ≤ x.ord ∧ x.ord ≤ st.e.ord := by
  simp only [Step.contains, Bool.and_eq_true]
  rw [ge_iff_ord hx hs, le_iff_ord hx he]

theorem yearlyFires_iff (st : Step) (hwf : stepWF st = true) (hshort : st.e.y ≤ st.s.y + 1)
    (mo da : Int) (h1 : 1 ≤ mo) (h2 : mo ≤ 12) (h3 : 1 ≤ da) (h4 : da ≤ 28) :
    yearlyFires mo da st = true ↔ ∃ y : Int, st.contains ⟨y, mo, da⟩ = true := by
  obtain ⟨vs, ve, hle⟩ := (stepWF_iff st).mp hwf
  have bs := vs.bounded; have be := ve.bounded
  have bt : ∀ y, (⟨y, mo, da⟩ : Date).Bounded := fun y => bounded_of_md y mo da h1 h2 h3 (by omega)
  constructor
  · intro h
    simp only [yearlyFires, Bool.or_eq_true] at h
    rcases h with h | h
    · exact ⟨st.s.y, h⟩
    · exact ⟨st.e.y, h⟩
  · rintro ⟨y, hy⟩
    have ho := (contains_iff_ord' st _ (bt y) bs be).mp hy
    have y1 := year_le_of_ord_le bs (bt y) ho.1
    have y2 := year_le_of_ord_le (bt y) be ho.2
    simp only at y1 y2
    simp only [yearlyFires, Bool.or_eq_true]
    by_cases hys : y = st.s.y
    · left; rw [← hys]; exact hy
    · right
      have : y = st.e.y := by omega
      rw [← this]; exact hy

theorem endOfYearFires_iff (st : Step) (hwf : stepWF st = true) :
    endOfYearFires st = true ↔ ∃ y : Int, st.contains ⟨y, 12, 31⟩ = true := by
  obtain ⟨vs, ve, hle⟩ := (stepWF_iff st).mp hwf
  have bs := vs.bounded; have be := ve.bounded
  have bt : ∀ y, (⟨y, 12, 31⟩ : Date).Bounded := fun y => bounded_of_md y 12 31 (by omega) (by omega) (by omega) (by omega)
  obtain ⟨s1, s2, s3, s4⟩ := bs; obtain ⟨e1, e2, e3, e4⟩ := be
  have hyle := year_le_of_ord_le vs.bounded ve.bounded hle
  constructor
  · intro h
    simp only [endOfYearFires, Bool.or_eq_true, bne_iff_ne, ne_eq, Date.isLastDayOfYear, Bool.and_eq_true, beq_iff_eq] at h
    rcases h with h | ⟨hm, hd⟩
    · refine ⟨st.s.y, (contains_iff_ord' st _ (bt _) vs.bounded ve.bounded).mpr ?_⟩
      simp only [Date.ord] at *; omega
    · refine ⟨st.e.y, (contains_iff_ord' st _ (bt _) vs.bounded ve.bounded).mpr ?_⟩
      simp only [Date.ord] at *; omega
  · rintro ⟨y, hy⟩
    have ho := (contains_iff_ord' st _ (bt y) vs.bounded ve.bounded).mp hy
    simp only [endOfYearFires, Bool.or_eq_true, bne_iff_ne, ne_eq, Date.isLastDayOfYear, Bool.and_eq_true, beq_iff_eq]
    by_cases hne : st.s.y = st.e.y
    · right
      simp only [Date.ord] at ho hle; omega
    · left; exact hne

theorem monthlyFires_iff (st : Step) (hwf : stepWF st = true) :
    monthlyFires st = true ↔ ∃ t : Date, t.Valid ∧ t.isLastDayOfMonth = true ∧ st.contains t = true := by
  obtain ⟨vs, ve, hle⟩ := (stepWF_iff st).mp hwf
  obtain ⟨s1, s2, s3, s4⟩ := vs; obtain ⟨e1, e2, e3, e4⟩ := ve
  have vs : st.s.Valid := ⟨s1, s2, s3, s4⟩
  have ve : st.e.Valid := ⟨e1, e2, e3, e4⟩
  have hds := dim_le (isLeap st.s.y) st.s.m
  have hde := dim_le (isLeap st.e.y) st.e.m
  constructor
  · intro h
    simp only [monthlyFires, Bool.or_eq_true, bne_iff_ne, ne_eq] at h
    by_cases hsame : st.s.m = st.e.m ∧ st.s.y = st.e.y
    · have hl : st.e.isLastDayOfMonth = true := by
        rcases h with (h | h) | h
        · exact absurd hsame.1 h
        · exact absurd hsame.2 h
        · exact h
      exact ⟨st.e, ve, hl, (contains_iff_ord st st.e ve vs ve).mpr ⟨hle, Int.le_refl _⟩⟩
    · let t : Date := ⟨st.s.y, st.s.m, dim (isLeap st.s.y) st.s.m⟩
      have hg := dim_ge (isLeap st.s.y) st.s.m s1 s2
      have vt : t.Valid := ⟨s1, s2, by show 1 ≤ dim _ _; omega, Int.le_refl _⟩
      refine ⟨t, vt, by simp [t, Date.isLastDayOfMonth], (contains_iff_ord st t vt vs ve).mpr ?_⟩
      simp only [Date.ord, t] at *
      omega
  · rintro ⟨t, vt, hl, hc⟩
    have ho := (contains_iff_ord st t vt vs ve).mp hc
    obtain ⟨t1, t2, t3, t4⟩ := vt
    have hdt := dim_le (isLeap t.y) t.m
    simp only [Date.isLastDayOfMonth, beq_iff_eq] at hl
    simp only [monthlyFires, Bool.or_eq_true, bne_iff_ne, ne_eq, Date.isLastDayOfMonth, beq_iff_eq]
    by_cases hsame : st.s.m = st.e.m ∧ st.s.y = st.e.y
    · right
      obtain ⟨hm, hy⟩ := hsame
      have hty : t.y = st.e.y ∧ t.m = st.e.m := by
        simp only [Date.ord] at ho hle; omega
      rw [hty.1, hty.2] at hl
      simp only [Date.ord] at ho; omega
    · left
      by_cases hm : st.s.m = st.e.m
      · right; intro hy; exact hsame ⟨hm, hy⟩
      · left; exact hm

/-! ### counting -/

theorem countTrue_nil : countTrue [] = 0 := rfl
theorem countTrue_cons (b : Bool) (l : List Bool) : countTrue (b :: l) = (if b then 1 else 0) + countTrue l := by
  cases b <;> simp [countTrue] <;> omega

theorem countTrue_take_le (l : List Bool) (k : Nat) : countTrue (l.take k) ≤ countTrue l := by
  induction l generalizing k with
  | nil => simp [countTrue]
  | cons b l ih =>
    cases k with
    | zero => simp [countTrue]
    | succ j => simp only [List.take_succ_cons, countTrue_cons]; have := ih j; omega

theorem countTrue_take_succ (l : List Bool) (k : Nat) (hk : k < l.length) :
    countTrue (l.take (k+1)) = countTrue (l.take k) + (if l[k]'hk then 1 else 0) := by
  induction l generalizing k with
  | nil => simp at hk
  | cons b l ih =>
    cases k with
    | zero => simp [countTrue_cons, countTrue_nil]
    | succ j =>
      simp only [List.take_succ_cons, countTrue_cons, List.getElem_cons_succ]
      have := ih j (by simpa using hk)
      omega

theorem countTrue_take_mono (l : List Bool) {j k : Nat} (h : j ≤ k) :
    countTrue (l.take j) ≤ countTrue (l.take k) := by
  have : l.take j = (l.take k).take j := by rw [List.take_take]; congr 1; omega
  rw [this]; exact countTrue_take_le _ _

/-- Every action index below the count is hit by a firing step. -/
theorem countTrue_surj (l : List Bool) (j : Nat) (hj : j < countTrue l) :
    ∃ (i : Nat) (hi : i < l.length), l[i]'hi = true ∧ countTrue (l.take i) = j := by
  induction l generalizing j with
  | nil => simp [countTrue] at hj
  | cons b l ih =>
    rw [countTrue_cons] at hj
    cases b with
    | true =>
      cases j with
      | zero => exact ⟨0, by simp, by simp, by simp [countTrue]⟩
      | succ j' =>
        obtain ⟨i, hi, h1, h2⟩ := ih j' (by simp at hj; omega)
        exact ⟨i + 1, by simp; omega, by simpa using h1, by simp [countTrue_cons, h2]; omega⟩
    | false =>
      obtain ⟨i, hi, h1, h2⟩ := ih j (by simpa using hj)
      exact ⟨i + 1, by simp; omega, by simpa using h1, by simp [countTrue_cons, h2]⟩

end Pops
