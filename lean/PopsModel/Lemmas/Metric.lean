/-
  Lemmas for C18, part 1: bounding boxes, spread rates, averages, statistics.
-/
import PopsModel.Model.MetricSpec
namespace Pops.Metric

/-! ### minima / maxima of integer lists -/

theorem foldl_min_spec (l : List Int) (a : Int) :
    l.foldl min a ≤ a ∧ (∀ x ∈ l, l.foldl min a ≤ x) ∧ (l.foldl min a = a ∨ l.foldl min a ∈ l) := by
  induction l generalizing a with
  | nil => simp
  | cons y ys ih =>
    simp only [List.foldl_cons, List.mem_cons]
    obtain ⟨h1, h2, h3⟩ := ih (min a y)
    refine ⟨by omega, ?_, ?_⟩
    · intro x hx
      rcases hx with rfl | hx
      · omega
      · exact h2 x hx
    · rcases h3 with h | h
      · by_cases hay : a ≤ y
        · left; rw [h]; omega
        · right; left; rw [h]; omega
      · right; right; exact h

theorem foldl_max_spec (l : List Int) (a : Int) :
    a ≤ l.foldl max a ∧ (∀ x ∈ l, x ≤ l.foldl max a) ∧ (l.foldl max a = a ∨ l.foldl max a ∈ l) := by
  induction l generalizing a with
  | nil => simp
  | cons y ys ih =>
    simp only [List.foldl_cons, List.mem_cons]
    obtain ⟨h1, h2, h3⟩ := ih (max a y)
    refine ⟨by omega, ?_, ?_⟩
    · intro x hx
      rcases hx with rfl | hx
      · omega
      · exact h2 x hx
    · rcases h3 with h | h
      · by_cases hay : y ≤ a
        · left; rw [h]; omega
        · right; left; rw [h]; omega
      · right; right; exact h

/-! ### the shared scan -/

/-- The scan of both `infection_boundary` and `quarantine_boundary` over the selected cells. -/
def foldBox (b : Box) (L : List Cell) : Box := L.foldl (fun b c => b.extend c.1 c.2) b

@[simp] theorem foldBox_nil (b : Box) : foldBox b [] = b := rfl
@[simp] theorem foldBox_cons (b : Box) (c : Cell) (L : List Cell) :
    foldBox b (c :: L) = foldBox (b.extend c.1 c.2) L := rfl

theorem foldBox_eq (L : List Cell) (b : Box) :
    foldBox b L = ⟨(L.map (·.1)).foldl min b.n, (L.map (·.1)).foldl max b.s,
                   (L.map (·.2)).foldl max b.e, (L.map (·.2)).foldl min b.w⟩ := by
  induction L generalizing b with
  | nil => rfl
  | cons c cs ih =>
    rw [foldBox_cons, ih]
    simp only [Box.extend, List.map_cons, List.foldl_cons]
    have e1 : (if c.1 < b.n then c.1 else b.n) = min b.n c.1 := by split <;> omega
    have e2 : (if c.1 > b.s then c.1 else b.s) = max b.s c.1 := by split <;> omega
    have e3 : (if c.2 > b.e then c.2 else b.e) = max b.e c.2 := by split <;> omega
    have e4 : (if c.2 < b.w then c.2 else b.w) = min b.w c.2 := by split <;> omega
    rw [e1, e2, e3, e4]

theorem ite_lt_left (a b : Int) (h : a ≤ b) : (if a < b then a else b) = a := by
  by_cases h' : a < b
  · rw [if_pos h']
  · rw [if_neg h']; omega

theorem ite_gt_left (a b : Int) (h : b ≤ a) : (if a > b then a else b) = a := by
  by_cases h' : a > b
  · rw [if_pos h']
  · rw [if_neg h']; omega

def InRange (rows cols : Int) (c : Cell) : Prop := 0 ≤ c.1 ∧ c.1 < rows ∧ 0 ≤ c.2 ∧ c.2 < cols

/-- Started from `(height-1, 0, 0, width-1)`, the scan of a non-empty list of in-range cells
    yields the definitional box. -/
theorem foldBox_init (rows cols : Int) (c : Cell) (cs : List Cell) (hc : InRange rows cols c) :
    some (foldBox (initBox rows cols) (c :: cs)) = specBox (c :: cs) := by
  obtain ⟨h1, h2, h3, h4⟩ := hc
  have e : (initBox rows cols).extend c.1 c.2 = ⟨c.1, c.1, c.2, c.2⟩ := by
    simp only [initBox, Box.extend, Box.mk.injEq]
    exact ⟨ite_lt_left _ _ (by omega), ite_gt_left _ _ (by omega), ite_gt_left _ _ (by omega),
      ite_lt_left _ _ (by omega)⟩
  rw [foldBox_cons, e, foldBox_eq]
  rfl

theorem boundary_fold (inf : IRaster) (cells : List Cell) (b0 : Box) (f0 : Bool) :
    cells.foldl (boundaryStep inf) (b0, f0) =
      (foldBox b0 (infectedCells inf cells), f0 || !(infectedCells inf cells).isEmpty) := by
  induction cells generalizing b0 f0 with
  | nil => simp [infectedCells]
  | cons c cs ih =>
    simp only [List.foldl_cons, infectedCells, List.filter_cons]
    by_cases h : inf.at c.1 c.2 > 0
    · simp only [boundaryStep, h, if_true, decide_true]
      rw [ih]; simp [infectedCells]
    · simp only [boundaryStep, h, if_false, decide_false]
      rw [ih]; simp [infectedCells]

theorem mem_infectedCells {inf : IRaster} {cells : List Cell} {c : Cell} :
    c ∈ infectedCells inf cells ↔ c ∈ cells ∧ inf.at c.1 c.2 > 0 := by
  simp [infectedCells]

/-- The model of `infection_boundary` computes the definitional box (or the sentinel). -/
theorem infectionBoundary_eq_spec (rows cols : Int) (inf : IRaster) (cells : List Cell)
    (hin : ∀ c ∈ cells, InRange rows cols c) :
    infectionBoundary rows cols inf cells = specBoxOr (infectedCells inf cells) := by
  unfold infectionBoundary
  rw [boundary_fold]
  cases hL : infectedCells inf cells with
  | nil => simp [specBoxOr, specBox]
  | cons c cs =>
    have hc : c ∈ infectedCells inf cells := by rw [hL]; simp
    have hr := hin c (mem_infectedCells.mp hc).1
    have := foldBox_init rows cols c cs hr
    simp only [Bool.false_or, List.isEmpty_cons, Bool.not_false, if_true, specBoxOr, ← this, Option.getD_some]

theorem specBox_isBBox (L : List Cell) (b : Box) (h : specBox L = some b) : IsBBox L b := by
  cases L with
  | nil => simp [specBox] at h
  | cons c cs =>
    simp only [specBox, Option.some.injEq] at h
    subst h
    obtain ⟨a1, a2, a3⟩ := foldl_min_spec (cs.map (·.1)) c.1
    obtain ⟨b1, b2, b3⟩ := foldl_max_spec (cs.map (·.1)) c.1
    obtain ⟨c1, c2, c3⟩ := foldl_max_spec (cs.map (·.2)) c.2
    obtain ⟨d1, d2, d3⟩ := foldl_min_spec (cs.map (·.2)) c.2
    have att : ∀ (f : Cell → Int) (v : Int), (v = f c ∨ v ∈ cs.map f) → ∃ x ∈ c :: cs, f x = v := by
      intro f v hv
      rcases hv with hv | hv
      · exact ⟨c, by simp, hv.symm⟩
      · obtain ⟨x, hx, hxe⟩ := List.mem_map.mp hv
        exact ⟨x, by simp [hx], hxe⟩
    have bnd : ∀ (f : Cell → Int) (P : Int → Prop), P (f c) → (∀ v ∈ cs.map f, P v) → ∀ x ∈ c :: cs, P (f x) := by
      intro f P h0 h1 x hx
      rcases List.mem_cons.mp hx with rfl | hx
      · exact h0
      · exact h1 _ (List.mem_map.mpr ⟨x, hx, rfl⟩)
    exact ⟨att (·.1) _ a3, bnd (·.1) (fun v => _ ≤ v) a1 a2, att (·.1) _ b3, bnd (·.1) (fun v => v ≤ _) b1 b2,
           att (·.2) _ c3, bnd (·.2) (fun v => v ≤ _) c1 c2, att (·.2) _ d3, bnd (·.2) (fun v => _ ≤ v) d1 d2⟩

theorem specBox_ne_none {L : List Cell} (h : L ≠ []) : ∃ b, specBox L = some b := by
  cases L with
  | nil => exact absurd rfl h
  | cons c cs => exact ⟨_, rfl⟩

theorem isBBox_unique {L : List Cell} {b b' : Box} (h : IsBBox L b) (h' : IsBBox L b') : b = b' := by
  obtain ⟨x1, hx1, e1⟩ := h.n_att; obtain ⟨y1, hy1, f1⟩ := h'.n_att
  obtain ⟨x2, hx2, e2⟩ := h.s_att; obtain ⟨y2, hy2, f2⟩ := h'.s_att
  obtain ⟨x3, hx3, e3⟩ := h.e_att; obtain ⟨y3, hy3, f3⟩ := h'.e_att
  obtain ⟨x4, hx4, e4⟩ := h.w_att; obtain ⟨y4, hy4, f4⟩ := h'.w_att
  have := h.n_le y1 hy1; have := h'.n_le x1 hx1
  have := h.s_ge y2 hy2; have := h'.s_ge x2 hx2
  have := h.e_ge y3 hy3; have := h'.e_ge x3 hx3
  have := h.w_le y4 hy4; have := h'.w_le x4 hx4
  cases b; cases b'; simp only [Box.mk.injEq] at *; omega

theorem mem_allCells {rows cols : Int} {c : Cell} : c ∈ allCells rows cols ↔ InRange rows cols c := by
  obtain ⟨i, j⟩ := c
  simp only [allCells, List.mem_flatMap, List.mem_range, List.mem_map, Prod.mk.injEq, InRange]
  constructor
  · rintro ⟨a, ha, b, hb, rfl, rfl⟩; omega
  · rintro ⟨h1, h2, h3, h4⟩
    exact ⟨i.toNat, by omega, j.toNat, by omega, by omega, by omega⟩

/-! ### rates -/

theorem intCast_mul_eq_zero {d : Int} {r : Rat} (hr : r ≠ 0) : (d : Rat) * r = 0 ↔ d = 0 := by
  rw [Rat.mul_eq_zero]
  constructor
  · rintro (h | h)
    · exact Rat.intCast_eq_zero_iff.mp h
    · exact absurd h hr
  · intro h; left; exact Rat.intCast_eq_zero_iff.mpr h

theorem edgeRate_eq_spec (d : Int) (r : Rat) (hr : r ≠ 0) (t : Bool) : edgeRate d r t = specRate d r t := by
  unfold edgeRate specRate
  simp only [intCast_mul_eq_zero hr]
  by_cases h1 : d = 0 <;> by_cases h2 : t = true <;> simp [h1, h2]

theorem ratesOf_eq_spec (rows cols : Int) (ns ew : Rat) (hns : ns ≠ 0) (hew : ew ≠ 0) (b1 b2 : Box) :
    ratesOf rows cols ns ew b1 b2 = specRates rows cols ns ew b1 b2 := by
  simp only [ratesOf, specRates, edgeRate_eq_spec _ _ hns, edgeRate_eq_spec _ _ hew]

theorem specRate_none_iff (d : Int) (r : Rat) (t : Bool) : specRate d r t = none ↔ t = true ∧ d = 0 := by
  unfold specRate; split <;> simp_all

/-- Well-formed state with the given configuration. -/
structure SrWF (sr : SpreadRate) (rows cols : Int) (ew ns : Rat) (N : Nat) : Prop where
  h : sr.height = rows
  w : sr.width = cols
  ew : sr.ew = ew
  ns : sr.ns = ns
  bl : sr.boundaries.length = N + 1
  rl : sr.rates.length = N

theorem new_wf (inf : IRaster) (cells : List Cell) (rows cols : Int) (ew ns : Rat) (N : Nat) :
    SrWF (SpreadRate.new inf cells rows cols ew ns N) rows cols ew ns N :=
  ⟨rfl, rfl, rfl, rfl, by simp [SpreadRate.new], by simp [SpreadRate.new]⟩

theorem action_ok {sr : SpreadRate} {rows cols : Int} {ew ns : Rat} {N : Nat}
    (wf : SrWF sr rows cols ew ns N) (cells : List Cell) (m : IRaster) (k : Nat) (hk : k < N)
    (prev : Box) (hp : sr.boundaries[k]? = some prev) :
    ∃ sr', sr.action m cells k = .ok sr' ∧ SrWF sr' rows cols ew ns N ∧
      sr'.boundaries = sr.boundaries.set (k + 1) (infectionBoundary rows cols m cells) ∧
      sr'.rates = sr.rates.set k (measuredRates rows cols ns ew prev (infectionBoundary rows cols m cells)) := by
  have hlt : k + 1 < sr.boundaries.length := by rw [wf.bl]; omega
  refine ⟨_, by simp only [SpreadRate.action, hlt, if_true]; rfl, ?_, ?_, ?_⟩
  · exact ⟨wf.h, wf.w, wf.ew, wf.ns, by simp [wf.bl], by simp [wf.rl]⟩
  · simp [wf.h, wf.w]
  · simp [wf.h, wf.w, wf.ns, wf.ew, hp]

/-- Consecutive measurements: every stored rate compares a measurement with the one before. -/
theorem run_rates (rows cols : Int) (ew ns : Rat) (N : Nat) (cells : List Cell) :
    ∀ (ms : List IRaster) (sr : SpreadRate) (k : Nat) (prev : Box),
      SrWF sr rows cols ew ns N → sr.boundaries[k]? = some prev → k + ms.length ≤ N →
      ∃ sr', SpreadRate.run cells sr ms k = .ok sr' ∧ SrWF sr' rows cols ew ns N ∧
        (∀ j, j < k → sr'.rates[j]? = sr.rates[j]?) ∧
        ∀ (i : Nat) (b1 b2 : Box),
          (prev :: ms.map fun m => infectionBoundary rows cols m cells)[i]? = some b1 →
          (ms.map fun m => infectionBoundary rows cols m cells)[i]? = some b2 →
          sr'.rates[k + i]? = some (measuredRates rows cols ns ew b1 b2) := by
  intro ms
  induction ms with
  | nil =>
    intro sr k prev wf _ _
    exact ⟨sr, rfl, wf, fun _ _ => rfl, by simp⟩
  | cons m ms ih =>
    intro sr k prev wf hp hlen
    simp only [List.length_cons] at hlen
    obtain ⟨sr1, hact, wf1, hb1, hr1⟩ := action_ok wf cells m k (by omega) prev hp
    have hp1 : sr1.boundaries[k + 1]? = some (infectionBoundary rows cols m cells) := by
      rw [hb1, List.getElem?_set_self]; rw [wf.bl]; omega
    obtain ⟨sr', hrun, wf', hkeep, hrates⟩ := ih sr1 (k + 1) _ wf1 hp1 (by omega)
    refine ⟨sr', by simp only [SpreadRate.run, hact]; exact hrun, wf', ?_, ?_⟩
    · intro j hj
      rw [hkeep j (by omega), hr1, List.getElem?_set_ne (by omega)]
    · intro i b1 b2 h1 h2
      cases i with
      | zero =>
        simp only [List.getElem?_cons_zero, Option.some.injEq, List.map_cons] at h1 h2
        subst h1; subst h2
        rw [Nat.add_zero, hkeep k (by omega), hr1, List.getElem?_set_self (by rw [wf.rl]; omega)]
      | succ i =>
        simp only [List.getElem?_cons_succ, List.map_cons] at h1 h2
        have := hrates i b1 b2 h1 h2
        rw [show k + (i + 1) = k + 1 + i by omega]; exact this

/-! ### averages -/

theorem foldl_avgStep (l : List (Option Rat)) (s : Rat) (k : Nat) :
    l.foldl avgStep (s, k) = (s + sumR (l.filterMap id), k + (l.filterMap id).length) := by
  induction l generalizing s k with
  | nil => simp [sumR, Rat.add_zero]
  | cons x xs ih =>
    cases x with
    | none => simpa [avgStep] using ih s k
    | some v =>
      simp only [List.foldl_cons, avgStep, List.filterMap_cons, id, sumR, List.length_cons]
      rw [ih, Rat.add_assoc]
      congr 1; omega

theorem averageOf_eq_meanDefined (l : List (Option Rat)) : averageOf l = meanDefined l := by
  unfold averageOf meanDefined
  rw [foldl_avgStep]
  simp only [Rat.zero_add, Nat.zero_add]

/-! ### sums -/

theorem sumL_filter_of_zero (f : Cell → Int) (p : Cell → Bool) (l : List Cell)
    (h : ∀ c ∈ l, p c = false → f c = 0) : sumL ((l.filter p).map f) = sumL (l.map f) := by
  induction l with
  | nil => rfl
  | cons c cs ih =>
    have ih' := ih (fun x hx => h x (by simp [hx]))
    by_cases hp : p c = true
    · simp [hp, ih']
    · have := h c (by simp) (by simpa using hp)
      simp [hp, ih', this]

theorem countP_filter_of_false (q p : Cell → Bool) (l : List Cell)
    (h : ∀ c ∈ l, p c = false → q c = false) : (l.filter p).countP q = l.countP q := by
  induction l with
  | nil => rfl
  | cons c cs ih =>
    have ih' := ih (fun x hx => h x (by simp [hx]))
    by_cases hp : p c = true
    · simp [hp, List.countP_cons, ih']
    · have := h c (by simp) (by simpa using hp)
      simp [hp, ih', this]

/-! ### the index double loop visits the row-major data once -/

theorem row_take (C : Nat) (l : List Int) (h : C ≤ l.length) :
    (List.range C).map (fun j => l.getD j 0) = l.take C := by
  apply List.ext_getElem?
  intro k
  by_cases hk : k < C
  · have hk2 : k < l.length := by omega
    simp [hk, List.getD_eq_getElem?_getD, List.getElem?_eq_getElem hk2]
  · simp [hk, List.getElem?_take]

theorem flat_rows (C : Nat) : ∀ (R : Nat) (data : List Int), data.length = R * C →
    (List.range R).flatMap (fun i => (List.range C).map (fun j => data.getD (i * C + j) 0)) = data := by
  intro R
  induction R with
  | zero => intro data h; simp at h; simp [h]
  | succ R ih =>
    intro data h
    rw [List.range_succ_eq_map, List.flatMap_cons, List.flatMap_map]
    have hlen : C ≤ data.length := by rw [h, Nat.succ_mul]; omega
    have h1 : (List.range C).map (fun j => data.getD (0 * C + j) 0) = data.take C := by
      simp only [Nat.zero_mul, Nat.zero_add]; exact row_take C data hlen
    have h2 : (List.range R).flatMap (fun i => (List.range C).map (fun j => data.getD ((i + 1) * C + j) 0)) = data.drop C := by
      have := ih (data.drop C) (by rw [List.length_drop, h, Nat.succ_mul]; omega)
      rw [← this]
      congr 1; funext i; congr 1; funext j
      simp only [List.getD_eq_getElem?_getD, List.getElem?_drop]
      congr 2; rw [Nat.succ_mul]; omega
    simp only [Nat.succ_eq_add_one]
    rw [h1, h2, List.take_append_drop]

theorem map_at_allCells (r : IRaster) (hc : 0 ≤ r.cols)
    (hlen : r.data.length = r.rows.toNat * r.cols.toNat) :
    (allCells r.rows r.cols).map (fun c => r.at c.1 c.2) = r.data := by
  unfold allCells
  rw [List.map_flatMap]
  have := flat_rows r.cols.toNat r.rows.toNat r.data hlen
  rw [← this]
  congr 1; funext i
  rw [List.map_map]
  congr 1; funext j
  simp only [Function.comp, IRaster.at]
  congr 1
  have hC : r.cols = (r.cols.toNat : Int) := by omega
  generalize r.cols.toNat = C at hC ⊢
  rw [hC]
  have : ((i : Int) * (C : Int) + (j : Int)) = ((i * C + j : Nat) : Int) := by simp
  rw [this, Int.toNat_natCast]
end Pops.Metric
