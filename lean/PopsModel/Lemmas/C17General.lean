/-
  Lemmas for Props/C17General.lean (prefix `over_` / `suitm_`).
-/
import PopsModel.Model.OverpopSpec
import PopsModel.Lemmas.Actions
namespace Pops

/-! ### departures -/

theorem over_pstate_eta (p : PestState) : { p with outside := p.outside ++ [] } = p := by
  cases p; simp

theorem over_departing_cons_false (g : Grid) (thr : Rat) (rc : Int × Int) (rest : List (Int × Int))
    (cells : List Cell) (h : ¬ departs thr (cells[g.idx rc.1 rc.2]!) = true) :
    overDeparting g thr (rc :: rest) cells = overDeparting g thr rest cells := by
  simp only [overDeparting, List.filter_cons, h, if_false, Bool.false_eq_true]

theorem over_departing_cons_true (g : Grid) (thr : Rat) (rc : Int × Int) (rest : List (Int × Int))
    (cells : List Cell) (h : departs thr (cells[g.idx rc.1 rc.2]!) = true) :
    overDeparting g thr (rc :: rest) cells = rc :: overDeparting g thr rest cells := by
  simp only [overDeparting, List.filter_cons, h, if_true]

/-- The first phase as a function of a reference landscape `cells0` that agrees with the current
    one on every suitable cell still to be visited. -/
theorem over_departGo_ref (g : Grid) (thr leaving : Rat) (cells0 : List Cell) :
    ∀ (suit : List (Int × Int)) (cells : List Cell) (p : PestState) (ts : List (Int × Int))
      (moves0 : List (Int × Int × Int)),
      (suit.map fun rc => g.idx rc.1 rc.2).Nodup →
      (∀ rc ∈ suit, cells[g.idx rc.1 rc.2]! = cells0[g.idx rc.1 rc.2]!) →
      departGo g thr leaving suit cells p ts moves0 =
        (overDepartedFrom g leaving cells0 cells (overPairs g thr suit cells0 ts),
         { p with outside := p.outside ++ overOutside g leaving cells0 (overPairs g thr suit cells0 ts) },
         ts.drop (overPairs g thr suit cells0 ts).length,
         moves0 ++ overPending g leaving cells0 (overPairs g thr suit cells0 ts)) := by
  intro suit
  induction suit with
  | nil =>
    intro cells p ts moves0 _ _
    rw [act_departGo_nil]
    simp [overPairs, overDeparting, overDepartedFrom, overOutside, overPending]
  | cons rc rest ih =>
    intro cells p ts moves0 hnd hag
    obtain ⟨r, c⟩ := rc
    have hk : cells[g.idx r c]! = cells0[g.idx r c]! := hag (r, c) List.mem_cons_self
    rw [List.map_cons, List.nodup_cons] at hnd
    have hag' : ∀ v : Cell, ∀ rc ∈ rest,
        (cells.set (g.idx r c) v)[g.idx rc.1 rc.2]! = cells0[g.idx rc.1 rc.2]! := by
      intro v rc hrc
      have hne : g.idx rc.1 rc.2 ≠ g.idx r c := by
        intro he
        exact hnd.1 (he ▸ List.mem_map.mpr ⟨rc, hrc, rfl⟩)
      rw [act_getElem!_set_ne _ _ hne]
      exact hag rc (List.mem_cons_of_mem _ hrc)
    by_cases hd : departs thr (cells[g.idx r c]!) = true
    · have hd0 : departs thr (cells0[g.idx (r, c).1 (r, c).2]!) = true := by rw [← hk]; exact hd
      cases ts with
      | nil =>
        rw [act_departGo_exhausted _ _ _ _ _ _ _ _ _ hd]
        simp [overPairs, overDepartedFrom, overOutside, overPending]
      | cons t ts' =>
        obtain ⟨tr, tc⟩ := t
        have hp : overPairs g thr ((r, c) :: rest) cells0 ((tr, tc) :: ts') =
            ((r, c), (tr, tc)) :: overPairs g thr rest cells0 ts' := by
          unfold overPairs
          rw [over_departing_cons_true g thr (r, c) rest cells0 hd0, List.zip_cons_cons]
        rw [hp]
        cases ho : g.isOutside tr tc with
        | true =>
          rw [act_departGo_out _ _ _ _ _ _ _ _ _ _ _ _ hd ho, ih _ _ _ _ hnd.2 (hag' _), hk]
          simp only [overDepartedFrom, List.foldl_cons, overSourceAfter, overOutside, List.flatMap_cons,
            ho, if_true, overLeaving, List.append_assoc, overPending, List.filterMap_cons,
            List.length_cons, List.drop_succ_cons]
        | false =>
          rw [act_departGo_in _ _ _ _ _ _ _ _ _ _ _ _ hd ho, ih _ _ _ _ hnd.2 (hag' _), hk]
          simp only [overDepartedFrom, List.foldl_cons, overSourceAfter, overOutside, List.flatMap_cons,
            ho, if_false, Bool.false_eq_true, overLeaving, List.nil_append, List.append_assoc, overPending,
            List.filterMap_cons, List.length_cons, List.drop_succ_cons, List.singleton_append]
    · have hd0 : ¬ departs thr (cells0[g.idx (r, c).1 (r, c).2]!) = true := by rw [← hk]; exact hd
      rw [act_departGo_stay _ _ _ _ _ _ _ _ _ _ hd]
      have hp : overPairs g thr ((r, c) :: rest) cells0 ts = overPairs g thr rest cells0 ts := by
        unfold overPairs
        rw [over_departing_cons_false g thr (r, c) rest cells0 hd0]
      rw [hp]
      exact ih cells p ts moves0 hnd.2 (fun rc hrc => hag rc (List.mem_cons_of_mem _ hrc))

/-- Pointwise description of `overDepartedFrom` for pairs with distinct sources inside the raster. -/
theorem over_departedFrom_get (g : Grid) (leaving : Rat) (ref : List Cell) :
    ∀ (pairs : List ((Int × Int) × (Int × Int))) (base : List Cell),
      (pairs.map fun pr => g.idx pr.1.1 pr.1.2).Nodup →
      (∀ pr ∈ pairs, g.idx pr.1.1 pr.1.2 < base.length) →
      (overDepartedFrom g leaving ref base pairs).length = base.length ∧
      (∀ pr ∈ pairs, (overDepartedFrom g leaving ref base pairs)[g.idx pr.1.1 pr.1.2]! =
          overSourceAfter g leaving ref pr.1) ∧
      (∀ k : Nat, (∀ pr ∈ pairs, g.idx pr.1.1 pr.1.2 ≠ k) →
          (overDepartedFrom g leaving ref base pairs)[k]! = base[k]!) := by
  intro pairs
  induction pairs with
  | nil =>
    intro base _ _
    exact ⟨rfl, fun pr h => absurd h List.not_mem_nil, fun k _ => rfl⟩
  | cons pr rest ih =>
    intro base hnd hlt
    rw [List.map_cons, List.nodup_cons] at hnd
    have hlt0 := hlt pr List.mem_cons_self
    have hrest : ∀ q ∈ rest, g.idx q.1.1 q.1.2 <
        (base.set (g.idx pr.1.1 pr.1.2) (overSourceAfter g leaving ref pr.1)).length := by
      intro q hq; rw [List.length_set]; exact hlt q (List.mem_cons_of_mem _ hq)
    obtain ⟨a1, a2, a3⟩ := ih (base.set (g.idx pr.1.1 pr.1.2) (overSourceAfter g leaving ref pr.1)) hnd.2 hrest
    have hunf : overDepartedFrom g leaving ref base (pr :: rest) =
        overDepartedFrom g leaving ref (base.set (g.idx pr.1.1 pr.1.2) (overSourceAfter g leaving ref pr.1)) rest := rfl
    rw [hunf]
    refine ⟨by rw [a1, List.length_set], ?_, ?_⟩
    · intro q hq
      rcases List.mem_cons.mp hq with rfl | hq
      · rw [a3 _ (fun q' hq' he => hnd.1 (List.mem_map.mpr ⟨q', hq', he⟩))]
        exact act_getElem!_set_self _ _ hlt0
      · exact a2 q hq
    · intro k hk
      rw [a3 k (fun q hq => hk q (List.mem_cons_of_mem _ hq))]
      exact act_getElem!_set_ne _ _ (Ne.symm (hk pr List.mem_cons_self))

theorem over_zip_fst {α β : Type} : ∀ (a : List α) (b : List β), (List.zip a b).map (·.1) = a.take b.length
  | [], _ => by simp
  | _ :: _, [] => by simp
  | x :: xs, y :: ys => by
    simp only [List.zip_cons_cons, List.map_cons, List.length_cons, List.take_succ_cons]
    rw [over_zip_fst xs ys]

theorem over_zip_snd {α β : Type} : ∀ (a : List α) (b : List β), (List.zip a b).map (·.2) = b.take a.length
  | [], _ => by simp
  | _ :: _, [] => by simp
  | x :: xs, y :: ys => by
    simp only [List.zip_cons_cons, List.map_cons, List.length_cons, List.take_succ_cons]
    rw [over_zip_snd xs ys]

theorem over_pairs_sub (g : Grid) (thr : Rat) (suit : List (Int × Int)) (cells : List Cell)
    (ts : List (Int × Int)) :
    ((overPairs g thr suit cells ts).map (·.1)).Sublist suit := by
  unfold overPairs
  rw [over_zip_fst]
  exact (List.take_sublist _ _).trans List.filter_sublist

/-- Inside the raster the flat index determines the cell. -/
theorem over_idx_inj (g : Grid) (r c r' c' : Int) (h : g.isOutside r c = false) (h' : g.isOutside r' c' = false)
    (he : g.idx r c = g.idx r' c') : (r, c) = (r', c') := by
  simp only [Grid.isOutside, Bool.or_eq_false_iff, decide_eq_false_iff_not, Int.not_lt, ge_iff_le,
    Int.not_le] at h h'
  obtain ⟨⟨⟨a1, a2⟩, a3⟩, a4⟩ := h
  obtain ⟨⟨⟨b1, b2⟩, b3⟩, b4⟩ := h'
  have hn : 0 ≤ g.cols := by omega
  have p1 : 0 ≤ r * g.cols := Int.mul_nonneg a1 hn
  have p2 : 0 ≤ r' * g.cols := Int.mul_nonneg b1 hn
  have e : r * g.cols + c = r' * g.cols + c' := by
    unfold Grid.idx at he
    omega
  have hne : g.cols ≠ 0 := by omega
  have m1 : (r * g.cols + c) % g.cols = c := by
    rw [Int.add_comm, Int.add_mul_emod_self_right, Int.emod_eq_of_lt a3 a4]
  have m2 : (r' * g.cols + c') % g.cols = c' := by
    rw [Int.add_comm, Int.add_mul_emod_self_right, Int.emod_eq_of_lt b3 b4]
  have d1 : (r * g.cols + c) / g.cols = r := by
    rw [Int.add_comm, Int.add_mul_ediv_right _ _ hne, Int.ediv_eq_zero_of_lt a3 a4]; omega
  have d2 : (r' * g.cols + c') / g.cols = r' := by
    rw [Int.add_comm, Int.add_mul_ediv_right _ _ hne, Int.ediv_eq_zero_of_lt b3 b4]; omega
  rw [e] at m1 d1
  have hc : c = c' := by rw [← m1, m2]
  have hr : r = r' := by rw [← d1, d2]
  rw [hc, hr]

/-- A duplicate-free list of cells inside the raster has duplicate-free flat indices. -/
theorem over_idx_nodup_of_inside (g : Grid) (suit : List (Int × Int)) (hnd : suit.Nodup)
    (hin : ∀ rc ∈ suit, g.isOutside rc.1 rc.2 = false) :
    (suit.map fun rc => g.idx rc.1 rc.2).Nodup := by
  induction suit with
  | nil => exact List.nodup_nil
  | cons rc rest ih =>
    rw [List.nodup_cons] at hnd
    rw [List.map_cons, List.nodup_cons]
    refine ⟨?_, ih hnd.2 (fun q hq => hin q (List.mem_cons_of_mem _ hq))⟩
    intro hm
    obtain ⟨q, hq, he⟩ := List.mem_map.mp hm
    have := over_idx_inj g q.1 q.2 rc.1 rc.2 (hin q (List.mem_cons_of_mem _ hq)) (hin rc List.mem_cons_self) he
    have hqe : q = rc := this
    exact hnd.1 (hqe ▸ hq)

theorem over_mem_pairs (g : Grid) (thr : Rat) (suit : List (Int × Int)) (cells : List Cell)
    (ts : List (Int × Int)) (pr : (Int × Int) × (Int × Int)) (h : pr ∈ overPairs g thr suit cells ts) :
    pr.1 ∈ suit ∧ departs thr (cells[g.idx pr.1.1 pr.1.2]!) = true ∧ pr.2 ∈ ts := by
  unfold overPairs at h
  have h1 := (List.of_mem_zip h).1
  have h2 := (List.of_mem_zip h).2
  unfold overDeparting at h1
  rw [List.mem_filter] at h1
  exact ⟨h1.1, h1.2, h2⟩

theorem over_pairs_idx_nodup (g : Grid) (thr : Rat) (suit : List (Int × Int)) (cells : List Cell)
    (ts : List (Int × Int)) (hnd : (suit.map fun rc => g.idx rc.1 rc.2).Nodup) :
    ((overPairs g thr suit cells ts).map fun pr => g.idx pr.1.1 pr.1.2).Nodup := by
  have hs := over_pairs_sub g thr suit cells ts
  have hm : ((overPairs g thr suit cells ts).map fun pr => g.idx pr.1.1 pr.1.2) =
      (((overPairs g thr suit cells ts).map (·.1)).map fun rc => g.idx rc.1 rc.2) := by
    rw [List.map_map]; rfl
  rw [hm]
  exact (hs.map _).nodup hnd

/-! ### suitable-cell list under host moves -/

theorem suitm_after_cases (suit : List Nat) (l : Land) (b : Nat) :
    suitAfterMove suit l b = suit ∨
    (suitAfterMove suit l b = suit ++ [b] ∧ b ∉ suit ∧ ∃ dst, l[b]? = some dst ∧ dst.th = 0) := by
  unfold suitAfterMove
  cases hb : l[b]? with
  | none => exact Or.inl rfl
  | some dst =>
    by_cases hc : dst.th = 0 ∧ b ∉ suit
    · exact Or.inr ⟨by simp only [hc, and_self, not_false_eq_true, if_true], hc.2, dst, rfl, hc.1⟩
    · exact Or.inl (by simp only [hc, if_false])

theorem suitm_after_prefix (suit : List Nat) (l : Land) (b : Nat) : suit <+: suitAfterMove suit l b := by
  rcases suitm_after_cases suit l b with h | ⟨h, _⟩
  · rw [h]; exact List.prefix_refl _
  · rw [h]; exact List.prefix_append _ _

theorem suitm_after_nodup (suit : List Nat) (l : Land) (b : Nat) (h : suit.Nodup) :
    (suitAfterMove suit l b).Nodup := by
  rcases suitm_after_cases suit l b with h' | ⟨h', hb, _⟩
  · rw [h']; exact h
  · rw [h']
    exact List.nodup_append.mpr ⟨h, List.nodup_cons.mpr ⟨List.not_mem_nil, List.nodup_nil⟩, fun x hx y hy => by
      rw [List.mem_singleton] at hy; subst hy; intro he; subst he; exact hb hx⟩

/-- The destination is on the list afterwards as soon as it was listed or had no hosts. -/
theorem suitm_after_dest (suit : List Nat) (l : Land) (b : Nat) (dst : Cell) (hb : l[b]? = some dst)
    (h : dst.th ≠ 0 → b ∈ suit) : b ∈ suitAfterMove suit l b := by
  unfold suitAfterMove
  rw [hb]
  by_cases hm : b ∈ suit
  · simp only [hm, not_true_eq_false, and_false, if_false]
  · have h0 : dst.th = 0 := Classical.byContradiction fun hne => hm (h hne)
    simp only [h0, hm, not_false_eq_true, and_self, if_true, List.mem_append, List.mem_singleton, or_true]

/-- Under the covering invariant a move inserts its destination iff it was absent. -/
theorem suitm_after_eq_insert (suit : List Nat) (l : Land) (b : Nat) (hcov : SuitCovers l suit)
    (hb : b < l.length) : suitAfterMove suit l b = insertIfAbsent suit b := by
  unfold suitAfterMove insertIfAbsent
  rw [List.getElem?_eq_getElem hb]
  by_cases hm : b ∈ suit
  · simp only [hm, not_true_eq_false, and_false, if_false, if_true]
  · have h0 : (l[b]).th = 0 :=
      Classical.byContradiction fun hne => hm (hcov b l[b] (List.getElem?_eq_getElem hb) hne)
    simp only [h0, hm, not_false_eq_true, and_self, if_true, if_false]

theorem suitm_after_out (suit : List Nat) (l : Land) (b : Nat) (hb : l.length ≤ b) :
    suitAfterMove suit l b = suit := by
  unfold suitAfterMove
  rw [List.getElem?_eq_none hb]

theorem suitm_move_length (a b : Nat) (count : Int) (d : ClassDraw) (dE dM : List Int) (l l' : Land)
    (h : (LandOp.move a b count d dE dM).apply l = .ok l') : l'.length = l.length := by
  unfold LandOp.apply at h
  by_cases hab : a = b
  · simp only [hab, if_true, Except.ok.injEq] at h; rw [← h]
  · simp only [hab, if_false] at h
    cases ha : l[a]? with
    | none => rw [ha] at h; simp only [Except.ok.injEq] at h; rw [← h]
    | some src =>
      cases hb : l[b]? with
      | none => rw [ha, hb] at h; simp only [Except.ok.injEq] at h; rw [← h]
      | some dst =>
        rw [ha, hb] at h; simp only [Except.ok.injEq] at h
        rw [← h, List.length_set, List.length_set]

theorem suitm_move_total (a b : Nat) (count : Int) (d : ClassDraw) (dE dM : List Int) (l : Land) :
    ∃ l', (LandOp.move a b count d dE dM).apply l = .ok l' := by
  unfold LandOp.apply
  by_cases hab : a = b
  · exact ⟨l, by simp only [hab, if_true]⟩
  · simp only [hab, if_false]
    cases l[a]? with
    | none => exact ⟨_, rfl⟩
    | some src =>
      cases l[b]? with
      | none => exact ⟨_, rfl⟩
      | some dst => exact ⟨_, rfl⟩

/-- One move keeps the covering invariant. -/
theorem suitm_move_covers (a b : Nat) (count : Int) (d : ClassDraw) (dE dM : List Int) (l l' : Land)
    (suit : List Nat) (hcov : SuitCovers l suit) (hc : ∀ src, l[a]? = some src → 0 ≤ count)
    (h : (LandOp.move a b count d dE dM).apply l = .ok l') :
    SuitCovers l' (suitAfterMove suit l b) := by
  have hsub : ∀ k, k ∈ suit → k ∈ suitAfterMove suit l b := fun k hk =>
    (suitm_after_prefix suit l b).subset hk
  unfold LandOp.apply at h
  by_cases hab : a = b
  · simp only [hab, if_true, Except.ok.injEq] at h; subst h
    exact fun k c hk hth => hsub k (hcov k c hk hth)
  · simp only [hab, if_false] at h
    cases ha : l[a]? with
    | none =>
      rw [ha] at h; simp only [Except.ok.injEq] at h; subst h
      exact fun k c hk hth => hsub k (hcov k c hk hth)
    | some src =>
      cases hb : l[b]? with
      | none =>
        rw [ha, hb] at h; simp only [Except.ok.injEq] at h; subst h
        exact fun k c hk hth => hsub k (hcov k c hk hth)
      | some dst =>
        rw [ha, hb] at h; simp only [Except.ok.injEq] at h
        subst h
        intro k c hk hth
        by_cases hkb : k = b
        · subst hkb
          exact suitm_after_dest suit l k dst hb (hcov k dst hb)
        · rw [List.getElem?_set_ne (Ne.symm hkb)] at hk
          by_cases hka : k = a
          · subst hka
            have hlt : k < l.length := (List.getElem?_eq_some_iff.mp ha).1
            rw [List.getElem?_set_self hlt, Option.some.injEq] at hk
            subst hk
            apply hsub
            apply hcov k src ha
            intro h0
            apply hth
            have hcnt := hc src ha
            simp only [moveHosts, hostsMoved, h0]
            by_cases hgt : count > 0
            · simp only [hgt, if_true]; omega
            · simp only [hgt, if_false]; omega
          · rw [List.getElem?_set_ne (Ne.symm hka)] at hk
            exact hsub k (hcov k c hk hth)

theorem suitm_nonneg_of_forall (rows : List MoveRow) (h : ∀ row ∈ rows, 0 ≤ row.2.2.1) :
    ∀ l, MovesNonNegAlong rows l := by
  induction rows with
  | nil => intro l; trivial
  | cons row rest ih =>
    intro l
    exact ⟨fun _ _ => h row List.mem_cons_self, fun l' _ => ih (fun r hr => h r (List.mem_cons_of_mem _ hr)) l'⟩

theorem suitm_nonneg_of_domain (rows : List MoveRow) :
    ∀ l, DomainAlong (rows.map moveOp) l → MovesNonNegAlong rows l := by
  induction rows with
  | nil => intro l _; trivial
  | cons row rest ih =>
    intro l hd
    rw [List.map_cons] at hd
    refine ⟨fun src hs => ?_, fun l' hl' => ih l' (hd.2 l' hl')⟩
    have := hd.1
    exact (this src hs).1

theorem suitm_insert_prefix (s : List Nat) (b : Nat) : s <+: insertIfAbsent s b := by
  unfold insertIfAbsent
  by_cases h : b ∈ s
  · simp only [h, if_true]; exact List.prefix_refl _
  · simp only [h, if_false]; exact List.prefix_append _ _

/-- A sequence of moves: invariant, no duplicates, prefix, destinations listed, closed form. -/
theorem suitm_moves_facts (rows : List MoveRow) :
    ∀ (l l' : Land) (suit : List Nat), SuitCovers l suit → MovesNonNegAlong rows l →
      runOps (rows.map moveOp) l = .ok l' →
      l'.length = l.length ∧
      SuitCovers l' (suitAlongMoves rows l suit) ∧
      (suit.Nodup → (suitAlongMoves rows l suit).Nodup) ∧
      suit <+: suitAlongMoves rows l suit ∧
      (∀ row ∈ rows, row.2.1 < l.length → row.2.1 ∈ suitAlongMoves rows l suit) ∧
      ((∀ row ∈ rows, row.2.1 < l.length) →
        suitAlongMoves rows l suit = (rows.map (·.2.1)).foldl insertIfAbsent suit) := by
  induction rows with
  | nil =>
    intro l l' suit hcov _ h
    simp only [List.map_nil, runOps, Except.ok.injEq] at h
    subst h
    exact ⟨rfl, hcov, fun hn => hn, List.prefix_refl _, fun r hr => absurd hr List.not_mem_nil, fun _ => rfl⟩
  | cons row rest ih =>
    intro l l' suit hcov hnn h
    obtain ⟨m, hm⟩ := suitm_move_total row.1 row.2.1 row.2.2.1 row.2.2.2.1 row.2.2.2.2.1 row.2.2.2.2.2 l
    have hm' : (moveOp row).apply l = .ok m := hm
    have hrun : runOps (rest.map moveOp) m = .ok l' := by
      simp only [List.map_cons, runOps, bind, Except.bind, hm'] at h
      exact h
    have hlen := suitm_move_length _ _ _ _ _ _ l m hm
    have hcov' := suitm_move_covers _ _ _ _ _ _ l m suit hcov hnn.1 hm
    obtain ⟨b1, b2, b3, b4, b5, b6⟩ := ih m l' (suitAfterMove suit l row.2.1) hcov' (hnn.2 m hm') hrun
    have hunf : suitAlongMoves (row :: rest) l suit = suitAlongMoves rest m (suitAfterMove suit l row.2.1) := by
      simp only [suitAlongMoves, hm']
    rw [hunf]
    refine ⟨by rw [b1, hlen], b2, fun hn => b3 (suitm_after_nodup suit l _ hn),
      (suitm_after_prefix suit l _).trans b4, ?_, ?_⟩
    · intro r hr hlt
      rcases List.mem_cons.mp hr with rfl | hr
      · apply b4.subset
        obtain ⟨dst, hdst⟩ : ∃ dst, l[r.2.1]? = some dst := ⟨_, List.getElem?_eq_getElem hlt⟩
        exact suitm_after_dest suit l _ dst hdst (hcov _ dst hdst)
      · exact b5 r hr (by rw [hlen]; exact hlt)
    · intro hall
      rw [b6 (fun r hr => by rw [hlen]; exact hall r (List.mem_cons_of_mem _ hr)),
        suitm_after_eq_insert suit l _ hcov (hall row List.mem_cons_self)]
      rfl

theorem suitm_after_range (suit : List Nat) (l : Land) (b : Nat) (h : ∀ k ∈ suit, k < l.length) :
    ∀ k ∈ suitAfterMove suit l b, k < l.length := by
  rcases suitm_after_cases suit l b with h' | ⟨h', _, dst, hb, _⟩
  · rw [h']; exact h
  · rw [h']
    intro k hk
    rcases List.mem_append.mp hk with hk | hk
    · exact h k hk
    · rw [List.mem_singleton] at hk; subst hk
      exact (List.getElem?_eq_some_iff.mp hb).1

/-- Every entry of the list stays a cell of the raster. -/
theorem suitm_moves_range (rows : List MoveRow) :
    ∀ (l : Land) (suit : List Nat), (∀ k ∈ suit, k < l.length) →
      ∀ k ∈ suitAlongMoves rows l suit, k < l.length := by
  induction rows with
  | nil => intro l suit h; exact h
  | cons row rest ih =>
    intro l suit hr
    obtain ⟨m, hm⟩ := suitm_move_total row.1 row.2.1 row.2.2.1 row.2.2.2.1 row.2.2.2.2.1 row.2.2.2.2.2 l
    have hm' : (moveOp row).apply l = .ok m := hm
    have hlen := suitm_move_length _ _ _ _ _ _ l m hm
    have hunf : suitAlongMoves (row :: rest) l suit = suitAlongMoves rest m (suitAfterMove suit l row.2.1) := by
      simp only [suitAlongMoves, hm']
    rw [hunf, ← hlen]
    apply ih m
    rw [hlen]
    exact suitm_after_range suit l _ hr

end Pops
