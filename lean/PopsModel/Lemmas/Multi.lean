/-
  Lemmas for C16 (several hosts), part 1: landing (`multiDisperserTo`), the single-host
  comparison, sums, pests leaving / arriving, mortality.
-/
import PopsModel.Model.MultiPred
namespace Pops

/-! ### list helpers -/

theorem mh_set_getElem!_self (l : List Cell) (h : Nat) : l.set h (l[h]!) = l := by
  induction l generalizing h with
  | nil => simp
  | cons x xs ih =>
    cases h with
    | zero => simp
    | succ k =>
      have : (x :: xs)[k + 1]! = xs[k]! := by simp
      rw [this, List.set_cons_succ, ih]

theorem mh_getElem!_set_self (l : List Cell) (h : Nat) (x : Cell) (hh : h < l.length) :
    (l.set h x)[h]! = x := by
  induction l generalizing h with
  | nil => simp at hh
  | cons y ys ih =>
    cases h with
    | zero => simp
    | succ k =>
      have hk : k < ys.length := by simpa using hh
      have : (y :: ys.set k x)[k + 1]! = (ys.set k x)[k]! := by simp
      rw [List.set_cons_succ, this, ih k hk]

/-! ### one host: establishment -/

/-- The cell after one successful landing. -/
def landed (mt : ModelType) (c : Cell) : Cell :=
  match mt with
  | .si => { c with s := c.s - 1, i := c.i + 1, mort := addLast c.mort 1 }
  | .sei => { c with s := c.s - 1, e := addLast c.e 1, te := c.te + 1 }

theorem mh_add_pos (mt : ModelType) (c : Cell) (hs : 0 < c.s) : c.addDisperserAt mt = (landed mt c, 1) := by
  have : ¬ c.s ≤ 0 := by omega
  unfold Cell.addDisperserAt landed
  cases mt <;> simp [this]

theorem mh_add_nonpos (mt : ModelType) (c : Cell) (hs : c.s ≤ 0) : c.addDisperserAt mt = (c, 0) := by
  unfold Cell.addDisperserAt; simp [hs]

theorem mh_landingSpec_landed (mt : ModelType) (c : Cell) : landingSpec mt c (landed mt c) 1 = true := by
  cases mt <;> simp [landingSpec, landed]

theorem mh_landingSpec_zero (mt : ModelType) (c : Cell) : landingSpec mt c c 0 = true := by
  simp [landingSpec]

theorem mh_dispTo_nonpos (mt : ModelType) (c : Cell) (env : EnvCell) (sto : Bool) (pEst u : Rat)
    (hs : c.s ≤ 0) : c.disperserTo mt env sto pEst u = .ok (c, 0, 0) := by
  unfold Cell.disperserTo; simp only [hs, if_true]

theorem mh_dispTo_pos (mt : ModelType) (c : Cell) (env : EnvCell) (sto : Bool) (pEst u p : Rat)
    (hs : 0 < c.s) (hp : c.suitability env = .ok p) :
    c.disperserTo mt env sto pEst u =
      .ok (if canEstablish p sto pEst u then (landed mt c, 1, if sto then 1 else 0)
           else (c, 0, if sto then 1 else 0)) := by
  have : ¬ c.s ≤ 0 := by omega
  unfold Cell.disperserTo
  simp only [this, if_false, hp, mh_add_pos mt c hs]
  simp only [bind, Except.bind]
  split <;> rfl

theorem mh_dispTo_err (mt : ModelType) (c : Cell) (env : EnvCell) (sto : Bool) (pEst u : Rat) (e : ErrKind)
    (hs : 0 < c.s) (hp : c.suitability env = .error e) :
    c.disperserTo mt env sto pEst u = .error e := by
  have : ¬ c.s ≤ 0 := by omega
  unfold Cell.disperserTo
  simp only [this, if_false, hp]
  rfl

/-- The value behind a successful `suitability_at`. -/
theorem mh_suitability_ok (c : Cell) (env : EnvCell) (p : Rat) (hp : c.suitability env = .ok p) :
    p = (c.s : Rat) / (env.n : Rat) * env.sus.getD 1 * env.w.getD 1 ∧ 0 ≤ p ∧ p ≤ 1 := by
  unfold Cell.suitability at hp
  simp only at hp
  split at hp
  · cases hp
  · rename_i h
    simp only [Except.ok.injEq] at hp
    subst hp
    refine ⟨rfl, ?_, ?_⟩ <;> grind

theorem mh_suitability_zero_s (c : Cell) (env : EnvCell) (hs : c.s = 0) : c.suitability env = .ok 0 := by
  unfold Cell.suitability
  simp [hs, Rat.div_def, Rat.zero_mul]
  decide

/-! ### the land / infect branches -/

theorem mh_landOn_cases (cfg : MultiCfg) (mt : ModelType) (cells : List Cell) (total : Rat) (h d0 : Nat) (u : Rat) :
    landOn cfg mt cells total h d0 u =
      if (cells[h]!).s ≤ 0 then (cells, 0, d0)
      else if canEstablish total cfg.sto cfg.pEst u then
        (cells.set h (landed mt (cells[h]!)), 1, d0 + if cfg.sto then 1 else 0)
      else (cells, 0, d0 + if cfg.sto then 1 else 0) := by
  unfold landOn
  by_cases hs : (cells[h]!).s ≤ 0
  · simp only [hs, if_true]
  · have hpos : 0 < (cells[h]!).s := by omega
    simp only [hs, if_false, mh_add_pos mt _ hpos]

theorem mh_infectOn_ok (p : HostParams) (env : MEnv) (cells : List Cell) (h d0 : Nat) (u : Rat) (e : EnvCell)
    (he : env.cellEnv h = .ok e) :
    infectOn p env cells h d0 u =
      match (cells[h]!).disperserTo p.mt e p.sto p.pEst u with
      | .ok (c', k, n) => .ok (cells.set h c', k, d0 + n)
      | .error x => .error x := by
  unfold infectOn
  simp only [he, bind, Except.bind]
  cases (cells[h]!).disperserTo p.mt e p.sto p.pEst u with
  | error x => rfl
  | ok r => obtain ⟨c', k, n⟩ := r; rfl

theorem mh_infectOn_err (p : HostParams) (env : MEnv) (cells : List Cell) (h d0 : Nat) (u : Rat) (x : ErrKind)
    (he : env.cellEnv h = .error x) : infectOn p env cells h d0 u = .error x := by
  unfold infectOn
  simp only [he, bind, Except.bind]

/-- `multiDisperserTo` as a decision tree. -/
theorem mh_multi_unfold (cfg : MultiCfg) (ps : List HostParams) (env : MEnv) (cells : List Cell) (pick : Nat) (u : Rat) :
    multiDisperserTo cfg ps env cells pick u =
      match suitabilities env cells with
      | .error e => .error e
      | .ok suits =>
        if sumR suits ≤ 0 then .ok (cells, 0, 0)
        else if sumR suits > 1 then .error .invalid_argument
        else match pickHostByWeight cells.length pick with
          | .error e => .error e
          | .ok (h, d0) =>
            match cfg.arrival with
            | .land => .ok (landOn cfg (ps[h]!).mt cells (sumR suits) h d0 u)
            | .infect => infectOn (ps[h]!) env cells h d0 u := by
  unfold multiDisperserTo
  cases suitabilities env cells with
  | error e => rfl
  | ok suits =>
    simp only [bind, Except.bind, pure, Except.pure]
    by_cases h0 : sumR suits ≤ 0
    · simp only [h0, if_true]
    · simp only [h0, if_false]
      by_cases h1 : sumR suits > 1
      · simp only [h1, if_true]
      · simp only [h1, if_false]
        cases pickHostByWeight cells.length pick with
        | error e => rfl
        | ok r => obtain ⟨h, d0⟩ := r; cases cfg.arrival <;> rfl

theorem mh_pick_lt (n pick h d0 : Nat) (hp : pickHostByWeight n pick = .ok (h, d0)) :
    h < n ∧ (n = 1 → h = 0 ∧ d0 = 0) ∧ (n ≠ 1 → h = pick ∧ d0 = 1) ∧ h = landingHost n pick := by
  unfold pickHostByWeight at hp
  unfold landingHost
  by_cases h1 : n = 1
  · simp only [h1, if_true, Except.ok.injEq, Prod.mk.injEq] at hp
    obtain ⟨rfl, rfl⟩ := hp
    simp [h1]
  · simp only [h1, if_false] at hp
    by_cases h2 : pick < n
    · simp only [h2, if_true, Except.ok.injEq, Prod.mk.injEq] at hp
      obtain ⟨rfl, rfl⟩ := hp
      simp [h1, h2]
    · simp only [h2, if_false] at hp; cases hp

/-! ### suitabilities = weights -/

theorem mh_cellEnv_ok (env : MEnv) (h : Nat) (e : EnvCell) (he : env.cellEnv h = .ok e) :
    e.n = env.n ∧ e.w = env.w ∧ e.sus.getD 1 = susOf env h := by
  unfold MEnv.cellEnv at he
  unfold susOf
  cases hp : env.pht with
  | none =>
    simp only [hp, Except.ok.injEq] at he
    subst he; simp
  | some t =>
    simp only [hp, PestHostTable.susceptibility, atOrRange, bind, Except.bind] at he
    cases hx : t.sus[h]? with
    | none => simp only [hx] at he; cases he
    | some x =>
      simp only [hx, pure, Except.pure, Except.ok.injEq] at he
      subst he
      simp [List.getD_eq_getElem?_getD, hx]

theorem mh_hostSuitability_ok (env : MEnv) (h : Nat) (c : Cell) (p : Rat) (hp : hostSuitability env h c = .ok p) :
    ∃ e, env.cellEnv h = .ok e ∧ c.suitability e = .ok p ∧ p = hostWeight env h c ∧ 0 ≤ p ∧ p ≤ 1 := by
  unfold hostSuitability at hp
  cases he : env.cellEnv h with
  | error x => simp only [he, bind, Except.bind] at hp; cases hp
  | ok e =>
    simp only [he, bind, Except.bind] at hp
    obtain ⟨h1, h2, h3⟩ := mh_suitability_ok c e p hp
    obtain ⟨g1, g2, g3⟩ := mh_cellEnv_ok env h e he
    refine ⟨e, rfl, hp, ?_, h2, h3⟩
    unfold hostWeight
    rw [h1, g1, g2, g3]

theorem mh_suitsFrom (env : MEnv) (k : Nat) (cells : List Cell) (l : List Rat)
    (h : suitabilitiesFrom env k cells = .ok l) :
    l.length = cells.length ∧ l = hostWeightsFrom env k cells ∧
    ∀ j, j < cells.length → hostSuitability env (k + j) (cells[j]!) = .ok (l[j]!) := by
  induction cells generalizing k l with
  | nil =>
    simp only [suitabilitiesFrom, Except.ok.injEq] at h
    subst h; simp [hostWeightsFrom]
  | cons c rest ih =>
    simp only [suitabilitiesFrom, bind, Except.bind] at h
    cases hp : hostSuitability env k c with
    | error x => simp only [hp] at h; cases h
    | ok p =>
      simp only [hp] at h
      cases hr : suitabilitiesFrom env (k + 1) rest with
      | error x => simp only [hr] at h; cases h
      | ok ps =>
        simp only [hr, pure, Except.pure, Except.ok.injEq] at h
        subst h
        obtain ⟨i1, i2, i3⟩ := ih (k + 1) ps hr
        obtain ⟨e, _, _, hw, _, _⟩ := mh_hostSuitability_ok env k c p hp
        refine ⟨by simp [i1], ?_, ?_⟩
        · simp only [hostWeightsFrom]; rw [← i2, ← hw]
        · intro j hj
          cases j with
          | zero => simpa using hp
          | succ j' =>
            have hj' : j' < rest.length := by simpa using hj
            have := i3 j' hj'
            have e1 : k + (j' + 1) = k + 1 + j' := by omega
            rw [e1]
            simpa using this

theorem mh_suitsFrom_err_or (env : MEnv) (k : Nat) (cells : List Cell) :
    (∃ l, suitabilitiesFrom env k cells = .ok l) ∨ (∃ x, suitabilitiesFrom env k cells = .error x) := by
  cases suitabilitiesFrom env k cells with
  | ok l => exact .inl ⟨l, rfl⟩
  | error x => exact .inr ⟨x, rfl⟩

/-! ### the outcome of a landing in closed form -/

/-- The establishment event on a host with `s` susceptible and probability `p`. -/
def estB (s : Int) (p : Rat) (sto : Bool) (pEst u : Rat) : Bool := decide (0 < s) && canEstablish p sto pEst u

/-- Cells, result and generator calls of a landing on host `h`, given the event `E`. -/
def outcome (cells : List Cell) (h : Nat) (mt : ModelType) (E : Bool) (d0 used : Nat) : List Cell × Int × Nat :=
  (if E then cells.set h (landed mt (cells[h]!)) else cells, if E then 1 else 0,
   d0 + if 0 < (cells[h]!).s then used else 0)

theorem mh_landOn_eq (cfg : MultiCfg) (mt : ModelType) (cells : List Cell) (total : Rat) (h d0 : Nat) (u : Rat) :
    landOn cfg mt cells total h d0 u =
      outcome cells h mt (estB (cells[h]!).s total cfg.sto cfg.pEst u) d0 (if cfg.sto then 1 else 0) := by
  rw [mh_landOn_cases]
  unfold outcome estB
  generalize cells[h]! = c
  by_cases hs : c.s ≤ 0
  · have : ¬ 0 < c.s := by omega
    simp only [hs, if_true, this, decide_false, Bool.false_and, Bool.false_eq_true, if_false, Nat.add_zero]
  · have hpos : 0 < c.s := by omega
    simp only [hs, if_false, hpos, decide_true, Bool.true_and, if_true]
    cases canEstablish total cfg.sto cfg.pEst u <;> simp

theorem mh_infectOn_eq (p : HostParams) (env : MEnv) (cells : List Cell) (h d0 : Nat) (u : Rat) (e : EnvCell) (pr : Rat)
    (he : env.cellEnv h = .ok e) (hp : (cells[h]!).suitability e = .ok pr) :
    infectOn p env cells h d0 u =
      .ok (outcome cells h p.mt (estB (cells[h]!).s pr p.sto p.pEst u) d0 (if p.sto then 1 else 0)) := by
  rw [mh_infectOn_ok p env cells h d0 u e he]
  unfold outcome estB
  have hset := mh_set_getElem!_self cells h
  generalize cells[h]! = c at *
  by_cases hs : c.s ≤ 0
  · have : ¬ 0 < c.s := by omega
    rw [mh_dispTo_nonpos _ _ _ _ _ _ hs]
    simp only [hset, this, decide_false, Bool.false_and, Bool.false_eq_true, if_false, Nat.add_zero]
  · have hpos : 0 < c.s := by omega
    rw [mh_dispTo_pos _ _ _ _ _ _ pr hpos hp]
    cases canEstablish pr p.sto p.pEst u <;> simp [hpos, hset]

/-- Which host, which probability and which settings decide the landing. -/
def landingE (cfg : MultiCfg) (ps : List HostParams) (cells : List Cell) (suits : List Rat) (h : Nat) (u : Rat) : Bool :=
  match cfg.arrival with
  | .land => estB (cells[h]!).s (sumR suits) cfg.sto cfg.pEst u
  | .infect => estB (cells[h]!).s (suits[h]!) (ps[h]!).sto (ps[h]!).pEst u

def landingUsed (cfg : MultiCfg) (ps : List HostParams) (h : Nat) : Nat :=
  match cfg.arrival with
  | .land => if cfg.sto then 1 else 0
  | .infect => if (ps[h]!).sto then 1 else 0

theorem mh_multi_err (cfg : MultiCfg) (ps : List HostParams) (env : MEnv) (cells : List Cell) (pick : Nat) (u : Rat)
    (x : ErrKind) (hs : suitabilities env cells = .error x) :
    multiDisperserTo cfg ps env cells pick u = .error x := by
  rw [mh_multi_unfold, hs]

theorem mh_multi_zero (cfg : MultiCfg) (ps : List HostParams) (env : MEnv) (cells : List Cell) (pick : Nat) (u : Rat)
    (suits : List Rat) (hs : suitabilities env cells = .ok suits) (h0 : sumR suits ≤ 0) :
    multiDisperserTo cfg ps env cells pick u = .ok (cells, 0, 0) := by
  rw [mh_multi_unfold, hs]; simp only [h0, if_true]

theorem mh_multi_over (cfg : MultiCfg) (ps : List HostParams) (env : MEnv) (cells : List Cell) (pick : Nat) (u : Rat)
    (suits : List Rat) (hs : suitabilities env cells = .ok suits) (h1 : sumR suits > 1) :
    multiDisperserTo cfg ps env cells pick u = .error .invalid_argument := by
  rw [mh_multi_unfold, hs]
  have : ¬ sumR suits ≤ 0 := by grind
  simp only [this, if_false, h1, if_true]

theorem mh_multi_eq (cfg : MultiCfg) (ps : List HostParams) (env : MEnv) (cells : List Cell) (pick : Nat) (u : Rat)
    (suits : List Rat) (h d0 : Nat) (hs : suitabilities env cells = .ok suits)
    (h0 : 0 < sumR suits) (h1 : sumR suits ≤ 1) (hp : pickHostByWeight cells.length pick = .ok (h, d0)) :
    multiDisperserTo cfg ps env cells pick u =
      .ok (outcome cells h (ps[h]!).mt (landingE cfg ps cells suits h u) d0 (landingUsed cfg ps h)) := by
  rw [mh_multi_unfold, hs]
  have n0 : ¬ sumR suits ≤ 0 := by grind
  have n1 : ¬ sumR suits > 1 := by grind
  simp only [n0, n1, if_false, hp]
  unfold landingE landingUsed
  cases ha : cfg.arrival with
  | land => simp only [mh_landOn_eq]
  | infect =>
    simp only
    obtain ⟨hlt, _, _, _⟩ := mh_pick_lt cells.length pick h d0 hp
    obtain ⟨_, _, h3⟩ := mh_suitsFrom env 0 cells suits hs
    have := h3 h hlt
    rw [Nat.zero_add] at this
    obtain ⟨e, he, hsu, _, _, _⟩ := mh_hostSuitability_ok env h (cells[h]!) (suits[h]!) this
    exact mh_infectOn_eq (ps[h]!) env cells h d0 u e (suits[h]!) he hsu

theorem mh_multi_pick_err (cfg : MultiCfg) (ps : List HostParams) (env : MEnv) (cells : List Cell) (pick : Nat) (u : Rat)
    (suits : List Rat) (x : ErrKind) (hs : suitabilities env cells = .ok suits)
    (h0 : 0 < sumR suits) (h1 : sumR suits ≤ 1) (hp : pickHostByWeight cells.length pick = .error x) :
    multiDisperserTo cfg ps env cells pick u = .error x := by
  rw [mh_multi_unfold, hs]
  have n0 : ¬ sumR suits ≤ 0 := by grind
  have n1 : ¬ sumR suits > 1 := by grind
  simp only [n0, n1, if_false, hp]

/-! ### consequences: at most one host, the establishment event -/

theorem mh_suits_eq_weights (env : MEnv) (cells : List Cell) (suits : List Rat)
    (hs : suitabilities env cells = .ok suits) : suits = hostWeights env cells :=
  (mh_suitsFrom env 0 cells suits hs).2.1

theorem mh_multi_ok_cases (cfg : MultiCfg) (ps : List HostParams) (env : MEnv) (cells : List Cell) (pick : Nat) (u : Rat)
    (r : List Cell × Int × Nat) (hr : multiDisperserTo cfg ps env cells pick u = .ok r) :
    ∃ suits, suitabilities env cells = .ok suits ∧
      ((sumR suits ≤ 0 ∧ r = (cells, 0, 0)) ∨
       (0 < sumR suits ∧ sumR suits ≤ 1 ∧ ∃ h d0, pickHostByWeight cells.length pick = .ok (h, d0) ∧
          r = outcome cells h (ps[h]!).mt (landingE cfg ps cells suits h u) d0 (landingUsed cfg ps h))) := by
  cases hs : suitabilities env cells with
  | error x => rw [mh_multi_err cfg ps env cells pick u x hs] at hr; cases hr
  | ok suits =>
    refine ⟨suits, rfl, ?_⟩
    by_cases h0 : sumR suits ≤ 0
    · rw [mh_multi_zero cfg ps env cells pick u suits hs h0] at hr
      simp only [Except.ok.injEq] at hr
      exact .inl ⟨h0, hr.symm⟩
    · have h0' : 0 < sumR suits := by grind
      by_cases h1 : sumR suits > 1
      · rw [mh_multi_over cfg ps env cells pick u suits hs h1] at hr; cases hr
      · have h1' : sumR suits ≤ 1 := by grind
        cases hp : pickHostByWeight cells.length pick with
        | error x => rw [mh_multi_pick_err cfg ps env cells pick u suits x hs h0' h1' hp] at hr; cases hr
        | ok hd =>
          obtain ⟨h, d0⟩ := hd
          rw [mh_multi_eq cfg ps env cells pick u suits h d0 hs h0' h1' hp] at hr
          simp only [Except.ok.injEq] at hr
          exact .inr ⟨h0', h1', h, d0, rfl, hr.symm⟩

theorem mh_landingE_pos (cfg : MultiCfg) (ps : List HostParams) (cells : List Cell) (suits : List Rat) (h : Nat) (u : Rat)
    (hE : landingE cfg ps cells suits h u = true) : 0 < (cells[h]!).s := by
  unfold landingE estB at hE
  cases ha : cfg.arrival <;> simp only [ha, Bool.and_eq_true, decide_eq_true_eq] at hE <;> exact hE.1

theorem mh_outcome_atMostOne (ps : List HostParams) (cells : List Cell) (h : Nat) (E : Bool) (d0 used : Nat)
    (hlt : h < cells.length) (hE : E = true → 0 < (cells[h]!).s) :
    atMostOneSpec ps cells (outcome cells h (ps[h]!).mt E d0 used).1 (outcome cells h (ps[h]!).mt E d0 used).2.1 = true := by
  unfold outcome atMostOneSpec
  cases E with
  | false => simp
  | true =>
    have hpos := hE rfl
    simp only [if_true, Bool.or_eq_true, Bool.and_eq_true, decide_eq_true_eq, List.any_eq_true, List.mem_range]
    refine .inr ⟨trivial, h, hlt, ?_⟩
    rw [mh_getElem!_set_self cells h _ hlt]
    refine ⟨⟨by omega, mh_landingSpec_landed _ _⟩, ?_⟩
    simp

theorem mh_estB_iff (s : Int) (p : Rat) (sto : Bool) (pEst u : Rat) :
    estB s p sto pEst u = true ↔ (s > 0 ∧ (if sto then u else 1 - pEst) < p) := by
  unfold estB canEstablish
  simp only [Bool.and_eq_true, decide_eq_true_eq, gt_iff_lt]

theorem mh_outcome_establish (cfg : MultiCfg) (ps : List HostParams) (cells : List Cell) (suits : List Rat)
    (pick h d0 used : Nat) (u : Rat) (h0 : 0 < sumR suits) (hh : h = landingHost cells.length pick) :
    multiEstablishSpec cfg ps suits cells pick u
      (outcome cells h (ps[h]!).mt (landingE cfg ps cells suits h u) d0 used).2.1 = true := by
  have n0 : ¬ sumR suits ≤ 0 := by grind
  unfold multiEstablishSpec outcome landingE
  simp only [n0, if_false, ← hh, decide_eq_true_eq]
  cases ha : cfg.arrival with
  | land =>
    simp only
    by_cases hE : estB (cells[h]!).s (sumR suits) cfg.sto cfg.pEst u = true
    · have := (mh_estB_iff _ _ _ _ _).1 hE
      simp only [hE, if_true, this, and_self]
    · have : ¬ ((cells[h]!).s > 0 ∧ (if cfg.sto then u else 1 - cfg.pEst) < sumR suits) := fun c => hE ((mh_estB_iff _ _ _ _ _).2 c)
      simp only [hE, this, if_false, Bool.false_eq_true]
  | infect =>
    simp only
    by_cases hE : estB (cells[h]!).s (suits[h]!) (ps[h]!).sto (ps[h]!).pEst u = true
    · have := (mh_estB_iff _ _ _ _ _).1 hE
      simp only [hE, if_true, this, and_self]
    · have : ¬ ((cells[h]!).s > 0 ∧ (if (ps[h]!).sto then u else 1 - (ps[h]!).pEst) < suits[h]!) := fun c => hE ((mh_estB_iff _ _ _ _ _).2 c)
      simp only [hE, this, if_false, Bool.false_eq_true]

/-! ### one host inside the wrapper -/

theorem mh_sumR_single (x : Rat) : sumR [x] = x := by
  simp [sumR, Rat.zero_add]

theorem mh_single_suits (env : MEnv) (c : Cell) (e : EnvCell) (he : env.cellEnv 0 = .ok e) :
    suitabilities env [c] = match c.suitability e with | .ok sp => .ok [sp] | .error x => .error x := by
  unfold suitabilities
  simp only [suitabilitiesFrom, hostSuitability, he, bind, Except.bind]
  cases c.suitability e <;> rfl

/-- The wrapper around one host against the bare host, including generator calls: the same
    result and cell; the same number of calls except in the region `s > 0, suitability = 0`,
    where the wrapper makes none. -/
theorem mh_single (cfg : MultiCfg) (p : HostParams) (env : MEnv) (c : Cell) (pick : Nat) (u : Rat) (e : EnvCell)
    (he : env.cellEnv 0 = .ok e) (hs : 0 ≤ c.s)
    (hcfg : cfg.arrival = .land → cfg.sto = p.sto ∧ cfg.pEst = p.pEst)
    (ht : 0 ≤ (if p.sto then u else 1 - p.pEst)) :
    match c.disperserTo p.mt e p.sto p.pEst u with
    | .ok (c', k, n) =>
      multiDisperserTo cfg [p] env [c] pick u =
        .ok ([c'], k, if f19Region c e then 0 else n)
    | .error x => multiDisperserTo cfg [p] env [c] pick u = .error x := by
  have hsuits := mh_single_suits env c e he
  cases hsu : c.suitability e with
  | error x =>
    have hpos : 0 < c.s := by
      by_cases h0 : c.s = 0
      · rw [mh_suitability_zero_s c e h0] at hsu; cases hsu
      · omega
    rw [mh_dispTo_err _ _ _ _ _ _ x hpos hsu]
    rw [hsu] at hsuits
    exact mh_multi_err cfg [p] env [c] pick u x hsuits
  | ok sp =>
    rw [hsu] at hsuits
    obtain ⟨hspv, hsp0, hsp1⟩ := mh_suitability_ok c e sp hsu
    have hreg : f19Region c e = (decide (0 < c.s) && decide (sp = 0)) := by
      unfold f19Region; rw [hspv]
    rw [hreg]
    by_cases hz : c.s = 0
    · have hle : c.s ≤ 0 := by omega
      rw [mh_dispTo_nonpos _ _ _ _ _ _ hle]
      have : sp = 0 := by
        have := mh_suitability_zero_s c e hz
        rw [hsu] at this; simpa using this
      have hnp : ¬ 0 < c.s := by omega
      simp only [hnp, decide_false, Bool.false_and, Bool.false_eq_true, if_false]
      apply mh_multi_zero cfg [p] env [c] pick u [sp] hsuits
      rw [mh_sumR_single]; grind
    · have hpos : 0 < c.s := by omega
      rw [mh_dispTo_pos _ _ _ _ _ _ sp hpos hsu]
      by_cases hsp : sp = 0
      · subst hsp
        have hce : canEstablish 0 p.sto p.pEst u = false := by
          unfold canEstablish
          simp only [decide_eq_false_iff_not]
          grind
        simp only [hce, Bool.false_eq_true, if_false, hpos, decide_true, Bool.true_and, if_true]
        apply mh_multi_zero cfg [p] env [c] pick u [0] hsuits
        rw [mh_sumR_single]; exact Rat.le_refl
      · have hsp' : 0 < sp := by grind
        have hpk : pickHostByWeight [c].length pick = .ok (0, 0) := by simp [pickHostByWeight]
        have h0 : 0 < sumR [sp] := by rw [mh_sumR_single]; exact hsp'
        have h1 : sumR [sp] ≤ 1 := by rw [mh_sumR_single]; exact hsp1
        rw [mh_multi_eq cfg [p] env [c] pick u [sp] 0 0 hsuits h0 h1 hpk]
        have hE : landingE cfg [p] [c] [sp] 0 u = canEstablish sp p.sto p.pEst u := by
          unfold landingE estB
          cases ha : cfg.arrival with
          | land =>
            obtain ⟨e1, e2⟩ := hcfg ha
            simp [mh_sumR_single, e1, e2, hpos]
          | infect => simp [hpos]
        have hU : landingUsed cfg [p] 0 = if p.sto then 1 else 0 := by
          unfold landingUsed
          cases ha : cfg.arrival with
          | land => obtain ⟨e1, _⟩ := hcfg ha; simp [e1]
          | infect => simp
        rw [hE, hU]
        unfold outcome
        cases canEstablish sp p.sto p.pEst u <;> simp [hpos, hsp]

/-! ### pests leaving / arriving -/

/-- Two lists of equal length related position by position. -/
inductive ListRel {α β : Type} (R : α → β → Prop) : List α → List β → Prop
  | nil : ListRel R [] []
  | cons {a : α} {b : β} {as : List α} {bs : List β} : R a b → ListRel R as bs → ListRel R (a :: as) (b :: bs)

theorem ListRel.length_eq {α β : Type} {R : α → β → Prop} {as : List α} {bs : List β} (h : ListRel R as bs) :
    as.length = bs.length := by
  induction h with
  | nil => rfl
  | cons _ _ ih => simp [ih]

theorem mh_pointwise_forall2 (f : Cell → Int) (cells : List Cell) (d : List Int) (hl : d.length = cells.length)
    (hp : ∀ k : Nat, k < d.length → 0 ≤ d[k]! ∧ d[k]! ≤ (cells.map f)[k]!) :
    ListRel (fun c k => 0 ≤ k ∧ k ≤ f c) cells d := by
  induction cells generalizing d with
  | nil =>
    cases d with
    | nil => exact .nil
    | cons x xs => simp at hl
  | cons c rest ih =>
    cases d with
    | nil => simp at hl
    | cons x xs =>
      refine .cons ?_ (ih xs (by simpa using hl) ?_)
      · have := hp 0 (by simp)
        simpa using this
      · intro k hk
        have := hp (k + 1) (by simp; omega)
        simpa using this

theorem mh_validSplit_forall2 (f : Cell → Int) (cells : List Cell) (count : Int) (d : List Int)
    (h : ValidSplit (cells.map f) count d) :
    ListRel (fun c k => 0 ≤ k ∧ k ≤ f c) cells d ∧ sumL d = min (toUnsigned count) (sumL (cells.map f)) := by
  obtain ⟨hl, hp, hsum⟩ := h
  exact ⟨mh_pointwise_forall2 f cells d (by simpa using hl) hp, hsum⟩

theorem mh_pestsFrom_zip (cells : List Cell) (d : List Int) (h : ListRel (fun c k => 0 ≤ k ∧ k ≤ c.i) cells d) :
    multiPestsFrom cells d =
      (List.zipWith (fun (c : Cell) (k : Int) => { c with s := c.s + k, i := c.i - k }) cells d, sumL d) := by
  unfold multiPestsFrom
  induction h with
  | nil => simp
  | cons hx _ ih =>
    simp only [List.zipWith_cons_cons, List.map_cons, sumL_cons, Prod.mk.injEq, List.cons.injEq] at ih ⊢
    refine ⟨⟨by simp [Cell.pestsFrom], ih.1⟩, ?_⟩
    rw [ih.2]; simp [Cell.pestsFrom]

theorem mh_pestsTo_zip (cells : List Cell) (d : List Int) (h : ListRel (fun c k => 0 ≤ k ∧ k ≤ c.s) cells d) :
    multiPestsTo cells d =
      (List.zipWith (fun (c : Cell) (k : Int) => { c with s := c.s - k, i := c.i + k }) cells d, sumL d) := by
  unfold multiPestsTo
  induction h with
  | nil => simp
  | @cons c k _ _ hx _ ih =>
    have hge : c.s ≥ k := hx.2
    simp only [List.zipWith_cons_cons, List.map_cons, sumL_cons, Prod.mk.injEq, List.cons.injEq] at ih ⊢
    refine ⟨⟨by simp [Cell.pestsTo, hge], ih.1⟩, ?_⟩
    rw [ih.2]; simp [Cell.pestsTo, hge]

theorem mh_forall2_splitSpec (f : Cell → Int) (cells : List Cell) (count : Int) (d : List Int)
    (hc : count < 4294967296)
    (h : ListRel (fun c k => 0 ≤ k ∧ k ≤ f c) cells d) (hsum : sumL d = min (toUnsigned count) (sumL (cells.map f))) :
    splitSpec (cells.map f) count d (sumL d) = true := by
  unfold splitSpec
  have hlen : d.length = (cells.map f).length := by simpa using h.length_eq.symm
  have hall : (List.zip d (cells.map f)).all (fun p => decide (0 ≤ p.1) && decide (p.1 ≤ p.2)) = true := by
    clear hsum hlen
    induction h with
    | nil => simp
    | cons hx _ ih => simp only [List.map_cons, List.zip_cons_cons, List.all_cons, ih, Bool.and_true]; simp [hx.1, hx.2]
  simp only [hlen, beq_self_eq_true, hall, Bool.true_and, decide_true, Bool.and_eq_true, Bool.or_eq_true, decide_eq_true_eq]
  by_cases hneg : count < 0
  · exact .inl hneg
  · right
    have : toUnsigned count = count := by unfold toUnsigned; omega
    rw [this] at hsum
    omega

/-! ### mortality with the table's parameters -/

theorem mh_mortFrom (env : MEnv) (k : Nat) (cells cells' : List Cell)
    (h : applyMortalityFrom env k cells = .ok cells') :
    cells'.length = cells.length ∧
    ∀ j, j < cells.length → hostApplyMortality env (k + j) (cells[j]!) = .ok (cells'[j]!) := by
  induction cells generalizing k cells' with
  | nil =>
    simp only [applyMortalityFrom, Except.ok.injEq] at h
    subst h; simp
  | cons c rest ih =>
    simp only [applyMortalityFrom, bind, Except.bind] at h
    cases hp : hostApplyMortality env k c with
    | error x => simp only [hp] at h; cases h
    | ok c' =>
      simp only [hp] at h
      cases hr : applyMortalityFrom env (k + 1) rest with
      | error x => simp only [hr] at h; cases h
      | ok rest' =>
        simp only [hr, pure, Except.pure, Except.ok.injEq] at h
        subst h
        obtain ⟨i1, i3⟩ := ih (k + 1) rest' hr
        refine ⟨by simp [i1], ?_⟩
        intro j hj
        cases j with
        | zero => simpa using hp
        | succ j' =>
          have hj' : j' < rest.length := by simpa using hj
          have := i3 j' hj'
          have e1 : k + (j' + 1) = k + 1 + j' := by omega
          rw [e1]
          simpa using this

theorem mh_hostMort_ok (env : MEnv) (t : PestHostTable) (h : Nat) (c c' : Cell) (ht : env.pht = some t)
    (hm : hostApplyMortality env h c = .ok c') :
    ∃ rate lag, t.rate[h]? = some rate ∧ t.lag[h]? = some lag ∧ c.applyMortality rate lag = .ok c' := by
  unfold hostApplyMortality at hm
  simp only [ht, PestHostTable.mortalityRate, PestHostTable.mortalityTimeLag, atOrRange, bind, Except.bind] at hm
  cases hr : t.rate[h]? with
  | none => simp only [hr] at hm; cases hm
  | some rate =>
    simp only [hr] at hm
    cases hl : t.lag[h]? with
    | none => simp only [hl] at hm; cases hm
    | some lag =>
      simp only [hl] at hm
      exact ⟨rate, lag, rfl, rfl, hm⟩

theorem mh_hostMort_none (env : MEnv) (h : Nat) (c : Cell) (ht : env.pht = none) :
    hostApplyMortality env h c = .error .invalid_argument := by
  unfold hostApplyMortality; simp only [ht]

/-! ### sums -/

theorem mh_infected_append (a b : List Cell) : multiInfectedAt (a ++ b) = multiInfectedAt a + multiInfectedAt b := by
  simp [multiInfectedAt]

theorem mh_total_append (a b : List Cell) : multiTotalHostsAt (a ++ b) = multiTotalHostsAt a + multiTotalHostsAt b := by
  simp [multiTotalHostsAt]

theorem mh_sumsSpec (cells : List Cell) : sumsSpec cells (multiInfectedAt cells) (multiTotalHostsAt cells) = true := by
  have : (List.map Cell.totalHostsAt cells) = List.map (fun c => c.s + c.i) cells := by
    apply List.map_congr_left; intro c _; rfl
  simp [sumsSpec, multiInfectedAt, multiTotalHostsAt, this]

end Pops
