/-
  Lemmas for C16 (several hosts), part 1: landing (`multiDisperserTo`), the single-host
  comparison, sums, pests leaving / arriving, mortality.
-/
import PopsModel.Model.MultiPred
namespace Pops

/-! ### list helpers -/

theorem mh_set_getElem!_self (l : List Cell) (h : Nat) : l.set h (l[h]!) = l := by
  induction l generalizing h with
  | nil => simp
  | cons x xs ih =>
    cases h with
    | zero => simp
    | succ k =>
      have : (x :: xs)[k + 1]! = xs[k]! := by simp
      rw [this, List.set_cons_succ, ih]

theorem mh_getElem!_set_self (l : List Cell) (h : Nat) (x : Cell) (hh : h < l.length) :
    (l.set h x)[h]! = x := by
  induction l generalizing h with
  | nil => simp at hh
  | cons y ys ih =>
    cases h with
    | zero => simp
    | succ k =>
      have hk : k < ys.length := by simpa using hh
      have : (y :: ys.set k x)[k + 1]! = (ys.set k x)[k]! := by simp
      rw [List.set_cons_succ, this, ih k hk]

/-! ### one host: establishment -/

/-- The cell after one successful landing. -/
def landed (mt : ModelType) (c : Cell) : Cell :=
  match mt with
  | .si => { c with s := c.s - 1, i := c.i + 1, mort := addLast c.mort 1 }
  | .sei => { c with s := c.s - 1, e := addLast c.e 1, te := c.te + 1 }

theorem mh_add_pos (mt : ModelType) (c : Cell) (hs : 0 < c.s) : c.addDisperserAt mt = (landed mt c, 1) := by
  have : ¬ c.s ≤ 0 := by omega
  unfold Cell.addDisperserAt landed
  cases mt <;> simp [this]

theorem mh_add_nonpos (mt : ModelType) (c : Cell) (hs : c.s ≤ 0) : c.addDisperserAt mt = (c, 0) := by
  unfold Cell.addDisperserAt; simp [hs]

theorem mh_landingSpec_landed (mt : ModelType) (c : Cell) : landingSpec mt c (landed mt c) 1 = true := by
  cases mt <;> simp [landingSpec, landed]

theorem mh_landingSpec_zero (mt : ModelType) (c : Cell) : landingSpec mt c c 0 = true := by
  simp [landingSpec]

theorem mh_dispTo_nonpos (mt : ModelType) (c : Cell) (env : EnvCell) (sto : Bool) (pEst u : Rat)
    (hs : c.s ≤ 0) : c.disperserTo mt env sto pEst u = .ok (c, 0, 0) := by
  unfold Cell.disperserTo; simp only [hs, if_true]

theorem mh_dispTo_pos (mt : ModelType) (c : Cell) (env : EnvCell) (sto : Bool) (pEst u p : Rat)
    (hs : 0 < c.s) (hp : c.suitability env = .ok p) :
    c.disperserTo mt env sto pEst u =
      .ok (if canEstablish p sto pEst u then (landed mt c, 1, if sto then 1 else 0)
           else (c, 0, if sto then 1 else 0)) := by
  have : ¬ c.s ≤ 0 := by omega
  unfold Cell.disperserTo
  simp only [this, if_false, hp, mh_add_pos mt c hs]
  simp only [bind, Except.bind]
  split <;> rfl

theorem mh_dispTo_err (mt : ModelType) (c : Cell) (env : EnvCell) (sto : Bool) (pEst u : Rat) (e : ErrKind)
    (hs : 0 < c.s) (hp : c.suitability env = .error e) :
    c.disperserTo mt env sto pEst u = .error e := by
  have : ¬ c.s ≤ 0 := by omega
  unfold Cell.disperserTo
  simp only [this, if_false, hp]
  rfl

/-- The value behind a successful `suitability_at`. -/
theorem mh_suitability_ok (c : Cell) (env : EnvCell) (p : Rat) (hp : c.suitability env = .ok p) :
    p = (c.s : Rat) / (env.n : Rat) * env.sus.getD 1 * env.w.getD 1 ∧ 0 ≤ p ∧ p ≤ 1 := by
  unfold Cell.suitability at hp
  simp only at hp
  split at hp
  · cases hp
  · rename_i h
    simp only [Except.ok.injEq] at hp
    subst hp
    refine ⟨rfl, ?_, ?_⟩ <;> grind

theorem mh_suitability_zero_s (c : Cell) (env : EnvCell) (hs : c.s = 0) : c.suitability env = .ok 0 := by
  unfold Cell.suitability
  simp [hs, Rat.div_def, Rat.zero_mul]

end Pops
