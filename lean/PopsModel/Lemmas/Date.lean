import PopsModel.Model.Date
namespace Pops
open Date

theorem dim_cases (l : Bool) (m : Int) :
    (m = 1 ∧ dim l m = 31) ∨ (m = 2 ∧ dim l m = (if l then 29 else 28)) ∨ (m = 3 ∧ dim l m = 31) ∨
    (m = 4 ∧ dim l m = 30) ∨ (m = 5 ∧ dim l m = 31) ∨ (m = 6 ∧ dim l m = 30) ∨
    (m = 7 ∧ dim l m = 31) ∨ (m = 8 ∧ dim l m = 31) ∨ (m = 9 ∧ dim l m = 30) ∨
    (m = 10 ∧ dim l m = 31) ∨ (m = 11 ∧ dim l m = 30) ∨ (m = 12 ∧ dim l m = 31) ∨
    ((m < 1 ∨ 12 < m) ∧ dim l m = 0) := by
  by_cases h1 : m = 1; · subst h1; simp [dim]
  by_cases h2 : m = 2; · subst h2; simp [dim]
  by_cases h3 : m = 3; · subst h3; simp [dim]
  by_cases h4 : m = 4; · subst h4; simp [dim]
  by_cases h5 : m = 5; · subst h5; simp [dim]
  by_cases h6 : m = 6; · subst h6; simp [dim]
  by_cases h7 : m = 7; · subst h7; simp [dim]
  by_cases h8 : m = 8; · subst h8; simp [dim]
  by_cases h9 : m = 9; · subst h9; simp [dim]
  by_cases h10 : m = 10; · subst h10; simp [dim]
  by_cases h11 : m = 11; · subst h11; simp [dim]
  by_cases h12 : m = 12; · subst h12; simp [dim]
  have : dim l m = 0 := by simp [dim, *]
  simp only [*]; simp; omega

theorem dim_ge (l : Bool) (m : Int) (h1 : 1 ≤ m) (h2 : m ≤ 12) : 28 ≤ dim l m := by
  rcases dim_cases l m with h|h|h|h|h|h|h|h|h|h|h|h|h <;> obtain ⟨hm, hd⟩ := h <;> cases l <;> (try simp only [if_true, if_false, Bool.false_eq_true] at hd) <;> omega
theorem dim_le (l : Bool) (m : Int) : dim l m ≤ 31 := by
  rcases dim_cases l m with h|h|h|h|h|h|h|h|h|h|h|h|h <;> obtain ⟨hm, hd⟩ := h <;> cases l <;> (try simp only [if_true, if_false, Bool.false_eq_true] at hd) <;> omega
theorem dim_nonneg (l : Bool) (m : Int) : 0 ≤ dim l m := by
  rcases dim_cases l m with h|h|h|h|h|h|h|h|h|h|h|h|h <;> obtain ⟨hm, hd⟩ := h <;> cases l <;> (try simp only [if_true, if_false, Bool.false_eq_true] at hd) <;> omega
@[simp] theorem dim_1 (l : Bool) : dim l 1 = 31 := by simp [dim]
@[simp] theorem dim_12 (l : Bool) : dim l 12 = 31 := by simp [dim]
@[simp] theorem dim_11 (l : Bool) : dim l 11 = 30 := by simp [dim]

/-- Month and day within the table's range; enough for the order lemmas. -/
def Date.Bounded (t : Date) : Prop := 1 ≤ t.m ∧ t.m ≤ 12 ∧ 1 ≤ t.d ∧ t.d ≤ 31

theorem Date.Valid.bounded {t : Date} (h : t.Valid) : t.Bounded := by
  obtain ⟨a, b, c, d⟩ := h
  exact ⟨a, b, c, Int.le_trans d (dim_le _ _)⟩

theorem lt_iff_ord {a b : Date} (ha : a.Bounded) (hb : b.Bounded) :
    a.lt b = true ↔ a.ord < b.ord := by
  obtain ⟨a1, a2, a3, a4⟩ := ha; obtain ⟨b1, b2, b3, b4⟩ := hb
  unfold Date.lt Date.ord
  repeat' split
  all_goals simp
  all_goals omega

theorem gt_iff_ord {a b : Date} (ha : a.Bounded) (hb : b.Bounded) :
    a.gt b = true ↔ b.ord < a.ord := by
  obtain ⟨a1, a2, a3, a4⟩ := ha; obtain ⟨b1, b2, b3, b4⟩ := hb
  unfold Date.gt Date.ord
  repeat' split
  all_goals simp
  all_goals omega

theorem le_iff_ord {a b : Date} (ha : a.Bounded) (hb : b.Bounded) :
    a.le b = true ↔ a.ord ≤ b.ord := by
  unfold Date.le
  have := gt_iff_ord ha hb
  cases h : a.gt b <;> simp_all <;> omega

theorem ge_iff_ord {a b : Date} (ha : a.Bounded) (hb : b.Bounded) :
    a.ge b = true ↔ b.ord ≤ a.ord := by
  unfold Date.ge
  have := lt_iff_ord ha hb
  cases h : a.lt b <;> simp_all <;> omega

theorem ord_inj {a b : Date} (ha : a.Bounded) (hb : b.Bounded) (h : a.ord = b.ord) : a = b := by
  obtain ⟨a1, a2, a3, a4⟩ := ha; obtain ⟨b1, b2, b3, b4⟩ := hb
  cases a; cases b; simp only [Date.ord] at *; simp only [Date.mk.injEq]; omega

/-! ### Day successor -/

/-- Month/day rank inside a year. -/
def Date.mdord (t : Date) : Int := (t.m - 1) * 31 + (t.d - 1)

theorem ord_eq (t : Date) : t.ord = t.y * 372 + t.mdord := by
  simp only [Date.ord, Date.mdord]; omega

theorem valid_jan1 (y : Int) : (⟨y, 1, 1⟩ : Date).Valid := by
  simp [Date.Valid]

/-- Either the next 1 January, or a later valid day of the same year. -/
theorem incDays_cases (t : Date) (n : Int) (hv : t.Valid) (h1 : 1 ≤ n) (h28 : n ≤ 28) :
    let r := t.increasedByDays n
    r = ⟨t.y + 1, 1, 1⟩ ∨
    (r.y = t.y ∧ 1 ≤ r.m ∧ r.m ≤ 12 ∧ 1 ≤ r.d ∧ r.d ≤ dim (isLeap t.y) r.m ∧ t.mdord < r.mdord) := by
  obtain ⟨m1, m12, d1, dd⟩ := hv
  have hge := dim_ge (isLeap t.y) t.m m1 m12
  have hle := dim_le (isLeap t.y) t.m
  have h12 := dim_12 (isLeap t.y)
  have hnext : t.m + 1 ≤ 12 → 28 ≤ dim (isLeap t.y) (t.m + 1) := fun h => dim_ge _ _ (by omega) h
  simp only [Date.increasedByDays, Date.rollDays, Date.mdord]
  generalize isLeap t.y = l at *
  by_cases hm : t.m = 12
  · rw [hm] at dd hge hle ⊢
    simp only [h12] at *
    cases l <;> simp <;> (repeat' split) <;> simp_all <;> omega
  · have hm11 : t.m + 1 ≤ 12 := by omega
    have hn := hnext hm11
    have hnle := dim_le l (t.m + 1)
    cases l <;> simp [hm] <;> (repeat' split) <;> simp_all <;> omega

theorem incDays_spec (t : Date) (n : Int) (hv : t.Valid) (h1 : 1 ≤ n) (h28 : n ≤ 28) :
    (t.increasedByDays n).Valid ∧ t.ord < (t.increasedByDays n).ord := by
  have hb := hv.bounded
  obtain ⟨m1, m12, d1, dd⟩ := hb
  rcases incDays_cases t n hv h1 h28 with h | ⟨hy, a, b, c, d, e⟩
  · rw [h]; refine ⟨valid_jan1 _, ?_⟩
    simp only [Date.ord]; omega
  · refine ⟨⟨a, b, c, by rw [hy]; exact d⟩, ?_⟩
    rw [ord_eq, ord_eq, hy]; omega

/-! ### Week and month successors -/

theorem incWeek_eq_incDays (t : Date) (hv : t.Valid) : t.increasedByWeek = t.increasedByDays 7 := by
  obtain ⟨m1, m12, d1, dd⟩ := hv
  have hge := dim_ge (isLeap t.y) t.m m1 m12
  have hle := dim_le (isLeap t.y) t.m
  have h12 := dim_12 (isLeap t.y)
  simp only [Date.increasedByWeek, Date.rollWeek, Date.increasedByDays, Date.rollDays]
  generalize isLeap t.y = l at *
  by_cases hm : t.m = 12
  · rw [hm] at dd hge hle ⊢
    simp only [h12] at *
    cases l <;> simp <;> (repeat' split) <;> simp_all <;> omega
  · cases l <;> simp [hm] <;> (repeat' split) <;> simp_all <;> omega

theorem incWeek_spec (t : Date) (hv : t.Valid) :
    t.increasedByWeek.Valid ∧ t.ord < t.increasedByWeek.ord := by
  rw [incWeek_eq_incDays t hv]; exact incDays_spec t 7 hv (by omega) (by omega)

theorem incMonth_spec (t : Date) (hv : t.Valid) :
    t.increasedByMonth.Valid ∧ t.ord < t.increasedByMonth.ord ∧
    (t.d = 1 → t.increasedByMonth.d = 1) := by
  obtain ⟨m1, m12, d1, dd⟩ := hv
  have hle := dim_le (isLeap t.y) t.m
  simp only [Date.increasedByMonth, Date.Valid, Date.ord]
  by_cases hm : t.m + 1 > 12
  · have : t.m = 12 := by omega
    simp [this]; split <;> simp <;> omega
  · have hn := dim_ge (isLeap t.y) (t.m + 1) (by omega) (by omega)
    have hnl := dim_le (isLeap t.y) (t.m + 1)
    simp [hm]; split <;> simp <;> omega

/-! ### add_day / subtract_day -/

theorem addDay_spec (t : Date) (hv : t.Valid) :
    t.addDay.Valid ∧ t.ord < t.addDay.ord := by
  obtain ⟨m1, m12, d1, dd⟩ := hv
  have hle := dim_le (isLeap t.y) t.m
  simp only [Date.addDay, Date.Valid, Date.ord]
  split
  · split
    · simp; omega
    · have hn := dim_ge (isLeap t.y) (t.m + 1) (by omega) (by omega)
      simp; omega
  · simp; omega

theorem subDay_valid (t : Date) (hv : t.Valid) : t.subtractDay.Valid := by
  obtain ⟨m1, m12, d1, dd⟩ := hv
  simp only [Date.subtractDay, Date.Valid]
  split
  · split
    · simp
    · have hn := dim_ge (isLeap t.y) (t.m - 1) (by omega) (by omega)
      simp; omega
  · simp; omega

theorem addDay_subDay (t : Date) (hv : t.Valid) : t.subtractDay.addDay = t := by
  obtain ⟨m1, m12, d1, dd⟩ := hv
  cases t with | mk y m d =>
  simp only [Date.subtractDay, Date.addDay] at *
  split
  · split
    · have : d = 1 := by omega
      have : m = 1 := by omega
      simp [*]
    · have : d = 1 := by omega
      have hn := dim_ge (isLeap y) (m - 1) (by omega) (by omega)
      have h1 : dim (isLeap y) (m - 1) < dim (isLeap y) (m - 1) + 1 := by omega
      have h2 : ¬ 12 < m := by omega
      simp [h1, h2, this]
  · simp; omega

/-- No valid date lies strictly between `subtractDay t` and `t`. -/
theorem lt_iff_le_subDay (x t : Date) (hx : x.Valid) (hv : t.Valid) :
    x.ord < t.ord ↔ x.ord ≤ t.subtractDay.ord := by
  obtain ⟨xm1, xm12, xd1, xdd⟩ := hx
  obtain ⟨m1, m12, d1, dd⟩ := hv
  have hxle := dim_le (isLeap x.y) x.m
  simp only [Date.subtractDay, Date.ord]
  split
  · have hd : t.d = 1 := by omega
    split
    · have hm : t.m = 1 := by omega
      simp [hd, hm]; omega
    · have hn := dim_ge (isLeap t.y) (t.m - 1) (by omega) (by omega)
      have hnl := dim_le (isLeap t.y) (t.m - 1)
      simp only [hd]
      by_cases hsame : x.y = t.y ∧ x.m = t.m - 1
      · obtain ⟨e1, e2⟩ := hsame
        rw [e1, e2] at xdd
        simp only [e1, e2]; omega
      · omega
  · simp; omega

end Pops
