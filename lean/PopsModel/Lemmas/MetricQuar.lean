/-
  Lemmas for C18, part 2: quarantine area boxes, closest direction, the escape loop.
-/
import PopsModel.Lemmas.Metric
namespace Pops.Metric

/-! ### the id -> box table -/

/-- `boundaries.at(boundary_id_idx_map.find(v))` for a present id. -/
def findBox (tbl : List (Int × Box)) (v : Int) : Option Box :=
  (tbl.find? (fun en => en.1 == v)).map (·.2)

theorem lookupBox_of_findBox {tbl : List (Int × Box)} {v : Int} {b : Box}
    (h : findBox tbl v = some b) : lookupBox tbl v = some b := by
  unfold findBox at h
  unfold lookupBox
  cases hf : tbl.find? (fun en => en.1 == v) with
  | none => simp [hf] at h
  | some en => simp [hf] at h; simp [h]

theorem find_map_keep (f : Int × Box → Int × Box) (hf : ∀ en, (f en).1 = en.1) (v : Int)
    (tbl : List (Int × Box)) :
    (tbl.map f).find? (fun en => en.1 == v) = (tbl.find? (fun en => en.1 == v)).map f := by
  induction tbl with
  | nil => rfl
  | cons en rest ih =>
    simp only [List.map_cons, List.find?_cons, hf]
    cases en.1 == v <;> simp [ih]

theorem findBox_update_self (h w : Int) (tbl : List (Int × Box)) (v i j : Int) :
    findBox (tableUpdate h w tbl v i j) v =
      some (((findBox tbl v).getD (initBox h w)).extend i j) := by
  unfold tableUpdate findBox
  by_cases hany : tbl.any (fun en => en.1 == v) = true
  · rw [if_pos hany, find_map_keep _ (by intro en; split <;> rfl)]
    cases hf : tbl.find? (fun en => en.1 == v) with
    | none =>
      rw [List.find?_eq_none] at hf
      obtain ⟨en, hen, hk⟩ := List.any_eq_true.mp hany
      exact absurd hk (hf en hen)
    | some en =>
      have hk := List.find?_some hf
      have hk' : en.1 = v := by simpa using hk
      simp [hk']
  · rw [if_neg hany]
    have hnone : tbl.find? (fun en => en.1 == v) = none := by
      rw [List.find?_eq_none]
      intro en hen hk
      exact hany (List.any_eq_true.mpr ⟨en, hen, hk⟩)
    simp [List.find?_append, hnone]

theorem findBox_update_ne (h w : Int) (tbl : List (Int × Box)) (v v' i j : Int) (hne : v' ≠ v) :
    findBox (tableUpdate h w tbl v i j) v' = findBox tbl v' := by
  unfold tableUpdate findBox
  by_cases hany : tbl.any (fun en => en.1 == v) = true
  · rw [if_pos hany, find_map_keep _ (by intro en; split <;> rfl)]
    cases hf : tbl.find? (fun en => en.1 == v') with
    | none => rfl
    | some en =>
      have hk := List.find?_some hf
      have : en.1 = v' := by simpa using hk
      have hne' : ¬ en.1 = v := by rw [this]; exact hne
      simp [hne']
  · rw [if_neg hany]
    have : ((v == v') = false) := by simp; exact fun h => hne h.symm
    simp [List.find?_append, this]

theorem findBox_fold (h w : Int) (areas : IRaster) (v : Int) (hv : 0 < v) :
    ∀ (cs : List Cell) (tbl : List (Int × Box)),
      findBox (cs.foldl (boundaryTableStep h w areas) tbl) v =
        if (cs.filter fun c => areas.at c.1 c.2 = v).isEmpty then findBox tbl v
        else some (foldBox ((findBox tbl v).getD (initBox h w)) (cs.filter fun c => areas.at c.1 c.2 = v)) := by
  intro cs
  induction cs with
  | nil => intro tbl; rfl
  | cons c cs ih =>
    intro tbl
    rw [List.foldl_cons, ih]
    by_cases hc : areas.at c.1 c.2 = v
    · have hpos : areas.at c.1 c.2 > 0 := by omega
      have hstep : boundaryTableStep h w areas tbl c = tableUpdate h w tbl v c.1 c.2 := by
        simp only [boundaryTableStep, hc]
        exact if_pos hv
      rw [hstep, findBox_update_self]
      simp only [List.filter_cons, hc, decide_true, if_true, List.isEmpty_cons, Option.getD_some,
        foldBox_cons]
      split
      · rename_i he
        rw [List.isEmpty_iff.mp he]; rfl
      · rfl
    · have hstep : findBox (boundaryTableStep h w areas tbl c) v = findBox tbl v := by
        unfold boundaryTableStep
        split
        · exact findBox_update_ne h w tbl _ v _ _ (fun e => hc e.symm)
        · rfl
      simp only [List.filter_cons, hc, decide_false, hstep]
      rfl

/-- The constructor's table holds, for every positive id, the definitional box of that area. -/
theorem findBox_quarantineBoundary (areas : IRaster) (v : Int) (hv : 0 < v) :
    findBox (quarantineBoundary areas) v = specAreaBox areas v := by
  unfold quarantineBoundary
  rw [findBox_fold _ _ _ _ hv]
  have hL : ((allCells areas.rows areas.cols).filter fun c => areas.at c.1 c.2 = v) = areaCells areas v := rfl
  rw [hL]
  unfold specAreaBox
  cases hA : areaCells areas v with
  | nil => rfl
  | cons c cs =>
    have hc : c ∈ areaCells areas v := by rw [hA]; simp
    have hr : InRange areas.rows areas.cols c := by
      unfold areaCells at hc
      exact mem_allCells.mp (List.mem_filter.mp hc).1
    simp only [List.isEmpty_cons, Bool.false_eq_true, if_false]
    have : findBox ([] : List (Int × Box)) v = none := rfl
    rw [this, Option.getD_none]
    exact foldBox_init _ _ c cs hr

/-! ### closest direction, integer resolutions -/

theorem lround_intCast (k : Int) : lround (k : Rat) = k := by
  have hhalf : ((1 / 2 : Rat)).floor = 0 := by
    have h1 : (0 : Int) ≤ (1/2 : Rat).floor := Rat.le_floor_iff.mpr (by grind)
    have h2 : (1/2 : Rat).floor < (1 : Int) := Rat.floor_lt_iff.mpr (by grind)
    omega
  unfold lround
  split
  · rw [Rat.add_comm, Rat.floor_add_intCast, hhalf]; omega
  · rw [← Rat.intCast_neg, Rat.add_comm, Rat.floor_add_intCast, hhalf]; omega

/-- `CD.step` on an integer distance. -/
def stepI (c : CD) (t : Bool × Int × Dir) : CD :=
  if t.1 = true ∧ t.2.1 < c.mind then ⟨t.2.1, t.2.1, t.2.2⟩ else c

theorem cd_step_int (c : CD) (en : Bool) (d : Int) (dir : Dir) :
    c.step en (d : Rat) dir = stepI c (en, d, dir) := by
  unfold CD.step stepI
  simp only [Rat.intCast_lt_intCast, lround_intCast]

theorem closestI_spec (l : List (Bool × Int × Dir)) (c : CD) :
    (l.foldl stepI c).mind ≤ c.mind ∧
    (∀ t ∈ l, t.1 = true → (l.foldl stepI c).mind ≤ t.2.1) ∧
    (l.foldl stepI c = c ∨ ∃ t ∈ l, t.1 = true ∧ l.foldl stepI c = ⟨t.2.1, t.2.1, t.2.2⟩) := by
  induction l generalizing c with
  | nil => simp
  | cons t ts ih =>
    simp only [List.foldl_cons, List.mem_cons]
    obtain ⟨h1, h2, h3⟩ := ih (stepI c t)
    by_cases hc : t.1 = true ∧ t.2.1 < c.mind
    · have hs : stepI c t = ⟨t.2.1, t.2.1, t.2.2⟩ := by simp only [stepI, hc, and_self, if_true]
      rw [hs] at h1 h2 h3 ⊢
      simp only at h1
      refine ⟨by omega, ?_, ?_⟩
      · intro t' ht' hen
        rcases ht' with rfl | ht'
        · exact h1
        · exact h2 t' ht' hen
      · right
        rcases h3 with h3 | ⟨t', ht', hen, he⟩
        · exact ⟨t, Or.inl rfl, hc.1, h3⟩
        · exact ⟨t', Or.inr ht', hen, he⟩
    · have hs : stepI c t = c := by simp only [stepI, hc, if_false]
      rw [hs] at h1 h2 h3 ⊢
      refine ⟨h1, ?_, ?_⟩
      · intro t' ht' hen
        rcases ht' with rfl | ht'
        · have : ¬ t'.2.1 < c.mind := fun hlt => hc ⟨hen, hlt⟩
          omega
        · exact h2 t' ht' hen
      · rcases h3 with h3 | ⟨t', ht', hen, he⟩
        · exact Or.inl h3
        · exact Or.inr ⟨t', Or.inr ht', hen, he⟩

theorem closestDirection_int (dirs : Dirs) (ns ew : Int) (i j : Int) (b : Box) :
    closestDirection dirs (ns : Rat) (ew : Rat) i j b =
      (([(dirs.n, (i - b.n) * ns, Dir.N), (dirs.s, (b.s - i) * ns, Dir.S),
         (dirs.e, (b.e - j) * ew, Dir.E), (dirs.w, (j - b.w) * ew, Dir.W)].foldl stepI ⟨intMax, 0, .N⟩).dist,
       ([(dirs.n, (i - b.n) * ns, Dir.N), (dirs.s, (b.s - i) * ns, Dir.S),
         (dirs.e, (b.e - j) * ew, Dir.E), (dirs.w, (j - b.w) * ew, Dir.W)].foldl stepI ⟨intMax, 0, .N⟩).dir) := by
  unfold closestDirection
  simp only [← Rat.intCast_mul, cd_step_int, List.foldl_cons, List.foldl_nil]

/-- With integer resolutions `closest_direction` returns an enabled side at minimal distance. -/
theorem closestDirection_spec (dirs : Dirs) (ns ew : Int) (c : Cell) (b : Box)
    (hen : ∃ d, dirs.enabled d = true)
    (hb : ∀ d, dirs.enabled d = true → sideDist b ns ew c d < intMax) :
    dirs.enabled (closestDirection dirs (ns : Rat) (ew : Rat) c.1 c.2 b).2 = true ∧
    (closestDirection dirs (ns : Rat) (ew : Rat) c.1 c.2 b).1 =
      sideDist b ns ew c (closestDirection dirs (ns : Rat) (ew : Rat) c.1 c.2 b).2 ∧
    ∀ d, dirs.enabled d = true →
      (closestDirection dirs (ns : Rat) (ew : Rat) c.1 c.2 b).1 ≤ sideDist b ns ew c d := by
  rw [closestDirection_int]
  generalize hl : [(dirs.n, (c.1 - b.n) * ns, Dir.N), (dirs.s, (b.s - c.1) * ns, Dir.S),
         (dirs.e, (b.e - c.2) * ew, Dir.E), (dirs.w, (c.2 - b.w) * ew, Dir.W)] = l
  -- every entry is (enabled d, sideDist d, d), and every direction has an entry
  have hform : ∀ t ∈ l, t.1 = dirs.enabled t.2.2 ∧ t.2.1 = sideDist b ns ew c t.2.2 := by
    subst hl; intro t ht
    simp only [List.mem_cons, List.not_mem_nil, or_false] at ht
    rcases ht with rfl | rfl | rfl | rfl <;> exact ⟨rfl, rfl⟩
  have hall : ∀ d, dirs.enabled d = true → ∃ t ∈ l, t.2.2 = d := by
    subst hl; intro d hd
    cases d with
    | N => exact ⟨(dirs.n, (c.1 - b.n) * ns, Dir.N), by simp, rfl⟩
    | S => exact ⟨(dirs.s, (b.s - c.1) * ns, Dir.S), by simp, rfl⟩
    | E => exact ⟨(dirs.e, (b.e - c.2) * ew, Dir.E), by simp, rfl⟩
    | W => exact ⟨(dirs.w, (c.2 - b.w) * ew, Dir.W), by simp, rfl⟩
    | none => simp [Dirs.enabled] at hd
  obtain ⟨h1, h2, h3⟩ := closestI_spec l ⟨intMax, 0, .N⟩
  have hmin : ∀ d, dirs.enabled d = true → (l.foldl stepI ⟨intMax, 0, .N⟩).mind ≤ sideDist b ns ew c d := by
    intro d hd
    obtain ⟨t, ht, rfl⟩ := hall d hd
    have hf := hform t ht
    have := h2 t ht (by rw [hf.1]; exact hd)
    rw [hf.2] at this; exact this
  rcases h3 with h3 | ⟨t, ht, hten, he⟩
  · exfalso
    obtain ⟨d, hd⟩ := hen
    have := hmin d hd
    have := hb d hd
    rw [h3] at *
    simp only at *
    omega
  · have hf := hform t ht
    rw [he] at hmin ⊢
    simp only at hmin ⊢
    refine ⟨by rw [← hf.1]; exact hten, hf.2, ?_⟩
    intro d hd
    exact hmin d hd

/-! ### the loop of `action` -/

theorem escapeLoop_escape (q : Quarantine) (inf areas : IRaster) :
    ∀ (cells : List Cell) (acc : Option (Int × Dir)),
      (∀ c ∈ cells, inf.at c.1 c.2 ≠ 0 → areas.at c.1 c.2 ≠ 0 → lookupBox q.table (areas.at c.1 c.2) ≠ none) →
      (∃ c ∈ cells, inf.at c.1 c.2 ≠ 0 ∧ areas.at c.1 c.2 = 0) →
      escapeLoop q inf areas cells acc = .ok none := by
  intro cells
  induction cells with
  | nil => intro _ _ h; obtain ⟨c, hc, _⟩ := h; simp at hc
  | cons c cs ih =>
    intro acc hlk hex
    unfold escapeLoop
    by_cases h0 : inf.at c.1 c.2 = 0
    · rw [if_pos h0]
      apply ih _ (fun x hx => hlk x (by simp [hx]))
      obtain ⟨x, hx, h1, h2⟩ := hex
      rcases List.mem_cons.mp hx with rfl | hx
      · exact absurd h0 h1
      · exact ⟨x, hx, h1, h2⟩
    · rw [if_neg h0]
      by_cases ha : areas.at c.1 c.2 = 0
      · rw [if_pos ha]
      · rw [if_neg ha]
        have := hlk c (by simp) h0 ha
        cases hb : lookupBox q.table (areas.at c.1 c.2) with
        | none => exact absurd hb this
        | some b =>
          simp only
          apply ih _ (fun x hx => hlk x (by simp [hx]))
          obtain ⟨x, hx, h1, h2⟩ := hex
          rcases List.mem_cons.mp hx with rfl | hx
          · exact absurd h2 ha
          · exact ⟨x, hx, h1, h2⟩

/-- No infected cell with area 0: the loop ends with a running minimum `acc'` that is either the
    start value or the result of `closest_direction` for an infected cell, and that is not larger
    than the start value nor than the result for any infected cell. -/
theorem escapeLoop_contained (q : Quarantine) (inf areas : IRaster) :
    ∀ (cells : List Cell) (acc : Option (Int × Dir)),
      (∀ c ∈ cells, inf.at c.1 c.2 ≠ 0 → areas.at c.1 c.2 ≠ 0 ∧ lookupBox q.table (areas.at c.1 c.2) ≠ none) →
      ∃ acc', escapeLoop q inf areas cells acc = .ok (some acc') ∧
        (acc' = acc ∨ ∃ c ∈ cells, inf.at c.1 c.2 ≠ 0 ∧ ∃ b, lookupBox q.table (areas.at c.1 c.2) = some b ∧
            acc' = some (closestDirection q.dirs q.ns q.ew c.1 c.2 b)) ∧
        (∀ m, acc = some m → ∃ m', acc' = some m' ∧ m'.1 ≤ m.1) ∧
        (∀ c ∈ cells, inf.at c.1 c.2 ≠ 0 → ∀ b, lookupBox q.table (areas.at c.1 c.2) = some b →
            ∃ m', acc' = some m' ∧ m'.1 ≤ (closestDirection q.dirs q.ns q.ew c.1 c.2 b).1) := by
  intro cells
  induction cells with
  | nil => intro acc _; exact ⟨acc, rfl, Or.inl rfl, fun m hm => ⟨m, hm, Int.le_refl _⟩, by simp⟩
  | cons c cs ih =>
    intro acc hok
    have hok' : ∀ x ∈ cs, inf.at x.1 x.2 ≠ 0 → areas.at x.1 x.2 ≠ 0 ∧ lookupBox q.table (areas.at x.1 x.2) ≠ none :=
      fun x hx => hok x (by simp [hx])
    unfold escapeLoop
    by_cases h0 : inf.at c.1 c.2 = 0
    · rw [if_pos h0]
      obtain ⟨acc', hrun, hsrc, hle, hmin⟩ := ih acc hok'
      refine ⟨acc', hrun, ?_, hle, ?_⟩
      · rcases hsrc with h | ⟨x, hx, h⟩
        · exact Or.inl h
        · exact Or.inr ⟨x, by simp [hx], h⟩
      · intro x hx hxi b hb
        rcases List.mem_cons.mp hx with rfl | hx
        · exact absurd h0 hxi
        · exact hmin x hx hxi b hb
    · rw [if_neg h0]
      obtain ⟨ha, hl⟩ := hok c (by simp) h0
      rw [if_neg ha]
      cases hb : lookupBox q.table (areas.at c.1 c.2) with
      | none => exact absurd hb hl
      | some b =>
        simp only
        generalize hdd : closestDirection q.dirs q.ns q.ew c.1 c.2 b = dd
        obtain ⟨acc', hrun, hsrc, hle, hmin⟩ := ih (if closer dd.1 acc then some dd else acc) hok'
        -- the new running value is not larger than the old one nor than `dd`
        have hnew : (∀ m, acc = some m → ∃ m', (if closer dd.1 acc then some dd else acc) = some m' ∧ m'.1 ≤ m.1) ∧
            ∃ m', (if closer dd.1 acc then some dd else acc) = some m' ∧ m'.1 ≤ dd.1 := by
          cases acc with
          | none => simp [closer]
          | some m =>
            by_cases hlt : dd.1 < m.1
            · simp only [closer, hlt, decide_true, if_true]
              exact ⟨fun m0 hm0 => ⟨dd, rfl, by cases hm0; omega⟩, dd, rfl, Int.le_refl _⟩
            · simp only [closer, hlt, decide_false, Bool.false_eq_true, if_false]
              exact ⟨fun m0 hm0 => ⟨m, rfl, by cases hm0; omega⟩, m, rfl, by omega⟩
        refine ⟨acc', hrun, ?_, ?_, ?_⟩
        · rcases hsrc with h | ⟨x, hx, h⟩
          · by_cases hcl : closer dd.1 acc = true
            · right
              refine ⟨c, by simp, h0, b, hb, ?_⟩
              rw [h, if_pos hcl, hdd]
            · left; rw [h, if_neg hcl]
          · exact Or.inr ⟨x, by simp [hx], h⟩
        · intro m hm
          obtain ⟨m1, hm1, hle1⟩ := hnew.1 m hm
          obtain ⟨m2, hm2, hle2⟩ := hle m1 hm1
          exact ⟨m2, hm2, by omega⟩
        · intro x hx hxi bx hbx
          rcases List.mem_cons.mp hx with rfl | hx
          · rw [hb] at hbx
            cases hbx
            obtain ⟨m1, hm1, hle1⟩ := hnew.2
            obtain ⟨m2, hm2, hle2⟩ := hle m1 hm1
            exact ⟨m2, hm2, by rw [hdd]; omega⟩
          · exact hmin x hx hxi bx hbx

/-! ### runs -/

theorem collectInfos_ok (step : Nat) :
    ∀ (runs : List Quarantine), (∀ q ∈ runs, step < q.infos.length) →
      collectInfos step runs = .ok (runs.map fun q => q.infos.getD step default) := by
  intro runs
  induction runs with
  | nil => intro _; rfl
  | cons q qs ih =>
    intro h
    have hq := h q (by simp)
    have hinfo : q.escapeInfo step = .ok (q.infos.getD step default) := by
      unfold Quarantine.escapeInfo
      rw [List.getElem?_eq_getElem hq]
      simp [List.getD, List.getElem?_eq_getElem hq]
    simp only [collectInfos, hinfo, ih (fun x hx => h x (by simp [hx])), List.map_cons]

theorem countP_map_escaped (l : List EscapeInfo) :
    l.countP (·.escaped) = (l.map (·.escaped)).countP (· = true) := by
  induction l with
  | nil => rfl
  | cons x xs ih => simp [List.countP_cons, ih]

end Pops.Metric
