/-
  Lemmas for C18, part 2: quarantine area boxes, closest direction, the escape loop.
-/
import PopsModel.Lemmas.Metric
namespace Pops.Metric

/-! ### the id -> box table -/

/-- `boundaries.at(boundary_id_idx_map.find(v))` for a present id. -/
def findBox (tbl : List (Int × Box)) (v : Int) : Option Box :=
  (tbl.find? (fun en => en.1 == v)).map (·.2)

theorem lookupBox_of_findBox {tbl : List (Int × Box)} {v : Int} {b : Box}
    (h : findBox tbl v = some b) : lookupBox tbl v = some b := by
  unfold findBox at h
  unfold lookupBox
  cases hf : tbl.find? (fun en => en.1 == v) with
  | none => simp [hf] at h
  | some en => simp [hf] at h; simp [h]

theorem find_map_keep (f : Int × Box → Int × Box) (hf : ∀ en, (f en).1 = en.1) (v : Int)
    (tbl : List (Int × Box)) :
    (tbl.map f).find? (fun en => en.1 == v) = (tbl.find? (fun en => en.1 == v)).map f := by
  induction tbl with
  | nil => rfl
  | cons en rest ih =>
    simp only [List.map_cons, List.find?_cons, hf]
    cases en.1 == v <;> simp [ih]

theorem findBox_update_self (h w : Int) (tbl : List (Int × Box)) (v i j : Int) :
    findBox (tableUpdate h w tbl v i j) v =
      some (((findBox tbl v).getD (initBox h w)).extend i j) := by
  unfold tableUpdate findBox
  by_cases hany : tbl.any (fun en => en.1 == v) = true
  · rw [if_pos hany, find_map_keep _ (by intro en; split <;> rfl)]
    cases hf : tbl.find? (fun en => en.1 == v) with
    | none =>
      rw [List.find?_eq_none] at hf
      obtain ⟨en, hen, hk⟩ := List.any_eq_true.mp hany
      exact absurd hk (hf en hen)
    | some en =>
      have hk := List.find?_some hf
      have hk' : en.1 = v := by simpa using hk
      simp [hk']
  · rw [if_neg hany]
    have hnone : tbl.find? (fun en => en.1 == v) = none := by
      rw [List.find?_eq_none]
      intro en hen hk
      exact hany (List.any_eq_true.mpr ⟨en, hen, hk⟩)
    simp [List.find?_append, hnone]

theorem findBox_update_ne (h w : Int) (tbl : List (Int × Box)) (v v' i j : Int) (hne : v' ≠ v) :
    findBox (tableUpdate h w tbl v i j) v' = findBox tbl v' := by
  unfold tableUpdate findBox
  by_cases hany : tbl.any (fun en => en.1 == v) = true
  · rw [if_pos hany, find_map_keep _ (by intro en; split <;> rfl)]
    cases hf : tbl.find? (fun en => en.1 == v') with
    | none => rfl
    | some en =>
      have hk := List.find?_some hf
      have : en.1 = v' := by simpa using hk
      have hne' : ¬ en.1 = v := by rw [this]; exact hne
      simp [hne']
  · rw [if_neg hany]
    have : ((v == v') = false) := by simp; exact fun h => hne h.symm
    simp [List.find?_append, this]

theorem findBox_fold (h w : Int) (areas : IRaster) (v : Int) (hv : 0 < v) :
    ∀ (cs : List Cell) (tbl : List (Int × Box)),
      findBox (cs.foldl (boundaryTableStep h w areas) tbl) v =
        if (cs.filter fun c => areas.at c.1 c.2 = v).isEmpty then findBox tbl v
        else some (foldBox ((findBox tbl v).getD (initBox h w)) (cs.filter fun c => areas.at c.1 c.2 = v)) := by
  intro cs
  induction cs with
  | nil => intro tbl; rfl
  | cons c cs ih =>
    intro tbl
    rw [List.foldl_cons, ih]
    by_cases hc : areas.at c.1 c.2 = v
    · have hpos : areas.at c.1 c.2 > 0 := by omega
      have hstep : boundaryTableStep h w areas tbl c = tableUpdate h w tbl v c.1 c.2 := by
        simp only [boundaryTableStep, hc]
        exact if_pos hv
      rw [hstep, findBox_update_self]
      simp only [List.filter_cons, hc, decide_true, if_true, List.isEmpty_cons, Option.getD_some,
        foldBox_cons]
      split
      · rename_i he
        rw [List.isEmpty_iff.mp he]; rfl
      · rfl
    · have hstep : findBox (boundaryTableStep h w areas tbl c) v = findBox tbl v := by
        unfold boundaryTableStep
        split
        · exact findBox_update_ne h w tbl _ v _ _ (fun e => hc e.symm)
        · rfl
      simp only [List.filter_cons, hc, decide_false, hstep]
      rfl

/-- The constructor's table holds, for every positive id, the definitional box of that area. -/
theorem findBox_quarantineBoundary (areas : IRaster) (v : Int) (hv : 0 < v) :
    findBox (quarantineBoundary areas) v = specAreaBox areas v := by
  unfold quarantineBoundary
  rw [findBox_fold _ _ _ _ hv]
  have hL : ((allCells areas.rows areas.cols).filter fun c => areas.at c.1 c.2 = v) = areaCells areas v := rfl
  rw [hL]
  unfold specAreaBox
  cases hA : areaCells areas v with
  | nil => rfl
  | cons c cs =>
    have hc : c ∈ areaCells areas v := by rw [hA]; simp
    have hr : InRange areas.rows areas.cols c := by
      unfold areaCells at hc
      exact mem_allCells.mp (List.mem_filter.mp hc).1
    simp only [List.isEmpty_cons, Bool.false_eq_true, if_false]
    have : findBox ([] : List (Int × Box)) v = none := rfl
    rw [this, Option.getD_none]
    exact foldBox_init _ _ c cs hr

/-! ### first minimum of a list of (exact distance, side) pairs -/

/-- The earlier pair `a` stays unless the later pair `b` is strictly nearer. -/
def better (a b : Rat × Dir) : Rat × Dir := if b.1 < a.1 then b else a

theorem better_assoc (a b c : Rat × Dir) : better (better a b) c = better a (better b c) := by
  unfold better
  split <;> split <;> (try split) <;> (try split) <;> grind

theorem foldl_better_assoc (a : Rat × Dir) : ∀ (ys : List (Rat × Dir)) (x : Rat × Dir),
    ys.foldl better (better a x) = better a (ys.foldl better x) := by
  intro ys
  induction ys with
  | nil => intro x; rfl
  | cons y ys ih =>
    intro x
    rw [List.foldl_cons, List.foldl_cons, better_assoc, ih]

/-- Running choice with `none` = nothing met yet. -/
def betterOpt (acc : Option (Rat × Dir)) (x : Rat × Dir) : Option (Rat × Dir) :=
  match acc with
  | none => some x
  | some a => some (better a x)

/-- Strict-`<` scan of a list from the start value `acc`. -/
def firstMin (acc : Option (Rat × Dir)) (l : List (Rat × Dir)) : Option (Rat × Dir) :=
  l.foldl betterOpt acc

theorem firstMin_some (a : Rat × Dir) : ∀ (l : List (Rat × Dir)),
    firstMin (some a) l = some (l.foldl better a) := by
  intro l
  induction l generalizing a with
  | nil => rfl
  | cons x xs ih => exact ih (better a x)

theorem firstMin_none_cons (x : Rat × Dir) (xs : List (Rat × Dir)) :
    firstMin none (x :: xs) = some (xs.foldl better x) := firstMin_some x xs

theorem firstMin_append (acc : Option (Rat × Dir)) (l1 l2 : List (Rat × Dir)) :
    firstMin acc (l1 ++ l2) = firstMin (firstMin acc l1) l2 := by
  unfold firstMin; rw [List.foldl_append]

/-- Scanning a non-empty block from `acc` is one comparison of `acc` with the block's own first
    minimum (left-biased minimum is associative). -/
theorem firstMin_block (acc : Option (Rat × Dir)) (l : List (Rat × Dir)) (m : Rat × Dir)
    (h : firstMin none l = some m) : firstMin acc l = betterOpt acc m := by
  cases l with
  | nil => cases h
  | cons x xs =>
    rw [firstMin_none_cons] at h
    cases h
    cases acc with
    | none => exact firstMin_none_cons x xs
    | some a =>
      rw [firstMin_some, List.foldl_cons, foldl_better_assoc]
      rfl

/-- The result of the scan sits at a position of the list such that everything before it is
    strictly farther and everything after it is at least as far. -/
theorem foldl_better_split : ∀ (l : List (Rat × Dir)) (a : Rat × Dir),
    ∃ pre post, a :: l = pre ++ (l.foldl better a) :: post ∧
      (∀ x ∈ pre, (l.foldl better a).1 < x.1) ∧ (∀ y ∈ post, (l.foldl better a).1 ≤ y.1) := by
  intro l
  induction l with
  | nil => intro a; exact ⟨[], [], rfl, by simp, by simp⟩
  | cons x xs ih =>
    intro a
    rw [List.foldl_cons]
    obtain ⟨pre, post, hsplit, hpre, hpost⟩ := ih (better a x)
    generalize xs.foldl better (better a x) = m at hsplit hpre hpost ⊢
    by_cases hlt : x.1 < a.1
    · have hb : better a x = x := by simp [better, hlt]
      rw [hb] at hsplit
      have hx : m.1 ≤ x.1 := by
        cases pre with
        | nil =>
          simp only [List.nil_append, List.cons.injEq] at hsplit
          rw [hsplit.1]; exact Rat.le_refl
        | cons p ps =>
          simp only [List.cons_append, List.cons.injEq] at hsplit
          have := hpre p (by simp)
          rw [← hsplit.1] at this
          exact Rat.le_of_lt this
      refine ⟨a :: pre, post, by rw [hsplit]; rfl, ?_, hpost⟩
      intro y hy
      rcases List.mem_cons.mp hy with rfl | hy
      · grind
      · exact hpre y hy
    · have hb : better a x = a := by simp [better, hlt]
      rw [hb] at hsplit
      have hax : a.1 ≤ x.1 := Rat.not_lt.mp hlt
      cases pre with
      | nil =>
        simp only [List.nil_append, List.cons.injEq] at hsplit
        refine ⟨[], x :: xs, by rw [hsplit.1]; rfl, by simp, ?_⟩
        intro y hy
        rcases List.mem_cons.mp hy with rfl | hy
        · rw [← hsplit.1]; exact hax
        · rw [hsplit.2] at hy; exact hpost y hy
      | cons p ps =>
        simp only [List.cons_append, List.cons.injEq] at hsplit
        refine ⟨a :: x :: ps, post, by rw [hsplit.2]; rfl, ?_, hpost⟩
        have hma : m.1 < a.1 := by rw [hsplit.1]; exact hpre p (by simp)
        intro y hy
        rcases List.mem_cons.mp hy with rfl | hy
        · exact hma
        · rcases List.mem_cons.mp hy with rfl | hy
          · grind
          · exact hpre y (by simp [hy])

/-! ### closest direction: exact distances -/

theorem dblMax_pos : (0 : Rat) < (dblMax : Rat) := by
  have h : (0 : Int) < dblMax := by decide +kernel
  exact_mod_cast h

/-- The (exact distance, side) pairs of one cell: enabled sides of box `b`, order N, S, E, W. -/
def cellCands (dirs : Dirs) (ns ew : Rat) (c : Cell) (b : Box) : List (Rat × Dir) :=
  (fourDirs.filter dirs.enabled).map fun d => (sideDist b ns ew c d, d)

/-- The state of `closest_direction` after some of its four `if`s, related to a strict-`<` scan. -/
def CD.Rel (c : CD) (acc : Option (Rat × Dir)) : Prop :=
  (acc = none ∧ c = CD.init) ∨ (∃ a, acc = some a ∧ c = ⟨a.1, a.1, a.2⟩ ∧ a.1 < (dblMax : Rat))

theorem cd_step_rel (c : CD) (acc : Option (Rat × Dir)) (en : Bool) (x : Rat) (d : Dir)
    (h : c.Rel acc) (hx : x < (dblMax : Rat)) :
    (c.step en x d).Rel (if en = true then betterOpt acc (x, d) else acc) := by
  cases en with
  | false => simpa [CD.step] using h
  | true =>
    simp only [CD.step, true_and, if_true]
    rcases h with ⟨rfl, rfl⟩ | ⟨a, rfl, rfl, ha⟩
    · have : x < CD.init.mind := hx
      rw [if_pos this]
      exact Or.inr ⟨(x, d), rfl, rfl, hx⟩
    · simp only [betterOpt, better]
      by_cases hlt : x < a.1
      · rw [if_pos hlt, if_pos hlt]
        exact Or.inr ⟨(x, d), rfl, rfl, hx⟩
      · rw [if_neg hlt, if_neg hlt]
        exact Or.inr ⟨a, rfl, rfl, ha⟩

theorem firstMin_cellCands (dirs : Dirs) (f : Dir → Rat × Dir) (acc : Option (Rat × Dir)) :
    firstMin acc ((fourDirs.filter dirs.enabled).map f) =
      (if dirs.w = true then betterOpt
        (if dirs.e = true then betterOpt
          (if dirs.s = true then betterOpt
            (if dirs.n = true then betterOpt acc (f .N) else acc) (f .S)
           else (if dirs.n = true then betterOpt acc (f .N) else acc)) (f .E)
         else (if dirs.s = true then betterOpt
            (if dirs.n = true then betterOpt acc (f .N) else acc) (f .S)
           else (if dirs.n = true then betterOpt acc (f .N) else acc))) (f .W)
       else (if dirs.e = true then betterOpt
          (if dirs.s = true then betterOpt
            (if dirs.n = true then betterOpt acc (f .N) else acc) (f .S)
           else (if dirs.n = true then betterOpt acc (f .N) else acc)) (f .E)
         else (if dirs.s = true then betterOpt
            (if dirs.n = true then betterOpt acc (f .N) else acc) (f .S)
           else (if dirs.n = true then betterOpt acc (f .N) else acc)))) := by
  obtain ⟨n, s, e, w⟩ := dirs
  cases n <;> cases s <;> cases e <;> cases w <;> rfl

/-- `closest_direction` returns the first minimum of the cell's candidates (all of which are
    below the start value `DBL_MAX`), with the exact distance. -/
theorem closestDirection_firstMin (dirs : Dirs) (ns ew : Rat) (c : Cell) (b : Box)
    (hen : ∃ d, dirs.enabled d = true)
    (hb : ∀ d, sideDist b ns ew c d < (dblMax : Rat)) :
    firstMin none (cellCands dirs ns ew c b) = some (closestDirection dirs ns ew c.1 c.2 b) ∧
    (closestDirection dirs ns ew c.1 c.2 b).1 < (dblMax : Rat) := by
  have r0 : CD.init.Rel none := Or.inl ⟨rfl, rfl⟩
  have r1 := cd_step_rel _ _ dirs.n _ .N r0 (hb .N)
  have r2 := cd_step_rel _ _ dirs.s _ .S r1 (hb .S)
  have r3 := cd_step_rel _ _ dirs.e _ .E r2 (hb .E)
  have r4 := cd_step_rel _ _ dirs.w _ .W r3 (hb .W)
  have hfm := firstMin_cellCands dirs (fun d => (sideDist b ns ew c d, d)) none
  unfold cellCands
  rw [hfm]
  have hne : (fourDirs.filter dirs.enabled).map (fun d => (sideDist b ns ew c d, d)) ≠ [] := by
    obtain ⟨d, hd⟩ := hen
    have hm : d ∈ fourDirs.filter dirs.enabled := by
      refine List.mem_filter.mpr ⟨?_, hd⟩
      cases d <;> simp [fourDirs, Dirs.enabled] at hd ⊢
    intro h
    rw [List.map_eq_nil_iff] at h
    rw [h] at hm; simp at hm
  rcases r4 with ⟨hnone, _⟩ | ⟨a, hsome, hc4, ha⟩
  · exfalso
    rw [← hfm] at hnone
    cases hl : (fourDirs.filter dirs.enabled).map (fun d => (sideDist b ns ew c d, d)) with
    | nil => exact hne hl
    | cons x xs => rw [hl, firstMin_none_cons] at hnone; cases hnone
  · have hcd : closestDirection dirs ns ew c.1 c.2 b = a := by
      simp only [sideDist] at hc4
      simp only [closestDirection, hc4]
    rw [hcd]
    exact ⟨hsome, ha⟩

/-! ### the loop of `action` -/

theorem escapeLoop_escape (q : Quarantine) (inf areas : IRaster) :
    ∀ (cells : List Cell) (acc : Option (Rat × Dir)),
      (∀ c ∈ cells, inf.at c.1 c.2 ≠ 0 → areas.at c.1 c.2 ≠ 0 → lookupBox q.table (areas.at c.1 c.2) ≠ none) →
      (∃ c ∈ cells, inf.at c.1 c.2 ≠ 0 ∧ areas.at c.1 c.2 = 0) →
      escapeLoop q inf areas cells acc = .ok none := by
  intro cells
  induction cells with
  | nil => intro _ _ h; obtain ⟨c, hc, _⟩ := h; simp at hc
  | cons c cs ih =>
    intro acc hlk hex
    unfold escapeLoop
    by_cases h0 : inf.at c.1 c.2 = 0
    · rw [if_pos h0]
      apply ih _ (fun x hx => hlk x (by simp [hx]))
      obtain ⟨x, hx, h1, h2⟩ := hex
      rcases List.mem_cons.mp hx with rfl | hx
      · exact absurd h0 h1
      · exact ⟨x, hx, h1, h2⟩
    · rw [if_neg h0]
      by_cases ha : areas.at c.1 c.2 = 0
      · rw [if_pos ha]
      · rw [if_neg ha]
        have := hlk c (by simp) h0 ha
        cases hb : lookupBox q.table (areas.at c.1 c.2) with
        | none => exact absurd hb this
        | some b =>
          simp only
          apply ih _ (fun x hx => hlk x (by simp [hx]))
          obtain ⟨x, hx, h1, h2⟩ := hex
          rcases List.mem_cons.mp hx with rfl | hx
          · exact absurd h2 ha
          · exact ⟨x, hx, h1, h2⟩

/-- No infected cell with area 0 and every needed table lookup succeeds: the loop runs to its end. -/
theorem escapeLoop_no_escape (q : Quarantine) (inf areas : IRaster) :
    ∀ (cells : List Cell) (acc : Option (Rat × Dir)),
      (∀ c ∈ cells, inf.at c.1 c.2 ≠ 0 → areas.at c.1 c.2 ≠ 0 ∧ lookupBox q.table (areas.at c.1 c.2) ≠ none) →
      ∃ acc', escapeLoop q inf areas cells acc = .ok (some acc') := by
  intro cells
  induction cells with
  | nil => intro acc _; exact ⟨acc, rfl⟩
  | cons c cs ih =>
    intro acc hok
    have hok' : ∀ x ∈ cs, inf.at x.1 x.2 ≠ 0 → areas.at x.1 x.2 ≠ 0 ∧ lookupBox q.table (areas.at x.1 x.2) ≠ none :=
      fun x hx => hok x (by simp [hx])
    unfold escapeLoop
    by_cases h0 : inf.at c.1 c.2 = 0
    · rw [if_pos h0]; exact ih acc hok'
    · rw [if_neg h0]
      obtain ⟨ha, hl⟩ := hok c (by simp) h0
      rw [if_neg ha]
      cases hb : lookupBox q.table (areas.at c.1 c.2) with
      | none => exact absurd hb hl
      | some b => exact ih _ hok'

/-- What the infected listed cells need for the distance search: a positive id whose table entry
    is the definitional box `b` of the cell's own area, every side of which is nearer than the start
    value `DBL_MAX`. -/
def CellOK (q : Quarantine) (areas : IRaster) (c : Cell) : Prop :=
  areas.at c.1 c.2 ≠ 0 ∧ ∃ b, lookupBox q.table (areas.at c.1 c.2) = some b ∧
    specAreaBox areas (areas.at c.1 c.2) = some b ∧ ∀ d, sideDist b q.ns q.ew c d < (dblMax : Rat)

/-- No infected cell with area 0: the loop ends with the strict-`<` scan, from its start value,
    of all candidates (infected cell, enabled side) in list order. -/
theorem escapeLoop_contained (q : Quarantine) (inf areas : IRaster) (hen : ∃ d, q.dirs.enabled d = true) :
    ∀ (cells : List Cell) (acc : Option (Rat × Dir)),
      (∀ c ∈ cells, inf.at c.1 c.2 ≠ 0 → CellOK q areas c) →
      escapeLoop q inf areas cells acc =
        .ok (some (firstMin acc (nearestCandidates inf areas cells q.dirs q.ns q.ew))) := by
  intro cells
  induction cells with
  | nil => intro acc _; rfl
  | cons c cs ih =>
    intro acc hok
    have hok' : ∀ x ∈ cs, inf.at x.1 x.2 ≠ 0 → CellOK q areas x := fun x hx => hok x (by simp [hx])
    unfold escapeLoop
    by_cases h0 : inf.at c.1 c.2 = 0
    · rw [if_pos h0, ih acc hok']
      have : presentCells inf (c :: cs) = presentCells inf cs := by
        simp [presentCells, h0]
      unfold nearestCandidates
      rw [this]
    · rw [if_neg h0]
      obtain ⟨ha, b, hl, hsb, hbd⟩ := hok c (by simp) h0
      rw [if_neg ha, hl]
      simp only
      have hp : presentCells inf (c :: cs) = c :: presentCells inf cs := by
        simp [presentCells, h0]
      have hc : nearestCandidates inf areas (c :: cs) q.dirs q.ns q.ew =
          cellCands q.dirs q.ns q.ew c b ++ nearestCandidates inf areas cs q.dirs q.ns q.ew := by
        unfold nearestCandidates
        rw [hp, List.flatMap_cons, hsb]
        rfl
      obtain ⟨hfm, hlt⟩ := closestDirection_firstMin q.dirs q.ns q.ew c b hen hbd
      rw [hc, firstMin_append, firstMin_block acc _ _ hfm, ih _ hok']
      congr 3
      generalize closestDirection q.dirs q.ns q.ew c.1 c.2 b = dd at hlt
      cases acc with
      | none => simp [closer, betterOpt, hlt]
      | some m =>
        by_cases h : dd.1 < m.1
        · simp [closer, betterOpt, better, h]
        · simp [closer, betterOpt, better, h]

/-! ### runs -/

theorem collectInfos_ok (step : Nat) :
    ∀ (runs : List Quarantine), (∀ q ∈ runs, step < q.infos.length) →
      collectInfos step runs = .ok (runs.map fun q => q.infos.getD step default) := by
  intro runs
  induction runs with
  | nil => intro _; rfl
  | cons q qs ih =>
    intro h
    have hq := h q (by simp)
    have hinfo : q.escapeInfo step = .ok (q.infos.getD step default) := by
      unfold Quarantine.escapeInfo
      rw [List.getElem?_eq_getElem hq]
      simp [List.getD, List.getElem?_eq_getElem hq]
    simp only [collectInfos, hinfo, ih (fun x hx => h x (by simp [hx])), List.map_cons]

theorem countP_map_escaped (l : List EscapeInfo) :
    l.countP (·.escaped) = (l.map (·.escaped)).countP (· = true) := by
  induction l with
  | nil => rfl
  | cons x xs ih => simp [List.countP_cons, ih]

end Pops.Metric
