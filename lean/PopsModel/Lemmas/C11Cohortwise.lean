/-
  The mortality tracker as a shift register: position-wise (cohort-wise) bounds along a history.

  One mortality step (`apply_mortality_at`, then `step_forward_mortality` = rotate-left) turns the
  cohorts `x0 :: t` into `t' ++ [0]` with `0 ≤ t'[j] ≤ t[j]` (`mech_mort_step`): index 0 dies
  completely (`apply_mortality_at` visits the indices `0 .. n - lag - 1`, index 0 with the whole
  cohort), every other cohort moves one position down, and the emptied cohort re-enters at the
  back, position `n - 1`. Hence the cohort that sits at position `k` at the end of a history sat at
  position `k + m` when `m` mortality steps were still to come, and - once `k + m ≥ n` is reached
  going backwards - was emptied at index 0 by the `(n - k)`-th last mortality step, exactly
  `n - 1 - k` mortality steps before the end.

  `addedAt n k ops` = what the history adds to that generation: an `add x` with `m` mortality
  steps after it goes to position `n - 1`, so it counts for `k` iff `k + m = n - 1`; an
  `arrive d` adds `d[k + m]` iff `k + m < n`.
-/
import PopsModel.Lemmas.C11Removals
namespace Pops

/-- What one entry adds to the generation that ends at position `k` (tracker length `n`), when
    `m` mortality steps follow the entry. -/
def MortOp.addedAt (n k m : Nat) : MortOp → Int
  | .mortality => 0
  | .add x => if k + m + 1 = n then x else 0
  | .arrive d => if k + m < n then d[k + m]! else 0
  | .remove _ => 0

/-- What a history adds to the generation that ends at position `k`. -/
def addedAt (n k : Nat) : List MortOp → Int
  | [] => 0
  | op :: rest => op.addedAt n k (mortSteps rest) + addedAt n k rest

/-- Additions are non-negative (part of `MortOp.rel`). -/
def MortOp.nonnegAdd : MortOp → Prop
  | .mortality => True
  | .add x => 0 ≤ x
  | .arrive d => ∀ y ∈ d, 0 ≤ y
  | .remove _ => True

/-! ### indexing -/

theorem coh_get_nonneg (d : List Int) (h : ∀ y ∈ d, 0 ≤ y) (j : Nat) : 0 ≤ d[j]! := by
  by_cases hj : j < d.length
  · rw [getElem!_pos d j hj]; exact h _ (List.getElem_mem hj)
  · rw [getElem!_neg d j hj]; exact Int.le_refl 0

theorem coh_get_oob (d : List Int) (j : Nat) (hj : d.length ≤ j) : d[j]! = 0 := by
  rw [getElem!_neg d j (by omega)]; rfl

theorem coh_get_addLast : ∀ (l : List Int) (x : Int) (j : Nat),
    (addLast l x)[j]! = l[j]! + (if j + 1 = l.length then x else 0)
  | [], x, j => by simp [addLast]
  | [y], x, j => by
    cases j with
    | zero => simp [addLast]
    | succ j' => simp [addLast]
  | y :: z :: rest, x, j => by
    cases j with
    | zero => simp [addLast]
    | succ j' =>
      have ih := coh_get_addLast (z :: rest) x j'
      simp only [addLast, List.getElem!_cons_succ, List.length_cons] at ih ⊢
      rw [ih]
      by_cases h : j' + 1 = rest.length + 1
      · simp [h]
      · simp

theorem coh_get_addL : ∀ (m d : List Int) (j : Nat), d.length = m.length →
    (addL m d)[j]! = m[j]! + d[j]!
  | [], [], j, _ => by simp [addL]
  | [], _ :: _, _, h => by simp at h
  | _ :: _, [], _, h => by simp at h
  | x :: xs, y :: ys, j, h => by
    cases j with
    | zero => simp [addL]
    | succ j' =>
      have ih := coh_get_addL xs ys j' (by simpa using h)
      unfold addL at ih ⊢
      simp only [List.zipWith_cons_cons, List.getElem!_cons_succ]
      exact ih

theorem coh_get_subL : ∀ (m d : List Int) (j : Nat), d.length = m.length →
    (subL m d)[j]! = m[j]! - d[j]!
  | [], [], j, _ => by simp [subL]
  | [], _ :: _, _, h => by simp at h
  | _ :: _, [], _, h => by simp at h
  | x :: xs, y :: ys, j, h => by
    cases j with
    | zero => simp [subL]
    | succ j' =>
      have ih := coh_get_subL xs ys j' (by simpa using h)
      unfold subL at ih ⊢
      simp only [List.zipWith_cons_cons, List.getElem!_cons_succ]
      exact ih

theorem coh_get_Dom : ∀ (d m : List Int), mech_Dom d m → ∀ j : Nat, 0 ≤ d[j]! ∧ d[j]! ≤ m[j]!
  | [], [], _, j => by simp
  | [], _ :: _, h, _ => h.elim
  | _ :: _, [], h, _ => h.elim
  | x :: xs, y :: ys, h, j => by
    cases j with
    | zero => simp only [List.getElem!_cons_zero]; exact ⟨h.1, h.2.1⟩
    | succ j' => simp only [List.getElem!_cons_succ]; exact coh_get_Dom xs ys h.2.2 j'

theorem coh_get_snoc_zero : ∀ (t : List Int) (j : Nat), (t ++ [0])[j]! = t[j]!
  | [], j => by cases j <;> simp
  | x :: xs, j => by
    cases j with
    | zero => simp
    | succ j' =>
      have := coh_get_snoc_zero xs j'
      simp only [List.cons_append, List.getElem!_cons_succ]
      exact this

/-! ### one entry: the shift -/

/-- A mortality step moves every cohort one position down and can only shrink it; the last
    position holds the emptied cohort. -/
theorem coh_mortality_shift (rate : Rat) (lag : Int) (hr0 : 0 < rate) (hr1 : rate ≤ 1) (hl0 : 0 ≤ lag)
    (c c1 : Cell) (hnn : ∀ x ∈ c.mort, 0 ≤ x) (hlag : lag < (c.mort.length : Int))
    (h : (CellOp.mortality rate lag).apply c = .ok c1) (j : Nat) :
    0 ≤ c1.mort[j]! ∧ c1.mort[j]! ≤ c.mort[j + 1]! ∧ (j + 1 = c.mort.length → c1.mort[j]! = 0) := by
  cases hc : c.mort with
  | nil => rw [hc] at hlag; simp at hlag; omega
  | cons x0 t =>
    obtain ⟨t', e1, hdom, _⟩ := mech_mort_step c c1 rate lag hr0 hr1 x0 t hc hlag hnn h
    have hlen := mech_Dom_length t' t hdom
    have hd := coh_get_Dom t' t hdom j
    rw [e1, coh_get_snoc_zero, List.getElem!_cons_succ]
    refine ⟨hd.1, hd.2, ?_⟩
    intro hj
    simp only [List.length_cons] at hj
    exact coh_get_oob t' j (by omega)

/-! ### tracking a generation through a history -/

/-- **Shift-register invariant.** Along any history the content of position `k` at the end is at
    most the content of position `k + (number of mortality steps)` at the start - when that
    position exists; nothing otherwise: the cohort has been emptied at index 0 in between - plus
    what the history added to this generation. -/
theorem coh_tracking (rate : Rat) (lag : Int) (hr0 : 0 < rate) (hr1 : rate ≤ 1) (hl0 : 0 ≤ lag)
    (c' : Cell) : ∀ (ops : List MortOp) (cj : Cell), (∀ x ∈ cj.mort, 0 ≤ x) →
      lag < (cj.mort.length : Int) → MortTrace (MortOp.rel rate lag) ops cj c' →
      ∀ k : Nat, k < cj.mort.length →
        c'.mort[k]! ≤ (if k + mortSteps ops < cj.mort.length then cj.mort[k + mortSteps ops]! else 0)
          + addedAt cj.mort.length k ops := by
  intro ops
  induction ops with
  | nil =>
    intro cj _ _ h k hk
    have : c' = cj := h
    subst this
    simp only [mortSteps, Nat.add_zero, hk, if_true, addedAt]; omega
  | cons op rest ih =>
    intro cj hnn hlag h k hk
    obtain ⟨c1, h1, h2⟩ := h
    obtain ⟨f1, f2, _⟩ := mortc_rel_facts rate lag hr0 hr1 hl0 op cj c1 hnn hlag h1
    have hI := ih c1 f1 (by rw [f2]; exact hlag) h2 k (by rw [f2]; exact hk)
    rw [f2] at hI
    cases op with
    | mortality =>
      obtain ⟨s0, s1, s2⟩ := coh_mortality_shift rate lag hr0 hr1 hl0 cj c1 hnn hlag h1 (k + mortSteps rest)
      rw [show mortSteps (MortOp.mortality :: rest) = mortSteps rest + 1 from rfl,
        show k + (mortSteps rest + 1) = k + mortSteps rest + 1 from by omega]
      simp only [addedAt, MortOp.addedAt]
      by_cases ha : k + mortSteps rest + 1 < cj.mort.length
      · have hb : k + mortSteps rest < cj.mort.length := by omega
        simp only [ha, hb, if_true] at hI ⊢; omega
      · by_cases hb : k + mortSteps rest < cj.mort.length
        · have hz := s2 (by omega)
          simp only [ha, hb, if_true, if_false] at hI ⊢; omega
        · simp only [ha, hb, if_false] at hI ⊢; omega
    | add x =>
      obtain ⟨_, hm, _⟩ := h1
      have hg := coh_get_addLast cj.mort x (k + mortSteps rest)
      rw [← hm] at hg
      rw [show mortSteps (MortOp.add x :: rest) = mortSteps rest from rfl]
      simp only [addedAt, MortOp.addedAt]
      by_cases hb : k + mortSteps rest < cj.mort.length
      · simp only [hb, if_true] at hI ⊢; omega
      · simp only [hb, if_false] at hI ⊢
        have : ¬ (k + mortSteps rest + 1 = cj.mort.length) := by omega
        simp only [this, if_false]; omega
    | arrive d =>
      obtain ⟨hl, _, hm, _⟩ := h1
      have hg := coh_get_addL cj.mort d (k + mortSteps rest) hl
      rw [← hm] at hg
      rw [show mortSteps (MortOp.arrive d :: rest) = mortSteps rest from rfl]
      simp only [addedAt, MortOp.addedAt]
      by_cases hb : k + mortSteps rest < cj.mort.length
      · simp only [hb, if_true] at hI ⊢; omega
      · simp only [hb, if_false] at hI ⊢; omega
    | remove d =>
      obtain ⟨hl, hp, hm, _⟩ := h1
      have hg := coh_get_subL cj.mort d (k + mortSteps rest) hl
      rw [← hm] at hg
      have hdom := coh_get_Dom d cj.mort (mech_Dom_of_index d cj.mort hl hp) (k + mortSteps rest)
      rw [show mortSteps (MortOp.remove d :: rest) = mortSteps rest from rfl]
      simp only [addedAt, MortOp.addedAt]
      by_cases hb : k + mortSteps rest < cj.mort.length
      · simp only [hb, if_true] at hI ⊢; omega
      · simp only [hb, if_false] at hI ⊢; omega

/-! ### splitting a history at a mortality step -/

theorem coh_mortSteps_append : ∀ (a b : List MortOp), mortSteps (a ++ b) = mortSteps a + mortSteps b
  | [], b => by simp [mortSteps]
  | op :: rest, b => by
    have := coh_mortSteps_append rest b
    cases op <;> simp only [List.cons_append, mortSteps, this] <;> omega

/-- The mortality step that has exactly `j` mortality steps after it. -/
theorem coh_split (R : MortOp → Cell → Cell → Prop) (c' : Cell) (j : Nat) :
    ∀ (ops : List MortOp) (c : Cell), j < mortSteps ops → MortTrace R ops c c' →
      ∃ pre post c0 c1, ops = pre ++ MortOp.mortality :: post ∧ mortSteps post = j ∧
        MortTrace R pre c c0 ∧ R .mortality c0 c1 ∧ MortTrace R post c1 c' := by
  intro ops
  induction ops with
  | nil => intro c hj _; simp only [mortSteps] at hj; omega
  | cons op rest ih =>
    intro c hj h
    obtain ⟨c1, h1, h2⟩ := h
    have hrec : j < mortSteps rest →
        ∃ pre post c0 c1', op :: rest = pre ++ MortOp.mortality :: post ∧ mortSteps post = j ∧
          MortTrace R pre c c0 ∧ R .mortality c0 c1' ∧ MortTrace R post c1' c' := by
      intro hj'
      obtain ⟨pre, post, a0, a1, e, hm, t1, r, t2⟩ := ih c1 hj' h2
      exact ⟨op :: pre, post, a0, a1, by rw [e]; rfl, hm, ⟨c1, h1, t1⟩, r, t2⟩
    cases op with
    | mortality =>
      by_cases he : mortSteps rest = j
      · exact ⟨[], rest, c, c1, rfl, he, rfl, h1, h2⟩
      · simp only [mortSteps] at hj
        exact hrec (by omega)
    | add x => exact hrec (by simpa only [mortSteps] using hj)
    | arrive d => exact hrec (by simpa only [mortSteps] using hj)
    | remove d => exact hrec (by simpa only [mortSteps] using hj)

/-- Entries followed by at least `n - k` mortality steps add nothing to the generation at `k`. -/
theorem coh_addedAt_op_zero (n k m : Nat) (op : MortOp) (h : n ≤ k + m) : op.addedAt n k m = 0 := by
  cases op with
  | mortality => rfl
  | add x => have : ¬ (k + m + 1 = n) := by omega
             simp only [MortOp.addedAt, this, if_false]
  | arrive d => have : ¬ (k + m < n) := by omega
                simp only [MortOp.addedAt, this, if_false]
  | remove d => rfl

theorem coh_addedAt_append (n k : Nat) : ∀ (pre post : List MortOp), n ≤ k + mortSteps post →
    addedAt n k (pre ++ post) = addedAt n k post
  | [], _, _ => rfl
  | op :: rest, post, h => by
    have ih := coh_addedAt_append n k rest post h
    have hm := coh_mortSteps_append rest post
    simp only [List.cons_append, addedAt, ih]
    rw [coh_addedAt_op_zero n k _ op (by omega)]
    omega

/-! ### sums over positions -/

/-- `sum_{k < n} f k`. -/
def sumRange (n : Nat) (f : Nat → Int) : Int := sumL ((List.range n).map f)

theorem sr_zero_len (f : Nat → Int) : sumRange 0 f = 0 := rfl

theorem sr_succ (n : Nat) (f : Nat → Int) : sumRange (n + 1) f = sumRange n f + f n := by
  simp only [sumRange, List.range_succ, List.map_append, sumL_append, List.map_cons, List.map_nil,
    sumL_cons, sumL_nil]; omega

theorem sr_add (n : Nat) (f g : Nat → Int) :
    sumRange n (fun k => f k + g k) = sumRange n f + sumRange n g := by
  induction n with
  | zero => rfl
  | succ n ih => rw [sr_succ, sr_succ, sr_succ, ih]; omega

theorem sr_le (n : Nat) (f g : Nat → Int) (h : ∀ k, k < n → f k ≤ g k) : sumRange n f ≤ sumRange n g := by
  induction n with
  | zero => exact Int.le_refl _
  | succ n ih =>
    rw [sr_succ, sr_succ]
    have := ih (fun k hk => h k (by omega))
    have := h n (by omega)
    omega

theorem sr_congr (n : Nat) (f g : Nat → Int) (h : ∀ k, k < n → f k = g k) : sumRange n f = sumRange n g := by
  have a := sr_le n f g (fun k hk => by rw [h k hk]; exact Int.le_refl _)
  have b := sr_le n g f (fun k hk => by rw [h k hk]; exact Int.le_refl _)
  omega

theorem sr_const_zero (n : Nat) : sumRange n (fun _ => 0) = 0 := by
  induction n with
  | zero => rfl
  | succ n ih => rw [sr_succ, ih]; rfl

theorem sr_shift (n : Nat) (f : Nat → Int) : sumRange (n + 1) f = f 0 + sumRange n (fun k => f (k + 1)) := by
  induction n with
  | zero => simp only [sr_succ, sr_zero_len]; omega
  | succ n ih => rw [sr_succ, ih, sr_succ]; omega

theorem sr_list : ∀ (l : List Int), sumL l = sumRange l.length (fun k => l[k]!)
  | [] => rfl
  | x :: xs => by
    have ih := sr_list xs
    simp only [List.length_cons, sr_shift, List.getElem!_cons_zero, List.getElem!_cons_succ, sumL_cons]
    omega

theorem sr_single (j : Nat) (x : Int) : ∀ n : Nat,
    sumRange n (fun k => if k = j then x else 0) = if j < n then x else 0 := by
  intro n
  induction n with
  | zero => simp [sr_zero_len]
  | succ n ih =>
    rw [sr_succ, ih]
    by_cases h1 : j < n
    · have h2 : j < n + 1 := by omega
      have h3 : ¬ (n = j) := by omega
      simp only [h1, h2, h3, if_true, if_false]; omega
    · by_cases h3 : n = j
      · subst h3
        simp
      · have h2 : ¬ (j < n + 1) := by omega
        simp only [h1, h2, h3, if_false]; omega

theorem sr_window (d : List Int) (hd : ∀ y ∈ d, 0 ≤ y) : ∀ (n m : Nat),
    sumRange n (fun k => d[k + m]!) ≤ sumL d := by
  induction d with
  | nil =>
    intro n m
    have : sumRange n (fun k => ([] : List Int)[k + m]!) = sumRange n (fun _ => 0) :=
      sr_congr _ _ _ (fun k _ => by simp)
    rw [this, sr_const_zero]; exact Int.le_refl _
  | cons y ys ih =>
    intro n m
    have hy : 0 ≤ y := hd y (by simp)
    have hys : ∀ z ∈ ys, 0 ≤ z := fun z hz => hd z (by simp [hz])
    cases m with
    | succ m' =>
      have : sumRange n (fun k => (y :: ys)[k + (m' + 1)]!) = sumRange n (fun k => ys[k + m']!) :=
        sr_congr _ _ _ (fun k _ => by
          have e : k + (m' + 1) = (k + m') + 1 := by omega
          rw [e, List.getElem!_cons_succ])
      rw [this, sumL_cons]
      have := ih hys n m'
      omega
    | zero =>
      cases n with
      | zero => rw [sr_zero_len, sumL_cons]; have := mech_sumL_nonneg ys hys; omega
      | succ n' =>
        rw [sr_shift]
        have : sumRange n' (fun k => (y :: ys)[k + 1 + 0]!) = sumRange n' (fun k => ys[k + 0]!) :=
          sr_congr _ _ _ (fun k _ => by simp)
        rw [this, sumL_cons]
        have := ih hys n' 0
        simp only [Nat.zero_add, List.getElem!_cons_zero]
        omega

/-- Over all positions, one entry adds at most what it adds to the cohorts. -/
theorem coh_sum_op_le (n m : Nat) (op : MortOp) (h : op.nonnegAdd) :
    sumRange n (fun k => op.addedAt n k m) ≤ op.added := by
  cases op with
  | mortality => simp only [MortOp.addedAt, MortOp.added, sr_const_zero]; exact Int.le_refl _
  | remove d => simp only [MortOp.addedAt, MortOp.added, sr_const_zero]; exact Int.le_refl _
  | add x =>
    have hx : 0 ≤ x := h
    simp only [MortOp.addedAt, MortOp.added]
    by_cases hm : m + 1 ≤ n
    · have : sumRange n (fun k => if k + m + 1 = n then x else 0) =
          sumRange n (fun k => if k = n - (m + 1) then x else 0) :=
        sr_congr _ _ _ (fun k _ => by
          by_cases hk : k + m + 1 = n
          · have hk' : k = n - (m + 1) := by omega
            rw [if_pos hk, if_pos hk']
          · have hk' : ¬ (k = n - (m + 1)) := by omega
            rw [if_neg hk, if_neg hk'])
      rw [this, sr_single]
      split <;> omega
    · have : sumRange n (fun k => if k + m + 1 = n then x else 0) = sumRange n (fun _ => 0) :=
        sr_congr _ _ _ (fun k _ => by
          have : ¬ (k + m + 1 = n) := by omega
          simp only [this, if_false])
      rw [this, sr_const_zero]; exact hx
  | arrive d =>
    have hd : ∀ y ∈ d, 0 ≤ y := h
    simp only [MortOp.addedAt, MortOp.added]
    have h1 : sumRange n (fun k => if k + m < n then d[k + m]! else 0) ≤ sumRange n (fun k => d[k + m]!) :=
      sr_le _ _ _ (fun k _ => by
        have := coh_get_nonneg d hd (k + m)
        split <;> omega)
    have := sr_window d hd n m
    omega

theorem coh_sum_split (n : Nat) (op : MortOp) (rest : List MortOp) :
    sumRange n (fun k => addedAt n k (op :: rest)) =
      sumRange n (fun k => op.addedAt n k (mortSteps rest)) + sumRange n (fun k => addedAt n k rest) := by
  rw [← sr_add]; rfl

/-- Over all positions, a history adds to the final generations at most what it adds in all. -/
theorem coh_sum_le_added (n : Nat) : ∀ (ops : List MortOp), (∀ op ∈ ops, op.nonnegAdd) →
    sumRange n (fun k => addedAt n k ops) ≤ addedBy ops
  | [], _ => by simp only [addedAt, addedBy, sr_const_zero]; exact Int.le_refl _
  | op :: rest, h => by
    have ih := coh_sum_le_added n rest (fun o ho => h o (by simp [ho]))
    have h1 := coh_sum_op_le n (mortSteps rest) op (h op (by simp))
    rw [coh_sum_split]
    simp only [addedBy]; omega

/-- ... and, when the history has at least `n` mortality steps, at most what it adds from the
    first of its last `n` mortality steps on. -/
theorem coh_sum_le_window (n : Nat) : ∀ (ops : List MortOp), (∀ op ∈ ops, op.nonnegAdd) →
    n ≤ mortSteps ops → sumRange n (fun k => addedAt n k ops) ≤ addedBy (lastMortWindow n ops)
  | [], _, hs => by
    simp only [mortSteps] at hs
    have : n = 0 := by omega
    subst this
    simp only [sr_zero_len, lastMortWindow, addedBy]; exact Int.le_refl _
  | op :: rest, h, hs => by
    have hrest : ∀ o ∈ rest, o.nonnegAdd := fun o ho => h o (by simp [ho])
    have hzero : n ≤ mortSteps rest →
        sumRange n (fun k => addedAt n k (op :: rest)) = sumRange n (fun k => addedAt n k rest) := by
      intro hn
      rw [coh_sum_split]
      have : sumRange n (fun k => op.addedAt n k (mortSteps rest)) = sumRange n (fun _ => 0) :=
        sr_congr _ _ _ (fun k _ => coh_addedAt_op_zero n k _ op (by omega))
      rw [this, sr_const_zero]; omega
    cases op with
    | mortality =>
      by_cases hlt : mortSteps rest < n
      · simp only [lastMortWindow, hlt, if_true]
        exact coh_sum_le_added n _ h
      · simp only [lastMortWindow, hlt, if_false]
        rw [hzero (by omega)]
        exact coh_sum_le_window n rest hrest (by omega)
    | add x =>
      simp only [mortSteps] at hs
      simp only [lastMortWindow]
      rw [hzero hs]; exact coh_sum_le_window n rest hrest hs
    | arrive d =>
      simp only [mortSteps] at hs
      simp only [lastMortWindow]
      rw [hzero hs]; exact coh_sum_le_window n rest hrest hs
    | remove d =>
      simp only [mortSteps] at hs
      simp only [lastMortWindow]
      rw [hzero hs]; exact coh_sum_le_window n rest hrest hs

/-- The additions of a trace are non-negative. -/
theorem coh_trace_nonnegAdd (rate : Rat) (lag : Int) (c' : Cell) : ∀ (ops : List MortOp) (c : Cell),
    MortTrace (MortOp.rel rate lag) ops c c' → ∀ op ∈ ops, op.nonnegAdd
  | [], _, _, _, h => by simp at h
  | o :: rest, c, ⟨c1, h1, h2⟩, op, hop => by
    rcases List.mem_cons.mp hop with rfl | hin
    · cases op with
      | mortality => trivial
      | add x => exact h1.1
      | arrive d => exact h1.2.1
      | remove d => trivial
    · exact coh_trace_nonnegAdd rate lag c' rest c1 h2 op hin

end Pops
