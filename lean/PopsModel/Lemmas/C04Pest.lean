/-
  Helper lemmas for Props/C04Pest.lean: the pest rasters after generate + disperse, the soil split
  of `generate`, dispersal with soil landings, ageing of soil cohorts with releases.
  All names carry the prefix `c04p_`.
-/
import PopsModel.Model.Soil
import PopsModel.Lemmas.Actions
namespace Pops

/-! ### list helpers -/

theorem c04p_get!_of_get? {α : Type} [Inhabited α] {l l' : List α} {k : Nat} (h : l[k]? = l'[k]?) : l[k]! = l'[k]! := by
  rw [List.getElem!_eq_getElem?_getD, List.getElem!_eq_getElem?_getD, h]

theorem c04p_set_get! (l : List Int) (k : Nat) (v : Int) : (l.set k v)[k]! = if k < l.length then v else 0 := by
  by_cases h : k < l.length
  · rw [if_pos h, act_getElem!_set_self _ _ h]
  · rw [if_neg h, act_getElem!_ge (by rw [List.length_set]; omega)]; rfl

theorem c04p_addLast_zero (l : List Int) : addLast l 0 = l := by
  induction l with
  | nil => rfl
  | cons a t ih =>
    cases t with
    | nil => simp only [addLast, Int.add_zero]
    | cons b r => simp only [addLast] at ih ⊢; rw [ih]

theorem c04p_addLast_addLast (l : List Int) (a b : Int) : addLast (addLast l a) b = addLast l (a + b) := by
  induction l with
  | nil => rfl
  | cons x t ih =>
    cases t with
    | nil => simp only [addLast]; congr 1; omega
    | cons y r =>
      cases r with
      | nil => simp only [addLast]; congr 2; omega
      | cons z s => simp only [addLast] at ih ⊢; rw [ih]

/-! ### `generate` -/

theorem c04p_generateGo_cons (g : Grid) (soilPct : Option Rat) (r c : Int) (rest : List (Int × Int)) (x : Int)
    (xs : List Int) (p : PestState) (acc : List Int) :
    generateGo g soilPct ((r, c) :: rest) (x :: xs) p acc =
      generateGo g soilPct rest xs
        { p with disp := p.disp.set (g.idx r c) (dispersingShare soilPct x), est := p.est.set (g.idx r c) 0 }
        (acc ++ [soilHanded soilPct x]) := by
  by_cases h : x > 0
  · simp only [generateGo, dispersingShare, soilHanded, h, if_true]
  · simp only [generateGo, dispersingShare, soilHanded, h, if_false]

theorem c04p_generateGo_nil_left (g : Grid) (soilPct : Option Rat) (gen : List Int) (p : PestState) (acc : List Int) :
    generateGo g soilPct [] gen p acc = (p, acc) := by
  unfold generateGo; rfl

theorem c04p_generateGo_nil_right (g : Grid) (soilPct : Option Rat) (suit : List (Int × Int)) (p : PestState) (acc : List Int) :
    generateGo g soilPct suit [] p acc = (p, acc) := by
  cases suit <;> (unfold generateGo; rfl)

theorem c04p_dispersingShare_nonneg (soilPct : Option Rat)
    (hpct : ∀ pct, soilPct = some pct → 0 ≤ pct ∧ pct ≤ 1) (x : Int) : 0 ≤ dispersingShare soilPct x := by
  unfold dispersingShare
  by_cases h : x > 0
  · rw [if_pos h]
    cases soilPct with
    | none => simp only [soilShare]; omega
    | some pct =>
      obtain ⟨h0, h1⟩ := hpct pct rfl
      have := act_soilShare_facts pct x h0 h1 (by omega)
      omega
  · rw [if_neg h]; exact Int.le_refl 0

/-- What the loop of `generate` leaves. -/
theorem c04p_generateGo_facts (g : Grid) (soilPct : Option Rat) (suit : List (Int × Int)) (gen : List Int)
    (p : PestState) (acc : List Int) (hlen : gen.length = suit.length) :
    (generateGo g soilPct suit gen p acc).2 = acc ++ gen.map (soilHanded soilPct) ∧
    (generateGo g soilPct suit gen p acc).1.outside = p.outside ∧
    (generateGo g soilPct suit gen p acc).1.disp.length = p.disp.length ∧
    (generateGo g soilPct suit gen p acc).1.est.length = p.est.length ∧
    (∀ k : Nat, k ∉ suit.map (fun rc => g.idx rc.1 rc.2) →
      (generateGo g soilPct suit gen p acc).1.disp[k]? = p.disp[k]? ∧
      (generateGo g soilPct suit gen p acc).1.est[k]? = p.est[k]?) ∧
    (∀ k : Nat, k ∈ suit.map (fun rc => g.idx rc.1 rc.2) → (generateGo g soilPct suit gen p acc).1.est[k]! = 0) ∧
    ((∀ x, 0 ≤ dispersingShare soilPct x) → ∀ k : Nat, k ∈ suit.map (fun rc => g.idx rc.1 rc.2) →
      0 ≤ (generateGo g soilPct suit gen p acc).1.disp[k]!) ∧
    ((suit.map (fun rc => g.idx rc.1 rc.2)).Nodup → ∀ (rc : Int × Int) (x : Int), (rc, x) ∈ suit.zip gen →
      (generateGo g soilPct suit gen p acc).1.disp[g.idx rc.1 rc.2]! =
        if g.idx rc.1 rc.2 < p.disp.length then dispersingShare soilPct x else 0) := by
  induction suit generalizing gen p acc with
  | nil =>
    have : gen = [] := List.eq_nil_of_length_eq_zero (by simpa using hlen)
    subst this
    rw [c04p_generateGo_nil_left]
    refine ⟨by simp, rfl, rfl, rfl, fun k _ => ⟨rfl, rfl⟩, ?_, ?_, ?_⟩
    · intro k hk; simp at hk
    · intro _ k hk; simp at hk
    · intro _ rc x hx; simp at hx
  | cons rc0 rest ih =>
    obtain ⟨r, c⟩ := rc0
    cases gen with
    | nil => simp at hlen
    | cons x xs =>
      have hlen' : xs.length = rest.length := by simpa using hlen
      rw [c04p_generateGo_cons]
      obtain ⟨a1, a2, a3, a4, a5, a6, a7, a8⟩ := ih xs
        { p with disp := p.disp.set (g.idx r c) (dispersingShare soilPct x), est := p.est.set (g.idx r c) 0 }
        (acc ++ [soilHanded soilPct x]) hlen'
      simp only [List.length_set] at a3 a4
      -- what the rest leaves at the head's index when the head's index does not occur again
      have hkeepD : g.idx r c ∉ rest.map (fun rc => g.idx rc.1 rc.2) →
          (generateGo g soilPct rest xs
            { p with disp := p.disp.set (g.idx r c) (dispersingShare soilPct x), est := p.est.set (g.idx r c) 0 }
            (acc ++ [soilHanded soilPct x])).1.disp[g.idx r c]! =
            if g.idx r c < p.disp.length then dispersingShare soilPct x else 0 := by
        intro hn
        rw [c04p_get!_of_get? (a5 _ hn).1]
        exact c04p_set_get! _ _ _
      have hkeepE : g.idx r c ∉ rest.map (fun rc => g.idx rc.1 rc.2) →
          (generateGo g soilPct rest xs
            { p with disp := p.disp.set (g.idx r c) (dispersingShare soilPct x), est := p.est.set (g.idx r c) 0 }
            (acc ++ [soilHanded soilPct x])).1.est[g.idx r c]! = 0 := by
        intro hn
        rw [c04p_get!_of_get? (a5 _ hn).2, c04p_set_get!]
        split <;> rfl
      refine ⟨?_, a2, a3, a4, ?_, ?_, ?_, ?_⟩
      · rw [a1, List.map_cons, List.append_assoc]; rfl
      · intro k hk
        simp only [List.map_cons, List.mem_cons, not_or] at hk
        obtain ⟨b1, b2⟩ := a5 k hk.2
        exact ⟨by rw [b1]; exact List.getElem?_set_ne (Ne.symm hk.1), by rw [b2]; exact List.getElem?_set_ne (Ne.symm hk.1)⟩
      · intro k hk
        by_cases hr : k ∈ rest.map (fun rc => g.idx rc.1 rc.2)
        · exact a6 k hr
        · simp only [List.map_cons, List.mem_cons] at hk
          rcases hk with hk | hk
          · subst hk; exact hkeepE hr
          · exact absurd hk hr
      · intro hsh k hk
        by_cases hr : k ∈ rest.map (fun rc => g.idx rc.1 rc.2)
        · exact a7 hsh k hr
        · simp only [List.map_cons, List.mem_cons] at hk
          rcases hk with hk | hk
          · subst hk
            rw [hkeepD hr]
            split
            · exact hsh x
            · exact Int.le_refl 0
          · exact absurd hk hr
      · intro hnd rc y hy
        rw [List.map_cons, List.nodup_cons] at hnd
        have hnd' := hnd
        simp only [List.zip_cons_cons, List.mem_cons] at hy
        rcases hy with hy | hy
        · injection hy with e1 e2
          subst e1 e2
          exact hkeepD hnd'.1
        · have := a8 hnd'.2 rc y hy
          rw [this, List.length_set]

/-! ### the soil side of `generate` -/

theorem c04p_soilDispersersTo_facts (w : Rat) (sto : Bool) (pEst : Rat) (n : Nat) (cohorts : List Int) (us : List Rat) :
    (∃ m : Nat, m ≤ n ∧ (soilDispersersTo w sto pEst n cohorts us).1 = addLast cohorts (m : Int)) ∧
    (soilDispersersTo w sto pEst n cohorts us).2 = (if sto then us.drop n else us) := by
  induction n generalizing cohorts us with
  | zero =>
    refine ⟨⟨0, Nat.le_refl _, ?_⟩, ?_⟩
    · simp only [soilDispersersTo, Int.natCast_zero, c04p_addLast_zero]
    · simp only [soilDispersersTo, List.drop_zero, ite_self]
  | succ n ih =>
    obtain ⟨⟨m, m1, m2⟩, m3⟩ := ih (soilDisperserTo cohorts w sto pEst (us.headD 0)) (if sto then us.drop 1 else us)
    simp only [soilDispersersTo]
    refine ⟨?_, ?_⟩
    · by_cases hc : (if sto = true then us.headD 0 else 1 - pEst) < w
      · have e : soilDisperserTo cohorts w sto pEst (us.headD 0) = addLast cohorts 1 := by
          unfold soilDisperserTo; rw [if_pos hc]
        rw [e, c04p_addLast_addLast] at m2
        rw [e]
        exact ⟨m + 1, by omega, by rw [m2]; congr 1; omega⟩
      · have e : soilDisperserTo cohorts w sto pEst (us.headD 0) = cohorts := by
          unfold soilDisperserTo; rw [if_neg hc]
        rw [e] at m2
        rw [e]
        exact ⟨m, by omega, m2⟩
    · rw [m3]
      cases sto with
      | true => simp only [if_true, List.drop_drop]; congr 1; omega
      | false => simp only [Bool.false_eq_true, if_false]

/-- With stochastic establishment off all arrivals of a cell share one fate. -/
theorem c04p_soilDispersersTo_det (w pEst : Rat) (n : Nat) (cohorts : List Int) (us : List Rat) :
    (soilDispersersTo w false pEst n cohorts us).1 = if 1 - pEst < w then addLast cohorts (n : Int) else cohorts := by
  induction n generalizing cohorts with
  | zero => simp only [soilDispersersTo, Int.natCast_zero, c04p_addLast_zero, ite_self]
  | succ n ih =>
    simp only [soilDispersersTo, Bool.false_eq_true, if_false]
    rw [ih]
    unfold soilDisperserTo
    simp only [Bool.false_eq_true, if_false]
    by_cases hc : 1 - pEst < w
    · simp only [hc, if_true, c04p_addLast_addLast]; congr 1; omega
    · simp only [hc, if_false]

theorem c04p_soilArrive_zero (sc : SoilCfg) (soil : List (List Int)) (k : Nat) (n : Int) (us : List Rat) (h : n ≤ 0) :
    soilArrive sc soil k n us = .ok (soil, us) := by
  unfold soilArrive; rw [if_pos h]

theorem c04p_generateSoilGo_nil_left (g : Grid) (pct : Rat) (sc : SoilCfg) (gen : List Int) (p : PestState)
    (soil : List (List Int)) (us : List Rat) :
    generateSoilGo g pct sc [] gen p soil us = .ok (p, soil, us) := by
  unfold generateSoilGo; rfl

theorem c04p_generateSoilGo_nil_right (g : Grid) (pct : Rat) (sc : SoilCfg) (suit : List (Int × Int)) (p : PestState)
    (soil : List (List Int)) (us : List Rat) :
    generateSoilGo g pct sc suit [] p soil us = .ok (p, soil, us) := by
  cases suit <;> (unfold generateSoilGo; rfl)

/-- `generate` with soils = the soil-free model's pest rasters, and the soil receives exactly the
    returned soil shares as arrivals. -/
theorem c04p_generateSoilGo_eq (g : Grid) (pct : Rat) (sc : SoilCfg) (suit : List (Int × Int)) (gen : List Int)
    (p : PestState) (soil : List (List Int)) (us : List Rat) (acc : List Int) :
    generateSoilGo g pct sc suit gen p soil us =
      match soilArriveAll sc (List.zip (suit.map fun rc => g.idx rc.1 rc.2) (gen.map (soilHanded (some pct)))) soil us with
      | .error e => .error e
      | .ok (soil', us') => .ok ((generateGo g (some pct) suit gen p acc).1, soil', us') := by
  induction suit generalizing gen p soil us acc with
  | nil =>
    rw [c04p_generateSoilGo_nil_left, c04p_generateGo_nil_left]
    simp only [List.map_nil, List.zip_nil_left, soilArriveAll]
  | cons rc0 rest ih =>
    obtain ⟨r, c⟩ := rc0
    cases gen with
    | nil =>
      rw [c04p_generateSoilGo_nil_right, c04p_generateGo_nil_right]
      simp only [List.map_nil, List.zip_nil_right, soilArriveAll]
    | cons x xs =>
      rw [c04p_generateGo_cons]
      simp only [List.map_cons, List.zip_cons_cons, soilArriveAll]
      unfold generateSoilGo
      by_cases hx : x > 0
      · simp only [hx, if_true]
        have e1 : soilHanded (some pct) x = lround (pct * x) := by simp only [soilHanded, hx, if_true, soilShare]
        have e2 : dispersingShare (some pct) x = x - lround (pct * x) := by
          simp only [dispersingShare, hx, if_true, soilShare]
        rw [e1, e2]
        cases hs : soilArrive sc soil (g.idx r c) (lround (pct * x)) us with
        | error e => rfl
        | ok q =>
          obtain ⟨soil', us'⟩ := q
          exact ih xs _ soil' us' _
      · simp only [hx, if_false]
        have e1 : soilHanded (some pct) x = 0 := by simp only [soilHanded, hx, if_false]
        have e2 : dispersingShare (some pct) x = 0 := by simp only [dispersingShare, hx, if_false]
        rw [e1, e2, c04p_soilArrive_zero sc soil _ 0 us (Int.le_refl 0)]
        exact ih xs _ soil us _

/-! ### landings from the soil -/

/-- A landing inside the study area, as `landOne` performs it, is `landInCell` at the target's index. -/
theorem c04p_landOne_inside (g : Grid) (env : DisperseEnv) (cells : List Cell) (p : PestState) (tr tc : Int)
    (us : List Rat) (ho : g.isOutside tr tc = false) :
    landOne g env cells p (tr, tc) us =
      match landInCell env cells (g.idx tr tc) us with
      | .error e => .error e
      | .ok (cells', ok, us') => .ok (cells', p, ok, us') := by
  simp only [landOne, landInCell, ho, Bool.false_eq_true, if_false]
  split <;> rename_i hw <;> simp only [hw]

theorem c04p_landInCell_facts (env : DisperseEnv) (cells cells' : List Cell) (k : Nat) (us us' : List Rat) (ok : Bool)
    (h : landInCell env cells k us = .ok (cells', ok, us')) :
    (ok = false ∧ cells' = cells) ∨
    (ok = true ∧ k < cells.length ∧ 0 < (cells[k]!).s ∧ cells' = cells.set k ((cells[k]!).addDisperserAt env.mt).1) := by
  unfold landInCell at h
  simp only at h
  cases hw : (cells[k]!).landViaWrapper env.mt
      { n := env.npop[k]!, w := env.w.map (·[k]!), sus := none } env.stochastic env.pEst (us.headD 0) with
  | error e => rw [hw] at h; cases h
  | ok q =>
    obtain ⟨c', res, used⟩ := q
    rw [hw] at h
    injection h with h; injection h with h1 h; injection h with h2 h
    subst h1 h2
    rcases act_landViaWrapper_outcome hw with ⟨e1, e2⟩ | ⟨e0, e1, e2⟩
    · left
      simp only at e1 e2
      subst e1 e2
      exact ⟨rfl, act_set_getElem!_self cells _⟩
    · right
      simp only at e1 e2
      subst e1 e2
      have hk : k < cells.length := by
        by_cases hk : k < cells.length
        · exact hk
        · rw [act_getElem!_ge (by omega)] at e0
          have : (default : Cell).s = 0 := rfl
          omega
      exact ⟨rfl, hk, e0, rfl⟩

theorem c04p_landInCell_total (env : DisperseEnv) (cells cells' : List Cell) (k : Nat) (us us' : List Rat) (ok : Bool)
    (h : landInCell env cells k us = .ok (cells', ok, us')) :
    cells'.length = cells.length ∧
    sumL (cells.map (·.s)) - sumL (cells'.map (·.s)) = if ok then 1 else 0 := by
  rcases c04p_landInCell_facts env cells cells' k us us' ok h with ⟨b1, b2⟩ | ⟨b1, b2, b3, b4⟩
  · subst b1 b2
    exact ⟨rfl, by simp⟩
  · subst b1 b4
    refine ⟨List.length_set, ?_⟩
    rw [sumL_map_set (·.s) cells _ _ _ (act_getElem?_eq_some_getElem! b2)]
    have := (act_addDisperserAt_pos env.mt (cells[k]!) b3).2.1
    simp only [if_true]
    omega

theorem c04p_soilLandCell_zero (env : DisperseEnv) (k : Nat) (cells : List Cell) (us : List Rat) :
    soilLandCell env k 0 cells us = .ok (cells, 0, us) := by
  simp only [soilLandCell]

theorem c04p_soilLandCell_succ_inv (env : DisperseEnv) (k n : Nat) (cells cells' : List Cell) (us us' : List Rat) (m : Nat)
    (h : soilLandCell env k (n + 1) cells us = .ok (cells', m, us')) :
    ∃ cells1 ok us1 m1, landInCell env cells k us = .ok (cells1, ok, us1) ∧
      soilLandCell env k n cells1 us1 = .ok (cells', m1, us') ∧ m = (if ok then 1 else 0) + m1 := by
  simp only [soilLandCell] at h
  cases hl : landInCell env cells k us with
  | error e => rw [hl] at h; cases h
  | ok q =>
    obtain ⟨cells1, ok, us1⟩ := q
    rw [hl] at h
    simp only at h
    cases hr : soilLandCell env k n cells1 us1 with
    | error e => rw [hr] at h; cases h
    | ok q2 =>
      obtain ⟨cells2, m1, us2⟩ := q2
      rw [hr] at h
      injection h with h; injection h with h1 h; injection h with h2 h3
      subst h1 h2 h3
      exact ⟨cells1, ok, us1, m1, rfl, hr, rfl⟩

/-- The dispersers released from the soil of a cell: each success consumes one susceptible host. -/
theorem c04p_soilLandCell_facts (env : DisperseEnv) (k n : Nat) (cells cells' : List Cell) (us us' : List Rat) (m : Nat)
    (h : soilLandCell env k n cells us = .ok (cells', m, us')) :
    m ≤ n ∧ cells'.length = cells.length ∧ sumL (cells.map (·.s)) - sumL (cells'.map (·.s)) = (m : Int) ∧
    (∀ j : Nat, j ≠ k → cells'[j]? = cells[j]?) := by
  induction n generalizing cells us m with
  | zero =>
    rw [c04p_soilLandCell_zero] at h
    injection h with h; injection h with h1 h; injection h with h2 h3
    subst h1 h2
    exact ⟨Nat.le_refl _, rfl, by simp, fun _ _ => rfl⟩
  | succ n ih =>
    obtain ⟨cells1, ok, us1, m1, hl, hr, hm⟩ := c04p_soilLandCell_succ_inv env k n cells cells' us us' m h
    obtain ⟨l1, l2⟩ := c04p_landInCell_total env cells cells1 k us us1 ok hl
    obtain ⟨r1, r2, r3, r4⟩ := ih cells1 us1 m1 hr
    have hfr : ∀ j : Nat, j ≠ k → cells1[j]? = cells[j]? := by
      intro j hj
      rcases c04p_landInCell_facts env cells cells1 k us us1 ok hl with ⟨_, b2⟩ | ⟨_, _, _, b4⟩
      · rw [b2]
      · rw [b4]; exact List.getElem?_set_ne (Ne.symm hj)
    refine ⟨?_, by rw [r2, l1], ?_, fun j hj => by rw [r4 j hj, hfr j hj]⟩
    · cases ok <;> simp at hm <;> omega
    · cases ok <;> simp at hm l2 <;> omega

/-! ### `disperse` -/

/-- The established counter of an origin outside the raster is never written. -/
theorem c04p_disperseCell_oob (g : Grid) (env : DisperseEnv) (origin n : Nat) (cells cells' : List Cell)
    (p p' : PestState) (ts ts' : List (Int × Int)) (us us' : List Rat)
    (ho : p.est.length ≤ origin)
    (h : disperseCell g env origin n cells p ts us = .ok (cells', p', ts', us')) :
    p'.est = p.est ∧ p'.disp = p.disp := by
  induction n generalizing cells p ts us with
  | zero =>
    rw [act_disperseCell_zero] at h
    injection h with h; injection h with h1 h; injection h with h2 h
    subst h2
    exact ⟨rfl, rfl⟩
  | succ n ih =>
    cases ts with
    | nil =>
      rw [act_disperseCell_nil] at h
      injection h with h; injection h with h1 h; injection h with h2 h
      subst h2
      exact ⟨rfl, rfl⟩
    | cons t ts1 =>
      cases hl : landOne g env cells p t us with
      | error e => rw [act_disperseCell_step_err g env origin n cells p t ts1 us e hl] at h; cases h
      | ok r =>
        obtain ⟨cells1, p1, ok, us1⟩ := r
        rw [act_disperseCell_step_ok g env origin n cells p t ts1 us cells1 p1 ok us1 hl] at h
        obtain ⟨l1, l2, _, _⟩ := act_landOne_total g env cells cells1 p p1 t us us1 ok hl
        cases ok with
        | false =>
          simp only [Bool.false_eq_true, if_false] at h
          obtain ⟨a, b⟩ := ih cells1 p1 ts1 us1 (by rw [l2]; exact ho) h
          exact ⟨by rw [a, l2], by rw [b, l1]⟩
        | true =>
          simp only [if_true] at h
          have hset : p1.est.set origin (p1.est[origin]! + 1) = p1.est :=
            List.set_eq_of_length_le (by rw [l2]; exact ho)
          obtain ⟨a, b⟩ := ih cells1 _ ts1 us1 (by simp only [List.length_set]; rw [l2]; exact ho) h
          simp only at a b
          exact ⟨by rw [a, hset, l2], by rw [b, l1]⟩

/-- The pest rasters after the dispersers of one origin cell (no hypothesis on the raster sizes). -/
theorem c04p_disperseCell_est (g : Grid) (env : DisperseEnv) (origin n : Nat) (cells cells' : List Cell)
    (p p' : PestState) (ts ts' : List (Int × Int)) (us us' : List Rat)
    (h : disperseCell g env origin n cells p ts us = .ok (cells', p', ts', us')) :
    p'.disp = p.disp ∧ p'.est.length = p.est.length ∧ cells'.length = cells.length ∧
    (∀ k : Nat, k ≠ origin → p'.est[k]? = p.est[k]?) ∧
    p.est[origin]! ≤ p'.est[origin]! ∧ p'.est[origin]! ≤ p.est[origin]! + (n : Int) := by
  by_cases ho : origin < p.est.length
  · obtain ⟨m, m1, m2, _, m4, m5, _⟩ := act_disperseCell_facts g env origin n cells cells' p p' ts ts' us us' ho h
    have e : p'.est[origin]! = p.est[origin]! + (m : Int) := by rw [m2, act_getElem!_set_self _ _ ho]
    refine ⟨m4, by rw [m2, List.length_set], m5, ?_, by omega, by omega⟩
    intro k hk
    rw [m2, List.getElem?_set_ne (Ne.symm hk)]
  · obtain ⟨a, b⟩ := c04p_disperseCell_oob g env origin n cells cells' p p' ts ts' us us' (by omega) h
    have hc : cells'.length = cells.length := by
      -- the landscape keeps its size whatever the raster sizes
      clear a b ho
      induction n generalizing cells p ts us with
      | zero =>
        rw [act_disperseCell_zero] at h
        injection h with h; injection h with h1 h
        rw [h1]
      | succ n ih =>
        cases ts with
        | nil =>
          rw [act_disperseCell_nil] at h
          injection h with h; injection h with h1 h
          rw [h1]
        | cons t ts1 =>
          cases hl : landOne g env cells p t us with
          | error e => rw [act_disperseCell_step_err g env origin n cells p t ts1 us e hl] at h; cases h
          | ok r =>
            obtain ⟨cells1, p1, ok, us1⟩ := r
            rw [act_disperseCell_step_ok g env origin n cells p t ts1 us cells1 p1 ok us1 hl] at h
            obtain ⟨_, _, l3, _⟩ := act_landOne_total g env cells cells1 p p1 t us us1 ok hl
            rw [ih cells1 _ ts1 us1 h, l3]
    refine ⟨b, by rw [a], hc, fun k _ => by rw [a], by rw [a]; exact Int.le_refl _, by rw [a]; omega⟩

theorem c04p_disperseGoSoil_nil (g : Grid) (env : DisperseEnv) (released : List Nat) (cells : List Cell) (p : PestState)
    (ts : List (Int × Int)) (us : List Rat) :
    disperseGoSoil g env [] released cells p ts us = .ok (cells, p, ts, us, 0) := by
  simp only [disperseGoSoil]

theorem c04p_disperseGoSoil_cons_inv (g : Grid) (env : DisperseEnv) (r c : Int) (rest : List (Int × Int))
    (released : List Nat) (cells cells' : List Cell) (p p' : PestState) (ts ts' : List (Int × Int))
    (us us' : List Rat) (m : Nat)
    (h : disperseGoSoil g env ((r, c) :: rest) released cells p ts us = .ok (cells', p', ts', us', m)) :
    ∃ cells1 p1 ts1 us1 cells2 m1 us2 m2,
      disperseCell g env (g.idx r c) (p.disp[g.idx r c]!).toNat cells p ts us = .ok (cells1, p1, ts1, us1) ∧
      soilLandCell env (g.idx r c) (released.headD 0) cells1 us1 = .ok (cells2, m1, us2) ∧
      disperseGoSoil g env rest released.tail cells2 p1 ts1 us2 = .ok (cells', p', ts', us', m2) ∧
      m = m1 + m2 := by
  simp only [disperseGoSoil] at h
  cases hc : disperseCell g env (g.idx r c) (p.disp[g.idx r c]!).toNat cells p ts us with
  | error e => rw [hc] at h; cases h
  | ok q =>
    obtain ⟨cells1, p1, ts1, us1⟩ := q
    rw [hc] at h
    simp only at h
    cases hs : soilLandCell env (g.idx r c) (released.headD 0) cells1 us1 with
    | error e => rw [hs] at h; cases h
    | ok q2 =>
      obtain ⟨cells2, m1, us2⟩ := q2
      rw [hs] at h
      simp only at h
      cases hr : disperseGoSoil g env rest released.tail cells2 p1 ts1 us2 with
      | error e => rw [hr] at h; cases h
      | ok q3 =>
        obtain ⟨cells3, p3, ts3, us3, m2⟩ := q3
        rw [hr] at h
        injection h with h; injection h with h1 h; injection h with h2 h; injection h with h3 h
        injection h with h4 h5
        subst h1 h2 h3 h4 h5
        exact ⟨cells1, p1, ts1, us1, cells2, m1, us2, m2, rfl, hs, hr, rfl⟩

/-- Without soil releases the loop is the soil-free loop. -/
theorem c04p_disperseGoSoil_no_release (g : Grid) (env : DisperseEnv) (suit : List (Int × Int)) (cells : List Cell)
    (p : PestState) (ts : List (Int × Int)) (us : List Rat) :
    disperseGoSoil g env suit [] cells p ts us =
      match disperseGo g env suit cells p ts us with
      | .error e => .error e
      | .ok (cells', p', ts', us') => .ok (cells', p', ts', us', 0) := by
  induction suit generalizing cells p ts us with
  | nil => simp only [disperseGoSoil, disperseGo]
  | cons rc rest ih =>
    obtain ⟨r, c⟩ := rc
    simp only [disperseGoSoil, disperseGo, List.headD_nil, List.tail_nil]
    cases hc : disperseCell g env (g.idx r c) (p.disp[g.idx r c]!).toNat cells p ts us with
    | error e => rfl
    | ok q =>
      obtain ⟨cells1, p1, ts1, us1⟩ := q
      simp only [soilLandCell]
      rw [ih]
      cases disperseGo g env rest cells1 p1 ts1 us1 with
      | error e => rfl
      | ok q2 => simp only [Nat.zero_add]

/-- The pest rasters after `disperse` with soils. -/
theorem c04p_disperseGoSoil_est (g : Grid) (env : DisperseEnv) (suit : List (Int × Int)) (released : List Nat)
    (cells cells' : List Cell) (p p' : PestState) (ts ts' : List (Int × Int)) (us us' : List Rat) (m : Nat)
    (h : disperseGoSoil g env suit released cells p ts us = .ok (cells', p', ts', us', m)) :
    p'.disp = p.disp ∧ p'.est.length = p.est.length ∧ cells'.length = cells.length ∧
    (∀ k : Nat, p.est[k]! ≤ p'.est[k]!) ∧
    (∀ k : Nat, k ∉ suit.map (fun rc => g.idx rc.1 rc.2) → p'.est[k]? = p.est[k]?) ∧
    ((suit.map (fun rc => g.idx rc.1 rc.2)).Nodup → ∀ k : Nat, k ∈ suit.map (fun rc => g.idx rc.1 rc.2) →
      p'.est[k]! ≤ p.est[k]! + ((p.disp[k]!).toNat : Int)) ∧
    m ≤ (released.take suit.length).sum := by
  induction suit generalizing released cells p ts us m with
  | nil =>
    rw [c04p_disperseGoSoil_nil] at h
    injection h with h; injection h with h1 h; injection h with h2 h; injection h with h3 h; injection h with h4 h5
    subst h1 h2 h5
    refine ⟨rfl, rfl, rfl, fun _ => Int.le_refl _, fun _ _ => rfl, ?_, Nat.zero_le _⟩
    intro _ k hk; simp at hk
  | cons rc rest ih =>
    obtain ⟨r, c⟩ := rc
    obtain ⟨cells1, p1, ts1, us1, cells2, m1, us2, m2, hc, hs, hr, hm⟩ :=
      c04p_disperseGoSoil_cons_inv g env r c rest released cells cells' p p' ts ts' us us' m h
    obtain ⟨c1, c2, c3, c4, c5, c6⟩ := c04p_disperseCell_est g env _ _ cells cells1 p p1 ts ts1 us us1 hc
    obtain ⟨s1, s2, _, _⟩ := c04p_soilLandCell_facts env _ _ cells1 cells2 us1 us2 m1 hs
    obtain ⟨a1, a2, a3, a4, a5, a6, a7⟩ := ih released.tail cells2 p1 ts1 us2 m2 hr
    have hstep : ∀ k : Nat, p.est[k]! ≤ p1.est[k]! := by
      intro k
      by_cases hk : k = g.idx r c
      · subst hk; exact c5
      · rw [c04p_get!_of_get? (c4 k hk)]; exact Int.le_refl _
    refine ⟨by rw [a1, c1], by rw [a2, c2], by rw [a3, s2, c3], ?_, ?_, ?_, ?_⟩
    · intro k; exact Int.le_trans (hstep k) (a4 k)
    · intro k hk
      simp only [List.map_cons, List.mem_cons, not_or] at hk
      rw [a5 k hk.2, c4 k hk.1]
    · intro hnd k hk
      rw [List.map_cons, List.nodup_cons] at hnd
      by_cases hkr : k ∈ rest.map (fun rc => g.idx rc.1 rc.2)
      · have hne : k ≠ g.idx r c := fun e => hnd.1 (e ▸ hkr)
        have := a6 hnd.2 k hkr
        rw [c04p_get!_of_get? (c4 k hne), c1] at this
        exact this
      · simp only [List.map_cons, List.mem_cons] at hk
        rcases hk with hk | hk
        · subst hk
          rw [c04p_get!_of_get? (a5 _ hkr)]
          exact c6
        · exact absurd hk hkr
    · cases released with
      | nil =>
        simp only [List.headD_nil] at s1
        simp only [List.tail_nil, List.take_nil, List.sum_nil] at a7
        simp only [List.take_nil, List.sum_nil]
        omega
      | cons x xs =>
        simp only [List.headD_cons] at s1
        simp only [List.tail_cons] at a7
        simp only [List.length_cons, List.take_succ_cons, List.sum_cons]
        omega

/-- The ledger of `disperse` with soils: the susceptible hosts consumed are the established
    dispersers plus those established from the soil. -/
theorem c04p_disperseGoSoil_ledger (g : Grid) (env : DisperseEnv) (suit : List (Int × Int)) (released : List Nat)
    (cells cells' : List Cell) (p p' : PestState) (ts ts' : List (Int × Int)) (us us' : List Rat) (m : Nat)
    (hsz : ∀ rc ∈ suit, g.idx rc.1 rc.2 < p.est.length)
    (h : disperseGoSoil g env suit released cells p ts us = .ok (cells', p', ts', us', m)) :
    sumL (cells.map (·.s)) - sumL (cells'.map (·.s)) = sumL p'.est - sumL p.est + (m : Int) := by
  induction suit generalizing released cells p ts us m with
  | nil =>
    rw [c04p_disperseGoSoil_nil] at h
    injection h with h; injection h with h1 h; injection h with h2 h; injection h with h3 h; injection h with h4 h5
    subst h1 h2 h5
    simp
  | cons rc rest ih =>
    obtain ⟨r, c⟩ := rc
    obtain ⟨cells1, p1, ts1, us1, cells2, m1, us2, m2, hc, hs, hr, hm⟩ :=
      c04p_disperseGoSoil_cons_inv g env r c rest released cells cells' p p' ts ts' us us' m h
    have ho : g.idx r c < p.est.length := hsz (r, c) (List.mem_cons_self ..)
    obtain ⟨k, _, k2, k3, _, _, _⟩ := act_disperseCell_facts g env _ _ cells cells1 p p1 ts ts1 us us1 ho hc
    have hlen : p1.est.length = p.est.length := by rw [k2, List.length_set]
    obtain ⟨_, _, s3, _⟩ := c04p_soilLandCell_facts env _ _ cells1 cells2 us1 us2 m1 hs
    have := ih released.tail cells2 p1 ts1 us2 m2
      (fun rc hrc => by rw [hlen]; exact hsz rc (List.mem_cons_of_mem _ hrc)) hr
    have hsum : sumL p1.est = sumL p.est + (k : Int) := by
      rw [k2, sumL_set _ _ _ ho]; omega
    subst hm
    rw [Int.natCast_add]
    omega

/-! ### ageing with releases -/

theorem c04p_subL_get! (a b : List Int) (h : b.length = a.length) (k : Nat) : (subL a b)[k]! = a[k]! - b[k]! := by
  induction a generalizing b k with
  | nil =>
    have : b = [] := List.eq_nil_of_length_eq_zero (by simpa using h)
    subst this
    rfl
  | cons x xs ih =>
    cases b with
    | nil => simp at h
    | cons y ys =>
      cases k with
      | zero => simp only [subL, List.zipWith_cons_cons, List.getElem!_cons_zero]
      | succ k =>
        have := ih ys (by simpa using h) k
        simp only [subL, List.zipWith_cons_cons, List.getElem!_cons_succ] at this ⊢
        exact this

theorem c04p_soilNext_length (l : List Int) : (soilNext l).length = l.length := by
  cases l with
  | nil => rfl
  | cons x xs => rw [act_soilNext_cons]; simp

theorem c04p_soilNext_get! (l : List Int) (k : Nat) (h : k + 1 < l.length) : (soilNext l)[k]! = l[k + 1]! := by
  cases l with
  | nil => simp at h
  | cons x xs =>
    rw [act_soilNext_cons, List.getElem!_cons_succ, List.getElem!_eq_getElem?_getD,
      List.getElem?_append_left (by simpa using h), ← List.getElem!_eq_getElem?_getD]

theorem c04p_soilRun_length (draws : List (List Int)) (cohorts : List Int)
    (hd : ∀ d ∈ draws, d.length = cohorts.length) : (soilRun draws cohorts).length = cohorts.length := by
  induction draws generalizing cohorts with
  | nil => rfl
  | cons d ds ih =>
    have hl : (soilNext (soilRelease cohorts d)).length = cohorts.length := by
      rw [c04p_soilNext_length]; exact length_subL (hd d (List.mem_cons_self ..))
    simp only [soilRun]
    rw [ih _ (fun d' hd' => by rw [hl]; exact hd d' (List.mem_cons_of_mem _ hd')), hl]

/-- A cohort that starts at position `pos` is, after `j <= pos` steps, at position `pos - j` and
    holds what it held minus what was released from it. -/
theorem c04p_soilRun_exact (draws : List (List Int)) (cohorts : List Int)
    (hd : ∀ d ∈ draws, d.length = cohorts.length) (pos : Nat) (h1 : draws.length ≤ pos) (h2 : pos < cohorts.length) :
    (soilRun draws cohorts)[pos - draws.length]! = cohorts[pos]! - releasedFrom draws pos := by
  induction draws generalizing cohorts pos with
  | nil => simp only [soilRun, releasedFrom, List.length_nil, Nat.sub_zero, Int.sub_zero]
  | cons d ds ih =>
    have hdl := hd d (List.mem_cons_self ..)
    have hl : (soilNext (soilRelease cohorts d)).length = cohorts.length := by
      rw [c04p_soilNext_length]; exact length_subL hdl
    simp only [List.length_cons] at h1
    have hidx : pos - (d :: ds).length = (pos - 1) - ds.length := by simp only [List.length_cons]; omega
    have hstep : (soilNext (soilRelease cohorts d))[pos - 1]! = cohorts[pos]! - d[pos]! := by
      rw [c04p_soilNext_get! _ _ (by rw [show (soilRelease cohorts d).length = cohorts.length from length_subL hdl]; omega)]
      have : pos - 1 + 1 = pos := by omega
      rw [this]
      exact c04p_subL_get! cohorts d hdl pos
    simp only [soilRun, releasedFrom]
    rw [hidx, ih _ (fun d' hd' => by rw [hl]; exact hd d' (List.mem_cons_of_mem _ hd')) (pos - 1) (by omega)
      (by rw [hl]; omega), hstep]
    omega

/-- Without releases the cohorts only move. -/
theorem c04p_iter_soilNext_get! (j : Nat) (cohorts : List Int) (k : Nat) (h : k + j < cohorts.length) :
    (iter soilNext j cohorts)[k]! = cohorts[k + j]! := by
  induction j generalizing cohorts with
  | zero => rfl
  | succ j ih =>
    simp only [iter]
    rw [ih (soilNext cohorts) (by rw [c04p_soilNext_length]; omega), c04p_soilNext_get! _ _ (by omega)]
    rfl

/-! ### executable comparison for the concrete instances -/

def c04p_yields {α : Type} [DecidableEq α] (r : Except ErrKind α) (x : α) : Bool :=
  match r with
  | .ok a => decide (a = x)
  | .error _ => false

theorem c04p_eq_ok {α : Type} [DecidableEq α] {r : Except ErrKind α} {x : α}
    (h : c04p_yields r x = true) : r = .ok x := by
  cases r with
  | error e => cases h
  | ok a => simp only [c04p_yields, decide_eq_true_eq] at h; rw [h]

end Pops
