/-
  C14: structural lemmas about the model of `DeterministicDispersalKernel` (Model/Det.lean), for any
  number type `TF α` (in particular `TF.float`, the instance the driver runs, and `TF.real`).
  Core Lean only.
-/
import PopsModel.Model.Det
namespace Pops.Det

variable {α : Type}

/-! ### `mapM` in `Except` -/

theorem mapM_except_ok {β γ : Type} (f : β → Except ErrKind γ) :
    ∀ (l : List β) (r : List γ), l.mapM f = .ok r →
      r.length = l.length ∧ ∀ k (hk : k < l.length), ∃ v, f l[k] = .ok v ∧ r[k]? = some v := by
  intro l
  induction l with
  | nil =>
    intro r h
    simp only [List.mapM_nil, pure, Except.pure, Except.ok.injEq] at h
    subst h; exact ⟨rfl, fun k hk => absurd hk (by simp)⟩
  | cons x xs ih =>
    intro r h
    rw [List.mapM_cons] at h
    cases hx : f x with
    | error e => rw [hx] at h; simp [bind, Except.bind] at h
    | ok v =>
      rw [hx] at h
      cases hxs : xs.mapM f with
      | error e => rw [hxs] at h; simp [bind, Except.bind] at h
      | ok vs =>
        rw [hxs] at h
        simp only [bind, Except.bind, pure, Except.pure, Except.ok.injEq] at h
        subst h
        obtain ⟨hl, hall⟩ := ih vs hxs
        refine ⟨by simp [hl], ?_⟩
        intro k hk
        cases k with
        | zero => exact ⟨v, by simpa using hx, by simp⟩
        | succ k =>
          have hk' : k < xs.length := by simpa using hk
          obtain ⟨w, hw, hr⟩ := hall k hk'
          exact ⟨w, by simpa using hw, by simpa using hr⟩

/-! ### Distance and mirror symmetry of the weights -/

/-- The distance depends only on the absolute offsets. -/
theorem cellDist_neg_row (T : TF α) (ns ew : α) (di dj : Int) :
    cellDist T ns ew (-di) dj = cellDist T ns ew di dj := by
  simp [cellDist, Int.natAbs_neg]

theorem cellDist_neg_col (T : TF α) (ns ew : α) (di dj : Int) :
    cellDist T ns ew di (-dj) = cellDist T ns ew di dj := by
  simp [cellDist, Int.natAbs_neg]

/-- In a window of `2 h + 1` rows centred on row `h`, row `i` and its mirror image `2 h - i` are at
    the same distance; likewise for columns: mirror-image cells have equal raw weight. -/
theorem rawWeight_mirror (T : TF α) (law : Law) (scale shape ns ew : α) (h w : Nat) (i j : Nat)
    (hi : i ≤ 2 * h) (hj : j ≤ 2 * w) :
    rawWeight T law scale shape ns ew h w (2 * h - i) j = rawWeight T law scale shape ns ew h w i j ∧
    rawWeight T law scale shape ns ew h w i (2 * w - j) = rawWeight T law scale shape ns ew h w i j ∧
    rawWeight T law scale shape ns ew h w (2 * h - i) (2 * w - j) = rawWeight T law scale shape ns ew h w i j := by
  have e1 : ((h : Int) - ((2 * h - i : Nat) : Int)) = -((h : Int) - (i : Int)) := by omega
  have e2 : ((w : Int) - ((2 * w - j : Nat) : Int)) = -((w : Int) - (j : Int)) := by omega
  simp only [rawWeight, e1, e2, cellDist_neg_row, cellDist_neg_col, and_self]

/-! ### The constructor -/

/-- What a successfully built kernel consists of: the quantile, the window dimensions, the centre,
    and per cell `abs (pdf (distance))` divided by the scan-order sum. -/
theorem build_ok (T : TF α) (lw : Law) (pct ew ns scale shape : α) (K : Kernel α)
    (h : build T (some lw) pct ew ns scale shape = .ok K) :
    K.law = some lw ∧ lawIcdf T lw scale shape pct = .ok K.dmax ∧
    (K.rows, K.cols) = windowDims T K.dmax ns ew ∧ 0 ≤ K.rows * K.cols ∧
    K.midRow = Int.tdiv K.rows 2 ∧ K.midCol = Int.tdiv K.cols 2 ∧
    ∃ raw, rawWeights T lw scale shape ns ew K.rows.toNat K.cols.toNat K.midRow K.midCol = .ok raw ∧
      K.prob = raw.map (T.div · (sumScan T raw)) := by
  simp only [build] at h
  split at h
  · cases h
  · unfold buildLaw at h
    split at h
    · cases h
    · next dmax hd =>
      simp only at h
      split at h
      · cases h
      · split at h
        · cases h
        · next raw hraw =>
          simp only [Except.ok.injEq] at h
          subst h
          refine ⟨rfl, hd, rfl, by simp only; omega, rfl, rfl, raw, hraw, rfl⟩

/-- **Distance / proportionality.** Cell `(i, j)` of the window carries
    `abs (pdf (sqrt ((|mid_row - i| * ns)^2 + (|mid_col - j| * ew)^2))) / sum`. -/
theorem build_weight (T : TF α) (lw : Law) (pct ew ns scale shape : α) (K : Kernel α)
    (h : build T (some lw) pct ew ns scale shape = .ok K) (i j : Nat)
    (hi : i < K.rows.toNat) (hj : j < K.cols.toNat) :
    ∃ raw v, rawWeights T lw scale shape ns ew K.rows.toNat K.cols.toNat K.midRow K.midCol = .ok raw ∧
      lawPdf T lw scale shape (cellDist T ns ew (K.midRow - i) (K.midCol - j)) = .ok v ∧
      K.prob[i * K.cols.toNat + j]? = some (T.div (T.abs v) (sumScan T raw)) := by
  obtain ⟨_, _, _, _, _, _, raw, hraw, hprob⟩ := build_ok T lw pct ew ns scale shape K h
  have hk : i * K.cols.toNat + j < K.rows.toNat * K.cols.toNat := by
    calc i * K.cols.toNat + j < i * K.cols.toNat + K.cols.toNat := by omega
      _ = (i + 1) * K.cols.toNat := by rw [Nat.add_mul, Nat.one_mul]
      _ ≤ K.rows.toNat * K.cols.toNat := Nat.mul_le_mul_right _ hi
  obtain ⟨hlen, hall⟩ := mapM_except_ok _ _ _ hraw
  obtain ⟨w, hw, hr⟩ := hall (i * K.cols.toNat + j) (by simpa using hk)
  have hdiv : (i * K.cols.toNat + j) / K.cols.toNat = i := by
    rw [Nat.mul_comm, Nat.mul_add_div (by omega), Nat.div_eq_of_lt hj, Nat.add_zero]
  have hmod : (i * K.cols.toNat + j) % K.cols.toNat = j := by
    rw [Nat.mul_comm, Nat.mul_add_mod, Nat.mod_eq_of_lt hj]
  simp only [List.getElem_range, hdiv, hmod, rawWeight] at hw
  cases hv : lawPdf T lw scale shape (cellDist T ns ew (K.midRow - i) (K.midCol - j)) with
  | error e => rw [hv] at hw; simp [Except.map] at hw
  | ok v =>
    rw [hv] at hw
    simp only [Except.map, Except.ok.injEq] at hw
    refine ⟨raw, v, hraw, rfl, ?_⟩
    rw [hprob, List.getElem?_map, hr, ← hw]; rfl

/-! ### `operator()`: reset exactly when the source cell changes -/

theorem sourceChanged_iff (s : KState α) (row col : Int) :
    sourceChanged s row col = true ↔ (row, col) ≠ (s.prevRow, s.prevCol) := by
  simp only [sourceChanged, Bool.or_eq_true, bne_iff_ne, ne_eq, Prod.mk.injEq, not_and]
  constructor
  · rintro (h | h) h1
    · exact absurd h1 h
    · exact h
  · intro h
    by_cases h1 : row = s.prevRow
    · exact Or.inr (h h1)
    · exact Or.inl h1

/-- The working copy after a call depends only on the working copy before it. -/
theorem pickStep_copy (lt : α → α → Bool) (sub : α → α → α) (init δ : α) (c : List α) (k1 k2 : List Nat) :
    (pickStep lt sub init δ { copy := c, counts := k1 }).1.copy =
      (pickStep lt sub init δ { copy := c, counts := k2 }).1.copy ∧
    (pickStep lt sub init δ { copy := c, counts := k1 }).2 =
      (pickStep lt sub init δ { copy := c, counts := k2 }).2 := by
  simp only [pickStep]
  cases argmaxScan lt init c <;> simp

/-- **Reset.** A call for a supported kernel always succeeds, records the source cell, and works
    on the restored window `probability` with `1 / dispersers(row, col)` if and only if the source
    cell differs from that of the previous call; otherwise it continues on the working copy with
    the proportion it already had. -/
theorem call_reset (T : TF α) (K : Kernel α) (s : KState α) (row col n : Int) (hK : K.law.isSome = true) :
    ∃ s' cell, call T K s row col n = .ok (s', cell) ∧ s'.prevRow = row ∧ s'.prevCol = col ∧
      ((row, col) ≠ (s.prevRow, s.prevCol) →
        s'.delta = T.div (T.ofNat 1) (ofInt T n) ∧
        s'.copy = (pickStep T.ltb T.sub (detInit T) s'.delta { copy := K.prob, counts := [] }).1.copy) ∧
      ((row, col) = (s.prevRow, s.prevCol) →
        s'.delta = s.delta ∧
        s'.copy = (pickStep T.ltb T.sub (detInit T) s.delta { copy := s.copy, counts := [] }).1.copy) := by
  cases hl : K.law with
  | none => rw [hl] at hK; cases hK
  | some lw =>
    simp only [call, hl]
    refine ⟨_, _, rfl, rfl, rfl, ?_, ?_⟩
    · intro hne
      have := (sourceChanged_iff s row col).mpr hne
      simp [this]
    · intro heq
      have : sourceChanged s row col = false := by
        cases hc : sourceChanged s row col with
        | false => rfl
        | true => exact absurd heq ((sourceChanged_iff s row col).mp hc)
      simp [this]

/-- `m` further calls for the same source cell. -/
def callN (T : TF α) (K : Kernel α) (row col n : Int) : Nat → KState α → KState α
  | 0, s => s
  | m + 1, s =>
    match call T K (callN T K row col n m s) row col n with
    | .ok (s', _) => s'
    | .error _ => callN T K row col n m s

/-- **Fresh run.** Starting from any state whose previous source cell is a different one, the working
    copy after `m + 1` calls for `(row, col)` is the one `runPicks` computes from the untouched
    window with `δ = 1 / dispersers(row, col)`: the allotment theorems about `runPicks` apply to every
    new source cell, whatever happened before. -/
theorem callN_fresh (T : TF α) (K : Kernel α) (s : KState α) (row col n : Int) (hK : K.law.isSome = true)
    (hne : (row, col) ≠ (s.prevRow, s.prevCol)) (cnt : List Nat) (m : Nat) :
    let s' := callN T K row col n (m + 1) s
    s'.prevRow = row ∧ s'.prevCol = col ∧ s'.delta = T.div (T.ofNat 1) (ofInt T n) ∧
      s'.copy = (runPicks T.ltb T.sub (detInit T) (T.div (T.ofNat 1) (ofInt T n)) (m + 1)
                  { copy := K.prob, counts := cnt }).copy := by
  induction m with
  | zero =>
    obtain ⟨s', cell, hc, h1, h2, hch, _⟩ := call_reset T K s row col n hK
    obtain ⟨hd, hcopy⟩ := hch hne
    simp only [callN, hc, runPicks]
    refine ⟨h1, h2, hd, ?_⟩
    rw [hcopy, hd]
    exact (pickStep_copy _ _ _ _ _ _ _).1
  | succ m ih =>
    obtain ⟨ih1, ih2, ih3, ih4⟩ := ih
    obtain ⟨s', cell, hc, h1, h2, _, hsame⟩ :=
      call_reset T K (callN T K row col n (m + 1) s) row col n hK
    obtain ⟨hd, hcopy⟩ := hsame (by rw [ih1, ih2])
    have hstep : callN T K row col n (m + 1 + 1) s = s' := by
      show (match call T K (callN T K row col n (m + 1) s) row col n with
            | .ok (s', _) => s'
            | .error _ => callN T K row col n (m + 1) s) = s'
      rw [hc]
    show (callN T K row col n (m + 1 + 1) s).prevRow = row ∧ _
    rw [hstep]
    refine ⟨h1, h2, by rw [hd]; exact ih3, ?_⟩
    rw [hcopy, ih3, ih4]
    show _ = (pickStep T.ltb T.sub (detInit T) (T.div (T.ofNat 1) (ofInt T n))
      (runPicks T.ltb T.sub (detInit T) (T.div (T.ofNat 1) (ofInt T n)) (m + 1) { copy := K.prob, counts := cnt })).1.copy
    exact (pickStep_copy _ _ _ _ _ _ _).1

end Pops.Det
