/-
  C17, several groups of pests arriving at the same destination: helper definitions and lemmas for
  Props/C17Aggregate.lean.

  * `arrivingAt g ms k`: the total of the counts of the pending moves `ms` aimed at flat index `k`.
  * `arrivingAtRC g ms r c`: the same, the destination being named by its row and column.
  * `arriveFirstOnly`: a WRONG second phase (keeps the first move per destination and drops the later
    ones, as a `std::map::emplace` keyed by the destination would) - used only in a refutation.
-/
import PopsModel.Model.OverpopSpec
import PopsModel.Lemmas.Actions
import PopsModel.Lemmas.C17General
namespace Pops

/-- Total number of pests heading for the cell with flat index `k`: the sum of the counts of the
    pending moves whose target has that flat index. -/
def arrivingAt (g : Grid) (ms : List (Int × Int × Int)) (k : Nat) : Int :=
  sumL ((ms.filter fun m => g.idx m.1 m.2.1 == k).map (·.2.2))

/-- Total number of pests heading for the cell (r, c): the sum of the counts of the pending moves
    whose target is exactly that cell. -/
def arrivingAtRC (ms : List (Int × Int × Int)) (r c : Int) : Int :=
  sumL ((ms.filter fun m => m.1 == r && m.2.1 == c).map (·.2.2))

/-- One arrival, the step function of `arriveAll`. -/
def arriveOne (g : Grid) (cs : List Cell) (m : Int × Int × Int) : List Cell :=
  cs.set (g.idx m.1 m.2.1) ((cs[g.idx m.1 m.2.1]!).pestsTo m.2.2).1

theorem agg_arriveAll_eq (g : Grid) (ms : List (Int × Int × Int)) (cells : List Cell) :
    arriveAll g ms cells = ms.foldl (arriveOne g) cells := rfl

theorem agg_arriveAll_nil (g : Grid) (cells : List Cell) : arriveAll g [] cells = cells := rfl

theorem agg_arriveAll_cons (g : Grid) (m : Int × Int × Int) (ms : List (Int × Int × Int)) (cells : List Cell) :
    arriveAll g (m :: ms) cells = arriveAll g ms (arriveOne g cells m) := rfl

/-- A WRONG second phase, for the refutation `C17_dropping_second_group_differs`: the moves are first
    put into a table keyed by the destination, an entry for an already present key being dropped
    (`std::map::emplace`); `seen` holds the keys already present. -/
def firstPerDestination : List (Int × Int × Int) → List (Int × Int) → List (Int × Int × Int)
  | [], _ => []
  | m :: rest, seen =>
    if (m.1, m.2.1) ∈ seen then firstPerDestination rest seen
    else m :: firstPerDestination rest ((m.1, m.2.1) :: seen)

/-- Arrivals with only the first move per destination applied. -/
def arriveFirstOnly (g : Grid) (moves : List (Int × Int × Int)) (cells : List Cell) : List Cell :=
  arriveAll g (firstPerDestination moves []) cells

/-! ### two groups at one cell -/

/-- `pests_to` touches the susceptible and infected counts only. -/
theorem agg_pestsTo_eq (c : Cell) (k : Int) :
    (c.pestsTo k).1 = { c with s := c.s - min k c.s, i := c.i + min k c.s } ∧ (c.pestsTo k).2 = min k c.s := by
  unfold Cell.pestsTo
  by_cases h : c.s ≥ k
  · have e : min k c.s = k := by omega
    simp only [h, if_true, e, and_self]
  · have e : min k c.s = c.s := by omega
    simp only [h, if_false, e, and_self]

theorem agg_pestsTo_frame (c : Cell) (k : Int) :
    (c.pestsTo k).1.e = c.e ∧ (c.pestsTo k).1.r = c.r ∧ (c.pestsTo k).1.te = c.te ∧
    (c.pestsTo k).1.mort = c.mort ∧ (c.pestsTo k).1.died = c.died ∧ (c.pestsTo k).1.th = c.th := by
  rw [(agg_pestsTo_eq c k).1]
  exact ⟨rfl, rfl, rfl, rfl, rfl, rfl⟩

/-- Two groups one after the other = one group of the total size. Exact domain: the first group
    fits, or the second is not negative. -/
theorem agg_pestsTo_pestsTo (c : Cell) (k1 k2 : Int) (h : k1 ≤ c.s ∨ 0 ≤ k2) :
    ((c.pestsTo k1).1.pestsTo k2).1 = (c.pestsTo (k1 + k2)).1 ∧
    (c.pestsTo k1).2 + ((c.pestsTo k1).1.pestsTo k2).2 = (c.pestsTo (k1 + k2)).2 := by
  rw [(agg_pestsTo_eq (c.pestsTo k1).1 k2).1, (agg_pestsTo_eq (c.pestsTo k1).1 k2).2,
    (agg_pestsTo_eq c (k1 + k2)).1, (agg_pestsTo_eq c (k1 + k2)).2,
    (agg_pestsTo_eq c k1).1, (agg_pestsTo_eq c k1).2]
  have e : min k1 c.s + min k2 (c.s - min k1 c.s) = min (k1 + k2) c.s := by omega
  refine ⟨?_, e⟩
  show ({ c with s := c.s - min k1 c.s - min k2 (c.s - min k1 c.s),
                 i := c.i + min k1 c.s + min k2 (c.s - min k1 c.s) } : Cell) = _
  have e1 : c.s - min k1 c.s - min k2 (c.s - min k1 c.s) = c.s - min (k1 + k2) c.s := by omega
  have e2 : c.i + min k1 c.s + min k2 (c.s - min k1 c.s) = c.i + min (k1 + k2) c.s := by omega
  rw [e1, e2]

/-- What "the cell is the old one after one arrival of `n`" says field by field. -/
theorem agg_fields_of_eq_pestsTo (x c : Cell) (n : Int) (h : x = (c.pestsTo n).1) :
    x.i = c.i + min n c.s ∧ x.s = c.s - min n c.s ∧ x.e = c.e ∧ x.r = c.r ∧ x.te = c.te ∧
    x.mort = c.mort ∧ x.died = c.died ∧ x.th = c.th := by
  rw [h, (agg_pestsTo_eq c n).1]
  exact ⟨rfl, rfl, rfl, rfl, rfl, rfl, rfl, rfl⟩

/-- No pest arriving changes nothing when the susceptible count is not negative. -/
theorem agg_pestsTo_zero (c : Cell) (h : 0 ≤ c.s) : (c.pestsTo 0).1 = c := by
  rw [(agg_pestsTo_eq c 0).1]
  have e : min 0 c.s = 0 := by omega
  rw [e]
  cases c
  simp only [Int.sub_zero, Int.add_zero]

/-- A sequence of groups at one cell. -/
theorem agg_pestsTo_fold (ks : List Int) (hk : ∀ x ∈ ks, 0 ≤ x) :
    ∀ (c : Cell) (k0 : Int),
      ks.foldl (fun (d : Cell) x => (d.pestsTo x).1) (c.pestsTo k0).1 = (c.pestsTo (k0 + sumL ks)).1 := by
  induction ks with
  | nil => intro c k0; simp only [List.foldl_nil, sumL_nil, Int.add_zero]
  | cons x rest ih =>
    intro c k0
    rw [List.foldl_cons, (agg_pestsTo_pestsTo c k0 x (Or.inr (hk x List.mem_cons_self))).1,
      ih (fun y hy => hk y (List.mem_cons_of_mem _ hy)) c (k0 + x), sumL_cons, Int.add_assoc]

/-! ### the landscape -/

theorem agg_arriveOne_length (g : Grid) (cs : List Cell) (m : Int × Int × Int) :
    (arriveOne g cs m).length = cs.length := by
  unfold arriveOne; rw [List.length_set]

theorem agg_arriveAll_length (g : Grid) (ms : List (Int × Int × Int)) :
    ∀ cells : List Cell, (arriveAll g ms cells).length = cells.length := by
  induction ms with
  | nil => intro cells; rfl
  | cons m rest ih => intro cells; rw [agg_arriveAll_cons, ih, agg_arriveOne_length]

theorem agg_arriveOne_get_self (g : Grid) (cs : List Cell) (m : Int × Int × Int) (k : Nat)
    (hk : k < cs.length) (he : g.idx m.1 m.2.1 = k) :
    (arriveOne g cs m)[k]! = ((cs[k]!).pestsTo m.2.2).1 := by
  unfold arriveOne; rw [he]; exact act_getElem!_set_self _ _ hk

theorem agg_arriveOne_get_ne (g : Grid) (cs : List Cell) (m : Int × Int × Int) (k : Nat)
    (he : g.idx m.1 m.2.1 ≠ k) : (arriveOne g cs m)[k]! = cs[k]! := by
  unfold arriveOne; exact act_getElem!_set_ne _ _ (Ne.symm he)

theorem agg_arrivingAt_nil (g : Grid) (k : Nat) : arrivingAt g [] k = 0 := rfl

theorem agg_arrivingAt_cons_self (g : Grid) (m : Int × Int × Int) (ms : List (Int × Int × Int)) (k : Nat)
    (he : g.idx m.1 m.2.1 = k) : arrivingAt g (m :: ms) k = m.2.2 + arrivingAt g ms k := by
  unfold arrivingAt
  rw [List.filter_cons_of_pos (by rw [he]; exact beq_self_eq_true k), List.map_cons, sumL_cons]

theorem agg_arrivingAt_cons_ne (g : Grid) (m : Int × Int × Int) (ms : List (Int × Int × Int)) (k : Nat)
    (he : g.idx m.1 m.2.1 ≠ k) : arrivingAt g (m :: ms) k = arrivingAt g ms k := by
  unfold arrivingAt
  rw [List.filter_cons_of_neg (by simpa using he)]

theorem agg_arrivingAt_nonneg (g : Grid) (ms : List (Int × Int × Int)) (k : Nat) (hc : ∀ m ∈ ms, 0 ≤ m.2.2) :
    0 ≤ arrivingAt g ms k := by
  induction ms with
  | nil => rw [agg_arrivingAt_nil]; omega
  | cons m rest ih =>
    have hr := ih (fun q hq => hc q (List.mem_cons_of_mem _ hq))
    by_cases he : g.idx m.1 m.2.1 = k
    · rw [agg_arrivingAt_cons_self g m rest k he]
      have := hc m List.mem_cons_self
      omega
    · rw [agg_arrivingAt_cons_ne g m rest k he]; exact hr

/-- The cell with flat index `k` after all arrivals, the landscape holding `(c.pestsTo k0).1` there
    (generalised start so that the induction goes through without a sign condition on `c.s`). -/
theorem agg_arriveAll_get_from (g : Grid) (k : Nat) (ms : List (Int × Int × Int)) (hc : ∀ m ∈ ms, 0 ≤ m.2.2) :
    ∀ (cells : List Cell) (c : Cell) (k0 : Int), k < cells.length → cells[k]! = (c.pestsTo k0).1 →
      (arriveAll g ms cells)[k]! = (c.pestsTo (k0 + arrivingAt g ms k)).1 := by
  induction ms with
  | nil =>
    intro cells c k0 _ h0
    rw [agg_arriveAll_nil, agg_arrivingAt_nil, Int.add_zero, h0]
  | cons m rest ih =>
    intro cells c k0 hk h0
    have hc' : ∀ q ∈ rest, 0 ≤ q.2.2 := fun q hq => hc q (List.mem_cons_of_mem _ hq)
    have hk' : k < (arriveOne g cells m).length := by rw [agg_arriveOne_length]; exact hk
    rw [agg_arriveAll_cons]
    by_cases he : g.idx m.1 m.2.1 = k
    · have h1 : (arriveOne g cells m)[k]! = (c.pestsTo (k0 + m.2.2)).1 := by
        rw [agg_arriveOne_get_self g cells m k hk he, h0]
        exact (agg_pestsTo_pestsTo c k0 m.2.2 (Or.inr (hc m List.mem_cons_self))).1
      rw [ih hc' _ c (k0 + m.2.2) hk' h1, agg_arrivingAt_cons_self g m rest k he, Int.add_assoc]
    · have h1 : (arriveOne g cells m)[k]! = (c.pestsTo k0).1 := by
        rw [agg_arriveOne_get_ne g cells m k he, h0]
      rw [ih hc' _ c k0 hk' h1, agg_arrivingAt_cons_ne g m rest k he]

/-- The cell with flat index `k` after all arrivals: one arrival of the total. -/
theorem agg_arriveAll_get (g : Grid) (ms : List (Int × Int × Int)) (cells : List Cell) (k : Nat)
    (hc : ∀ m ∈ ms, 0 ≤ m.2.2) (hk : k < cells.length) (hs : 0 ≤ (cells[k]!).s) :
    (arriveAll g ms cells)[k]! = ((cells[k]!).pestsTo (arrivingAt g ms k)).1 := by
  have h := agg_arriveAll_get_from g k ms hc cells (cells[k]!) 0 hk (agg_pestsTo_zero _ hs).symm
  rw [Int.zero_add] at h
  exact h

/-- Inside the raster, "same flat index" and "same cell" select the same moves. -/
theorem agg_arrivingAt_rc (g : Grid) (ms : List (Int × Int × Int)) (r c : Int)
    (hin : ∀ m ∈ ms, g.isOutside m.1 m.2.1 = false) (hrc : g.isOutside r c = false) :
    arrivingAt g ms (g.idx r c) = arrivingAtRC ms r c := by
  unfold arrivingAt arrivingAtRC
  congr 2
  apply List.filter_congr
  intro m hm
  by_cases he : g.idx m.1 m.2.1 = g.idx r c
  · have := over_idx_inj g m.1 m.2.1 r c (hin m hm) hrc he
    have e1 : m.1 = r := congrArg Prod.fst this
    have e2 : m.2.1 = c := congrArg Prod.snd this
    simp only [e1, e2, beq_self_eq_true, Bool.and_self]
  · have hne : ¬ (m.1 = r ∧ m.2.1 = c) := fun ⟨a, b⟩ => he (by rw [a, b])
    have l : (g.idx m.1 m.2.1 == g.idx r c) = false := by simpa using he
    rw [l]
    symm
    simpa using hne

/-! ### order of the groups -/

/-- Two arrivals commute when the counts are not negative. -/
theorem agg_arriveOne_comm (g : Grid) (cs : List Cell) (x y : Int × Int × Int) (hx : 0 ≤ x.2.2) (hy : 0 ≤ y.2.2) :
    arriveOne g (arriveOne g cs x) y = arriveOne g (arriveOne g cs y) x := by
  by_cases he : g.idx x.1 x.2.1 = g.idx y.1 y.2.1
  · by_cases hk : g.idx x.1 x.2.1 < cs.length
    · unfold arriveOne
      rw [← he, act_getElem!_set_self _ _ hk, act_getElem!_set_self _ _ hk, List.set_set, List.set_set,
        (agg_pestsTo_pestsTo _ x.2.2 y.2.2 (Or.inr hy)).1, (agg_pestsTo_pestsTo _ y.2.2 x.2.2 (Or.inr hx)).1,
        Int.add_comm]
    · have n1 : ∀ a : Cell, cs.set (g.idx x.1 x.2.1) a = cs := fun a => List.set_eq_of_length_le (by omega)
      unfold arriveOne
      rw [← he, List.set_set, List.set_set, n1, n1]
  · unfold arriveOne
    rw [act_getElem!_set_ne cs _ (Ne.symm he), act_getElem!_set_ne cs _ he, List.set_comm _ _ he]

theorem agg_arriveAll_perm (g : Grid) (ms ms' : List (Int × Int × Int)) (cells : List Cell)
    (hp : ms'.Perm ms) (hc : ∀ m ∈ ms, 0 ≤ m.2.2) :
    arriveAll g ms' cells = arriveAll g ms cells := by
  rw [agg_arriveAll_eq, agg_arriveAll_eq]
  exact (hp.symm.foldl_eq' (fun x hx y hy z => agg_arriveOne_comm g z x y (hc x hx) (hc y hy)) cells).symm

/-! ### pending moves of the overpopulation action -/

/-- A departing cell sends a non-negative number of pests when the leaving share is not negative. -/
theorem agg_leavingCount_nonneg (thr leaving : Rat) (c : Cell) (h0 : 0 ≤ leaving) (hd : departs thr c = true) :
    0 ≤ leavingCount leaving c := by
  have hi := ((act_departs_iff thr c).mp hd).1
  unfold leavingCount
  apply lround_nonneg
  have : (0 : Rat) ≤ (c.i : Rat) := by
    have : (0 : Int) ≤ c.i := by omega
    exact_mod_cast this
  exact Rat.mul_nonneg this h0

theorem agg_pending_nonneg (g : Grid) (thr leaving : Rat) (suit : List (Int × Int)) (cells : List Cell)
    (ts : List (Int × Int)) (h0 : 0 ≤ leaving) :
    ∀ m ∈ overPending g leaving cells (overPairs g thr suit cells ts), 0 ≤ m.2.2 := by
  intro m hm
  unfold overPending at hm
  obtain ⟨pr, hpr, he⟩ := List.mem_filterMap.mp hm
  by_cases ho : g.isOutside pr.2.1 pr.2.2 = true
  · simp only [ho, if_true, reduceCtorEq] at he
  · simp only [ho, if_false, Option.some.injEq, Bool.false_eq_true] at he
    rw [← he]
    exact agg_leavingCount_nonneg thr leaving _ h0 (over_mem_pairs g thr suit cells ts pr hpr).2.1

/-- After the departures a cell has at least its former susceptible count. -/
theorem agg_departed_s (g : Grid) (thr leaving : Rat) (suit : List (Int × Int)) (cells : List Cell)
    (ts : List (Int × Int)) (hnd : (suit.map fun rc => g.idx rc.1 rc.2).Nodup) (h0 : 0 ≤ leaving) (k : Nat) :
    (cells[k]!).s ≤ ((overDeparted g leaving cells (overPairs g thr suit cells ts))[k]!).s := by
  obtain ⟨_, a2, a3⟩ := over_departedFrom_get g leaving cells (overPairs g thr suit cells ts) cells
    (over_pairs_idx_nodup g thr suit cells ts hnd)
    (fun pr hpr => act_departs_lt (over_mem_pairs g thr suit cells ts pr hpr).2.1)
  by_cases hsrc : ∃ pr ∈ overPairs g thr suit cells ts, g.idx pr.1.1 pr.1.2 = k
  · obtain ⟨pr, hpr, he⟩ := hsrc
    have h := a2 pr hpr
    rw [he] at h
    unfold overDeparted
    rw [h]
    unfold overSourceAfter
    rw [he]
    have := agg_leavingCount_nonneg thr leaving (cells[k]!) h0
      (by have := (over_mem_pairs g thr suit cells ts pr hpr).2.1; rw [he] at this; exact this)
    show (cells[k]!).s ≤ (cells[k]!).s + leavingCount leaving (cells[k]!)
    omega
  · have h := a3 k (fun pr hpr he => hsrc ⟨pr, hpr, he⟩)
    unfold overDeparted
    rw [h]
    omega

/-- The departures touch the susceptible and infected counts only. -/
theorem agg_departed_frame (g : Grid) (thr leaving : Rat) (suit : List (Int × Int)) (cells : List Cell)
    (ts : List (Int × Int)) (hnd : (suit.map fun rc => g.idx rc.1 rc.2).Nodup) (k : Nat) :
    let d := (overDeparted g leaving cells (overPairs g thr suit cells ts))[k]!
    d.e = (cells[k]!).e ∧ d.r = (cells[k]!).r ∧ d.te = (cells[k]!).te ∧ d.mort = (cells[k]!).mort ∧
    d.died = (cells[k]!).died ∧ d.th = (cells[k]!).th := by
  obtain ⟨_, a2, a3⟩ := over_departedFrom_get g leaving cells (overPairs g thr suit cells ts) cells
    (over_pairs_idx_nodup g thr suit cells ts hnd)
    (fun pr hpr => act_departs_lt (over_mem_pairs g thr suit cells ts pr hpr).2.1)
  by_cases hsrc : ∃ pr ∈ overPairs g thr suit cells ts, g.idx pr.1.1 pr.1.2 = k
  · obtain ⟨pr, hpr, he⟩ := hsrc
    have h := a2 pr hpr
    rw [he] at h
    unfold overDeparted
    intro d
    have hd : d = overSourceAfter g leaving cells pr.1 := h
    rw [hd]
    unfold overSourceAfter
    rw [he]
    exact ⟨rfl, rfl, rfl, rfl, rfl, rfl⟩
  · have h := a3 k (fun pr hpr he => hsrc ⟨pr, hpr, he⟩)
    unfold overDeparted
    intro d
    have hd : d = cells[k]! := h
    rw [hd]
    exact ⟨rfl, rfl, rfl, rfl, rfl, rfl⟩

end Pops
