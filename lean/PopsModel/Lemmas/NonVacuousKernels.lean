/-
  Non-vacuity audit of Props/C13, C14, C15, C17Kern: the concrete instances (core Lean only) and
  small helper lemmas. The `example`s / `nv_*` theorems that feed these instances to the property
  theorems are in Props/NonVacuous/Kernels.lean (C15, Mathlib-free) and
  Props/NonVacuous/KernelsReal.lean (C13, C14, C17Kern: their Props files import Mathlib modules).
-/
import PopsModel.Model.NetPred
import PopsModel.Model.Kern
import PopsModel.Model.Det
import PopsModel.Model.DetPred
namespace Pops.NV
open Pops.Net

/-! ### Generic helpers -/

/-- A successful result can be recovered from its `toOption` image (used because `Net` has no
    decidable equality: results of `load` are compared through their segment lists). -/
theorem ok_of_toOption {ε α β : Type} {x : Except ε α} {f : α → β} {b : β}
    (h : x.toOption.map f = some b) : ∃ a, x = .ok a ∧ f a = b := by
  cases x with
  | error e => simp [Except.toOption] at h
  | ok a => exact ⟨a, rfl, by simpa [Except.toOption] using h⟩

/-- `Net.WF` from its boolean check. -/
theorem wf_of_check (n : Net)
    (h : (n.segs.all fun e => decide (2 ≤ e.2.cells.length) && decide (0 < e.2.cost)) = true) : n.WF := by
  simp only [List.all_eq_true, Bool.and_eq_true, decide_eq_true_eq] at h
  exact ⟨fun e he => (h e he).1, fun e he => (h e he).2⟩

theorem cells_ne_nil_of_check (n : Net)
    (h : (n.segs.all fun e => !e.2.cells.isEmpty) = true) : ∀ e ∈ n.segs, e.2.cells ≠ [] := by
  simp only [List.all_eq_true, Bool.not_eq_true', List.isEmpty_eq_false_iff] at h
  exact h

theorem cost_pos_of_check (n : Net)
    (h : (n.segs.all fun e => decide (0 < e.2.cost)) = true) : ∀ e ∈ n.segs, 0 < e.2.cost := by
  simp only [List.all_eq_true, decide_eq_true_eq] at h
  exact h

/-! ### C15: a network with four nodes, a triangle 1-2-3 (the edge 3-1 has three cells, the others
    two), a dead end 3-4, and an edge 4-5 that leaves the study area (clipped).
    Box `[20,30] x [0,10]`, cells 1 wide (east-west) and 2 high (north-south): 6 x 11 cells. -/

def grid : Grid := ⟨10, 0, 30, 20, 1, 2⟩

/-- Input without cost column (with a header line); two points of the first edge share a cell. -/
def text : List Char :=
  "node_1,node_2,geometry\n1,2,21.5;7.5;21.75;7.5;23.5;7.5\n2,3,23.5;7.5;23.5;3.5\n3,1,23.5;3.5;22.5;5.5;21.5;7.5\n3,4,23.5;3.5;26.5;3.5\n4,5,26.5;3.5;33.5;3.5\n".toList

def net : Net :=
  { grid := grid, hasProb := false,
    segs := [((1, 2), ⟨[(1, 1), (1, 3)], 3 / 2, 0, 0⟩), ((2, 3), ⟨[(1, 3), (3, 3)], 3 / 2, 0, 0⟩),
             ((3, 1), ⟨[(3, 3), (2, 2), (1, 1)], 3 / 2, 0, 0⟩), ((3, 4), ⟨[(3, 3), (3, 6)], 3 / 2, 0, 0⟩)] }

/-- The same edges with a probability and a cost column: all four costs differ. -/
def textPC : List Char :=
  "node_1,node_2,probability,cost,geometry\n1,2,0.5,4,21.5;7.5;23.5;7.5\n2,3,0.25,2.5,23.5;7.5;23.5;3.5\n3,1,0,6,23.5;3.5;22.5;5.5;21.5;7.5\n3,4,0.75,1,23.5;3.5;26.5;3.5\n".toList

def netPC : Net :=
  { grid := grid, hasProb := true,
    segs := [((1, 2), ⟨[(1, 1), (1, 3)], 0, 4, 1 / 2⟩), ((2, 3), ⟨[(1, 3), (3, 3)], 0, 5 / 2, 1 / 4⟩),
             ((3, 1), ⟨[(3, 3), (2, 2), (1, 1)], 0, 6, 0⟩), ((3, 4), ⟨[(3, 3), (3, 6)], 0, 1, 3 / 4⟩)] }

end Pops.NV
