/-
  Non-vacuity audit of Props/C13, C14, C15, C17Kern: the concrete instances (core Lean only) and
  small helper lemmas. The `example`s / `nv_*` theorems that feed these instances to the property
  theorems are in Props/NonVacuous/Kernels.lean (C15, Mathlib-free) and
  Props/NonVacuous/KernelsReal.lean (C13, C14, C17Kern: their Props files import Mathlib modules).
-/
import PopsModel.Model.NetPred
import PopsModel.Model.Kern
import PopsModel.Model.Det
import PopsModel.Model.DetPred
namespace Pops.NV
open Pops.Net

/-! ### Generic helpers -/

/-- A successful result can be recovered from its `toOption` image (used because `Net` has no
    decidable equality: results of `load` are compared through their segment lists). -/
theorem ok_of_toOption {ε α β : Type} {x : Except ε α} {f : α → β} {b : β}
    (h : x.toOption.map f = some b) : ∃ a, x = .ok a ∧ f a = b := by
  cases x with
  | error e => simp [Except.toOption] at h
  | ok a => exact ⟨a, rfl, by simpa [Except.toOption] using h⟩

/-- `Net.WF` from its boolean check. -/
theorem wf_of_check (n : Net)
    (h : (n.segs.all fun e => decide (2 ≤ e.2.cells.length) && decide (0 < e.2.cost)) = true) : n.WF := by
  simp only [List.all_eq_true, Bool.and_eq_true, decide_eq_true_eq] at h
  exact ⟨fun e he => (h e he).1, fun e he => (h e he).2⟩

theorem cells_ne_nil_of_check (n : Net)
    (h : (n.segs.all fun e => !e.2.cells.isEmpty) = true) : ∀ e ∈ n.segs, e.2.cells ≠ [] := by
  simp only [List.all_eq_true, Bool.not_eq_true', List.isEmpty_eq_false_iff] at h
  exact h

theorem cost_pos_of_check (n : Net)
    (h : (n.segs.all fun e => decide (0 < e.2.cost)) = true) : ∀ e ∈ n.segs, 0 < e.2.cost := by
  simp only [List.all_eq_true, decide_eq_true_eq] at h
  exact h

/-! ### C15: a network with four nodes, a triangle 1-2-3 (the edge 3-1 has three cells, the others
    two), a dead end 3-4, and an edge 4-5 that leaves the study area (clipped).
    Box `[20,30] x [0,10]`, cells 1 wide (east-west) and 2 high (north-south): 6 x 11 cells. -/

def grid : Grid := ⟨10, 0, 30, 20, 1, 2⟩

/-- Input without cost column (with a header line); two points of the first edge share a cell. -/
def text : List Char :=
  "node_1,node_2,geometry\n1,2,21.5;7.5;21.75;7.5;23.5;7.5\n2,3,23.5;7.5;23.5;3.5\n3,1,23.5;3.5;22.5;5.5;21.5;7.5\n3,4,23.5;3.5;26.5;3.5\n4,5,26.5;3.5;33.5;3.5\n".toList

def net : Net :=
  { grid := grid, hasProb := false,
    segs := [((1, 2), ⟨[(1, 1), (1, 3)], 3 / 2, 0, 0⟩), ((2, 3), ⟨[(1, 3), (3, 3)], 3 / 2, 0, 0⟩),
             ((3, 1), ⟨[(3, 3), (2, 2), (1, 1)], 3 / 2, 0, 0⟩), ((3, 4), ⟨[(3, 3), (3, 6)], 3 / 2, 0, 0⟩)] }

/-- The same edges with a probability and a cost column: all four costs differ. -/
def textPC : List Char :=
  "node_1,node_2,probability,cost,geometry\n1,2,0.5,4,21.5;7.5;23.5;7.5\n2,3,0.25,2.5,23.5;7.5;23.5;3.5\n3,1,0,6,23.5;3.5;22.5;5.5;21.5;7.5\n3,4,0.75,1,23.5;3.5;26.5;3.5\n".toList

def netPC : Net :=
  { grid := grid, hasProb := true,
    segs := [((1, 2), ⟨[(1, 1), (1, 3)], 0, 4, 1 / 2⟩), ((2, 3), ⟨[(1, 3), (3, 3)], 0, 5 / 2, 1 / 4⟩),
             ((3, 1), ⟨[(3, 3), (2, 2), (1, 1)], 0, 6, 0⟩), ((3, 4), ⟨[(3, 3), (3, 6)], 0, 1, 3 / 4⟩)] }

end Pops.NV

namespace Pops.NV
open Pops.Net

theorem exists_ok_of_isSome {ε α : Type} {x : Except ε α} (h : x.toOption.isSome = true) :
    ∃ a, x = .ok a := by
  cases x with
  | error e => simp [Except.toOption] at h
  | ok a => exact ⟨a, rfl⟩

theorem all_parse_of_check (g : Grid) (hc hp : Bool) (pre : List (List Char))
    (h : (pre.all fun l => (parseRecord g hc hp l).toOption.isSome) = true) :
    ∀ l' ∈ pre, ∃ r, parseRecord g hc hp l' = .ok r := by
  simp only [List.all_eq_true] at h
  exact fun l' hl => exists_ok_of_isSome (h l' hl)

/-! Records (one input line each) -/

/-- Three points, the first two in one cell: merged to two cells. No cost column. -/
def lineMerge : List Char := "1,2,21.5;7.5;21.75;7.5;23.5;7.5".toList
def recMerge : Rec := ⟨(1, 2), ⟨[(1, 1), (1, 3)], 3 / 2, 0, 0⟩, (43 / 2, 15 / 2), (47 / 2, 15 / 2)⟩

/-- Both points in one cell: completed to `[c, c]`. -/
def lineOneCell : List Char := "1,2,21.5;7.5;21.75;7.5".toList
def recOneCell : Rec := ⟨(1, 2), ⟨[(1, 1), (1, 1)], 3 / 2, 0, 0⟩, (43 / 2, 15 / 2), (87 / 4, 15 / 2)⟩

/-- Probability and cost columns, three cells, stated cost 6. -/
def linePC : List Char := "3,1,0.125,6,23.5;3.5;22.5;5.5;21.5;7.5".toList
def recPC : Rec := ⟨(3, 1), ⟨[(3, 3), (2, 2), (1, 1)], 0, 6, 1 / 8⟩, (47 / 2, 7 / 2), (43 / 2, 15 / 2)⟩

/-- Both end points inside the box. -/
def lineInside : List Char := "2,3,23.5;7.5;23.5;3.5".toList
def recInside : Rec := ⟨(2, 3), ⟨[(1, 3), (3, 3)], 3 / 2, 0, 0⟩, (47 / 2, 15 / 2), (47 / 2, 7 / 2)⟩

/-- Second end point half a cell east of the box: kept by the coded rule (region of F17). -/
def lineEdge : List Char := "3,4,23.5;3.5;30.5;3.5".toList
def recEdge : Rec := ⟨(3, 4), ⟨[(3, 3), (3, 10)], 3 / 2, 0, 0⟩, (47 / 2, 7 / 2), (61 / 2, 7 / 2)⟩

end Pops.NV

namespace Pops.NV
open Pops.Det

/-! ### C14: a 3 x 5 window (rows != cols, 15 cells), weights `r_i * c_j / 40` with
    `r = [1, 2, 1]`, `c = [1, 2, 4, 2, 1]`: non-uniform, mirror symmetric, maximum 1/5 at the centre. -/

def window : List Rat :=
  [1 / 40, 1 / 20, 1 / 10, 1 / 20, 1 / 40,
   1 / 20, 1 / 10, 1 / 5, 1 / 10, 1 / 20,
   1 / 40, 1 / 20, 1 / 10, 1 / 20, 1 / 40]

/-- `mapM` of a function that never throws. -/
theorem mapM_ok_of_forall {β γ : Type} (f : β → Except ErrKind γ) (g : β → γ) (hf : ∀ b, f b = .ok (g b)) :
    ∀ l : List β, l.mapM f = .ok (l.map g) := by
  intro l
  induction l with
  | nil => rfl
  | cons x xs ih => rw [List.mapM_cons, hf x, ih]; rfl

/-- The constructor body evaluated from its four intermediate results. -/
theorem buildLaw_eq {α : Type} (T : TF α) (lw : Det.Law) (pct ew ns scale shape dmax : α) (r c : Int)
    (raw : List α) (hd : lawIcdf T lw scale shape pct = .ok dmax) (hw : windowDims T dmax ns ew = (r, c))
    (hnn : ¬ r * c < 0)
    (hraw : rawWeights T lw scale shape ns ew r.toNat c.toNat (Int.tdiv r 2) (Int.tdiv c 2) = .ok raw) :
    buildLaw T lw pct ew ns scale shape =
      .ok { law := some lw, rows := r, cols := c, midRow := Int.tdiv r 2, midCol := Int.tdiv c 2,
            dmax := dmax, prob := raw.map (T.div · (sumScan T raw)) } := by
  unfold buildLaw
  rw [hd]
  simp only [hw, hnn, if_false, hraw]

/-! ### C13 / C17: configurations -/

/-- Weibull natural kernel towards NE, Cauchy anthropogenic kernel towards W, anthropogenic
    dispersal enabled with natural share 3/4, resolutions 30 (east-west) and 10 (north-south). -/
def cfg : KernelConfig :=
  { rows := 3, cols := 7, ewRes := 30, nsRes := 10, dispersalStochasticity := true,
    dispersalPercentage := 99 / 100, shape := 2, naturalKernelType := "weibull", naturalScale := 5,
    naturalDirection := "NE", naturalKappa := 3, useAnthropogenicKernel := true,
    percentNaturalDispersal := 3 / 4, anthroKernelType := "Cauchy", anthroScale := 40, anthroDirection := "W",
    anthroKappa := 1, networkMovement := "walk", networkMinDistance := 0, networkMaxDistance := 100 }

def cfgUniform : KernelConfig := { cfg with naturalKernelType := "uniform", anthroKernelType := "Uniform" }
def cfgNeighbor : KernelConfig := { cfg with naturalKernelType := "Deterministic-neighbor", naturalDirection := "S" }
def cfgBadName : KernelConfig := { cfg with naturalKernelType := "exponential_power" }

/-- `create_overpopulation_movement_kernel` succeeds when the four names are known and the rescaled
    scale and the shape are positive. -/
theorem createOverpop_ok (c : KernelConfig) (coef : Rat) (t a : DispersalKernelType) (d ad : Direction)
    (hk : kernelTypeFromString c.naturalKernelType = .ok t) (ha : kernelTypeFromString c.anthroKernelType = .ok a)
    (hd : directionFromString c.naturalDirection = .ok d) (had : directionFromString c.anthroDirection = .ok ad)
    (hok : radialCtorOk (c.naturalScale * coef) c.shape = true) :
    ∃ k, createOverpopulationKernel c coef = .ok k := by
  simp only [createOverpopulationKernel, modelKernelMembers, hk, ha, hd, had, hok, bind, Except.bind, pure,
    Except.pure, if_true]
  exact ⟨_, rfl⟩

end Pops.NV
