/-
  Helpers for the non-vacuity audit Props/NonVacuous/Multi.lean (C16, C18, C18List, C19):
  decision procedures that let concrete instances be checked by `decide +kernel`, and a total
  projection out of `Except Fault (Heap α)` used to name the states a concrete run passes through.
-/
import PopsModel.Props.C16
import PopsModel.Props.C18
import PopsModel.Props.C18List
import PopsModel.Props.C19
namespace Pops

/-- Decidable equality of `Except` values (core has none); a `def`, made a local instance where
    it is needed. -/
@[instance_reducible] def nvmDecEqExcept {ε α : Type} [DecidableEq ε] [DecidableEq α] : DecidableEq (Except ε α)
  | .ok a, .ok b => if h : a = b then isTrue (by rw [h]) else isFalse (fun h' => h (by cases h'; rfl))
  | .error a, .error b => if h : a = b then isTrue (by rw [h]) else isFalse (fun h' => h (by cases h'; rfl))
  | .ok _, .error _ => isFalse (fun h => by cases h)
  | .error _, .ok _ => isFalse (fun h => by cases h)

/-- `ValidDraw` is a bounded statement, hence decidable. -/
@[instance_reducible] def nvmDecValidDraw (cohorts : List Int) (n : Int) (d : List Int) : Decidable (ValidDraw cohorts n d) := by
  unfold ValidDraw; exact inferInstance

@[instance_reducible] def nvmDecValidSplit (avail : List Int) (count : Int) (d : List Int) : Decidable (ValidSplit avail count d) :=
  nvmDecValidDraw avail (toUnsigned count) d

/-- `InRange` is a conjunction of integer comparisons. -/
@[instance_reducible] def nvmDecInRange (rows cols : Int) (c : Metric.Cell) : Decidable (Metric.InRange rows cols c) := by
  unfold Metric.InRange; exact inferInstance

/-- The state a run ends in (the empty heap when it faults; only used on runs that complete). -/
def Heap.okOr {α : Type} (x : Except Fault (Heap α)) : Heap α :=
  match x with
  | .ok h => h
  | .error _ => {}

/-- A cover hypothesis over all index pairs follows from the bounded one over `allCells`. -/
theorem nvm_cover_of_allCells (rows cols : Int) (inf : Metric.IRaster) (cells : List Metric.Cell)
    (h : ∀ c ∈ Metric.allCells rows cols, inf.at c.1 c.2 > 0 → c ∈ cells) :
    ∀ i j, Metric.InRange rows cols (i, j) → inf.at i j > 0 → (i, j) ∈ cells :=
  fun i j hr hi => h (i, j) (Metric.mem_allCells.mpr hr) hi

end Pops
