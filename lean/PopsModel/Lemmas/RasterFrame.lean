/-
  Frame lemmas for the raster heap machine: an explicit description of the state after each
  in-scope operation (`Steps`), and from it what an operation can change:
  which variables it rebinds, which buffers it touches, where new pointers come from.
-/
import PopsModel.Lemmas.RasterHeap
namespace Pops
namespace Heap
variable {α : Type}

/-- State after `store`. -/
def storeOf (h : Heap α) (b : Nat) (cells new : List α) : Heap α :=
  { h with bufs := upd h.bufs b (.live (new ++ cells.drop new.length)) }

/-- State after `poke`. -/
def pokeOf (h : Heap α) (b : Nat) (cells : List α) (i : Nat) (v : α) : Heap α :=
  { h with bufs := upd h.bufs b (.live (cells.set i v)) }

def moveOf (h : Heap α) (s t : Nat) (o : RObj) : Heap α :=
  (h.setSlot s (some ⟨o.rows, o.cols, o.data, o.owns⟩)).setSlot t (some { o with data := none })

/-- The state reached by an in-scope operation from an invariant state, case by case. -/
inductive Steps (h : Heap α) : HOp α → Heap α → Prop
  | construct (s r c : Nat) (v : α) :
      Steps h (.construct s r c v) (h.allocInto s r c (List.replicate (r * c) v) true)
  | wrap (s e r c : Nat) : e < h.nExt →
      Steps h (.wrap s e r c) (h.setSlot s (some ⟨r, c, some e, false⟩))
  | copyCtor (s t : Nat) (o : RObj) (b : Nat) (cells : List α) :
      h.slots t = some o → o.data = some b → h.bufs b = .live cells → o.size ≤ cells.length →
      Steps h (.copyCtor s t) (h.allocInto s o.rows o.cols (cells.take o.size) true)
  | moveCtor (s t : Nat) (o : RObj) : t ≠ s → h.slots t = some o →
      Steps h (.moveCtor s t) (h.moveOf s t o)
  | copySelf (s : Nat) : Steps h (.copyAssign s s) h
  | moveSelf (s : Nat) : Steps h (.moveAssign s s) h
  | copyAssign (s t : Nat) (me o : RObj) (b : Nat) (cells : List α) (h1 : Heap α) :
      s ≠ t → h.slots s = some me → h.slots t = some o → h.release me = .ok h1 →
      o.data = some b → h1.bufs b = .live cells → o.size ≤ cells.length →
      Steps h (.copyAssign s t) (h1.allocInto s o.rows o.cols (cells.take o.size) me.owns)
  | moveAssign (s t : Nat) (me o : RObj) (h1 : Heap α) :
      s ≠ t → h.slots s = some me → h.slots t = some o → h.release me = .ok h1 →
      Steps h (.moveAssign s t) (h1.moveOf s t o)
  | write (s r c : Nat) (v : α) (o : RObj) (b : Nat) (cells : List α) :
      h.slots s = some o → o.data = some b → h.bufs b = .live cells → r < o.rows → c < o.cols →
      o.size ≤ cells.length →
      Steps h (.write s r c v) (h.pokeOf b cells (r * o.cols + c) v)
  | destroy (s : Nat) (o : RObj) (h1 : Heap α) : h.slots s = some o → h.release o = .ok h1 →
      Steps h (.destroy s) (h1.setSlot s none)
  | extWrite (e i : Nat) (v : α) (cells : List α) : e < h.nExt → h.bufs e = .live cells → i < cells.length →
      Steps h (.extWrite e i v) (h.pokeOf e cells i v)
  | mapInPlace (s : Nat) (f : α → α) (o : RObj) (b : Nat) (cells : List α) :
      h.slots s = some o → o.data = some b → h.bufs b = .live cells → o.size ≤ cells.length →
      Steps h (.mapInPlace s f) (h.storeOf b cells ((cells.take o.size).map f))
  | zipThrow (s t : Nat) (f : α → α → α) (o o2 : RObj) :
      h.slots s = some o → h.slots t = some o2 → (o.cols ≠ o2.cols ∨ o.rows ≠ o2.rows) →
      Steps h (.zipInPlace s t f) h
  | zipInPlace (s t : Nat) (f : α → α → α) (o o2 : RObj) (b b2 : Nat) (cells cells2 : List α) :
      h.slots s = some o → h.slots t = some o2 → ¬ (o.cols ≠ o2.cols ∨ o.rows ≠ o2.rows) →
      o.data = some b → o2.data = some b2 → h.bufs b = .live cells → h.bufs b2 = .live cells2 →
      o.size ≤ cells.length → o.size ≤ cells2.length →
      Steps h (.zipInPlace s t f) (h.storeOf b cells (List.zipWith f (cells.take o.size) (cells2.take o.size)))
  | mapNew (d a : Nat) (f : α → α) (o : RObj) (b : Nat) (cells : List α) :
      h.slots a = some o → o.data = some b → h.bufs b = .live cells → o.size ≤ cells.length →
      Steps h (.mapNew d a f) (h.allocInto d o.rows o.cols ((cells.take o.size).map f) true)
  | zipNewThrow (d a b : Nat) (f : α → α → α) (o o2 : RObj) :
      h.slots a = some o → h.slots b = some o2 → (o.cols ≠ o2.cols ∨ o.rows ≠ o2.rows) →
      Steps h (.zipNew d a b f) h
  | zipNew (d a b : Nat) (f : α → α → α) (o o2 : RObj) (p p2 : Nat) (cells cells2 : List α) :
      h.slots a = some o → h.slots b = some o2 → ¬ (o.cols ≠ o2.cols ∨ o.rows ≠ o2.rows) →
      o.data = some p → o2.data = some p2 → h.bufs p = .live cells → h.bufs p2 = .live cells2 →
      o.size ≤ cells.length → o.size ≤ cells2.length →
      Steps h (.zipNew d a b f)
        (h.allocInto d o.rows o.cols (List.zipWith f (cells.take o.size) (cells2.take o.size)) true)
  | powNew (d a : Nat) (f : α → α) (o : RObj) (b : Nat) (cells : List α) :
      h.slots a = some o → o.data = some b → h.bufs b = .live cells → o.size ≤ cells.length →
      Steps h (.powNew d a f)
        ((h.allocInto d o.rows o.cols (cells.take o.size) true).storeOf h.next (cells.take o.size)
          ((cells.take o.size).map f))

theorem same_size {o o2 : RObj} (h : ¬ (o.cols ≠ o2.cols ∨ o.rows ≠ o2.rows)) : o.size = o2.size := by
  have : o.cols = o2.cols ∧ o.rows = o2.rows := by omega
  simp [RObj.size, this.1, this.2]

/-- Every in-scope operation from an invariant state succeeds with the state `Steps` describes. -/
theorem step_rel {h : Heap α} (hi : Inv h) (op : HOp α) (hs : h.inScope op = true) :
    ∃ h', h.step op = .ok h' ∧ Steps h op h' := by
  cases op with
  | construct s r c v => exact ⟨_, rfl, .construct s r c v⟩
  | wrap s e r c =>
    simp only [inScope, Bool.and_eq_true, decide_eq_true_eq] at hs
    exact ⟨_, rfl, .wrap s e r c hs.1.2⟩
  | copyCtor s t =>
    simp only [inScope, Bool.and_eq_true] at hs
    obtain ⟨o, b, h1, h2⟩ := hasData_iff.mp hs.2
    obtain ⟨_, cells, g2, g3⟩ := hi.no_dangling t o b h1 h2
    exact ⟨_, by simp [step, obj, h1, ptr, h2, read_live g2 g3, bind, Except.bind] <;> rfl,
      .copyCtor s t o b cells h1 h2 g2 g3⟩
  | moveCtor s t =>
    simp only [inScope, Bool.and_eq_true] at hs
    obtain ⟨o, h1⟩ := occupied_iff.mp hs.2
    have hn := not_occupied_iff.mp hs.1
    have hne : t ≠ s := by intro e; subst e; rw [hn] at h1; cases h1
    exact ⟨_, by simp [step, obj, h1, bind, Except.bind] <;> rfl, .moveCtor s t o hne h1⟩
  | copyAssign s t =>
    simp only [inScope, Bool.and_eq_true] at hs
    obtain ⟨me, h0⟩ := occupied_iff.mp hs.1
    obtain ⟨o, b, h1, h2⟩ := hasData_iff.mp hs.2
    by_cases e : s = t
    · subst e; exact ⟨h, by simp [step], .copySelf s⟩
    · obtain ⟨h1', r1, r2, r3, r4, r5, r6⟩ := inv_release hi h0
      have ht : (h1'.setSlot s none).slots t = some o := by
        rw [setSlot_ne _ _ (Ne.symm e), r3]; exact h1
      obtain ⟨_, cells, g2, g3⟩ := r2.no_dangling t o b ht h2
      simp only [setSlot_bufs] at g2
      exact ⟨_, by simp [step, e, obj, h0, h1, ptr, h2, r1, read_live g2 g3, bind, Except.bind] <;> rfl,
        .copyAssign s t me o b cells h1' e h0 h1 r1 h2 g2 g3⟩
  | moveAssign s t =>
    simp only [inScope, Bool.and_eq_true] at hs
    obtain ⟨me, h0⟩ := occupied_iff.mp hs.1
    obtain ⟨o, h1⟩ := occupied_iff.mp hs.2
    by_cases e : s = t
    · subst e; exact ⟨h, by simp [step], .moveSelf s⟩
    · obtain ⟨h1', r1, _⟩ := inv_release hi h0
      exact ⟨_, by simp [step, e, obj, h0, h1, r1, bind, Except.bind] <;> rfl, .moveAssign s t me o h1' e h0 h1 r1⟩
  | write s r c v =>
    simp only [inScope] at hs
    cases h0 : h.slots s with
    | none => simp [h0] at hs
    | some o =>
      simp only [h0, Bool.and_eq_true, decide_eq_true_eq, Option.isSome_iff_exists] at hs
      obtain ⟨⟨⟨b, h2⟩, hr⟩, hc⟩ := hs
      obtain ⟨_, cells, g2, g3⟩ := hi.no_dangling s o b h0 h2
      have hlt : r * o.cols + c < cells.length := index_lt hr hc g3
      exact ⟨_, by simp [step, obj, h0, ptr, h2, poke_live v g2 hlt, bind, Except.bind] <;> rfl,
        .write s r c v o b cells h0 h2 g2 hr hc g3⟩
  | destroy s =>
    simp only [inScope] at hs
    obtain ⟨o, h0⟩ := occupied_iff.mp hs
    obtain ⟨h1', r1, _⟩ := inv_release hi h0
    exact ⟨_, by simp [step, obj, h0, r1, bind, Except.bind] <;> rfl, .destroy s o h1' h0 r1⟩
  | extWrite e i v =>
    simp only [inScope, Bool.and_eq_true, decide_eq_true_eq] at hs
    obtain ⟨cells, hc⟩ := hi.ext_live e hs.1
    have hl : i < cells.length := by simpa [extLen, hc] using hs.2
    exact ⟨_, by simp only [step]; exact poke_live v hc hl, .extWrite e i v cells hs.1 hc hl⟩
  | mapInPlace s f =>
    simp only [inScope] at hs
    obtain ⟨o, b, h1, h2⟩ := hasData_iff.mp hs
    obtain ⟨_, cells, g2, g3⟩ := hi.no_dangling s o b h1 h2
    have hl : ((cells.take o.size).map f).length ≤ cells.length := by simp; omega
    exact ⟨_, by simp only [step, obj, h1, ptr, h2, read_live g2 g3, bind, Except.bind]; exact store_live g2 hl,
      .mapInPlace s f o b cells h1 h2 g2 g3⟩
  | zipInPlace s t f =>
    simp only [inScope, Bool.and_eq_true] at hs
    obtain ⟨o, b, h1, h2⟩ := hasData_iff.mp hs.1
    obtain ⟨o2, b2, h3, h4⟩ := hasData_iff.mp hs.2
    by_cases hsh : o.cols ≠ o2.cols ∨ o.rows ≠ o2.rows
    · exact ⟨h, by simp only [step, obj, h1, h3, bind, Except.bind, hsh, if_true], .zipThrow s t f o o2 h1 h3 hsh⟩
    · obtain ⟨_, cells, g2, g3⟩ := hi.no_dangling s o b h1 h2
      obtain ⟨_, cells2, k2, k3⟩ := hi.no_dangling t o2 b2 h3 h4
      have hsz := same_size hsh
      have k3' : o.size ≤ cells2.length := by omega
      have hl : (List.zipWith f (cells.take o.size) (cells2.take o.size)).length ≤ cells.length := by
        simp; omega
      exact ⟨_, by simp only [step, obj, h1, h3, ptr, h2, h4, read_live g2 g3, read_live k2 k3', bind,
          Except.bind, hsh, if_false]; exact store_live g2 hl,
        .zipInPlace s t f o o2 b b2 cells cells2 h1 h3 hsh h2 h4 g2 k2 g3 k3'⟩
  | mapNew d a f =>
    simp only [inScope, Bool.and_eq_true] at hs
    obtain ⟨o, b, h1, h2⟩ := hasData_iff.mp hs.2
    obtain ⟨_, cells, g2, g3⟩ := hi.no_dangling a o b h1 h2
    exact ⟨_, by simp [step, obj, h1, ptr, h2, read_live g2 g3, bind, Except.bind] <;> rfl,
      .mapNew d a f o b cells h1 h2 g2 g3⟩
  | zipNew d a b f =>
    simp only [inScope, Bool.and_eq_true] at hs
    obtain ⟨o, p, h1, h2⟩ := hasData_iff.mp hs.1.2
    obtain ⟨o2, p2, h3, h4⟩ := hasData_iff.mp hs.2
    by_cases hsh : o.cols ≠ o2.cols ∨ o.rows ≠ o2.rows
    · exact ⟨h, by simp only [step, obj, h1, h3, bind, Except.bind, hsh, if_true], .zipNewThrow d a b f o o2 h1 h3 hsh⟩
    · obtain ⟨_, cells, g2, g3⟩ := hi.no_dangling a o p h1 h2
      obtain ⟨_, cells2, k2, k3⟩ := hi.no_dangling b o2 p2 h3 h4
      have hsz := same_size hsh
      have k3' : o.size ≤ cells2.length := by omega
      exact ⟨_, by simp only [step, obj, h1, h3, ptr, h2, h4, read_live g2 g3, read_live k2 k3', bind,
          Except.bind, hsh, if_false] <;> rfl,
        .zipNew d a b f o o2 p p2 cells cells2 h1 h3 hsh h2 h4 g2 k2 g3 k3'⟩
  | powNew d a f =>
    simp only [inScope, Bool.and_eq_true] at hs
    obtain ⟨o, b, h1, h2⟩ := hasData_iff.mp hs.2
    obtain ⟨_, cells, g2, g3⟩ := hi.no_dangling a o b h1 h2
    have hb1 : (h.allocInto d o.rows o.cols (cells.take o.size) true).bufs h.next = .live (cells.take o.size) := by
      simp [allocInto]
    have hl : ((cells.take o.size).map f).length ≤ (cells.take o.size).length := by simp
    exact ⟨_, by simp only [step, obj, h1, ptr, h2, read_live g2 g3, bind, Except.bind]; exact store_live hb1 hl,
      .powNew d a f o b cells h1 h2 g2 g3⟩

/-- What `if (data_ && owns_) delete[] data_;` changes. -/
theorem release_frame {h h1 : Heap α} {o : RObj} (hr : h.release o = .ok h1) :
    h1.slots = h.slots ∧ h1.next = h.next ∧ h1.nExt = h.nExt ∧
    ∀ p, h1.bufs p = h.bufs p ∨ (o.data = some p ∧ o.owns = true) := by
  unfold release at hr
  cases hd : o.data with
  | none => simp only [hd] at hr; cases hr; exact ⟨rfl, rfl, rfl, fun _ => .inl rfl⟩
  | some b =>
    simp only [hd] at hr
    by_cases ho : o.owns = true
    · simp only [ho, if_true, free] at hr
      split at hr
      · split at hr
        · cases hr
        · cases hr
          refine ⟨rfl, rfl, rfl, fun p => ?_⟩
          by_cases e : p = b
          · subst e; exact .inr ⟨rfl, ho⟩
          · exact .inl (by simp only [upd_ne _ _ e])
      · cases hr
      · cases hr
    · simp only [ho] at hr; cases hr; exact ⟨rfl, rfl, rfl, fun _ => .inl rfl⟩

/-- Variables an operation does not rebind keep their object. -/
theorem slots_frame {h h' : Heap α} {op : HOp α} (st : Steps h op h') (u : Nat)
    (hu : op.reseats u = false) : h'.slots u = h.slots u := by
  cases st with
  | construct s r c v =>
    have : u ≠ s := by simpa [HOp.reseats] using hu
    simp [allocInto, upd_ne _ _ this]
  | wrap s e r c _ =>
    have : u ≠ s := by simpa [HOp.reseats] using hu
    exact setSlot_ne _ _ this
  | copyCtor s t o b cells _ _ _ _ =>
    have : u ≠ s := by simpa [HOp.reseats] using hu
    simp [allocInto, upd_ne _ _ this]
  | moveCtor s t o _ _ =>
    have : u ≠ s ∧ u ≠ t := by simpa [HOp.reseats] using hu
    simp only [moveOf]; rw [setSlot_ne _ _ this.2, setSlot_ne _ _ this.1]
  | copySelf s => rfl
  | moveSelf s => rfl
  | copyAssign s t me o b cells h1 _ _ _ hr _ _ _ =>
    have : u ≠ s := by simpa [HOp.reseats] using hu
    simp only [allocInto, upd_ne _ _ this, (release_frame hr).1]
  | moveAssign s t me o h1 _ _ _ hr =>
    have : u ≠ s ∧ u ≠ t := by simpa [HOp.reseats] using hu
    simp only [moveOf]; rw [setSlot_ne _ _ this.2, setSlot_ne _ _ this.1, (release_frame hr).1]
  | write s r c v o b cells _ _ _ _ _ _ => rfl
  | destroy s o h1 _ hr =>
    have : u ≠ s := by simpa [HOp.reseats] using hu
    rw [setSlot_ne _ _ this, (release_frame hr).1]
  | extWrite e i v cells _ _ _ => rfl
  | mapInPlace s f o b cells _ _ _ _ => rfl
  | zipThrow s t f o o2 _ _ _ => rfl
  | zipInPlace s t f o o2 b b2 cells cells2 _ _ _ _ _ _ _ _ _ => rfl
  | mapNew d a f o b cells _ _ _ _ =>
    have : u ≠ d := by simpa [HOp.reseats] using hu
    simp [allocInto, upd_ne _ _ this]
  | zipNewThrow d a b f o o2 _ _ _ => rfl
  | zipNew d a b f o o2 p p2 cells cells2 _ _ _ _ _ _ _ _ _ =>
    have : u ≠ d := by simpa [HOp.reseats] using hu
    simp [allocInto, upd_ne _ _ this]
  | powNew d a f o b cells _ _ _ _ =>
    have : u ≠ d := by simpa [HOp.reseats] using hu
    simp [storeOf, allocInto, upd_ne _ _ this]

/-- Counters: caller arrays stay the same set, ids are never reused. -/
theorem counters_frame {h h' : Heap α} {op : HOp α} (st : Steps h op h') :
    h'.nExt = h.nExt ∧ h.next ≤ h'.next := by
  cases st with
  | copyAssign s t me o b cells h1 _ _ _ hr _ _ _ =>
    obtain ⟨_, r2, r3, _⟩ := release_frame hr
    refine ⟨?_, ?_⟩ <;> simp [allocInto, r2, r3]
  | moveAssign s t me o h1 _ _ _ hr =>
    obtain ⟨_, r2, r3, _⟩ := release_frame hr
    refine ⟨?_, ?_⟩ <;> simp [moveOf, r2, r3]
  | destroy s o h1 _ hr =>
    obtain ⟨_, r2, r3, _⟩ := release_frame hr
    refine ⟨?_, ?_⟩ <;> simp [r2, r3]
  | _ => simp [allocInto, storeOf, pokeOf, moveOf]

/-- A buffer changes only if it is the fresh one, the one the operation stores into, or one
    freed together with the rebinding of its owner. -/
theorem bufs_frame {h h' : Heap α} {op : HOp α} (st : Steps h op h') (p : Nat) :
    h'.bufs p = h.bufs p ∨ p = h.next ∨ h.writePtr op = some p ∨
    (∃ u o, op.reseats u = true ∧ h.slots u = some o ∧ o.data = some p ∧ o.owns = true) := by
  cases st with
  | construct s r c v =>
    by_cases e : p = h.next
    · exact .inr (.inl e)
    · exact .inl (by simp [allocInto, upd_ne _ _ e])
  | wrap s e r c _ => exact .inl rfl
  | copyCtor s t o b cells _ _ _ _ =>
    by_cases e : p = h.next
    · exact .inr (.inl e)
    · exact .inl (by simp [allocInto, upd_ne _ _ e])
  | moveCtor s t o _ _ => exact .inl rfl
  | copySelf s => exact .inl rfl
  | moveSelf s => exact .inl rfl
  | copyAssign s t me o b cells h1 _ hs _ hr _ _ _ =>
    obtain ⟨_, r2, _, r4⟩ := release_frame hr
    by_cases e : p = h.next
    · exact .inr (.inl e)
    · rcases r4 p with g | g
      · exact .inl (by simp only [allocInto, r2, upd_ne _ _ e, g])
      · exact .inr (.inr (.inr ⟨s, me, by simp [HOp.reseats], hs, g.1, g.2⟩))
  | moveAssign s t me o h1 _ hs _ hr =>
    obtain ⟨_, _, _, r4⟩ := release_frame hr
    rcases r4 p with g | g
    · exact .inl (by simp only [moveOf, setSlot_bufs, g])
    · exact .inr (.inr (.inr ⟨s, me, by simp [HOp.reseats], hs, g.1, g.2⟩))
  | write s r c v o b cells hs hd _ _ _ _ =>
    by_cases e : p = b
    · subst e; exact .inr (.inr (.inl (by simp [writePtr, hs, hd])))
    · exact .inl (by simp [pokeOf, upd_ne _ _ e])
  | destroy s o h1 hs hr =>
    obtain ⟨_, _, _, r4⟩ := release_frame hr
    rcases r4 p with g | g
    · exact .inl (by simp only [setSlot_bufs, g])
    · exact .inr (.inr (.inr ⟨s, o, by simp [HOp.reseats], hs, g.1, g.2⟩))
  | extWrite e i v cells _ _ _ =>
    by_cases e' : p = e
    · subst e'; exact .inr (.inr (.inl (by simp [writePtr])))
    · exact .inl (by simp [pokeOf, upd_ne _ _ e'])
  | mapInPlace s f o b cells hs hd _ _ =>
    by_cases e : p = b
    · subst e; exact .inr (.inr (.inl (by simp [writePtr, hs, hd])))
    · exact .inl (by simp [storeOf, upd_ne _ _ e])
  | zipThrow s t f o o2 _ _ _ => exact .inl rfl
  | zipInPlace s t f o o2 b b2 cells cells2 hs _ _ hd _ _ _ _ _ =>
    by_cases e : p = b
    · subst e; exact .inr (.inr (.inl (by simp [writePtr, hs, hd])))
    · exact .inl (by simp [storeOf, upd_ne _ _ e])
  | mapNew d a f o b cells _ _ _ _ =>
    by_cases e : p = h.next
    · exact .inr (.inl e)
    · exact .inl (by simp [allocInto, upd_ne _ _ e])
  | zipNewThrow d a b f o o2 _ _ _ => exact .inl rfl
  | zipNew d a b f o o2 p1 p2 cells cells2 _ _ _ _ _ _ _ _ _ =>
    by_cases e : p = h.next
    · exact .inr (.inl e)
    · exact .inl (by simp [allocInto, upd_ne _ _ e])
  | powNew d a f o b cells _ _ _ _ =>
    by_cases e : p = h.next
    · exact .inr (.inl e)
    · exact .inl (by simp [storeOf, allocInto, upd_ne _ _ e])

/-- Where the pointer of a variable can come from after an operation: a fresh buffer, a caller
    array, the same variable before, or a variable the operation moved from. -/
theorem ptr_provenance {h h' : Heap α} {op : HOp α} (st : Steps h op h') {u : Nat} {o' : RObj} {p : Nat}
    (hu : h'.slots u = some o') (hp : o'.data = some p) :
    p = h.next ∨ p < h.nExt ∨
    ∃ u0 o0, h.slots u0 = some o0 ∧ o0.data = some p ∧ (u0 = u ∨ op.reseats u0 = true) := by
  have keep : h.slots u = some o' → p = h.next ∨ p < h.nExt ∨
      ∃ u0 o0, h.slots u0 = some o0 ∧ o0.data = some p ∧ (u0 = u ∨ op.reseats u0 = true) :=
    fun hk => .inr (.inr ⟨u, o', hk, hp, .inl rfl⟩)
  -- the three shapes of slot update
  have alloc_case : ∀ (h0 : Heap α) (d r c : Nat) (cells : List α) (w : Bool),
      h0.slots = h.slots → h0.next = h.next →
      (h0.allocInto d r c cells w).slots u = some o' →
      p = h.next ∨ p < h.nExt ∨
      ∃ u0 o0, h.slots u0 = some o0 ∧ o0.data = some p ∧ (u0 = u ∨ op.reseats u0 = true) := by
    intro h0 d r c cells w e1 e2 hk
    simp only [allocInto] at hk
    by_cases e : u = d
    · subst e
      simp only [upd_same, Option.some.injEq] at hk
      subst hk
      simp only [Option.some.injEq] at hp
      exact .inl (by omega)
    · rw [upd_ne _ _ e, e1] at hk; exact keep hk
  have move_case : ∀ (h0 : Heap α) (s t : Nat) (o : RObj), h0.slots = h.slots → h.slots t = some o →
      op.reseats t = true → (h0.moveOf s t o).slots u = some o' →
      p = h.next ∨ p < h.nExt ∨
      ∃ u0 o0, h.slots u0 = some o0 ∧ o0.data = some p ∧ (u0 = u ∨ op.reseats u0 = true) := by
    intro h0 s t o e1 ht hrs hk
    simp only [moveOf] at hk
    by_cases e : u = t
    · subst e
      simp only [setSlot_same, Option.some.injEq] at hk
      subst hk; simp at hp
    · rw [setSlot_ne _ _ e] at hk
      by_cases e2 : u = s
      · subst e2
        simp only [setSlot_same, Option.some.injEq] at hk
        subst hk
        exact .inr (.inr ⟨t, o, ht, hp, .inr hrs⟩)
      · rw [setSlot_ne _ _ e2, e1] at hk; exact keep hk
  cases st with
  | construct s r c v => exact alloc_case h s r c _ true rfl rfl hu
  | wrap s e r c he =>
    by_cases e1 : u = s
    · subst e1
      simp only [setSlot_same, Option.some.injEq] at hu
      subst hu
      simp only [Option.some.injEq] at hp
      exact .inr (.inl (by omega))
    · rw [setSlot_ne _ _ e1] at hu; exact keep hu
  | copyCtor s t o b cells _ _ _ _ => exact alloc_case h s _ _ _ true rfl rfl hu
  | moveCtor s t o _ ht => exact move_case h s t o rfl ht (by simp [HOp.reseats]) hu
  | copySelf s => exact keep hu
  | moveSelf s => exact keep hu
  | copyAssign s t me o b cells h1 _ _ _ hr _ _ _ =>
    obtain ⟨r1, r2, _, _⟩ := release_frame hr
    exact alloc_case h1 s _ _ _ _ r1 r2 hu
  | moveAssign s t me o h1 _ _ ht hr =>
    obtain ⟨r1, _, _, _⟩ := release_frame hr
    exact move_case h1 s t o r1 ht (by simp [HOp.reseats]) hu
  | write s r c v o b cells _ _ _ _ _ _ => exact keep hu
  | destroy s o h1 _ hr =>
    obtain ⟨r1, _, _, _⟩ := release_frame hr
    by_cases e1 : u = s
    · subst e1; simp at hu
    · rw [setSlot_ne _ _ e1, r1] at hu; exact keep hu
  | extWrite e i v cells _ _ _ => exact keep hu
  | mapInPlace s f o b cells _ _ _ _ => exact keep hu
  | zipThrow s t f o o2 _ _ _ => exact keep hu
  | zipInPlace s t f o o2 b b2 cells cells2 _ _ _ _ _ _ _ _ _ => exact keep hu
  | mapNew d a f o b cells _ _ _ _ => exact alloc_case h d _ _ _ true rfl rfl hu
  | zipNewThrow d a b f o o2 _ _ _ => exact keep hu
  | zipNew d a b f o o2 p1 p2 cells cells2 _ _ _ _ _ _ _ _ _ => exact alloc_case h d _ _ _ true rfl rfl hu
  | powNew d a f o b cells _ _ _ _ =>
    have hu' : (h.allocInto d o.rows o.cols (cells.take o.size) true).slots u = some o' := hu
    exact alloc_case h d _ _ _ true rfl rfl hu'

end Heap
end Pops
