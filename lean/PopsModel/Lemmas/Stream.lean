/-
  Lemmas for C06: the record of streams, seeding, the frame property of computations that reach
  the provider only through named accessors, and the skeletons of the processes.
-/
import PopsModel.Model.StreamUses
namespace Pops

/-! ### The record -/

namespace Streams
variable {σ : Type}

@[simp] theorem get_set_same (p : Streams σ) (n : StreamName) (v : σ) : (p.set n v).get n = v := by
  cases n <;> rfl

theorem get_set_other (p : Streams σ) {n m : StreamName} (v : σ) (h : m ≠ n) :
    (p.set n v).get m = p.get m := by
  cases n <;> cases m <;> first | rfl | exact absurd rfl h

@[simp] theorem get_ofFn (f : StreamName → σ) (n : StreamName) : (ofFn f).get n = f n := by
  cases n <;> rfl

theorem ext_get {p q : Streams σ} (h : ∀ n, p.get n = q.get n) : p = q := by
  cases p; cases q
  have h0 := h .disperserGeneration; have h1 := h .naturalDispersal
  have h2 := h .anthropogenicDispersal; have h3 := h .establishment; have h4 := h .weather
  have h5 := h .lethalTemperature; have h6 := h .movement; have h7 := h .overpopulation
  have h8 := h .survivalRate; have h9 := h .soil
  simp only [get] at h0 h1 h2 h3 h4 h5 h6 h7 h8 h9
  simp [h0, h1, h2, h3, h4, h5, h6, h7, h8, h9]

end Streams

namespace StreamName

theorem all_length : all.length = 10 := rfl
theorem all_nodup : all.Nodup := by decide
theorem mem_all (n : StreamName) : n ∈ all := by cases n <;> decide
theorem index_lt (n : StreamName) : n.index < 10 := by cases n <;> decide
theorem all_index (n : StreamName) : all[n.index]? = some n := by cases n <;> rfl
theorem index_all (k : Nat) (h : k < 10) : ∃ n, all[k]? = some n ∧ n.index = k := by
  have : k = 0 ∨ k = 1 ∨ k = 2 ∨ k = 3 ∨ k = 4 ∨ k = 5 ∨ k = 6 ∨ k = 7 ∨ k = 8 ∨ k = 9 := by omega
  rcases this with h | h | h | h | h | h | h | h | h | h <;> subst h <;> exact ⟨_, rfl, rfl⟩
theorem index_inj {a b : StreamName} (h : a.index = b.index) : a = b := by
  cases a <;> cases b <;> first | rfl | exact absurd h (by decide)
theorem key_inj {a b : StreamName} (h : a.key = b.key) : a = b := by
  cases a <;> cases b <;> first | rfl | exact absurd h (by decide)
theorem ofKey_key (n : StreamName) : ofKey? n.key = some n := by cases n <;> decide
/-- The keys, in the documented order. -/
theorem all_keys : all.map key =
    ["disperser_generation", "natural_dispersal", "anthropogenic_dispersal", "establishment", "weather",
     "lethal_temperature", "movement", "overpopulation", "survival_rate", "soil"] := rfl

end StreamName

/-! ### Seeding -/

theorem u32_of_lt {n : Nat} (h : n < 4294967296) : u32 n = n := Nat.mod_eq_of_lt h

theorem seedMulti_get {σ : Type} (E : Engine σ) (s : Nat) (n : StreamName) :
    (seedMulti E s).get n = E.seed (u32 (s + n.index)) := by
  cases n <;> rfl

theorem seedByName_some {m : SeedMap} {n : StreamName} {v : Nat} (h : m.find? n.key = some v) :
    seedByName m n = .ok v := by simp [seedByName, h]

theorem seedByName_none {m : SeedMap} {n : StreamName} (h : m.find? n.key = none) :
    seedByName m n = .error .invalid_argument := by simp [seedByName, h]

/-- `seed(map)` either throws `invalid_argument` because a key is missing, or every key is present
    and every stream is seeded with the value of its own key. -/
theorem seedNamed_cases {σ : Type} (E : Engine σ) (m : SeedMap) :
    (seedNamed E m = .error .invalid_argument ∧ ∃ n : StreamName, m.find? n.key = none) ∨
    (∃ f : StreamName → Nat, (∀ n, m.find? n.key = some (f n)) ∧
      seedNamed E m = .ok (Streams.ofFn fun n => E.seed (f n))) := by
  cases h0 : m.find? (StreamName.key .disperserGeneration) with
  | none => exact .inl ⟨by simp [seedNamed, seedByName_none h0, bind, Except.bind], _, h0⟩
  | some a =>
  cases h1 : m.find? (StreamName.key .naturalDispersal) with
  | none => exact .inl ⟨by simp [seedNamed, seedByName_some h0, seedByName_none h1, bind, Except.bind], _, h1⟩
  | some b =>
  cases h2 : m.find? (StreamName.key .anthropogenicDispersal) with
  | none => exact .inl ⟨by simp [seedNamed, seedByName_some h0, seedByName_some h1, seedByName_none h2, bind, Except.bind], _, h2⟩
  | some c =>
  cases h3 : m.find? (StreamName.key .establishment) with
  | none => exact .inl ⟨by simp [seedNamed, seedByName_some h0, seedByName_some h1, seedByName_some h2, seedByName_none h3, bind, Except.bind], _, h3⟩
  | some d =>
  cases h4 : m.find? (StreamName.key .weather) with
  | none => exact .inl ⟨by simp [seedNamed, seedByName_some h0, seedByName_some h1, seedByName_some h2, seedByName_some h3, seedByName_none h4, bind, Except.bind], _, h4⟩
  | some e =>
  cases h5 : m.find? (StreamName.key .lethalTemperature) with
  | none => exact .inl ⟨by simp [seedNamed, seedByName_some h0, seedByName_some h1, seedByName_some h2, seedByName_some h3, seedByName_some h4, seedByName_none h5, bind, Except.bind], _, h5⟩
  | some f =>
  cases h6 : m.find? (StreamName.key .movement) with
  | none => exact .inl ⟨by simp [seedNamed, seedByName_some h0, seedByName_some h1, seedByName_some h2, seedByName_some h3, seedByName_some h4, seedByName_some h5, seedByName_none h6, bind, Except.bind], _, h6⟩
  | some g =>
  cases h7 : m.find? (StreamName.key .overpopulation) with
  | none => exact .inl ⟨by simp [seedNamed, seedByName_some h0, seedByName_some h1, seedByName_some h2, seedByName_some h3, seedByName_some h4, seedByName_some h5, seedByName_some h6, seedByName_none h7, bind, Except.bind], _, h7⟩
  | some h =>
  cases h8 : m.find? (StreamName.key .survivalRate) with
  | none => exact .inl ⟨by simp [seedNamed, seedByName_some h0, seedByName_some h1, seedByName_some h2, seedByName_some h3, seedByName_some h4, seedByName_some h5, seedByName_some h6, seedByName_some h7, seedByName_none h8, bind, Except.bind], _, h8⟩
  | some i =>
  cases h9 : m.find? (StreamName.key .soil) with
  | none => exact .inl ⟨by simp [seedNamed, seedByName_some h0, seedByName_some h1, seedByName_some h2, seedByName_some h3, seedByName_some h4, seedByName_some h5, seedByName_some h6, seedByName_some h7, seedByName_some h8, seedByName_none h9, bind, Except.bind], _, h9⟩
  | some j =>
    refine .inr ⟨fun n => match n with
      | .disperserGeneration => a | .naturalDispersal => b | .anthropogenicDispersal => c
      | .establishment => d | .weather => e | .lethalTemperature => f | .movement => g
      | .overpopulation => h | .survivalRate => i | .soil => j, ?_, ?_⟩
    · intro n; cases n <;> assumption
    · simp [seedNamed, seedByName_some h0, seedByName_some h1, seedByName_some h2, seedByName_some h3,
        seedByName_some h4, seedByName_some h5, seedByName_some h6, seedByName_some h7, seedByName_some h8,
        seedByName_some h9, bind, Except.bind, Streams.ofFn, pure, Except.pure]

theorem seedNamed_missing {σ : Type} (E : Engine σ) (m : SeedMap) (n : StreamName)
    (h : m.find? n.key = none) : seedNamed E m = .error .invalid_argument := by
  rcases seedNamed_cases E m with ⟨h1, _⟩ | ⟨f, hf, _⟩
  · exact h1
  · rw [hf n] at h; cases h

theorem seedNamed_complete {σ : Type} (E : Engine σ) (m : SeedMap) (f : StreamName → Nat)
    (h : ∀ n, m.find? n.key = some (f n)) :
    seedNamed E m = .ok (Streams.ofFn fun n => E.seed (f n)) := by
  rcases seedNamed_cases E m with ⟨_, n, hn⟩ | ⟨f', hf, hs⟩
  · rw [h n] at hn; cases hn
  · have : f' = f := by
      funext n
      have := hf n
      rw [h n] at this
      exact (Option.some.inj this).symm
    rw [hs, this]

/-! ### `read_seeds(vector)` -/

theorem SeedMap.find_insert_same (m : SeedMap) (k : String) (v : Nat) : (m.insert k v).find? k = some v := by
  simp [SeedMap.insert, SeedMap.find?]

theorem SeedMap.find_insert_other (m : SeedMap) {k k' : String} (v : Nat) (h : k ≠ k') :
    (m.insert k v).find? k' = m.find? k' := by
  simp [SeedMap.insert, SeedMap.find?, h]

/-- After the assignment loop a name of the list has the seed at its position (names distinct),
    any other key keeps its entry. -/
theorem insertSeeds_find (ns : List StreamName) (vs : List Nat) (m : SeedMap) (hl : ns.length = vs.length)
    (hd : ns.Nodup) :
    (∀ k (h : k < ns.length), (insertSeeds ns vs m).find? (ns[k]).key = some (vs[k]'(hl ▸ h))) ∧
    (∀ key : String, (∀ n ∈ ns, n.key ≠ key) → (insertSeeds ns vs m).find? key = m.find? key) := by
  induction ns generalizing vs m with
  | nil => exact ⟨fun k h => absurd h (Nat.not_lt_zero _), fun _ _ => rfl⟩
  | cons n ns ih =>
    cases vs with
    | nil => simp at hl
    | cons v vs =>
      have hl' : ns.length = vs.length := by simpa using hl
      have hd' := (List.nodup_cons.mp hd)
      obtain ⟨ih1, ih2⟩ := ih vs (m.insert n.key v) hl' hd'.2
      refine ⟨?_, ?_⟩
      · intro k h
        cases k with
        | zero =>
          simp only [insertSeeds, List.getElem_cons_zero]
          rw [ih2 n.key]
          · exact SeedMap.find_insert_same _ _ _
          · intro n' hn' hk
            exact hd'.1 (StreamName.key_inj hk ▸ hn')
        | succ k =>
          simp only [insertSeeds, List.getElem_cons_succ]
          exact ih1 k (by simpa using h)
      · intro key hk
        simp only [insertSeeds]
        rw [ih2 key (fun n' hn' => hk n' (List.mem_cons_of_mem _ hn'))]
        exact SeedMap.find_insert_other _ _ (hk n (List.mem_cons_self))

/-! ### The provider -/

namespace Provider
variable {σ : Type}

theorem useStream_multi (s : Streams σ) (n : StreamName) (d : Dist σ) :
    (Provider.multi s).useStream n d = ((d (s.get n)).1, .multi (s.set n (d (s.get n)).2)) := rfl

theorem useStream_single (g : σ) (n : StreamName) (d : Dist σ) :
    (Provider.single g).useStream n d = ((d g).1, .single (d g).2) := rfl

theorem drawFrom_eq_useStream (E : Engine σ) (p : Provider σ) (n : StreamName) :
    p.drawFrom E n = p.useStream n E.next := rfl

end Provider

/-! ### Computations over the provider -/

namespace Act
variable {σ α β : Type}

theorem run_bind (a : Act σ α) (f : α → Act σ β) (p : Provider σ) :
    (a.bind f).run p = (f (a.run p).1).run (a.run p).2 := by
  induction a generalizing p with
  | ret x => rfl
  | use n d k ih => simp only [bind, run]; exact ih _ _

theorem Within.mono {U V : List StreamName} (h : ∀ n ∈ U, n ∈ V) {a : Act σ α} (w : Within U a) :
    Within V a := by
  induction w with
  | ret x => exact .ret x
  | use n d k hn _ ih => exact .use n d k (h n hn) ih

theorem Within.bind {U : List StreamName} {a : Act σ α} {f : α → Act σ β} (wa : Within U a)
    (wf : ∀ x, Within U (f x)) : Within U (a.bind f) := by
  induction wa with
  | ret x => exact wf x
  | use n d k hn _ ih => exact .use n d _ hn ih

theorem Within.sample {U : List StreamName} {n : StreamName} (d : Dist σ) (h : n ∈ U) :
    Within U (Act.sample n d) := .use n d _ h (fun v => .ret v)

theorem Within.samples {U : List StreamName} {n : StreamName} (d : Dist σ) (h : n ∈ U) (k : Nat) :
    Within U (Act.samples n d k) := by
  induction k with
  | zero => exact .ret _
  | succ k ih => exact (Within.sample d h).bind fun v => ih.bind fun vs => .ret _

/-- A guarded draw site needs its stream only when the guard holds. -/
theorem Within.guarded {U : List StreamName} {b : Bool} {a : Act σ (List Nat)}
    (h : b = true → Within U a) : Within U (Act.guarded b a) := by
  unfold Act.guarded
  split
  · exact h (by assumption)
  · exact .ret _

theorem Within.forEach {U : List StreamName} {ι W : Type} {body : ι → W → Act σ W}
    (h : ∀ x w, Within U (body x w)) (xs : List ι) (w : W) : Within U (Act.forEach body xs w) := by
  induction xs generalizing w with
  | nil => exact .ret w
  | cons x xs ih => exact (h x w).bind fun w' => ih w'

theorem Within.ite {U : List StreamName} {c : Prop} [Decidable c] {a b : Act σ α}
    (ha : c → Within U a) (hb : ¬ c → Within U b) : Within U (if c then a else b) := by
  split
  · exact ha (by assumption)
  · exact hb (by assumption)

/-- **Frame property.** A computation that reaches a multi-stream provider only through the
    accessors in `U`: started from two providers that agree on the streams in `U`, it returns the
    same result and leaves the streams in `U` in the same states; every stream outside `U` is
    left exactly as it was. -/
theorem frame {U : List StreamName} {a : Act σ α} (w : Within U a) (p q : Streams σ)
    (hpq : ∀ n ∈ U, p.get n = q.get n) :
    (a.run (.multi p)).1 = (a.run (.multi q)).1 ∧
    ∃ p' q', (a.run (.multi p)).2 = .multi p' ∧ (a.run (.multi q)).2 = .multi q' ∧
      (∀ n ∈ U, p'.get n = q'.get n) ∧
      (∀ n, n ∉ U → p'.get n = p.get n ∧ q'.get n = q.get n) := by
  induction w generalizing p q with
  | ret x => exact ⟨rfl, p, q, rfl, rfl, hpq, fun _ _ => ⟨rfl, rfl⟩⟩
  | use n d k hn _ ih =>
    simp only [run, Provider.useStream_multi]
    have e : p.get n = q.get n := hpq n hn
    rw [e]
    have hagree : ∀ m ∈ U, (p.set n (d (q.get n)).2).get m = (q.set n (d (q.get n)).2).get m := by
      intro m hm
      by_cases hmn : m = n
      · subst hmn; simp
      · rw [Streams.get_set_other _ _ hmn, Streams.get_set_other _ _ hmn]; exact hpq m hm
    obtain ⟨r, p', q', hp', hq', hU, hout⟩ := ih (d (q.get n)).1 _ _ hagree
    refine ⟨r, p', q', hp', hq', hU, ?_⟩
    intro m hm
    have hmn : m ≠ n := fun h => hm (h ▸ hn)
    obtain ⟨h1, h2⟩ := hout m hm
    rw [Streams.get_set_other _ _ hmn] at h1 h2
    exact ⟨h1, h2⟩

/-- A computation within no stream at all is a constant: the result does not depend on the
    provider and the provider is returned as it was. -/
theorem frame_nil {a : Act σ α} (w : Within [] a) :
    ∃ x, ∀ q : Provider σ, a.run q = (x, q) := by
  cases w with
  | ret x => exact ⟨x, fun _ => rfl⟩
  | use n d k hn _ => cases hn

end Act

/-! ### The skeletons stay within the table -/

section Skeletons
variable {σ W : Type}
open Act

theorem weatherAct_within (c : UseCfg) (cells : List (Int × Int)) (normal : Int × Int → Dist σ)
    (store : W → Int × Int → Nat → W) (w : W) :
    Within (uses .weather c) (weatherAct cells normal store w) :=
  Within.forEach (fun _ _ => (Within.sample _ (by simp [uses])).bind fun _ => .ret _) _ _

theorem removeAct_within {U : List StreamName} {n : StreamName} (h : n ∈ U) (count : W → Nat)
    (shuffle : W → Dist σ) (apply : W → Option Nat → W) (w : W) :
    Within U (removeAct n count shuffle apply w) := by
  unfold removeAct
  exact Within.ite (fun _ => (Within.sample _ h).bind fun _ => .ret _) (fun _ => .ret _)

theorem lethalAct_within (c : UseCfg) (suitable : W → List (Int × Int)) (below : W → Int × Int → Bool)
    (hosts : List Nat) (count : Int × Int → Nat → W → Nat) (shuffle : Int × Int → Nat → W → Dist σ)
    (apply : Int × Int → Nat → W → Option Nat → W) (w : W) :
    Within (uses .lethal c) (lethalAct suitable below hosts count shuffle apply w) :=
  Within.forEach (fun _ _ => Within.ite
    (fun _ => Within.forEach (fun _ _ => removeAct_within (by simp [uses]) _ _ _ _) _ _)
    (fun _ => .ret _)) _ _

theorem survivalAct_within (c : UseCfg) (suitable : W → List (Int × Int)) (partial_ : W → Int × Int → Bool)
    (hosts : List Nat) (countI countE : Int × Int → Nat → W → Nat)
    (shuffleI shuffleE : Int × Int → Nat → W → Dist σ)
    (applyI applyE : Int × Int → Nat → W → Option Nat → W) (w : W) :
    Within (uses .survival c)
      (survivalAct suitable partial_ hosts countI countE shuffleI shuffleE applyI applyE w) :=
  Within.forEach (fun _ _ => Within.ite
    (fun _ => Within.forEach (fun _ _ =>
      (removeAct_within (by simp [uses]) _ _ _ _).bind fun _ => removeAct_within (by simp [uses]) _ _ _ _) _ _)
    (fun _ => .ret _)) _ _

theorem generateAct_within (c : UseCfg) (suitable : W → List (Int × Int)) (infected : W → Int × Int → Nat)
    (poisson : W → Int × Int → Dist σ) (generated : W → Int × Int → List Nat → Int)
    (toSoil : W → Int × Int → Int → Nat) (uniform : Dist σ)
    (store : W → Int × Int → Int → List Nat → W) (w : W) :
    Within (uses .generate c)
      (generateAct c suitable infected poisson generated toSoil uniform store w) := by
  refine Within.forEach (fun cell w => ?_) _ _
  refine (Within.guarded fun hg => Within.samples _ (by simp [uses, usesGenerate, hg]) _).bind fun xs => ?_
  dsimp only
  split
  · rename_i hs
    have hsoil : c.soils = true := by
      simp only [Bool.and_eq_true] at hs; exact hs.2
    exact (Within.guarded fun he => Within.samples _ (by simp [uses, usesGenerate, hsoil, he]) _).bind fun _ => .ret _
  · exact .ret _

theorem libraryKernelAct_within (c : UseCfg) (hinj : c.injectedKernel = none) (eligible : Bool)
    (coin natural anthro : Dist σ) (pureNatural pureAnthro : Nat) :
    Within (kernelUses c) (libraryKernelAct c eligible coin natural anthro pureNatural pureAnthro) := by
  unfold libraryKernelAct
  have hnat : Within (kernelUses c)
      (if kernelDraws c.naturalKernel c.dispersalStochastic = true then Act.sample .naturalDispersal natural
       else (.ret pureNatural : Act σ Nat)) :=
    Within.ite (fun h => Within.sample _ (by simp [kernelUses, hinj, h])) (fun _ => .ret _)
  dsimp only
  split
  · rename_i ha
    have hanthro : c.useAnthro = true := by
      simp only [Bool.and_eq_true] at ha; exact ha.1
    have hmem : StreamName.anthropogenicDispersal ∈ kernelUses c := by simp [kernelUses, hinj, hanthro]
    exact (Within.sample _ hmem).bind fun b =>
      Within.ite (fun _ => hnat) (fun _ => Within.ite (fun _ => Within.sample _ hmem) (fun _ => .ret _))
  · exact hnat

theorem landAct_within (c : UseCfg) (positive hasSusceptible : W → Nat → Bool) (pick uniform : Dist σ)
    (apply : W → Nat → Nat → Option Nat → W) (target : Nat) (w : W) :
    Within (if establishmentDraws c then [.establishment] else [])
      (landAct c positive hasSusceptible pick uniform apply target w) := by
  unfold landAct
  refine Within.ite (fun _ => ?_) (fun _ => .ret _)
  refine (Within.guarded fun hh => Within.samples _ (by simp [establishmentDraws, hh]) _).bind fun h => ?_
  dsimp only
  refine Within.ite (fun _ => ?_) (fun _ => .ret _)
  exact (Within.guarded fun he => Within.samples _ (by simp [establishmentDraws, he]) _).bind fun _ => .ret _

theorem disperseAct_within (c : UseCfg) (kernel : W → Int × Int → Act σ Nat)
    (hk : ∀ w cell, Within (kernelUses c) (kernel w cell))
    (suitable : W → List (Int × Int)) (dispersers : W → Int × Int → Nat) (inside : W → Nat → Bool)
    (outside : W → Nat → W) (land : Nat → W → Act σ W)
    (hl : ∀ t w, Within (if establishmentDraws c then [.establishment] else []) (land t w))
    (soilCount : W → Int × Int → Nat) (poisson shuffle : W → Int × Int → Dist σ)
    (released : W → Int × Int → List Nat → Nat → Nat) (afterRelease : W → Int × Int → List Nat → Nat → W)
    (cellIndex : Int × Int → Nat) (w : W) :
    Within (uses .disperse c)
      (disperseAct c kernel suitable dispersers inside outside land soilCount poisson shuffle released
        afterRelease cellIndex w) := by
  have hk' : ∀ w cell, Within (uses .disperse c) (kernel w cell) := fun w cell =>
    (hk w cell).mono (by intro n hn; simp [uses, usesDisperse, hn])
  have hl' : ∀ t w, Within (uses .disperse c) (land t w) := fun t w =>
    (hl t w).mono (by intro n hn; simp only [uses, usesDisperse, List.mem_append]; exact .inl (.inr hn))
  refine Within.forEach (fun cell w => ?_) _ _
  refine (Within.forEach (fun _ w => (hk' w cell).bind fun t =>
    Within.ite (fun _ => hl' t w) (fun _ => .ret _)) _ _).bind fun w => ?_
  refine Within.ite (fun hs => ?_) (fun _ => .ret _)
  have hsoil : StreamName.soil ∈ uses .disperse c := by simp [uses, usesDisperse, hs]
  exact (Within.guarded fun _ => Within.samples _ hsoil _).bind fun xs =>
    (Within.sample _ hsoil).bind fun sh => Within.forEach (fun _ w => hl' _ w) _ _

theorem overpopulationAct_within (c : UseCfg) (suitable : W → List (Int × Int)) (over : W → Int × Int → Bool)
    (kernel shuffleFrom : W → Int × Int → Dist σ) (leave : W → Int × Int → Nat → Nat → W)
    (moves : W → List Nat) (shuffleTo : W → Nat → Dist σ) (arrive : W → Nat → Nat → W) (w : W) :
    Within (uses .overpopulation c)
      (overpopulationAct suitable over kernel shuffleFrom leave moves shuffleTo arrive w) := by
  have h : StreamName.overpopulation ∈ uses .overpopulation c := by simp [uses]
  exact (Within.forEach (fun _ _ => Within.ite
    (fun _ => (Within.sample _ h).bind fun _ => (Within.sample _ h).bind fun _ => .ret _)
    (fun _ => .ret _)) _ _).bind fun _ =>
    Within.forEach (fun _ _ => (Within.sample _ h).bind fun _ => .ret _) _ _

theorem movementAct_within (c : UseCfg) (rows : W → List Nat) (shuffle shuffleE shuffleM : W → Nat → Dist σ)
    (exposedMoved infectedMoved : W → Nat → Nat → Nat)
    (apply : W → Nat → Nat → Option Nat → Option Nat → W) (w : W) :
    Within (uses .movement c)
      (movementAct rows shuffle shuffleE shuffleM exposedMoved infectedMoved apply w) := by
  have h : StreamName.movement ∈ uses .movement c := by simp [uses]
  exact Within.forEach (fun _ _ => (Within.sample _ h).bind fun _ =>
    (Within.guarded fun _ => Within.samples _ h _).bind fun _ =>
      (Within.guarded fun _ => Within.samples _ h _).bind fun _ => .ret _) _ _

end Skeletons

end Pops
