/-
  Helpers for the non-vacuity instances of the host-pool properties (Props/NonVacuous/Host.lean):
  the domain predicates of Model/HostOps.lean and Model/RunStep.lean are decidable on concrete
  data, so that a concrete instance of `DomainAlong` / `GensDomainAlong` can be checked by
  evaluation (`decide +kernel`).
-/
import PopsModel.Model.RunStep
namespace Pops

instance instDecidableValidDraw (a : List Int) (n : Int) (d : List Int) : Decidable (ValidDraw a n d) :=
  inferInstanceAs (Decidable (d.length = a.length ∧ (∀ k : Nat, k < d.length → 0 ≤ d[k]! ∧ d[k]! ≤ a[k]!) ∧
    sumL d = min n (sumL a)))

instance instDecidableCellOpInDomain : (op : CellOp) → (c : Cell) → Decidable (op.inDomain c)
  | .add mt, c => inferInstanceAs (Decidable ((mt = .si → c.mort ≠ []) ∧ (mt = .sei → c.e ≠ [])))
  | .dispTo mt _ _ _ _, c => inferInstanceAs (Decidable ((mt = .si → c.mort ≠ []) ∧ (mt = .sei → c.e ≠ [])))
  | .pestsFrom k, c => inferInstanceAs (Decidable (0 ≤ k ∧ k ≤ c.i))
  | .pestsTo k, _ => inferInstanceAs (Decidable (0 ≤ k))
  | .simpleTreat coef _, _ => inferInstanceAs (Decidable (0 ≤ coef ∧ coef ≤ 1))
  | .pesticideTreat coef _, _ => inferInstanceAs (Decidable (0 ≤ coef ∧ coef ≤ 1))
  | .pesticideEnd _, _ => inferInstanceAs (Decidable True)
  | .survival ratio dI dE, c => inferInstanceAs (Decidable (0 ≤ ratio ∧ ratio ≤ 1 ∧
      (ratio < 1 → ValidDraw c.mort (c.ratioRemovedInfected ratio) dI ∧
        ValidDraw c.e ((c.removeInfected (c.ratioRemovedInfected ratio) dI).ratioRemovedExposed ratio) dE)))
  | .lethal d, c => inferInstanceAs (Decidable (ValidDraw c.mort c.i d))
  | .mortality rate lag, _ => inferInstanceAs (Decidable (0 ≤ rate ∧ rate ≤ 1 ∧ 0 ≤ lag))
  | .stepForward mt _ _, c => inferInstanceAs (Decidable (mt = .sei → (c.e ≠ [] ∧ c.mort ≠ [])))

/-- Executable form of `LandOp.inDomain`. -/
def LandOp.inDomainB : LandOp → Land → Bool
  | .at k op, l => match l[k]? with
    | none => true
    | some c => decide (op.inDomain c)
  | .move a _ count d dE dM, l => match l[a]? with
    | none => true
    | some src => decide (0 ≤ count ∧ validClassDrawB src count d = true ∧
        (d.e > 0 → ValidDraw src.e d.e dE) ∧ (d.i > 0 → ValidDraw src.mort d.i dM))

theorem LandOp.inDomain_of_B (op : LandOp) (l : Land) (h : op.inDomainB l = true) : op.inDomain l := by
  cases op with
  | «at» k op =>
    intro c hc
    simp only [LandOp.inDomainB, hc, decide_eq_true_eq] at h
    exact h
  | move a b count d dE dM =>
    intro src hs
    simp only [LandOp.inDomainB, hs, decide_eq_true_eq] at h
    exact h

/-- Executable form of `DomainAlong`. -/
def domainAlongB : List LandOp → Land → Bool
  | [], _ => true
  | op :: rest, l => op.inDomainB l &&
      match op.apply l with
      | .ok l' => domainAlongB rest l'
      | .error _ => true

theorem domainAlong_of_B (ops : List LandOp) (l : Land) (h : domainAlongB ops l = true) :
    DomainAlong ops l := by
  induction ops generalizing l with
  | nil => trivial
  | cons op rest ih =>
    simp only [domainAlongB, Bool.and_eq_true] at h
    refine ⟨LandOp.inDomain_of_B op l h.1, fun l' hl' => ih l' ?_⟩
    have h2 := h.2
    rw [hl'] at h2
    exact h2

/-- Executable form of `GensDomainAlong`. -/
def gensDomainAlongB : List OpGen → Land → Bool
  | [], _ => true
  | gen :: rest, l => domainAlongB (gen l) l &&
      match runOps (gen l) l with
      | .ok l' => gensDomainAlongB rest l'
      | .error _ => true

theorem gensDomainAlong_of_B (gens : List OpGen) (l : Land) (h : gensDomainAlongB gens l = true) :
    GensDomainAlong gens l := by
  induction gens generalizing l with
  | nil => trivial
  | cons gen rest ih =>
    simp only [gensDomainAlongB, Bool.and_eq_true] at h
    refine ⟨domainAlong_of_B (gen l) l h.1, fun l' hl' => ih l' ?_⟩
    have h2 := h.2
    rw [hl'] at h2
    exact h2

/-- Executable comparison of a result with an expected value. -/
def yields {α : Type} [DecidableEq α] (r : Except ErrKind α) (x : α) : Bool :=
  match r with
  | .ok a => decide (a = x)
  | .error _ => false

theorem eq_ok_of_yields {α : Type} [DecidableEq α] {r : Except ErrKind α} {x : α}
    (h : yields r x = true) : r = .ok x := by
  cases r with
  | error e => cases h
  | ok a => simp only [yields, decide_eq_true_eq] at h; rw [h]

/-- `Land.inv` and `Land.uniform` in executable form. -/
def Land.invB (l : Land) : Bool := l.all fun c => c.nonNeg && c.totalsOK

theorem Land.inv_of_B (l : Land) (h : l.invB = true) : l.inv := by
  intro c hc
  simp only [Land.invB, List.all_eq_true, Bool.and_eq_true] at h
  exact h c hc

def Land.uniformB (l : Land) : Bool :=
  l.all fun a => l.all fun b => decide (a.e.length = b.e.length) && decide (a.mort.length = b.mort.length)

theorem Land.uniform_of_B (l : Land) (h : l.uniformB = true) : l.uniform := by
  intro a ha b hb
  simp only [Land.uniformB, List.all_eq_true, Bool.and_eq_true, decide_eq_true_eq] at h
  exact h a ha b hb

end Pops
