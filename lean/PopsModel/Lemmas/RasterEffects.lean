/-
  What each raster heap operation does to what the user can observe (`view`, caller arrays),
  derived from the frame lemmas; and the versions over whole runs.
-/
import PopsModel.Lemmas.RasterFrame
namespace Pops
namespace Heap
variable {α : Type}

theorem steps_of_step {h h' : Heap α} (hi : Inv h) {op : HOp α} (hs : h.inScope op = true)
    (he : h.step op = .ok h') : Steps h op h' := by
  obtain ⟨h2, e2, st⟩ := step_rel hi op hs
  rw [he] at e2; cases e2; exact st

theorem inv_of_step {h h' : Heap α} (hi : Inv h) {op : HOp α} (hs : h.inScope op = true)
    (he : h.step op = .ok h') : Inv h' := by
  obtain ⟨h2, e2, i2⟩ := step_ok hi op hs
  rw [he] at e2; cases e2; exact i2

theorem view_of {h : Heap α} {s : Nat} {o : RObj} {b : Nat} {cells : List α}
    (h1 : h.slots s = some o) (h2 : o.data = some b) (h3 : h.bufs b = .live cells) :
    h.view s = some ⟨o.rows, o.cols, cells.take o.size⟩ := by
  simp [view, h1, h2, h3]

theorem view_congr {h h' : Heap α} {s : Nat} (e1 : h'.slots s = h.slots s)
    (e2 : ∀ o b, h.slots s = some o → o.data = some b → h'.bufs b = h.bufs b) :
    h'.view s = h.view s := by
  unfold view
  rw [e1]
  cases hs : h.slots s with
  | none => rfl
  | some o =>
    cases hd : o.data with
    | none => simp [hd]
    | some b => simp [hd, e2 o b hs hd]

/-- Variables that are not rebound and whose buffer is not stored into look the same afterwards. -/
theorem view_frame {h h' : Heap α} (hi : Inv h) {op : HOp α} (st : Steps h op h') (u : Nat)
    (hu : op.reseats u = false)
    (hw : ∀ o p, h.slots u = some o → o.data = some p → h.writePtr op ≠ some p) :
    h'.view u = h.view u := by
  apply view_congr (slots_frame st u hu)
  intro o p h1 h2
  rcases bufs_frame st p with g | g | g | ⟨u2, o2, g1, g2, g3, g4⟩
  · exact g
  · have := (hi.no_dangling u o p h1 h2).1; omega
  · exact absurd g (hw o p h1 h2)
  · have hne : u ≠ u2 := by intro e; subst e; rw [hu] at g1; cases g1
    exact absurd h2 ((hi.owner_excl u2 o2 p g2 g3 g4).2 u o hne h1)

/-- Caller arrays change only by stores through a pointer to them. -/
theorem ext_frame {h h' : Heap α} (hi : Inv h) {op : HOp α} (st : Steps h op h') (e : Nat)
    (he : e < h.nExt) (hw : h.writePtr op ≠ some e) : h'.bufs e = h.bufs e := by
  rcases bufs_frame st e with g | g | g | ⟨u2, o2, _, g2, g3, g4⟩
  · exact g
  · have := hi.ext_le; omega
  · exact absurd g hw
  · have := (hi.owner_excl u2 o2 e g2 g3 g4).1; omega

theorem private_of_owner {h : Heap α} (hi : Inv h) {s : Nat} {o : RObj} {b : Nat}
    (h1 : h.slots s = some o) (h2 : o.data = some b) (h3 : o.owns = true) : Private h s := by
  obtain ⟨g1, g2⟩ := hi.owner_excl s o b h1 h2 h3
  exact ⟨o, b, h1, h2, g1, g2⟩

/-- Private storage stays private and unchanged under every operation that neither rebinds the
    variable nor stores through it. -/
theorem private_frame {h h' : Heap α} (hi : Inv h) {op : HOp α} (st : Steps h op h') {s : Nat}
    (hp : Private h s) (hr : op.reseats s = false) (hv : op.writesVia s = false) :
    Private h' s ∧ h'.view s = h.view s := by
  obtain ⟨o, b, p1, p2, p3, p4⟩ := hp
  have hb := (hi.no_dangling s o b p1 p2).1
  constructor
  · refine ⟨o, b, by rw [slots_frame st s hr]; exact p1, p2, by rw [(counters_frame st).1]; exact p3, ?_⟩
    intro s' o' hne hs' hd
    rcases ptr_provenance st hs' hd with g | g | ⟨u0, o0, g1, g2, g3⟩
    · omega
    · omega
    · by_cases e : u0 = s
      · subst e
        rcases g3 with g3 | g3
        · exact hne g3.symm
        · rw [hr] at g3; cases g3
      · exact p4 u0 o0 e g1 g2
  · apply view_frame hi st s hr
    intro o1 p h1 h2
    rw [p1] at h1; cases h1; rw [p2] at h2; cases h2
    -- the operation stores through another variable or into a caller array
    cases op with
    | write x r c v =>
      have hx : x ≠ s := by intro e; subst e; simp [HOp.writesVia] at hv
      simp only [writePtr]
      cases hxs : h.slots x with
      | none => simp
      | some ox => simpa using p4 x ox hx hxs
    | mapInPlace x f =>
      have hx : x ≠ s := by intro e; subst e; simp [HOp.writesVia] at hv
      simp only [writePtr]
      cases hxs : h.slots x with
      | none => simp
      | some ox => simpa using p4 x ox hx hxs
    | zipInPlace x t f =>
      have hx : x ≠ s := by intro e; subst e; simp [HOp.writesVia] at hv
      simp only [writePtr]
      cases hxs : h.slots x with
      | none => simp
      | some ox => simpa using p4 x ox hx hxs
    | extWrite e i v =>
      cases st with
      | extWrite _ _ _ cells he _ _ =>
        simp only [writePtr, ne_eq, Option.some.injEq]; omega
    | _ => simp [writePtr]

/-- Private storage stays private under every operation that does not rebind the variable
    (stores through the variable itself are allowed). -/
theorem private_keep {h h' : Heap α} (hi : Inv h) {op : HOp α} (st : Steps h op h') {s : Nat}
    (hp : Private h s) (hr : op.reseats s = false) : Private h' s := by
  obtain ⟨o, b, p1, p2, p3, p4⟩ := hp
  have hb := (hi.no_dangling s o b p1 p2).1
  refine ⟨o, b, by rw [slots_frame st s hr]; exact p1, p2, by rw [(counters_frame st).1]; exact p3, ?_⟩
  intro s' o' hne hs' hd
  rcases ptr_provenance st hs' hd with g | g | ⟨u0, o0, g1, g2, g3⟩
  · omega
  · omega
  · by_cases e : u0 = s
    · subst e
      rcases g3 with g3 | g3
      · exact hne g3.symm
      · rw [hr] at g3; cases g3
    · exact p4 u0 o0 e g1 g2

/-- A store through a variable with private storage is invisible through every other variable
    and in every caller array. -/
theorem private_write_local {h h' : Heap α} (hi : Inv h) {op : HOp α} {s : Nat} (hp : Private h s)
    (hv : op.writesVia s = true) (hs : h.inScope op = true) (he : h.step op = .ok h') :
    (∀ u, u ≠ s → h'.view u = h.view u) ∧ (∀ e, e < h.nExt → h'.bufs e = h.bufs e) := by
  have st := steps_of_step hi hs he
  obtain ⟨o, b, p1, p2, p3, p4⟩ := hp
  have hw : h.writePtr op = some b ∧ ∀ u, op.reseats u = false := by
    cases op with
    | write x r c v =>
      have : x = s := by
        have : s = x := by simpa [HOp.writesVia] using hv
        exact this.symm
      subst this; exact ⟨by simp [writePtr, p1, p2], fun _ => rfl⟩
    | mapInPlace x f =>
      have : x = s := by
        have : s = x := by simpa [HOp.writesVia] using hv
        exact this.symm
      subst this; exact ⟨by simp [writePtr, p1, p2], fun _ => rfl⟩
    | zipInPlace x t f =>
      have : x = s := by
        have : s = x := by simpa [HOp.writesVia] using hv
        exact this.symm
      subst this; exact ⟨by simp [writePtr, p1, p2], fun _ => rfl⟩
    | _ => simp [HOp.writesVia] at hv
  refine ⟨fun u hu => view_frame hi st u (hw.2 u) ?_, fun e he' => ext_frame hi st e he' ?_⟩
  · intro o1 p h1 h2
    rw [hw.1]
    intro e; cases e
    exact p4 u o1 hu h1 h2
  · rw [hw.1]; intro e'; cases e'; omega

/-! ### Runs -/

theorem run_cons {h h' : Heap α} {op : HOp α} {ops : List (HOp α)} (hr : h.run (op :: ops) = .ok h') :
    h.inScope op = true ∧ ∃ h1, h.step op = .ok h1 ∧ h1.run ops = .ok h' := by
  simp only [run] at hr
  by_cases hs : h.inScope op = true
  · simp only [hs, if_true] at hr
    cases he : h.step op with
    | ok h1 => rw [he] at hr; exact ⟨hs, h1, rfl, hr⟩
    | error f => rw [he] at hr; cases hr
  · simp [hs] at hr

theorem inv_of_run {h h' : Heap α} (hi : Inv h) {ops : List (HOp α)} (hr : h.run ops = .ok h') : Inv h' := by
  rcases run_ok hi ops with ⟨h2, e2, i2⟩ | e
  · rw [hr] at e2; cases e2; exact i2
  · rw [hr] at e; cases e

theorem private_keep_run {h h' : Heap α} (hi : Inv h) {s : Nat} (ops : List (HOp α)) (hp : Private h s)
    (hn : ∀ op ∈ ops, op.reseats s = false) (hr : h.run ops = .ok h') : Private h' s := by
  induction ops generalizing h with
  | nil => simp only [run] at hr; cases hr; exact hp
  | cons op ops ih =>
    obtain ⟨hs, h1, e1, r1⟩ := run_cons hr
    have st := steps_of_step hi hs e1
    exact ih (inv_of_step hi hs e1) (private_keep hi st hp (hn op List.mem_cons_self))
      (fun o ho => hn o (List.mem_cons_of_mem _ ho)) r1

/-- Over any run that does not rebind `s`, variable `s` keeps its object (shape, pointer, flag). -/
theorem slots_run {h h' : Heap α} (hi : Inv h) {s : Nat} (ops : List (HOp α))
    (hn : ∀ op ∈ ops, op.reseats s = false) (hr : h.run ops = .ok h') : h'.slots s = h.slots s := by
  induction ops generalizing h with
  | nil => simp only [run] at hr; cases hr; rfl
  | cons op ops ih =>
    obtain ⟨hs, h1, e1, r1⟩ := run_cons hr
    have st := steps_of_step hi hs e1
    rw [ih (inv_of_step hi hs e1) (fun o ho => hn o (List.mem_cons_of_mem _ ho)) r1]
    exact slots_frame st s (hn op List.mem_cons_self)

/-- Over any run that neither rebinds `s` nor stores through it, private storage stays private
    and looks the same. -/
theorem private_run {h h' : Heap α} (hi : Inv h) {s : Nat} (ops : List (HOp α)) (hp : Private h s)
    (hn : ∀ op ∈ ops, op.reseats s = false ∧ op.writesVia s = false) (hr : h.run ops = .ok h') :
    Private h' s ∧ h'.view s = h.view s := by
  induction ops generalizing h with
  | nil => simp only [run] at hr; cases hr; exact ⟨hp, rfl⟩
  | cons op ops ih =>
    obtain ⟨hs, h1, e1, r1⟩ := run_cons hr
    have st := steps_of_step hi hs e1
    obtain ⟨g1, g2⟩ := hn op List.mem_cons_self
    obtain ⟨p1, v1⟩ := private_frame hi st hp g1 g2
    obtain ⟨p2, v2⟩ := ih (inv_of_step hi hs e1) p1 (fun o ho => hn o (List.mem_cons_of_mem _ ho)) r1
    exact ⟨p2, by rw [v2, v1]⟩

/-- Caller arrays are live after every run. -/
theorem ext_live_run {h h' : Heap α} (hi : Inv h) {ops : List (HOp α)} (hr : h.run ops = .ok h') :
    h'.nExt = h.nExt ∧ ∀ e, e < h.nExt → ∃ cells, h'.ext e = some cells := by
  have hi' := inv_of_run hi hr
  have hn : h'.nExt = h.nExt := by
    clear hi'
    induction ops generalizing h with
    | nil => simp only [run] at hr; cases hr; rfl
    | cons op ops ih =>
      obtain ⟨hs, h1, e1, r1⟩ := run_cons hr
      rw [ih (inv_of_step hi hs e1) r1]
      exact (counters_frame (steps_of_step hi hs e1)).1
  refine ⟨hn, fun e he => ?_⟩
  obtain ⟨cells, hc⟩ := hi'.ext_live e (by omega)
  exact ⟨cells, by simp [ext, hc]⟩

/-! ### Effects of the single operations -/

theorem take_take_self (l : List α) (n : Nat) : (l.take n).take n = l.take n := by
  simp [List.take_take]

/-- A buffer of another variable survives the `delete[]` in an assignment to `s`. -/
theorem release_keeps {h h1 : Heap α} (hi : Inv h) {s t : Nat} {me o : RObj} {b : Nat} (hne : s ≠ t)
    (hs : h.slots s = some me) (ht : h.slots t = some o) (hd : o.data = some b)
    (hr : h.release me = .ok h1) : h1.bufs b = h.bufs b := by
  rcases (release_frame hr).2.2.2 b with g | ⟨g1, g2⟩
  · exact g
  · exact absurd hd ((hi.owner_excl s me b hs g1 g2).2 t o (Ne.symm hne) ht)

/-- Copy construction / copy assignment: the target shows what the source showed, in private
    storage; every other variable and every caller array is untouched. -/
theorem copy_effect {h h' : Heap α} (hi : Inv h) {s t : Nat} {op : HOp α}
    (hop : op = .copyCtor s t ∨ (op = .copyAssign s t ∧ s ≠ t)) (hs : h.inScope op = true)
    (he : h.step op = .ok h') :
    h'.view s = h.view t ∧ Private h' s ∧ (∀ u, u ≠ s → h'.view u = h.view u) ∧
    (∀ e, e < h.nExt → h'.bufs e = h.bufs e) := by
  have st := steps_of_step hi hs he
  have hwp : h.writePtr op = none := by rcases hop with e | ⟨e, _⟩ <;> subst e <;> rfl
  have hrs : ∀ u, u ≠ s → op.reseats u = false := by
    intro u hu; rcases hop with e | ⟨e, _⟩ <;> subst e <;> simp [HOp.reseats, hu]
  refine ⟨?_, ?_, fun u hu => view_frame hi st u (hrs u hu) (by simp [hwp]),
    fun e he' => ext_frame hi st e he' (by simp [hwp])⟩
  · rcases hop with e | ⟨e, hne⟩
    · subst e
      cases st with
      | copyCtor _ _ o b cells h1 h2 h3 h4 =>
        rw [view_of h1 h2 h3]
        simp [view, allocInto, RObj.size, List.take_take]
    · subst e
      cases st with
      | copySelf => exact absurd rfl hne
      | copyAssign _ _ me o b cells h1 _ g1 g2 g3 g4 g5 g6 =>
        have hb : h.bufs b = .live cells := by rw [← release_keeps hi hne g1 g2 g4 g3]; exact g5
        rw [view_of g2 g4 hb]
        simp [view, allocInto, RObj.size, List.take_take]
  · have hi' := inv_of_step hi hs he
    have key : ∀ (h0 : Heap α) (r c : Nat) (cells : List α) (w : Bool), h0.slots = h.slots → h0.next = h.next →
        h0.nExt = h.nExt → Private (h0.allocInto s r c cells w) s := by
      intro h0 r c cells w e1 e2 e3
      refine ⟨⟨r, c, some h0.next, w⟩, h0.next, by simp [allocInto], rfl, by simp only [allocInto, e2, e3]; exact hi.ext_le, ?_⟩
      intro s' o' hne hs' hd
      simp only [allocInto, upd_ne _ _ hne, e1] at hs'
      have := (hi.no_dangling s' o' _ hs' hd).1
      omega
    rcases hop with e | ⟨e, hne⟩
    · subst e
      cases st with
      | copyCtor _ _ o b cells h1 h2 h3 h4 => exact key h _ _ _ _ rfl rfl rfl
    · subst e
      cases st with
      | copySelf => exact absurd rfl hne
      | copyAssign _ _ me o b cells h1 _ g1 g2 g3 g4 g5 g6 =>
        obtain ⟨r1, r2, r3, _⟩ := release_frame g3
        exact key h1 _ _ _ _ r1 r2 r3

/-- Move construction / move assignment: the target takes over the very buffer of the source (no
    allocation, no copy), the source is left with a null pointer and its old shape; every other
    variable and every caller array is untouched. -/
theorem move_effect {h h' : Heap α} (hi : Inv h) {s t : Nat} {op : HOp α} {o : RObj}
    (hop : op = .moveCtor s t ∨ (op = .moveAssign s t ∧ s ≠ t)) (hs : h.inScope op = true)
    (ht : h.slots t = some o) (he : h.step op = .ok h') :
    h'.slots s = some ⟨o.rows, o.cols, o.data, o.owns⟩ ∧ h'.slots t = some { o with data := none } ∧
    h'.view s = h.view t ∧ h'.next = h.next ∧
    (∀ u, u ≠ s → u ≠ t → h'.view u = h.view u) ∧ (∀ e, e < h.nExt → h'.bufs e = h.bufs e) := by
  have st := steps_of_step hi hs he
  have hwp : h.writePtr op = none := by rcases hop with e | ⟨e, _⟩ <;> subst e <;> rfl
  have hrs : ∀ u, u ≠ s → u ≠ t → op.reseats u = false := by
    intro u hu hu2; rcases hop with e | ⟨e, _⟩ <;> subst e <;> simp [HOp.reseats, hu, hu2]
  have fr : (∀ u, u ≠ s → u ≠ t → h'.view u = h.view u) ∧ (∀ e, e < h.nExt → h'.bufs e = h.bufs e) :=
    ⟨fun u hu hu2 => view_frame hi st u (hrs u hu hu2) (by simp [hwp]),
     fun e he' => ext_frame hi st e he' (by simp [hwp])⟩
  have key : ∀ (h0 : Heap α), s ≠ t → h0.slots = h.slots → h0.next = h.next →
      (∀ b, o.data = some b → h0.bufs b = h.bufs b) →
      (h0.moveOf s t o).slots s = some ⟨o.rows, o.cols, o.data, o.owns⟩ ∧
      (h0.moveOf s t o).slots t = some { o with data := none } ∧
      (h0.moveOf s t o).view s = h.view t ∧ (h0.moveOf s t o).next = h.next := by
    intro h0 hne e1 e2 e3
    have s1 : (h0.moveOf s t o).slots s = some ⟨o.rows, o.cols, o.data, o.owns⟩ := by
      simp only [moveOf]; rw [setSlot_ne _ _ hne, setSlot_same]
    refine ⟨s1, by simp [moveOf], ?_, by simp [moveOf, e2]⟩
    unfold view
    rw [s1, ht]
    cases hd : o.data with
    | none => simp [hd]
    | some b => simp [hd, moveOf, e3 b hd, RObj.size]
  rcases hop with e | ⟨e, hne⟩
  · subst e
    cases st with
    | moveCtor _ _ o' hne' ht' =>
      rw [ht] at ht'; cases ht'
      obtain ⟨k1, k2, k3, k4⟩ := key h (Ne.symm hne') rfl rfl (fun _ _ => rfl)
      exact ⟨k1, k2, k3, k4, fr⟩
  · subst e
    cases st with
    | moveSelf => exact absurd rfl hne
    | moveAssign _ _ me o' h1 _ g1 g2 g3 =>
      rw [ht] at g2; cases g2
      obtain ⟨r1, r2, _, _⟩ := release_frame g3
      obtain ⟨k1, k2, k3, k4⟩ := key h1 hne r1 r2 (fun b hb => release_keeps hi hne g1 ht hb g3)
      exact ⟨k1, k2, k3, k4, fr⟩

/-- A cell write through `s` lands in the buffer `s` points to, at `row * cols + col`. -/
theorem write_effect {h h' : Heap α} (hi : Inv h) {s r c : Nat} {v : α} {o : RObj} {b : Nat}
    (hs : h.inScope (.write s r c v) = true) (h1 : h.slots s = some o) (h2 : o.data = some b)
    (he : h.step (.write s r c v) = .ok h') :
    ∃ cells, h.bufs b = .live cells ∧ r * o.cols + c < cells.length ∧
      h'.bufs b = .live (cells.set (r * o.cols + c) v) ∧ h'.slots = h.slots ∧
      (∀ p, p ≠ b → h'.bufs p = h.bufs p) := by
  have st := steps_of_step hi hs he
  cases st with
  | write _ _ _ _ o' b' cells g1 g2 g3 g4 g5 g6 =>
    rw [h1] at g1; cases g1; rw [h2] at g2; cases g2
    exact ⟨cells, g3, index_lt g4 g5 g6, by simp [pokeOf], rfl, fun p hp => by simp [pokeOf, upd_ne _ _ hp]⟩

/-- Operations that build their result in a new variable `d` leave every other variable and
    every caller array as they were. -/
theorem fresh_result_frame {h h' : Heap α} (hi : Inv h) {op : HOp α} {d : Nat}
    (hop : (∃ a f, op = .mapNew d a f) ∨ (∃ a b f, op = .zipNew d a b f) ∨ (∃ a f, op = .powNew d a f))
    (hs : h.inScope op = true) (he : h.step op = .ok h') :
    (∀ u, u ≠ d → h'.view u = h.view u) ∧ (∀ e, e < h.nExt → h'.bufs e = h.bufs e) := by
  have st := steps_of_step hi hs he
  have hwp : h.writePtr op = none := by
    rcases hop with ⟨a, f, e⟩ | ⟨a, b, f, e⟩ | ⟨a, f, e⟩ <;> subst e <;> rfl
  have hrs : ∀ u, u ≠ d → op.reseats u = false := by
    intro u hu
    rcases hop with ⟨a, f, e⟩ | ⟨a, b, f, e⟩ | ⟨a, f, e⟩ <;> subst e <;> simp [HOp.reseats, hu]
  exact ⟨fun u hu => view_frame hi st u (hrs u hu) (by simp [hwp]),
    fun e he' => ext_frame hi st e he' (by simp [hwp])⟩

theorem map_take_len {β : Type} (f : α → β) (l : List α) (n : Nat) (hn : n ≤ l.length) :
    ((l.take n).map f).take n = (l.take n).map f := by
  apply List.take_of_length_le; simp; omega

theorem zip_take_len {β γ : Type} (f : α → β → γ) (l : List α) (l2 : List β) (n : Nat) :
    (List.zipWith f (l.take n) (l2.take n)).take n = List.zipWith f (l.take n) (l2.take n) := by
  apply List.take_of_length_le; simp; omega

theorem overwrite_all (l new : List α) (h : l.length ≤ new.length) : new ++ l.drop new.length = new := by
  rw [List.drop_eq_nil_of_le h]; simp

/-- `raster op scalar`, `scalar op raster`, `pow`, `sqrt`: the new variable shows the cell-wise
    image of what the operand shows. -/
theorem mapNew_effect {h h' : Heap α} (hi : Inv h) {d a : Nat} {f : α → α} {op : HOp α}
    (hop : op = .mapNew d a f ∨ op = .powNew d a f) (hs : h.inScope op = true)
    (he : h.step op = .ok h') :
    ∃ va, h.view a = some va ∧ h'.view d = some (va.map f) := by
  have st := steps_of_step hi hs he
  rcases hop with e | e
  · subst e
    cases st with
    | mapNew _ _ _ o b cells g1 g2 g3 g4 =>
      refine ⟨_, view_of g1 g2 g3, ?_⟩
      have hs1 : (h.allocInto d o.rows o.cols ((cells.take o.size).map f) true).slots d =
          some ⟨o.rows, o.cols, some h.next, true⟩ := by simp [allocInto]
      have hb1 : (h.allocInto d o.rows o.cols ((cells.take o.size).map f) true).bufs h.next =
          .live ((cells.take o.size).map f) := by simp [allocInto]
      rw [view_of hs1 rfl hb1]
      show some (⟨o.rows, o.cols, ((cells.take o.size).map f).take o.size⟩ : Raster α) = _
      rw [map_take_len f cells o.size g4]; rfl
  · subst e
    cases st with
    | powNew _ _ _ o b cells g1 g2 g3 g4 =>
      refine ⟨_, view_of g1 g2 g3, ?_⟩
      have hs1 : ((h.allocInto d o.rows o.cols (cells.take o.size) true).storeOf h.next (cells.take o.size)
          ((cells.take o.size).map f)).slots d = some ⟨o.rows, o.cols, some h.next, true⟩ := by
        simp [allocInto, storeOf]
      have hb1 : ((h.allocInto d o.rows o.cols (cells.take o.size) true).storeOf h.next (cells.take o.size)
          ((cells.take o.size).map f)).bufs h.next = .live ((cells.take o.size).map f) := by
        simp only [storeOf, upd_same]
        rw [overwrite_all _ _ (by simp)]
      rw [view_of hs1 rfl hb1]
      show some (⟨o.rows, o.cols, ((cells.take o.size).map f).take o.size⟩ : Raster α) = _
      rw [map_take_len f cells o.size g4]; rfl

/-- Compound `op= scalar`, `fill`: the variable shows the cell-wise image of what it showed. -/
theorem mapInPlace_effect {h h' : Heap α} (hi : Inv h) {s : Nat} {f : α → α}
    (hs : h.inScope (.mapInPlace s f) = true) (he : h.step (.mapInPlace s f) = .ok h') :
    ∃ va, h.view s = some va ∧ h'.view s = some (va.map f) := by
  have st := steps_of_step hi hs he
  cases st with
  | mapInPlace _ _ o b cells g1 g2 g3 g4 =>
    refine ⟨_, view_of g1 g2 g3, ?_⟩
    have hs1 : (h.storeOf b cells ((cells.take o.size).map f)).slots s = some o := g1
    have hb1 : (h.storeOf b cells ((cells.take o.size).map f)).bufs b =
        .live ((cells.take o.size).map f ++ cells.drop ((cells.take o.size).map f).length) := by
      simp [storeOf]
    rw [view_of hs1 g2 hb1]
    have hl : ((cells.take o.size).map f).length = o.size := by simp; omega
    rw [List.take_left' hl]; rfl

theorem throws_zipNew {h : Heap α} {d a b : Nat} {f : α → α → α} {o o2 : RObj}
    (g1 : h.slots a = some o) (g2 : h.slots b = some o2) :
    h.throws (.zipNew d a b f) = if o.cols ≠ o2.cols ∨ o.rows ≠ o2.rows then some .invalid_argument else none := by
  simp only [throws, g1, g2]

theorem throws_zipInPlace {h : Heap α} {a b : Nat} {f : α → α → α} {o o2 : RObj}
    (g1 : h.slots a = some o) (g2 : h.slots b = some o2) :
    h.throws (.zipInPlace a b f) = if o.cols ≠ o2.cols ∨ o.rows ≠ o2.rows then some .invalid_argument else none := by
  simp only [throws, g1, g2]

/-- `raster op raster`: rejected with `invalid_argument` and no state change when the shapes
    differ, otherwise the new variable shows the cell-wise combination. -/
theorem zipNew_effect {h h' : Heap α} (hi : Inv h) {d a b : Nat} {f : α → α → α}
    (hs : h.inScope (.zipNew d a b f) = true) (he : h.step (.zipNew d a b f) = .ok h') :
    ∃ va vb, h.view a = some va ∧ h.view b = some vb ∧
      match Raster.zip f va vb with
      | .error k => h.throws (.zipNew d a b f) = some k ∧ h' = h
      | .ok r => h.throws (.zipNew d a b f) = none ∧ h'.view d = some r := by
  have st := steps_of_step hi hs he
  cases st with
  | zipNewThrow _ _ _ _ o o2 g1 g2 g3 =>
    simp only [inScope, Bool.and_eq_true] at hs
    obtain ⟨oa, pa, k1, k2⟩ := hasData_iff.mp hs.1.2
    obtain ⟨ob, pb, k3, k4⟩ := hasData_iff.mp hs.2
    rw [g1] at k1; cases k1; rw [g2] at k3; cases k3
    obtain ⟨_, ca, m1, _⟩ := hi.no_dangling a o pa g1 k2
    obtain ⟨_, cb, m2, _⟩ := hi.no_dangling b o2 pb g2 k4
    refine ⟨_, _, view_of g1 k2 m1, view_of g2 k4 m2, ?_⟩
    simp only [Raster.zip, if_pos g3, throws_zipNew g1 g2, and_self]
  | zipNew _ _ _ _ o o2 p p2 cells cells2 g1 g2 g3 g4 g5 g6 g7 g8 g9 =>
    refine ⟨_, _, view_of g1 g4 g6, view_of g2 g5 g7, ?_⟩
    have hsz := same_size g3
    simp only [Raster.zip, if_neg g3, throws_zipNew g1 g2, true_and]
    have hs1 : (h.allocInto d o.rows o.cols (List.zipWith f (cells.take o.size) (cells2.take o.size)) true).slots d =
        some ⟨o.rows, o.cols, some h.next, true⟩ := by simp [allocInto]
    have hb1 : (h.allocInto d o.rows o.cols (List.zipWith f (cells.take o.size) (cells2.take o.size)) true).bufs h.next =
        .live (List.zipWith f (cells.take o.size) (cells2.take o.size)) := by simp [allocInto]
    rw [view_of hs1 rfl hb1, ← hsz]
    show some (⟨o.rows, o.cols, (List.zipWith f (cells.take o.size) (cells2.take o.size)).take o.size⟩ : Raster α) = _
    rw [zip_take_len]

/-- Compound `op= raster`: rejected with no state change when the shapes differ, otherwise the
    left variable shows the cell-wise combination. -/
theorem zipInPlace_effect {h h' : Heap α} (hi : Inv h) {s t : Nat} {f : α → α → α}
    (hs : h.inScope (.zipInPlace s t f) = true) (he : h.step (.zipInPlace s t f) = .ok h') :
    ∃ va vb, h.view s = some va ∧ h.view t = some vb ∧
      match Raster.zipAssign f va vb with
      | .error k => h.throws (.zipInPlace s t f) = some k ∧ h' = h
      | .ok r => h.throws (.zipInPlace s t f) = none ∧ h'.view s = some r := by
  have st := steps_of_step hi hs he
  cases st with
  | zipThrow _ _ _ o o2 g1 g2 g3 =>
    simp only [inScope, Bool.and_eq_true] at hs
    obtain ⟨oa, pa, k1, k2⟩ := hasData_iff.mp hs.1
    obtain ⟨ob, pb, k3, k4⟩ := hasData_iff.mp hs.2
    rw [g1] at k1; cases k1; rw [g2] at k3; cases k3
    obtain ⟨_, ca, m1, _⟩ := hi.no_dangling s o pa g1 k2
    obtain ⟨_, cb, m2, _⟩ := hi.no_dangling t o2 pb g2 k4
    refine ⟨_, _, view_of g1 k2 m1, view_of g2 k4 m2, ?_⟩
    simp only [Raster.zipAssign, if_pos g3, throws_zipInPlace g1 g2, and_self]
  | zipInPlace _ _ _ o o2 b b2 cells cells2 g1 g2 g3 g4 g5 g6 g7 g8 g9 =>
    refine ⟨_, _, view_of g1 g4 g6, view_of g2 g5 g7, ?_⟩
    have hsz := same_size g3
    simp only [Raster.zipAssign, if_neg g3, throws_zipInPlace g1 g2, true_and]
    have hs1 : (h.storeOf b cells (List.zipWith f (cells.take o.size) (cells2.take o.size))).slots s = some o := g1
    have hb1 : (h.storeOf b cells (List.zipWith f (cells.take o.size) (cells2.take o.size))).bufs b =
        .live (List.zipWith f (cells.take o.size) (cells2.take o.size) ++
          cells.drop (List.zipWith f (cells.take o.size) (cells2.take o.size)).length) := by simp [storeOf]
    rw [view_of hs1 g4 hb1, ← hsz]
    have hl : (List.zipWith f (cells.take o.size) (cells2.take o.size)).length = o.size := by simp; omega
    rw [List.take_left' hl]

end Heap
end Pops
