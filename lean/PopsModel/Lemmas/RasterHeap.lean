/-
  Lemmas about the raster heap machine (Model/RasterHeap.lean): the invariant is preserved by
  every in-scope operation and such an operation never faults.
-/
import PopsModel.Model.RasterHeap
namespace Pops
namespace Heap
variable {α : Type}

@[simp] theorem upd_same {β : Type} (f : Nat → β) (k : Nat) (v : β) : upd f k v k = v := by simp [upd]
theorem upd_ne {β : Type} (f : Nat → β) {k j : Nat} (v : β) (h : j ≠ k) : upd f k v j = f j := by simp [upd, h]

@[simp] theorem setSlot_bufs (h : Heap α) (s : Nat) (o : Option RObj) : (h.setSlot s o).bufs = h.bufs := rfl
@[simp] theorem setSlot_next (h : Heap α) (s : Nat) (o : Option RObj) : (h.setSlot s o).next = h.next := rfl
@[simp] theorem setSlot_nExt (h : Heap α) (s : Nat) (o : Option RObj) : (h.setSlot s o).nExt = h.nExt := rfl
@[simp] theorem setSlot_same (h : Heap α) (s : Nat) (o : Option RObj) : (h.setSlot s o).slots s = o := by
  simp [setSlot]
theorem setSlot_ne (h : Heap α) {s s' : Nat} (o : Option RObj) (hne : s' ≠ s) :
    (h.setSlot s o).slots s' = h.slots s' := by simp [setSlot, upd_ne _ _ hne]

/-- Forgetting a variable keeps the invariant. -/
theorem inv_clear {h : Heap α} (hi : Inv h) (s : Nat) : Inv (h.setSlot s none) := by
  refine ⟨hi.ext_le, hi.fresh, hi.ext_live, ?_, ?_⟩
  · intro s1 o b h1 h2
    by_cases e : s1 = s
    · subst e; simp at h1
    · rw [setSlot_ne _ _ e] at h1; exact hi.no_dangling s1 o b h1 h2
  · intro s1 o b h1 h2 h3
    by_cases e : s1 = s
    · subst e; simp at h1
    · rw [setSlot_ne _ _ e] at h1
      obtain ⟨g1, g2⟩ := hi.owner_excl s1 o b h1 h2 h3
      refine ⟨g1, ?_⟩
      intro s' o' hne hs'
      by_cases e' : s' = s
      · subst e'; simp at hs'
      · rw [setSlot_ne _ _ e'] at hs'; exact g2 s' o' hne hs'

/-- Overwriting the contents of a live buffer with as many cells keeps the invariant. -/
theorem inv_setBuf {h : Heap α} (hi : Inv h) {b : Nat} {cells cells' : List α}
    (hb : h.bufs b = .live cells) (hl : cells'.length = cells.length) :
    Inv { h with bufs := upd h.bufs b (.live cells') } := by
  refine ⟨hi.ext_le, ?_, ?_, ?_, hi.owner_excl⟩
  · intro b' hb'
    have : b' ≠ b := by
      intro e; subst e; have := hi.fresh b' hb'; rw [this] at hb; cases hb
    simp only [upd_ne _ _ this]; exact hi.fresh b' hb'
  · intro e he
    by_cases e' : e = b
    · subst e'; exact ⟨cells', by simp⟩
    · simp only [upd_ne _ _ e']; exact hi.ext_live e he
  · intro s o b0 h1 h2
    obtain ⟨g1, c0, g2, g3⟩ := hi.no_dangling s o b0 h1 h2
    refine ⟨g1, ?_⟩
    by_cases e' : b0 = b
    · subst e'; rw [hb] at g2; cases g2
      exact ⟨cells', by simp, by omega⟩
    · exact ⟨c0, by simp only [upd_ne _ _ e']; exact g2, g3⟩

/-- `new Number[n]` into a variable whose previous content has been dealt with. -/
theorem inv_allocInto {h : Heap α} {s : Nat} (hi : Inv (h.setSlot s none)) (r c : Nat)
    (cells : List α) (owns : Bool) (hl : r * c ≤ cells.length) :
    Inv (h.allocInto s r c cells owns) := by
  have e0 := hi.ext_le; simp only [setSlot_next, setSlot_nExt] at e0
  refine ⟨by simp only [allocInto]; omega, ?_, ?_, ?_, ?_⟩
  · intro b hb
    simp only [allocInto] at hb ⊢
    have : b ≠ h.next := by omega
    simp only [upd_ne _ _ this]
    exact hi.fresh b (by simp only [setSlot_next]; omega)
  · intro e he
    simp only [allocInto] at he ⊢
    have : e ≠ h.next := by omega
    simp only [upd_ne _ _ this]
    exact hi.ext_live e he
  · intro s1 o b h1 h2
    simp only [allocInto] at h1 ⊢
    by_cases e : s1 = s
    · subst e
      simp only [upd_same, Option.some.injEq] at h1
      subst h1
      simp only [Option.some.injEq] at h2
      subst h2
      exact ⟨by omega, cells, by simp, by simpa [RObj.size] using hl⟩
    · rw [upd_ne _ _ e] at h1
      have h1' : (h.setSlot s none).slots s1 = some o := by rw [setSlot_ne _ _ e]; exact h1
      obtain ⟨g1, c0, g2, g3⟩ := hi.no_dangling s1 o b h1' h2
      simp only [setSlot_next, setSlot_bufs] at g1 g2
      have : b ≠ h.next := by omega
      exact ⟨by omega, c0, by simp only [upd_ne _ _ this]; exact g2, g3⟩
  · intro s1 o b h1 h2 h3
    simp only [allocInto] at h1 ⊢
    by_cases e : s1 = s
    · subst e
      simp only [upd_same, Option.some.injEq] at h1
      subst h1
      simp only [Option.some.injEq] at h2
      subst h2
      refine ⟨e0, ?_⟩
      intro s' o' hne hs'
      rw [upd_ne _ _ hne] at hs'
      have hs'' : (h.setSlot s1 none).slots s' = some o' := by rw [setSlot_ne _ _ hne]; exact hs'
      intro hd
      have := (hi.no_dangling s' o' _ hs'' hd).1
      simp only [setSlot_next] at this; omega
    · rw [upd_ne _ _ e] at h1
      have h1' : (h.setSlot s none).slots s1 = some o := by rw [setSlot_ne _ _ e]; exact h1
      obtain ⟨g1, g2⟩ := hi.owner_excl s1 o b h1' h2 h3
      have gb := (hi.no_dangling s1 o b h1' h2).1
      simp only [setSlot_next] at gb
      refine ⟨g1, ?_⟩
      intro s' o' hne hs'
      by_cases e' : s' = s
      · subst e'
        simp only [upd_same, Option.some.injEq] at hs'
        subst hs'
        simp only [ne_eq, Option.some.injEq]; omega
      · rw [upd_ne _ _ e'] at hs'
        exact g2 s' o' hne (by rw [setSlot_ne _ _ e']; exact hs')

/-- `if (data_ && owns_) delete[] data_;` on the object of variable `s` succeeds; afterwards every
    other variable is intact. -/
theorem inv_release {h : Heap α} (hi : Inv h) {s : Nat} {o : RObj} (hs : h.slots s = some o) :
    ∃ h1, h.release o = .ok h1 ∧ Inv (h1.setSlot s none) ∧ h1.slots = h.slots ∧
      h1.next = h.next ∧ h1.nExt = h.nExt ∧
      (∀ b, ¬ (o.data = some b ∧ o.owns = true) → h1.bufs b = h.bufs b) := by
  unfold release
  cases hd : o.data with
  | none => exact ⟨h, rfl, inv_clear hi s, rfl, rfl, rfl, fun _ _ => rfl⟩
  | some b =>
    by_cases ho : o.owns = true
    · obtain ⟨g1, cells, g2, g3⟩ := hi.no_dangling s o b hs hd
      obtain ⟨g4, g5⟩ := hi.owner_excl s o b hs hd ho
      simp only [ho, if_true, free, g2]
      have : ¬ b < h.nExt := by omega
      simp only [this, if_false]
      refine ⟨_, rfl, ?_, rfl, rfl, rfl, ?_⟩
      · refine ⟨hi.ext_le, ?_, ?_, ?_, ?_⟩
        · intro b' hb'
          simp only [setSlot_next] at hb'
          have : b' ≠ b := by omega
          simp only [setSlot_bufs, upd_ne _ _ this]; exact hi.fresh b' hb'
        · intro e he
          simp only [setSlot_nExt] at he
          have : e ≠ b := by omega
          simp only [setSlot_bufs, upd_ne _ _ this]; exact hi.ext_live e he
        · intro s1 o1 b1 h1 h2
          by_cases e : s1 = s
          · subst e; simp at h1
          · rw [setSlot_ne _ _ e] at h1
            simp only at h1
            obtain ⟨k1, c1, k2, k3⟩ := hi.no_dangling s1 o1 b1 h1 h2
            have : b1 ≠ b := by
              intro eb; subst eb; exact g5 s1 o1 e h1 h2
            exact ⟨k1, c1, by simp only [setSlot_bufs, upd_ne _ _ this]; exact k2, k3⟩
        · intro s1 o1 b1 h1 h2 h3
          by_cases e : s1 = s
          · subst e; simp at h1
          · rw [setSlot_ne _ _ e] at h1
            simp only at h1
            obtain ⟨k1, k2⟩ := hi.owner_excl s1 o1 b1 h1 h2 h3
            refine ⟨k1, ?_⟩
            intro s' o' hne hs'
            by_cases e' : s' = s
            · subst e'; simp at hs'
            · rw [setSlot_ne _ _ e'] at hs'; exact k2 s' o' hne hs'
      · intro b' hb'
        have : b' ≠ b := by
          intro e; subst e; exact hb' ⟨rfl, trivial⟩
        simp only [upd_ne _ _ this]
    · simp only [ho]
      exact ⟨h, rfl, inv_clear hi s, rfl, rfl, rfl, fun _ _ => rfl⟩

/-- Move: variable `s` (dealt with) takes the pointer and flag of `t`, `t` keeps its shape with a null pointer. -/
theorem inv_transfer {h : Heap α} {s t : Nat} (hi : Inv (h.setSlot s none)) (hne : t ≠ s) {o : RObj}
    (ht : h.slots t = some o) :
    Inv ((h.setSlot s (some ⟨o.rows, o.cols, o.data, o.owns⟩)).setSlot t (some { o with data := none })) := by
  have ht' : (h.setSlot s none).slots t = some o := by rw [setSlot_ne _ _ hne]; exact ht
  refine ⟨hi.ext_le, hi.fresh, hi.ext_live, ?_, ?_⟩
  · intro s1 o1 b1 h1 h2
    by_cases e : s1 = t
    · subst e; simp only [setSlot_same, Option.some.injEq] at h1; subst h1; simp at h2
    · rw [setSlot_ne _ _ e] at h1
      by_cases e2 : s1 = s
      · subst e2; simp only [setSlot_same, Option.some.injEq] at h1; subst h1
        simp only at h2
        exact hi.no_dangling t o b1 ht' h2
      · rw [setSlot_ne _ _ e2] at h1
        exact hi.no_dangling s1 o1 b1 (by rw [setSlot_ne _ _ e2]; exact h1) h2
  · intro s1 o1 b1 h1 h2 h3
    by_cases e : s1 = t
    · subst e; simp only [setSlot_same, Option.some.injEq] at h1; subst h1; simp at h2
    · rw [setSlot_ne _ _ e] at h1
      by_cases e2 : s1 = s
      · subst e2; simp only [setSlot_same, Option.some.injEq] at h1; subst h1
        simp only at h2 h3
        obtain ⟨k1, k2⟩ := hi.owner_excl t o b1 ht' h2 h3
        refine ⟨k1, ?_⟩
        intro s' o' hne' hs'
        by_cases e3 : s' = t
        · subst e3; simp only [setSlot_same, Option.some.injEq] at hs'; subst hs'; simp
        · rw [setSlot_ne _ _ e3, setSlot_ne _ _ hne'] at hs'
          exact k2 s' o' e3 (by rw [setSlot_ne _ _ hne']; exact hs')
      · rw [setSlot_ne _ _ e2] at h1
        obtain ⟨k1, k2⟩ := hi.owner_excl s1 o1 b1 (by rw [setSlot_ne _ _ e2]; exact h1) h2 h3
        refine ⟨k1, ?_⟩
        intro s' o' hne' hs'
        by_cases e3 : s' = t
        · subst e3; simp only [setSlot_same, Option.some.injEq] at hs'; subst hs'; simp
        · rw [setSlot_ne _ _ e3] at hs'
          by_cases e4 : s' = s
          · subst e4; simp only [setSlot_same, Option.some.injEq] at hs'; subst hs'
            simp only
            exact k2 t o (Ne.symm e) ht'
          · rw [setSlot_ne _ _ e4] at hs'
            exact k2 s' o' hne' (by rw [setSlot_ne _ _ e4]; exact hs')

/-- The wrapping constructor on a caller array that is large enough. -/
theorem inv_wrap {h : Heap α} {s : Nat} (hi : Inv (h.setSlot s none)) {e r c : Nat}
    (he : e < h.nExt) (hl : r * c ≤ h.extLen e) :
    Inv (h.setSlot s (some ⟨r, c, some e, false⟩)) := by
  refine ⟨hi.ext_le, hi.fresh, hi.ext_live, ?_, ?_⟩
  · intro s1 o1 b1 h1 h2
    by_cases e1 : s1 = s
    · subst e1; simp only [setSlot_same, Option.some.injEq] at h1; subst h1
      simp only [Option.some.injEq] at h2; subst h2
      obtain ⟨cells, hc⟩ := hi.ext_live e he
      have e0 := hi.ext_le
      simp only [setSlot_bufs, setSlot_next, setSlot_nExt] at hc e0 ⊢
      refine ⟨by omega, cells, hc, ?_⟩
      simp only [extLen, hc] at hl
      simpa [RObj.size] using hl
    · rw [setSlot_ne _ _ e1] at h1
      exact hi.no_dangling s1 o1 b1 (by rw [setSlot_ne _ _ e1]; exact h1) h2
  · intro s1 o1 b1 h1 h2 h3
    by_cases e1 : s1 = s
    · subst e1; simp only [setSlot_same, Option.some.injEq] at h1; subst h1; simp at h3
    · rw [setSlot_ne _ _ e1] at h1
      obtain ⟨k1, k2⟩ := hi.owner_excl s1 o1 b1 (by rw [setSlot_ne _ _ e1]; exact h1) h2 h3
      refine ⟨k1, ?_⟩
      intro s' o' hne' hs'
      by_cases e4 : s' = s
      · subst e4; simp only [setSlot_same, Option.some.injEq] at hs'; subst hs'
        simp only [setSlot_nExt] at k1
        simp only [ne_eq, Option.some.injEq]; omega
      · rw [setSlot_ne _ _ e4] at hs'
        exact k2 s' o' hne' (by rw [setSlot_ne _ _ e4]; exact hs')

/-! ### Buffer accesses through a non-dangling pointer succeed -/

theorem hasData_iff {h : Heap α} {s : Nat} :
    h.hasData s = true ↔ ∃ o b, h.slots s = some o ∧ o.data = some b := by
  unfold hasData
  cases hs : h.slots s with
  | none => simp
  | some o =>
    cases hd : o.data with
    | none => simp [hd]
    | some b => simp [hd]

theorem occupied_iff {h : Heap α} {s : Nat} : h.occupied s = true ↔ ∃ o, h.slots s = some o := by
  unfold occupied; cases h.slots s <;> simp

theorem not_occupied_iff {h : Heap α} {s : Nat} : (!h.occupied s) = true ↔ h.slots s = none := by
  unfold occupied; cases h.slots s <;> simp

theorem read_live {h : Heap α} {b n : Nat} {cells : List α} (hb : h.bufs b = .live cells)
    (hn : n ≤ cells.length) : h.read b n = .ok (cells.take n) := by
  simp [read, hb, hn]

theorem store_live {h : Heap α} {b : Nat} {cells new : List α} (hb : h.bufs b = .live cells)
    (hn : new.length ≤ cells.length) :
    h.store b new = .ok { h with bufs := upd h.bufs b (.live (new ++ cells.drop new.length)) } := by
  simp [store, hb, hn]

theorem poke_live {h : Heap α} {b i : Nat} {cells : List α} (v : α) (hb : h.bufs b = .live cells)
    (hi : i < cells.length) :
    h.poke b i v = .ok { h with bufs := upd h.bufs b (.live (cells.set i v)) } := by
  simp [poke, hb, hi]

theorem inv_store {h : Heap α} (hi : Inv h) {b : Nat} {cells new : List α} (hb : h.bufs b = .live cells)
    (hn : new.length ≤ cells.length) :
    Inv { h with bufs := upd h.bufs b (.live (new ++ cells.drop new.length)) } :=
  inv_setBuf hi hb (by simp; omega)

theorem inv_poke {h : Heap α} (hi : Inv h) {b i : Nat} {cells : List α} (v : α) (hb : h.bufs b = .live cells) :
    Inv { h with bufs := upd h.bufs b (.live (cells.set i v)) } :=
  inv_setBuf hi hb (by simp)

theorem index_lt {r c rows cols n : Nat} (hr : r < rows) (hc : c < cols) (hn : rows * cols ≤ n) :
    r * cols + c < n := by
  have : (r + 1) * cols ≤ rows * cols := Nat.mul_le_mul_right cols (by omega)
  rw [Nat.add_mul] at this
  omega

/-- **Every in-scope operation succeeds and keeps the invariant.** -/
theorem step_ok {h : Heap α} (hi : Inv h) (op : HOp α) (hs : h.inScope op = true) :
    ∃ h', h.step op = .ok h' ∧ Inv h' := by
  cases op with
  | construct s r c v =>
    exact ⟨_, rfl, inv_allocInto (inv_clear hi s) r c _ true (by simp)⟩
  | wrap s e r c =>
    simp only [inScope, Bool.and_eq_true, decide_eq_true_eq] at hs
    exact ⟨_, rfl, inv_wrap (inv_clear hi s) hs.1.2 hs.2⟩
  | copyCtor s t =>
    simp only [inScope, Bool.and_eq_true] at hs
    obtain ⟨o, b, h1, h2⟩ := hasData_iff.mp hs.2
    obtain ⟨_, cells, g2, g3⟩ := hi.no_dangling t o b h1 h2
    refine ⟨_, by simp [step, obj, h1, ptr, h2, read_live g2 g3, bind, Except.bind]; rfl, ?_⟩
    exact inv_allocInto (inv_clear hi s) _ _ _ true (by simp [RObj.size] at g3 ⊢; omega)
  | moveCtor s t =>
    simp only [inScope, Bool.and_eq_true] at hs
    obtain ⟨o, h1⟩ := occupied_iff.mp hs.2
    have hn := not_occupied_iff.mp hs.1
    have hne : t ≠ s := by intro e; subst e; rw [hn] at h1; cases h1
    exact ⟨_, by simp [step, obj, h1, bind, Except.bind], inv_transfer (inv_clear hi s) hne h1⟩
  | copyAssign s t =>
    simp only [inScope, Bool.and_eq_true] at hs
    obtain ⟨me, h0⟩ := occupied_iff.mp hs.1
    obtain ⟨o, b, h1, h2⟩ := hasData_iff.mp hs.2
    by_cases e : s = t
    · exact ⟨h, by simp [step, e], hi⟩
    · obtain ⟨h1', r1, r2, r3, r4, r5, r6⟩ := inv_release hi h0
      have ht : (h1'.setSlot s none).slots t = some o := by
        rw [setSlot_ne _ _ (Ne.symm e), r3]; exact h1
      obtain ⟨_, cells, g2, g3⟩ := r2.no_dangling t o b ht h2
      simp only [setSlot_bufs] at g2
      refine ⟨_, by simp [step, e, obj, h0, h1, ptr, h2, r1, read_live g2 g3, bind, Except.bind]; rfl, ?_⟩
      exact inv_allocInto r2 _ _ _ _ (by simp [RObj.size] at g3 ⊢; omega)
  | moveAssign s t =>
    simp only [inScope, Bool.and_eq_true] at hs
    obtain ⟨me, h0⟩ := occupied_iff.mp hs.1
    obtain ⟨o, h1⟩ := occupied_iff.mp hs.2
    by_cases e : s = t
    · exact ⟨h, by simp [step, e], hi⟩
    · obtain ⟨h1', r1, r2, r3, r4, r5, r6⟩ := inv_release hi h0
      have ht : h1'.slots t = some o := by rw [r3]; exact h1
      exact ⟨_, by simp [step, e, obj, h0, h1, r1, bind, Except.bind],
        inv_transfer r2 (Ne.symm e) ht⟩
  | write s r c v =>
    simp only [inScope] at hs
    cases h0 : h.slots s with
    | none => simp [h0] at hs
    | some o =>
      simp only [h0, Bool.and_eq_true, decide_eq_true_eq, Option.isSome_iff_exists] at hs
      obtain ⟨⟨⟨b, h2⟩, hr⟩, hc⟩ := hs
      obtain ⟨_, cells, g2, g3⟩ := hi.no_dangling s o b h0 h2
      have hlt : r * o.cols + c < cells.length := index_lt hr hc g3
      exact ⟨_, by simp [step, obj, h0, ptr, h2, poke_live v g2 hlt, bind, Except.bind]; rfl,
        inv_poke hi v g2⟩
  | destroy s =>
    simp only [inScope] at hs
    obtain ⟨o, h0⟩ := occupied_iff.mp hs
    obtain ⟨h1', r1, r2, _⟩ := inv_release hi h0
    exact ⟨_, by simp [step, obj, h0, r1, bind, Except.bind], r2⟩
  | extWrite e i v =>
    simp only [inScope, Bool.and_eq_true, decide_eq_true_eq] at hs
    obtain ⟨cells, hc⟩ := hi.ext_live e hs.1
    have hl : i < cells.length := by simpa [extLen, hc] using hs.2
    exact ⟨_, by simp only [step]; exact poke_live v hc hl, inv_poke hi v hc⟩
  | mapInPlace s f =>
    simp only [inScope] at hs
    obtain ⟨o, b, h1, h2⟩ := hasData_iff.mp hs
    obtain ⟨_, cells, g2, g3⟩ := hi.no_dangling s o b h1 h2
    have hl : ((cells.take o.size).map f).length ≤ cells.length := by simp; omega
    exact ⟨_, by simp only [step, obj, h1, ptr, h2, read_live g2 g3, bind, Except.bind]; exact store_live g2 hl,
      inv_store hi g2 hl⟩
  | zipInPlace s t f =>
    simp only [inScope, Bool.and_eq_true] at hs
    obtain ⟨o, b, h1, h2⟩ := hasData_iff.mp hs.1
    obtain ⟨o2, b2, h3, h4⟩ := hasData_iff.mp hs.2
    by_cases hsh : o.cols ≠ o2.cols ∨ o.rows ≠ o2.rows
    · exact ⟨h, by simp only [step, obj, h1, h3, bind, Except.bind, hsh, if_true], hi⟩
    · obtain ⟨_, cells, g2, g3⟩ := hi.no_dangling s o b h1 h2
      obtain ⟨_, cells2, k2, k3⟩ := hi.no_dangling t o2 b2 h3 h4
      have hsz : o.size = o2.size := by
        have : o.cols = o2.cols ∧ o.rows = o2.rows := by omega
        simp [RObj.size, this.1, this.2]
      have k3' : o.size ≤ cells2.length := by omega
      have hl : (List.zipWith f (cells.take o.size) (cells2.take o.size)).length ≤ cells.length := by
        simp; omega
      exact ⟨_, by simp only [step, obj, h1, h3, ptr, h2, h4, read_live g2 g3, read_live k2 k3', bind,
          Except.bind, hsh, if_false]; exact store_live g2 hl,
        inv_store hi g2 hl⟩
  | mapNew d a f =>
    simp only [inScope, Bool.and_eq_true] at hs
    obtain ⟨o, b, h1, h2⟩ := hasData_iff.mp hs.2
    obtain ⟨_, cells, g2, g3⟩ := hi.no_dangling a o b h1 h2
    refine ⟨_, by simp [step, obj, h1, ptr, h2, read_live g2 g3, bind, Except.bind]; rfl, ?_⟩
    exact inv_allocInto (inv_clear hi d) _ _ _ true (by simp [RObj.size] at g3 ⊢; omega)
  | zipNew d a b f =>
    simp only [inScope, Bool.and_eq_true] at hs
    obtain ⟨o, p, h1, h2⟩ := hasData_iff.mp hs.1.2
    obtain ⟨o2, p2, h3, h4⟩ := hasData_iff.mp hs.2
    by_cases hsh : o.cols ≠ o2.cols ∨ o.rows ≠ o2.rows
    · exact ⟨h, by simp only [step, obj, h1, h3, bind, Except.bind, hsh, if_true], hi⟩
    · obtain ⟨_, cells, g2, g3⟩ := hi.no_dangling a o p h1 h2
      obtain ⟨_, cells2, k2, k3⟩ := hi.no_dangling b o2 p2 h3 h4
      have hsz : o.size = o2.size := by
        have : o.cols = o2.cols ∧ o.rows = o2.rows := by omega
        simp [RObj.size, this.1, this.2]
      have k3' : o.size ≤ cells2.length := by omega
      refine ⟨_, by simp only [step, obj, h1, h3, ptr, h2, h4, read_live g2 g3, read_live k2 k3', bind,
          Except.bind, hsh, if_false]; rfl, ?_⟩
      exact inv_allocInto (inv_clear hi d) _ _ _ true (by simp [RObj.size] at g3 k3' ⊢; omega)
  | powNew d a f =>
    simp only [inScope, Bool.and_eq_true] at hs
    obtain ⟨o, b, h1, h2⟩ := hasData_iff.mp hs.2
    obtain ⟨_, cells, g2, g3⟩ := hi.no_dangling a o b h1 h2
    have hi1 : Inv (h.allocInto d o.rows o.cols (cells.take o.size) true) :=
      inv_allocInto (inv_clear hi d) _ _ _ true (by simp [RObj.size] at g3 ⊢; omega)
    have hb1 : (h.allocInto d o.rows o.cols (cells.take o.size) true).bufs h.next = .live (cells.take o.size) := by
      simp [allocInto]
    have hl : ((cells.take o.size).map f).length ≤ (cells.take o.size).length := by simp
    exact ⟨_, by simp only [step, obj, h1, ptr, h2, read_live g2 g3, bind, Except.bind]; exact store_live hb1 hl,
      inv_store hi1 hb1 hl⟩

/-- The initial state satisfies the invariant. -/
theorem inv_init (exts : List (List α)) : Inv (init exts) := by
  refine ⟨Nat.le_refl _, ?_, ?_, ?_, ?_⟩
  · intro b hb
    simp only [init] at hb ⊢
    rw [List.getElem?_eq_none hb]
  · intro e he
    simp only [init] at he ⊢
    rw [List.getElem?_eq_getElem he]; exact ⟨_, rfl⟩
  · intro s o b h1; simp [init] at h1
  · intro s o b h1; simp [init] at h1

/-- A run from an invariant state ends in an invariant state or stops at an out-of-scope call;
    no other fault is possible. -/
theorem run_ok {h : Heap α} (hi : Inv h) (ops : List (HOp α)) :
    (∃ h', h.run ops = .ok h' ∧ Inv h') ∨ h.run ops = .error .illScoped := by
  induction ops generalizing h with
  | nil => exact .inl ⟨h, rfl, hi⟩
  | cons op ops ih =>
    simp only [run]
    by_cases hs : h.inScope op = true
    · obtain ⟨h', e1, i1⟩ := step_ok hi op hs
      simp only [hs, if_true, e1]
      exact ih i1
    · simp [hs]

end Heap
end Pops
