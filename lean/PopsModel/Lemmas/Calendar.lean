import PopsModel.Lemmas.Scheduler
import PopsModel.Model.DatePred
namespace Pops
open Date

theorem subDay_addDay (t : Date) (hv : t.Valid) : t.addDay.subtractDay = t := by
  obtain ⟨m1, m12, d1, dd⟩ := hv
  cases t with | mk y m d =>
  simp only at m1 m12 d1 dd
  unfold Date.addDay
  simp only []
  split
  · have hd : d = dim (isLeap y) m := by omega
    split
    · have : m = 12 := by omega
      subst this
      simp [Date.subtractDay, hd]
    · have h3 : ¬ (m + 1 - 1 = 0) := by omega
      have h4 : m + 1 - 1 = m := by omega
      have h5 : ¬ m = 0 := by omega
      simp [Date.subtractDay, h4, h5, hd]
  · simp [Date.subtractDay]
    intro h0; omega

/-- No valid date lies strictly between `t` and `addDay t`. -/
theorem lt_addDay_iff (x t : Date) (hx : x.Valid) (hv : t.Valid) :
    x.ord < t.addDay.ord ↔ x.ord ≤ t.ord := by
  have := lt_iff_le_subDay x t.addDay hx (addDay_spec t hv).1
  rw [subDay_addDay t hv] at this
  exact this

theorem stepWF_iff (st : Step) : stepWF st = true ↔ st.s.Valid ∧ st.e.Valid ∧ st.s.ord ≤ st.e.ord := by
  simp only [stepWF, Bool.and_eq_true, decide_eq_true_eq]
  constructor
  · rintro ⟨⟨a, b⟩, c⟩; exact ⟨a, b, (le_iff_ord a.bounded b.bounded).mp c⟩
  · rintro ⟨a, b, c⟩; exact ⟨⟨a, b⟩, (le_iff_ord a.bounded b.bounded).mpr c⟩

theorem contains_iff_ord (st : Step) (x : Date) (hx : x.Valid) (hs : st.s.Valid) (he : st.e.Valid) :
    st.contains x = true ↔ st.s.ord ≤ x.ord ∧ x.ord ≤ st.e.ord := by
  simp only [Step.contains, Bool.and_eq_true]
  rw [ge_iff_ord hx.bounded hs.bounded, le_iff_ord hx.bounded he.bounded]

/-- In a well-formed chain every later step starts after the head's end. -/
theorem chain_sorted (a : Step) (rest : List Step)
    (hwf : (a :: rest).all stepWF = true) (hc : chainOK (a :: rest) = true) :
    ∀ st ∈ rest, a.e.ord < st.s.ord := by
  induction rest generalizing a with
  | nil => intro st h; cases h
  | cons b rest ih =>
    simp only [List.all_cons, Bool.and_eq_true] at hwf
    obtain ⟨ha, hb, hr⟩ := hwf
    simp only [chainOK, Bool.and_eq_true, beq_iff_eq] at hc
    obtain ⟨hbs, hc'⟩ := hc
    obtain ⟨as_, ae, ao⟩ := (stepWF_iff a).mp ha
    obtain ⟨bs, be, bo⟩ := (stepWF_iff b).mp hb
    have h1 : a.e.ord < b.s.ord := by rw [hbs]; exact (addDay_spec _ ae).2
    intro st hst
    rcases List.mem_cons.mp hst with rfl | hmem
    · exact h1
    · have := ih b (by simp [hb, hr]) hc' st hmem
      omega

theorem chainOK_tail (a : Step) (rest : List Step) (h : chainOK (a :: rest) = true) :
    chainOK rest = true := by
  cases rest with
  | nil => rfl
  | cons b r => simp only [chainOK, Bool.and_eq_true] at h; exact h.2

/-- Any two steps of a well-formed chain are ordered: the earlier ends before the later starts. -/
theorem chain_pairwise (L : List Step) (hwf : L.all stepWF = true) (hc : chainOK L = true)
    (j k : Nat) (hjk : j < k) (st st' : Step) (h1 : L[j]? = some st) (h2 : L[k]? = some st') :
    st.e.ord < st'.s.ord := by
  induction L generalizing j k with
  | nil => simp at h1
  | cons a rest ih =>
    have hwf' : rest.all stepWF = true := by
      simp only [List.all_cons, Bool.and_eq_true] at hwf; exact hwf.2
    cases k with
    | zero => omega
    | succ k' =>
      simp only [List.getElem?_cons_succ] at h2
      cases j with
      | zero =>
        simp only [List.getElem?_cons_zero, Option.some.injEq] at h1
        exact h1 ▸ chain_sorted a rest hwf hc st' (List.mem_of_getElem? h2)
      | succ j' =>
        simp only [List.getElem?_cons_succ] at h1
        exact ih hwf' (chainOK_tail a rest hc) j' k' (by omega) h1 h2

/-- Every valid date between the first start and the last end is in some step. -/
theorem chain_cover (L : List Step) (hwf : L.all stepWF = true) (hc : chainOK L = true)
    (x : Date) (hx : x.Valid) (a b : Step) (ha : L.head? = some a) (hb : L.getLast? = some b)
    (h1 : a.s.ord ≤ x.ord) (h2 : x.ord ≤ b.e.ord) :
    ∃ (k : Nat) (st : Step), L[k]? = some st ∧ st.contains x = true := by
  induction L generalizing a with
  | nil => simp at ha
  | cons a0 rest ih =>
    simp only [List.head?_cons, Option.some.injEq] at ha
    subst ha
    simp only [List.all_cons, Bool.and_eq_true] at hwf
    obtain ⟨hwa, hwr⟩ := hwf
    obtain ⟨as_, ae, ao⟩ := (stepWF_iff a0).mp hwa
    by_cases hxe : x.ord ≤ a0.e.ord
    · exact ⟨0, a0, rfl, (contains_iff_ord a0 x hx as_ ae).mpr ⟨h1, hxe⟩⟩
    · cases rest with
      | nil =>
        simp only [List.getLast?_singleton, Option.some.injEq] at hb
        subst hb; omega
      | cons b0 rest' =>
        simp only [chainOK, Bool.and_eq_true, beq_iff_eq] at hc
        obtain ⟨hbs, hc'⟩ := hc
        have hge : b0.s.ord ≤ x.ord := by
          have := lt_addDay_iff x a0.e hx ae
          rw [hbs]; omega
        rw [List.getLast?_cons_cons] at hb
        obtain ⟨k, st, hk, hcon⟩ := ih hwr hc' b0 (by simp) hb hge
        exact ⟨k + 1, st, by rw [List.getElem?_cons_succ]; exact hk, hcon⟩

/-- `schedule_action_date` returns the first containing step, or rejects when none contains the date. -/
theorem lookup_first (x : Date) (L : List Step) (i : Nat) :
    (∀ k, scheduleActionDateAux x L i = .ok k →
        ∃ (j : Nat) (st : Step), k = i + j ∧ L[j]? = some st ∧ st.contains x = true) ∧
    (∀ e, scheduleActionDateAux x L i = .error e →
        e = .invalid_argument ∧ ∀ st ∈ L, st.contains x = false) ∧
    (∀ (j : Nat) (st : Step), L[j]? = some st → st.contains x = true →
        ∃ j', j' ≤ j ∧ scheduleActionDateAux x L i = .ok (i + j')) := by
  induction L generalizing i with
  | nil =>
    refine ⟨?_, ?_, ?_⟩
    · intro k h; simp [scheduleActionDateAux] at h
    · intro e h; simp only [scheduleActionDateAux, Except.error.injEq] at h; simp [h]
    · intro j st h; simp at h
  | cons a rest ih =>
    obtain ⟨ih1, ih2, ih3⟩ := ih (i + 1)
    by_cases hc : a.contains x = true
    · have hc' : (x.ge a.s && x.le a.e) = true := hc
      refine ⟨?_, ?_, ?_⟩
      · intro k h
        simp only [scheduleActionDateAux, hc', if_true, Except.ok.injEq] at h
        exact ⟨0, a, by omega, by simp, hc⟩
      · intro e h; simp [scheduleActionDateAux, hc'] at h
      · intro j st _ _
        exact ⟨0, by omega, by simp [scheduleActionDateAux, hc']⟩
    · have hc' : (x.ge a.s && x.le a.e) = false := by
        simpa [Step.contains] using hc
      have hstep : scheduleActionDateAux x (a :: rest) i = scheduleActionDateAux x rest (i + 1) := by
        simp [scheduleActionDateAux, hc']
      refine ⟨?_, ?_, ?_⟩
      · intro k h
        rw [hstep] at h
        obtain ⟨j, st, e1, e2, e3⟩ := ih1 k h
        exact ⟨j + 1, st, by omega, by simpa using e2, e3⟩
      · intro e h
        rw [hstep] at h
        obtain ⟨e1, e2⟩ := ih2 e h
        refine ⟨e1, ?_⟩
        intro st hst
        rcases List.mem_cons.mp hst with rfl | hm
        · simpa using hc
        · exact e2 st hm
      · intro j st hj hcon
        cases j with
        | zero =>
          simp only [List.getElem?_cons_zero, Option.some.injEq] at hj
          subst hj; exact absurd hcon hc
        | succ j0 =>
          simp only [List.getElem?_cons_succ] at hj
          obtain ⟨j', hle, heq⟩ := ih3 j0 st hj hcon
          exact ⟨j' + 1, by omega, by rw [hstep, heq]; congr 1; omega⟩

/-- The loop specification implies the calendar predicates of C07. -/
theorem Tiles.calendar {nx : Date → Date} {end_ date : Date} {L : List Step}
    (hg : GoodSucc nx) (h : Tiles nx end_ date L) (hv : date.Valid) :
    L.all stepWF = true ∧ chainOK L = true ∧ L.all (fun st => st.s.le end_) = true ∧
    (∀ a, L.head? = some a → a.s = date) ∧ (L ≠ [] → lastEndOK end_ L = true) ∧
    (∀ st ∈ L, st.e.addDay = nx st.s) := by
  induction h with
  | nil hle => simp [chainOK]
  | @cons date rest hle ht ih =>
    obtain ⟨v1, o1⟩ := hg date hv
    obtain ⟨i1, i2, i3, i4, i5, i6⟩ := ih v1
    have v2 := subDay_valid _ v1
    have hwf : stepWF ⟨date, (nx date).subtractDay⟩ = true := by
      rw [stepWF_iff]; refine ⟨hv, v2, ?_⟩
      exact (lt_iff_le_subDay date (nx date) hv v1).mp o1
    have hadd : (nx date).subtractDay.addDay = nx date := addDay_subDay _ v1
    refine ⟨by simp [hwf, i1], ?_, by simp [hle, i3], by simp, ?_, ?_⟩
    · cases ht with
      | nil _ => simp [chainOK]
      | cons hle' ht' =>
        simp only [chainOK, Bool.and_eq_true, beq_iff_eq]
        exact ⟨hadd.symm, i2⟩
    · intro _
      cases ht with
      | nil hle' =>
        simp only [lastEndOK, hadd]
        simpa [Date.le] using hle'
      | cons hle' ht' =>
        simp only [lastEndOK]
        exact i5 (by simp)
    · intro st hst
      rcases List.mem_cons.mp hst with rfl | hm
      · exact hadd
      · exact i6 st hm

end Pops
