import PopsModel.Lemmas.Calendar
namespace Pops
open Date

theorem month_cases (m : Int) (h1 : 1 ≤ m) (h2 : m ≤ 12) :
    m = 1 ∨ m = 2 ∨ m = 3 ∨ m = 4 ∨ m = 5 ∨ m = 6 ∨ m = 7 ∨ m = 8 ∨ m = 9 ∨ m = 10 ∨ m = 11 ∨ m = 12 := by
  omega

theorem cum_next (l : Bool) (m : Int) (h1 : 1 ≤ m) (h2 : m ≤ 11) :
    cumDays l (m + 1) = cumDays l m + dim l m := by
  rcases month_cases m h1 (by omega) with h|h|h|h|h|h|h|h|h|h|h|h <;> subst h <;> cases l <;>
    simp [cumDays, dim] at * 

theorem cum_le12 (l : Bool) (m : Int) (h1 : 1 ≤ m) (h2 : m ≤ 12) : cumDays l m ≤ cumDays l 12 := by
  rcases month_cases m h1 h2 with h|h|h|h|h|h|h|h|h|h|h|h <;> subst h <;> cases l <;>
    simp [cumDays]

theorem cum_12 (l : Bool) : cumDays l 12 = 334 + (if l then 1 else 0) := by
  cases l <;> simp [cumDays]

theorem cum_1 (l : Bool) : cumDays l 1 = 0 := by simp [cumDays]

theorem yearLen_eq (y : Int) : yearLen y = 365 + (if isLeap y then 1 else 0) := by
  unfold yearLen; cases isLeap y <;> simp

/-- The year rule of `increased_by_days`, in day-of-year terms. -/
theorem incDays_doy (t : Date) (n : Int) (hv : t.Valid) (h1 : 1 ≤ n) (h28 : n ≤ 28) :
    let r := t.increasedByDays n
    let lim := yearLen t.y - n - (if isLeap t.y then 1 else 0)
    (t.doy + n > lim → r = ⟨t.y + 1, 1, 1⟩) ∧
    (t.doy + n ≤ lim → r.y = t.y ∧ cumDays (isLeap t.y) r.m + r.d = t.doy + n) := by
  obtain ⟨m1, m12, d1, dd⟩ := hv
  have hge := dim_ge (isLeap t.y) t.m m1 m12
  have hle := dim_le (isLeap t.y) t.m
  have h12 := dim_12 (isLeap t.y)
  have c12 := cum_12 (isLeap t.y)
  have cle := cum_le12 (isLeap t.y) t.m m1 m12
  have hy := yearLen_eq t.y
  have cnext : t.m ≤ 11 → cumDays (isLeap t.y) (t.m + 1) = cumDays (isLeap t.y) t.m + dim (isLeap t.y) t.m :=
    fun h => cum_next _ _ m1 h
  have cle2 : t.m ≤ 11 → cumDays (isLeap t.y) (t.m + 1) ≤ cumDays (isLeap t.y) 12 :=
    fun h => cum_le12 _ _ (by omega) (by omega)
  have cle3 : t.m ≤ 10 → cumDays (isLeap t.y) (t.m + 1) + 28 ≤ cumDays (isLeap t.y) 12 := by
    intro h
    have a := cum_next (isLeap t.y) (t.m + 1) (by omega) (by omega)
    have b := cum_le12 (isLeap t.y) (t.m + 1 + 1) (by omega) (by omega)
    have c := dim_ge (isLeap t.y) (t.m + 1) (by omega) (by omega)
    omega
  simp only [Date.increasedByDays, Date.rollDays, Date.doy, hy]
  generalize isLeap t.y = l at *
  by_cases hm : t.m = 12
  · rw [hm] at dd hge hle cle ⊢
    simp only [h12] at *
    cases l <;> simp at * <;> (repeat' split) <;> simp_all <;> omega
  · have hm11 : t.m ≤ 11 := by omega
    have cn := cnext hm11
    have cl := cle2 hm11
    cases l <;> simp [hm] at * <;> (repeat' split) <;> simp_all <;> omega

theorem incDays_dayStepOK (t : Date) (n : Int) (hv : t.Valid) (h1 : 1 ≤ n) (h28 : n ≤ 28) :
    dayStepOK n t (t.increasedByDays n) = true := by
  obtain ⟨a, b⟩ := incDays_doy t n hv h1 h28
  unfold dayStepOK
  by_cases h : t.doy + n > yearLen t.y - n - (if isLeap t.y then 1 else 0)
  · simp only [h, if_true, a h, beq_self_eq_true]
  · obtain ⟨e1, e2⟩ := b (by omega)
    simp only [h, if_false, Bool.and_eq_true, beq_iff_eq]
    refine ⟨e1, ?_⟩
    simp only [Date.doy, e1]; exact e2

end Pops
