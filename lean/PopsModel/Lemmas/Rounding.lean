/-
  Facts about `rfloor`, `rceil`, `lround` on exact rationals used by the host-pool proofs.
-/
import PopsModel.Model.Basic
namespace Pops

theorem intCast_nonneg {n : Int} (h : 0 ≤ n) : (0 : Rat) ≤ (n : Rat) := by
  have := Rat.intCast_le_intCast.mpr h
  simpa using this

theorem rfloor_nonneg {q : Rat} (h : 0 ≤ q) : 0 ≤ rfloor q := by
  unfold rfloor; exact Rat.le_floor_iff.mpr (by simpa using h)

theorem rfloor_le_of_le {q : Rat} {n : Int} (h : q ≤ (n : Rat)) : rfloor q ≤ n := by
  unfold rfloor
  have := Rat.floor_monotone h
  rwa [Rat.floor_intCast] at this

theorem rceil_nonneg {q : Rat} (h : 0 ≤ q) : 0 ≤ rceil q := by
  unfold rceil
  rw [Rat.ceil_eq_neg_floor_neg]
  have h1 : (-q).floor < 1 := Rat.floor_lt_iff.mpr (by grind)
  omega

theorem rceil_le_of_le {q : Rat} {n : Int} (h : q ≤ (n : Rat)) : rceil q ≤ n := by
  unfold rceil; exact Rat.ceil_le_iff.mpr h

theorem rceil_int (n : Int) : rceil (n : Rat) = n := by unfold rceil; exact Rat.ceil_intCast n
theorem rfloor_int (n : Int) : rfloor (n : Rat) = n := by unfold rfloor; exact Rat.floor_intCast n

theorem lround_nonneg {q : Rat} (h : 0 ≤ q) : 0 ≤ lround q := by
  unfold lround; simp only [h, if_true]
  exact Rat.le_floor_iff.mpr (by grind)

theorem lround_le_of_le {q : Rat} {n : Int} (h0 : 0 ≤ q) (h : q ≤ (n : Rat)) : lround q ≤ n := by
  unfold lround; simp only [h0, if_true]
  have h1 : (q + 1/2).floor < n + 1 := Rat.floor_lt_iff.mpr (by grind)
  omega

theorem lround_int (n : Int) (h : 0 ≤ n) : lround (n : Rat) = n := by
  have h0 : (0 : Rat) ≤ (n : Rat) := intCast_nonneg h
  have a := lround_le_of_le h0 (Rat.le_refl (a := (n : Rat)))
  unfold lround at *; simp only [h0, if_true] at *
  have : n ≤ ((n : Rat) + 1/2).floor := Rat.le_floor_iff.mpr (by grind)
  omega

/-- A share `c * r` of a non-negative count with `r` in [0,1] lies in `[0, c]`. -/
theorem share_bounds {c : Int} {r : Rat} (hc : 0 ≤ c) (h0 : 0 ≤ r) (h1 : r ≤ 1) :
    0 ≤ (c : Rat) * r ∧ (c : Rat) * r ≤ (c : Rat) := by
  have hc' : (0 : Rat) ≤ (c : Rat) := intCast_nonneg hc
  refine ⟨Rat.mul_nonneg hc' h0, ?_⟩
  have := Rat.mul_le_mul_of_nonneg_left h1 hc'
  grind

theorem rceil_share {c : Int} {r : Rat} (hc : 0 ≤ c) (h0 : 0 ≤ r) (h1 : r ≤ 1) :
    0 ≤ rceil ((c : Rat) * r) ∧ rceil ((c : Rat) * r) ≤ c := by
  obtain ⟨a, b⟩ := share_bounds hc h0 h1
  exact ⟨rceil_nonneg a, rceil_le_of_le b⟩

theorem rfloor_share {c : Int} {r : Rat} (hc : 0 ≤ c) (h0 : 0 ≤ r) (h1 : r ≤ 1) :
    0 ≤ rfloor ((c : Rat) * r) ∧ rfloor ((c : Rat) * r) ≤ c := by
  obtain ⟨a, b⟩ := share_bounds hc h0 h1
  exact ⟨rfloor_nonneg a, rfloor_le_of_le b⟩

theorem lround_share {c : Int} {r : Rat} (hc : 0 ≤ c) (h0 : 0 ≤ r) (h1 : r ≤ 1) :
    0 ≤ lround ((c : Rat) * r) ∧ lround ((c : Rat) * r) ≤ c := by
  obtain ⟨a, b⟩ := share_bounds hc h0 h1
  exact ⟨lround_nonneg a, lround_le_of_le a b⟩

theorem share_zero (c : Int) : (c : Rat) * 0 = 0 := Rat.mul_zero _
theorem share_one (c : Int) : (c : Rat) * 1 = (c : Rat) := Rat.mul_one _

end Pops
