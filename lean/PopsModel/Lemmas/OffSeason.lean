/-
  Helper lemmas for C05 "off-season frame": in a model step that is not a spread step, every
  exposed cohort of every cell can only shrink, the cohort vector keeps its length and infected
  does not grow.
-/
import PopsModel.Model.RunStep
import PopsModel.Lemmas.HostInv3
import PopsModel.Lemmas.Actions
namespace Pops

/-! ### pointwise relation between two lists of the same length -/

/-- `Pw R a b`: `a` and `b` have the same length and `R a[k] b[k]` at every position. -/
inductive Pw {α : Type} (R : α → α → Prop) : List α → List α → Prop where
  | nil : Pw R [] []
  | cons {x y : α} {xs ys : List α} : R x y → Pw R xs ys → Pw R (x :: xs) (y :: ys)

theorem Pw.refl {α : Type} {R : α → α → Prop} (hr : ∀ x, R x x) : ∀ l : List α, Pw R l l
  | [] => Pw.nil
  | x :: xs => Pw.cons (hr x) (Pw.refl hr xs)

theorem Pw.trans {α : Type} {R : α → α → Prop} (ht : ∀ x y z, R x y → R y z → R x z)
    {a b c : List α} (h1 : Pw R a b) (h2 : Pw R b c) : Pw R a c := by
  induction h1 generalizing c with
  | nil => cases h2; exact Pw.nil
  | cons hxy _ ih =>
    cases h2 with
    | cons hyz h2' => exact Pw.cons (ht _ _ _ hxy hyz) (ih h2')

theorem Pw.length_eq {α : Type} {R : α → α → Prop} {a b : List α} (h : Pw R a b) :
    b.length = a.length := by
  induction h with
  | nil => rfl
  | cons _ _ ih => simp [ih]

/-- Replacing one element by a related one. -/
theorem Pw.set {α : Type} {R : α → α → Prop} (hr : ∀ x, R x x) {l : List α} {k : Nat} {c c' : α}
    (hk : l[k]? = some c) (hc : R c c') : Pw R l (l.set k c') := by
  induction l generalizing k with
  | nil => simp at hk
  | cons x xs ih =>
    cases k with
    | zero =>
      simp only [List.getElem?_cons_zero, Option.some.injEq] at hk; subst hk
      simp only [List.set_cons_zero]
      exact Pw.cons hc (Pw.refl hr xs)
    | succ k =>
      simp only [List.getElem?_cons_succ] at hk
      simp only [List.set_cons_succ]
      exact Pw.cons (hr x) (ih hk)

/-- The executable form used by `exposedFrozen` and `offSeasonFrame`. -/
theorem pw_iff_bool {α : Type} (R : α → α → Prop) (r : α → α → Bool)
    (hr : ∀ x y, r x y = true ↔ R x y) (a b : List α) :
    (decide (b.length = a.length) && (List.zip a b).all (fun p => r p.1 p.2)) = true ↔ Pw R a b := by
  induction a generalizing b with
  | nil =>
    cases b with
    | nil => simp only [List.length_nil, decide_true, List.zip_nil_left, List.all_nil, Bool.and_self,
        true_iff]; exact Pw.nil
    | cons y ys =>
      constructor
      · intro h; simp at h
      · intro h; cases h
  | cons x xs ih =>
    cases b with
    | nil =>
      constructor
      · intro h; simp at h
      · intro h; cases h
    | cons y ys =>
      have := ih ys
      simp only [Bool.and_eq_true, decide_eq_true_eq] at this
      simp only [List.length_cons, List.zip_cons_cons, List.all_cons, Bool.and_eq_true,
        decide_eq_true_eq, Nat.add_right_cancel_iff]
      constructor
      · intro ⟨h1, h2, h3⟩
        exact Pw.cons ((hr x y).mp h2) (this.mp ⟨h1, h3⟩)
      · intro h
        cases h with
        | cons hxy h' =>
          obtain ⟨a1, a2⟩ := this.mpr h'
          exact ⟨a1, (hr x y).mpr hxy, a2⟩

/-! ### cells: the Prop form of `exposedFrozen` -/

/-- No cohort grows (pointwise, same length). -/
abbrev Shrinks (a b : List Int) : Prop := Pw (fun x y : Int => y ≤ x) a b

theorem Shrinks.refl (a : List Int) : Shrinks a a :=
  Pw.refl (R := fun x y : Int => y ≤ x) (fun x => Int.le_refl x) a

theorem Shrinks.trans {a b c : List Int} (h1 : Shrinks a b) (h2 : Shrinks b c) : Shrinks a c :=
  Pw.trans (R := fun x y : Int => y ≤ x) (fun _ _ _ hxy hyz => Int.le_trans hyz hxy) h1 h2

/-- Taking a pointwise-dominated draw out of the cohorts only shrinks them. -/
theorem Dom.shrinks {a d : List Int} (h : Dom a d) : Shrinks a (subL a d) := by
  induction h with
  | nil => exact Pw.nil
  | cons hxy _ ih =>
    simp only [subL, List.zipWith_cons_cons] at *
    exact Pw.cons (by omega) ih

/-- Exposed cohorts frozen: none grows, the vector keeps its length, infected does not grow. -/
structure Frozen (c c' : Cell) : Prop where
  e : Shrinks c.e c'.e
  i : c'.i ≤ c.i

theorem Frozen.refl (c : Cell) : Frozen c c := ⟨Shrinks.refl _, Int.le_refl _⟩

theorem Frozen.trans {a b c : Cell} (h1 : Frozen a b) (h2 : Frozen b c) : Frozen a c :=
  ⟨h1.e.trans h2.e, Int.le_trans h2.i h1.i⟩

theorem Frozen.of_eq {c c' : Cell} (he : c'.e = c.e) (hi : c'.i ≤ c.i) : Frozen c c' :=
  ⟨by rw [he]; exact Shrinks.refl _, hi⟩

theorem exposedFrozen_iff (c c' : Cell) : exposedFrozen c c' = true ↔ Frozen c c' := by
  have h := pw_iff_bool (fun x y : Int => y ≤ x) (fun x y => decide (y ≤ x))
    (fun x y => by simp only [decide_eq_true_eq]) c.e c'.e
  unfold exposedFrozen
  rw [Bool.and_eq_true, h, decide_eq_true_eq]
  exact ⟨fun ⟨a, b⟩ => ⟨a, b⟩, fun ⟨a, b⟩ => ⟨a, b⟩⟩

theorem exposedFrozen_refl (c : Cell) : exposedFrozen c c = true :=
  (exposedFrozen_iff c c).mpr (Frozen.refl c)

theorem exposedFrozen_trans {a b c : Cell} (h1 : exposedFrozen a b = true)
    (h2 : exposedFrozen b c = true) : exposedFrozen a c = true :=
  (exposedFrozen_iff a c).mpr (((exposedFrozen_iff a b).mp h1).trans ((exposedFrozen_iff b c).mp h2))

/-- Landscapes: the Prop form of `offSeasonFrame`. -/
abbrev FrozenL (l l' : Land) : Prop := Pw Frozen l l'

theorem offSeasonFrame_iff (l l' : Land) : offSeasonFrame l l' = true ↔ FrozenL l l' :=
  pw_iff_bool Frozen exposedFrozen exposedFrozen_iff l l'

theorem FrozenL.refl (l : Land) : FrozenL l l := Pw.refl Frozen.refl l

theorem FrozenL.trans {a b c : Land} (h1 : FrozenL a b) (h2 : FrozenL b c) : FrozenL a c :=
  Pw.trans (R := Frozen) (fun _ _ _ h1 h2 => Frozen.trans h1 h2) h1 h2

/-! ### the operations a step that is not a spread step can generate -/

/-- Operations generated by lethal temperature, survival rate, treatments and mortality. -/
def CellOp.offSeason : CellOp → Bool
  | .simpleTreat _ _ => true
  | .pesticideTreat _ _ => true
  | .pesticideEnd _ => true
  | .survival _ _ _ => true
  | .lethal _ => true
  | .mortality _ _ => true
  | _ => false

def LandOp.offSeason : LandOp → Bool
  | .at _ op => op.offSeason
  | .move _ _ _ _ _ _ => false

/-- Actions whose generators only produce such operations. -/
def ActionKind.offSeason : ActionKind → Bool
  | .spread => false
  | .stepForward => false
  | .overpopulation => false
  | .movement => false
  | _ => true

theorem removeInfected_frozen (c : Cell) (count : Int) (draw : List Int) (hc : 0 ≤ count) :
    Frozen c (c.removeInfected count draw) := by
  unfold Cell.removeInfected
  exact Frozen.of_eq rfl (by carith)

theorem removeExposed_frozen (c : Cell) (count : Int) (draw : List Int)
    (hv : count > 0 → Dom c.e draw) : Frozen c (c.removeExposed count draw) := by
  unfold Cell.removeExposed
  refine ⟨?_, Int.le_refl _⟩
  dsimp only
  split
  · rename_i hp; exact (hv hp).shrinks
  · exact Shrinks.refl _

theorem completelyRemove_frozen {c c' : Cell} {sR iR : Int} {eR mR : List Int} (hE : Dom c.e eR)
    (h : c.completelyRemove sR eR iR mR = .ok c') : Frozen c c' := by
  unfold Cell.completelyRemove at h
  have hc1 : (if sR > 0 then { c with s := c.s - sR } else c).i = c.i ∧
      (if sR > 0 then { c with s := c.s - sR } else c).e = c.e := by
    split <;> exact ⟨rfl, rfl⟩
  generalize (if sR > 0 then { c with s := c.s - sR } else c) = c1 at h hc1
  simp only [Cell.resetTotal] at h
  obtain ⟨hc1i, hc1e⟩ := hc1
  split at h; · cases h
  split at h
  · injection h with h; subst h
    refine ⟨?_, ?_⟩
    · dsimp only; rw [hc1e]; exact hE.shrinks
    · dsimp only; omega
  · split at h; · cases h
    split at h; · cases h
    injection h with h; subst h
    refine ⟨?_, ?_⟩
    · dsimp only; rw [hc1e]; exact hE.shrinks
    · dsimp only; omega

theorem makeResistant_frozen {c c' : Cell} {sR iR : Int} {eR mR : List Int} (hE : Dom c.e eR)
    (hI : 0 ≤ iR) (h : c.makeResistant sR eR iR mR = .ok c') : Frozen c c' := by
  unfold Cell.makeResistant at h
  split at h; · cases h
  split at h; · cases h
  split at h; · cases h
  injection h with h; subst h
  exact ⟨hE.shrinks, by carith⟩

/-- Route (2): every operation of a non-spread step, in its domain on a non-negative cell, leaves
    the exposed cohorts frozen. -/
theorem cellOp_frozen (op : CellOp) (c c' : Cell) (hop : op.offSeason = true) (hd : op.inDomain c)
    (hn : c.nonNeg = true) (h : op.apply c = .ok c') : exposedFrozen c c' = true := by
  rw [exposedFrozen_iff]
  have nn := (nonNeg_iff c).mp hn
  cases op with
  | add mt => cases hop
  | dispTo mt env sto pEst u => cases hop
  | pestsFrom k => cases hop
  | pestsTo k => cases hop
  | stepForward mt l s => cases hop
  | simpleTreat coef app =>
    exact completelyRemove_frozen (dom_map nn.e (rceil_treated hd.1 hd.2 app)) h
  | pesticideTreat coef app =>
    exact makeResistant_frozen (dom_map nn.e (rfloor_treated hd.1 hd.2 app))
      (rfloor_treated hd.1 hd.2 app c.i nn.i).1 h
  | pesticideEnd coef =>
    simp only [CellOp.apply] at h; injection h with h; subst h
    unfold Cell.pesticideEnd
    split
    · exact Frozen.of_eq rfl (Int.le_refl _)
    · exact Frozen.refl c
  | survival ratio dI dE =>
    simp only [CellOp.apply] at h; injection h with h; subst h
    obtain ⟨h0, h1, hv⟩ := hd
    split
    · rename_i hlt
      unfold Cell.removeByRatio
      have f1 := removeInfected_frozen c (c.ratioRemovedInfected ratio) dI
        (ratioRemovedInfected_bounds c nn.i h0 h1).1
      have f2 := removeExposed_frozen (c.removeInfected (c.ratioRemovedInfected ratio) dI)
        ((c.removeInfected (c.ratioRemovedInfected ratio) dI).ratioRemovedExposed ratio) dE
        (fun _ => (hv hlt).2.dom)
      exact f1.trans f2
    · exact Frozen.refl c
  | lethal d =>
    simp only [CellOp.apply] at h; injection h with h; subst h
    exact removeInfected_frozen c c.i d nn.i
  | mortality rate lag =>
    simp only [CellOp.apply] at h
    cases ha : c.applyMortality rate lag with
    | error e => rw [ha] at h; cases h
    | ok c1 =>
      rw [ha] at h
      simp only [Except.map] at h
      injection h with h; subst h
      have hr := applyMortality_rel hd.1 hd.2.1 lag c c1 nn.mort nn.i nn.th ha
      unfold Cell.stepForwardMortality
      have := hr.di; have := hr.dd
      exact Frozen.of_eq hr.e (by carith)

/-! ### landscapes, histories, generators -/

/-- One operation on a landscape: frozen, and consistency is kept (no uniformity needed: the
    operations of a non-spread step act on one cell). -/
theorem landOp_frozen (op : LandOp) (l l' : Land) (hop : op.offSeason = true) (hinv : l.inv)
    (hd : op.inDomain l) (h : op.apply l = .ok l') : FrozenL l l' ∧ l'.inv := by
  cases op with
  | move a b count d dE dM => cases hop
  | «at» k op =>
    simp only [LandOp.apply] at h
    cases hk : l[k]? with
    | none =>
      rw [hk] at h; simp only at h; injection h with h; subst h
      exact ⟨FrozenL.refl l, hinv⟩
    | some c =>
      rw [hk] at h; simp only at h
      cases hc : op.apply c with
      | error e => rw [hc] at h; cases h
      | ok c' =>
        rw [hc] at h; simp only [Except.map] at h; injection h with h; subst h
        have hcl : c ∈ l := List.mem_of_getElem? hk
        have hg : c.Good := (land_inv_iff l).mp hinv c hcl
        have f := cellOp_facts op c c' (hd c hk) hg hc
        have fr := (exposedFrozen_iff c c').mp (cellOp_frozen op c c' hop (hd c hk) hg.nonNeg hc)
        exact ⟨Pw.set Frozen.refl hk fr, Land.inv_set hinv k f.good⟩

theorem history_frozen (ops : List LandOp) (l l' : Land) (hop : ∀ op ∈ ops, op.offSeason = true)
    (hinv : l.inv) (hd : DomainAlong ops l) (h : runOps ops l = .ok l') : FrozenL l l' ∧ l'.inv := by
  induction ops generalizing l with
  | nil =>
    simp only [runOps] at h; injection h with h; subst h; exact ⟨FrozenL.refl l, hinv⟩
  | cons op rest ih =>
    simp only [runOps] at h
    cases h1 : op.apply l with
    | error e => rw [h1] at h; cases h
    | ok l1 =>
      rw [h1] at h
      obtain ⟨f1, i1⟩ := landOp_frozen op l l1 (hop op (by simp)) hinv hd.1 h1
      obtain ⟨f2, i2⟩ := ih l1 (fun o ho => hop o (by simp [ho])) i1 (hd.2 l1 h1) h
      exact ⟨f1.trans f2, i2⟩

/-- Generators that only ever produce operations of a non-spread step. -/
def OffSeasonGen (gen : OpGen) : Prop := ∀ x : Land, ∀ op ∈ gen x, op.offSeason = true

theorem gens_frozen (gens : List OpGen) (l l' : Land) (hop : ∀ gen ∈ gens, OffSeasonGen gen)
    (hinv : l.inv) (hd : GensDomainAlong gens l) (h : runGens gens l = .ok l') :
    FrozenL l l' ∧ l'.inv := by
  induction gens generalizing l with
  | nil =>
    simp only [runGens, Except.ok.injEq] at h
    subst h; exact ⟨FrozenL.refl l, hinv⟩
  | cons gen rest ih =>
    simp only [runGens, bind, Except.bind] at h
    cases h1 : runOps (gen l) l with
    | error e => rw [h1] at h; cases h
    | ok m =>
      rw [h1] at h
      obtain ⟨f1, i1⟩ := history_frozen (gen l) l m (hop gen (by simp) l) hinv hd.1 h1
      obtain ⟨f2, i2⟩ := ih m (fun g hg => hop g (by simp [hg])) i1 (hd.2 m h1) h
      exact ⟨f1.trans f2, i2⟩

/-- The state-independent domain hypothesis of `C01_generators` gives the one along the run. -/
theorem gensDomainAlong_of_forall (gens : List OpGen) (l : Land) (hinv : l.inv) (hu : l.uniform)
    (hd : ∀ gen ∈ gens, ∀ x : Land, x.inv → x.uniform → DomainAlong (gen x) x) :
    GensDomainAlong gens l := by
  induction gens generalizing l with
  | nil => trivial
  | cons gen rest ih =>
    have hdg := hd gen (by simp) l hinv hu
    refine ⟨hdg, fun m h1 => ?_⟩
    obtain ⟨b1, b2⟩ := history_inv (gen l) l m hinv hu hdg h1
    exact ih m b1 b2 (fun g hg => hd g (by simp [hg]))

/-! ### the generators of a step that is not a spread step -/

theorem mem_cellOpsOver {inp : StepInputs} {f : Nat → Nat → Option CellOp} {op : LandOp}
    (h : op ∈ cellOpsOver inp f) : ∃ pos k o, f pos k = some o ∧ op = .at k o := by
  simp only [cellOpsOver, List.mem_filterMap] at h
  obtain ⟨⟨pos, rc⟩, _, h⟩ := h
  simp only [Option.map_eq_some_iff] at h
  obtain ⟨o, ho, rfl⟩ := h
  exact ⟨pos, _, o, ho, rfl⟩

/-- Route (4), per action: lethal temperature, survival rate, treatments, mortality and the
    measurement actions only generate operations of the non-spread kinds. -/
theorem actionGen_offSeason (inp : StepInputs) (step : Nat) (a : ActionKind)
    (ha : a.offSeason = true) : OffSeasonGen (actionGen inp step a) := by
  intro x op hop
  cases a with
  | spread => cases ha
  | stepForward => cases ha
  | overpopulation => cases ha
  | movement => cases ha
  | soilNext => simp only [actionGen] at hop; cases hop
  | spreadRate => simp only [actionGen] at hop; cases hop
  | quarantine => simp only [actionGen] at hop; cases hop
  | lethal =>
    simp only [actionGen] at hop
    obtain ⟨pos, k, o, ho, rfl⟩ := mem_cellOpsOver hop
    split at ho
    · injection ho with ho; subst ho; rfl
    · cases ho
  | survival =>
    simp only [actionGen] at hop
    obtain ⟨pos, k, o, ho, rfl⟩ := mem_cellOpsOver hop
    injection ho with ho; subst ho; rfl
  | treatments =>
    simp only [actionGen, List.mem_flatMap] at hop
    obtain ⟨⟨finish, pest, app, coefs⟩, _, hop⟩ := hop
    obtain ⟨pos, k, o, ho, rfl⟩ := mem_cellOpsOver hop
    injection ho with ho; subst ho
    simp only [LandOp.offSeason]
    split
    · rfl
    · split <;> rfl
  | mortality =>
    simp only [actionGen, List.mem_map] at hop
    obtain ⟨k, _, rfl⟩ := hop
    rfl

/-- Route (4): when the spread schedule is off at `step`, every action that runs is of the
    non-spread kind. -/
theorem runs_offSeason (cfg : StepCfg) (step : Nat) (a : ActionKind)
    (hns : schedAt cfg.spreadSched step = false) (hr : cfg.runs step a = true) :
    a.offSeason = true := by
  cases a <;> first | rfl | (simp only [StepCfg.runs, hns, Bool.false_and] at hr; cases hr)

theorem stepGens_offSeason (cfg : StepCfg) (inp : StepInputs) (step : Nat)
    (hns : schedAt cfg.spreadSched step = false) :
    ∀ gen ∈ stepGens cfg inp step, OffSeasonGen gen := by
  intro gen hg
  simp only [stepGens, List.mem_map] at hg
  obtain ⟨a, ha, rfl⟩ := hg
  have hr : cfg.runs step a.1 = true :=
    (act_plan_iff cfg step a.1).mp (List.mem_map.mpr ⟨a, ha, rfl⟩)
  exact actionGen_offSeason inp step a.1 (runs_offSeason cfg step a.1 hns hr)

/-! ### helpers for stating and instantiating the step theorem -/

/-- A history all of whose operations have a state-independent domain (treatment coefficients,
    mortality rate and lag) is in its domain at every landscape. -/
theorem domainAlong_of_static (ops : List LandOp) (h : ∀ op ∈ ops, ∀ x : Land, op.inDomain x)
    (l : Land) : DomainAlong ops l := by
  induction ops generalizing l with
  | nil => trivial
  | cons op rest ih =>
    exact ⟨h op (by simp) l, fun l' _ => ih (fun o ho => h o (by simp [ho])) l'⟩

/-- The domain hypothesis quantified over *all* consistent landscapes and *all* actions (as in
    `C01_model_step`) cannot hold for an SEI model: the latency step indexes the cohort vectors,
    and a consistent landscape may have empty ones. The step theorems of C05 therefore take the
    domain hypothesis along the run (`GensDomainAlong`). -/
theorem uniform_domain_unsat_sei (inp : StepInputs) (step : Nat) (hmt : inp.mt = .sei) :
    ¬ (∀ a : ActionKind, ∀ x : Land, x.inv → x.uniform → DomainAlong (actionGen inp step a x) x) := by
  intro hd
  have h := hd .stepForward [⟨0, [], 0, 0, 0, [], 0, 0⟩]
    (by intro c hc; simp only [List.mem_singleton] at hc; subst hc; exact ⟨rfl, rfl⟩)
    (by intro a ha b hb; simp only [List.mem_singleton] at ha hb; subst ha; subst hb; exact ⟨rfl, rfl⟩)
  have h1 := h.1 ⟨0, [], 0, 0, 0, [], 0, 0⟩ rfl hmt
  exact h1.1 rfl

/-- Executable comparison of a run's result with an expected landscape (for concrete instances). -/
def runYields (r : Except ErrKind Land) (x : Land) : Bool :=
  match r with
  | .ok l' => decide (l' = x)
  | .error _ => false

theorem eq_ok_of_runYields {r : Except ErrKind Land} {x : Land} (h : runYields r x = true) :
    r = .ok x := by
  cases r with
  | error e => cases h
  | ok l' => simp only [runYields, decide_eq_true_eq] at h; rw [h]

end Pops
