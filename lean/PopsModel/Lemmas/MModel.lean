/-
  Lemmas for `Model::run_step` with several hosts (Props/C16Model.lean): pointwise relations over
  hosts and cells, the step from one landing (`atMostOneSpec`) to the aggregate spread predicate,
  sums over hosts and cells, per-host histories.
-/
import PopsModel.Model.MModelPred
import PopsModel.Lemmas.Multi
import PopsModel.Lemmas.OffSeason
import PopsModel.Props.C16
import PopsModel.Props.C01Step
namespace Pops.MM

/-! ### one host at one cell -/

/-- Propositional form of `hostSpreadOK`. -/
def HostSpread (a b : Cell) : Prop :=
  (sLost a b = 0 ∨ (0 < sLost a b ∧ sLost a b ≤ a.s)) ∧ eiGained a b = sLost a b ∧
  b.r = a.r ∧ b.died = a.died ∧ b.th = a.th

theorem hostSpreadOK_iff (a b : Cell) : hostSpreadOK a b = true ↔ HostSpread a b := by
  unfold hostSpreadOK HostSpread
  simp only [Bool.and_eq_true, Bool.or_eq_true, decide_eq_true_eq]
  constructor
  · rintro ⟨⟨⟨⟨h1, h2⟩, h3⟩, h4⟩, h5⟩; exact ⟨h1, h2, h3, h4, h5⟩
  · rintro ⟨h1, h2, h3, h4, h5⟩; exact ⟨⟨⟨⟨h1, h2⟩, h3⟩, h4⟩, h5⟩

theorem HostSpread.refl (a : Cell) : HostSpread a a := by
  unfold HostSpread sLost eiGained
  refine ⟨.inl (by omega), by omega, rfl, rfl, rfl⟩

theorem HostSpread.trans {a b c : Cell} (h1 : HostSpread a b) (h2 : HostSpread b c) : HostSpread a c := by
  unfold HostSpread sLost eiGained at *
  obtain ⟨p1, p2, p3, p4, p5⟩ := h1
  obtain ⟨q1, q2, q3, q4, q5⟩ := h2
  refine ⟨?_, by omega, by omega, by omega, by omega⟩
  rcases p1 with p1 | p1 <;> rcases q1 with q1 | q1
  · exact .inl (by omega)
  · exact .inr (by omega)
  · exact .inr (by omega)
  · exact .inr (by omega)

/-- One successful landing on a host with a susceptible individual. -/
theorem HostSpread.landed (mt : ModelType) (c : Cell) (hs : 0 < c.s) : HostSpread c (landed mt c) := by
  unfold HostSpread sLost eiGained Pops.landed
  cases mt <;> exact ⟨.inr (by simp only; omega), by simp only; omega, rfl, rfl, rfl⟩

/-! ### the hosts of one cell -/

def CellSpread (a b : List Cell) : Prop := Pw HostSpread a b

theorem sum_lost_eq_gained {a b : List Cell} (h : CellSpread a b) :
    sumL (List.zipWith sLost a b) = sumL (List.zipWith eiGained a b) := by
  induction h with
  | nil => rfl
  | cons hxy _ ih =>
    simp only [List.zipWith_cons_cons, sumL_cons]
    have := hxy.2.1
    omega

theorem cellSpreadOK_iff (a b : List Cell) : cellSpreadOK a b = true ↔ CellSpread a b := by
  unfold cellSpreadOK CellSpread
  have hb := pw_iff_bool HostSpread hostSpreadOK hostSpreadOK_iff a b
  rw [Bool.and_eq_true, hb]
  constructor
  · exact fun h => h.1
  · intro h
    exact ⟨h, by simp only [decide_eq_true_eq]; exact sum_lost_eq_gained h⟩

theorem CellSpread.refl (a : List Cell) : CellSpread a a := Pw.refl HostSpread.refl a

theorem CellSpread.trans {a b c : List Cell} (h1 : CellSpread a b) (h2 : CellSpread b c) : CellSpread a c :=
  Pw.trans (R := HostSpread) (fun _ _ _ h h' => HostSpread.trans h h') h1 h2

/-- What `atMostOneSpec` (one landing observed at one cell) implies for the aggregate predicate. -/
theorem cellSpread_of_atMostOne (ps : List HostParams) (pre post : List Cell) (r : Int)
    (h : atMostOneSpec ps pre post r = true) : CellSpread pre post := by
  unfold atMostOneSpec at h
  simp only [Bool.or_eq_true, Bool.and_eq_true, decide_eq_true_eq, List.any_eq_true, List.mem_range,
    beq_iff_eq] at h
  rcases h with ⟨_, he⟩ | ⟨_, hh, hlt, ⟨hs, hland⟩, hset⟩
  · rw [he]; exact CellSpread.refl pre
  · rw [hset]
    have hk : pre[hh]? = some (pre[hh]!) := act_getElem?_eq_some_getElem! hlt
    refine Pw.set HostSpread.refl hk ?_
    -- the changed host carries exactly one landing
    unfold landingSpec at hland
    simp only [if_true] at hland
    have : post[hh]! = landed (ps[hh]!).mt (pre[hh]!) := by
      unfold landed
      cases hm : (ps[hh]!).mt <;> simp only [hm, beq_iff_eq] at hland <;> exact hland
    rw [this]
    exact HostSpread.landed _ _ hs

/-! ### the landscape, cell-major -/

def LandSpread (a b : CLand) : Prop := Pw CellSpread a b

theorem landSpreadOK_iff (a b : CLand) : landSpreadOK a b = true ↔ LandSpread a b :=
  pw_iff_bool CellSpread cellSpreadOK cellSpreadOK_iff a b

theorem LandSpread.refl (a : CLand) : LandSpread a a := Pw.refl CellSpread.refl a

theorem LandSpread.trans {a b c : CLand} (h1 : LandSpread a b) (h2 : LandSpread b c) : LandSpread a c :=
  Pw.trans (R := CellSpread) (fun _ _ _ h h' => CellSpread.trans h h') h1 h2

theorem LandSpread.set {l : CLand} {k : Nat} {c c' : List Cell} (hk : l[k]? = some c) (hc : CellSpread c c') :
    LandSpread l (l.set k c') := Pw.set CellSpread.refl hk hc

/-! ### susceptible hosts consumed -/

def cellLost (a b : List Cell) : Int := sumL (List.zipWith sLost a b)

theorem sLostTotal_eq (a b : CLand) : sLostTotal a b = sumL (List.zipWith cellLost a b) := rfl

theorem cellLost_refl (a : List Cell) : cellLost a a = 0 := by
  unfold cellLost
  induction a with
  | nil => rfl
  | cons x xs ih => simp only [List.zipWith_cons_cons, sumL_cons, ih, sLost]; omega

theorem cellLost_trans {a b c : List Cell} (h1 : CellSpread a b) (h2 : CellSpread b c) :
    cellLost a c = cellLost a b + cellLost b c := by
  unfold cellLost
  induction h1 generalizing c with
  | nil => cases h2; rfl
  | cons _ _ ih =>
    cases h2 with
    | cons _ h2' =>
      simp only [List.zipWith_cons_cons, sumL_cons, ih h2', sLost]; omega

theorem sLostTotal_refl (a : CLand) : sLostTotal a a = 0 := by
  rw [sLostTotal_eq]
  induction a with
  | nil => rfl
  | cons x xs ih => simp only [List.zipWith_cons_cons, sumL_cons, ih, cellLost_refl]; omega

theorem sLostTotal_trans {a b c : CLand} (h1 : LandSpread a b) (h2 : LandSpread b c) :
    sLostTotal a c = sLostTotal a b + sLostTotal b c := by
  simp only [sLostTotal_eq]
  induction h1 generalizing c with
  | nil => cases h2; rfl
  | cons hxy _ ih =>
    cases h2 with
    | cons hyz h2' =>
      simp only [List.zipWith_cons_cons, sumL_cons, ih h2', cellLost_trans hxy hyz]; omega

theorem sLostTotal_set {l : CLand} {k : Nat} {c c' : List Cell} (hk : l[k]? = some c) :
    sLostTotal l (l.set k c') = cellLost c c' := by
  simp only [sLostTotal_eq]
  induction l generalizing k with
  | nil => simp at hk
  | cons x xs ih =>
    cases k with
    | zero =>
      simp only [List.getElem?_cons_zero, Option.some.injEq] at hk; subst hk
      simp only [List.set_cons_zero, List.zipWith_cons_cons, sumL_cons]
      have := sLostTotal_refl xs
      rw [sLostTotal_eq] at this
      omega
    | succ k =>
      simp only [List.getElem?_cons_succ] at hk
      simp only [List.set_cons_succ, List.zipWith_cons_cons, sumL_cons, ih hk, cellLost_refl]; omega

/-- One landing that established consumes exactly one susceptible host of the cell. -/
theorem cellLost_set_landed (mt : ModelType) (cells : List Cell) (h : Nat) (hlt : h < cells.length) :
    cellLost cells (cells.set h (landed mt (cells[h]!))) = 1 := by
  unfold cellLost
  induction cells generalizing h with
  | nil => simp at hlt
  | cons x xs ih =>
    cases h with
    | zero =>
      have hr := cellLost_refl xs
      unfold cellLost at hr
      simp only [List.set_cons_zero, List.zipWith_cons_cons, sumL_cons, hr]
      have : (x :: xs)[0]! = x := by simp
      rw [this]
      unfold sLost landed
      cases mt <;> simp only <;> omega
    | succ k =>
      have hk : k < xs.length := by simpa using hlt
      have : (x :: xs)[k + 1]! = xs[k]! := by simp
      simp only [this, List.set_cons_succ, List.zipWith_cons_cons, sumL_cons, ih k hk, sLost]; omega

/-! ### list helpers for the cell-major view -/

theorem cland_set_getElem_self (l : CLand) (k : Nat) (c : List Cell) (hk : l[k]? = some c) : l.set k c = l := by
  induction l generalizing k with
  | nil => rfl
  | cons x xs ih =>
    cases k with
    | zero => simp only [List.getElem?_cons_zero, Option.some.injEq] at hk; subst hk; rfl
    | succ k => simp only [List.getElem?_cons_succ] at hk; simp only [List.set_cons_succ, ih k hk]

theorem cland_getElem!_of_some {l : CLand} {k : Nat} {c : List Cell} (hk : l[k]? = some c) : l[k]! = c := by
  simp [getElem!_def, hk]

theorem cland_lt_of_some {l : CLand} {k : Nat} {c : List Cell} (hk : l[k]? = some c) : k < l.length := by
  have := List.getElem?_eq_some_iff.mp hk
  exact this.1

theorem cland_getElem!_set_self (l : CLand) (k : Nat) (c : List Cell) (hk : k < l.length) : (l.set k c)[k]! = c :=
  act_getElem!_set_self l c hk

/-! ### sums over hosts and cells -/

theorem sumL_map_add {α : Type} (l : List α) (f g : α → Int) :
    sumL (l.map fun x => f x + g x) = sumL (l.map f) + sumL (l.map g) := by
  induction l with
  | nil => rfl
  | cons x xs ih => simp only [List.map_cons, sumL_cons, ih]; omega

theorem sumL_map_zero {α : Type} (l : List α) : sumL (l.map fun _ => (0 : Int)) = 0 := by
  induction l with
  | nil => rfl
  | cons x xs ih => simp only [List.map_cons, sumL_cons, ih]; omega

/-- Reading a list through its indices. -/
theorem map_range_getElem! (l : Land) (f : Cell → Int) :
    (List.range l.length).map (fun k => f (l[k]!)) = l.map f := by
  apply List.ext_getElem
  · simp
  · intro i h1 h2
    have hi : i < l.length := by simpa using h2
    simp only [List.getElem_map, List.getElem_range]
    congr 1
    simp [getElem!_def, List.getElem?_eq_getElem hi]

theorem cellsAtM_cons (l : Land) (m : MLand) (k : Nat) : cellsAtM (l :: m) k = l[k]! :: cellsAtM m k := rfl

/-- Sum over the cells of the per-cell sums over the hosts = sum over the hosts of the per-host
    sums over the cells (all rasters have `n` cells). -/
theorem sum_cells_hosts (m : MLand) (n : Nat) (f : Cell → Int) (hlen : ∀ l ∈ m, l.length = n) :
    sumL ((List.range n).map fun k => sumL ((cellsAtM m k).map f)) = sumL (m.map fun l => sumL (l.map f)) := by
  induction m with
  | nil => simp only [cellsAtM, List.map_nil, sumL_nil]; exact sumL_map_zero _
  | cons l rest ih =>
    have hl : l.length = n := hlen l (List.mem_cons_self)
    have hr := ih (fun x hx => hlen x (List.mem_cons_of_mem _ hx))
    simp only [cellsAtM_cons, List.map_cons, sumL_cons]
    rw [sumL_map_add (List.range n) (fun k => f (l[k]!)) (fun k => sumL ((cellsAtM rest k).map f)), hr, ← hl,
      map_range_getElem! l f]

theorem poolInfected_getElem (m : MLand) (n k : Nat) (hk : k < n) :
    (poolInfected m n)[k]! = sumL (m.map fun l => (l[k]!).i) := by
  unfold poolInfected
  have : k < ((List.range n).map fun k => multiInfectedAt (cellsAtM m k)).length := by simpa using hk
  rw [getElem!_pos _ k this]
  simp [multiInfectedAt, cellsAtM, List.map_map, Function.comp_def]

theorem poolTotalHosts_getElem (m : MLand) (n k : Nat) (hk : k < n) :
    (poolTotalHosts m n)[k]! = sumL (m.map fun l => (l[k]!).s + (l[k]!).i) := by
  unfold poolTotalHosts
  have : k < ((List.range n).map fun k => multiTotalHostsAt (cellsAtM m k)).length := by simpa using hk
  rw [getElem!_pos _ k this]
  simp [multiTotalHostsAt, cellsAtM, List.map_map, Function.comp_def, Cell.totalHostsAt]

theorem poolSumsOK_self (m : MLand) (n : Nat) : poolSumsOK m (poolInfected m n) (poolTotalHosts m n) = true := by
  unfold poolSumsOK
  have hl1 : (poolInfected m n).length = n := by simp [poolInfected]
  have hl2 : (poolTotalHosts m n).length = n := by simp [poolTotalHosts]
  simp only [hl1, hl2, beq_self_eq_true, Bool.true_and, List.all_eq_true, List.mem_range]
  intro k hk
  rw [poolInfected_getElem m n k hk, poolTotalHosts_getElem m n k hk]
  unfold sumsSpec
  simp [cellsAtM, List.map_map, Function.comp_def]

/-! ### histories keep the raster shape -/

theorem landOp_length (op : LandOp) (l l' : Land) (h : op.apply l = .ok l') : l'.length = l.length := by
  cases op with
  | «at» k op =>
    simp only [LandOp.apply] at h
    cases hk : l[k]? with
    | none => rw [hk] at h; simp only [Except.ok.injEq] at h; rw [← h]
    | some c =>
      rw [hk] at h
      simp only at h
      cases hc : op.apply c with
      | error e => rw [hc] at h; simp [Except.map] at h
      | ok c' => rw [hc] at h; simp only [Except.map, Except.ok.injEq] at h; rw [← h]; simp
  | move a b count d dE dM =>
    simp only [LandOp.apply] at h
    by_cases hab : a = b
    · simp only [hab, if_true, Except.ok.injEq] at h; rw [← h]
    · simp only [hab, if_false] at h
      cases ha : l[a]? with
      | none => rw [ha] at h; simp only [Except.ok.injEq] at h; rw [← h]
      | some src =>
        cases hb : l[b]? with
        | none => rw [ha, hb] at h; simp only [Except.ok.injEq] at h; rw [← h]
        | some dst => rw [ha, hb] at h; simp only [Except.ok.injEq] at h; rw [← h]; simp

theorem runOps_length (ops : List LandOp) (l l' : Land) (h : runOps ops l = .ok l') : l'.length = l.length := by
  induction ops generalizing l with
  | nil => simp only [runOps, Except.ok.injEq] at h; rw [← h]
  | cons op rest ih =>
    simp only [runOps, bind, Except.bind] at h
    cases h1 : op.apply l with
    | error e => rw [h1] at h; cases h
    | ok x => rw [h1] at h; rw [ih x h, landOp_length op l x h1]

/-! ### executable comparison for concrete instances -/

def yields {α : Type} [DecidableEq α] (r : Except ErrKind α) (x : α) : Bool :=
  match r with
  | .ok v => decide (v = x)
  | .error _ => false

theorem eq_ok_of_yields {α : Type} [DecidableEq α] {r : Except ErrKind α} {x : α} (h : yields r x = true) :
    r = .ok x := by
  cases r with
  | error e => cases h
  | ok v => simp only [yields, decide_eq_true_eq] at h; rw [h]

end Pops.MM
