/-
  C15 lemmas about `load`: the segment map (`emplace`, first record of a key wins), merging of
  repeated cells, what a successfully parsed record looks like, the clipping rule in coordinates.
-/
import PopsModel.Model.NetPred
namespace Pops.Net

/-! ### the segment map -/

/-- `segments_by_nodes_.find`. -/
def lookup (k : Key) (l : List (Key × Segment)) : Option Segment :=
  (l.find? (fun e => e.1 = k)).map (·.2)

theorem findSeg_eq_lookup (n : Net) (k : Key) : n.findSeg k = lookup k n.segs := rfl

theorem lookup_cons (k : Key) (e : Key × Segment) (l : List (Key × Segment)) :
    lookup k (e :: l) = if e.1 = k then some e.2 else lookup k l := by
  unfold lookup
  by_cases h : e.1 = k <;> simp [h]

theorem lookup_none_iff {k : Key} {l : List (Key × Segment)} :
    lookup k l = none ↔ ∀ e ∈ l, e.1 ≠ k := by
  induction l with
  | nil => simp [lookup]
  | cons e t ih =>
    rw [lookup_cons]
    by_cases h : e.1 = k
    · simp [h]
    · simp [h, ih]

theorem lookup_orderedInsert (k k' : Key) (s : Segment) (l : List (Key × Segment))
    (hk : lookup k l = none) :
    lookup k' (orderedInsert k s l) = if k = k' then some s else lookup k' l := by
  induction l with
  | nil => simp [orderedInsert, lookup]
  | cons e t ih =>
    rw [lookup_cons] at hk
    by_cases hek : e.1 = k
    · simp [hek] at hk
    · simp only [hek, if_false] at hk
      unfold orderedInsert
      split
      · simp only [lookup_cons]
      · simp only [lookup_cons, ih hk]
        by_cases h1 : e.1 = k'
        · have : ¬ k = k' := fun h => hek (h ▸ h1)
          simp [h1, this]
        · simp [h1]

/-- `emplace` keeps an existing entry and otherwise adds the new one. -/
theorem lookup_insertSeg (k k' : Key) (s : Segment) (l : List (Key × Segment)) :
    lookup k' (insertSeg k s l) =
      match lookup k' l with
      | some x => some x
      | none => if k = k' then some s else none := by
  unfold insertSeg
  by_cases hany : l.any (fun e => decide (e.1 = k)) = true
  · simp only [hany, if_true]
    cases h : lookup k' l with
    | some x => rfl
    | none =>
      by_cases hk : k = k'
      · subst hk
        obtain ⟨e, he, hek⟩ := List.any_eq_true.mp hany
        exact absurd (of_decide_eq_true hek) (lookup_none_iff.mp h e he)
      · simp [hk]
  · simp only [hany]
    have hnone : lookup k l = none := by
      apply lookup_none_iff.mpr
      intro e he hek
      exact hany (List.any_eq_true.mpr ⟨e, he, by simp [hek]⟩)
    simp only [Bool.false_eq_true, if_false]
    rw [lookup_orderedInsert k k' s l hnone]
    by_cases hk : k = k'
    · subst hk; simp [hnone]
    · simp only [hk, if_false]
      cases h : lookup k' l <;> rfl

theorem mem_orderedInsert {k : Key} {s : Segment} {l : List (Key × Segment)} {e : Key × Segment} :
    e ∈ orderedInsert k s l ↔ e = (k, s) ∨ e ∈ l := by
  induction l with
  | nil => simp [orderedInsert]
  | cons x t ih =>
    unfold orderedInsert
    split
    · simp
    · simp only [List.mem_cons, ih]
      constructor
      · rintro (h | h | h)
        · exact Or.inr (Or.inl h)
        · exact Or.inl h
        · exact Or.inr (Or.inr h)
      · rintro (h | h | h)
        · exact Or.inr (Or.inl h)
        · exact Or.inl h
        · exact Or.inr (Or.inr h)

theorem mem_insertSeg {k : Key} {s : Segment} {l : List (Key × Segment)} {e : Key × Segment}
    (h : e ∈ insertSeg k s l) : e = (k, s) ∨ e ∈ l := by
  unfold insertSeg at h
  split at h
  · exact Or.inr h
  · exact mem_orderedInsert.mp h

/-- The segment stored for a key is that of the first kept record with the key. -/
def firstKept (g : Grid) (k : Key) : List Rec → Option Segment
  | [] => none
  | r :: rs => if r.kept g = true ∧ r.key = k then some r.seg else firstKept g k rs

theorem lookup_foldl_store (g : Grid) (k : Key) (rs : List Rec) (acc : List (Key × Segment)) :
    lookup k (rs.foldl (fun acc r => if r.kept g then insertSeg r.key r.seg acc else acc) acc) =
      match lookup k acc with
      | some x => some x
      | none => firstKept g k rs := by
  induction rs generalizing acc with
  | nil => simp only [List.foldl_nil, firstKept]; cases lookup k acc <;> rfl
  | cons r t ih =>
    simp only [List.foldl_cons]
    rw [ih]
    by_cases hk : r.kept g = true
    · simp only [hk, if_true, lookup_insertSeg]
      cases h : lookup k acc with
      | some x => rfl
      | none =>
        by_cases hkk : r.key = k
        · simp [firstKept, hk, hkk]
        · simp [firstKept, hkk]
    · simp only [hk, Bool.false_eq_true, if_false]
      cases h : lookup k acc with
      | some x => rfl
      | none => simp [firstKept, hk]

theorem lookup_storeRecords (g : Grid) (k : Key) (rs : List Rec) :
    lookup k (storeRecords g rs) = firstKept g k rs := by
  unfold storeRecords
  rw [lookup_foldl_store]
  simp [lookup]

theorem firstKept_some {g : Grid} {k : Key} {rs : List Rec} {s : Segment}
    (h : firstKept g k rs = some s) : ∃ r ∈ rs, r.kept g = true ∧ r.key = k ∧ r.seg = s := by
  induction rs with
  | nil => simp [firstKept] at h
  | cons r t ih =>
    unfold firstKept at h
    split at h
    · next hc => exact ⟨r, by simp, hc.1, hc.2, by simpa using h⟩
    · obtain ⟨r', hr', h'⟩ := ih h
      exact ⟨r', by simp [hr'], h'⟩

theorem firstKept_isSome {g : Grid} {k : Key} {rs : List Rec} {r : Rec} (hr : r ∈ rs)
    (hk : r.kept g = true) (hkey : r.key = k) : ∃ s, firstKept g k rs = some s := by
  induction rs with
  | nil => simp at hr
  | cons x t ih =>
    unfold firstKept
    split
    · exact ⟨_, rfl⟩
    · next hc =>
      rcases List.mem_cons.mp hr with h | h
      · subst h; exact absurd ⟨hk, hkey⟩ hc
      · exact ih h

theorem mem_storeRecords {g : Grid} {rs : List Rec} {e : Key × Segment}
    (h : e ∈ storeRecords g rs) : ∃ r ∈ rs, r.kept g = true ∧ e = (r.key, r.seg) := by
  unfold storeRecords at h
  have key : ∀ (rs : List Rec) (acc : List (Key × Segment)),
      e ∈ rs.foldl (fun acc r => if r.kept g then insertSeg r.key r.seg acc else acc) acc →
      e ∈ acc ∨ ∃ r ∈ rs, r.kept g = true ∧ e = (r.key, r.seg) := by
    intro rs
    induction rs with
    | nil => intro acc h; exact Or.inl h
    | cons r t ih =>
      intro acc h
      simp only [List.foldl_cons] at h
      rcases ih _ h with h1 | ⟨r', hr', h'⟩
      · split at h1
        · next hk =>
          rcases mem_insertSeg h1 with h2 | h2
          · exact Or.inr ⟨r, by simp, hk, h2⟩
          · exact Or.inl h2
        · exact Or.inl h1
      · exact Or.inr ⟨r', by simp [hr'], h'⟩
  rcases key rs [] h with h1 | h1
  · simp at h1
  · exact h1

/-! ### merging of repeated cells -/

theorem mergeCells_head (b : Cell) (rest : List Cell) :
    (mergeCells (b :: rest)).head? = some b := by
  induction rest generalizing b with
  | nil => simp [mergeCells]
  | cons c t ih =>
    unfold mergeCells
    split
    · next h => rw [h]; exact ih c
    · simp

theorem mergeCells_noAdjacentDup (l : List Cell) : noAdjacentDup (mergeCells l) = true := by
  induction l with
  | nil => simp [mergeCells, noAdjacentDup]
  | cons a t ih =>
    cases t with
    | nil => simp [mergeCells, noAdjacentDup]
    | cons b rest =>
      unfold mergeCells
      split
      · exact ih
      · next hab =>
        have hh := mergeCells_head b rest
        cases hm : mergeCells (b :: rest) with
        | nil => simp [noAdjacentDup]
        | cons x xs =>
          rw [hm] at hh ih
          have : x = b := by simpa using hh
          subst this
          simp only [noAdjacentDup, ih, Bool.and_true, bne_iff_ne, ne_eq]
          exact hab

theorem mergeCells_eq_nil {l : List Cell} : mergeCells l = [] ↔ l = [] := by
  cases l with
  | nil => simp [mergeCells]
  | cons a t =>
    have := mergeCells_head a t
    constructor
    · intro h; rw [h] at this; simp at this
    · intro h; simp at h

theorem mem_mergeCells {l : List Cell} {x : Cell} : x ∈ mergeCells l ↔ x ∈ l := by
  induction l with
  | nil => simp [mergeCells]
  | cons a t ih =>
    cases t with
    | nil => simp [mergeCells]
    | cons b rest =>
      unfold mergeCells
      split
      · next h => subst h; rw [ih]; simp
      · simp only [List.mem_cons] at ih ⊢; rw [ih]

theorem mergeCells_getLast (l : List Cell) : (mergeCells l).getLast? = l.getLast? := by
  induction l with
  | nil => simp [mergeCells]
  | cons a t ih =>
    cases t with
    | nil => simp [mergeCells]
    | cons b rest =>
      unfold mergeCells
      split
      · rw [ih]; simp [List.getLast?_cons_cons]
      · have hne : mergeCells (b :: rest) ≠ [] := by
          intro h; have := mergeCells_eq_nil.mp h; simp at this
        cases hm : mergeCells (b :: rest) with
        | nil => exact absurd hm hne
        | cons x xs =>
          rw [List.getLast?_cons_cons, ← hm, ih]; simp [List.getLast?_cons_cons]

/-! ### what a parsed record looks like -/

/-- The cell of a coordinate pair. -/
def Grid.cellOf (g : Grid) (p : Rat × Rat) : Cell := g.xyToRowCol p.1 p.2

theorem buildRec_ok {g : Grid} {id1 id2 : Int} {prob total cpc : Rat} {pts : List (Rat × Rat)}
    {r : Rec} (h : buildRec g id1 id2 prob total cpc pts = .ok r) :
    2 ≤ pts.length ∧ r.key = (id1, id2) ∧ r.seg.cpc = cpc ∧ r.seg.total = total ∧
    r.seg.prob = prob ∧ r.first = pts.headD (0, 0) ∧ r.last = pts.getLastD (0, 0) ∧
    r.seg.cells =
      (let m := mergeCells (pts.map g.cellOf); if m.length = 1 then m ++ m else m) := by
  unfold buildRec at h
  simp only at h
  split at h
  · exact absurd h (by simp)
  · split at h
    · exact absurd h (by simp)
    · next h1 h2 =>
      have : r = _ := (Except.ok.inj h).symm
      subst this
      refine ⟨by omega, rfl, rfl, rfl, rfl, rfl, rfl, rfl⟩

theorem getLast?_map_getLastD {α β : Type} (f : α → β) (l : List α) (d : α) (h : l ≠ []) :
    (l.map f).getLast? = some (f (l.getLastD d)) := by
  rw [List.getLast?_map, List.getLastD_eq_getLast?, List.getLast?_eq_some_getLast h]
  rfl

/-- Cells of a parsed record: at least two, first = cell of the first point, last = cell of the
    last point, consecutive repetitions merged. -/
theorem buildRec_cells {g : Grid} {id1 id2 : Int} {prob total cpc : Rat} {pts : List (Rat × Rat)}
    {r : Rec} (h : buildRec g id1 id2 prob total cpc pts = .ok r) :
    2 ≤ r.seg.cells.length ∧ mergedOK r.seg.cells = true ∧
    r.seg.front = g.cellOf r.first ∧ r.seg.back = g.cellOf r.last ∧
    (∀ x, x ∈ r.seg.cells ↔ x ∈ pts.map g.cellOf) := by
  obtain ⟨hlen, _, _, _, _, hf, hl, hc⟩ := buildRec_ok h
  simp only at hc
  have hne : pts ≠ [] := by intro h0; rw [h0] at hlen; simp at hlen
  have hlast : (mergeCells (pts.map g.cellOf)).getLast? = some (g.cellOf r.last) := by
    rw [mergeCells_getLast, hl]; exact getLast?_map_getLastD g.cellOf pts (0, 0) hne
  have hhead : (mergeCells (pts.map g.cellOf)).head? = some (g.cellOf r.first) := by
    cases hp : pts with
    | nil => exact absurd hp hne
    | cons p ps => rw [hf, hp]; exact mergeCells_head (g.cellOf p) (ps.map g.cellOf)
  have hnd := mergeCells_noAdjacentDup (pts.map g.cellOf)
  have hmem : ∀ x, x ∈ mergeCells (pts.map g.cellOf) ↔ x ∈ pts.map g.cellOf := fun x => mem_mergeCells
  cases hm : mergeCells (pts.map g.cellOf) with
  | nil => rw [hm] at hhead; simp at hhead
  | cons a t =>
    rw [hm] at hc hhead hlast hnd hmem
    have ha : a = g.cellOf r.first := by simpa using hhead
    cases t with
    | nil =>
      have hc' : r.seg.cells = [a, a] := by simpa using hc
      have hb : a = g.cellOf r.last := by simpa using hlast
      refine ⟨by rw [hc']; simp, by rw [hc']; simp [mergedOK], ?_, ?_, ?_⟩
      · simp [Segment.front, hc', ha]
      · simp [Segment.back, hc', ← hb]
      · intro x; rw [hc', ← hmem x]; simp
    | cons b t' =>
      have hc' : r.seg.cells = a :: b :: t' := by simpa using hc
      refine ⟨by rw [hc']; simp, ?_, ?_, ?_, ?_⟩
      · rw [hc']; simp [mergedOK, hnd]
      · simp [Segment.front, hc', ha]
      · simp only [Segment.back, hc', List.getLastD_eq_getLast?, hlast]; rfl
      · intro x; rw [hc', ← hmem x]

theorem except_bind_ok {ε α β : Type} {x : Except ε α} {f : α → Except ε β} {b : β}
    (h : (x >>= f) = .ok b) : ∃ a, x = .ok a ∧ f a = .ok b := by
  cases x with
  | error e => simp [bind, Except.bind] at h
  | ok a => exact ⟨a, rfl, h⟩

/-- Peeling `parseRecord`: a successfully parsed line went through `buildRec`. -/
theorem parseRecord_ok {g : Grid} {hasCost hasProb : Bool} {line : List Char} {r : Rec}
    (h : parseRecord g hasCost hasProb line = .ok r) :
    ∃ id1 id2 prob total pts, 1 ≤ id1 ∧ 1 ≤ id2 ∧ 0 ≤ prob ∧
      (hasCost = false → total = 0) ∧
      buildRec g id1 id2 prob total (if hasCost then 0 else g.distancePerCell) pts = .ok r := by
  unfold parseRecord at h
  obtain ⟨id1, _, h⟩ := except_bind_ok h
  obtain ⟨id2, _, h⟩ := except_bind_ok h
  split at h
  · exact absurd h (by simp)
  · next hids =>
    obtain ⟨prob, hprob, h⟩ := except_bind_ok h
    obtain ⟨total, htotal, h⟩ := except_bind_ok h
    obtain ⟨pts, _, h⟩ := except_bind_ok h
    refine ⟨id1, id2, prob, total, pts, by omega, by omega, ?_, ?_, h⟩
    · cases hasProb with
      | false =>
        have : prob = 0 := by simpa [optProbability] using hprob.symm
        rw [this]; exact Rat.le_refl
      | true =>
        simp only [optProbability, if_true, probabilityFromText] at hprob
        obtain ⟨v, _, hv⟩ := except_bind_ok hprob
        split at hv
        · exact absurd hv (by simp)
        · next hneg =>
          have : v = prob := by simpa using hv
          rw [← this]; exact Rat.not_lt.mp hneg
    · intro hc; subst hc
      have : total = 0 := by simpa [optCost] using htotal.symm
      exact this

/-! ### the whole input -/

theorem parseRecords_ok {g : Grid} {hc hp : Bool} {lines : List (List Char)} {rs : List Rec}
    (h : parseRecords g hc hp lines = .ok rs) :
    rs.length = lines.length ∧ ∀ r ∈ rs, ∃ l ∈ lines, parseRecord g hc hp l = .ok r := by
  induction lines generalizing rs with
  | nil => simp [parseRecords] at h; subst h; simp
  | cons l t ih =>
    unfold parseRecords at h
    obtain ⟨r, hr, h⟩ := except_bind_ok h
    obtain ⟨rs', hrs, h⟩ := except_bind_ok h
    have : rs = r :: rs' := by simpa using h.symm
    subst this
    obtain ⟨hlen, hmem⟩ := ih hrs
    refine ⟨by simp [hlen], ?_⟩
    intro x hx
    rcases List.mem_cons.mp hx with hx | hx
    · subst hx; exact ⟨l, by simp, hr⟩
    · obtain ⟨l', hl', h'⟩ := hmem x hx
      exact ⟨l', by simp [hl'], h'⟩

/-- The first malformed line decides the result of the whole load. -/
theorem parseRecords_error {g : Grid} {hc hp : Bool} (pre : List (List Char)) (l : List Char)
    (post : List (List Char)) (e : ErrKind)
    (hpre : ∀ l' ∈ pre, ∃ r, parseRecord g hc hp l' = .ok r) (hl : parseRecord g hc hp l = .error e) :
    parseRecords g hc hp (pre ++ l :: post) = .error e := by
  induction pre with
  | nil => simp [parseRecords, hl, bind, Except.bind]
  | cons x t ih =>
    obtain ⟨r, hr⟩ := hpre x (by simp)
    have := ih (fun l' hl' => hpre l' (by simp [hl']))
    simp [parseRecords, hr, this, bind, Except.bind]

theorem loadSegments_ok {g : Grid} {text : List Char} {net : Net} (h : loadSegments g text = .ok net) :
    ∃ hd data rs, splitHeader (getlines '\n' text) = .ok (hd, data) ∧
      parseRecords g hd.hasCost hd.hasProb data = .ok rs ∧
      net.grid = g ∧ net.hasProb = hd.hasProb ∧ net.segs = storeRecords g rs := by
  unfold loadSegments at h
  obtain ⟨⟨hd, data⟩, h1, h⟩ := except_bind_ok h
  obtain ⟨rs, h2, h⟩ := except_bind_ok h
  have : net = _ := (Except.ok.inj h).symm
  subst this
  exact ⟨hd, data, rs, h1, h2, rfl, rfl, rfl⟩

theorem load_ok {g : Grid} {text : List Char} {allow : Bool} {net : Net}
    (h : load g text allow = .ok net) :
    loadSegments g text = .ok net ∧ (net.segs = [] → allow = true) := by
  unfold load at h
  obtain ⟨net', h1, h⟩ := except_bind_ok h
  split at h
  · exact absurd h (by simp)
  · next hcond =>
    have : net' = net := by simpa using h
    subst this
    refine ⟨h1, ?_⟩
    intro hs
    apply Classical.byContradiction
    intro ha
    exact hcond ⟨by simp [hs], ha⟩

end Pops.Net
