/-
  Helper lemmas for Props/C10Dates.lean: registration of a treatment at the step containing its
  date, the events of `manage` derived from the registered list, and the tagged trace of the
  treatments action over a run. All names carry the prefix `c10d_`.
-/
import PopsModel.Model.TreatRun
import PopsModel.Props.C07
import PopsModel.Props.C10
import PopsModel.Lemmas.Actions
namespace Pops
open Date

/-! ### dates -/

theorem c10d_addDays (n : Nat) (t : Date) (hv : t.Valid) :
    (iter Date.addDay n t).Valid ∧ t.ord + n ≤ (iter Date.addDay n t).ord :=
  iter_good (f := Date.addDay) (fun t hv => addDay_spec t hv) n t hv

/-- In a tiled calendar the date lookup succeeds exactly with the index of the one step that
    contains the date. -/
theorem c10d_lookup_iff (start end_ : Date) (steps : List Step) (h : TilesCalendar start end_ steps = true)
    (x : Date) (hx : x.Valid) (k : Nat) :
    scheduleActionDate steps x = .ok k ↔ ∃ st, steps[k]? = some st ∧ st.contains x = true := by
  obtain ⟨_, p2, _, _⟩ := C07_partition start end_ steps h x hx
  constructor
  · intro hk
    obtain ⟨l1, _, _⟩ := lookup_first x steps 0
    obtain ⟨j, st, e1, e2, e3⟩ := l1 k hk
    have : k = j := by omega
    subst this
    exact ⟨st, e2, e3⟩
  · rintro ⟨st, h1, h2⟩
    exact p2 k st h1 h2

theorem c10d_lookup_error (steps : List Step) (x : Date) (e : ErrKind) (h : scheduleActionDate steps x = .error e) :
    e = .invalid_argument ∧ ∀ st ∈ steps, st.contains x = false := by
  obtain ⟨_, l2, _⟩ := lookup_first x steps 0
  exact l2 e h

/-- Steps of a tiled calendar containing an earlier and a later date are in that order. -/
theorem c10d_steps_ordered (start end_ : Date) (steps : List Step) (h : TilesCalendar start end_ steps = true)
    (x y : Date) (hx : x.Valid) (hy : y.Valid) (hxy : x.ord ≤ y.ord) (j k : Nat) (s1 s2 : Step)
    (h1 : steps[j]? = some s1) (h2 : steps[k]? = some s2) (c1 : s1.contains x = true) (c2 : s2.contains y = true) :
    j ≤ k := by
  simp only [TilesCalendar, Bool.and_eq_true] at h
  obtain ⟨⟨⟨⟨_, hwf⟩, hc⟩, _⟩, _⟩ := h
  have w1 := (stepWF_iff s1).mp ((List.all_eq_true.mp hwf) s1 (List.mem_of_getElem? h1))
  have w2 := (stepWF_iff s2).mp ((List.all_eq_true.mp hwf) s2 (List.mem_of_getElem? h2))
  have o1 := (contains_iff_ord s1 x hx w1.1 w1.2.1).mp c1
  have o2 := (contains_iff_ord s2 y hy w2.1 w2.2.1).mp c2
  by_cases hjk : j ≤ k
  · exact hjk
  · have := chain_pairwise steps hwf hc k j (by omega) s2 s1 h2 h1
    omega

/-! ### `addTreatment` unfolded -/

theorem c10d_addTreatment_err (steps : List Step) (date : Date) (n : Nat) (e : ErrKind)
    (h : scheduleActionDate steps date = .error e) : addTreatment steps date n = .error e := by
  simp only [addTreatment, h, bind, Except.bind]

theorem c10d_addTreatment_simple (steps : List Step) (date : Date) (s : Nat)
    (h : scheduleActionDate steps date = .ok s) : addTreatment steps date 0 = .ok ⟨false, s, s⟩ := by
  simp only [addTreatment, h, bind, Except.bind, if_true, pure, Except.pure]

theorem c10d_addTreatment_pest_err (steps : List Step) (date : Date) (n s : Nat) (hn : 0 < n) (e : ErrKind)
    (h : scheduleActionDate steps date = .ok s)
    (h2 : scheduleActionDate steps (iter Date.addDay n date) = .error e) : addTreatment steps date n = .error e := by
  have : ¬ n = 0 := by omega
  simp only [addTreatment, h, h2, bind, Except.bind, this, if_false]

theorem c10d_addTreatment_pest (steps : List Step) (date : Date) (n s e : Nat) (hn : 0 < n)
    (h : scheduleActionDate steps date = .ok s)
    (h2 : scheduleActionDate steps (iter Date.addDay n date) = .ok e) : addTreatment steps date n = .ok ⟨true, s, e⟩ := by
  have : ¬ n = 0 := by omega
  simp only [addTreatment, h, h2, bind, Except.bind, this, if_false, pure, Except.pure]

/-! ### list helpers -/

theorem c10d_map_get!_range {α : Type} [Inhabited α] (l : List α) : (List.range l.length).map (fun i => l[i]!) = l := by
  apply List.ext_getElem
  · simp
  · intro i h1 h2
    simp only [List.getElem_map, List.getElem_range]
    exact getElem!_pos l i h2

theorem c10d_flatMap_congr {α β : Type} {l : List α} {f g : α → List β} (h : ∀ a ∈ l, f a = g a) :
    l.flatMap f = l.flatMap g := by
  rw [List.flatMap_def, List.flatMap_def, List.map_congr_left h]

theorem c10d_flatMap_range_eq {β : Type} (n i : Nat) (g : Nat → List β) :
    (List.range n).flatMap (fun j => if j = i then g j else []) = if i < n then g i else [] := by
  induction n with
  | zero => simp
  | succ n ih =>
    rw [List.range_succ, List.flatMap_append, ih]
    simp only [List.flatMap_cons, List.flatMap_nil, List.append_nil]
    by_cases h1 : i < n
    · have : ¬ n = i := by omega
      simp only [h1, if_true, this, if_false, List.append_nil, show i < n + 1 by omega]
    · by_cases h2 : n = i
      · subst h2; simp
      · have : ¬ i < n + 1 := by omega
        simp only [h1, if_false, h2, this, List.nil_append]

theorem c10d_flatMap_range_shift {β : Type} (n first s : Nat) (g : Nat → List β) :
    (List.range n).flatMap (fun k => if first + k = s then g k else []) =
      if first ≤ s ∧ s < first + n then g (s - first) else [] := by
  have e : (fun k => if first + k = s then g k else []) =
      (fun k => if k = s - first then (if first ≤ s then g k else []) else []) := by
    funext k
    by_cases h1 : first + k = s
    · have h2 : k = s - first := by omega
      have h3 : first ≤ s := by omega
      rw [if_pos h1, if_pos h2, if_pos h3]
    · by_cases h2 : k = s - first
      · have h3 : ¬ first ≤ s := by omega
        rw [if_neg h1, if_pos h2, if_neg h3]
      · rw [if_neg h1, if_neg h2]
  rw [e, c10d_flatMap_range_eq]
  by_cases h1 : first ≤ s
  · by_cases h2 : s - first < n
    · simp only [h2, if_true, h1, true_and, show s < first + n by omega]
    · simp only [h2, if_false, h1, true_and, show ¬ s < first + n by omega]
  · simp only [h1, false_and, if_false, ite_self]

/-! ### events of `manage` -/

/-- The treatments generator of a step is the concatenation of the events' operations. -/
theorem c10d_actionGen_treatments (inp : StepInputs) (step : Nat) (l : Land) :
    actionGen inp step .treatments l = inp.treatEvents.flatMap (eventOps inp) := by
  simp only [actionGen]
  congr 1

theorem c10d_eventsAt_flatMap (ts : List Treatment) (inp : StepInputs) (step : Nat) :
    (eventsAt ts step).flatMap (eventOps inp) = ts.flatMap (·.opsAt inp step) := by
  induction ts with
  | nil => rfl
  | cons t rest ih =>
    have e1 : eventsAt (t :: rest) step =
        (match t.eventOf step with | some ev => [ev] | none => []) ++ eventsAt rest step := by
      unfold eventsAt; rw [List.filterMap_cons]; cases t.eventOf step <;> rfl
    rw [e1, List.flatMap_append, ih, List.flatMap_cons]
    congr 1
    unfold Treatment.eventOf Treatment.opsAt Treatment.applyOps Treatment.endOps
    cases t.1.eventAt step <;> simp

theorem c10d_opsAt_tags (ts : List Treatment) (inputAt : Nat → Option StepInputs) (inp : StepInputs) (step : Nat)
    (hat : inputAt step = some inp) :
    (treatTagsAt ts step).flatMap (tagOps ts inputAt) = ts.flatMap (·.opsAt inp step) := by
  have e : ts.flatMap (·.opsAt inp step) = (List.range ts.length).flatMap (fun i => (ts[i]!).opsAt inp step) := by
    conv => lhs; rw [← c10d_map_get!_range ts]
    rw [List.flatMap_map]
  rw [e, treatTagsAt, List.flatMap_assoc]
  apply c10d_flatMap_congr
  intro i _
  simp only [Treatment.opsAt, Treatment.applyOps, Treatment.endOps]
  cases (ts[i]!).1.eventAt step <;>
    simp only [tagsOf, List.flatMap_cons, List.flatMap_nil, List.append_nil, tagOps, hat]

theorem c10d_treatTrace_succ (ts : List Treatment) (first n : Nat) :
    treatTrace ts first (n + 1) = treatTagsAt ts first ++ treatTrace ts (first + 1) n := by
  unfold treatTrace
  rw [List.range_succ_eq_map, List.flatMap_cons, List.flatMap_map, Nat.add_zero]
  congr 1
  apply c10d_flatMap_congr
  intro k _
  have : first + (k + 1) = first + 1 + k := by omega
  simp only [Nat.succ_eq_add_one, this]

theorem c10d_tag_step (ts : List Treatment) (step : Nat) (tag : TreatTag) (h : tag ∈ treatTagsAt ts step) :
    tag.1 = step ∧ tag.2.1 < ts.length ∧
    ((tag.2.2 = false ∧ (ts[tag.2.1]!).1.eventAt step = .apply) ∨ (tag.2.2 = true ∧ (ts[tag.2.1]!).1.eventAt step = .finish)) := by
  unfold treatTagsAt at h
  obtain ⟨i, hi, ht⟩ := List.mem_flatMap.mp h
  rw [List.mem_range] at hi
  cases he : (ts[i]!).1.eventAt step <;> rw [he] at ht <;> simp only [tagsOf, List.mem_singleton, List.not_mem_nil] at ht
  · subst ht; exact ⟨rfl, hi, Or.inl ⟨rfl, he⟩⟩
  · subst ht; exact ⟨rfl, hi, Or.inr ⟨rfl, he⟩⟩

/-- The concatenated treatments output of a run is the trace's operations. -/
theorem c10d_treatOpsOfRun (cfg : StepCfg) (ts : List Treatment) (inps : List StepInputs) (first : Nat)
    (inputAt : Nat → Option StepInputs)
    (hat : ∀ k inp, inps[k]? = some inp → inputAt (first + k) = some inp)
    (hev : ∀ k inp, inps[k]? = some inp → inp.treatEvents = eventsAt ts (first + k)) :
    treatOpsOfRun cfg inps first =
      if cfg.useTreatments then (treatTrace ts first inps.length).flatMap (tagOps ts inputAt) else [] := by
  induction inps generalizing first with
  | nil => simp [treatOpsOfRun, treatTrace]
  | cons inp rest ih =>
    have h0 := hev 0 inp rfl
    have a0 := hat 0 inp rfl
    rw [Nat.add_zero] at h0 a0
    have ih' := ih (first + 1)
      (fun k x hx => by
        have := hat (k + 1) x (by rw [List.getElem?_cons_succ]; exact hx)
        have e : first + 1 + k = first + (k + 1) := by omega
        rw [e]; exact this)
      (fun k x hx => by
        have := hev (k + 1) x (by rw [List.getElem?_cons_succ]; exact hx)
        have e : first + 1 + k = first + (k + 1) := by omega
        rw [e]; exact this)
    simp only [treatOpsOfRun, List.length_cons]
    rw [ih', c10d_treatTrace_succ]
    have hr : cfg.runs first .treatments = cfg.useTreatments := rfl
    rw [hr]
    cases cfg.useTreatments with
    | false => simp
    | true =>
      simp only [if_true, List.flatMap_append]
      rw [c10d_actionGen_treatments, h0, c10d_eventsAt_flatMap, c10d_opsAt_tags ts inputAt inp first a0]

/-! ### exactly once -/

theorem c10d_eventAt_apply (t : TreatSpec) (k : Nat) : t.eventAt k = .apply ↔ k = t.start := by
  unfold TreatSpec.eventAt
  by_cases h1 : t.start = k
  · simp [h1]
  · have : ¬ k = t.start := fun h => h1 h.symm
    simp only [h1, if_false, this, iff_false]
    split <;> simp

theorem c10d_tagsOf_filter_apply (step i j : Nat) (ev : TreatEvent) :
    (tagsOf step j ev).filter (fun tag => tag.2.1 == i && !tag.2.2) =
      if j = i then (if ev = .apply then [(step, j, false)] else []) else [] := by
  cases ev <;> by_cases h : j = i <;> simp [tagsOf, h]

theorem c10d_tagsOf_filter_finish (step i j : Nat) (ev : TreatEvent) :
    (tagsOf step j ev).filter (fun tag => tag.2.1 == i && tag.2.2) =
      if j = i then (if ev = .finish then [(step, j, true)] else []) else [] := by
  cases ev <;> by_cases h : j = i <;> simp [tagsOf, h]

theorem c10d_trace_filter_apply (ts : List Treatment) (first n i : Nat) (hi : i < ts.length) :
    (treatTrace ts first n).filter (fun tag => tag.2.1 == i && !tag.2.2) =
      if first ≤ (ts[i]!).1.start ∧ (ts[i]!).1.start < first + n then [((ts[i]!).1.start, i, false)] else [] := by
  unfold treatTrace treatTagsAt
  rw [List.filter_flatMap]
  have e : (fun k => ((List.range ts.length).flatMap fun j => tagsOf (first + k) j ((ts[j]!).1.eventAt (first + k))).filter
        (fun tag => tag.2.1 == i && !tag.2.2)) =
      (fun k => if first + k = (ts[i]!).1.start then [(first + k, i, false)] else []) := by
    funext k
    rw [List.filter_flatMap]
    simp only [c10d_tagsOf_filter_apply]
    rw [c10d_flatMap_range_eq, if_pos hi]
    have hw := c10d_eventAt_apply (ts[i]!).1 (first + k)
    by_cases h : first + k = (ts[i]!).1.start
    · rw [if_pos (hw.mpr h), if_pos h]
    · rw [if_neg (fun x => h (hw.mp x)), if_neg h]
  rw [e, c10d_flatMap_range_shift]
  by_cases h : first ≤ (ts[i]!).1.start ∧ (ts[i]!).1.start < first + n
  · rw [if_pos h, if_pos h]
    have : first + ((ts[i]!).1.start - first) = (ts[i]!).1.start := by omega
    rw [this]
  · rw [if_neg h, if_neg h]

theorem c10d_trace_filter_finish (ts : List Treatment) (first n i : Nat) (hi : i < ts.length)
    (hlt : (ts[i]!).1.pesticide = true → (ts[i]!).1.start < (ts[i]!).1.end_) :
    (treatTrace ts first n).filter (fun tag => tag.2.1 == i && tag.2.2) =
      if (ts[i]!).1.pesticide = true ∧ first ≤ (ts[i]!).1.end_ ∧ (ts[i]!).1.end_ < first + n
      then [((ts[i]!).1.end_, i, true)] else [] := by
  unfold treatTrace treatTagsAt
  rw [List.filter_flatMap]
  have e : (fun k => ((List.range ts.length).flatMap fun j => tagsOf (first + k) j ((ts[j]!).1.eventAt (first + k))).filter
        (fun tag => tag.2.1 == i && tag.2.2)) =
      (fun k => if first + k = (ts[i]!).1.end_ then (if (ts[i]!).1.pesticide = true then [(first + k, i, true)] else []) else []) := by
    funext k
    rw [List.filter_flatMap]
    simp only [c10d_tagsOf_filter_finish]
    rw [c10d_flatMap_range_eq, if_pos hi]
    have hw := (C10_when (ts[i]!).1 hlt (first + k)).2.1
    by_cases h : first + k = (ts[i]!).1.end_
    · rw [if_pos h]
      by_cases hp : (ts[i]!).1.pesticide = true
      · rw [if_pos (hw.mpr ⟨hp, h⟩), if_pos hp]
      · rw [if_neg (fun x => hp (hw.mp x).1), if_neg hp]
    · rw [if_neg (fun x => h (hw.mp x).2), if_neg h]
  rw [e, c10d_flatMap_range_shift]
  by_cases hp : (ts[i]!).1.pesticide = true
  · by_cases h : first ≤ (ts[i]!).1.end_ ∧ (ts[i]!).1.end_ < first + n
    · rw [if_pos h, if_pos hp, if_pos ⟨hp, h⟩]
      have : first + ((ts[i]!).1.end_ - first) = (ts[i]!).1.end_ := by omega
      rw [this]
    · rw [if_neg h, if_neg (fun x => h x.2)]
  · have hn : ¬ ((ts[i]!).1.pesticide = true ∧ first ≤ (ts[i]!).1.end_ ∧ (ts[i]!).1.end_ < first + n) :=
      fun x => hp x.1
    rw [if_neg hn, if_neg hp]
    split <;> rfl

/-! ### clearing -/

theorem c10d_mem_clearAfter (ts : List Treatment) (s : Nat) (t : Treatment) :
    t ∈ clearAfter ts s ↔ (t ∈ ts ∧ t.1.start ≤ s) := by
  unfold clearAfter
  simp only [List.mem_filter, Bool.not_eq_true', decide_eq_false_iff_not, Nat.not_lt]

theorem c10d_clearAfter_specs (ts : List Treatment) (s : Nat) :
    (clearAfter ts s).map (·.1) = clearAfterStep (ts.map (·.1)) s := by
  unfold clearAfter clearAfterStep
  rw [List.filter_map]
  rfl

theorem c10d_eventsAt_clear_sublist (ts : List Treatment) (s step : Nat) :
    (eventsAt (clearAfter ts s) step).Sublist (eventsAt ts step) := by
  unfold eventsAt clearAfter
  exact List.Sublist.filterMap _ List.filter_sublist

theorem c10d_eventsAt_clear_before (ts : List Treatment) (s step : Nat) (hs : step ≤ s)
    (hlt : ∀ t ∈ ts, t.1.pesticide = true → t.1.start < t.1.end_) :
    eventsAt (clearAfter ts s) step = eventsAt ts step := by
  induction ts with
  | nil => rfl
  | cons t rest ih =>
    have ih' := ih (fun t ht => hlt t (List.mem_cons_of_mem _ ht))
    unfold eventsAt clearAfter at ih' ⊢
    by_cases hk : t.1.start > s
    · have hnone : t.eventOf step = none := by
        have hw := C10_when t.1 (hlt t (List.mem_cons_self ..)) step
        have : t.1.eventAt step = .nothing := hw.2.2.mpr ⟨by omega, fun ⟨hp, he⟩ => by
          have := hlt t (List.mem_cons_self ..) hp; omega⟩
        simp only [Treatment.eventOf, this]
      rw [List.filter_cons_of_neg (by simpa using hk), List.filterMap_cons, hnone]
      exact ih'
    · rw [List.filter_cons_of_pos (by simpa using hk), List.filterMap_cons, List.filterMap_cons, ih']

theorem c10d_eventOf_finish_flag (t : Treatment) (step : Nat) (ev : Bool × Bool × TreatApp × List Rat)
    (h : t.eventOf step = some ev) : (ev.1 = false ↔ t.1.eventAt step = .apply) := by
  unfold Treatment.eventOf at h
  cases he : t.1.eventAt step <;> rw [he] at h <;> simp only [Option.some.injEq, reduceCtorEq] at h
  · subst h; simp
  · subst h; simp

/-! ### executable comparison of an error result (for concrete instances) -/

def c10d_fails {α : Type} (r : Except ErrKind α) (e : ErrKind) : Bool :=
  match r with
  | .error e' => decide (e' = e)
  | .ok _ => false

theorem c10d_eq_error {α : Type} {r : Except ErrKind α} {e : ErrKind} (h : c10d_fails r e = true) : r = .error e := by
  cases r with
  | ok a => cases h
  | error e' => simp only [c10d_fails, decide_eq_true_eq] at h; rw [h]

end Pops
