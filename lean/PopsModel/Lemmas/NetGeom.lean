/-
  C15 lemmas about the grid: the coded clipping rule (`cell_out_of_bbox` with the maximum indices
  taken from the south-east corner coordinate) against the study area in coordinates.
-/
import PopsModel.Model.NetPred
namespace Pops.Net

theorem div_le_div_right {a b c : Rat} (h : a ≤ b) (hc : 0 < c) : a / c ≤ b / c := by
  apply Rat.not_lt.mp
  intro hlt
  have h1 := (Rat.div_lt_iff hc).mp hlt
  rw [Rat.div_mul_cancel (by grind)] at h1
  grind

theorem div_nonneg_iff {a c : Rat} (hc : 0 < c) : 0 ≤ a / c ↔ 0 ≤ a := by
  constructor
  · intro h
    apply Rat.not_lt.mp
    intro hlt
    have : a / c < 0 := (Rat.div_lt_iff hc).mpr (by grind)
    grind
  · intro h
    apply Rat.not_lt.mp
    intro hlt
    have := (Rat.div_lt_iff hc).mp hlt
    grind

theorem floor_nonneg_iff {q : Rat} : 0 ≤ q.floor ↔ 0 ≤ q := by
  have := @Rat.le_floor_iff 0 q
  simpa using this

/-- A quotient below the corner quotient plus one: `floor q ≤ floor Q → q < Q + 1`. -/
theorem lt_add_one_of_floor_le {q Q : Rat} (h : q.floor ≤ Q.floor) : q < Q + 1 := by
  have h1 := Rat.lt_floor_add_one q
  have h2 : ((q.floor + 1 : Int) : Rat) ≤ ((Q.floor + 1 : Int) : Rat) :=
    Rat.intCast_le_intCast.mpr (by omega)
  have h3 := Rat.floor_le Q
  have h4 : ((Q.floor + 1 : Int) : Rat) = (Q.floor : Rat) + 1 := by
    rw [Rat.intCast_add]; rfl
  grind

/-- A point of the study area (closed box, as `xy_out_of_bbox` defines it) is never clipped. -/
theorem inside_not_cellOut (g : Grid) (hew : 0 < g.ewRes) (hns : 0 < g.nsRes) (x y : Rat)
    (h : g.xyOut x y = false) : g.cellOut (g.xyToRowCol x y) = false := by
  simp only [Grid.xyOut, Bool.or_eq_false_iff, decide_eq_false_iff_not, Rat.not_lt] at h
  obtain ⟨⟨⟨h1, h2⟩, h3⟩, h4⟩ := h
  simp only [Grid.cellOut, Grid.maxRow, Grid.maxCol, Grid.xyToRowCol, rfloor, Bool.or_eq_false_iff]
  refine ⟨⟨⟨?_, ?_⟩, ?_⟩, ?_⟩
  · exact decide_eq_false (Int.not_lt.mpr (Rat.floor_monotone
      (div_le_div_right (show g.north - y ≤ g.north - g.south by grind) hns)))
  · exact decide_eq_false (Int.not_lt.mpr
      (floor_nonneg_iff.mpr ((div_nonneg_iff hns).mpr (show 0 ≤ g.north - y by grind))))
  · exact decide_eq_false (Int.not_lt.mpr (Rat.floor_monotone
      (div_le_div_right (show x - g.west ≤ g.east - g.west by grind) hew)))
  · exact decide_eq_false (Int.not_lt.mpr
      (floor_nonneg_iff.mpr ((div_nonneg_iff hew).mpr (show 0 ≤ x - g.west by grind))))

/-- What the coded rule accepts, in coordinates: the study area extended by one cell size beyond
    the east and the south edge (exclusive). -/
theorem not_cellOut_region (g : Grid) (hew : 0 < g.ewRes) (hns : 0 < g.nsRes) (x y : Rat)
    (h : g.cellOut (g.xyToRowCol x y) = false) :
    g.west ≤ x ∧ x < g.east + g.ewRes ∧ g.south - g.nsRes < y ∧ y ≤ g.north := by
  simp only [Grid.cellOut, Grid.maxRow, Grid.maxCol, Grid.xyToRowCol, rfloor, Bool.or_eq_false_iff] at h
  obtain ⟨⟨⟨h1, h2⟩, h3⟩, h4⟩ := h
  have h1 := Int.not_lt.mp (of_decide_eq_false h1)
  have h2 := Int.not_lt.mp (of_decide_eq_false h2)
  have h3 := Int.not_lt.mp (of_decide_eq_false h3)
  have h4 := Int.not_lt.mp (of_decide_eq_false h4)
  have r0 := (div_nonneg_iff hns).mp (floor_nonneg_iff.mp h2)
  have c0 := (div_nonneg_iff hew).mp (floor_nonneg_iff.mp h4)
  have r1 := (Rat.div_lt_iff hns).mp (lt_add_one_of_floor_le h1)
  have c1 := (Rat.div_lt_iff hew).mp (lt_add_one_of_floor_le h3)
  rw [Rat.add_mul, Rat.div_mul_cancel (by grind)] at r1 c1
  refine ⟨by grind, by grind, by grind, by grind⟩

end Pops.Net
