/-
  Helper lemmas for Props/C05Guard.lean: `addLast` on a non-empty list, written with
  `dropLast` / `getLast!`.
-/
import PopsModel.Lemmas.HostMech3
namespace Pops

/-- On a non-empty list `v.back() += k` changes exactly the last element. -/
theorem guard_addLast_eq (l : List Int) (k : Int) (h : l ≠ []) :
    addLast l k = l.dropLast ++ [l.getLast! + k] := by
  induction l with
  | nil => exact absurd rfl h
  | cons x t ih => cases t with
    | nil => rfl
    | cons y t' =>
      have := ih (by simp)
      have hl : (x :: y :: t').getLast! = (y :: t').getLast! := by
        simp only [List.getLast!_eq_getLast?_getD, List.getLast?_cons_cons]
      simp only [addLast, this, List.dropLast_cons_cons, List.cons_append, hl]

theorem guard_sumL_addLast (l : List Int) (k : Int) (h : l ≠ []) :
    sumL (addLast l k) = sumL l + k := by
  induction l with
  | nil => exact absurd rfl h
  | cons x t ih => cases t with
    | nil => simp [addLast]
    | cons y t' =>
      have := ih (by simp)
      simp only [addLast, sumL_cons] at *
      omega

/-- The mortality cohorts after one latency step, on the C++ domain (`mort ≠ []`). -/
theorem guard_stepForward_mort (latency step : Nat) (c : Cell) (hm : c.mort ≠ []) :
    (c.stepForward .sei latency step).mort =
      if step ≥ latency then c.mort.dropLast ++ [c.mort.getLast! + c.e.headD 0] else c.mort := by
  unfold Cell.stepForward
  by_cases hs : step ≥ latency
  · simp only [hs, if_true]
    cases he : c.e with
    | nil =>
      have h := guard_addLast_eq c.mort 0 hm
      rw [mech_addLast_zero] at h
      simpa only [List.headD_nil] using h
    | cons o rest =>
      simp only [List.headD_cons]
      exact guard_addLast_eq c.mort o hm
  · simp only [hs, if_false]

theorem guard_stepForward_i (latency step : Nat) (c : Cell) :
    (c.stepForward .sei latency step).i = if step ≥ latency then c.i + c.e.headD 0 else c.i := by
  unfold Cell.stepForward
  by_cases hs : step ≥ latency
  · simp only [hs, if_true]
    cases he : c.e with
    | nil => simp only [List.headD_nil]; omega
    | cons o rest => simp only [List.headD_cons]
  · simp only [hs, if_false]

/-- `i = sum mort` is preserved by the latency step on the C++ domain. On an empty tracker the
    model would add the matured hosts to `i` only (the hypothesis `hm` is needed). -/
theorem guard_stepForward_mortOK (latency step : Nat) (c : Cell) (hm : c.mort ≠ [])
    (hok : c.mortOK = true) : (c.stepForward .sei latency step).mortOK = true := by
  have hok' := (mech_mortOK_iff c).mp hok
  rw [mech_mortOK_iff, guard_stepForward_i]
  unfold Cell.stepForward
  by_cases hs : step ≥ latency
  · simp only [hs, if_true]
    cases he : c.e with
    | nil => simp only [List.headD_nil]; omega
    | cons o rest =>
      simp only [List.headD_cons]
      rw [guard_sumL_addLast c.mort o hm]; omega
  · simp only [hs, if_false]; exact hok'

end Pops
