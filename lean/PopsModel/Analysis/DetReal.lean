/-
  The real-number instance of `TF`: the kernel formulas of Model/KernLaws.lean instantiated at `ℝ`
  are the objects the Analysis theorems (C13, C14) speak about. Mathlib, single modules only.
-/
import PopsModel.Model.KernLaws
import Mathlib.Analysis.SpecialFunctions.Pow.Real
import Mathlib.Analysis.SpecialFunctions.Trigonometric.Arctan
import Mathlib.Analysis.SpecialFunctions.Trigonometric.Inverse
import Mathlib.Analysis.SpecialFunctions.Gamma.Basic
import Mathlib.Analysis.SpecialFunctions.Sqrt
import Mathlib.Algebra.Order.Floor.Ring

namespace Pops
open Classical in
/-- Exact real arithmetic and the real elementary functions. Comparisons are classical. -/
noncomputable def TF.real : TF ℝ where
  add := (· + ·)
  sub := (· - ·)
  mul := (· * ·)
  div := (· / ·)
  pow := fun x y => x ^ y
  fmod := fun x y => x - y * (if 0 ≤ x / y then (⌊x / y⌋ : ℝ) else (⌈x / y⌉ : ℝ))
  neg := fun x => -x
  abs := fun x => |x|
  exp := Real.exp
  log := Real.log
  sqrt := Real.sqrt
  tan := Real.tan
  atan := Real.arctan
  acos := Real.arccos
  cosh := Real.cosh
  sin := Real.sin
  cos := Real.cos
  tgamma := Real.Gamma
  ofNat := fun n => (n : ℝ)
  pi := Real.pi
  ltb := fun a b => decide (a < b)
  leb := fun a b => decide (a ≤ b)
  eqb := fun a b => decide (a = b)
  lround := fun x => if 0 ≤ x then ⌊x + 1 / 2⌋ else -⌊-x + 1 / 2⌋
  ceilI := fun x => ⌈x⌉

end Pops
