/-
  C14 with a window that is normalised only approximately: `p ≥ 0`, `p.sum = 1 + ε`.
  (The C++ divides doubles by their sum, so the stored weights sum to 1 up to rounding.)

  The invariants `PInv` / `LInv` of Analysis/DetQuota.lean do not mention the sum of `p`; the sum
  enters in two places only:
   * a pick lands on a cell with a positive remaining share (needs `∑ r > 0` before each of the `N`
     picks, i.e. `1 + ε - (N-1)/N > 0`, i.e. `-1 < N ε`);
   * after the `N` picks no remaining share exceeds `max (1/N) ε` (needs `∑ r = ε` at the end).
  Result: for `-1 < N ε ≤ 1` the bounds of the exact case hold UNCHANGED (`|k_c - N p_c| ≤ 1`, and
  `k_c - N p_c < 1` at every moment); for `N ε > 1` the lower side becomes `-(N ε)`.
  (Mathlib, single modules, as Analysis/DetQuota.lean.)
-/
import PopsModel.Analysis.DetQuota

namespace Pops.Det
open Finset

variable {n : ℕ}

/-! ### Function level: any arg-max choice (any tie-breaking rule) -/

theorem sum_r_approx {p : Fin n → ℚ} {δ ε : ℚ} {t : ℕ} {s : St n} (h : PInv p δ t s)
    (hp : ∑ c, p c = 1 + ε) : ∑ c, s.r c = 1 + ε - t * δ := by
  have h1 : ∑ c, s.r c = ∑ c, p c - (∑ c, (s.k c : ℚ)) * δ := by
    rw [Finset.sum_mul, ← Finset.sum_sub_distrib]
    exact Finset.sum_congr rfl (fun c _ => h.rel c)
  have h2 : (∑ c, (s.k c : ℚ)) = (t : ℚ) := by
    rw [← h.cnt]; push_cast; rfl
  rw [h1, hp, h2]

/-- One pick at a cell that holds the maximum AND a positive remaining share keeps the invariant.
    (The proof of `inv_pickAt` with its only use of `∑ p = 1` turned into the hypothesis `hpos`.) -/
theorem inv_pickAt_of_pos (p : Fin n → ℚ) (N : ℕ) (hN : 1 ≤ N)
    (t : ℕ) (s : St n) (h : PInv p (1 / N) t s)
    (c0 : Fin n) (hmax : ∀ c, s.r c ≤ s.r c0) (hpos : 0 < s.r c0) :
    PInv p (1 / N) (t + 1) (pickAt c0 (1 / N) s) := by
  have hNpos : (0 : ℚ) < N := by exact_mod_cast hN
  have hδpos : (0 : ℚ) < 1 / N := by positivity
  refine ⟨?_, ?_, ?_, ?_, ?_⟩
  · intro c
    by_cases hc : c = c0
    · subst hc; simp only [pickAt, Function.update_self, h.rel c]; push_cast; ring
    · simp only [pickAt, Function.update_of_ne hc, h.rel c]
  · simp only [pickAt]
    rw [Finset.sum_update_of_mem (Finset.mem_univ _)]
    have h2 : ∑ c, s.k c = s.k c0 + ∑ c ∈ univ \ {c0}, s.k c := by
      rw [← Finset.add_sum_erase univ s.k (Finset.mem_univ c0)]
      congr 1
      apply Finset.sum_congr _ (fun _ _ => rfl)
      ext x; simp
    have := h.cnt
    omega
  · intro c
    by_cases hc : c = c0
    · subst hc; simp only [pickAt, Function.update_self]; linarith
    · simp only [pickAt, Function.update_of_ne hc]; exact h.low c
  · intro c d hd
    by_cases hdc : d = c0
    · subst hdc
      simp only [pickAt, Function.update_self]
      by_cases hc : c = d
      · subst hc; simp only [Function.update_self]; linarith
      · rw [Function.update_of_ne hc]; have := hmax c; linarith
    · simp only [pickAt, Function.update_of_ne hdc] at hd ⊢
      by_cases hc : c = c0
      · subst hc; simp only [Function.update_self]; have := h.near c d hd; linarith
      · rw [Function.update_of_ne hc]; exact h.near c d hd
  · intro c d hpd
    simp only [pickAt]
    by_cases hc : c = c0
    · by_cases hd : d = c0
      · subst hc; subst hd; simp
      · subst hc
        rw [Function.update_self, Function.update_of_ne hd]
        by_contra hgt
        have hk : s.k d + 1 ≤ s.k c := by omega
        have hkq : (s.k d : ℚ) + 1 ≤ (s.k c : ℚ) := by exact_mod_cast hk
        have h1 := h.rel c
        have h2 := h.rel d
        have h3 := hmax d
        have : (s.k c : ℚ) * (1 / N) ≥ ((s.k d : ℚ) + 1) * (1 / N) :=
          mul_le_mul_of_nonneg_right hkq hδpos.le
        rw [h1, h2, hpd] at h3
        linarith
    · rw [Function.update_of_ne hc]
      by_cases hd : d = c0
      · subst hd; rw [Function.update_self]; have := h.eq c d hpd; omega
      · rw [Function.update_of_ne hd]; exact h.eq c d hpd

/-- Before each of the `N` picks the maximal remaining share is positive, provided `-1 < N ε`. -/
theorem max_pos_approx (p : Fin n → ℚ) (ε : ℚ) (hp : ∑ c, p c = 1 + ε) (N : ℕ) (hN : 1 ≤ N)
    (hε : -1 < N * ε) (t : ℕ) (ht : t < N) (s : St n) (h : PInv p (1 / N) t s)
    (c0 : Fin n) (hmax : ∀ c, s.r c ≤ s.r c0) : 0 < s.r c0 := by
  have hNpos : (0 : ℚ) < N := by exact_mod_cast hN
  by_contra hneg
  push Not at hneg
  have hall : ∀ c, s.r c ≤ 0 := fun c => le_trans (hmax c) hneg
  have hs := sum_r_approx h hp
  have hle : ∑ c, s.r c ≤ 0 := Finset.sum_nonpos (fun c _ => hall c)
  have h1 : (t : ℚ) + 1 ≤ N := by exact_mod_cast ht
  have h2 : (1 + ε - t * (1 / N)) * N ≤ 0 := by
    rw [← hs]; exact mul_nonpos_of_nonpos_of_nonneg hle hNpos.le
  have h3 : (1 + ε - t * (1 / N)) * N = N + N * ε - t := by field_simp
  linarith

theorem inv_pickAt_approx (p : Fin n → ℚ) (ε : ℚ) (hp : ∑ c, p c = 1 + ε) (N : ℕ) (hN : 1 ≤ N)
    (hε : -1 < N * ε) (t : ℕ) (ht : t < N) (s : St n) (h : PInv p (1 / N) t s)
    (c0 : Fin n) (hmax : ∀ c, s.r c ≤ s.r c0) :
    PInv p (1 / N) (t + 1) (pickAt c0 (1 / N) s) :=
  inv_pickAt_of_pos p N hN t s h c0 hmax (max_pos_approx p ε hp N hN hε t ht s h c0 hmax)

/-- After all `N` picks: no cell a whole disperser ahead, no cell more than `max 1 (N ε)` behind. -/
theorem quota_of_inv_approx {p : Fin n → ℚ} (hp0 : ∀ c, 0 ≤ p c) {ε : ℚ} (hp : ∑ c, p c = 1 + ε)
    {N : ℕ} (hN : 1 ≤ N) {s : St n} (h : PInv p (1 / N) N s) (c : Fin n) :
    (s.k c : ℚ) - N * p c < 1 ∧ -(max 1 (N * ε)) ≤ (s.k c : ℚ) - N * p c := by
  have hNpos : (0 : ℚ) < N := by exact_mod_cast hN
  have hδpos : (0 : ℚ) < 1 / N := by positivity
  have hsum := sum_r_approx h hp
  have hfin : ∑ c, s.r c = ε := by rw [hsum]; field_simp; ring
  have hup : s.r c ≤ max (1 / (N : ℚ)) ε := by
    by_contra hgt
    push Not at hgt
    have hg1 : 1 / (N : ℚ) < s.r c := lt_of_le_of_lt (le_max_left _ _) hgt
    have hg2 : ε < s.r c := lt_of_le_of_lt (le_max_right _ _) hgt
    have hall : ∀ d, 0 ≤ s.r d := by
      intro d
      by_cases hk : 1 ≤ s.k d
      · have := h.near c d hk; linarith
      · have hk0 : s.k d = 0 := by omega
        have := h.rel d; rw [hk0] at this; simp at this; rw [this]; exact hp0 d
    have : s.r c ≤ ∑ d, s.r d :=
      Finset.single_le_sum (f := fun d => s.r d) (fun d _ => hall d) (Finset.mem_univ c)
    linarith
  have hrel := h.rel c
  have e1 : (1 / (N : ℚ)) * N = 1 := by field_simp
  refine ⟨upper_of_inv hN h c, ?_⟩
  have h3 : s.r c * N ≤ max 1 (N * ε) := by
    rcases le_max_iff.mp hup with h4 | h4
    · calc s.r c * N ≤ (1 / N) * N := mul_le_mul_of_nonneg_right h4 hNpos.le
        _ = 1 := e1
        _ ≤ max 1 (N * ε) := le_max_left _ _
    · calc s.r c * N ≤ ε * N := mul_le_mul_of_nonneg_right h4 hNpos.le
        _ = N * ε := mul_comm _ _
        _ ≤ max 1 (N * ε) := le_max_right _ _
  rw [hrel] at h3
  have : (p c - s.k c * (1 / N)) * N = p c * N - s.k c := by field_simp
  linarith

/-! ### List level: the scan-order arg-max of the executable model -/

theorem linv_step_approx (p : List ℚ) (ε : ℚ) (hp : p.sum = 1 + ε) (N : ℕ) (hN : 1 ≤ N)
    (hε : -1 < N * ε) (init : ℚ) (hinit : init ≤ -1)
    (t : ℕ) (ht : t < N) (s : Allot ℚ) (h : LInv p (1 / N) t s) :
    LInv p (1 / N) (t + 1) (pickStep ltQ subQ init (1 / N) s).1 ∧
      (pickStep ltQ subQ init (1 / N) s).2.isSome := by
  have hsum : ∑ c : Fin p.length, p.getD c 0 = 1 + ε := by rw [sum_view, hp]
  have hNpos : (0 : ℚ) < N := by exact_mod_cast hN
  have hδle : (1 : ℚ) / N ≤ 1 := by
    rw [div_le_one hNpos]; exact_mod_cast hN
  have hN1 : (1 : ℚ) ≤ N := by exact_mod_cast hN
  -- the window is not empty (its sum is positive) and every remaining share exceeds the initial value
  have hne : 0 < p.length := by
    rcases Nat.eq_zero_or_pos p.length with h0 | h0
    · have : p = [] := List.length_eq_zero_iff.mp h0
      rw [this] at hp; simp only [List.sum_nil] at hp
      have hε1 : ε = -1 := by linarith
      rw [hε1] at hε
      linarith
    · exact h0
  have hex : ∃ x ∈ s.copy, init < x := by
    have hl : 0 < s.copy.length := by rw [h.lenCopy]; exact hne
    refine ⟨s.copy[0], List.getElem_mem hl, ?_⟩
    have := h.inv.low ⟨0, hne⟩
    simp only [view, List.getD_eq_getElem?_getD, List.getElem?_eq_getElem hl, Option.getD_some] at this
    linarith
  obtain ⟨j, hj, hscan, hmaxl⟩ := argmaxScan_spec s.copy init hex
  have hjn : j < p.length := by rw [← h.lenCopy]; exact hj
  have hstep : pickStep ltQ subQ init (1 / N) s =
      ({ copy := s.copy.modify j (subQ · (1 / N)), counts := s.counts.modify j (· + 1) }, some j) := by
    simp [pickStep, hscan]
  rw [hstep]
  refine ⟨⟨by simp [h.lenCopy], by simp [h.lenCounts], ?_⟩, rfl⟩
  have hmax : ∀ c : Fin p.length, (view (n := p.length) s).r c ≤ (view (n := p.length) s).r ⟨j, hjn⟩ := by
    intro c
    exact hmaxl c (by rw [h.lenCopy]; exact c.2)
  have := inv_pickAt_approx (fun c => p.getD c 0) ε hsum N hN hε t ht (view s) h.inv ⟨j, hjn⟩ hmax
  have hv : view (n := p.length)
      { copy := s.copy.modify j (subQ · (1 / N)), counts := s.counts.modify j (· + 1) } =
      pickAt ⟨j, hjn⟩ (1 / N) (view s) := by
    simp only [view, pickAt, St.mk.injEq]
    constructor
    · funext c
      rw [getD_modify_rat _ _ _ _ (by rw [h.lenCopy]; exact c.2)]
      by_cases hc : c = ⟨j, hjn⟩
      · subst hc; simp [subQ]
      · have : j ≠ c.1 := fun e => hc (Fin.ext e.symm)
        simp [this, Function.update_of_ne hc]
    · funext c
      rw [getD_modify_nat _ _ _ _ (by rw [h.lenCounts]; exact c.2)]
      by_cases hc : c = ⟨j, hjn⟩
      · subst hc; simp
      · have : j ≠ c.1 := fun e => hc (Fin.ext e.symm)
        simp [this, Function.update_of_ne hc]
  rw [hv]; exact this

theorem linv_run_approx (p : List ℚ) (hp0 : ∀ x ∈ p, 0 ≤ x) (ε : ℚ) (hp : p.sum = 1 + ε) (N : ℕ)
    (hN : 1 ≤ N) (hε : -1 < N * ε) (init : ℚ) (hinit : init ≤ -1) :
    ∀ t, t ≤ N → LInv p (1 / N) t (runPicks ltQ subQ init (1 / N) t (Allot.fresh p))
  | 0, _ => by
      have hNpos : (0 : ℚ) < N := by exact_mod_cast hN
      exact linv_fresh p hp0 (1 / N) (by positivity)
  | t + 1, ht => by
      simp only [runPicks]
      exact (linv_step_approx p ε hp N hN hε init hinit t (by omega) _
        (linv_run_approx p hp0 ε hp N hN hε init hinit t (by omega))).1

/-- **Quota, approximately normalised window.** `p ≥ 0`, `p.sum = 1 + ε`, `-1 < N ε`: after the `N`
    calls `-(max 1 (N ε)) ≤ k_c - N p_c < 1`, i.e. `QuotaBound` with tolerance `max 0 (N ε - 1)`
    (zero when `N ε ≤ 1`), and at every moment no cell is a whole disperser ahead. -/
theorem quota_list_approx (p : List ℚ) (hp0 : ∀ x ∈ p, 0 ≤ x) (ε : ℚ) (hp : p.sum = 1 + ε) (N : ℕ)
    (hN : 1 ≤ N) (hε : -1 < N * ε) (init : ℚ) (hinit : init ≤ -1) :
    QuotaBound N p (runPicks ltQ subQ init (1 / N) N (Allot.fresh p)).counts (max 0 (N * ε - 1)) = true ∧
    ∀ t, t ≤ N → QuotaUpper N p (runPicks ltQ subQ init (1 / N) t (Allot.fresh p)).counts 0 = true := by
  constructor
  · have h := linv_run_approx p hp0 ε hp N hN hε init hinit N le_rfl
    have hsum : ∑ c : Fin p.length, p.getD c 0 = 1 + ε := by rw [sum_view, hp]
    have h0 : ∀ c : Fin p.length, 0 ≤ p.getD c 0 := by
      intro c
      have : p[c.1] ∈ p := List.getElem_mem c.2
      simpa [List.getD_eq_getElem?_getD] using hp0 _ this
    have hmx : (1 : ℚ) + max 0 (N * ε - 1) = max 1 (N * ε) := by
      rcases le_total ((N : ℚ) * ε) 1 with h1 | h1
      · rw [max_eq_left (by linarith), max_eq_left h1]; ring
      · rw [max_eq_right (by linarith), max_eq_right h1]; ring
    simp only [QuotaBound, List.all_eq_true, List.mem_range, Bool.and_eq_true, excess]
    intro c hc
    have := quota_of_inv_approx (n := p.length) h0 hsum hN h.inv ⟨c, hc⟩
    simp only [view] at this
    have hge : (1 : ℚ) ≤ 1 + max 0 (N * ε - 1) := by
      have := le_max_left (0 : ℚ) (N * ε - 1); linarith
    exact ⟨decide_eq_true (by linarith [this.1]), decide_eq_true (by rw [hmx]; linarith [this.2])⟩
  · intro t ht
    have h := linv_run_approx p hp0 ε hp N hN hε init hinit t ht
    simp only [QuotaUpper, QuotaUpperAt, List.all_eq_true, List.mem_range, excess]
    intro c hc
    have := upper_of_inv (n := p.length) hN h.inv ⟨c, hc⟩
    simp only [view] at this
    exact decide_eq_true (by linarith)

theorem equal_share_list_approx (p : List ℚ) (hp0 : ∀ x ∈ p, 0 ≤ x) (ε : ℚ) (hp : p.sum = 1 + ε)
    (N : ℕ) (hN : 1 ≤ N) (hε : -1 < N * ε) (init : ℚ) (hinit : init ≤ -1) (t : ℕ) (ht : t ≤ N) :
    EqualShareBound p (runPicks ltQ subQ init (1 / N) t (Allot.fresh p)).counts = true := by
  have h := linv_run_approx p hp0 ε hp N hN hε init hinit t ht
  simp only [EqualShareBound, List.all_eq_true, List.mem_range, Bool.or_eq_true, Bool.not_eq_true',
    beq_eq_false_iff_ne, ne_eq, near1, Bool.and_eq_true, decide_eq_true_eq]
  intro c hc d hd
  by_cases hpe : p.getD c 0 = p.getD d 0
  · right
    have h1 := h.inv.eq ⟨c, hc⟩ ⟨d, hd⟩ hpe
    have h2 := h.inv.eq ⟨d, hd⟩ ⟨c, hc⟩ hpe.symm
    simp only [view] at h1 h2
    exact ⟨h1, h2⟩
  · left; exact hpe

theorem picks_counted_approx (p : List ℚ) (hp0 : ∀ x ∈ p, 0 ≤ x) (ε : ℚ) (hp : p.sum = 1 + ε)
    (N : ℕ) (hN : 1 ≤ N) (hε : -1 < N * ε) (init : ℚ) (hinit : init ≤ -1) (t : ℕ) (ht : t < N) :
    (pickStep ltQ subQ init (1 / N) (runPicks ltQ subQ init (1 / N) t (Allot.fresh p))).2.isSome = true :=
  (linv_step_approx p ε hp N hN hε init hinit t ht _
    (linv_run_approx p hp0 ε hp N hN hε init hinit t (by omega))).2

/-- Mirror symmetry of the counts follows from equal shares and mirror-symmetric weights
    (the argument of `C14_mirror`, for any count vector). -/
theorem mirror_of_equal_share (rows cols : ℕ) (p : List ℚ) (k : List ℕ) (hlen : p.length = rows * cols)
    (hsym : ∀ c, c < rows * cols → ∀ d ∈ mirrorCells rows cols c, p.getD c 0 = p.getD d 0)
    (he : EqualShareBound p k = true) : MirrorBound rows cols k = true := by
  simp only [EqualShareBound, List.all_eq_true, List.mem_range, Bool.or_eq_true, Bool.not_eq_true',
    beq_eq_false_iff_ne, ne_eq] at he
  simp only [MirrorBound, MirrorBoundAt, List.all_eq_true, List.mem_range]
  intro c hc d hd
  have hcols : 0 < cols := by
    rcases Nat.eq_zero_or_pos cols with h0 | h0
    · subst h0; simp at hc
    · exact h0
  have hi : c / cols < rows := by
    rw [Nat.div_lt_iff_lt_mul hcols]; exact hc
  have hj : c % cols < cols := Nat.mod_lt _ hcols
  have hdlt : d < rows * cols := by
    have key : ∀ a b, a < rows → b < cols → a * cols + b < rows * cols := by
      intro a b ha hb
      calc a * cols + b < a * cols + cols := by omega
        _ = (a + 1) * cols := by rw [Nat.add_mul, Nat.one_mul]
        _ ≤ rows * cols := Nat.mul_le_mul_right _ ha
    simp only [mirrorCells, List.mem_cons, List.not_mem_nil, or_false] at hd
    generalize c / cols = i at hd hi
    generalize c % cols = j at hd hj
    rcases hd with rfl | rfl | rfl
    · exact key _ _ (by omega) hj
    · exact key _ _ hi (by omega)
    · exact key _ _ (by omega) (by omega)
  rcases he c (by rw [hlen]; exact hc) d (by rw [hlen]; exact hdlt) with h | h
  · exact absurd (hsym c hc d hd) h
  · exact h

end Pops.Det
