/-
  C14: the allotment theorems, over ℚ, about the executable model definitions `argmaxScan`,
  `pickStep`, `runPicks` of Model/DetPick.lean (scan-order arg-max as the C++ does) instantiated with
  the rational comparison and subtraction. (Mathlib, single modules.)

  Function-level part (adapted from notes/probes/quota_probe.lean): four inductive invariants
    rel  : remaining share = p_c - k_c * δ          cnt : picks so far = t
    low  : every remaining share > -δ                near: a cell picked at least once is within δ below every other
  plus the equal-share invariant `eq`: p_c = p_d -> k_c ≤ k_d + 1.
  List-level part: `argmaxScan` returns a true maximum whenever some cell exceeds the initial value
  (`-(2^31 - 1)` in the C++; here any `init ≤ -1`), and one `pickStep` is one `pickAt` on the views.
-/
import PopsModel.Model.DetPick
import PopsModel.Model.DetPred
import Mathlib.Algebra.BigOperators.Fin
import Mathlib.Algebra.BigOperators.Group.Finset.Basic
import Mathlib.Algebra.Order.BigOperators.Group.Finset
import Mathlib.Algebra.BigOperators.Ring.Finset
import Mathlib.Algebra.Order.Field.Rat
import Mathlib.Algebra.Order.Field.Basic
import Mathlib.Tactic.Linarith
import Mathlib.Tactic.Ring
import Mathlib.Tactic.FieldSimp
import Mathlib.Tactic.Positivity

namespace Pops.Det
open Finset

/-- The rational instance of the comparison `probability_copy(i, j) > max`. -/
def ltQ : ℚ → ℚ → Bool := fun a b => decide (a < b)
/-- The rational instance of `-=`. -/
def subQ : ℚ → ℚ → ℚ := fun a b => a - b

/-! ### Function-level invariants -/

variable {n : ℕ}

structure St (n : ℕ) where
  r : Fin n → ℚ
  k : Fin n → ℕ

def pickAt (c0 : Fin n) (δ : ℚ) (s : St n) : St n :=
  { r := Function.update s.r c0 (s.r c0 - δ), k := Function.update s.k c0 (s.k c0 + 1) }

structure PInv (p : Fin n → ℚ) (δ : ℚ) (t : ℕ) (s : St n) : Prop where
  rel : ∀ c, s.r c = p c - s.k c * δ
  cnt : ∑ c, s.k c = t
  low : ∀ c, -δ < s.r c
  near : ∀ c d, 1 ≤ s.k d → s.r c - δ ≤ s.r d
  eq : ∀ c d, p c = p d → s.k c ≤ s.k d + 1

theorem sum_r {p : Fin n → ℚ} {δ : ℚ} {t : ℕ} {s : St n} (h : PInv p δ t s) (hp : ∑ c, p c = 1) :
    ∑ c, s.r c = 1 - t * δ := by
  have h1 : ∑ c, s.r c = ∑ c, p c - (∑ c, (s.k c : ℚ)) * δ := by
    rw [Finset.sum_mul, ← Finset.sum_sub_distrib]
    exact Finset.sum_congr rfl (fun c _ => h.rel c)
  have h2 : (∑ c, (s.k c : ℚ)) = (t : ℚ) := by
    rw [← h.cnt]; push_cast; rfl
  rw [h1, hp, h2]

theorem inv_init (p : Fin n → ℚ) (hp0 : ∀ c, 0 ≤ p c) (δ : ℚ) (hδ : 0 < δ) :
    PInv p δ 0 { r := p, k := fun _ => 0 } := by
  refine ⟨by intro c; simp, by simp, ?_, ?_, ?_⟩
  · intro c; have := hp0 c; show -δ < p c; linarith
  · intro c d hd; simp at hd
  · intro c d _; simp

theorem inv_pickAt (p : Fin n → ℚ) (hp : ∑ c, p c = 1) (N : ℕ) (hN : 1 ≤ N)
    (t : ℕ) (ht : t < N) (s : St n) (h : PInv p (1 / N) t s)
    (c0 : Fin n) (hmax : ∀ c, s.r c ≤ s.r c0) :
    PInv p (1 / N) (t + 1) (pickAt c0 (1 / N) s) := by
  have hNpos : (0 : ℚ) < N := by exact_mod_cast hN
  have hδpos : (0 : ℚ) < 1 / N := by positivity
  have hpos : 0 < s.r c0 := by
    by_contra hneg
    push Not at hneg
    have hall : ∀ c, s.r c ≤ 0 := fun c => le_trans (hmax c) hneg
    have hs := sum_r h hp
    have hle : ∑ c, s.r c ≤ 0 := Finset.sum_nonpos (fun c _ => hall c)
    have : (t : ℚ) * (1 / N) < 1 := by
      rw [mul_one_div, div_lt_one hNpos]; exact_mod_cast ht
    linarith
  refine ⟨?_, ?_, ?_, ?_, ?_⟩
  · intro c
    by_cases hc : c = c0
    · subst hc; simp only [pickAt, Function.update_self, h.rel c]; push_cast; ring
    · simp only [pickAt, Function.update_of_ne hc, h.rel c]
  · simp only [pickAt]
    rw [Finset.sum_update_of_mem (Finset.mem_univ _)]
    have h2 : ∑ c, s.k c = s.k c0 + ∑ c ∈ univ \ {c0}, s.k c := by
      rw [← Finset.add_sum_erase univ s.k (Finset.mem_univ c0)]
      congr 1
      apply Finset.sum_congr _ (fun _ _ => rfl)
      ext x; simp
    have := h.cnt
    omega
  · intro c
    by_cases hc : c = c0
    · subst hc; simp only [pickAt, Function.update_self]; linarith
    · simp only [pickAt, Function.update_of_ne hc]; exact h.low c
  · intro c d hd
    by_cases hdc : d = c0
    · subst hdc
      simp only [pickAt, Function.update_self]
      by_cases hc : c = d
      · subst hc; simp only [Function.update_self]; linarith
      · rw [Function.update_of_ne hc]; have := hmax c; linarith
    · simp only [pickAt, Function.update_of_ne hdc] at hd ⊢
      by_cases hc : c = c0
      · subst hc; simp only [Function.update_self]; have := h.near c d hd; linarith
      · rw [Function.update_of_ne hc]; exact h.near c d hd
  · intro c d hpd
    simp only [pickAt]
    by_cases hc : c = c0
    · by_cases hd : d = c0
      · subst hc; subst hd; simp
      · subst hc
        rw [Function.update_self, Function.update_of_ne hd]
        -- the picked cell cannot already be ahead of an equal-weight cell
        by_contra hgt
        have hk : s.k d + 1 ≤ s.k c := by omega
        have hkq : (s.k d : ℚ) + 1 ≤ (s.k c : ℚ) := by exact_mod_cast hk
        have h1 := h.rel c
        have h2 := h.rel d
        have h3 := hmax d
        have : (s.k c : ℚ) * (1 / N) ≥ ((s.k d : ℚ) + 1) * (1 / N) :=
          mul_le_mul_of_nonneg_right hkq hδpos.le
        rw [h1, h2, hpd] at h3
        linarith
    · rw [Function.update_of_ne hc]
      by_cases hd : d = c0
      · subst hd; rw [Function.update_self]; have := h.eq c d hpd; omega
      · rw [Function.update_of_ne hd]; exact h.eq c d hpd

/-- At every moment no cell is a whole disperser ahead of its share. -/
theorem upper_of_inv {p : Fin n → ℚ} {N t : ℕ} (hN : 1 ≤ N) {s : St n} (h : PInv p (1 / N) t s) (c : Fin n) :
    (s.k c : ℚ) - N * p c < 1 := by
  have hNpos : (0 : ℚ) < N := by exact_mod_cast hN
  have hlow := h.low c
  have hrel := h.rel c
  have e1 : (1 / (N : ℚ)) * N = 1 := by field_simp
  have h3 : -1 < s.r c * N := by
    calc (-1 : ℚ) = -(1 / N) * N := by rw [neg_mul, e1]
      _ < s.r c * N := mul_lt_mul_of_pos_right hlow hNpos
  rw [hrel] at h3
  have : (p c - s.k c * (1 / N)) * N = p c * N - s.k c := by field_simp
  linarith

/-- After all `N` picks every cell is within one disperser of its share. -/
theorem quota_of_inv {p : Fin n → ℚ} (hp0 : ∀ c, 0 ≤ p c) (hp : ∑ c, p c = 1) {N : ℕ} (hN : 1 ≤ N)
    {s : St n} (h : PInv p (1 / N) N s) (c : Fin n) :
    (s.k c : ℚ) - N * p c ≤ 1 ∧ -1 ≤ (s.k c : ℚ) - N * p c := by
  have hNpos : (0 : ℚ) < N := by exact_mod_cast hN
  have hδpos : (0 : ℚ) < 1 / N := by positivity
  have hsum := sum_r h hp
  have hzero : ∑ c, s.r c = 0 := by rw [hsum]; field_simp; ring
  have hup : s.r c ≤ 1 / N := by
    by_contra hgt
    push Not at hgt
    have hall : ∀ d, 0 ≤ s.r d := by
      intro d
      by_cases hk : 1 ≤ s.k d
      · have := h.near c d hk; linarith
      · have hk0 : s.k d = 0 := by omega
        have := h.rel d; rw [hk0] at this; simp at this; rw [this]; exact hp0 d
    have hcpos : 0 < s.r c := by linarith
    have : 0 < ∑ d, s.r d :=
      Finset.sum_pos' (fun d _ => hall d) ⟨c, Finset.mem_univ c, hcpos⟩
    linarith
  have hrel := h.rel c
  have e1 : (1 / (N : ℚ)) * N = 1 := by field_simp
  have hu := upper_of_inv hN h c
  constructor
  · linarith
  · have h3 : s.r c * N ≤ 1 := by
      calc s.r c * N ≤ (1 / N) * N := mul_le_mul_of_nonneg_right hup hNpos.le
        _ = 1 := e1
    rw [hrel] at h3
    have : (p c - s.k c * (1 / N)) * N = p c * N - s.k c := by field_simp
    linarith

/-! ### The scan of the executable model finds a true maximum -/

theorem argmaxGo_spec (l : List ℚ) : ∀ (i : ℕ) (mx : ℚ) (best : Option ℕ),
    ((∀ x ∈ l, x ≤ mx) ∧ argmaxGo ltQ l i mx best = best) ∨
    (∃ j, j < l.length ∧ argmaxGo ltQ l i mx best = some (i + j) ∧ mx < l.getD j 0 ∧
      ∀ c, c < l.length → l.getD c 0 ≤ l.getD j 0) := by
  induction l with
  | nil => intro i mx best; left; simp [argmaxGo]
  | cons x xs ih =>
    intro i mx best
    by_cases hx : mx < x
    · have hgo : argmaxGo ltQ (x :: xs) i mx best = argmaxGo ltQ xs (i + 1) x (some i) := by
        simp [argmaxGo, ltQ, hx]
      rcases ih (i + 1) x (some i) with ⟨hall, hr⟩ | ⟨j, hj, hr, hgt, hmax⟩
      · right
        refine ⟨0, by simp, by rw [hgo, hr]; simp, by simpa using hx, ?_⟩
        intro c hc
        cases c with
        | zero => simp
        | succ c =>
          have hc' : c < xs.length := by simpa using hc
          have hm : xs[c] ∈ xs := List.getElem_mem hc'
          have := hall _ hm
          simpa [List.getD_eq_getElem?_getD, hc'] using this
      · right
        refine ⟨j + 1, by simpa using hj, by rw [hgo, hr]; congr 1; omega, ?_, ?_⟩
        · have : mx < xs.getD j 0 := lt_trans hx hgt
          simpa [List.getD_eq_getElem?_getD] using this
        · intro c hc
          cases c with
          | zero =>
            have : x ≤ xs.getD j 0 := le_of_lt hgt
            simpa [List.getD_eq_getElem?_getD] using this
          | succ c =>
            have hc' : c < xs.length := by simpa using hc
            have := hmax c hc'
            simpa [List.getD_eq_getElem?_getD] using this
    · have hgo : argmaxGo ltQ (x :: xs) i mx best = argmaxGo ltQ xs (i + 1) mx best := by
        simp [argmaxGo, ltQ, hx]
      have hxle : x ≤ mx := not_lt.mp hx
      rcases ih (i + 1) mx best with ⟨hall, hr⟩ | ⟨j, hj, hr, hgt, hmax⟩
      · left
        refine ⟨?_, by rw [hgo, hr]⟩
        intro y hy
        rcases List.mem_cons.mp hy with rfl | hy
        · exact hxle
        · exact hall y hy
      · right
        refine ⟨j + 1, by simpa using hj, by rw [hgo, hr]; congr 1; omega, ?_, ?_⟩
        · simpa [List.getD_eq_getElem?_getD] using hgt
        · intro c hc
          cases c with
          | zero =>
            have : x ≤ xs.getD j 0 := le_trans hxle (le_of_lt hgt)
            simpa [List.getD_eq_getElem?_getD] using this
          | succ c =>
            have hc' : c < xs.length := by simpa using hc
            have := hmax c hc'
            simpa [List.getD_eq_getElem?_getD] using this

/-- If some cell exceeds the initial value, the scan returns a cell holding the maximum. -/
theorem argmaxScan_spec (l : List ℚ) (init : ℚ) (hex : ∃ x ∈ l, init < x) :
    ∃ j, j < l.length ∧ argmaxScan ltQ init l = some j ∧ ∀ c, c < l.length → l.getD c 0 ≤ l.getD j 0 := by
  rcases argmaxGo_spec l 0 init none with ⟨hall, _⟩ | ⟨j, hj, hr, _, hmax⟩
  · obtain ⟨x, hx, hlt⟩ := hex
    exact absurd (hall x hx) (not_le.mpr hlt)
  · exact ⟨j, hj, by simpa [argmaxScan] using hr, hmax⟩

/-! ### One `pickStep` of the list model is one `pickAt` on the views -/

/-- The working copy and the counts of a list state, as functions on `Fin n`. -/
def view (s : Allot ℚ) : St n := { r := fun c => s.copy.getD c 0, k := fun c => s.counts.getD c 0 }

theorem getD_modify_rat (l : List ℚ) (j c : ℕ) (f : ℚ → ℚ) (hc : c < l.length) :
    (l.modify j f).getD c 0 = if j = c then f (l.getD c 0) else l.getD c 0 := by
  simp only [List.getD_eq_getElem?_getD, List.getElem?_modify, List.getElem?_eq_getElem hc]
  split <;> simp

theorem getD_modify_nat (l : List ℕ) (j c : ℕ) (f : ℕ → ℕ) (hc : c < l.length) :
    (l.modify j f).getD c 0 = if j = c then f (l.getD c 0) else l.getD c 0 := by
  simp only [List.getD_eq_getElem?_getD, List.getElem?_modify, List.getElem?_eq_getElem hc]
  split <;> simp

/-- The list-level invariant: lengths and the function-level invariant of the views. -/
structure LInv (p : List ℚ) (δ : ℚ) (t : ℕ) (s : Allot ℚ) : Prop where
  lenCopy : s.copy.length = p.length
  lenCounts : s.counts.length = p.length
  inv : PInv (n := p.length) (fun c => p.getD c 0) δ t (view s)

theorem sum_view (p : List ℚ) : ∑ c : Fin p.length, p.getD c 0 = p.sum := by
  rw [← Fin.sum_univ_getElem]
  apply Finset.sum_congr rfl
  intro c _
  simp

theorem linv_fresh (p : List ℚ) (hp0 : ∀ x ∈ p, 0 ≤ x) (δ : ℚ) (hδ : 0 < δ) :
    LInv p δ 0 (Allot.fresh p) := by
  refine ⟨rfl, by simp [Allot.fresh], ?_⟩
  have h0 : ∀ c : Fin p.length, 0 ≤ p.getD c 0 := by
    intro c
    have : p[c.1] ∈ p := List.getElem_mem c.2
    simpa [List.getD_eq_getElem?_getD] using hp0 _ this
  have := inv_init (n := p.length) (fun c => p.getD c 0) h0 δ hδ
  have hv : view (n := p.length) (Allot.fresh p) = { r := fun c => p.getD c 0, k := fun _ => 0 } := by
    simp only [view, Allot.fresh, St.mk.injEq, true_and]
    funext c
    simp [List.getD_eq_getElem?_getD, c.2]
  rw [hv]; exact this

theorem linv_step (p : List ℚ) (hp : p.sum = 1) (N : ℕ) (hN : 1 ≤ N) (init : ℚ) (hinit : init ≤ -1)
    (t : ℕ) (ht : t < N) (s : Allot ℚ) (h : LInv p (1 / N) t s) :
    LInv p (1 / N) (t + 1) (pickStep ltQ subQ init (1 / N) s).1 ∧
      (pickStep ltQ subQ init (1 / N) s).2.isSome := by
  have hsum : ∑ c : Fin p.length, p.getD c 0 = 1 := by rw [sum_view, hp]
  have hNpos : (0 : ℚ) < N := by exact_mod_cast hN
  have hδle : (1 : ℚ) / N ≤ 1 := by
    rw [div_le_one hNpos]; exact_mod_cast hN
  -- the window is not empty and every remaining share exceeds the initial value
  have hne : 0 < p.length := by
    rcases Nat.eq_zero_or_pos p.length with h0 | h0
    · have : p = [] := List.length_eq_zero_iff.mp h0
      rw [this] at hp; simp at hp
    · exact h0
  have hex : ∃ x ∈ s.copy, init < x := by
    have hl : 0 < s.copy.length := by rw [h.lenCopy]; exact hne
    refine ⟨s.copy[0], List.getElem_mem hl, ?_⟩
    have := h.inv.low ⟨0, hne⟩
    simp only [view, List.getD_eq_getElem?_getD, List.getElem?_eq_getElem hl, Option.getD_some] at this
    linarith
  obtain ⟨j, hj, hscan, hmaxl⟩ := argmaxScan_spec s.copy init hex
  have hjn : j < p.length := by rw [← h.lenCopy]; exact hj
  have hstep : pickStep ltQ subQ init (1 / N) s =
      ({ copy := s.copy.modify j (subQ · (1 / N)), counts := s.counts.modify j (· + 1) }, some j) := by
    simp [pickStep, hscan]
  rw [hstep]
  refine ⟨⟨by simp [h.lenCopy], by simp [h.lenCounts], ?_⟩, rfl⟩
  have hmax : ∀ c : Fin p.length, (view (n := p.length) s).r c ≤ (view (n := p.length) s).r ⟨j, hjn⟩ := by
    intro c
    exact hmaxl c (by rw [h.lenCopy]; exact c.2)
  have := inv_pickAt (fun c => p.getD c 0) hsum N hN t ht (view s) h.inv ⟨j, hjn⟩ hmax
  have hv : view (n := p.length)
      { copy := s.copy.modify j (subQ · (1 / N)), counts := s.counts.modify j (· + 1) } =
      pickAt ⟨j, hjn⟩ (1 / N) (view s) := by
    simp only [view, pickAt, St.mk.injEq]
    constructor
    · funext c
      rw [getD_modify_rat _ _ _ _ (by rw [h.lenCopy]; exact c.2)]
      by_cases hc : c = ⟨j, hjn⟩
      · subst hc; simp [subQ]
      · have : j ≠ c.1 := fun e => hc (Fin.ext e.symm)
        simp [this, Function.update_of_ne hc]
    · funext c
      rw [getD_modify_nat _ _ _ _ (by rw [h.lenCounts]; exact c.2)]
      by_cases hc : c = ⟨j, hjn⟩
      · subst hc; simp
      · have : j ≠ c.1 := fun e => hc (Fin.ext e.symm)
        simp [this, Function.update_of_ne hc]
  rw [hv]; exact this

theorem linv_run (p : List ℚ) (hp0 : ∀ x ∈ p, 0 ≤ x) (hp : p.sum = 1) (N : ℕ) (hN : 1 ≤ N)
    (init : ℚ) (hinit : init ≤ -1) :
    ∀ t, t ≤ N → LInv p (1 / N) t (runPicks ltQ subQ init (1 / N) t (Allot.fresh p))
  | 0, _ => by
      have hNpos : (0 : ℚ) < N := by exact_mod_cast hN
      exact linv_fresh p hp0 (1 / N) (by positivity)
  | t + 1, ht => by
      simp only [runPicks]
      exact (linv_step p hp N hN init hinit t (by omega) _
        (linv_run p hp0 hp N hN init hinit t (by omega))).1

/-! ### The property theorems, stated with the predicates of Model/DetPred.lean -/

/-- **Quota.** For every probability vector `p` (the normalised window), every `N ≥ 1` and every
    initial value `init ≤ -1` of the scan (the C++ uses `-(2^31 - 1)`): after the `N` calls for one
    source cell every window cell's allotment is within one disperser of its proportional share,
    `|k_c - N p_c| ≤ 1`; and at every earlier moment no cell is a whole disperser ahead. -/
theorem quota_list (p : List ℚ) (hp0 : ∀ x ∈ p, 0 ≤ x) (hp : p.sum = 1) (N : ℕ) (hN : 1 ≤ N)
    (init : ℚ) (hinit : init ≤ -1) :
    QuotaBound N p (runPicks ltQ subQ init (1 / N) N (Allot.fresh p)).counts 0 = true ∧
    ∀ t, t ≤ N → QuotaUpper N p (runPicks ltQ subQ init (1 / N) t (Allot.fresh p)).counts 0 = true := by
  constructor
  · have h := linv_run p hp0 hp N hN init hinit N le_rfl
    have hsum : ∑ c : Fin p.length, p.getD c 0 = 1 := by rw [sum_view, hp]
    have h0 : ∀ c : Fin p.length, 0 ≤ p.getD c 0 := by
      intro c
      have : p[c.1] ∈ p := List.getElem_mem c.2
      simpa [List.getD_eq_getElem?_getD] using hp0 _ this
    simp only [QuotaBound, List.all_eq_true, List.mem_range, Bool.and_eq_true, excess]
    intro c hc
    have := quota_of_inv (n := p.length) h0 hsum hN h.inv ⟨c, hc⟩
    simp only [view] at this
    exact ⟨decide_eq_true (by linarith [this.1]), decide_eq_true (by linarith [this.2])⟩
  · intro t ht
    have h := linv_run p hp0 hp N hN init hinit t ht
    simp only [QuotaUpper, QuotaUpperAt, List.all_eq_true, List.mem_range, excess]
    intro c hc
    have := upper_of_inv (n := p.length) hN h.inv ⟨c, hc⟩
    simp only [view] at this
    exact decide_eq_true (by linarith)

/-- **Equal shares / mirror.** At every moment of the `N` calls, cells with equal normalised weight
    (in particular mirror images in the window) have received the same number up to one disperser. -/
theorem equal_share_list (p : List ℚ) (hp0 : ∀ x ∈ p, 0 ≤ x) (hp : p.sum = 1) (N : ℕ) (hN : 1 ≤ N)
    (init : ℚ) (hinit : init ≤ -1) (t : ℕ) (ht : t ≤ N) :
    EqualShareBound p (runPicks ltQ subQ init (1 / N) t (Allot.fresh p)).counts = true := by
  have h := linv_run p hp0 hp N hN init hinit t ht
  simp only [EqualShareBound, List.all_eq_true, List.mem_range, Bool.or_eq_true, Bool.not_eq_true',
    beq_eq_false_iff_ne, ne_eq, near1, Bool.and_eq_true, decide_eq_true_eq]
  intro c hc d hd
  by_cases hpe : p.getD c 0 = p.getD d 0
  · right
    have h1 := h.inv.eq ⟨c, hc⟩ ⟨d, hd⟩ hpe
    have h2 := h.inv.eq ⟨d, hd⟩ ⟨c, hc⟩ hpe.symm
    simp only [view] at h1 h2
    exact ⟨h1, h2⟩
  · left; exact hpe

/-- Every one of the `N` calls finds a window cell (the scan never falls back to the zero movement),
    so exactly `t` dispersers have been allotted after `t` calls. -/
theorem picks_counted (p : List ℚ) (hp0 : ∀ x ∈ p, 0 ≤ x) (hp : p.sum = 1) (N : ℕ) (hN : 1 ≤ N)
    (init : ℚ) (hinit : init ≤ -1) (t : ℕ) (ht : t < N) :
    (pickStep ltQ subQ init (1 / N) (runPicks ltQ subQ init (1 / N) t (Allot.fresh p))).2.isSome = true :=
  (linv_step p hp N hN init hinit t ht _ (linv_run p hp0 hp N hN init hinit t (by omega))).2

end Pops.Det
