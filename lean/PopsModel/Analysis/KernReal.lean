/-
  C13, real-number facts (Mathlib, single modules): the radial geometry and the samplers of
  Model/KernRadial.lean instantiated at `TF.real` (Analysis/DetReal.lean).
  * rounding: `TF.real.lround` is odd, sign preserving, and agrees with the rational `lround`
  * geometry: angle 0 / pi/2 / pi / 3pi/2 move along one axis only; the eight compass directions
    have the stated signs of cosine and sine, hence of the row and column offsets
  * parameter wiring: for the six library samplers the density the C++ standard assigns to the
    constructed distribution equals the class's own `pdf`
-/
import PopsModel.Analysis.DetReal
import PopsModel.Lemmas.KernRadial
import Mathlib.Analysis.SpecialFunctions.Trigonometric.Basic
import Mathlib.Tactic.Ring
import Mathlib.Tactic.FieldSimp
import Mathlib.Tactic.NormNum
import Mathlib.Tactic.Linarith
import Mathlib.Tactic.Positivity

namespace Pops
open Real

/-! ### rounding -/

/-- `TF.real.lround` spelled out. -/
noncomputable def lroundR (x : ℝ) : ℤ := if 0 ≤ x then ⌊x + 1 / 2⌋ else -⌊-x + 1 / 2⌋

theorem real_lround_eq (x : ℝ) : TF.real.lround x = lroundR x := rfl

theorem lroundR_zero : lroundR 0 = 0 := by
  simp only [lroundR, le_refl, if_true, zero_add]
  rw [Int.floor_eq_iff]; norm_num

theorem lroundR_neg (x : ℝ) : lroundR (-x) = -lroundR x := by
  by_cases hx : x = 0
  · subst hx; simp [lroundR_zero]
  unfold lroundR
  by_cases h1 : 0 ≤ x <;> by_cases h2 : 0 ≤ -x
  · exfalso; apply hx; linarith
  · rw [if_pos h1, if_neg h2, neg_neg]
  · rw [if_neg h1, if_pos h2, neg_neg]
  · exfalso; have := not_le.mp h1; have := not_le.mp h2; linarith

theorem lroundR_nonneg {x : ℝ} (h : 0 ≤ x) : 0 ≤ lroundR x := by
  unfold lroundR; rw [if_pos h]; exact Int.floor_nonneg.mpr (by linarith)

theorem lroundR_nonpos {x : ℝ} (h : x ≤ 0) : lroundR x ≤ 0 := by
  have := lroundR_nonneg (x := -x) (by linarith)
  rw [lroundR_neg] at this; omega

/-- The real rounding restricted to rationals is the rational `lround` of Model/Basic.lean (the one
    the driver applies to the exact value of the floating-point quotient). -/
theorem lroundR_ratCast (q : ℚ) : lroundR (q : ℝ) = lround q := by
  unfold lroundR Pops.lround
  have h : ((0 : ℝ) ≤ q) ↔ (0 ≤ q) := by exact_mod_cast Iff.rfl
  by_cases hq : 0 ≤ q
  · rw [if_pos hq, if_pos (h.mpr hq)]
    have : ((q : ℝ) + 1 / 2) = ((q + 1 / 2 : ℚ) : ℝ) := by push_cast; ring
    rw [this, Rat.floor_cast]; rfl
  · rw [if_neg hq, if_neg (fun h' => hq (h.mp h'))]
    have : (-(q : ℝ) + 1 / 2) = ((-q + 1 / 2 : ℚ) : ℝ) := by push_cast; ring
    rw [this, Rat.floor_cast]; rfl

/-- Rounding is within half a unit. -/
theorem lroundR_close (x : ℝ) : |(lroundR x : ℝ) - x| ≤ 1 / 2 := by
  unfold lroundR
  by_cases h : 0 ≤ x
  · rw [if_pos h, abs_le]
    have h1 := Int.floor_le (x + 1 / 2)
    have h2 := Int.lt_floor_add_one (x + 1 / 2)
    constructor <;> linarith
  · rw [if_neg h, abs_le]
    have h1 := Int.floor_le (-x + 1 / 2)
    have h2 := Int.lt_floor_add_one (-x + 1 / 2)
    push_cast
    constructor <;> linarith

/-! ### geometry -/

theorem radialTarget_real (row col : ℤ) (d theta ns ew : ℝ) :
    radialTarget TF.real row col d theta ns ew =
      (row - lroundR (d * cos theta / ns), col + lroundR (d * sin theta / ew)) := rfl

theorem radial_theta_zero (row col : ℤ) (d ns ew : ℝ) :
    radialTarget TF.real row col d 0 ns ew = (row - lroundR (d / ns), col) := by
  rw [radialTarget_real, cos_zero, sin_zero, mul_one, mul_zero, zero_div, lroundR_zero, add_zero]

theorem radial_theta_half_pi (row col : ℤ) (d ns ew : ℝ) :
    radialTarget TF.real row col d (π / 2) ns ew = (row, col + lroundR (d / ew)) := by
  rw [radialTarget_real, cos_pi_div_two, sin_pi_div_two, mul_one, mul_zero, zero_div, lroundR_zero, sub_zero]

theorem radial_theta_pi (row col : ℤ) (d ns ew : ℝ) :
    radialTarget TF.real row col d π ns ew = (row + lroundR (d / ns), col) := by
  rw [radialTarget_real, cos_pi, sin_pi, mul_zero, zero_div, lroundR_zero, add_zero, mul_neg, mul_one,
    neg_div, lroundR_neg, sub_neg_eq_add]

theorem radial_theta_three_half_pi (row col : ℤ) (d ns ew : ℝ) :
    radialTarget TF.real row col d (3 * π / 2) ns ew = (row, col - lroundR (d / ew)) := by
  have hc : cos (3 * π / 2) = 0 := by
    have : 3 * π / 2 = π / 2 + π := by ring
    rw [this, cos_add_pi, cos_pi_div_two, neg_zero]
  have hs : sin (3 * π / 2) = -1 := by
    have : 3 * π / 2 = π / 2 + π := by ring
    rw [this, sin_add_pi, sin_pi_div_two]
  rw [radialTarget_real, hc, hs, mul_zero, zero_div, lroundR_zero, sub_zero, mul_neg, mul_one, neg_div,
    lroundR_neg]
  rfl

theorem directionMu_real (d : Direction) : directionMu TF.real d = (d.degrees.toNat : ℝ) * π / 180 := by
  simp [directionMu, TF.real]

/-- Signs of cosine and sine of the eight coded angles (degrees clockwise from north). -/
theorem compass_signs (d : Direction) (hd : d ≠ .none) :
    (d.northSign = 1 → 0 < cos (directionMu TF.real d)) ∧
    (d.northSign = -1 → cos (directionMu TF.real d) < 0) ∧
    (d.northSign = 0 → cos (directionMu TF.real d) = 0) ∧
    (d.eastSign = 1 → 0 < sin (directionMu TF.real d)) ∧
    (d.eastSign = -1 → sin (directionMu TF.real d) < 0) ∧
    (d.eastSign = 0 → sin (directionMu TF.real d) = 0) := by
  have hpi := pi_pos
  rw [directionMu_real]
  cases d
  case none => exact absurd rfl hd
  case N =>
    have h : ((Direction.N.degrees.toNat : ℕ) : ℝ) * π / 180 = 0 := by
      have : Direction.N.degrees.toNat = 0 := rfl
      rw [this]; push_cast; ring
    rw [h]; simp [Direction.northSign, Direction.eastSign]
  case NE =>
    have h : ((Direction.NE.degrees.toNat : ℕ) : ℝ) * π / 180 = π / 4 := by
      have : Direction.NE.degrees.toNat = 45 := rfl
      rw [this]; push_cast; ring
    rw [h]
    refine ⟨fun _ => ?_, by simp [Direction.northSign], by simp [Direction.northSign], fun _ => ?_,
      by simp [Direction.eastSign], by simp [Direction.eastSign]⟩
    · exact cos_pos_of_mem_Ioo ⟨by linarith, by linarith⟩
    · exact sin_pos_of_pos_of_lt_pi (by linarith) (by linarith)
  case E =>
    have h : ((Direction.E.degrees.toNat : ℕ) : ℝ) * π / 180 = π / 2 := by
      have : Direction.E.degrees.toNat = 90 := rfl
      rw [this]; push_cast; ring
    rw [h]; simp [Direction.northSign, Direction.eastSign]
  case SE =>
    have h : ((Direction.SE.degrees.toNat : ℕ) : ℝ) * π / 180 = 3 * π / 4 := by
      have : Direction.SE.degrees.toNat = 135 := rfl
      rw [this]; push_cast; ring
    rw [h]
    refine ⟨by simp [Direction.northSign], fun _ => ?_, by simp [Direction.northSign], fun _ => ?_,
      by simp [Direction.eastSign], by simp [Direction.eastSign]⟩
    · exact cos_neg_of_pi_div_two_lt_of_lt (by linarith) (by linarith)
    · exact sin_pos_of_pos_of_lt_pi (by linarith) (by linarith)
  case S =>
    have h : ((Direction.S.degrees.toNat : ℕ) : ℝ) * π / 180 = π := by
      have : Direction.S.degrees.toNat = 180 := rfl
      rw [this]; push_cast; ring
    rw [h]; simp [Direction.northSign, Direction.eastSign]
  case SW =>
    have h : ((Direction.SW.degrees.toNat : ℕ) : ℝ) * π / 180 = 5 * π / 4 := by
      have : Direction.SW.degrees.toNat = 225 := rfl
      rw [this]; push_cast; ring
    rw [h]
    refine ⟨by simp [Direction.northSign], fun _ => ?_, by simp [Direction.northSign],
      by simp [Direction.eastSign], fun _ => ?_, by simp [Direction.eastSign]⟩
    · exact cos_neg_of_pi_div_two_lt_of_lt (by linarith) (by linarith)
    · have : 5 * π / 4 = π / 4 + π := by ring
      rw [this, sin_add_pi]
      have := sin_pos_of_pos_of_lt_pi (x := π / 4) (by linarith) (by linarith)
      linarith
  case W =>
    have h : ((Direction.W.degrees.toNat : ℕ) : ℝ) * π / 180 = π / 2 + π := by
      have : Direction.W.degrees.toNat = 270 := rfl
      rw [this]; push_cast; ring
    rw [h, cos_add_pi, sin_add_pi]; simp [Direction.northSign, Direction.eastSign]
  case NW =>
    have h : ((Direction.NW.degrees.toNat : ℕ) : ℝ) * π / 180 = -(π / 4) + 2 * π := by
      have : Direction.NW.degrees.toNat = 315 := rfl
      rw [this]; push_cast; ring
    rw [h, cos_add_two_pi, sin_add_two_pi, cos_neg, sin_neg]
    refine ⟨fun _ => ?_, by simp [Direction.northSign], by simp [Direction.northSign],
      by simp [Direction.eastSign], fun _ => ?_, by simp [Direction.eastSign]⟩
    · exact cos_pos_of_mem_Ioo ⟨by linarith, by linarith⟩
    · have := sin_pos_of_pos_of_lt_pi (x := π / 4) (by linarith) (by linarith)
      linarith

/-- A disperser sent in a compass direction moves north (row not larger) iff the direction has a
    northward component, east (column not smaller) iff an eastward one, for every distance and
    every positive resolution. -/
theorem compass_move (d : Direction) (hd : d ≠ .none) (row col : ℤ) (dist ns ew : ℝ)
    (hdist : 0 ≤ dist) (hns : 0 < ns) (hew : 0 < ew) :
    let t := radialTarget TF.real row col dist (directionMu TF.real d) ns ew
    (d.northSign = 1 → t.1 ≤ row) ∧ (d.northSign = -1 → row ≤ t.1) ∧ (d.northSign = 0 → t.1 = row) ∧
    (d.eastSign = 1 → col ≤ t.2) ∧ (d.eastSign = -1 → t.2 ≤ col) ∧ (d.eastSign = 0 → t.2 = col) := by
  obtain ⟨c1, c2, c3, s1, s2, s3⟩ := compass_signs d hd
  simp only [radialTarget_real]
  refine ⟨fun h => ?_, fun h => ?_, fun h => ?_, fun h => ?_, fun h => ?_, fun h => ?_⟩
  · have : 0 ≤ dist * cos (directionMu TF.real d) / ns := div_nonneg (mul_nonneg hdist (c1 h).le) hns.le
    have := lroundR_nonneg this; omega
  · have : dist * cos (directionMu TF.real d) / ns ≤ 0 :=
      div_nonpos_of_nonpos_of_nonneg (mul_nonpos_of_nonneg_of_nonpos hdist (c2 h).le) hns.le
    have := lroundR_nonpos this; omega
  · rw [c3 h, mul_zero, zero_div, lroundR_zero]; omega
  · have : 0 ≤ dist * sin (directionMu TF.real d) / ew := div_nonneg (mul_nonneg hdist (s1 h).le) hew.le
    have := lroundR_nonneg this; omega
  · have : dist * sin (directionMu TF.real d) / ew ≤ 0 :=
      div_nonpos_of_nonpos_of_nonneg (mul_nonpos_of_nonneg_of_nonpos hdist (s2 h).le) hew.le
    have := lroundR_nonpos this; omega
  · rw [s3 h, mul_zero, zero_div, lroundR_zero]; omega

/-! ### parameter wiring: standard density of the constructed distribution = the class's pdf -/

theorem wiring_cauchy (s shape x : ℝ) :
    (lawSampler TF.real .cauchy s shape).density TF.real x = some (lawPdf TF.real .cauchy s shape x) := by
  simp only [lawSampler, Sampler.density, lawPdf, cauchyPdf, TF.real, Nat.cast_zero, sub_zero,
    Option.some.injEq]
  rw [mul_comm π s]

theorem wiring_exponential (beta shape x : ℝ) :
    (lawSampler TF.real .exponential beta shape).density TF.real x =
      some (lawPdf TF.real .exponential beta shape x) := by
  simp only [lawSampler, Sampler.density, lawPdf, exponentialPdf, TF.real, Nat.cast_one, Option.some.injEq]
  congr 2
  rw [one_div, inv_mul_eq_div, neg_div]

theorem wiring_weibull (scale shape x : ℝ) :
    (lawSampler TF.real .weibull scale shape).density TF.real x =
      some (lawPdf TF.real .weibull scale shape x) := rfl

theorem wiring_normal (sigma shape x : ℝ) (hs : sigma ≠ 0) :
    (lawSampler TF.real .normal sigma shape).density TF.real x =
      some (lawPdf TF.real .normal sigma shape x) := by
  simp only [lawSampler, Sampler.density, lawPdf, normalPdf, TF.real, Nat.cast_zero, sub_zero,
    Nat.cast_one, Nat.cast_ofNat, Option.some.injEq, decide_eq_true_eq]
  have h2 : ∀ y : ℝ, y ^ (2 : ℝ) = y ^ (2 : ℕ) := fun y => by
    rw [← Real.rpow_natCast]; norm_num
  simp only [h2]
  by_cases h1 : sigma = 1
  · rw [if_pos h1]; subst h1
    congr 1
    · rw [one_mul]
    · congr 1; ring
  · rw [if_neg h1]
    congr 2
    field_simp

theorem wiring_lognormal (sigma shape x : ℝ) (hx : 0 < x) :
    (lawSampler TF.real .logNormal sigma shape).density TF.real x =
      some (lawPdf TF.real .logNormal sigma shape x) := by
  simp only [lawSampler, Sampler.density, lawPdf, lognormalPdf, TF.real, Nat.cast_zero, sub_zero,
    Option.some.injEq, decide_eq_true_eq]
  rw [if_neg hx.ne', mul_comm sigma x]

theorem wiring_gamma (alpha theta x : ℝ) :
    (lawSampler TF.real .gamma alpha theta).density TF.real x =
      some (lawPdf TF.real .gamma alpha theta x) := by
  simp only [lawSampler, Sampler.density, lawPdf, gammaPdf, TF.real, Nat.cast_one, Option.some.injEq]
  rw [mul_comm (theta ^ alpha) (Gamma alpha)]
  ring

/-! ### von Mises over the reals -/

theorem vonMisesEps_real : vonMisesEps TF.real = 1 / 1000000 := by
  simp [vonMisesEps, TF.real]

/-- `kappa <= 1e-6` (as coded): the angle is `2 pi U` for the single uniform value `U` consumed. -/
theorem vonMises_small_real (mu kappa u : ℝ) (rest : List ℝ) (h : kappa ≤ 1 / 1000000) :
    vonMises TF.real mu kappa (u :: rest) = some (2 * π * u, rest) := by
  have := vonMises_small_kappa TF.real mu kappa u rest (by
    rw [vonMisesEps_real]; simp only [TF.real, decide_eq_true_eq]; exact h)
  rw [this]; simp [TF.real]

/-- No direction configured: uniform angle, whatever concentration was configured. -/
theorem vonMises_none_real (mu kappa u : ℝ) (rest : List ℝ) :
    vonMises TF.real mu (directionKappa TF.real .none kappa) (u :: rest) = some (2 * π * u, rest) := by
  rw [directionKappa_none]
  exact vonMises_small_real mu _ u rest (by simp [TF.real])

/-- `fmod(x, 2 pi)` differs from `x` by a whole number of turns. -/
theorem fmod_real_turns (x : ℝ) : ∃ k : ℤ, TF.real.fmod x (2 * π) = x - 2 * π * k := by
  simp only [TF.real]
  by_cases h : 0 ≤ x / (2 * π)
  · exact ⟨⌊x / (2 * π)⌋, by rw [if_pos h]⟩
  · exact ⟨⌈x / (2 * π)⌉, by rw [if_neg h]⟩

/-- `kappa > 1e-6`: the angle is `mu + arccos f` or `mu - arccos f` up to whole turns, the sign being
    decided by `u3 > 1/2` for a further uniform value `u3` (a fair draw), with the same `f`. -/
theorem vonMises_mirror_real (mu kappa theta : ℝ) (us rest : List ℝ) (h : 1 / 1000000 < kappa)
    (hv : vonMises TF.real mu kappa us = some (theta, rest)) :
    ∃ (f u3 : ℝ) (k : ℤ), (1 / 2 < u3 ∧ theta = mu + arccos f - 2 * π * k) ∨
                           (u3 ≤ 1 / 2 ∧ theta = mu - arccos f - 2 * π * k) := by
  have hk : TF.real.leb kappa (vonMisesEps TF.real) = false := by
    rw [vonMisesEps_real]; simp only [TF.real, decide_eq_false_iff_not, not_le]; exact h
  obtain ⟨f, u3, hcase⟩ := vonMises_forms TF.real mu kappa theta us rest hk hv
  have e2 : TF.real.mul (TF.real.ofNat 2) TF.real.pi = 2 * π := by simp [TF.real]
  have eh : TF.real.div (TF.real.ofNat 1) (TF.real.ofNat 2) = 1 / 2 := by simp [TF.real]
  rcases hcase with ⟨hlt, ht⟩ | ⟨hlt, ht⟩
  · rw [e2] at ht
    obtain ⟨k, hk'⟩ := fmod_real_turns (TF.real.add mu (TF.real.acos f))
    refine ⟨f, u3, k, Or.inl ⟨?_, ?_⟩⟩
    · rw [eh] at hlt; simpa [TF.real] using hlt
    · rw [ht, hk']; simp [TF.real]
  · rw [e2] at ht
    obtain ⟨k, hk'⟩ := fmod_real_turns (TF.real.sub mu (TF.real.acos f))
    refine ⟨f, u3, k, Or.inr ⟨?_, ?_⟩⟩
    · rw [eh] at hlt; simpa [TF.real] using hlt
    · rw [ht, hk']; simp [TF.real]

/-- The ten constructor guards together: the radial kernel is constructed iff scale and shape are
    positive (the rational guard `radialCtorOk` of the factory model). -/
theorem radial_make_real (ew ns : ℝ) (t : DispersalKernelType) (scale : ℝ) (dir : Direction) (kappa shape : ℝ) :
    (RadialKernel.make TF.real ew ns t scale dir kappa shape).toBool = true ↔ 0 < scale ∧ 0 < shape := by
  unfold RadialKernel.make
  simp only [Law.all, List.all_cons, List.all_nil, lawCtorOk, TF.real, Nat.cast_zero, Bool.and_true]
  by_cases h1 : 0 < scale <;> by_cases h2 : 0 < shape
  · have a := not_le.mpr h1; have b := not_le.mpr h2
    simp [a, b, h1, h2, h1.ne', h2.ne', Except.toBool]
  · have b := not_lt.mp h2
    simp [b, h2, Except.toBool]
  · have a := not_lt.mp h1
    simp [a, h1, Except.toBool]
  · have a := not_lt.mp h1
    simp [a, h1, Except.toBool]

/-! ### mix: counting the uniform values that select the anthropogenic kernel -/

/-- Of the `n` equally spaced values `u = k/n` of a uniform draw, exactly `n - m` select the
    anthropogenic kernel when the natural share is `m/n`: probability `1 - m/n`. -/
theorem mix_count (n m : ℕ) (hn : 0 < n) :
    mixAnthroCount true true n ((m : ℚ) / (n : ℚ)) = n - m := by
  unfold mixAnthroCount
  have hpos : (0 : ℚ) < n := by exact_mod_cast hn
  have : ∀ k : ℕ, mixUsesAnthropogenic true true ((k : ℚ) / n) ((m : ℚ) / n) = decide (m ≤ k) := by
    intro k
    rw [Bool.eq_iff_iff, mix_iff, decide_eq_true_iff]
    simp only [true_and]
    rw [div_le_div_iff_of_pos_right hpos]
    exact_mod_cast Iff.rfl
  simp only [this]
  exact count_ge n m

end Pops
